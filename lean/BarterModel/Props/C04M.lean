import BarterModel.Lemmas.MockInstruments
import BarterModel.Props.C04
import BarterModel.Props.C08
import BarterModel.Props.C11
/-!
# Sub-check C04M — the mock exchange instrument table `ExecutionBuilder` derives from the indexed instruments

Model: `Model/MockInstruments.lean` (concrete model of `generate_mock_exchange_instruments`,
`add_mock` / `add_live` / `build` / `init`, the table lookups of `MockExchange`, one open request end
to end; abstract specification from the documented intent). Reused unchanged: `Model/Index` (C11),
`Model/ExecMap` (C04), `Model/MockExchange` (C08).

Sections
* A — the table, for EVERY indexed collection (also ones the builder cannot produce) and every
  exchange id: keys, entries, field-by-field content, collision convention, panics.
* B — the table for builder output (C11): never dangling, set up iff all spot, round trip to the
  definitions, refinement to the definition-level specification.
* C — composition with the execution instrument map (C04): the manager's names are the table's keys;
  the names in an entry translate back to the instrument's own asset indices.
* D — the builder: order of the checks in `add_mock`, the transmitter table is C04's, what is spawned
  for which exchange, which mock client shares its channels with which mock exchange.
* E — the running system, for every reachable state: an order the engine opens for (exchange index,
  instrument index) moves the balance of that instrument's own asset index and is reported under its
  own instrument index; composition with the C08 ledger.
* F — what the `spec` driver states since the oracle review (rejection reasons, initial snapshot,
  live links).
* G — COMPOSITION (theorem review A, C04M-1): in the built system the mock exchange task behind a
  link IS the isolated `mockRun` of sections E / F on the requests routed to it; the composed
  refinement the `spec` driver prints.
* H — the manager's 1 s request timeout on mock links (theorem review A, C04M-2): below / at the
  threshold, "ledger debited although the engine saw a timeout".

Hypotheses (theorem review A, C04M-3): C11's `WFAssets` is needed ONLY where table entries are compared
with DEFINITIONS (`round_trip`, `refines_definition_spec`); every index-level statement (C2, E2, E4 –
E7, G, H) holds for builder output without it (`ViewHypW`, `refs_own_exchange_w`: an asset index of a
builder-made instrument always points at an asset entry of the instrument's own exchange).
-/
namespace BarterModel.Props.C04M
open BarterModel.Index BarterModel.MockInstruments

/-! ## A. The table, for every indexed collection and every exchange id -/

/-- (A1) `lookup_refines_spec`: what the mock exchange answers for a name is the specification
lookup: the instrument of `ex` carrying that exchange name, in the exchange's own vocabulary (asset
indices replaced by asset exchange names); nothing for any other name. -/
theorem lookup_refines_spec {ii : Indexed} {ex : Nat} {t : Table}
    (h : genMockInstruments ii ex = .ok t) (n : Nat) :
    findInstrumentData t n = specLookup ii ex n :=
  lookup_genMock ii ex t h n

/-- (A2) `keys_exact`: the keys of the table are exactly the exchange names of the instruments whose
`exchange.value` is `ex` — none missing, none of another exchange. -/
theorem keys_exact {ii : Indexed} {ex : Nat} {t : Table} (h : genMockInstruments ii ex = .ok t)
    (n : Nat) :
    n ∈ t.map (·.1) ↔ ∃ x ∈ ii.instruments, x.value.exchange.value = ex ∧ x.value.nameExchange = n := by
  rw [genMock_keys ii ex t h]
  constructor
  · rintro ⟨i, hi, hn⟩
    obtain ⟨x, hx, he, rfl⟩ := (mem_ofExchange ii ex i).mp hi
    exact ⟨x, hx, he, hn⟩
  · rintro ⟨x, hx, he, hn⟩
    exact ⟨x.value, (mem_ofExchange ii ex _).mpr ⟨x, hx, he, rfl⟩, hn⟩

/-- (A3) a hash map: every key once. -/
theorem keys_once {ii : Indexed} {ex : Nat} {t : Table} (h : genMockInstruments ii ex = .ok t) :
    (t.map (·.1)).Nodup := by
  obtain ⟨pairs, _, rfl⟩ := (genMock_ok_iff ii ex t).mp h
  exact collectG_keys_nodup pairs

/-- (A4) `entry_sound`: every entry is keyed by its own `name_exchange`, carries exchange id `ex`,
is spot, and is the native form of an instrument of `ex` of the collection: no instrument of another
exchange ever enters the table. -/
theorem entry_sound {ii : Indexed} {ex : Nat} {t : Table} (h : genMockInstruments ii ex = .ok t)
    {n : Nat} {e : MInstrument} (he : (n, e) ∈ t) :
    e.nameExchange = n ∧ e.exchange = ex ∧ e.kind = .spot ∧
    ∃ x ∈ ii.instruments, x.value.exchange.value = ex ∧ x.value.nameExchange = n ∧
      x.value.kind = .spot ∧ nativeI ii x.value = some e := by
  obtain ⟨i, hi, hk, hn, hnat⟩ := genMock_mem ii ex t h (n, e) he
  obtain ⟨x, hx, hex, rfl⟩ := (mem_ofExchange ii ex i).mp hi
  simp only at hn hnat
  unfold nativeI at hnat
  obtain ⟨h1, _, h3, _, _, _, h7, _⟩ := mapAsset_some _ _ _ hnat
  simp only [Instrument.mapExchangeKey] at h1 h3 h7
  refine ⟨by rw [h3, hn], by rw [h1, hex], ?_, x, hx, hex, hn.symm, hk, hnat⟩
  rw [hk] at h7; simpa [Kind.mapOpt] using h7.symm

/-- (A5) `fields_carried_over`: the native form, field by field — exchange id, both names and the
quote-asset marker unchanged; base / quote are the exchange names of the asset entries with the
instrument's base / quote keys; the spec is absent iff it was absent, and otherwise price (min,
tick), quantity (min, increment) and notional (min) are unchanged and the quantity unit is carried
over with an asset index replaced by that asset's exchange name (`Contract`, `Quote` unchanged). -/
theorem fields_carried_over {ii : Indexed} {i : IInstrument} {e : MInstrument}
    (h : nativeI ii i = some e) :
    e.exchange = i.exchange.value ∧ e.nameInternal = i.nameInternal ∧ e.nameExchange = i.nameExchange ∧
    e.quoteAsset = i.quoteAsset ∧
    (ii.findAsset i.base).map (·.asset.nameExchange) = some e.base ∧
    (ii.findAsset i.quote).map (·.asset.nameExchange) = some e.quote ∧
    (match i.spec, e.spec with
      | none, none => True
      | some s, some s' =>
        s'.priceMin = s.priceMin ∧ s'.tick = s.tick ∧ s'.qtyMin = s.qtyMin ∧ s'.qtyInc = s.qtyInc ∧
        s'.notionalMin = s.notionalMin ∧
        (match s.unit, s'.unit with
          | .asset a, .asset n => (ii.findAsset a).map (·.asset.nameExchange) = some n
          | .contract, .contract => True
          | .quote, .quote => True
          | _, _ => False)
      | _, _ => False) := by
  unfold nativeI at h
  obtain ⟨h1, h2, h3, h4, h5, h6, _, h8⟩ := mapAsset_some _ _ _ h
  simp only [Instrument.mapExchangeKey] at h1 h2 h3 h4 h5 h6 h8
  refine ⟨h1, h2, h3, h4, h5, h6, ?_⟩
  cases hs : i.spec with
  | none => rw [hs] at h8; simp only [specMapOpt, Option.some.injEq] at h8; rw [← h8]; trivial
  | some s =>
    obtain ⟨pm, tk, u, qm, qi, nm⟩ := s
    rw [hs] at h8
    simp only [specMapOpt, Option.map_eq_some_iff] at h8
    obtain ⟨u', hu, hu'⟩ := h8
    rw [← hu']
    refine ⟨rfl, rfl, rfl, rfl, rfl, ?_⟩
    cases u with
    | asset a =>
      simp only [Units.mapOpt, Option.map_eq_some_iff] at hu
      obtain ⟨n, hn, rfl⟩ := hu
      show (ii.findAsset a).map (·.asset.nameExchange) = some n
      obtain ⟨y, hy, rfl⟩ := hn
      rw [hy]; rfl
    | contract => simp only [Units.mapOpt, Option.some.injEq] at hu; subst hu; trivial
    | quote => simp only [Units.mapOpt, Option.some.injEq] at hu; subst hu; trivial

/-- (A6) `complete_when_names_unique`: if no two instruments of `ex` share an exchange name, every
instrument of `ex` is found under its name, in its own native form; and the table has exactly one
entry per instrument of `ex`. -/
theorem complete_when_names_unique {ii : Indexed} {ex : Nat} {t : Table}
    (h : genMockInstruments ii ex = .ok t)
    (hu : ∀ a ∈ ofExchange ii ex, ∀ b ∈ ofExchange ii ex, a.nameExchange = b.nameExchange → a = b) :
    (∀ i ∈ ofExchange ii ex, ∃ e, findInstrumentData t i.nameExchange = some e ∧ nativeI ii i = some e) ∧
    (((ofExchange ii ex).map (·.nameExchange)).Nodup → t.length = (ofExchange ii ex).length) := by
  refine ⟨?_, genMock_length_unique ii ex t h⟩
  intro i hi
  obtain ⟨_, e, he⟩ := ((genMock_ok_iff_all ii ex).mp ⟨t, h⟩) i hi
  refine ⟨e, ?_, he⟩
  rw [lookup_genMock ii ex t h, specLookup, lastNamed_of_unique _ hu i hi]
  simpa using he

/-- (A7) `collision_last_wins`: when several instruments of `ex` share an exchange name, the table
holds under that name the LAST of them in instrument-index order (`collect()` into a hash map:
a later insert replaces the value), whatever precedes it; the earlier ones are not reachable by
name, and the table is never larger than the list of instruments of `ex`. -/
theorem collision_last_wins {ii : Indexed} {ex : Nat} {t : Table}
    (h : genMockInstruments ii ex = .ok t) {pre post : List IInstrument} {j : IInstrument}
    (hl : ofExchange ii ex = pre ++ j :: post) (hpost : ∀ k ∈ post, k.nameExchange ≠ j.nameExchange) :
    findInstrumentData t j.nameExchange = nativeI ii j ∧ t.length ≤ (ofExchange ii ex).length := by
  refine ⟨?_, genMock_length_le ii ex t h⟩
  rw [lookup_genMock ii ex t h, specLookup, hl, lastNamed_append]
  have : lastNamed (j :: post) j.nameExchange = some j := by
    simp only [lastNamed, (lastNamed_eq_none_iff post _).mpr hpost, if_true]
  rw [this]; rfl

/-- (A8) `sets_up_iff`: table generation succeeds exactly when every instrument of `ex` is spot and
all its asset indices have an entry; instruments of OTHER exchanges are never looked at (a
perpetual on another exchange does not disturb the mock of `ex`). -/
theorem sets_up_iff (ii : Indexed) (ex : Nat) :
    (∃ t, genMockInstruments ii ex = .ok t) ↔
      ∀ x ∈ ii.instruments, x.value.exchange.value = ex →
        x.value.kind = .spot ∧ ∃ e, nativeI ii x.value = some e := by
  rw [genMock_ok_iff_all]
  constructor
  · intro hall x hx he
    exact hall x.value ((mem_ofExchange ii ex _).mpr ⟨x, hx, he, rfl⟩)
  · intro hall i hi
    obtain ⟨x, hx, he, rfl⟩ := (mem_ofExchange ii ex i).mp hi
    exact hall x hx he

/-- (A9) `panic_is_first_offender`: the generation panics with reason `p` exactly when the FIRST
instrument of `ex` (in instrument-index order) that is non-spot or has a dangling asset index has
that defect: `unsupportedKind` for a non-spot instrument (checked before its assets),
`unknownAsset` for a spot instrument with a dangling index. -/
theorem panic_is_first_offender (ii : Indexed) (ex : Nat) (p : Panic) :
    genMockInstruments ii ex = .error p ↔
      ∃ pre x post, ofExchange ii ex = pre ++ x :: post ∧
        (∀ y ∈ pre, y.kind = .spot ∧ ∃ e, nativeI ii y = some e) ∧
        ((x.kind ≠ .spot ∧ p = .unsupportedKind) ∨
         (x.kind = .spot ∧ nativeI ii x = none ∧ p = .unknownAsset)) := by
  rw [genMock_error_iff]
  constructor
  · rintro ⟨pre, x, post, hl, hpre, hx⟩
    refine ⟨pre, x, post, hl, ?_, (mockEntry_error_iff ii x p).mp hx⟩
    intro y hy
    obtain ⟨z, hz⟩ := hpre y hy
    obtain ⟨hk, _, hn⟩ := (mockEntry_ok_iff ii y z).mp hz
    exact ⟨hk, _, hn⟩
  · rintro ⟨pre, x, post, hl, hpre, hx⟩
    refine ⟨pre, x, post, hl, ?_, (mockEntry_error_iff ii x p).mpr hx⟩
    intro y hy
    obtain ⟨hk, e, he⟩ := hpre y hy
    exact ⟨(y.nameExchange, e), (mockEntry_ok_iff ii y _).mpr ⟨hk, rfl, he⟩⟩

/-! ## B. Builder output (every collection `IndexedInstruments::new` can produce) -/

/-- (B1) `builder_never_dangling`: for a collection made by the builder the only possible panic is
the unsupported kind — `find_asset(..).unwrap()` never fails. No hypothesis on the definitions. -/
theorem builder_never_dangling {defs : List Def} {ii : Indexed} (h : build defs = some ii) (ex : Nat) :
    genMockInstruments ii ex ≠ .error .unknownAsset := by
  intro he
  have := genMock_build_error h ex _ he
  cases this

/-- (B2) `sets_up_iff_all_spot`: the mock exchange of `ex` can be set up iff every definition of `ex`
is spot (specification `specSupported`); otherwise `add_mock` panics with "does not support". An
exchange without definitions gets the empty table. -/
theorem sets_up_iff_all_spot {defs : List Def} {ii : Indexed} (h : build defs = some ii) (ex : Nat) :
    ((∃ t, genMockInstruments ii ex = .ok t) ↔ specSupported defs ex) ∧
    (¬ specSupported defs ex → genMockInstruments ii ex = .error .unsupportedKind) ∧
    ((∀ d ∈ defs, d.exchange ≠ ex) → genMockInstruments ii ex = .ok []) := by
  refine ⟨genMock_build_ok_iff h ex, ?_, ?_⟩
  · intro hns
    cases hg : genMockInstruments ii ex with
    | ok t => exact absurd ((genMock_build_ok_iff h ex).mp ⟨t, hg⟩) hns
    | error e => rw [genMock_build_error h ex e hg]
  · intro hno
    have hempty : ofExchange ii ex = [] := by
      apply List.eq_nil_iff_forall_not_mem.mpr
      intro i hi
      obtain ⟨d, hd, _⟩ := def_of_ofExchange h ex i hi
      simp only [specManaged, List.mem_filter, beq_iff_eq] at hd
      exact hno d hd.1 hd.2
    simp [genMockInstruments, hempty, ExecMap.mapE, ExecMap.collectG]

/-- (B3) `round_trip`: with C11's `WFAssets`, every entry of the table is the native form of a
definition of `ex` (its base / quote / unit names are the exchange names of the assets the
definition names — C11 `references_resolve` read backwards), under that definition's exchange name;
and every definition of `ex` has an instrument of `ex` whose native form is the definition's. -/
theorem round_trip {defs : List Def} {ii : Indexed} (h : build defs = some ii) (hwf : WFAssets defs)
    {ex : Nat} {t : Table} (ht : genMockInstruments ii ex = .ok t) :
    (∀ n e, (n, e) ∈ t → ∃ d ∈ defs, d.exchange = ex ∧ d.nameExchange = n ∧ e = native d) ∧
    (∀ d ∈ defs, d.exchange = ex → d.nameExchange ∈ t.map (·.1)) := by
  constructor
  · intro n e he
    obtain ⟨i, hi, _, hn, hnat⟩ := genMock_mem ii ex t ht (n, e) he
    obtain ⟨d, hd, hne, _, hw⟩ := def_of_ofExchange h ex i hi
    simp only [specManaged, List.mem_filter, beq_iff_eq] at hd
    simp only at hn hnat
    refine ⟨d, hd.1, hd.2, by rw [hn, hne], ?_⟩
    have := hw hwf
    rw [hnat] at this; injection this
  · intro d hd hde
    obtain ⟨i, hi, hne, _, _⟩ := ofExchange_of_def h ex d
      (by simp only [specManaged, List.mem_filter, beq_iff_eq]; exact ⟨hd, hde⟩)
    exact (genMock_keys ii ex t ht _).mpr ⟨i, hi, hne⟩

/-- (B4) `refines_definition_spec`: with `WFAssets` and unambiguous instrument names on `ex`, asking
the mock exchange for a name gives exactly what the definition-level specification says: the native
form of THE definition of `ex` with that name, nothing otherwise. Indices have disappeared from the
statement. -/
theorem refines_definition_spec {defs : List Def} {ii : Indexed} (h : build defs = some ii)
    (hwf : WFAssets defs) {ex : Nat} (hu : UniqueNames defs ex) {t : Table}
    (ht : genMockInstruments ii ex = .ok t) (n : Nat) :
    findInstrumentData t n = specFind defs ex n :=
  lookup_build h ex hwf hu t ht n

/-! ## C. Composition with the execution instrument map (C04) -/

/-- (C0) the collection the builder produces satisfies what C04 assumes: `WFX` always, and `WF` for
`ex` when exchange names on `ex` are unambiguous. Every theorem of `Props/C04` therefore applies to
`toColl ii`. -/
theorem c04_hypotheses_hold {defs : List Def} {ii : Indexed} (h : build defs = some ii) :
    ExecMap.WFX (toColl ii) ∧
    ∀ ex, UniqueNames defs ex → UniqueAssetNames defs ex → ExecMap.WF (toColl ii) ex :=
  ⟨wfx_toColl h, fun ex hu ha => wf_toColl h ex hu ha⟩

/-- (C1) `manager_names_known`: for ANY collection with key = position, every instrument name the
manager of `ex` can put into a request is a key of the mock table of `ex` — the mock exchange never
answers `InstrumentInvalid` to a request that came through its own manager. -/
theorem manager_names_known {ii : Indexed} {ex : Nat} {m : ExecMap.EMap} {t : Table}
    (hI : ExecMap.Indexed (toColl ii)) (hm : ExecMap.genMap (toColl ii) ex = .ok m)
    (ht : genMockInstruments ii ex = .ok t) {i n : Nat} (h : m.findInstrumentName i = .ok n) :
    ∃ e, findInstrumentData t n = some e :=
  manager_name_known hI hm ht h

/-- (C2) `same_instrument_same_assets`: builder output, unambiguous names on `ex` (no `WFAssets`
since theorem review A). For
instrument index `i` of `ex`: the manager addresses it by its exchange name and that name indexes
back to `i`; under that name the mock table holds the native form of exactly this instrument; and
the base / quote NAMES of that entry translate back, on the same link, to the instrument's own base
/ quote asset INDICES. The engine's view (positions on instrument `i`, balances on asset indices)
and the mock exchange's view (ledger on asset names) talk about the same instrument and assets. -/
theorem same_instrument_same_assets {defs : List Def} {ii : Indexed} (h : build defs = some ii)
    {ex : Nat} (hu : UniqueNames defs ex) (ha : UniqueAssetNames defs ex)
    {m : ExecMap.EMap} {t : Table} (hm : ExecMap.genMap (toColl ii) ex = .ok m)
    (ht : genMockInstruments ii ex = .ok t) {i : Nat} {x : Keyed Nat IInstrument}
    (hx : ii.instruments[i]? = some x) (hex : x.value.exchange.value = ex) :
    m.findInstrumentName i = .ok x.value.nameExchange ∧
    m.findInstrumentIndex x.value.nameExchange = .ok i ∧
    ∃ e, findInstrumentData t x.value.nameExchange = some e ∧ nativeI ii x.value = some e ∧
      m.findAssetIndex e.base = .ok x.value.base ∧ m.findAssetIndex e.quote = .ok x.value.quote :=
  own_view_w h ex hu ha hm ht hx hex

/-! ## D. The builder -/

/-- (D1) `add_mock_panics_first`: `add_mock` panics exactly when the table generation does —
before `add_execution` gets a chance to return its `Err`; when the table can be generated the
result is `add_execution`'s (for the mock client on the freshly created channel pair). -/
theorem add_mock_panics_first (ii : Indexed) (b : MockInstruments.Builder) (c : MockConfig) :
    (∀ p, addMock ii b c = .error (.panic p) ↔ genMockInstruments ii c.exchange = .error p) ∧
    (∀ t, genMockInstruments ii c.exchange = .ok t →
      addMock ii b c = addExecution ii (pushMock b c t) c.exchange (.mock b.chans)) := by
  refine ⟨addMock_panic_iff ii b c, ?_⟩
  intro t ht
  simp [addMock, ht, pushMock]

/-- (D2) `unknown_exchange_is_err_not_panic`: for builder output, `add_mock` for an exchange that
is not indexed generates the empty table and then returns `Err` (index) — no panic. (The duplicate
case is `duplicate_exchange_is_err` below.) -/
theorem unknown_exchange_is_err_not_panic {defs : List Def} {ii : Indexed} (h : build defs = some ii)
    (b : MockInstruments.Builder) (c : MockConfig) (hno : ∀ d ∈ defs, d.exchange ≠ c.exchange) :
    addMock ii b c = .error (.build .index) := by
  have ht := (sets_up_iff_all_spot h c.exchange).2.2 hno
  rw [(add_mock_panics_first ii b c).2 _ ht]
  cases hg : ExecMap.genMap (toColl ii) c.exchange with
  | error e => simp [addExecution, ExecMap.addExecution, hg]
  | ok m =>
    exfalso
    obtain ⟨ke, hke, _⟩ := ExecMap.genMap_ok hg
    have hmem := List.mem_of_find?_eq_some hke
    have hid : ke.id = c.exchange := by simpa using List.find?_some hke
    simp only [toColl, List.mem_map] at hmem
    obtain ⟨x, hx, rfl⟩ := hmem
    have : x.value ∈ specExchanges defs :=
      (C11.unique_exchanges h).mem_iff.mp (List.mem_map_of_mem hx)
    simp only [specExchanges, mem_specDistinct, List.mem_map] at this
    obtain ⟨d, hd, hde⟩ := this
    exact hno d hd (by rw [hde]; exact hid)

/-- (D2') `duplicate_exchange_is_err`: an exchange that already has an execution (mock or live) —
`add_mock`, provided its table can be generated (the panic comes first, D1), and `add_live` return
`Err` (duplicate): nothing is spawned, the builder is consumed. -/
theorem duplicate_exchange_is_err (ii : Indexed) (b : MockInstruments.Builder) {ex : Nat}
    {m : ExecMap.EMap} {l : ExecMap.Link} (hm : ExecMap.genMap (toColl ii) ex = .ok m)
    (hl : b.added.lookup ex = some l) :
    (∀ c : MockConfig, c.exchange = ex → ∀ t, genMockInstruments ii ex = .ok t →
      addMock ii b c = .error (.build .duplicate)) ∧
    addLive ii b ex = .error (.build .duplicate) := by
  refine ⟨?_, addLive_duplicate ii b ex hm hl⟩
  intro c hc t ht
  subst hc
  exact addMock_duplicate ii b c ht hm hl

/-- (D3) `transmitter_table_is_C04`: mock or live makes no difference to the transmitter table: after
any successful sequence of `add_mock` / `add_live` calls the builder's `execution_txs` is what C04's
`addExecutions` produces for the same exchange ids, and the table of the initialised system is
C04's `buildExecution` — every routing theorem of `Props/C04` (`tx_table`, `route_refines_spec`,
`route_reaches_own_client`, ...) applies to systems with mock exchanges. -/
theorem transmitter_table_is_C04 {ii : Indexed} {adds : List Add} {b : MockInstruments.Builder}
    (hadd : addAll ii {} adds 0 = .ok b) :
    ExecMap.addExecutions (toColl ii) [] (adds.map Add.exchange) = .ok b.added ∧
    ∀ e snaps, buildInit ii b = .ok e snaps →
      ExecMap.buildExecution (toColl ii) (adds.map Add.exchange) = .ok (some e.txmap) := by
  have hA := addAll_added hadd
  refine ⟨hA, ?_⟩
  intro e snaps hinit
  obtain ⟨htx, _, _⟩ := buildInit_ok hinit
  have hA' : ExecMap.addExecutions (toColl ii) [] (adds.map Add.exchange) = .ok b.added := hA
  simp only [ExecMap.buildExecution, hA', htx]

/-- (D4) `spawned_per_exchange`: what `init` spawns: one `MockExchange::run` task per `add_mock`, one
manager task and one account-stream forwarder per `add_*` — `ExecutionHandles` has lengths
(#mock, #adds, #adds). (The third component equals the second by the definition of `Exec.handles`:
the model keeps one list for managers and forwarders.) -/
theorem spawned_per_exchange {ii : Indexed} {adds : List Add} {b : MockInstruments.Builder}
    (hadd : addAll ii {} adds 0 = .ok b) {e : Exec} {snaps : List (Nat × List (Nat × Rat))}
    (hinit : buildInit ii b = .ok e snaps) :
    e.handles =
      ((adds.filter Add.isMock).length, adds.length, adds.length) := by
  obtain ⟨_, hmg, hmk⟩ := buildInit_ok hinit
  obtain ⟨h1, h2⟩ := addAll_counts hadd
  simp only [Exec.handles, hmg, hmk, List.length_map, h1, h2]
  simp

/-- (D5) `mock_client_shares_channels_with_own_exchange`: after any successful sequence of adds —
channel pairs are pairwise distinct; every manager with a mock client is served by exactly one
`MockExchange`, the one created in the same `add_mock` call: it holds the other ends of that
client's request channel and event broadcast, mocks the SAME exchange id, and was given the
instrument table generated for that exchange id; conversely every `MockExchange` has its client.
Live managers have no mock exchange. -/
theorem mock_client_shares_channels_with_own_exchange {ii : Indexed} {adds : List Add}
    {b : MockInstruments.Builder} (hadd : addAll ii {} adds 0 = .ok b) :
    (b.mockFutures.map (·.chan)).Nodup ∧
    (∀ f ∈ b.initFutures, ∀ chan, f.client = .mock chan →
      ∃ mf ∈ b.mockFutures, mf.chan = chan ∧ mf.config.exchange = f.exchange ∧
        genMockInstruments ii f.exchange = .ok mf.table ∧
        ∀ mf' ∈ b.mockFutures, mf'.chan = chan → mf' = mf) ∧
    (∀ mf ∈ b.mockFutures, ∃ f ∈ b.initFutures, f.client = .mock mf.chan ∧ f.exchange = mf.config.exchange) ∧
    (b.initFutures.map (·.exchange)).Nodup := by
  have hb := binv_addAll (binv_empty ii) hadd
  refine ⟨hb.chan_nodup, ?_, hb.mock_client, by rw [hb.init_keys]; exact hb.added_nodup⟩
  intro f hf chan hc
  obtain ⟨mf, hmf, h1, h2⟩ := hb.client_mock f hf chan hc
  refine ⟨mf, hmf, h1, h2, by rw [← h2]; exact hb.mock_table mf hmf, ?_⟩
  intro mf' hmf' h1'
  exact ExecMap.eq_of_mem_nodup_map MockFuture.chan hb.chan_nodup hmf' hmf (by rw [h1', h1])

/-! ## E. The running system -/

/-- The system after any history of open requests. -/
def runOrders (e : Exec) (os : List Open) : Exec := os.foldl (fun e o => (sendOpen e o).1) e

/-- (bookkeeping) `runOrders` is `MockInstruments.runAll`, and the engine-side run `runAllSeen` (with
the manager's timeout) passes through the same states. -/
theorem runOrders_eq_runAll (e : Exec) (os : List Open) :
    runOrders e os = runAll e os ∧ runAllSeen e os = runAll e os :=
  ⟨rfl, runAllSeen_eq e os⟩

/-- (E1) `invariant_of_every_reachable_state`: in every state reachable from `build()` + `init()` of
builder output by any history of open requests (including ones that kill a manager or a mock
exchange): every transmitter leads to the manager of its own exchange with that exchange's map,
manager exchanges and channel pairs are pairwise distinct, every mock manager has its mock exchange
of the same exchange id, and every mock exchange still holds the table generated for its exchange id
with one ledger slot per configured balance. -/
theorem invariant_of_every_reachable_state {defs : List Def} {ii : Indexed} (h : build defs = some ii)
    {adds : List Add} {b : MockInstruments.Builder} (hadd : addAll ii {} adds 0 = .ok b)
    {e : Exec} {snaps : List (Nat × List (Nat × Rat))} (hinit : buildInit ii b = .ok e snaps)
    (os : List Open) : ExecInv ii (runOrders e os) := by
  have h0 := execInv_buildInit h hadd hinit
  unfold runOrders
  generalize e = e0 at h0
  induction os generalizing e0 with
  | nil => exact h0
  | cons o rest ih => exact ih _ (execInv_sendOpen h0 o)

/-- (E2) `same_assets_for_every_order` — **the engine's view and the mock exchange's view talk about
the same instrument and the same assets**, for every reachable state: builder output (no `WFAssets`
since theorem review A), any adds, any order history `os`; the next open request for (exchange index `o.exchange`, instrument
index `o.instrument`) that reaches a mock exchange (of exchange id `client`, names unambiguous there):
instrument `o.instrument` belongs to `client` and was addressed by its own exchange name; the order
snapshot that comes back carries exactly (`o.exchange`, `o.instrument`); the balance snapshot — or
the asset named in `BalanceInsufficient` — is for the instrument's own QUOTE asset index on a buy and
its own BASE asset index on a sell (the indices C09 keeps balances under); the trade is attributed to
instrument index `o.instrument` (the index C02 keeps the position under) with the requested side,
price and quantity. -/
theorem same_assets_for_every_order {defs : List Def} {ii : Indexed} (h : build defs = some ii)
    {adds : List Add} {b : MockInstruments.Builder}
    (hadd : addAll ii {} adds 0 = .ok b) {e : Exec} {snaps : List (Nat × List (Nat × Rat))}
    (hinit : buildInit ii b = .ok e snaps) (os : List Open) (o : Open)
    {e' : Exec} {client name : Nat} {ev : Events}
    (hs : sendOpen (runOrders e os) o = (e', .mock client name ev))
    (hu : UniqueNames defs client) (ha : UniqueAssetNames defs client) :
    ∃ x, ii.instruments[o.instrument]? = some x ∧ x.value.exchange.value = client ∧
      name = x.value.nameExchange ∧
      (∀ xx j oc, ev.order = some (xx, j, oc) → xx = o.exchange ∧ j = o.instrument ∧
        ∀ a, oc = .insufficient a →
          a = (match o.side with | .buy => x.value.quote | .sell => x.value.base)) ∧
      (∀ a tot fr, ev.balance = some (a, tot, fr) →
          a = (match o.side with | .buy => x.value.quote | .sell => x.value.base)) ∧
      (∀ j sd p q f, ev.trade = some (j, sd, p, q, f) →
          j = o.instrument ∧ sd = o.side ∧ p = o.price ∧ q = o.qty) :=
  sendOpen_view_w h (invariant_of_every_reachable_state h hadd hinit os) hs hu ha

/-- (E3) `ledger_is_C08` (one step, by construction of `mockOpen`, which calls `MockExchange.step`;
the whole-history and built-system form is `built_system_ledger_is_C08`): a spawned mock exchange task
IS the C08 exchange: its ledger state after
any sequence of requests is `MockExchange.run` from the configuration `toCfg` (balances by position
in the configured list, instruments by table position, asset names resolved to balance positions) on
the requests it has seen — so every theorem of `Props/C08` (exact debit, others untouched, no fill
on rejection, refinement to the history-only specification) holds of it; a dead task changes
nothing any more. -/
theorem ledger_is_C08 {mt : MockTask} {c : MockConfig} {ops : List (Int × MockExchange.Request)}
    (h : MockHist mt c ops) (map : ExecMap.EMap) (name : Nat) (o : Open) :
    (mt.dead = true → (mockOpen map mt name o).1 = mt) ∧
    (mt.dead = false →
      MockHist (mockOpen map mt name o).1 c (ops ++ [(0, .openOrder (mockReq mt.table name o))])) ∧
    MockHist (spawnMock ⟨mt.chan, c, mt.table⟩) c [] :=
  ⟨mockOpen_dead map mt name o, fun hd => mockHist_mockOpen h hd map name o, mockHist_spawn _⟩

/-- (E4) `configured_balances_keep_it_alive`: the C08 configuration of a mock exchange is well
formed exactly when every base / quote name of its table has a configured balance; for builder
output (no `WFAssets` since theorem review A) it suffices to configure a balance for every asset of the exchange; and then
(C08 `never_panics`) no request ever kills the task — `expect("MockExchange has Balance for all
configured Instrument assets")` cannot fire. -/
theorem configured_balances_keep_it_alive {defs : List Def} {ii : Indexed} (h : build defs = some ii)
    (c : MockConfig) {t : Table} (ht : genMockInstruments ii c.exchange = .ok t) :
    ((toCfg c t).wf = true ↔
      ∀ p ∈ t, p.2.base ∈ c.balances.map (·.1) ∧ p.2.quote ∈ c.balances.map (·.1)) ∧
    ((∀ a ∈ ii.assets, a.value.exchange = c.exchange →
        a.value.asset.nameExchange ∈ c.balances.map (·.1)) → (toCfg c t).wf = true) ∧
    (∀ (mt : MockTask) ops, mt.table = t → MockHist mt c ops → (toCfg c t).wf = true →
      mt.dead = false → ∀ map name o, (mockOpen map mt name o).1.dead = false) := by
  refine ⟨toCfg_wf_iff c t, covers_wf_w h c ht, ?_⟩
  intro mt ops hte hh hw hd map name o
  obtain ⟨_, _, _, h4⟩ := mockOpen_alive map mt name o hd
  cases hdd : (mockOpen map mt name o).1.dead with
  | false => rfl
  | true =>
    have := h4.mp hdd
    rw [hh.st, hte] at this
    exact absurd this (C08.never_panics hw ops 0 _).2

/-- (E5) `engine_view_refinement` — **refinement of the mock exchange to the index-level
specification, for whole histories** (isolated task; in the built system: `built_system_refines_view`).
Under `ViewHypW` (builder output — without `WFAssets` since theorem review A —, unambiguous
instrument and asset names on the mocked exchange, its manager's map and its table, pairwise distinct
configured balance names, a balance for exactly the assets of the exchange): start the mock exchange
task the builder spawns, send it ANY list `os` of open requests for instruments of that exchange
(each addressed, as the manager does, by the exchange name of its instrument index), then one more.
What arrives on the account channel is exactly what the C08 specification exchange *over engine
indices* (`specObserve`: instrument `i` = the engine's instrument `i`, balance of asset index `a` =
the amount configured for the exchange name of asset `a`, history = the accepted requests so far)
prescribes: the balance snapshot of that asset index with that amount, the fill on that instrument
index with that price / quantity / fees, the order snapshot under (exchange index, instrument
index); nothing when it prescribes nothing. Names, table positions and balance positions have
disappeared from the statement; the task never dies. -/
theorem engine_view_refinement {defs : List Def} {ii : Indexed} {c : MockConfig} {m : ExecMap.EMap}
    {t : Table} (H : ViewHypW defs ii c m t) (chan : Nat) (os : List Open)
    (hos : ∀ o ∈ os, Own ii c o) (o : Open) (ho : Own ii c o) :
    let mt := mockRun ii m (spawnMock ⟨chan, c, t⟩) os
    mt.dead = false ∧
    (match specObserve ii c (specHistory ii c os) o with
      | some (a, b, tr) =>
        (mockOpen m mt (nameOf ii o) o).2.balance = some (a, b, b) ∧
        (mockOpen m mt (nameOf ii o) o).2.trade = some (tr.instr, tr.side, tr.price, tr.qty, tr.fees) ∧
        tr.instr = o.instrument ∧
        (mockOpen m mt (nameOf ii o) o).2.order =
          some (m.exchange.key, o.instrument, if o.qty - tr.qty = 0 then .filled else .active)
      | none => (mockOpen m mt (nameOf ii o) o).2.balance = none ∧
          (mockOpen m mt (nameOf ii o) o).2.trade = none) := by
  intro mt
  have hv := viewInv_run_w H os hos (viewInv_spawn c m t chan)
  have hd : mt.dead = false := by obtain ⟨_, _, _, hd, _⟩ := hv; exact hd
  exact ⟨hd, (viewInv_step_w H hv o ho).2⟩

/-! ## F. What the `spec` driver states since the oracle review (C04-M2)

The keys `order` (orders that are not filled), `snap<x>` and `r live` used to be model-only. -/

/-- (E6) `reject_outcome_refines_view` — the order snapshot of an order that is NOT filled (spec key
`order` of the `spec` driver, oracle review C04-M2 / T6). Same setting as `engine_view_refinement`:
after ANY list of own open requests, when the index-level C08 specification prescribes no fill for
the next one, the order snapshot that arrives carries the request's own (exchange index, instrument
index) and the reason `specOutcome` names: `rejected` for a non-market order, otherwise
`insufficient a` where `a` is the asset INDEX the order would have spent (the instrument's own quote
index for a buy, base index for a sell) — never another link's or another instrument's asset. -/
theorem reject_outcome_refines_view {defs : List Def} {ii : Indexed} {c : MockConfig} {m : ExecMap.EMap}
    {t : Table} (H : ViewHypW defs ii c m t) (chan : Nat) (os : List Open)
    (hos : ∀ o ∈ os, Own ii c o) (o : Open) (ho : Own ii c o) :
    let mt := mockRun ii m (spawnMock ⟨chan, c, t⟩) os
    specObserve ii c (specHistory ii c os) o = none →
      (mockOpen m mt (nameOf ii o) o).2.order =
        some (m.exchange.key, o.instrument, specOutcome ii c (specHistory ii c os) o) := by
  intro mt hnone
  obtain ⟨ops, hh, htab, hd, hacc⟩ := viewInv_run_w H os hos (viewInv_spawn c m t chan)
  obtain ⟨x, hx, hex⟩ := ho
  have hname : nameOf ii o = x.value.nameExchange := by simp [nameOf, hx]
  have hacc' : (MockExchange.Spec.accepted (toCfg c t) (MockExchange.opens (toCfg c t) ops)).map
      (renEv (tauOf m t)) = specHistory ii c os := hacc
  have := mockOpen_reject_outcome_w H hh htab hd hx hex o rfl
  simp only [hacc'] at this
  rw [hname]
  exact this hnone


/-- (E7) `init_snapshot_refines_view` — the indexed initial account snapshot (spec key `snap<x>`,
oracle review C04-M2 / T1; for the snapshot list of `buildInit` itself: `built_system_init_snapshot`).
Under `ViewHypW`: the first account event of the mocked exchange's manager
(`initSnapshot`: the configured balances, each exchange NAME translated to an asset index through the
manager's map; `none` would be an `init` error) exists and is, up to order, `specSnapshot`: for every
asset INDEX of that exchange the amount configured for it — none missing, none of another exchange,
none twice. -/
theorem init_snapshot_refines_view {defs : List Def} {ii : Indexed} {c : MockConfig} {m : ExecMap.EMap}
    {t : Table} (H : ViewHypW defs ii c m t) (mocks : List MockFuture) (f : InitFuture) (chan : Nat)
    (hf : f.client = .mock chan) (hm : f.map = m)
    (hfind : mocks.find? (fun mf => mf.chan == chan) = some ⟨chan, c, t⟩) :
    ∃ l, initSnapshot mocks f = some l ∧ l.Perm (specSnapshot ii c) :=
  initSnapshot_refines_view_w H mocks f chan hf hm hfind

/-- (spec key `r live`, oracle review C04-M2 / T4) The request a manager of a builder-made system
hands its client — a live client as well as the mock client — for the engine key (exchange index
`xi`, instrument index `i`), where `xi` is the index of the manager's own exchange `ex`: addressed
with the exchange ID and the instrument's exchange NAME when instrument `i` belongs to `ex`
(index → name needs no uniqueness of names); refused (the manager panics, `r mpanic`) when position
`i` holds no instrument or an instrument of another exchange. Hypothesis: builder output only. -/
theorem manager_request_addressed {defs : List Def} {ii : Indexed} (h : build defs = some ii)
    {ex : Nat} {m : ExecMap.EMap} (hm : ExecMap.genMap (toColl ii) ex = .ok m)
    (xi i cid st : Nat) (e : Keyed Nat Nat) (hxi : ii.exchanges[xi]? = some e) (hev : e.value = ex) :
    (∀ x, ii.instruments[i]? = some x → x.value.exchange.value = ex →
      ExecMap.managerClientRequest m ⟨⟨xi, i, cid⟩, st⟩ =
        some ⟨⟨ex, x.value.nameExchange, cid⟩, st⟩) ∧
    ((∀ x, ii.instruments[i]? = some x → x.value.exchange.value ≠ ex) →
      ExecMap.managerClientRequest m ⟨⟨xi, i, cid⟩, st⟩ = none) := by
  have hW := wfx_toColl h
  have hid : ExecMap.specExchangeId (toColl ii) ex xi = some ex := by
    rw [ExecMap.specExchangeId_some]
    refine ⟨rfl, ⟨e.key, e.value⟩, ?_, hev⟩
    simp [toColl, hxi]
  refine ⟨?_, ?_⟩
  · intro x hx hex
    rw [ExecMap.managerClientRequest_eq hW hm]
    have hk : (toColl ii).instruments[i]? = some ⟨x.key, x.value.exchange.value, x.value.nameExchange⟩ := by
      rw [toColl_instrument, hx]; rfl
    have hn : ExecMap.specInstrumentName (toColl ii) ex i = some x.value.nameExchange :=
      (ExecMap.specInstrumentName_some _ ex i _).mpr ⟨_, hk, hex, rfl⟩
    simp only [ExecMap.specOrderRequest, hid, hn]
  · intro hne
    rw [ExecMap.managerClientRequest_eq hW hm]
    have hn : ExecMap.specInstrumentName (toColl ii) ex i = none := by
      cases hs : ExecMap.specInstrumentName (toColl ii) ex i with
      | none => rfl
      | some n =>
        exfalso
        obtain ⟨k, hk, hke, _⟩ := (ExecMap.specInstrumentName_some _ ex i n).mp hs
        rw [toColl_instrument] at hk
        cases hx : ii.instruments[i]? with
        | none => simp [hx] at hk
        | some x =>
          simp only [hx, Option.map_some, Option.some.injEq] at hk
          subst hk
          exact hne x hx hke
    simp only [ExecMap.specOrderRequest, hid, hn]


/-! ## G. Composition: the built system runs its mock exchanges in isolation (theorem review A, C04M-1)

`engine_view_refinement`, `reject_outcome_refines_view`, `ledger_is_C08` and part 3 of
`configured_balances_keep_it_alive` speak about an ISOLATED mock exchange task
(`mockRun ii m (spawnMock ..) os`). This section ties them to `runOrders` / `sendOpen` of the system
`build()` + `init()` produce: for every mock exchange of the builder, after ANY history of open
requests sent through the engine's transmitter table, the task behind that link is the isolated run
on exactly the requests routed to it. -/

/-- (G0) every mock exchange of a built system has its place: an exchange index `xi`, the map `m` of
its manager, and the table generated for its exchange id. -/
theorem mock_exchange_has_its_link {ii : Indexed} {adds : List Add} {b : MockInstruments.Builder}
    (hadd : addAll ii {} adds 0 = .ok b) {mf : MockFuture} (hmf : mf ∈ b.mockFutures) :
    ∃ (m : ExecMap.EMap) (xi : Nat) (kx : Keyed Nat Nat),
      ExecMap.genMap (toColl ii) mf.config.exchange = .ok m ∧ ii.exchanges[xi]? = some kx ∧
      kx.value = mf.config.exchange ∧ genMockInstruments ii mf.config.exchange = .ok mf.table :=
  mock_link_exists hadd hmf

/-- (G1) `built_system_runs_isolated_mocks` — **the run of the built system on exchange index `xi` IS
the isolated run of that exchange's mock on the requests routed to it.** Builder output, any
successful adds, `build()` + `init()`; `mf` any mock exchange of the builder (exchange id
`mf.config.exchange` at exchange index `xi`, manager's map `m`). After ANY history `os` of open
requests — for any exchange index, any instrument index, including requests that kill managers or
mock exchanges, on this link or another: the mock exchange task on `mf`'s channel pair is
`mockRun ii m (spawnMock mf) (routedTo ii ex xi os)` where `routedTo` keeps the requests addressed to
`xi` up to the first one naming an instrument that is not an instrument of `ex`; the manager of `ex`
still runs iff there was no such request (`managerAlive`). -/
theorem built_system_runs_isolated_mocks {defs : List Def} {ii : Indexed} (h : build defs = some ii)
    {adds : List Add} {b : MockInstruments.Builder} (hadd : addAll ii {} adds 0 = .ok b)
    {e : Exec} {snaps : List (Nat × List (Nat × Rat))} (hinit : buildInit ii b = .ok e snaps)
    {mf : MockFuture} (hmf : mf ∈ b.mockFutures)
    {m : ExecMap.EMap} (hm : ExecMap.genMap (toColl ii) mf.config.exchange = .ok m)
    {xi : Nat} {kx : Keyed Nat Nat} (hxi : ii.exchanges[xi]? = some kx) (hkx : kx.value = mf.config.exchange)
    (os : List Open) :
    mockOf (runOrders e os) mf.chan =
      some (mockRun ii m (spawnMock mf) (routedTo ii mf.config.exchange xi os)) ∧
    mgrAlive (runOrders e os) mf.config.exchange = managerAlive ii mf.config.exchange xi os ∧
    linkMock (runOrders e os) xi = mockOf (runOrders e os) mf.chan := by
  obtain ⟨hl, hal, hmt⟩ := built_mock_is_isolated_run h hadd hinit hmf hm hxi hkx os
  exact ⟨hmt, hal, linkMock_eq hl⟩

/-- (G2) `built_system_order_is_isolated_step` — the next request of the built system, addressed to
exchange index `xi`: `closed` when the manager is gone; the manager dies (`managerPanic`) when the
request names a foreign instrument; otherwise the mock exchange is asked under the instrument's
exchange NAME and the events are `mockOpen` of the ISOLATED run — the object sections E / F speak
about — indexed with `m`, whose exchange key is `xi`. -/
theorem built_system_order_is_isolated_step {defs : List Def} {ii : Indexed} (h : build defs = some ii)
    {adds : List Add} {b : MockInstruments.Builder} (hadd : addAll ii {} adds 0 = .ok b)
    {e : Exec} {snaps : List (Nat × List (Nat × Rat))} (hinit : buildInit ii b = .ok e snaps)
    {mf : MockFuture} (hmf : mf ∈ b.mockFutures)
    {m : ExecMap.EMap} (hm : ExecMap.genMap (toColl ii) mf.config.exchange = .ok m)
    {xi : Nat} {kx : Keyed Nat Nat} (hxi : ii.exchanges[xi]? = some kx) (hkx : kx.value = mf.config.exchange)
    (os : List Open) (o : Open) (ho : o.exchange = xi) :
    let mt := mockRun ii m (spawnMock mf) (routedTo ii mf.config.exchange xi os)
    (managerAlive ii mf.config.exchange xi os = false →
      sendOpen (runOrders e os) o = (runOrders e os, .closed)) ∧
    (managerAlive ii mf.config.exchange xi os = true → ownB ii mf.config.exchange o = false →
      (sendOpen (runOrders e os) o).2 = .managerPanic) ∧
    (managerAlive ii mf.config.exchange xi os = true → ownB ii mf.config.exchange o = true →
      (sendOpen (runOrders e os) o).2 =
        .mock mf.config.exchange (nameOf ii o) (mockOpen m mt (nameOf ii o) o).2 ∧
      mockOf (sendOpen (runOrders e os) o).1 mf.chan = some (mockOpen m mt (nameOf ii o) o).1 ∧
      m.exchange.key = xi) :=
  built_order_is_isolated_step h hadd hinit hmf hm hxi hkx os o ho

/-- (G3) `built_system_refines_view` — **the composed refinement: what the `spec` driver prints for a
request on a mock link it speaks about.** Builder output, any adds, `build()` + `init()`; `mf` a mock
exchange satisfying `ViewHypW` (names unambiguous on it, balances configured for exactly its assets).
After ANY history `os` sent through the built system in which no request addressed to `xi` named a
foreign instrument (`managerAlive`), a request for an own instrument of `xi`: the mock exchange is
asked under the instrument's exchange name, and the ENGINE is handed exactly what the index-level C08
specification prescribes over the requests routed to this exchange (`specHistory` of `routedTo` — the
per-exchange history of the driver): balance and fill when it prescribes a fill, nothing otherwise;
the order snapshot under (`xi`, instrument index) with `specSeen` of the outcome — filled / active /
the reason `specOutcome` names while the configured latency is below the manager's request timeout,
`timeout` from there on (section H). Names, table positions, balance positions and the other links'
traffic have disappeared from the statement. -/
theorem built_system_refines_view {defs : List Def} {ii : Indexed} (h : build defs = some ii)
    {adds : List Add} {b : MockInstruments.Builder} (hadd : addAll ii {} adds 0 = .ok b)
    {e : Exec} {snaps : List (Nat × List (Nat × Rat))} (hinit : buildInit ii b = .ok e snaps)
    {mf : MockFuture} (hmf : mf ∈ b.mockFutures) {m : ExecMap.EMap}
    (H : ViewHypW defs ii mf.config m mf.table)
    {xi : Nat} {kx : Keyed Nat Nat} (hxi : ii.exchanges[xi]? = some kx) (hkx : kx.value = mf.config.exchange)
    (os : List Open) (o : Open) (ho : o.exchange = xi)
    (ha : managerAlive ii mf.config.exchange xi os = true) (hb : ownB ii mf.config.exchange o = true) :
    ∃ ev, (sendOpenSeen (runOrders e os) o).2 = .mock mf.config.exchange (nameOf ii o) ev ∧
      (match specObserve ii mf.config (specHistory ii mf.config (routedTo ii mf.config.exchange xi os)) o with
        | some (a, bal, tr) =>
          ev.balance = some (a, bal, bal) ∧
          ev.trade = some (tr.instr, tr.side, tr.price, tr.qty, tr.fees) ∧ tr.instr = o.instrument ∧
          ev.order = some (xi, o.instrument,
            specSeen mf.config (if o.qty - tr.qty = 0 then .filled else .active))
        | none =>
          ev.balance = none ∧ ev.trade = none ∧
          ev.order = some (xi, o.instrument, specSeen mf.config
            (specOutcome ii mf.config (specHistory ii mf.config (routedTo ii mf.config.exchange xi os)) o))) :=
  built_refines_view h hadd hinit hmf H hxi hkx os o ho ha hb

/-- (G4) `built_system_ledger_is_C08` — `ledger_is_C08` for whole histories of the BUILT system: the
ledger of the mock exchange task behind `xi` after any history is `MockExchange.run` from `toCfg` on
the requests it executed — while it lives, exactly the requests routed to it, each under the exchange
name of its instrument index at the table position of that name: every theorem of `Props/C08`
applies to the mock exchange INSIDE the built system. -/
theorem built_system_ledger_is_C08 {defs : List Def} {ii : Indexed} (h : build defs = some ii)
    {adds : List Add} {b : MockInstruments.Builder} (hadd : addAll ii {} adds 0 = .ok b)
    {e : Exec} {snaps : List (Nat × List (Nat × Rat))} (hinit : buildInit ii b = .ok e snaps)
    {mf : MockFuture} (hmf : mf ∈ b.mockFutures)
    {m : ExecMap.EMap} (hm : ExecMap.genMap (toColl ii) mf.config.exchange = .ok m)
    {xi : Nat} {kx : Keyed Nat Nat} (hxi : ii.exchanges[xi]? = some kx) (hkx : kx.value = mf.config.exchange)
    (os : List Open) :
    ∃ mt ops, mockOf (runOrders e os) mf.chan = some mt ∧ MockHist mt mf.config ops ∧
      mt.table = mf.table ∧
      (mt.dead = false → ops = (routedTo ii mf.config.exchange xi os).map fun o =>
        (0, .openOrder (mockReq mf.table (nameOf ii o) o))) := by
  obtain ⟨_, _, hmt⟩ := built_mock_is_isolated_run h hadd hinit hmf hm hxi hkx os
  obtain ⟨ops, hh, htab, hops⟩ :=
    mockRun_hist ii m (mockHist_spawn mf) (routedTo ii mf.config.exchange xi os)
  exact ⟨_, ops, hmt, hh, htab, fun hd => by simpa [spawnMock] using hops hd⟩

/-- (G5) `built_system_mock_never_dies` — part 3 of `configured_balances_keep_it_alive` for the BUILT
system: when every base / quote name of the table has a configured balance (for builder output: a
balance for every asset of the exchange suffices, E4), no history of requests — own, foreign,
unfunded, for other links — kills the mock exchange task: `expect("MockExchange has Balance for all
configured Instrument assets")` cannot fire. -/
theorem built_system_mock_never_dies {defs : List Def} {ii : Indexed} (h : build defs = some ii)
    {adds : List Add} {b : MockInstruments.Builder} (hadd : addAll ii {} adds 0 = .ok b)
    {e : Exec} {snaps : List (Nat × List (Nat × Rat))} (hinit : buildInit ii b = .ok e snaps)
    {mf : MockFuture} (hmf : mf ∈ b.mockFutures)
    {m : ExecMap.EMap} (hm : ExecMap.genMap (toColl ii) mf.config.exchange = .ok m)
    {xi : Nat} {kx : Keyed Nat Nat} (hxi : ii.exchanges[xi]? = some kx) (hkx : kx.value = mf.config.exchange)
    (hw : (toCfg mf.config mf.table).wf = true) (os : List Open) :
    ∃ mt, mockOf (runOrders e os) mf.chan = some mt ∧ mt.dead = false := by
  obtain ⟨_, _, hmt⟩ := built_mock_is_isolated_run h hadd hinit hmf hm hxi hkx os
  exact ⟨_, hmt, mockRun_alive_of_wf ii m (mockHist_spawn mf) rfl hw _⟩

/-- (G6) `built_system_init_snapshot` — `init_snapshot_refines_view` for `buildInit` itself (spec key
`snap<x>`): the snapshot list of the built system holds, under the exchange's own index, a snapshot
that is `specSnapshot` up to order — for every asset INDEX of the exchange the configured amount. -/
theorem built_system_init_snapshot {defs : List Def} {ii : Indexed}
    {adds : List Add} {b : MockInstruments.Builder} (hadd : addAll ii {} adds 0 = .ok b)
    {e : Exec} {snaps : List (Nat × List (Nat × Rat))} (hinit : buildInit ii b = .ok e snaps)
    {mf : MockFuture} (hmf : mf ∈ b.mockFutures) {m : ExecMap.EMap}
    (H : ViewHypW defs ii mf.config m mf.table) :
    ∃ l, (m.exchange.key, l) ∈ snaps ∧ l.Perm (specSnapshot ii mf.config) :=
  built_init_snapshot hadd hinit hmf H

/-! ## H. The manager's request timeout on a mock link (theorem review A, C04M-2)

`add_mock` gives the manager a request timeout of 1 s (`DUMMY_EXECUTION_REQUEST_TIMEOUT`,
builder.rs:97); the mock exchange answers `latency_ms` after it has EXECUTED the request. -/

/-- (H1) `timeout_leaves_system_state`: whatever the engine is told, the system is in the state
`sendOpen` describes — the timeout undoes nothing at the exchange; histories pass through the same
states with and without the timeout layer. -/
theorem timeout_leaves_system_state (e : Exec) (o : Open) (os : List Open) :
    (sendOpenSeen e o).1 = (sendOpen e o).1 ∧ runAllSeen e os = runOrders e os :=
  ⟨sendOpenSeen_state e o, runAllSeen_eq e os⟩

/-- (H2) `timeout_iff` — both sides of the threshold. For a request that reaches a mock exchange of
the built system (setting of G2): the engine is handed the events of the isolated step; the order
snapshot is replaced by the manager's own `timeout` — under the REQUEST's key (`xi`, instrument
index) — exactly when the task is alive after the request AND the configured latency is at least
`mockRequestTimeoutMs` = 1000; balance and trade notifications are never touched. In particular with
a latency below 1000 ms the engine sees the client's response; a task that is dead, or dies on this
request, answers `offline` at once whatever its latency. -/
theorem timeout_iff {defs : List Def} {ii : Indexed} (h : build defs = some ii)
    {adds : List Add} {b : MockInstruments.Builder} (hadd : addAll ii {} adds 0 = .ok b)
    {e : Exec} {snaps : List (Nat × List (Nat × Rat))} (hinit : buildInit ii b = .ok e snaps)
    {mf : MockFuture} (hmf : mf ∈ b.mockFutures)
    {m : ExecMap.EMap} (hm : ExecMap.genMap (toColl ii) mf.config.exchange = .ok m)
    {xi : Nat} {kx : Keyed Nat Nat} (hxi : ii.exchanges[xi]? = some kx) (hkx : kx.value = mf.config.exchange)
    (os : List Open) (o : Open) (ho : o.exchange = xi)
    (ha : managerAlive ii mf.config.exchange xi os = true) (hb : ownB ii mf.config.exchange o = true) :
    let r := mockOpen m (mockRun ii m (spawnMock mf) (routedTo ii mf.config.exchange xi os)) (nameOf ii o) o
    let late := !r.1.dead && decide (mockRequestTimeoutMs ≤ mf.config.latency)
    (sendOpenSeen (runOrders e os) o).2 =
      .mock mf.config.exchange (nameOf ii o)
        (if late then r.2.timedOut xi o.instrument else r.2.seen) ∧
    (r.2.timedOut xi o.instrument).order = some (xi, o.instrument, .timeout) ∧
    (r.2.timedOut xi o.instrument).balance = r.2.balance ∧
    (r.2.timedOut xi o.instrument).trade = r.2.trade ∧
    (mf.config.latency < mockRequestTimeoutMs → late = false) := by
  intro r late
  have hs := built_order_seen h hadd hinit hmf hm hxi hkx os o ho ha hb
  simp only at hs
  rw [answersLate_isolated] at hs
  refine ⟨hs, rfl, rfl, rfl, ?_⟩
  intro hlt
  have : ¬ mockRequestTimeoutMs ≤ mf.config.latency := Nat.not_le.mpr hlt
  simp [late, this]

/-! ## Non-vacuity

Two exchanges sharing asset internal names (with different exchange names) and an instrument name;
exchange 0 has two spot instruments (one with a spec in asset units), exchange 1 a spot instrument and
a perpetual. All hypotheses used above hold of it; the mock of exchange 0 can be set up, the mock of
exchange 1 cannot; the definition-level lookup is inhabited in both branches. -/

def exDefs : List Def :=
  [ ⟨0, 1, 1, ⟨0, 0⟩, ⟨1, 1⟩, 1, .spot, some ⟨1, 2, .asset ⟨2, 2⟩, 3, 4, 5⟩⟩,
    ⟨0, 2, 2, ⟨1, 1⟩, ⟨0, 0⟩, 0, .spot, none⟩,
    ⟨1, 3, 1, ⟨0, 10⟩, ⟨1, 11⟩, 1, .spot, none⟩,
    ⟨1, 4, 4, ⟨0, 10⟩, ⟨1, 11⟩, 1, .perpetual 1 ⟨1, 11⟩, none⟩ ]

example : WFAssets exDefs := by decide
example : UniqueNames exDefs 0 ∧ UniqueAssetNames exDefs 0 ∧ UniqueNames exDefs 1 := by decide
example : specSupported exDefs 0 ∧ ¬ specSupported exDefs 1 := by decide
example : specFind exDefs 0 1 =
    some ⟨0, 1, 1, 0, 1, 1, .spot, some ⟨1, 2, .asset 2, 3, 4, 5⟩⟩ ∧ specFind exDefs 0 4 = none ∧
    specFind exDefs 1 1 = some ⟨1, 3, 1, 10, 11, 1, .spot, none⟩ := by decide
/-- the theorems of section B apply: the table of exchange 0 exists and answers as the definitions
say; exchange 1 panics with the unsupported kind; an exchange without definitions gets `Err`. -/
example : ∃ ii, build exDefs = some ii ∧
    (∃ t, genMockInstruments ii 0 = .ok t ∧
      findInstrumentData t 1 = some ⟨0, 1, 1, 0, 1, 1, .spot, some ⟨1, 2, .asset 2, 3, 4, 5⟩⟩ ∧
      findInstrumentData t 3 = none) ∧
    genMockInstruments ii 1 = .error .unsupportedKind ∧
    addMock ii {} ⟨7, 0, 0, []⟩ = .error (.build .index) := by
  obtain ⟨ii, h⟩ := C11.build_total exDefs
  obtain ⟨t, ht⟩ := (sets_up_iff_all_spot h 0).1.mpr (by decide)
  refine ⟨ii, h, ⟨t, ht, ?_, ?_⟩, (sets_up_iff_all_spot h 1).2.1 (by decide),
    unknown_exchange_is_err_not_panic h _ _ (by decide)⟩
  · rw [refines_definition_spec h (by decide) (by decide) ht]; decide
  · rw [refines_definition_spec h (by decide) (by decide) ht]; decide

/-- A collection as the builder makes it for `exDefs` without the perpetual (written out, so that the
whole pipeline can be evaluated): exchanges 0, 1; assets (exchange, internal, exchange name) by
index; instruments by index. -/
def exII : Indexed :=
  { exchanges := [⟨0, 0⟩, ⟨1, 1⟩]
    assets := [⟨0, ⟨0, ⟨0, 0⟩⟩⟩, ⟨1, ⟨0, ⟨1, 1⟩⟩⟩, ⟨2, ⟨0, ⟨2, 2⟩⟩⟩, ⟨3, ⟨1, ⟨0, 10⟩⟩⟩, ⟨4, ⟨1, ⟨1, 11⟩⟩⟩]
    instruments :=
      [⟨0, ⟨⟨0, 0⟩, 1, 1, 0, 1, 1, .spot, some ⟨1, 2, .asset 2, 3, 4, 5⟩⟩⟩,
       ⟨1, ⟨⟨0, 0⟩, 2, 2, 1, 0, 0, .spot, none⟩⟩,
       ⟨2, ⟨⟨1, 1⟩, 3, 1, 3, 4, 1, .spot, none⟩⟩] }

example : genMockInstruments exII 0 =
    .ok [(1, ⟨0, 1, 1, 0, 1, 1, .spot, some ⟨1, 2, .asset 2, 3, 4, 5⟩⟩), (2, ⟨0, 2, 2, 1, 0, 0, .spot, none⟩)] ∧
    genMockInstruments exII 1 = .ok [(1, ⟨1, 3, 1, 10, 11, 1, .spot, none⟩)] ∧
    genMockInstruments exII 5 = .ok [] := ⟨rfl, rfl, rfl⟩
/-- the panics are reachable: a dangling base index, and (checked first) a non-spot kind -/
example : genMockInstruments { exII with instruments := [⟨0, ⟨⟨0, 0⟩, 1, 1, 9, 1, 1, .spot, none⟩⟩] } 0 =
      .error .unknownAsset ∧
    genMockInstruments { exII with instruments := [⟨0, ⟨⟨0, 0⟩, 1, 1, 9, 1, 1, .perpetual 1 9, none⟩⟩] } 0 =
      .error .unsupportedKind ∧
    genMockInstruments { exII with instruments := [⟨0, ⟨⟨0, 0⟩, 1, 1, 9, 1, 1, .perpetual 1 9, none⟩⟩] } 1 =
      .ok [] := ⟨rfl, rfl, rfl⟩
/-- last wins: two instruments of exchange 0 named 1; the table holds the second one's assets -/
example : genMockInstruments { exII with instruments :=
      [⟨0, ⟨⟨0, 0⟩, 1, 1, 0, 1, 1, .spot, none⟩⟩, ⟨1, ⟨⟨0, 0⟩, 2, 1, 1, 2, 1, .spot, none⟩⟩] } 0 =
    .ok [(1, ⟨0, 2, 1, 1, 2, 1, .spot, none⟩)] := rfl

/-- mock for exchange 1 (added first), mock for exchange 0 with its balances configured in an order
that is not the asset-index order, fee 1 %. -/
def exAdds : List Add :=
  [.mock ⟨1, 10, 0, [(11, 50), (10, 5)]⟩, .mock ⟨0, 0, 1/100, [(2, 7), (1, 100), (0, 3)]⟩]

/-- the whole pipeline on `exII`: both mocks are set up, three tasks per kind, the snapshots arrive
under asset INDICES; a buy of instrument index 0 on exchange index 0 debits asset index 1 (its
quote), a sell of instrument index 1 debits asset index 1 as well (its base), an instrument of the
other exchange kills the manager, after which the link is closed. -/
example : ∃ b e snaps, addAll exII {} exAdds 0 = .ok b ∧ buildInit exII b = .ok e snaps ∧
    e.handles = (2, 2, 2) ∧ snaps = [(1, [(4, 50), (3, 5)]), (0, [(2, 7), (1, 100), (0, 3)])] ∧
    (sendOpen e ⟨0, 0, 0, .buy, .market, 10, 2⟩).2 =
      .mock 0 1 ⟨some (0, 0, .filled), some (1, 399/5, 399/5), some (0, .buy, 10, 2, 1/5)⟩ ∧
    (sendOpen e ⟨0, 1, 0, .sell, .market, 10, 2⟩).2 =
      .mock 0 2 ⟨some (0, 1, .filled), some (1, 4899/50, 4899/50), some (1, .sell, 10, 2, 1/5)⟩ ∧
    (sendOpen e ⟨0, 0, 0, .sell, .market, 10, 3⟩).2 =
      .mock 0 1 ⟨some (0, 0, .insufficient 0), none, none⟩ ∧
    (sendOpen e ⟨0, 2, 0, .buy, .market, 1, 1⟩).2 = .managerPanic ∧
    (sendOpen (sendOpen e ⟨0, 2, 0, .buy, .market, 1, 1⟩).1 ⟨0, 0, 0, .buy, .market, 1, 1⟩).2 = .closed ∧
    (sendOpen e ⟨2, 0, 0, .buy, .market, 1, 1⟩).2 = .noTx :=
  ⟨_, _, _, rfl, rfl, by decide +kernel, by decide +kernel, by decide +kernel, by decide +kernel,
    by decide +kernel, by decide +kernel, by decide +kernel, by decide +kernel⟩

/-- `ViewHyp` is satisfiable: exchange 0 of `exDefs`, a balance for each of its three assets. -/
example : ∃ ii m t, ViewHyp exDefs ii ⟨0, 0, 1/100, [(2, 7), (1, 100), (0, 3)]⟩ m t := by
  obtain ⟨ii, h⟩ := C11.build_total exDefs
  obtain ⟨t, ht⟩ := (sets_up_iff_all_spot h 0).1.mpr (by decide)
  have hmem : ∀ a, a ∈ ii.assets.map (·.value) ↔ a ∈ exDefs.flatMap defAssets := by
    intro a
    rw [(C11.unique_assets h).mem_iff]
    simp [specAssets, mem_specDistinct]
  have hex : ∃ k ∈ (toColl ii).exchanges, k.id = 0 := by
    have : (0 : Nat) ∈ ii.exchanges.map (·.value) := by
      rw [(C11.unique_exchanges h).mem_iff]; decide
    obtain ⟨x, hx, hx0⟩ := List.mem_map.mp this
    exact ⟨⟨x.key, x.value⟩, by simp only [toColl, List.mem_map]; exact ⟨x, hx, rfl⟩, hx0⟩
  obtain ⟨k, hk, hk0⟩ := hex
  obtain ⟨m, hm⟩ := ExecMap.genMap_of_mem hk
  rw [hk0] at hm
  refine ⟨ii, m, t, h, by decide, by decide, by decide, hm, ht, by decide, ?_, ?_⟩
  · intro a ha hae
    have := (hmem a.value).mp (List.mem_map_of_mem ha)
    revert hae
    revert this
    generalize a.value = v
    revert v
    decide
  · intro n hn
    have : ∃ v ∈ exDefs.flatMap defAssets, v.exchange = 0 ∧ v.asset.nameExchange = n := by
      revert hn; revert n; decide
    obtain ⟨v, hv, h1, h2⟩ := this
    obtain ⟨a, ha, rfl⟩ := List.mem_map.mp ((hmem v).mpr hv)
    exact ⟨a, ha, h1, h2⟩

/-! ## Witnesses at the excluded points (theorem review A)

Theorems, so that they are audited: the timeout threshold on a concrete built system, and the
hypothesis set without `WFAssets`. -/

/-- `exII` is what `IndexedInstruments::new` makes of `exDefs` without the perpetual: the pipeline
examples above and the witnesses below run on builder output, not on a hand-made collection
(evaluated by `simp`: `List.mergeSort` is defined by well-founded recursion and does not reduce in the
kernel). -/
theorem exII_is_builder_output :
    build [ ⟨0, 1, 1, ⟨0, 0⟩, ⟨1, 1⟩, 1, .spot, some ⟨1, 2, .asset ⟨2, 2⟩, 3, 4, 5⟩⟩,
            ⟨0, 2, 2, ⟨1, 1⟩, ⟨0, 0⟩, 0, .spot, none⟩,
            ⟨1, 3, 1, ⟨0, 10⟩, ⟨1, 11⟩, 1, .spot, none⟩ ] = some exII := by
  simp +decide [build, Builder.build, Builder.addInstrument, sortDedup, List.mergeSort,
    List.MergeSort.Internal.splitInTwo, defAssets, leKey, dedup, Instrument.assetRefs, List.mapIdx,
    List.mapIdx.go, enumerate, traverse, indexInstrument, Kind.settlementAsset, specUnitAsset,
    findExchangeByExchangeId, findAssetByExchangeAndNameInternal, Instrument.mapExchangeKey,
    Instrument.mapAssetKeyWithLookup, Kind.mapOpt, specMapOpt, Units.mapOpt, exII]

/-- one mock for exchange 0 of `exII`, fee 1 %, with the given latency -/
def exSlow (latency : Nat) : List Add := [.mock ⟨0, latency, 1/100, [(2, 7), (1, 100), (0, 3)]⟩]

/-- (H3) `timeout_hides_an_executed_order_witness` — **ledger debited although the engine saw a
timeout.** The built system on `exII` with a mock exchange of latency 1000 ms (= the manager's request
timeout): a funded market buy of 2 @ 10 on instrument 0 comes back as `timeout` under the request's
own key (0, 0) — and yet the balance notification shows asset index 1 debited (100 → 399/5, fee
included) and the fill arrives; the same order again is debited from the NEW balance (→ 298/5): the
exchange executed both. An unfunded order is `timeout` as well (the engine cannot tell the two
apart). With latency 999 ms the same order is reported `filled`. (Input of the review:
`corpus/C04M/A2_timeout.ops`.) -/
theorem timeout_hides_an_executed_order_witness :
    (∃ b e snaps, addAll exII {} (exSlow 1000) 0 = .ok b ∧ buildInit exII b = .ok e snaps ∧
      (sendOpenSeen e ⟨0, 0, 0, .buy, .market, 10, 2⟩).2 =
        .mock 0 1 ⟨some (0, 0, .timeout), some (1, 399/5, 399/5), some (0, .buy, 10, 2, 1/5)⟩ ∧
      (sendOpenSeen (sendOpenSeen e ⟨0, 0, 0, .buy, .market, 10, 2⟩).1 ⟨0, 0, 0, .buy, .market, 10, 2⟩).2 =
        .mock 0 1 ⟨some (0, 0, .timeout), some (1, 298/5, 298/5), some (0, .buy, 10, 2, 1/5)⟩ ∧
      (sendOpenSeen e ⟨0, 0, 0, .sell, .market, 10, 3⟩).2 =
        .mock 0 1 ⟨some (0, 0, .timeout), none, none⟩) ∧
    (∃ b e snaps, addAll exII {} (exSlow 999) 0 = .ok b ∧ buildInit exII b = .ok e snaps ∧
      (sendOpenSeen e ⟨0, 0, 0, .buy, .market, 10, 2⟩).2 =
        .mock 0 1 ⟨some (0, 0, .response .filled), some (1, 399/5, 399/5), some (0, .buy, 10, 2, 1/5)⟩ ∧
      (sendOpenSeen e ⟨0, 0, 0, .sell, .market, 10, 3⟩).2 =
        .mock 0 1 ⟨some (0, 0, .response (.insufficient 0)), none, none⟩) :=
  ⟨⟨_, _, _, rfl, rfl, by decide +kernel, by decide +kernel, by decide +kernel⟩,
   ⟨_, _, _, rfl, rfl, by decide +kernel, by decide +kernel⟩⟩

/-- (H4) a dead exchange is heard at once: with latency 1000 ms and NO balance for the quote asset,
the buy kills the exchange task and is answered `offline` — not `timeout` —, and so is everything
after it. -/
theorem dead_exchange_answers_at_once_witness :
    ∃ b e snaps, addAll exII {} [.mock ⟨0, 1000, 0, [(0, 3)]⟩] 0 = .ok b ∧ buildInit exII b = .ok e snaps ∧
      (sendOpenSeen e ⟨0, 0, 0, .buy, .market, 10, 2⟩).2 =
        .mock 0 1 ⟨some (0, 0, .response .offline), none, none⟩ ∧
      (sendOpenSeen (sendOpenSeen e ⟨0, 0, 0, .buy, .market, 10, 2⟩).1 ⟨0, 0, 0, .sell, .market, 10, 1⟩).2 =
        .mock 0 1 ⟨some (0, 0, .response .offline), none, none⟩ :=
  ⟨_, _, _, rfl, rfl, by decide +kernel, by decide +kernel⟩

/-- The definitions of the review's case `nonwf_assets`: two instruments of exchange 0 whose base
assets share the internal name 0 with different exchange names (5, 6): C11's `WFAssets` fails. -/
def exNonWF : List Def :=
  [ ⟨0, 1, 1, ⟨0, 5⟩, ⟨1, 1⟩, 1, .spot, none⟩, ⟨0, 2, 2, ⟨0, 6⟩, ⟨1, 1⟩, 1, .spot, none⟩ ]

/-- (G7) `view_hypotheses_without_wf_assets_witness` — `ViewHypW` is strictly weaker than `ViewHyp`:
for `exNonWF` no `ViewHyp` exists (`WFAssets` fails), yet `ViewHypW` holds with a balance for each of
the three asset entries — sections E – H apply to the 12 % of generated cases that violate `WFAssets`. -/
theorem view_hypotheses_without_wf_assets_witness :
    ¬ WFAssets exNonWF ∧ (∀ ii c m t, ¬ ViewHyp exNonWF ii c m t) ∧
    ∃ ii m t, ViewHypW exNonWF ii ⟨0, 0, 0, [(5, 100), (6, 200), (1, 300)]⟩ m t := by
  refine ⟨by decide, fun ii c m t H => absurd H.wfa (by decide), ?_⟩
  obtain ⟨ii, h⟩ := C11.build_total exNonWF
  obtain ⟨t, ht⟩ := (sets_up_iff_all_spot h 0).1.mpr (by decide)
  have hmem : ∀ a, a ∈ ii.assets.map (·.value) ↔ a ∈ exNonWF.flatMap defAssets := by
    intro a
    rw [(C11.unique_assets h).mem_iff]
    simp [specAssets, mem_specDistinct]
  have hex : ∃ k ∈ (toColl ii).exchanges, k.id = 0 := by
    have : (0 : Nat) ∈ ii.exchanges.map (·.value) := by
      rw [(C11.unique_exchanges h).mem_iff]; decide
    obtain ⟨x, hx, hx0⟩ := List.mem_map.mp this
    exact ⟨⟨x.key, x.value⟩, by simp only [toColl, List.mem_map]; exact ⟨x, hx, rfl⟩, hx0⟩
  obtain ⟨k, hk, hk0⟩ := hex
  obtain ⟨m, hm⟩ := ExecMap.genMap_of_mem hk
  rw [hk0] at hm
  refine ⟨ii, m, t, h, by decide, by decide, hm, ht, by decide, ?_, ?_⟩
  · intro a ha hae
    have := (hmem a.value).mp (List.mem_map_of_mem ha)
    revert hae
    revert this
    generalize a.value = v
    revert v
    decide
  · intro n hn
    have : ∃ v ∈ exNonWF.flatMap defAssets, v.exchange = 0 ∧ v.asset.nameExchange = n := by
      revert hn; revert n; decide
    obtain ⟨v, hv, h1, h2⟩ := this
    obtain ⟨a, ha, rfl⟩ := List.mem_map.mp ((hmem v).mpr hv)
    exact ⟨a, ha, h1, h2⟩

end BarterModel.Props.C04M
