import BarterModel.Lemmas.Streams
/-!
# C12 — Reconnecting streams deliver every item once, in order, with one notice per drop

Statements only (proofs go through `Lemmas/Streams.lean`). Everything is about the executable model
of `Model/Streams.lean` that `Driver/C12.lean` runs: `runEvents` / `runHandler` / `runForward` are the
composition of `consumer.rs:72-79` (plus `with_error_handler` / `forward_to`) over a *script* of `init`
outcomes, for **every** script, back-off policy and receiver capacity; `MergeSt.pollWith` /
`MergeSt.run` are `merge` over two channel receivers for **every** history of sends, closes and polls
and **every** fairness choice of every poll.

PARTIAL (see DESIGN §7 C12): the theorems are about list-level trace semantics of the combinators.
Poll/wake scheduling, tokio-stream's actual fairness flag (the theorems hold for all flags), timer
granularity and `u64` overflow of `backoff_ms * multiplier` are not modelled; the tie to
futures/tokio-stream/tokio is the correspondence run under a paused clock.
-/
namespace BarterModel.Props.C12
open BarterModel.Streams

/-! ## Refinement: the composed combinators compute exactly the trace the property prescribes -/

/-- For every policy and script the composed stream's whole trace (init invocations, back-off
sleeps, delivered items / errors / notices, in order) and its final status are those of the
specification written from the property text. -/
theorem run_events_refines_spec (p : Policy) (script : List Conn) :
    runEvents p script = specEvents p script := by
  cases script with
  | nil => rfl
  | cons c rest =>
    cases c with
    | initFail => rfl
    | initOk elems hang =>
      simp only [runEvents, runWith, id, eventStream_eq, Str.toRun, specEvents, specConns]
      simp

/-- The same with `with_error_handler` appended: each passed-through error goes to the handler,
once and in place, instead of to the consumer. -/
theorem run_handler_refines_spec (p : Policy) (script : List Conn) :
    runHandler p script = specHandler p script := by
  cases script with
  | nil => rfl
  | cons c rest =>
    cases c with
    | initFail => rfl
    | initOk elems hang =>
      simp only [runHandler, runWith, withErrorHandler, Str.filterMap, eventStream_eq, Str.toRun,
        specHandler, specEvents, specConns, filterMap_handle, toHandler]
      simp

/-- The same with `forward_to` appended, for every receiver capacity. -/
theorem run_forward_refines_spec (cap : Option Nat) (p : Policy) (script : List Conn) :
    runForward cap p script = specForward cap p script := by
  cases script with
  | nil => cases cap <;> rfl
  | cons c rest =>
    cases c with
    | initFail => cases cap <;> rfl
    | initOk elems hang =>
      cases cap with
      | none =>
        simp only [runForward, runWith, forwardTo, forwardSteps_none, eventStream_eq, Str.toRun,
          specForward, specEvents, specConns]
        simp
      | some n =>
        simp only [runForward, runWith, forwardTo, forwardSteps_some, eventStream_eq, Str.toRun,
          specForward, specEvents, specConns, cutAfter]
        cases (cutAfter n _).2 <;> simp

/-! ## (1) `items_once_in_order` and (2) `one_notice` -/

/-- What the consumer receives is, connection by connection (`segments`): nothing for a failed
attempt; for a successful one its items and non-terminal errors in order, each once, up to its end or
first terminal error, then — if the connection is over — exactly one notice, and only then whatever
the later connections contribute. -/
theorem items_once_in_order (p : Policy) (elems : List Elem) (hang : Bool) (rest : List Conn) :
    yields (runEvents p (.initOk elems hang :: rest)).steps = segments (.initOk elems hang :: rest) := by
  rw [run_events_refines_spec]
  exact yields_specConns p _ 0

/-- If the very first `init` fails there is no stream at all. -/
theorem init_failure_delivers_nothing (p : Policy) (rest : List Conn) :
    (runEvents p (.initFail :: rest)).fin = .initError ∧
    yields (runEvents p (.initFail :: rest)).steps = [] := ⟨rfl, rfl⟩

/-- A connection attempt is over when it failed, or succeeded and then ended / hit a terminal error. -/
def over : Conn → Bool
  | .initFail => true
  | .initOk elems hang => dropped elems hang

theorem segments_append {a : List Conn} (h : ∀ c ∈ a, over c = true) (b : List Conn) :
    segments (a ++ b) = segments a ++ segments b := by
  induction a with
  | nil => rfl
  | cons c cs ih =>
    have hc := h c (by simp)
    have := ih (fun x hx => h x (by simp [hx]))
    cases c with
    | initFail => simpa [segments] using this
    | initOk elems hang =>
      simp only [over] at hc
      simp [segments, hc, this]

/-- Output restricted to connection `k`: when everything before it is over, the successful
connection `initOk elems hang` contributes exactly `connItems elems` (its items up to, excluding,
the first terminal error), directly after everything the earlier connections contributed, followed
by exactly one notice if it is over, and only then by the contribution of what follows. -/
theorem connection_segment (p : Policy) (e0 : List Elem) (h0 : Bool) (pre : List Conn)
    (elems : List Elem) (hang : Bool) (post : List Conn)
    (hpre : ∀ c ∈ Conn.initOk e0 h0 :: pre, over c = true) :
    yields (runEvents p (.initOk e0 h0 :: (pre ++ .initOk elems hang :: post))).steps =
      yields (runEvents p (.initOk e0 h0 :: pre)).steps ++ connItems elems ++
        (if dropped elems hang then .reconnecting :: segments post else []) := by
  rw [items_once_in_order, items_once_in_order]
  have := segments_append hpre (.initOk elems hang :: post)
  simp only [List.cons_append] at this
  rw [this]
  simp [segments, List.append_assoc]

theorem connItems_no_notice (elems : List Elem) : (connItems elems).count .reconnecting = 0 := by
  induction elems with
  | nil => rfl
  | cons el r ih =>
    cases el with
    | item x => simpa [connItems, List.count_cons] using ih
    | delay ms => simpa [connItems] using ih
    | error e t => cases t <;> simp [connItems, ih]

def isOk : Conn → Bool
  | .initOk _ _ => true
  | .initFail => false

/-- Exactly one notice per connection that was established and is over (and none for failed
attempts): when every attempt of the script is over, the number of notices delivered equals the
number of successful initialisations. -/
theorem one_notice (p : Policy) (elems : List Elem) (hang : Bool) (rest : List Conn)
    (h : ∀ c ∈ Conn.initOk elems hang :: rest, over c = true) :
    (yields (runEvents p (.initOk elems hang :: rest)).steps).count .reconnecting =
      ((Conn.initOk elems hang :: rest).filter isOk).length := by
  rw [items_once_in_order]
  generalize Conn.initOk elems hang :: rest = cs at h
  induction cs with
  | nil => rfl
  | cons c cs ih =>
    have hc := h c (by simp)
    have := ih (fun x hx => h x (by simp [hx]))
    cases c with
    | initFail => simpa [segments, isOk] using this
    | initOk e hg =>
      simp only [over] at hc
      simp [segments, hc, isOk, List.count_append, connItems_no_notice, this, List.filter_cons]

/-- A connection that stays open (no terminal error, never ends) produces no notice and nothing of
any later script entry is reached. -/
theorem open_connection_no_notice (elems : List Elem) (rest : List Conn)
    (h : hasTerminal elems = false) :
    segments (.initOk elems true :: rest) = connItems elems := by
  simp [segments, dropped, h]

/-! ## (3) `errors_pass` -/

/-- A non-terminal error is handed on and does not end the connection: what follows it is still
delivered. -/
theorem errors_pass (a b : List Elem) (e : Nat) (h : hasTerminal a = false) :
    connItems (a ++ .error e false :: b) = connItems a ++ .item (.err ⟨e, false⟩) :: connItems b := by
  induction a with
  | nil => rfl
  | cons el r ih =>
    cases el with
    | item x => simpa [connItems] using ih (by simpa [hasTerminal] using h)
    | delay ms => simpa [connItems] using ih (by simpa [hasTerminal] using h)
    | error e' t =>
      cases t with
      | true => simp [hasTerminal] at h
      | false => simpa [connItems] using ih (by simpa [hasTerminal] using h)

/-- The first terminal error ends the connection: neither it nor anything after it is delivered. -/
theorem terminal_error_cuts (a b : List Elem) (e : Nat) (h : hasTerminal a = false) :
    connItems (a ++ .error e true :: b) = connItems a ∧
    dropped (a ++ .error e true :: b) true = true := by
  induction a with
  | nil => simp [connItems, dropped, hasTerminal]
  | cons el r ih =>
    cases el with
    | item x => simpa [connItems, dropped, hasTerminal] using ih (by simpa [hasTerminal] using h)
    | delay ms => simpa [connItems, dropped, hasTerminal] using ih (by simpa [hasTerminal] using h)
    | error e' t =>
      cases t with
      | true => simp [hasTerminal] at h
      | false => simpa [connItems, dropped, hasTerminal] using ih (by simpa [hasTerminal] using h)

/-- With an error handler the consumer receives the same events minus the errors, and the handler
is called exactly once per passed-through error, in order. -/
theorem errors_to_handler (p : Policy) (elems : List Elem) (hang : Bool) (rest : List Conn) :
    yields (runHandler p (.initOk elems hang :: rest)).steps =
      okEvents (segments (.initOk elems hang :: rest)) ∧
    handledOf (effects (runHandler p (.initOk elems hang :: rest)).steps) =
      errorIds (segments (.initOk elems hang :: rest)) := by
  rw [run_handler_refines_spec]
  simp only [specHandler, specEvents]
  rw [yields_toHandler, handled_toHandler _ (handled_specConns p _ 0), yields_specConns]
  exact ⟨rfl, rfl⟩

/-! ## (4) `backoff` -/

/-- The back-off sleeps of a run, in order, are those the property prescribes: the first failed
attempt after a success is followed by a wait of `initial`, each further consecutive failure by the
previous wait times `mult`, capped at `max`; any success resets. Nothing else sleeps. -/
theorem backoff (p : Policy) (elems : List Elem) (hang : Bool) (rest : List Conn) :
    sleepsOf (effects (runEvents p (.initOk elems hang :: rest)).steps) =
      if dropped elems hang then specWaits p 0 rest else [] := by
  rw [run_events_refines_spec]
  have := sleeps_specConns p (.initOk elems hang :: rest) 0
  simpa [specEvents, specWaits] using this

/-- `k` failed attempts in a row wait `backoffAt p n, …, backoffAt p (n+k-1)`. -/
theorem backoff_failure_run (p : Policy) (k : Nat) (post : List Conn) :
    ∀ n, specWaits p n (List.replicate k .initFail ++ post) =
      (List.range k).map (fun i => backoffAt p (n + i)) ++ specWaits p (n + k) post := by
  induction k with
  | zero => intro n; simp
  | succ k ih =>
    intro n
    simp only [List.replicate_succ, List.cons_append, specWaits, ih (n + 1), List.range_succ_eq_map,
      List.map_cons, List.map_map]
    simp [Function.comp_def, Nat.add_assoc, Nat.add_comm 1]

/-- the wait sequence itself: `w₀ = initial`, `wₙ₊₁ = min (wₙ · mult) max` -/
theorem backoff_sequence (p : Policy) :
    backoffAt p 0 = p.initial ∧ ∀ n, backoffAt p (n + 1) = min (backoffAt p n * p.mult) p.max :=
  ⟨rfl, fun _ => rfl⟩

/-- closed form for `mult ≥ 1` (a policy with `initial > max` still waits `initial` first) -/
theorem backoff_closed_form (p : Policy) (hm : 1 ≤ p.mult) (n : Nat) :
    backoffAt p (n + 1) = min (p.initial * p.mult ^ (n + 1)) p.max ∧ backoffAt p (n + 1) ≤ p.max :=
  ⟨backoffAt_closed p hm n, backoffAt_le_max p n⟩

/-- A failed attempt delivers nothing: in the trace it is exactly "attempt, sleep", and it
contributes nothing to what the consumer receives. -/
theorem failed_attempt_delivers_nothing (p : Policy) (n : Nat) (cs : List Conn) :
    specConns p n (.initFail :: cs) =
      .eff .attempt :: .eff (.sleep (backoffAt p n)) :: specConns p (n + 1) cs ∧
    segments (.initFail :: cs) = segments cs := ⟨rfl, rfl⟩

/-! ## (5) `never_ends` -/

/-- No script makes the stream end: with or without an error handler, and when forwarding to a
receiver that is never dropped. -/
theorem never_ends (p : Policy) (script : List Conn) :
    (runEvents p script).fin ≠ .ended ∧ (runHandler p script).fin ≠ .ended ∧
    (runForward none p script).fin ≠ .ended := by
  rw [run_events_refines_spec, run_handler_refines_spec, run_forward_refines_spec]
  cases script with
  | nil => simp [specEvents, specHandler, specForward]
  | cons c rest => cases c <;> simp [specEvents, specHandler, specForward]

/-- Whatever has been observed on a script stays observed, unchanged, however the script goes on. -/
theorem run_prefix (p : Policy) (script ext : List Conn) :
    (runEvents p script).steps <+: (runEvents p (script ++ ext)).steps ∧
    (runHandler p script).steps <+: (runHandler p (script ++ ext)).steps := by
  rw [run_events_refines_spec, run_events_refines_spec, run_handler_refines_spec,
    run_handler_refines_spec]
  have key : (specEvents p script).steps <+: (specEvents p (script ++ ext)).steps := by
    cases script with
    | nil => simp [specEvents]
    | cons c rest =>
      cases c with
      | initFail => simp [specEvents]
      | initOk elems hang =>
        simpa [specEvents] using specConns_prefix p (.initOk elems hang :: rest) ext 0
  exact ⟨key, toHandler_prefix key⟩

/-- `forward_to` hands the receiver exactly the first `n` delivered events when the receiver takes
`n`; it completes exactly when an `(n+1)`-th event is produced, and until then everything happens as
without it. -/
theorem forward_delivers_first_n (n : Nat) (p : Policy) (elems : List Elem) (hang : Bool)
    (rest : List Conn) :
    let src := runEvents p (.initOk elems hang :: rest)
    let fwd := runForward (some n) p (.initOk elems hang :: rest)
    yields fwd.steps = (yields src.steps).take n ∧
    (fwd.fin = .ended ↔ n < (yields src.steps).length) ∧
    (fwd.fin = .ended ∨ fwd.fin = .pending) ∧
    fwd.steps <+: src.steps := by
  simp only [run_forward_refines_spec, run_events_refines_spec, specForward, specEvents]
  have ⟨h1, h2, h3⟩ := cutAfter_yields (specConns p 0 (.initOk elems hang :: rest)) n
  refine ⟨h1, ?_, ?_, h3⟩
  · rw [← h2]
    by_cases hc : (cutAfter n (specConns p 0 (.initOk elems hang :: rest))).2 = true <;> simp [hc]
  · by_cases hc : (cutAfter n (specConns p 0 (.initOk elems hang :: rest))).2 = true <;> simp [hc]

/-! ## (6) `merge_order` -/

/-- States of the merge model reachable from the initial one by any history of sends, closes and
polls with any fairness choices. -/
def MReach (st : MergeSt) : Prop := ∃ ops, st = (MergeSt.init.run ops).1

theorem reach_inv {st : MergeSt} (h : MReach st) : st.Inv := by
  obtain ⟨ops, rfl⟩ := h
  exact MergeSt.inv_run ops _ MergeSt.inv_init

/-- Every poll, whatever the fairness choice, does something the property allows: it hands over
the oldest undelivered item of one input, or reports the end because a closed input is drained, or
stays pending because there is nothing to hand over. -/
theorem merge_refines (f : Bool) {st : MergeSt} (h : MReach st) :
    ((st.pollWith f).1.abs, (st.pollWith f).2) ∈ st.abs.allowed :=
  MergeSt.pollWith_allowed f st (reach_inv h)

/-- Sends and sender drops act on the specification's configuration exactly as on the model. -/
theorem merge_send_close_refine (st : MergeSt) (left : Bool) (x : Nat) :
    (st.step (.send left x)).1.abs = st.abs.send left x ∧
    (st.step (.close left)).1.abs = st.abs.close left := by
  rcases st with ⟨⟨qa, ca, ma⟩, ⟨qb, cb, mb⟩, af, d⟩
  cases left <;> cases ca <;> cases cb <;> cases d <;>
    simp [MergeSt.step, MergeSt.side, MergeSt.setSide, MergeSt.abs, MCfg.send, MCfg.close]

/-- Order and exactly-once, for every history and every fairness schedule: for each input, what the
merged stream has handed over so far followed by what is still queued is exactly what that input
accepted, in the order it was sent — nothing lost, duplicated, reordered or invented. -/
theorem merge_order (ops : List MOp) (left : Bool) :
    polled left (MergeSt.init.run ops).2 ++ ((MergeSt.init.run ops).1.side left).queue =
      acceptedOf left (MergeSt.init.run ops).2 := by
  have := MergeSt.run_conserves ops left MergeSt.init
  cases left <;> simpa [MergeSt.side, MergeSt.init] using this

/-- The merged stream ends only because an input ended, and by then every item of that input has
been handed over. -/
theorem merge_end_complete (ops : List MOp) (h : (MergeSt.init.run ops).1.done = true) :
    ∃ left, ((MergeSt.init.run ops).1.side left).closed = true ∧
      polled left (MergeSt.init.run ops).2 = acceptedOf left (MergeSt.init.run ops).2 := by
  have hinv := MergeSt.inv_run ops _ MergeSt.inv_init
  obtain ⟨h1, h2, h3⟩ := hinv
  rw [h] at h1
  have : (MergeSt.init.run ops).1.a.marker = true ∨ (MergeSt.init.run ops).1.b.marker = true := by
    simpa using h1.symm
  rcases this with hm | hm
  · refine ⟨true, (h2 hm).1, ?_⟩
    have := merge_order ops true
    simpa [MergeSt.side, (h2 hm).2] using this
  · refine ⟨false, (h3 hm).1, ?_⟩
    have := merge_order ops false
    simpa [MergeSt.side, (h3 hm).2] using this

/-- After the end nothing is delivered any more. -/
theorem merge_after_end (f : Bool) (st : MergeSt) (h : st.done = true) :
    st.pollWith f = (st, .ended) := MergeSt.pollWith_done f st h

/-- Nothing is withheld: a poll stays pending only when both inputs are open and have nothing queued
(and then it changes nothing but the fairness flag). -/
theorem merge_no_withholding (f : Bool) {st : MergeSt} (h : MReach st)
    (hp : (st.pollWith f).2 = .pending) :
    st.a.queue = [] ∧ st.b.queue = [] ∧ st.a.closed = false ∧ st.b.closed = false ∧
      (st.pollWith f).1 = { st with aFirst := !f } :=
  MergeSt.pollWith_pending f st (reach_inv h) hp

/-! ## Non-vacuity: concrete scripts / histories exercising every clause -/

/-- the script of the DESIGN §8 probe: ok[1, soft 7, 2, TERMINAL 9, 99], fail ×3, ok[3], fail, ok[4, 5] (open) -/
def demo : List Conn :=
  [.initOk [.item 1, .error 7 false, .item 2, .error 9 true, .item 99] false,
   .initFail, .initFail, .initFail, .initOk [.item 3] false, .initFail, .initOk [.item 4, .item 5] true]

example : yields (runEvents ⟨100, 3, 500⟩ demo).steps =
    [.item (.ok 1), .item (.err ⟨7, false⟩), .item (.ok 2), .reconnecting,
     .item (.ok 3), .reconnecting, .item (.ok 4), .item (.ok 5)] := by decide
example : sleepsOf (effects (runEvents ⟨100, 3, 500⟩ demo).steps) = [100, 300, 500, 100] := by decide
example : (runEvents ⟨100, 3, 500⟩ demo).fin = .pending := by decide
example : handledOf (effects (runHandler ⟨100, 3, 500⟩ demo).steps) = [7] := by decide
example : (runForward (some 4) ⟨100, 3, 500⟩ demo).fin = .ended ∧
    yields (runForward (some 4) ⟨100, 3, 500⟩ demo).steps =
      [.item (.ok 1), .item (.err ⟨7, false⟩), .item (.ok 2), .reconnecting] := by decide
example : ∀ c ∈ demo.take 6, over c = true := by decide
example : (1 : Nat) ≤ (⟨100, 3, 500⟩ : Policy).mult := by decide
/-- a policy with `initial > max` waits `initial` first, then is capped -/
example : (List.range 3).map (backoffAt ⟨700, 2, 500⟩) = [700, 500, 500] := by decide

/-- left sends 1, right sends 10 11 12, left closes; polls L-first, R-first, L-first: the stream ends
with 11 and 12 still queued on the right, and the left input fully delivered. -/
def demoOps : List MOp :=
  [.send true 1, .send false 10, .send false 11, .send false 12, .close true,
   .poll true, .poll false, .poll true, .poll false]

example : (MergeSt.init.run demoOps).2.filterMap (fun o => match o with | .out m => some m | _ => none) =
    [.item true 1, .item false 10, .ended, .ended] := by decide
example : (MergeSt.init.run demoOps).1.done = true ∧ (MergeSt.init.run demoOps).1.b.queue = [11, 12] := by
  decide
example : MReach (MergeSt.init.run demoOps).1 := ⟨demoOps, rfl⟩
example : (MergeSt.init.pollWith true).2 = .pending := by decide

end BarterModel.Props.C12
