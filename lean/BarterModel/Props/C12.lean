import BarterModel.Lemmas.Streams
/-!
# C12 — Reconnecting streams deliver every item once, in order, with one notice per drop

Statements only (proofs go through `Lemmas/Streams.lean`). Everything is about the executable model
of `Model/Streams.lean` that `Driver/C12.lean` runs: `runEvents` / `runHandler` / `runForward` are the
composition of `consumer.rs:72-79` (plus `with_error_handler` / `forward_to`) over a *script* of `init`
outcomes, for **every** script, back-off policy and receiver capacity; `MergeSt.pollWith` /
`MergeSt.run` are `merge` over two channel receivers for **every** history of sends, closes and polls
and **every** fairness choice of every poll.

PARTIAL (see DESIGN §7 C12): the theorems are about list-level trace semantics of the combinators.
Poll/wake scheduling, tokio-stream's actual fairness flag (the theorems hold for all flags), timer
granularity and `u64` overflow of `backoff_ms * multiplier` are not modelled; the tie to
futures/tokio-stream/tokio is the correspondence run under a paused clock.
-/
namespace BarterModel.Props.C12
open BarterModel.Streams

/-! ## Refinement: the composed combinators compute exactly the trace the property prescribes -/

/-- For every policy and script the composed stream's whole trace (init invocations, back-off
sleeps, delivered items / errors / notices, in order) and its final status are those of the
specification written from the property text. -/
theorem run_events_refines_spec (p : Policy) (script : List Conn) :
    runEvents p script = specEvents p script := by
  cases script with
  | nil => rfl
  | cons c rest =>
    cases c with
    | initFail => rfl
    | initOk elems hang =>
      simp only [runEvents, runWith, id, eventStream_eq, Str.toRun, specEvents, specConns]
      simp

/-- The same with `with_error_handler` appended: each passed-through error goes to the handler,
once and in place, instead of to the consumer. -/
theorem run_handler_refines_spec (p : Policy) (script : List Conn) :
    runHandler p script = specHandler p script := by
  cases script with
  | nil => rfl
  | cons c rest =>
    cases c with
    | initFail => rfl
    | initOk elems hang =>
      simp only [runHandler, runWith, withErrorHandler, Str.filterMap, eventStream_eq, Str.toRun,
        specHandler, specEvents, specConns, filterMap_handle, toHandler]
      simp

/-- The same with `forward_to` appended, for every receiver capacity. -/
theorem run_forward_refines_spec (cap : Option Nat) (p : Policy) (script : List Conn) :
    runForward cap p script = specForward cap p script := by
  cases script with
  | nil => cases cap <;> rfl
  | cons c rest =>
    cases c with
    | initFail => cases cap <;> rfl
    | initOk elems hang =>
      cases cap with
      | none =>
        simp only [runForward, runWith, forwardTo, forwardSteps_none, eventStream_eq, Str.toRun,
          specForward, specEvents, specConns]
        simp
      | some n =>
        simp only [runForward, runWith, forwardTo, forwardSteps_some, eventStream_eq, Str.toRun,
          specForward, specEvents, specConns, cutAfter]
        cases (cutAfter n _).2 <;> simp

/-! ## (1) `items_once_in_order` and (2) `one_notice` -/

/-- What the consumer receives is, connection by connection (`segments`): nothing for a failed
attempt; for a successful one its items and non-terminal errors in order, each once, up to its end or
first terminal error, then — if the connection is over — exactly one notice, and only then whatever
the later connections contribute. -/
theorem items_once_in_order (p : Policy) (elems : List Elem) (hang : Bool) (rest : List Conn) :
    yields (runEvents p (.initOk elems hang :: rest)).steps = segments (.initOk elems hang :: rest) := by
  rw [run_events_refines_spec]
  exact yields_specConns p _ 0

/-- If the very first `init` fails there is no stream at all. -/
theorem init_failure_delivers_nothing (p : Policy) (rest : List Conn) :
    (runEvents p (.initFail :: rest)).fin = .initError ∧
    yields (runEvents p (.initFail :: rest)).steps = [] := ⟨rfl, rfl⟩

/-- A connection attempt is over when it failed, or succeeded and then ended / hit a terminal error. -/
def over : Conn → Bool
  | .initFail => true
  | .initOk elems hang => dropped elems hang

theorem segments_append {a : List Conn} (h : ∀ c ∈ a, over c = true) (b : List Conn) :
    segments (a ++ b) = segments a ++ segments b := by
  induction a with
  | nil => rfl
  | cons c cs ih =>
    have hc := h c (by simp)
    have := ih (fun x hx => h x (by simp [hx]))
    cases c with
    | initFail => simpa [segments] using this
    | initOk elems hang =>
      simp only [over] at hc
      simp [segments, hc, this]

/-- Output restricted to connection `k`: when everything before it is over, the successful
connection `initOk elems hang` contributes exactly `connItems elems` (its items up to, excluding,
the first terminal error), directly after everything the earlier connections contributed, followed
by exactly one notice if it is over, and only then by the contribution of what follows. -/
theorem connection_segment (p : Policy) (e0 : List Elem) (h0 : Bool) (pre : List Conn)
    (elems : List Elem) (hang : Bool) (post : List Conn)
    (hpre : ∀ c ∈ Conn.initOk e0 h0 :: pre, over c = true) :
    yields (runEvents p (.initOk e0 h0 :: (pre ++ .initOk elems hang :: post))).steps =
      yields (runEvents p (.initOk e0 h0 :: pre)).steps ++ connItems elems ++
        (if dropped elems hang then .reconnecting :: segments post else []) := by
  rw [items_once_in_order, items_once_in_order]
  have := segments_append hpre (.initOk elems hang :: post)
  simp only [List.cons_append] at this
  rw [this]
  simp [segments, List.append_assoc]

theorem connItems_no_notice (elems : List Elem) : (connItems elems).count .reconnecting = 0 := by
  induction elems with
  | nil => rfl
  | cons el r ih =>
    cases el with
    | item x => simpa [connItems, List.count_cons] using ih
    | delay ms => simpa [connItems] using ih
    | error e t => cases t <;> simp [connItems, ih]

def isOk : Conn → Bool
  | .initOk _ _ => true
  | .initFail => false

/-- Exactly one notice per connection that was established and is over (and none for failed
attempts): when every attempt of the script is over, the number of notices delivered equals the
number of successful initialisations. -/
theorem one_notice (p : Policy) (elems : List Elem) (hang : Bool) (rest : List Conn)
    (h : ∀ c ∈ Conn.initOk elems hang :: rest, over c = true) :
    (yields (runEvents p (.initOk elems hang :: rest)).steps).count .reconnecting =
      ((Conn.initOk elems hang :: rest).filter isOk).length := by
  rw [items_once_in_order]
  generalize Conn.initOk elems hang :: rest = cs at h
  induction cs with
  | nil => rfl
  | cons c cs ih =>
    have hc := h c (by simp)
    have := ih (fun x hx => h x (by simp [hx]))
    cases c with
    | initFail => simpa [segments, isOk] using this
    | initOk e hg =>
      simp only [over] at hc
      simp [segments, hc, isOk, List.count_append, connItems_no_notice, this, List.filter_cons]

/-- A connection that stays open (no terminal error, never ends) produces no notice and nothing of
any later script entry is reached. -/
theorem open_connection_no_notice (elems : List Elem) (rest : List Conn)
    (h : hasTerminal elems = false) :
    segments (.initOk elems true :: rest) = connItems elems := by
  simp [segments, dropped, h]

theorem specConns_open_cut (p : Policy) (elems : List Elem) (rest : List Conn)
    (h : hasTerminal elems = false) (pre : List Conn) :
    ∀ n, specConns p n (pre ++ .initOk elems true :: rest) = specConns p n (pre ++ [.initOk elems true]) := by
  induction pre with
  | nil => intro n; simp [specConns, dropped, h]
  | cons c pre ih =>
    intro n
    cases c with
    | initFail => simp [specConns, ih]
    | initOk e hg => simp [specConns, ih]

/-- (where the trace ENDS; spec key `evn`, oracle review C12-M1) A connection that stays open — no
terminal error, never ends — is the end of the trace: whatever script entries follow it, the run is
the run of the script cut behind that connection. No event, no attempt, no notice, no wait comes
after its items; the `evn` line of the spec states that count. -/
theorem open_connection_ends_trace (p : Policy) (pre : List Conn) (elems : List Elem) (rest : List Conn)
    (h : hasTerminal elems = false) :
    runEvents p (pre ++ .initOk elems true :: rest) = runEvents p (pre ++ [.initOk elems true]) ∧
    runHandler p (pre ++ .initOk elems true :: rest) = runHandler p (pre ++ [.initOk elems true]) := by
  rw [run_events_refines_spec, run_events_refines_spec, run_handler_refines_spec, run_handler_refines_spec]
  have key : specEvents p (pre ++ .initOk elems true :: rest) = specEvents p (pre ++ [.initOk elems true]) := by
    cases pre with
    | nil => simp [specEvents, specConns, dropped, h]
    | cons c pre =>
      cases c with
      | initFail => simp [specEvents]
      | initOk e hg =>
        have := specConns_open_cut p elems rest h (.initOk e hg :: pre) 0
        simpa [specEvents] using this
  exact ⟨key, by simp [specHandler, key]⟩

/-! ## (3) `errors_pass` -/

/-- A non-terminal error is handed on and does not end the connection: what follows it is still
delivered. -/
theorem errors_pass (a b : List Elem) (e : Nat) (h : hasTerminal a = false) :
    connItems (a ++ .error e false :: b) = connItems a ++ .item (.err ⟨e, false⟩) :: connItems b := by
  induction a with
  | nil => rfl
  | cons el r ih =>
    cases el with
    | item x => simpa [connItems] using ih (by simpa [hasTerminal] using h)
    | delay ms => simpa [connItems] using ih (by simpa [hasTerminal] using h)
    | error e' t =>
      cases t with
      | true => simp [hasTerminal] at h
      | false => simpa [connItems] using ih (by simpa [hasTerminal] using h)

/-- The first terminal error ends the connection: neither it nor anything after it is delivered. -/
theorem terminal_error_cuts (a b : List Elem) (e : Nat) (h : hasTerminal a = false) :
    connItems (a ++ .error e true :: b) = connItems a ∧
    dropped (a ++ .error e true :: b) true = true := by
  induction a with
  | nil => simp [connItems, dropped, hasTerminal]
  | cons el r ih =>
    cases el with
    | item x => simpa [connItems, dropped, hasTerminal] using ih (by simpa [hasTerminal] using h)
    | delay ms => simpa [connItems, dropped, hasTerminal] using ih (by simpa [hasTerminal] using h)
    | error e' t =>
      cases t with
      | true => simp [hasTerminal] at h
      | false => simpa [connItems, dropped, hasTerminal] using ih (by simpa [hasTerminal] using h)

/-- With an error handler the consumer receives the same events minus the errors, and the handler
is called exactly once per passed-through error, in order. -/
theorem errors_to_handler (p : Policy) (elems : List Elem) (hang : Bool) (rest : List Conn) :
    yields (runHandler p (.initOk elems hang :: rest)).steps =
      okEvents (segments (.initOk elems hang :: rest)) ∧
    handledOf (effects (runHandler p (.initOk elems hang :: rest)).steps) =
      errorIds (segments (.initOk elems hang :: rest)) := by
  rw [run_handler_refines_spec]
  simp only [specHandler, specEvents]
  rw [yields_toHandler, handled_toHandler _ (handled_specConns p _ 0), yields_specConns]
  exact ⟨rfl, rfl⟩

/-! ## (4) `backoff` -/

/-- The back-off sleeps of a run, in order, are those the property prescribes: the first failed
attempt after a success is followed by a wait of `initial`, each further consecutive failure by the
previous wait times `mult`, capped at `max`; any success resets. Nothing else sleeps. -/
theorem backoff (p : Policy) (elems : List Elem) (hang : Bool) (rest : List Conn) :
    sleepsOf (effects (runEvents p (.initOk elems hang :: rest)).steps) =
      if dropped elems hang then specWaits p 0 rest else [] := by
  rw [run_events_refines_spec]
  have := sleeps_specConns p (.initOk elems hang :: rest) 0
  simpa [specEvents, specWaits] using this

/-- `k` failed attempts in a row wait `backoffAt p n, …, backoffAt p (n+k-1)`. -/
theorem backoff_failure_run (p : Policy) (k : Nat) (post : List Conn) :
    ∀ n, specWaits p n (List.replicate k .initFail ++ post) =
      (List.range k).map (fun i => backoffAt p (n + i)) ++ specWaits p (n + k) post := by
  induction k with
  | zero => intro n; simp
  | succ k ih =>
    intro n
    simp only [List.replicate_succ, List.cons_append, specWaits, ih (n + 1), List.range_succ_eq_map,
      List.map_cons, List.map_map]
    simp [Function.comp_def, Nat.add_assoc, Nat.add_comm 1]

/-- the wait sequence itself: `w₀ = initial`, `wₙ₊₁ = min (wₙ · mult) max` -/
theorem backoff_sequence (p : Policy) :
    backoffAt p 0 = p.initial ∧ ∀ n, backoffAt p (n + 1) = min (backoffAt p n * p.mult) p.max :=
  ⟨rfl, fun _ => rfl⟩

/-- closed form for `mult ≥ 1` (a policy with `initial > max` still waits `initial` first) -/
theorem backoff_closed_form (p : Policy) (hm : 1 ≤ p.mult) (n : Nat) :
    backoffAt p (n + 1) = min (p.initial * p.mult ^ (n + 1)) p.max ∧ backoffAt p (n + 1) ≤ p.max :=
  ⟨backoffAt_closed p hm n, backoffAt_le_max p n⟩

/-- A failed attempt delivers nothing: in the trace it is exactly "attempt, sleep", and it
contributes nothing to what the consumer receives. -/
theorem failed_attempt_delivers_nothing (p : Policy) (n : Nat) (cs : List Conn) :
    specConns p n (.initFail :: cs) =
      .eff .attempt :: .eff (.sleep (backoffAt p n)) :: specConns p (n + 1) cs ∧
    segments (.initFail :: cs) = segments cs := ⟨rfl, rfl⟩

/-! ## (5) `never_ends` -/

/-- No script makes the stream end: with or without an error handler, and when forwarding to a
receiver that is never dropped. -/
theorem never_ends (p : Policy) (script : List Conn) :
    (runEvents p script).fin ≠ .ended ∧ (runHandler p script).fin ≠ .ended ∧
    (runForward none p script).fin ≠ .ended := by
  rw [run_events_refines_spec, run_handler_refines_spec, run_forward_refines_spec]
  cases script with
  | nil => simp [specEvents, specHandler, specForward]
  | cons c rest => cases c <;> simp [specEvents, specHandler, specForward]

/-- Whatever has been observed on a script stays observed, unchanged, however the script goes on. -/
theorem run_prefix (p : Policy) (script ext : List Conn) :
    (runEvents p script).steps <+: (runEvents p (script ++ ext)).steps ∧
    (runHandler p script).steps <+: (runHandler p (script ++ ext)).steps := by
  rw [run_events_refines_spec, run_events_refines_spec, run_handler_refines_spec,
    run_handler_refines_spec]
  have key : (specEvents p script).steps <+: (specEvents p (script ++ ext)).steps := by
    cases script with
    | nil => simp [specEvents]
    | cons c rest =>
      cases c with
      | initFail => simp [specEvents]
      | initOk elems hang =>
        simpa [specEvents] using specConns_prefix p (.initOk elems hang :: rest) ext 0
  exact ⟨key, toHandler_prefix key⟩

/-- `forward_to` hands the receiver exactly the first `n` delivered events when the receiver takes
`n`; it completes exactly when an `(n+1)`-th event is produced, and until then everything happens as
without it. -/
theorem forward_delivers_first_n (n : Nat) (p : Policy) (elems : List Elem) (hang : Bool)
    (rest : List Conn) :
    let src := runEvents p (.initOk elems hang :: rest)
    let fwd := runForward (some n) p (.initOk elems hang :: rest)
    yields fwd.steps = (yields src.steps).take n ∧
    (fwd.fin = .ended ↔ n < (yields src.steps).length) ∧
    (fwd.fin = .ended ∨ fwd.fin = .pending) ∧
    fwd.steps <+: src.steps := by
  simp only [run_forward_refines_spec, run_events_refines_spec, specForward, specEvents]
  have ⟨h1, h2, h3⟩ := cutAfter_yields (specConns p 0 (.initOk elems hang :: rest)) n
  refine ⟨h1, ?_, ?_, h3⟩
  · rw [← h2]
    by_cases hc : (cutAfter n (specConns p 0 (.initOk elems hang :: rest))).2 = true <;> simp [hc]
  · by_cases hc : (cutAfter n (specConns p 0 (.initOk elems hang :: rest))).2 = true <;> simp [hc]

/-! ## (6) `merge_order` -/

/-- States of the merge model reachable from the initial one by any history of sends, closes and
polls with any fairness choices. -/
def MReach (st : MergeSt) : Prop := ∃ ops, st = (MergeSt.init.run ops).1

theorem reach_inv {st : MergeSt} (h : MReach st) : st.Inv := by
  obtain ⟨ops, rfl⟩ := h
  exact MergeSt.inv_run ops _ MergeSt.inv_init

/-- Every poll, whatever the fairness choice, does something the property allows: it hands over
the oldest undelivered item of one input, or reports the end because a closed input is drained, or
stays pending because there is nothing to hand over. -/
theorem merge_refines (f : Bool) {st : MergeSt} (h : MReach st) :
    ((st.pollWith f).1.abs, (st.pollWith f).2) ∈ st.abs.allowed :=
  MergeSt.pollWith_allowed f st (reach_inv h)

/-- Sends and sender drops act on the specification's configuration exactly as on the model. -/
theorem merge_send_close_refine (st : MergeSt) (left : Bool) (x : Nat) :
    (st.step (.send left x)).1.abs = st.abs.send left x ∧
    (st.step (.close left)).1.abs = st.abs.close left := by
  rcases st with ⟨⟨qa, ca, ma⟩, ⟨qb, cb, mb⟩, af, d⟩
  cases left <;> cases ca <;> cases cb <;> cases d <;>
    simp [MergeSt.step, MergeSt.side, MergeSt.setSide, MergeSt.abs, MCfg.send, MCfg.close]

/-- Order and exactly-once, for every history and every fairness schedule: for each input, what the
merged stream has handed over so far followed by what is still queued is exactly what that input
accepted, in the order it was sent — nothing lost, duplicated, reordered or invented. -/
theorem merge_order (ops : List MOp) (left : Bool) :
    polled left (MergeSt.init.run ops).2 ++ ((MergeSt.init.run ops).1.side left).queue =
      acceptedOf left (MergeSt.init.run ops).2 := by
  have := MergeSt.run_conserves ops left MergeSt.init
  cases left <;> simpa [MergeSt.side, MergeSt.init] using this

/-- The merged stream ends only because an input ended, and by then every item of that input has
been handed over. (Only of *that* input: what the other input still holds is dropped — review C12-1,
see `merge_survivor_items_dropped_witness` and `merge_output_prefix_of_interleaving` at the end of
this file for the reading adopted.) -/
theorem merge_end_complete (ops : List MOp) (h : (MergeSt.init.run ops).1.done = true) :
    ∃ left, ((MergeSt.init.run ops).1.side left).closed = true ∧
      polled left (MergeSt.init.run ops).2 = acceptedOf left (MergeSt.init.run ops).2 := by
  have hinv := MergeSt.inv_run ops _ MergeSt.inv_init
  obtain ⟨h1, h2, h3⟩ := hinv
  rw [h] at h1
  have : (MergeSt.init.run ops).1.a.marker = true ∨ (MergeSt.init.run ops).1.b.marker = true := by
    simpa using h1.symm
  rcases this with hm | hm
  · refine ⟨true, (h2 hm).1, ?_⟩
    have := merge_order ops true
    simpa [MergeSt.side, (h2 hm).2] using this
  · refine ⟨false, (h3 hm).1, ?_⟩
    have := merge_order ops false
    simpa [MergeSt.side, (h3 hm).2] using this

/-- After the end nothing is delivered any more. -/
theorem merge_after_end (f : Bool) (st : MergeSt) (h : st.done = true) :
    st.pollWith f = (st, .ended) := MergeSt.pollWith_done f st h

/-- Nothing is withheld: a poll stays pending only when both inputs are open and have nothing queued
(and then it changes nothing but the fairness flag). -/
theorem merge_no_withholding (f : Bool) {st : MergeSt} (h : MReach st)
    (hp : (st.pollWith f).2 = .pending) :
    st.a.queue = [] ∧ st.b.queue = [] ∧ st.a.closed = false ∧ st.b.closed = false ∧
      (st.pollWith f).1 = { st with aFirst := !f } :=
  MergeSt.pollWith_pending f st (reach_inv h) hp

/-! ## Non-vacuity: concrete scripts / histories exercising every clause -/

/-- the script of the DESIGN §8 probe: ok[1, soft 7, 2, TERMINAL 9, 99], fail ×3, ok[3], fail, ok[4, 5] (open) -/
def demo : List Conn :=
  [.initOk [.item 1, .error 7 false, .item 2, .error 9 true, .item 99] false,
   .initFail, .initFail, .initFail, .initOk [.item 3] false, .initFail, .initOk [.item 4, .item 5] true]

example : yields (runEvents ⟨100, 3, 500⟩ demo).steps =
    [.item (.ok 1), .item (.err ⟨7, false⟩), .item (.ok 2), .reconnecting,
     .item (.ok 3), .reconnecting, .item (.ok 4), .item (.ok 5)] := by decide
example : sleepsOf (effects (runEvents ⟨100, 3, 500⟩ demo).steps) = [100, 300, 500, 100] := by decide
example : (runEvents ⟨100, 3, 500⟩ demo).fin = .pending := by decide
example : handledOf (effects (runHandler ⟨100, 3, 500⟩ demo).steps) = [7] := by decide
example : (runForward (some 4) ⟨100, 3, 500⟩ demo).fin = .ended ∧
    yields (runForward (some 4) ⟨100, 3, 500⟩ demo).steps =
      [.item (.ok 1), .item (.err ⟨7, false⟩), .item (.ok 2), .reconnecting] := by decide
example : ∀ c ∈ demo.take 6, over c = true := by decide
example : (1 : Nat) ≤ (⟨100, 3, 500⟩ : Policy).mult := by decide
/-- a policy with `initial > max` waits `initial` first, then is capped -/
example : (List.range 3).map (backoffAt ⟨700, 2, 500⟩) = [700, 500, 500] := by decide

/-- left sends 1, right sends 10 11 12, left closes; polls L-first, R-first, L-first: the stream ends
with 11 and 12 still queued on the right, and the left input fully delivered. -/
def demoOps : List MOp :=
  [.send true 1, .send false 10, .send false 11, .send false 12, .close true,
   .poll true, .poll false, .poll true, .poll false]

example : (MergeSt.init.run demoOps).2.filterMap (fun o => match o with | .out m => some m | _ => none) =
    [.item true 1, .item false 10, .ended, .ended] := by decide
example : (MergeSt.init.run demoOps).1.done = true ∧ (MergeSt.init.run demoOps).1.b.queue = [11, 12] := by
  decide
example : MReach (MergeSt.init.run demoOps).1 := ⟨demoOps, rfl⟩
example : (MergeSt.init.pollWith true).2 = .pending := by decide

/-! ## Review round 2 (audit/REVIEW-notes.md, section C12) -/

/-! ### review C12-1: the reading of "every item up to the point either input ends" -/

/-- the reviewer's history (`audit/scratch/g3/C12a.lean`): the right input sends 10, 11, 12, then the
left input (which never sent anything) is closed, then the merged stream is polled once, left first
(which is also tokio-stream's own first choice: `MergeSt.init.aFirst = true`). -/
def survivorOps : List MOp :=
  [.send false 10, .send false 11, .send false 12, .close true, .poll true]

/-- **review C12-1 (HIGH), witness.** `merge` (`/repo/barter-integration/src/stream/merge.rs:6-20`:
each input is `map(Some).chain(once(ready(None)))` (merge.rs:11-17), the result is
`left.merge(right).map_while(identity).fuse()` (merge.rs:19), mirrored by `MergeSt.pollWith` of
`Model/Streams.lean`) ends as soon as the *end marker* of one input is pulled, whatever the other
input still holds. Concretely: right sends 10, 11, 12 (all accepted); the left sender is dropped; one
poll (left first) reports the end of the merged stream: nothing was delivered, the right queue still
holds `[10, 11, 12]`, every later poll reports the end again whatever its fairness choice, and a
later send on the surviving input fails (`gone`): the three items are dropped. The same happens with
tokio-stream's own schedule (`MergeSt.poll`).

STREAM-LEVEL READING ADOPTED BY THE SPECIFICATION (`MCfg.allowed`, `merge_refines`,
`merge_end_complete`): "every item up to the point either input ends" means *up to the position of
the first end marker in the interleaving the merge chose*. `merge` is pull-based: an input's end is
observed when its chained `None` is pulled, and the inner `Merge` is free to order that marker of L
before items R has already queued; "the point either input ends" is a position in the interleaving
the merge realises, not a wall-clock instant. The items of the surviving input that had not yet been
consumed when the other input's end was observed are dropped. The positive statement of this reading
is `merge_output_prefix_of_interleaving` / `merge_output_cut_at_first_end` below; the stronger
wall-clock reading ("everything any input accepted before the first sender was dropped is delivered")
is refuted by this history (`merge_wall_clock_reading_refuted`). -/
theorem merge_survivor_items_dropped_witness :
    (MergeSt.init.run survivorOps).2 =
      [.accepted false 10, .accepted false 11, .accepted false 12, .ack, .out .ended] ∧
    (MergeSt.init.run survivorOps).1.done = true ∧
    (MergeSt.init.run survivorOps).1.b.queue = [10, 11, 12] ∧
    (MergeSt.init.run survivorOps).1.b.closed = false ∧
    acceptedOf false (MergeSt.init.run survivorOps).2 = [10, 11, 12] ∧
    polled false (MergeSt.init.run survivorOps).2 = [] ∧
    polled true (MergeSt.init.run survivorOps).2 = [] ∧
    (∀ f, ((MergeSt.init.run survivorOps).1.pollWith f).2 = .ended) ∧
    ((MergeSt.init.run survivorOps).1.step (.send false 13)).2 = .gone ∧
    ((MergeSt.init.run (survivorOps.take 4)).1.poll).2 = .ended := by
  decide

/-- **review C12-1.** The stronger reading — when the merged stream has ended, *each* input has been
handed over completely — is false in the model (and in the code: the correspondence runs contain this
history): `merge_end_complete` can only be had for the input that ended. -/
theorem merge_wall_clock_reading_refuted :
    ¬ ∀ (ops : List MOp) (left : Bool), (MergeSt.init.run ops).1.done = true →
      polled left (MergeSt.init.run ops).2 = acceptedOf left (MergeSt.init.run ops).2 := by
  intro h
  have := h survivorOps false (by decide)
  revert this
  decide

/-- `Interleave l r o`: `o` is an interleaving of `l` and `r` — every element of `l` and of `r` is
used exactly once and the order inside `l` and inside `r` is kept. -/
inductive Interleave {α : Type} : List α → List α → List α → Prop where
  | nil : Interleave [] [] []
  | left {x l r o} : Interleave l r o → Interleave (x :: l) r (x :: o)
  | right {x l r o} : Interleave l r o → Interleave l (x :: r) (x :: o)

theorem Interleave.left_only {α : Type} : ∀ (l : List α), Interleave l [] l
  | [] => .nil
  | _ :: l => .left (Interleave.left_only l)

theorem Interleave.right_only {α : Type} : ∀ (r : List α), Interleave [] r r
  | [] => .nil
  | _ :: r => .right (Interleave.right_only r)

theorem Interleave.append {α : Type} {l r o l' r' o' : List α} (h : Interleave l r o)
    (h' : Interleave l' r' o') : Interleave (l ++ l') (r ++ r') (o ++ o') := by
  induction h with
  | nil => simpa using h'
  | left _ ih => exact .left ih
  | right _ ih => exact .right ih

theorem Interleave.map {α β : Type} (f : α → β) {l r o : List α} (h : Interleave l r o) :
    Interleave (l.map f) (r.map f) (o.map f) := by
  induction h with
  | nil => exact .nil
  | left _ ih => exact .left ih
  | right _ ih => exact .right ih

/-- An interleaving has exactly the elements of its two inputs, as often as they have them. -/
theorem Interleave.length {α : Type} {l r o : List α} (h : Interleave l r o) :
    o.length = l.length + r.length := by
  induction h with
  | nil => rfl
  | left _ ih => simp [ih]; omega
  | right _ ih => simp [ih]; omega

/-- The items the merged stream handed over, in the order it handed them over, each tagged with the
input it came from (`true` = left). -/
def mergedOut : List MObs → List (Bool × Nat)
  | [] => []
  | .out (.item l x) :: r => (l, x) :: mergedOut r
  | _ :: r => mergedOut r

/-- Whatever was observed: the merged output is an interleaving of what it took from the left input
and what it took from the right input. -/
theorem mergedOut_interleave (obs : List MObs) :
    Interleave ((polled true obs).map (Prod.mk true)) ((polled false obs).map (Prod.mk false))
      (mergedOut obs) := by
  induction obs with
  | nil => exact .nil
  | cons o r ih =>
    cases o with
    | out m =>
      cases m with
      | item l x => cases l <;> simpa [polled, mergedOut] using (by first | exact .left ih | exact .right ih)
      | _ => simpa [polled, mergedOut] using ih
    | _ => simpa [polled, mergedOut] using ih

/-- **review C12-1, the positive statement of the adopted reading.** For every history of sends,
sender drops and polls and every fairness choice of every poll (no hypothesis): there are a prefix
`pl` of what the left input accepted and a prefix `pr` of what the right input accepted — precisely:
everything accepted except what is still queued — such that the output delivered so far is an
interleaving of `pl` and `pr` (order inside each input kept, every item at most once, nothing
invented); and when the merged stream has ended, some input `X` is closed and `X`'s prefix is *all*
`X` accepted. So the output is an interleaving of the two inputs cut at the first end marker that
the merge pulled; what the other input still holds at that point (`st.side (!X)).queue`) is not
delivered (`merge_after_end`, `merge_survivor_items_dropped_witness`). -/
theorem merge_output_prefix_of_interleaving (ops : List MOp) :
    ∃ pl pr : List Nat,
      pl ++ (MergeSt.init.run ops).1.a.queue = acceptedOf true (MergeSt.init.run ops).2 ∧
      pr ++ (MergeSt.init.run ops).1.b.queue = acceptedOf false (MergeSt.init.run ops).2 ∧
      pl <+: acceptedOf true (MergeSt.init.run ops).2 ∧
      pr <+: acceptedOf false (MergeSt.init.run ops).2 ∧
      Interleave (pl.map (Prod.mk true)) (pr.map (Prod.mk false)) (mergedOut (MergeSt.init.run ops).2) ∧
      ((MergeSt.init.run ops).1.done = true →
        ((MergeSt.init.run ops).1.a.closed = true ∧ pl = acceptedOf true (MergeSt.init.run ops).2) ∨
        ((MergeSt.init.run ops).1.b.closed = true ∧ pr = acceptedOf false (MergeSt.init.run ops).2)) := by
  have hl := merge_order ops true
  have hr := merge_order ops false
  simp only [MergeSt.side] at hl hr
  refine ⟨polled true (MergeSt.init.run ops).2, polled false (MergeSt.init.run ops).2,
    by simpa using hl, by simpa using hr, ⟨_, by simpa using hl⟩, ⟨_, by simpa using hr⟩,
    mergedOut_interleave _, ?_⟩
  intro hd
  obtain ⟨left, hc, hp⟩ := merge_end_complete ops hd
  cases left
  · exact .inr ⟨by simpa [MergeSt.side] using hc, hp⟩
  · exact .inl ⟨by simpa [MergeSt.side] using hc, hp⟩

/-- One input of `merge` as the inner `Merge` sees it (merge.rs:11-17): its items wrapped in `some`
and tagged with the side, followed by the chained end marker `none`. -/
def marked (left : Bool) (xs : List Nat) : List (Option (Bool × Nat)) :=
  xs.map (fun x => some (left, x)) ++ [none]

theorem takeWhile_some_append {α : Type} (l : List α) (rest : List (Option α)) :
    (l.map some ++ none :: rest).takeWhile Option.isSome = l.map some := by
  induction l with
  | nil => simp
  | cons x l ih => simp

/-- **review C12-1, "cut at the first end marker".** When the merged stream has ended (any history,
any fairness choices), there is an interleaving `w` of the two *marked* inputs — everything the left
input accepted followed by its end marker, and everything the right input accepted followed by its
end marker — such that the output delivered is exactly `w` cut at its first end marker
(`map_while(identity)`, merge.rs:19). The marker of the input that ended may stand in `w` before
items the other input had already accepted: those are the dropped ones. -/
theorem merge_output_cut_at_first_end (ops : List MOp)
    (h : (MergeSt.init.run ops).1.done = true) :
    ∃ w, Interleave (marked true (acceptedOf true (MergeSt.init.run ops).2))
        (marked false (acceptedOf false (MergeSt.init.run ops).2)) w ∧
      w.takeWhile Option.isSome = (mergedOut (MergeSt.init.run ops).2).map some := by
  obtain ⟨pl, pr, hl, hr, -, -, hi, he⟩ := merge_output_prefix_of_interleaving ops
  have hi' := hi.map some
  simp only [List.map_map] at hi'
  rcases he h with ⟨-, hpl⟩ | ⟨-, hpr⟩
  · -- the left marker was pulled: left complete, right cut
    refine ⟨(mergedOut (MergeSt.init.run ops).2).map some ++
      none :: marked false (MergeSt.init.run ops).1.b.queue, ?_, takeWhile_some_append _ _⟩
    rw [← hpl, ← hr]
    simp only [marked, List.map_append, List.append_assoc]
    exact hi'.append (.left (Interleave.right_only _))
  · refine ⟨(mergedOut (MergeSt.init.run ops).2).map some ++
      none :: marked true (MergeSt.init.run ops).1.a.queue, ?_, takeWhile_some_append _ _⟩
    rw [← hpr, ← hl]
    simp only [marked, List.map_append, List.append_assoc]
    exact hi'.append (.right (Interleave.left_only _))

/-! ### review C12-2: the general notice count -/

/-- The script entries the stream ever gets to: everything up to and including the first successful
connection that stays open (no terminal error, never ends); `init` is not invoked again after it. -/
def reached : List Conn → List Conn
  | [] => []
  | c :: cs => if over c then c :: reached cs else [c]

/-- **review C12-2 (MEDIUM): `one_notice` without its hypothesis.** For every policy and every script
whose first `init` succeeds: the number of reconnecting notices delivered equals the number of
script entries that are *reached*, were successfully initialised and are over (ended or hit a
terminal error). Failed attempts, the connection that stays open, and everything after it contribute
none. `one_notice` is the special case `reached cs = cs` (every attempt over,
`reached_of_all_over`). -/
theorem notice_count (p : Policy) (elems : List Elem) (hang : Bool) (rest : List Conn) :
    (yields (runEvents p (.initOk elems hang :: rest)).steps).count .reconnecting =
      ((reached (.initOk elems hang :: rest)).filter (fun c => isOk c && over c)).length := by
  rw [items_once_in_order]
  generalize Conn.initOk elems hang :: rest = cs
  induction cs with
  | nil => rfl
  | cons c cs ih =>
    cases c with
    | initFail => simpa [segments, reached, over, isOk] using ih
    | initOk e hg =>
      by_cases hc : dropped e hg = true
      · simp [segments, reached, over, isOk, hc, List.count_append, connItems_no_notice, ih]
      · simp [segments, reached, over, isOk, hc, connItems_no_notice]

/-- When every attempt is over, every script entry is reached (then `notice_count` is `one_notice`). -/
theorem reached_of_all_over (cs : List Conn) (h : ∀ c ∈ cs, over c = true) : reached cs = cs := by
  induction cs with
  | nil => rfl
  | cons c cs ih =>
    have hc := h c (by simp)
    simp [reached, hc, ih (fun x hx => h x (by simp [hx]))]

/-! ### review C12-4: back-off boundaries (multiplier 0; `u64` overflow) -/

/-- **review C12-4 (MEDIUM).** The closed form of `backoff_closed_form` needs no hypothesis on the
multiplier: for `mult = 0` both sides are `0` (see `backoff_multiplier_zero`). -/
theorem backoff_closed_form_all (p : Policy) (n : Nat) :
    backoffAt p (n + 1) = min (p.initial * p.mult ^ (n + 1)) p.max := by
  by_cases hm : 1 ≤ p.mult
  · exact backoffAt_closed p hm n
  · have h0 : p.mult = 0 := by omega
    simp [backoffAt, h0]

/-- **review C12-4, multiplier 0** (`backoff_multiplier: u8`, stream.rs:170, allows 0). The model
(mirroring `multiply_backoff`, `/repo/barter-data/src/streams/reconnect/stream.rs:196-200`:
`next = backoff_ms_current * backoff_multiplier as u64` (line 197), `min(next, backoff_ms_max)`
(line 198)) gives: the first failed attempt after a success waits `initial`, every further
consecutive failure waits `0` ms (no floor: re-initialisation is retried without any pause until a
success resets the back-off to `initial`). -/
theorem backoff_multiplier_zero (p : Policy) (h : p.mult = 0) :
    backoffAt p 0 = p.initial ∧ ∀ n, backoffAt p (n + 1) = 0 := by
  refine ⟨rfl, fun n => ?_⟩
  simp [backoffAt, h]

/-- **review C12-4, multiplier 0, witness**: policy (initial 1000 ms, multiplier 0, max 30000 ms);
script "connection drops, five failed attempts, a connection that stays open": the sleeps of the
whole composed stream are 1000, 0, 0, 0, 0. -/
theorem backoff_multiplier_zero_witness :
    (List.range 5).map (backoffAt ⟨1000, 0, 30000⟩) = [1000, 0, 0, 0, 0] ∧
    sleepsOf (effects (runEvents ⟨1000, 0, 30000⟩
      [.initOk [.item 1] false, .initFail, .initFail, .initFail, .initFail, .initFail,
       .initOk [.item 2] true]).steps) = [1000, 0, 0, 0, 0] := by
  decide

/-- **review C12-4, `u64` overflow is NOT modelled** (PARTIAL, as the file header says). The Rust code
computes the product in `u64` with a plain `*`
(`/repo/barter-data/src/streams/reconnect/stream.rs:197`,
`let next = self.backoff_ms_current * self.policy.backoff_multiplier as u64;`) *before* capping it
(line 198); the model computes it in `ℕ`. This theorem records only the `ℕ` facts — no claim about
what the Rust code does at these points:
* a policy whose three fields fit their Rust types (`initial = 1000 < 2^64`, `mult = 255 < 2^8`,
  `max = 2^64 - 1`): after six consecutive failures the model's current back-off still fits
  (`< 2^64`) but the uncapped product of the seventh `multiply_backoff` is `≥ 2^64`; the model goes
  on with `max`;
* the reviewer's point (fields of the model's `Policy` are unbounded naturals): initial 1000,
  multiplier `2^20`, max `2^100`, four failures: the model's *wait itself* is `1000 · 2^80 ≥ 2^64`.
All the theorems of this file (`backoff`, `backoff_closed_form`, …) are statements about this `ℕ`
arithmetic; they say nothing about the code where `backoff_ms_current * multiplier ≥ 2^64`. -/
theorem backoff_u64_overflow_not_modelled_witness :
    (let p : Policy := ⟨1000, 255, 2 ^ 64 - 1⟩
     p.initial < 2 ^ 64 ∧ p.mult < 2 ^ 8 ∧ p.max < 2 ^ 64 ∧
     backoffAt p 6 < 2 ^ 64 ∧ 2 ^ 64 ≤ backoffAt p 6 * p.mult ∧ backoffAt p 7 = p.max) ∧
    (let q : Policy := ⟨1000, 2 ^ 20, 2 ^ 100⟩
     backoffAt q 4 = 1000 * 2 ^ 80 ∧ 2 ^ 64 ≤ backoffAt q 4) := by
  decide

/-! ### the hypotheses / objects above are non-trivial -/

/-- `demo`'s last connection stays open: six entries are over, the seventh is reached, two notices. -/
example : reached demo = demo ∧
    ((reached demo).filter (fun c => isOk c && over c)).length = 2 ∧
    (yields (runEvents ⟨100, 3, 500⟩ demo).steps).count .reconnecting = 2 := by decide
/-- entries after a connection that stays open are not reached (and `one_notice` does not apply) -/
example : reached [.initOk [.item 1] true, .initOk [.item 2] false] = [.initOk [.item 1] true] ∧
    (yields (runEvents ⟨100, 3, 500⟩ [.initOk [.item 1] true, .initOk [.item 2] false]).steps).count
      .reconnecting = 0 := by decide
/-- `demoOps` ends with 11, 12 dropped: the output is `[L 1, R 10]`, cut at L's end marker. -/
example : mergedOut (MergeSt.init.run demoOps).2 = [(true, 1), (false, 10)] := by decide
example : Interleave [1, 2] [10] [1, 10, 2] := .left (.right (.left .nil))

end BarterModel.Props.C12
