import BarterModel.Lemmas.ExchangeStream
/-!
# C12W — `ExchangeStream` poll loop, WebSocket message parser, deserialisation helpers
(sub-check of C12: the code between the socket and the reconnecting stream of C12)

Statements only; proofs go through `Lemmas/ExchangeStream.lean`.

Everything user supplied is universally quantified: `P : Params ..` is an arbitrary parser /
error conversion / **stateful** transformer, `de : De ι` an arbitrary deserialiser, `sem : FloatSem`
an arbitrary decimal → binary64 rounding. Scripts, buffers and histories are arbitrary lists.

Reading guide (after the review of the sub-check theorems, `audit/sub/report_A.md`):
* Results: `polls_refine_spec` (+ `outputs_complete`, `emitted_plus_future`), `transformer_threaded`,
  `poll_is_lazy`, `skipped_iff_housekeeping` + `ok_only_from_data`, the `*_panics_iff` theorems,
  `parse_u64_ok_iff`, `f64_from_str_numerals` + `f64_s_value` / `f64_ms_value`,
  `exchange_stream_run_is_a_c12_connection` (section E).
* Statements about the specification trace only (`ends_iff`, `after_end_always_none`,
  `pending_count`, `pending_after_script_iff`, `script_extension_stable`, `buffered_events_first`,
  the `specOut` laws): they hold of `poll_next` through `polls_refine_spec` / `outputs_complete`.
  "Stays ended" rests on the scripted inner stream (real `poll_next` re-polls it after `None`).
* Definitional / bookkeeping (proved by `rfl`, or true of every list — they pin conventions, they
  are not results): `pending_leaves_state`, `exhausted_is_fixed`, `datetime_from_duration`,
  `close_is_terminated`, `transport_error_passed`, `se_element_is_singleton`, `f64_words_accepted`,
  `f64_from_str_rejects`, `from_millis_total`, `exchange_stream_is_a_c12_connection`.
* `specParse` / `specDisconnected` are a second table by the same hand as `parse` /
  `isWebsocketDisconnected`: `parse_refines_spec`, `spec_silent_iff`, `disconnected_refines_spec`
  compare the two.
-/
namespace BarterModel.Props.C12W
open BarterModel.ExStream

variable {μ ε ι σ ο τ : Type}

/-! ## A. `ExchangeStream::poll_next` -/

/-- **Refinement, poll by poll.** For every parser, transformer, initial buffer, transformer state
and inner-stream script: the results of the first `n` calls of `poll_next` are exactly the first
`n` entries of the specification — buffer first, then every message replaced by its outputs and
every `Pending` of the inner stream kept in place, then `Ready(None)` / `Pending` for ever. -/
theorem polls_refine_spec (P : Params μ ε ι σ ο τ) (s : St μ σ ο τ) (n : Nat) :
    polls P n s = (List.range n).map (specPollAt P s) :=
  polls_eq_spec P n s

/-- The same, read as "determined prefix, then exhaustion". -/
theorem polls_eq_prefix_then_exhausted (P : Params μ ε ι σ ο τ) (s : St μ σ ο τ) (n : Nat) :
    polls P n s = (specPolls P s).take n ++
      List.replicate (n - (specPolls P s).length) (exhausted s.stream.ended) := by
  rw [polls_eq_spec, range_map_specPollAt]

/-- **Every item once, in order, nothing lost.** Once enough polls were made the items handed out
are the initial buffer followed by the concatenation, in message order, of
`err(parse error)` / nothing / the transformer's outputs, the transformer state threaded through. -/
theorem outputs_complete (P : Params μ ε ι σ ο τ) (s : St μ σ ο τ) (n : Nat)
    (hn : (specPolls P s).length ≤ n) :
    itemsOf (polls P n s) = s.buffer ++ specOut P s.transformer (messages s.stream.items) := by
  rw [polls_eq_prefix_then_exhausted, itemsOf_append, itemsOf_replicate_exhausted,
    List.take_of_length_le hn, itemsOf_specPolls]
  simp [future]

/-- At any earlier moment what was handed out is a prefix of that sequence (nothing twice, nothing
out of order, nothing invented). -/
theorem outputs_prefix (P : Params μ ε ι σ ο τ) (s : St μ σ ο τ) (n : Nat) :
    itemsOf (polls P n s) <+: s.buffer ++ specOut P s.transformer (messages s.stream.items) := by
  rw [polls_eq_prefix_then_exhausted, itemsOf_append, itemsOf_replicate_exhausted, List.append_nil]
  have := itemsOf_take_prefix (specPolls P s) n
  rwa [itemsOf_specPolls] at this

/-- **Conservation along a run**: after any number of polls, what was handed out so far followed by
what the state still owes (its buffer, then the outputs of the unread messages from its
transformer state) is the total of the start state. -/
theorem emitted_plus_future (P : Params μ ε ι σ ο τ) (s : St μ σ ο τ) (n : Nat) :
    itemsOf (polls P n s) ++ future P (after P n s) = future P s := by
  rw [← itemsOf_specPolls, ← itemsOf_specPolls, (after_specPolls P n s).1,
    polls_eq_prefix_then_exhausted, itemsOf_append, itemsOf_replicate_exhausted, List.append_nil,
    ← itemsOf_append, List.take_append_drop]

/-- A pre-filled buffer is emitted first, untouched, without polling the inner stream or the
transformer. -/
theorem buffer_first (P : Params μ ε ι σ ο τ) (s : St μ σ ο τ) (o : Except τ ο) (b : List (Except τ ο))
    (h : s.buffer = o :: b) :
    pollNext P s = ({ s with buffer := b }, .ready (some o)) := by
  simp [pollNext, h]

theorem buffer_emitted_first (P : Params μ ε ι σ ο τ) (s : St μ σ ο τ) :
    polls P s.buffer.length s = s.buffer.map (fun o => .ready (some o)) := by
  rw [polls_eq_prefix_then_exhausted]
  simp [specPolls]

/-- **The stream ends exactly when** the inner stream has ended and everything determined by the
script and the buffer has been handed out: poll `k` is `Ready(None)` iff `ended` and
`k ≥ |specPolls|`. In particular no error item (parse error, `Close`, transformer error) ends it. -/
theorem ends_iff (P : Params μ ε ι σ ο τ) (s : St μ σ ο τ) (k : Nat) :
    specPollAt P s k = .ready none ↔ (s.stream.ended = true ∧ (specPolls P s).length ≤ k) := by
  unfold specPollAt
  by_cases hk : k < (specPolls P s).length
  · have hne : (specPolls P s)[k] ≠ .ready none := by
      intro h
      have hm : PollRes.ready none ∈ specPolls P s := h ▸ List.getElem_mem hk
      have : ∀ (t : σ) (items : List (Inner μ)), PollRes.ready none ∉ specTrace P t items := by
        intro t items
        induction items generalizing t with
        | nil => simp [specTrace]
        | cons i items ih => cases i <;> simp [specTrace, ih]
      simp [specPolls, this] at hm
    simp [List.getElem?_eq_getElem hk, hne, Nat.not_le.mpr hk]
  · have hk' : (specPolls P s).length ≤ k := Nat.le_of_not_lt hk
    simp [exhausted, hk']

/-- After the end nothing else ever comes — as long as the inner stream keeps reporting its end:
the scripted inner stream of the model does; the real `poll_next` re-polls the inner stream after
`None`, so an un-fused inner stream that yields again would be passed through (outside the model).
A statement about the specification trace (`specPollAt`); it holds of `polls` through
`polls_refine_spec`. -/
theorem after_end_always_none (P : Params μ ε ι σ ο τ) (s : St μ σ ο τ) (k j : Nat)
    (h : specPollAt P s k = .ready none) (hj : k ≤ j) : specPollAt P s j = .ready none := by
  rw [ends_iff] at h ⊢
  exact ⟨h.1, Nat.le_trans h.2 hj⟩

/-- **`Pending` is passed through, never invented**: a poll answers `Pending` only where the inner
stream did — at a `Pending` entry of the script, or after the script while the inner stream has
not ended; and the number of `Pending`s in the determined part is the number in the script. -/
theorem pending_count (P : Params μ ε ι σ ο τ) (s : St μ σ ο τ) :
    (specPolls P s).countP (· matches .pending) = s.stream.items.countP (· matches .pending) := by
  have hb : ∀ b : List (Except τ ο),
      (b.map fun o => (PollRes.ready (some o) : PollRes (Except τ ο))).countP (· matches .pending) = 0 := by
    intro b; induction b <;> simp_all
  have ht : ∀ (t : σ) (items : List (Inner μ)),
      (specTrace P t items).countP (· matches .pending) = items.countP (· matches .pending) := by
    intro t items
    induction items generalizing t with
    | nil => rfl
    | cons i items ih => cases i <;> simp [specTrace, List.countP_append, hb, ih]
  simp [specPolls, List.countP_append, hb, ht]

theorem pending_after_script_iff (P : Params μ ε ι σ ο τ) (s : St μ σ ο τ) (k : Nat)
    (hk : (specPolls P s).length ≤ k) :
    specPollAt P s k = .pending ↔ s.stream.ended = false := by
  simp [specPollAt, List.getElem?_eq_none hk, exhausted]

/-- An immediately pending inner stream leaves buffer and transformer untouched. -/
theorem pending_leaves_state (P : Params μ ε ι σ ο τ) (t : σ) (rest : List (Inner μ)) (ended : Bool) :
    pollNext P ⟨⟨.pending :: rest, ended⟩, t, []⟩ = (⟨⟨rest, ended⟩, t, []⟩, .pending) := rfl

/-- An exhausted stream is a fixed point: polling it changes nothing. -/
theorem exhausted_is_fixed (P : Params μ ε ι σ ο τ) (t : σ) (ended : Bool) :
    pollNext P ⟨⟨[], ended⟩, t, []⟩ = (⟨⟨[], ended⟩, t, []⟩, exhausted ended) := rfl

/-- **No read-ahead, state threaded in input order**: after any number of polls the script is a
suffix of the original one, and the transformer state is the specification state after exactly
the messages consumed so far. -/
theorem transformer_threaded (P : Params μ ε ι σ ο τ) (s : St μ σ ο τ) (n : Nat) :
    ∃ consumed, s.stream.items = consumed ++ (after P n s).stream.items ∧
      (after P n s).transformer = specState P s.transformer (messages consumed) :=
  after_consumes P n s

/-- Once everything is consumed the transformer has seen every message exactly once, in order. -/
theorem final_transformer_state (P : Params μ ε ι σ ο τ) (s : St μ σ ο τ) (n : Nat)
    (h : (after P n s).stream.items = []) :
    (after P n s).transformer = specState P s.transformer (messages s.stream.items) := by
  obtain ⟨c, h1, h2⟩ := after_consumes P n s
  rw [h, List.append_nil] at h1
  rw [h2, h1]

/-- **Splitting law**: the output of `a ++ b` is the output of `a` followed by the output of `b`
started from the transformer state `a` leaves (so feeding a stream in pieces, or across
reconnections of the *same* transformer, is the same as feeding it whole). -/
theorem spec_out_append (P : Params μ ε ι σ ο τ) (t : σ) (a b : List μ) :
    specOut P t (a ++ b) = specOut P t a ++ specOut P (specState P t a) b :=
  specOut_append P t a b

/-- **Stability under extension of the script**: messages that arrive later never change what
was already determined. -/
theorem script_extension_stable (P : Params μ ε ι σ ο τ) (s : St μ σ ο τ) (more : List (Inner μ)) (k : Nat)
    (hk : k < (specPolls P s).length) :
    specPollAt P { s with stream := { s.stream with items := s.stream.items ++ more } } k = specPollAt P s k := by
  unfold specPollAt
  have : specPolls P { s with stream := { s.stream with items := s.stream.items ++ more } } =
      specPolls P s ++ specTrace P (specState P s.transformer (messages s.stream.items)) more := by
    simp [specPolls, specTrace_append]
  rw [this, List.getElem?_append_left hk]

/-- What one message contributes (the three arms of the loop body). -/
theorem skippable_contributes_nothing (P : Params μ ε ι σ ο τ) (t : σ) (m : μ) (h : P.parse m = none) :
    contribution P t m = (t, []) := by simp [contribution, h]

theorem parse_error_is_passed_downstream (P : Params μ ε ι σ ο τ) (t : σ) (m : μ) (e : ε)
    (h : P.parse m = some (.error e)) :
    contribution P t m = (t, [.error (P.conv e)]) := by simp [contribution, h]

/-- A parse error does not end the stream and does not disturb the transformer: the following
messages are processed as if it had not been there. -/
theorem error_does_not_end_stream (P : Params μ ε ι σ ο τ) (t : σ) (m : μ) (e : ε) (ms : List μ)
    (h : P.parse m = some (.error e)) :
    specOut P t (m :: ms) = .error (P.conv e) :: specOut P t ms := by
  simp [specOut, contribution, h]

/-- `process_buffered_events` + `ExchangeStream::new`: events buffered during subscription
validation come out first, in order, as if they had come through the stream — except that their
parse failures are dropped instead of passed downstream — and the live messages continue from the
transformer state they leave. -/
theorem buffered_events_first (P : Params μ ε ι σ ο τ) (t : σ) (buffered : List μ)
    (extra : List (Except τ ο)) (script : Script μ) :
    future P (St.new script (processBuffered P t buffered).1 ((processBuffered P t buffered).2 ++ extra)) =
      specOut (quiet P) t buffered ++ extra ++
        specOut P (specState (quiet P) t buffered) (messages script.items) := by
  simp [future, St.new, processBuffered_eq]

/-- Without parse failures among them, buffered events are indistinguishable from live ones. -/
theorem buffered_like_live (P : Params μ ε ι σ ο τ) (t : σ) (buffered : List μ)
    (h : ∀ m ∈ buffered, ∀ e, P.parse m ≠ some (.error e)) :
    processBuffered P t buffered = (specState P t buffered, specOut P t buffered) := by
  rw [processBuffered_eq]
  induction buffered generalizing t with
  | nil => rfl
  | cons m ms ih =>
    have hc : contribution (quiet P) t m = contribution P t m := by
      have := h m (by simp)
      unfold contribution quiet
      cases hp : P.parse m with
      | none => simp [hp]
      | some r => cases r with
        | error e => exact absurd hp (this e)
        | ok x => simp [hp]
    have := ih (contribution P t m).1 (fun m' hm' => h m' (by simp [hm']))
    simp only [specState, specOut, hc]
    simp only [Prod.mk.injEq] at this ⊢
    exact ⟨this.1, by rw [this.2]⟩

/-! ## B. `WebSocketParser::parse` and `is_websocket_disconnected` -/

/-- Exactly the housekeeping messages (`Ping`, `Pong`, raw `Frame`) are skipped. -/
theorem skipped_iff_housekeeping {ι : Type} (de : De ι) (m : Except WsError WsMessage) :
    parse de m = none ↔ disposition m = .housekeeping :=
  parse_none_iff de m

theorem text_ok {ι : Type} (de : De ι) (t : String) (x : ι) (h : de.text t = some x) :
    parse de (.ok (.text t)) = some (.ok x) := by simp [parse, processText, h]

theorem binary_ok {ι : Type} (de : De ι) (b : List Nat) (x : ι) (h : de.binary b = some x) :
    parse de (.ok (.binary b)) = some (.ok x) := by simp [parse, processBinary, h]

/-- A text payload that does not deserialise is reported with the payload itself. -/
theorem text_failure_carries_payload {ι : Type} (de : De ι) (t : String) (h : de.text t = none) :
    parse de (.ok (.text t)) = some (.error (.deserialise t)) := by simp [parse, processText, h]

/-- A binary payload that is UTF-8 and does not deserialise is reported with the payload as text. -/
theorem binary_failure_carries_payload {ι : Type} (de : De ι) (b : List Nat) (cs : List Char)
    (hu : utf8Decode b = .ok cs) (h : de.binary b = none) :
    parse de (.ok (.binary b)) = some (.error (.deserialise (String.ofList cs))) := by
  simp [parse, processBinary, h, binaryPayloadText, hu]

/-- A binary payload that is *not* UTF-8 and does not deserialise is reported with the text of
the UTF-8 error in the `payload` field, not with the payload. -/
theorem binary_failure_not_utf8_reports_error_text {ι : Type} (de : De ι) (b : List Nat) (v : Nat)
    (l : Option Nat) (hu : utf8Decode b = .err v l) (h : de.binary b = none) :
    parse de (.ok (.binary b)) = some (.error (.deserialise (utf8ErrorDisplay v l))) := by
  simp [parse, processBinary, h, binaryPayloadText, hu]

/-- Witness: the payload `[0xff]` is reported as the 46 characters below — the payload is lost. -/
theorem binary_payload_lost_witness {ι : Type} (de : De ι) (h : de.binary [0xff] = none) :
    parse de (.ok (.binary [0xff])) =
      some (.error (.deserialise "invalid utf-8 sequence of 1 bytes from index 0")) := by
  rw [binary_failure_not_utf8_reports_error_text de [0xff] 0 (some 1) (by decide) h]
  rfl

/-- `Close` always yields `SocketError::Terminated` carrying the `Debug` text of the frame,
whatever the deserialiser. -/
theorem close_is_terminated {ι : Type} (de : De ι) (f : Option CloseFrame) :
    parse de (.ok (.close f)) = some (.error (.terminated (closeFrameDebug f))) := rfl

/-- A transport error is passed on unchanged as `SocketError::WebSocket`. -/
theorem transport_error_passed {ι : Type} (de : De ι) (e : WsError) :
    parse de (.error e) = some (.error (.webSocket e)) := rfl

/-- The parser never fabricates a message: an `Ok` comes from the deserialiser applied to the
payload of a data message. -/
theorem ok_only_from_data {ι : Type} (de : De ι) (m : Except WsError WsMessage) (x : ι)
    (h : parse de m = some (.ok x)) :
    (∃ t, m = .ok (.text t) ∧ de.text t = some x) ∨ (∃ b, m = .ok (.binary b) ∧ de.binary b = some x) := by
  cases m with
  | error e => simp [parse] at h
  | ok w =>
    cases w with
    | text t =>
      left; refine ⟨t, rfl, ?_⟩
      simp only [parse, processText] at h
      cases hd : de.text t <;> simp_all
    | binary b =>
      right; refine ⟨b, rfl, ?_⟩
      simp only [parse, processBinary] at h
      cases hd : de.binary b <;> simp_all
    | ping p => simp [parse, processPing] at h
    | pong p => simp [parse, processPong] at h
    | close f => simp [parse, processCloseFrame] at h
    | frame f => simp [parse, processFrame] at h

/-- **The parser refines its documentation**: wherever the documented decision table determines
the result, `parse` returns it. -/
theorem parse_refines_spec {ι : Type} (de : De ι) (m : Except WsError WsMessage) (r : Parsed ι)
    (h : specParse de m = some r) : parse de m = r := by
  cases m with
  | error e => simp [specParse] at h; simp [parse, ← h]
  | ok w =>
    cases w with
    | text t => simp [specParse, disposition] at h; simp [parse, processText, ← h]
    | binary b =>
      simp only [specParse, disposition] at h
      cases hd : de.binary b with
      | some x => simp [hd] at h; simp [parse, processBinary, hd, ← h]
      | none =>
        simp only [hd, payloadText] at h
        cases hu : utf8Decode b with
        | ok cs => simp [hu] at h; simp [parse, processBinary, hd, binaryPayloadText, hu, ← h]
        | err v l => simp [hu] at h
    | ping p => simp [specParse, disposition] at h; simp [parse, processPing, ← h]
    | pong p => simp [specParse, disposition] at h; simp [parse, processPong, ← h]
    | close f => simp [specParse, disposition] at h; simp [parse, processCloseFrame, ← h]
    | frame f => simp [specParse, disposition] at h; simp [parse, processFrame, ← h]

/-- The documentation is silent in exactly one situation: a binary payload that is not UTF-8 and
does not deserialise. -/
theorem spec_silent_iff {ι : Type} (de : De ι) (m : Except WsError WsMessage) :
    specParse de m = none ↔
      ∃ b v l, m = .ok (.binary b) ∧ de.binary b = none ∧ utf8Decode b = .err v l := by
  cases m with
  | error e => simp [specParse]
  | ok w =>
    cases w with
    | text t => simp [specParse, disposition]
    | binary b =>
      simp only [specParse, disposition]
      cases hd : de.binary b with
      | some x => simp [hd]
      | none =>
        simp only [payloadText]
        cases hu : utf8Decode b with
        | ok cs => simp [hu]
        | err v l => simp [hd, hu]
    | ping p => simp [specParse, disposition]
    | pong p => simp [specParse, disposition]
    | close f => simp [specParse, disposition]
    | frame f => simp [specParse, disposition]

/-- `is_websocket_disconnected` agrees with tungstenite's documentation wherever that settles the
question. -/
theorem disconnected_refines_spec (e : WsError) (b : Bool) (h : specDisconnected e = some b) :
    isWebsocketDisconnected e = b := by
  cases e <;> simp_all [specDisconnected, isWebsocketDisconnected]

/-- **`Close` does not end an `ExchangeStream`** (for every deserialiser, error conversion and
transformer): it becomes one `Terminated` error item and the following messages are still
processed, from the same transformer state. Ending / reconnecting is left to the consumer. -/
theorem close_does_not_end_stream {ι : Type} (de : De ι) (conv : SocketError → τ)
    (tr : σ → ι → σ × List (Except τ ο)) (t : σ) (f : Option CloseFrame)
    (ms : List (Except WsError WsMessage)) :
    specOut ⟨parse de, conv, tr⟩ t (.ok (.close f) :: ms) =
      .error (conv (.terminated (closeFrameDebug f))) :: specOut ⟨parse de, conv, tr⟩ t ms := by
  simp [specOut, contribution, parse, processCloseFrame]

/-- Housekeeping messages are invisible in the output and to the transformer. -/
theorem housekeeping_invisible {ι : Type} (de : De ι) (conv : SocketError → τ)
    (tr : σ → ι → σ × List (Except τ ο)) (t : σ) (m : Except WsError WsMessage)
    (h : disposition m = .housekeeping) (a b : List (Except WsError WsMessage)) :
    specOut ⟨parse de, conv, tr⟩ t (a ++ m :: b) = specOut ⟨parse de, conv, tr⟩ t (a ++ b) ∧
    specState ⟨parse de, conv, tr⟩ t (a ++ m :: b) = specState ⟨parse de, conv, tr⟩ t (a ++ b) := by
  have hp : parse de m = none := (parse_none_iff de m).mpr h
  rw [specOut_append, specOut_append, specState_append, specState_append]
  simp [specOut, specState, contribution, hp]

/-- `is_websocket_disconnected`: exactly these four. -/
theorem disconnected_iff (e : WsError) :
    isWebsocketDisconnected e = true ↔
      (e = .connectionClosed ∨ e = .alreadyClosed ∨ e = .io ∨ e = .protocol .sendAfterClosing) := by
  cases e with
  | protocol p => cases p <;> simp [isWebsocketDisconnected]
  | _ => simp [isWebsocketDisconnected]

/-- The close code shown in `Terminated(..)`: the registered codes get their names, every other
16-bit value keeps its number in one of the four numbered classes. -/
theorem close_code_classes (c : Nat) :
    (c ∈ [1000, 1001, 1002, 1003, 1005, 1006, 1007, 1008, 1009, 1010, 1011, 1012, 1013, 1015] ∨
      CloseCode.ofU16 c = .bad c ∨ CloseCode.ofU16 c = .reserved c ∨ CloseCode.ofU16 c = .iana c ∨
      CloseCode.ofU16 c = .library c) := by
  by_cases hm : c ∈ [1000, 1001, 1002, 1003, 1005, 1006, 1007, 1008, 1009, 1010, 1011, 1012, 1013, 1015]
  · exact Or.inl hm
  · right
    simp only [List.mem_cons, List.not_mem_nil, or_false, not_or] at hm
    obtain ⟨h1, h2, h3, h4, h5, h6, h7, h8, h9, h10, h11, h12, h13, h14⟩ := hm
    unfold CloseCode.ofU16
    rw [if_neg h1, if_neg h2, if_neg h3, if_neg h4, if_neg h5, if_neg h6, if_neg h7, if_neg h8, if_neg h9,
      if_neg h10, if_neg h11, if_neg h12, if_neg h13, if_neg h14]
    split
    · exact Or.inl rfl
    · split
      · exact Or.inr (Or.inl rfl)
      · split
        · exact Or.inr (Or.inr (Or.inl rfl))
        · split
          · exact Or.inr (Or.inr (Or.inr rfl))
          · exact Or.inl rfl

/-- The numbered classes are exactly the documented ranges. -/
theorem close_code_reserved (c : Nat) (h : 1016 ≤ c ∧ c ≤ 2999) : CloseCode.ofU16 c = .reserved c := by
  unfold CloseCode.ofU16
  iterate 15 rw [if_neg (by omega)]
  rw [if_pos h]

theorem close_code_iana (c : Nat) (h : 3000 ≤ c ∧ c ≤ 3999) : CloseCode.ofU16 c = .iana c := by
  unfold CloseCode.ofU16
  iterate 16 rw [if_neg (by omega)]
  rw [if_pos h]

theorem close_code_library (c : Nat) (h : 4000 ≤ c ∧ c ≤ 4999) : CloseCode.ofU16 c = .library c := by
  unfold CloseCode.ofU16
  iterate 17 rw [if_neg (by omega)]
  rw [if_pos h]

/-! ## C. `de.rs` -/

theorem from_millis_total (ms : Nat) : (Duration.fromMillis ms).totalNanos = ms * nanosPerMilli :=
  fromMillis_total ms

/-- `datetime_utc_from_epoch_duration`: the instant `secs·10⁹ + nanos` ns after the epoch; it panics
exactly when the seconds exceed chrono's last representable second. (Definitional: this is the
`if` of the model's definition unfolded; the tie to the code is the correspondence — `dur` ops.) -/
theorem datetime_from_duration (d : Duration) :
    datetimeUtcFromEpochDuration d =
      if d.secs ≤ maxChronoSecs then some (d.secs * nanosPerSec + d.nanos) else none := rfl

/-- Strictly monotone on normalised durations (so distinct durations give distinct instants). -/
theorem datetime_from_duration_strict_mono (a b : Duration) (ha : a.nanos < nanosPerSec)
    (h : a.secs < b.secs ∨ (a.secs = b.secs ∧ a.nanos < b.nanos)) :
    a.totalNanos < b.totalNanos := by
  simp only [Duration.totalNanos, nanosPerSec] at *
  rcases h with h | ⟨h1, h2⟩
  · have : (a.secs + 1) * 1000000000 ≤ b.secs * 1000000000 := Nat.mul_le_mul_right _ h
    omega
  · rw [h1]; omega

/-- `de_u64_epoch_ms_as_datetime_utc`: a JSON unsigned integer `n` (fitting `u64`, inside chrono's
range) is the instant `n` ms after the epoch, exactly. -/
theorem u64_ms_exact (n : Nat) (h64 : n ≤ u64Max) (hr : n / 1000 ≤ maxChronoSecs) :
    deU64EpochMs (.uint n) = .ok (specEpochMs n) := by
  simp only [deU64EpochMs, if_pos h64]
  rw [ok_of_datetime _ (by simpa [Duration.fromMillis] using hr), fromMillis_total]; rfl

/-- It is an error exactly on everything that is not a JSON unsigned integer fitting `u64`
(negative numbers, fractions, exponents, strings, `null`, ...). -/
theorem u64_ms_rejects_iff (j : Json) :
    (∃ e, deU64EpochMs j = .err e) ↔ ¬ ∃ n, j = .uint n ∧ n ≤ u64Max := by
  cases j with
  | uint n =>
    by_cases h : n ≤ u64Max
    · simp only [deU64EpochMs, if_pos h]
      constructor
      · rintro ⟨e, he⟩
        cases hd : datetimeUtcFromEpochDuration (Duration.fromMillis n) <;> simp [hd, ofDateTime] at he
      · intro hc; exact absurd ⟨n, rfl, h⟩ hc
    · simp only [deU64EpochMs, if_neg h]
      constructor
      · rintro _ ⟨m, hm, hm'⟩; cases hm; exact h hm'
      · intro _; exact ⟨_, rfl⟩
  | str c e => simp [deU64EpochMs]
  | other => simp [deU64EpochMs]

/-- It **panics** (instead of returning an error) exactly on the integers beyond chrono's range:
`8 210 266 876 800 000 ≤ n ≤ u64::MAX`. -/
theorem u64_ms_panics_iff (j : Json) :
    deU64EpochMs j = .panic ↔ ∃ n, j = .uint n ∧ n ≤ u64Max ∧ maxChronoSecs < n / 1000 := by
  cases j with
  | uint n =>
    by_cases h : n ≤ u64Max
    · by_cases hr : n / 1000 ≤ maxChronoSecs
      · simp only [deU64EpochMs, if_pos h]
        rw [ok_of_datetime _ (by simpa [Duration.fromMillis] using hr)]
        constructor
        · intro hc; cases hc
        · rintro ⟨m, hm, _, hm'⟩; cases hm; exact absurd hr (Nat.not_le.mpr hm')
      · simp only [deU64EpochMs, if_pos h]
        rw [panic_of_datetime _ (by simpa [Duration.fromMillis] using hr)]
        exact ⟨fun _ => ⟨n, rfl, h, Nat.lt_of_not_le hr⟩, fun _ => rfl⟩
    · simp only [deU64EpochMs, if_neg h]
      constructor
      · intro hc; cases hc
      · rintro ⟨m, hm, hm', _⟩; cases hm; exact absurd hm' h
  | str c e => simp [deU64EpochMs]
  | other => simp [deU64EpochMs]

theorem u64_ms_panic_witness : deU64EpochMs (.uint 8210266876800000) = .panic := by decide

/-- `de_str`: only a string literal without escape sequences reaches `FromStr`; everything else
(including a string such as `"1"` whose *value* would parse) is an error. -/
theorem de_str_needs_plain_string {α : Type} (p : List Char → Except String α) (j : Json) (a : α)
    (h : deStr p j = .ok a) : ∃ cs, j = .str cs false ∧ p cs = .ok a := by
  cases j with
  | str cs e =>
    cases e with
    | true => simp [deStr] at h
    | false =>
      refine ⟨cs, rfl, ?_⟩
      simp only [deStr] at h
      cases hp : p cs <;> simp_all
  | uint n => simp [deStr] at h
  | other => simp [deStr] at h

theorem de_str_never_panics {α : Type} (p : List Char → Except String α) (j : Json) :
    deStr p j ≠ .panic := by
  cases j with
  | str cs e =>
    cases e with
    | true => simp [deStr]
    | false => simp only [deStr]; cases p cs <;> simp
  | uint n => simp [deStr]
  | other => simp [deStr]

/-- **What `u64::from_str` accepts**: an optional `+`, then one or more ASCII digits (leading
zeros allowed) whose value fits `u64`. Nothing else: no `-`, no whitespace, no separators. -/
theorem parse_u64_ok_iff (cs : List Char) (n : Nat) :
    parseU64Str cs = .ok n ↔
      ∃ ds, (cs = ds ∨ cs = '+' :: ds) ∧ ds ≠ [] ∧ ds.all isDigit = true ∧ natOfDigits ds = n ∧ n ≤ u64Max := by
  have plus_not_digit : isDigit '+' = false := by decide
  constructor
  · intro h
    unfold parseU64Str at h
    split at h
    · cases h
    · cases h
    · cases h
    · rename_i cs' hne
      rw [u64Loop_zero_ok_iff] at h
      have hne' : cs' ≠ [] := by intro h0; exact hne (by rw [h0])
      exact ⟨cs', Or.inr rfl, hne', h.1, h.2.1, by simpa [hne'] using h.2.2⟩
    · rename_i h1 h2 h3 h4
      rw [u64Loop_zero_ok_iff] at h
      have hne' : cs ≠ [] := by intro h0; exact h1 h0
      exact ⟨cs, Or.inl rfl, hne', h.1, h.2.1, by simpa [hne'] using h.2.2⟩
  · rintro ⟨ds, hcs, hne, hd, hv, hm⟩
    have hloop : u64Loop 0 ds = .ok n := (u64Loop_zero_ok_iff ds n).mpr ⟨hd, hv, Or.inr hm⟩
    rcases hcs with rfl | rfl
    · unfold parseU64Str
      split
      · exact absurd rfl hne
      · simp [plus_not_digit] at hd
      · exact absurd hd (by decide)
      · simp [plus_not_digit] at hd
      · exact hloop
    · unfold parseU64Str
      split
      · rename_i h; cases h
      · rename_i h; cases h; exact absurd rfl hne
      · rename_i h; cases h
      · rename_i h; cases h; exact hloop
      · rename_i h1 h2 h3 h4; exact absurd rfl (h4 ds)

/-- `de_str_u64_epoch_ms_as_datetime_utc` on a plain decimal numeral agrees with
`de_u64_epoch_ms_as_datetime_utc` on the same number (the two encodings of a timestamp mean the
same instant). -/
theorem str_u64_agrees_with_u64 (ds : List Char) (hne : ds ≠ []) (hd : ds.all isDigit = true)
    (hm : natOfDigits ds ≤ u64Max) :
    deStrU64EpochMs (.str ds false) = deU64EpochMs (.uint (natOfDigits ds)) := by
  have : parseU64Str ds = .ok (natOfDigits ds) :=
    (parse_u64_ok_iff ds _).mpr ⟨ds, Or.inl rfl, hne, hd, rfl, hm⟩
  simp only [deStrU64EpochMs, deStr, this, deU64EpochMs, if_pos hm]

/-- ... hence exact inside chrono's range. -/
theorem str_u64_ms_exact (ds : List Char) (hne : ds ≠ []) (hd : ds.all isDigit = true)
    (hm : natOfDigits ds ≤ u64Max) (hr : natOfDigits ds / 1000 ≤ maxChronoSecs) :
    deStrU64EpochMs (.str ds false) = .ok (specEpochMs (specNumeral ds)) := by
  rw [str_u64_agrees_with_u64 ds hne hd hm, u64_ms_exact _ hm hr]; rfl

/-- `f64 as u64`. -/
theorem f64_as_u64_in_range (q : Rat) (h0 : 0 ≤ q) (h1 : q < (2 : Rat) ^ 64) :
    f64AsU64 (.finite q) = q.floor.toNat := by
  have hn : ¬ q < 0 := by grind
  simp only [f64AsU64, hn, if_false]
  apply Nat.min_eq_left
  have hf : q.floor < (18446744073709551616 : Int) := by
    rw [Rat.floor_lt_iff, two_pow_64]; exact h1
  have h0' : 0 ≤ q.floor := by rw [Rat.le_floor_iff]; simpa using h0
  have : u64Max = 18446744073709551615 := by decide
  rw [this]
  omega

theorem f64_as_u64_negative (q : Rat) (h : q < 0) : f64AsU64 (.finite q) = 0 := by
  simp [f64AsU64, h]

/-- `de_str_f64_epoch_ms_as_datetime_utc` on a string that `f64::from_str` reads as the finite
value `q ∈ [0, 2⁶⁴)`: the fraction of a millisecond is **truncated**. -/
theorem f64_ms_value (sem : FloatSem) (cs : List Char) (q : Rat)
    (hp : parseF64Str sem cs = .ok (.finite q)) (h0 : 0 ≤ q) (h1 : q < (2 : Rat) ^ 64)
    (hr : q.floor.toNat / 1000 ≤ maxChronoSecs) :
    deStrF64EpochMs sem (.str cs false) = .ok (specEpochMs q.floor.toNat) := by
  simp only [deStrF64EpochMs, deStr, hp, f64_as_u64_in_range q h0 h1]
  rw [ok_of_datetime _ (by simpa [Duration.fromMillis] using hr), fromMillis_total]; rfl

/-- ... so the result is within one millisecond below the value the string denotes *as read by
`f64::from_str`*: `t ≤ q·10⁶ < t + 10⁶` (ns). -/
theorem f64_ms_truncates (q : Rat) (h0 : 0 ≤ q) :
    ((specEpochMs q.floor.toNat : Nat) : Rat) ≤ q * 1000000 ∧
      q * 1000000 < ((specEpochMs q.floor.toNat : Nat) : Rat) + 1000000 := by
  have h0' : 0 ≤ q.floor := by rw [Rat.le_floor_iff]; simpa using h0
  have hc : ((q.floor.toNat : Nat) : Rat) = (q.floor : Rat) := toNat_cast_rat _ h0'
  have h1 := Rat.floor_le q
  have h2 := Rat.lt_floor_add_one q
  have h3 : ((q.floor + 1 : Int) : Rat) = (q.floor : Rat) + 1 := by simp [Rat.intCast_add]
  rw [h3] at h2
  simp only [specEpochMs, nanosPerMilli, Rat.natCast_mul, hc]
  constructor <;> grind

/-- A negative number of milliseconds, or `NaN`, is silently read as **the epoch itself**. -/
theorem f64_ms_negative_is_epoch (sem : FloatSem) (cs : List Char) (q : Rat)
    (hp : parseF64Str sem cs = .ok (.finite q)) (h : q < 0) :
    deStrF64EpochMs sem (.str cs false) = .ok 0 := by
  simp only [deStrF64EpochMs, deStr, hp, f64AsU64, if_pos h]
  decide

theorem f64_ms_nan_is_epoch (sem : FloatSem) (cs : List Char)
    (hp : parseF64Str sem cs = .ok .nan) :
    deStrF64EpochMs sem (.str cs false) = .ok 0 := by
  simp only [deStrF64EpochMs, deStr, hp, f64AsU64]
  decide

/-- `"inf"` (saturating to `u64::MAX` ms) panics; `"-inf"` is the epoch. -/
theorem f64_ms_inf (sem : FloatSem) (cs : List Char) (neg : Bool)
    (hp : parseF64Str sem cs = .ok (.inf neg)) :
    deStrF64EpochMs sem (.str cs false) = if neg then .ok 0 else .panic := by
  cases neg
  · simp only [deStrF64EpochMs, deStr, hp, f64AsU64]
    decide
  · simp only [deStrF64EpochMs, deStr, hp, f64AsU64]
    decide

/-- `"inf"`, `"nan"`, `"infinity"` in any case and with any sign are accepted by `f64::from_str`,
whatever the rounding. -/
theorem f64_words_accepted (sem : FloatSem) :
    parseF64Str sem "nan".toList = .ok .nan ∧ parseF64Str sem "-NaN".toList = .ok .nan ∧
    parseF64Str sem "inf".toList = .ok (.inf false) ∧ parseF64Str sem "-Infinity".toList = .ok (.inf true) := by
  refine ⟨?_, ?_, ?_, ?_⟩ <;> rfl

/-- `Duration::from_secs_f64` + `datetime_utc_from_epoch_duration` on a finite `q ∈ [0, 2⁶⁴)`. -/
theorem f64_s_value (sem : FloatSem) (cs : List Char) (q : Rat)
    (hp : parseF64Str sem cs = .ok (.finite q)) (h0 : 0 ≤ q) (h1 : q < (2 : Rat) ^ 64)
    (hr : (roundHalfEven (q * nanosPerSec)).toNat / nanosPerSec ≤ maxChronoSecs) :
    deStrF64EpochS sem (.str cs false) = .ok (roundHalfEven (q * nanosPerSec)).toNat := by
  have hn : ¬ q < 0 := by grind
  have h2 : ¬ (2 : Rat) ^ 64 ≤ q := by grind
  simp only [deStrF64EpochS, deStr, hp, durationFromSecsF64, if_neg hn, if_neg h2]
  rw [ok_of_datetime _ hr]
  simp only [Duration.totalNanos]
  congr 1
  rw [Nat.mul_comm]; exact Nat.div_add_mod _ _

/-- ... which is the nearest whole nanosecond to `q` seconds: `|t − q·10⁹| ≤ ½`. -/
theorem f64_s_nearest_nanosecond (q : Rat) (h0 : 0 ≤ q) :
    (((roundHalfEven (q * nanosPerSec)).toNat : Nat) : Rat) - q * nanosPerSec ≤ 1 / 2 ∧
    q * nanosPerSec - (((roundHalfEven (q * nanosPerSec)).toNat : Nat) : Rat) ≤ 1 / 2 := by
  have hq : 0 ≤ q * (nanosPerSec : Rat) := by
    have : (0 : Rat) ≤ (nanosPerSec : Rat) := by decide +kernel
    exact Rat.mul_nonneg h0 this
  have hr := roundHalfEven_close (q * nanosPerSec)
  rw [toNat_cast_rat _ (roundHalfEven_nonneg _ hq)]; exact hr

/-- With the rounding of `f64::from_str` left abstract: if it moves the decimal value `d` by at
most `δ` seconds, the instant is within `δ·10⁹ + ½` ns of `d` seconds. -/
theorem f64_s_within_tolerance (d q δ : Rat) (h0 : 0 ≤ q) (hδ : q - d ≤ δ ∧ d - q ≤ δ) :
    (((roundHalfEven (q * nanosPerSec)).toNat : Nat) : Rat) - d * nanosPerSec ≤ δ * nanosPerSec + 1 / 2 ∧
    d * nanosPerSec - (((roundHalfEven (q * nanosPerSec)).toNat : Nat) : Rat) ≤ δ * nanosPerSec + 1 / 2 := by
  have h := f64_s_nearest_nanosecond q h0
  have hn : (nanosPerSec : Rat) = 1000000000 := by decide +kernel
  rw [hn] at h ⊢
  constructor <;> grind

/-- `de_str_f64_epoch_s_as_datetime_utc` **panics** on every negative, `NaN`, infinite or
`≥ 2⁶⁴` value that `f64::from_str` accepts (e.g. the strings `"-1"`, `"nan"`, `"inf"`, `"1e20"`). -/
theorem f64_s_panics (sem : FloatSem) (cs : List Char) (x : F64) (hp : parseF64Str sem cs = .ok x)
    (hx : x = .nan ∨ (∃ n, x = .inf n) ∨ ∃ q, x = .finite q ∧ (q < 0 ∨ (2 : Rat) ^ 64 ≤ q)) :
    deStrF64EpochS sem (.str cs false) = .panic := by
  rcases hx with rfl | ⟨n, rfl⟩ | ⟨q, rfl, hq | hq⟩
  · simp [deStrF64EpochS, deStr, hp, durationFromSecsF64]
  · simp [deStrF64EpochS, deStr, hp, durationFromSecsF64]
  · simp [deStrF64EpochS, deStr, hp, durationFromSecsF64, hq]
  · have hn : ¬ q < 0 := by
      have : (0 : Rat) < (2 : Rat) ^ 64 := by decide +kernel
      grind
    simp [deStrF64EpochS, deStr, hp, durationFromSecsF64, hn, hq]

/-- The helpers on strings return an error (never a value) for anything that is not a plain JSON
string, and for a plain string exactly when `FromStr` fails. -/
theorem str_helpers_error_on_non_string (sem : FloatSem) (j : Json) (h : ∀ cs, j ≠ .str cs false) :
    deStrU64EpochMs j = .err eJson ∧ deStrF64EpochMs sem j = .err eJson ∧ deStrF64EpochS sem j = .err eJson := by
  cases j with
  | str cs e =>
    cases e with
    | true => simp [deStrU64EpochMs, deStrF64EpochMs, deStrF64EpochS, deStr]
    | false => exact absurd rfl (h cs)
  | uint n => simp [deStrU64EpochMs, deStrF64EpochMs, deStrF64EpochS, deStr]
  | other => simp [deStrU64EpochMs, deStrF64EpochMs, deStrF64EpochS, deStr]

/-- `extract_next` used `k` times on a sequence: with enough well-typed elements the fields are the
first `k` elements in order and the rest is untouched. -/
theorem extract_all_ok {J α : Type} (de : J → Option α) (names : List String) (js : List J) (vs : List α)
    (hlen : vs.length = names.length) (hv : ∀ i (h : i < vs.length), ∃ h' : i < js.length, de js[i] = some vs[i]) :
    extractAll de names js = .ok (vs, js.drop names.length) := by
  induction names generalizing js vs with
  | nil =>
    have : vs = [] := List.eq_nil_of_length_eq_zero (by simpa using hlen)
    simp [extractAll, this]
  | cons n names ih =>
    match vs, hlen with
    | v :: vs, hlen =>
      obtain ⟨h0, hd0⟩ := hv 0 (by simp)
      match js, h0 with
      | j :: js, _ =>
        have hd0' : de j = some v := by simpa using hd0
        have := ih js vs (by simpa using hlen) (fun i h => by
          obtain ⟨h', hd⟩ := hv (i + 1) (by simpa using h)
          exact ⟨by simpa using h', by simpa using hd⟩)
        simp [extractAll, extractNext, hd0', this]

/-- A sequence that is too short fails with `missing_field` naming the **first absent** field. -/
theorem extract_all_missing {J α : Type} (de : J → Option α) (names : List String) (js : List J)
    (hshort : js.length < names.length) (hv : ∀ j ∈ js, (de j).isSome) :
    extractAll de names js = .error (eMissing (names[js.length]'hshort)) := by
  induction names generalizing js with
  | nil => simp at hshort
  | cons n names ih =>
    cases js with
    | nil => simp [extractAll, extractNext]
    | cons j js =>
      have hj := hv j (by simp)
      cases hd : de j with
      | none => simp [hd] at hj
      | some a =>
        have := ih js (by simpa using hshort) (fun j' hj' => hv j' (by simp [hj']))
        simp [extractAll, extractNext, hd, this]

/-- `se_element_to_vector`: always a sequence of exactly the one element. -/
theorem se_element_is_singleton {α : Type} (x : α) :
    seElementToVector x = [x] ∧ (seElementToVector x).length = 1 := ⟨rfl, rfl⟩

/-! ## D. End to end from the characters; laziness; link to C12 -/

/-- The value a decimal numeral `ip.fp` denotes. -/
def decimalValue (ip fp : List Char) : Rat :=
  (natOfDigits (ip ++ fp) : Rat) * pow10Rat (-(fp.length : Int))

/-- `f64::from_str` reads a numeral as the rounding of the value it denotes: integer numerals,
decimal numerals, with a leading `-`. (Exponents: `parseNumber`.) -/
theorem f64_from_str_numerals (sem : FloatSem) (ip fp : List Char) (hip : ip.all isDigit = true)
    (hfp : fp.all isDigit = true) (hne : ip ≠ [] ∨ fp ≠ []) :
    parseF64Str sem (ip ++ '.' :: fp) = .ok (sem.round (decimalValue ip fp)) ∧
    parseF64Str sem ('-' :: (ip ++ '.' :: fp)) = .ok (sem.round (-decimalValue ip fp)) ∧
    (ip ≠ [] → parseF64Str sem ip = .ok (sem.round (natOfDigits ip : Rat))) := by
  have h := parseNumber_decimal ip fp hip hfp hne
  refine ⟨parseF64Str_number sem _ _ h, parseF64Str_negative sem _ _ h, ?_⟩
  intro hi
  exact parseF64Str_number sem _ _ (parseNumber_integer ip hip hi)

/-- Anything that starts with something other than a sign, a digit or a dot and is not one of the
three words is rejected; so is the empty string. -/
theorem f64_from_str_rejects (sem : FloatSem) :
    parseF64Str sem [] = .error eFloatEmpty ∧ parseF64Str sem " 1".toList = .error eFloatInvalid ∧
    parseF64Str sem "1 ".toList = .error eFloatInvalid ∧ parseF64Str sem ".".toList = .error eFloatInvalid ∧
    parseF64Str sem "1e".toList = .error eFloatInvalid ∧ parseF64Str sem "1,5".toList = .error eFloatInvalid ∧
    parseF64Str sem "+-1".toList = .error eFloatInvalid ∧ parseF64Str sem "0x10".toList = .error eFloatInvalid := by
  refine ⟨?_, ?_, ?_, ?_, ?_, ?_, ?_, ?_⟩ <;> rfl

/-- **End to end, from the characters**: for every decimal numeral `ip.fp` (any number of digits),
every rounding `sem` that moves its value `d` by at most `δ` to a finite non-negative `q < 2⁶⁴`
inside chrono's range, `de_str_f64_epoch_s_as_datetime_utc` returns an instant within
`δ·10⁹ + ½` ns of `d` seconds. -/
theorem f64_s_decimal_within_tolerance (sem : FloatSem) (ip fp : List Char) (hip : ip.all isDigit = true)
    (hfp : fp.all isDigit = true) (hne : ip ≠ [] ∨ fp ≠ []) (q δ : Rat)
    (hround : sem.round (decimalValue ip fp) = .finite q) (h0 : 0 ≤ q) (h1 : q < (2 : Rat) ^ 64)
    (hδ : q - decimalValue ip fp ≤ δ ∧ decimalValue ip fp - q ≤ δ)
    (hr : (roundHalfEven (q * nanosPerSec)).toNat / nanosPerSec ≤ maxChronoSecs) :
    ∃ t : Nat, deStrF64EpochS sem (.str (ip ++ '.' :: fp) false) = .ok t ∧
      (t : Rat) - decimalValue ip fp * nanosPerSec ≤ δ * nanosPerSec + 1 / 2 ∧
      decimalValue ip fp * nanosPerSec - (t : Rat) ≤ δ * nanosPerSec + 1 / 2 := by
  have hp := (f64_from_str_numerals sem ip fp hip hfp hne).1
  rw [hround] at hp
  exact ⟨_, f64_s_value sem _ q hp h0 h1 hr, f64_s_within_tolerance _ q δ h0 hδ⟩

/-- ... and `de_str_f64_epoch_ms_as_datetime_utc` returns the whole millisecond at or below the
rounded value. -/
theorem f64_ms_decimal_end_to_end (sem : FloatSem) (ip fp : List Char) (hip : ip.all isDigit = true)
    (hfp : fp.all isDigit = true) (hne : ip ≠ [] ∨ fp ≠ []) (q : Rat)
    (hround : sem.round (decimalValue ip fp) = .finite q) (h0 : 0 ≤ q) (h1 : q < (2 : Rat) ^ 64)
    (hr : q.floor.toNat / 1000 ≤ maxChronoSecs) :
    deStrF64EpochMs sem (.str (ip ++ '.' :: fp) false) = .ok (specEpochMs q.floor.toNat) := by
  have hp := (f64_from_str_numerals sem ip fp hip hfp hne).1
  rw [hround] at hp
  exact f64_ms_value sem _ q hp h0 h1 hr

/-- A negative numeral: milliseconds silently become the epoch, seconds panic. -/
theorem negative_numeral (sem : FloatSem) (ip fp : List Char) (hip : ip.all isDigit = true)
    (hfp : fp.all isDigit = true) (hne : ip ≠ [] ∨ fp ≠ []) (q : Rat)
    (hround : sem.round (-decimalValue ip fp) = .finite q) (hq : q < 0) :
    deStrF64EpochMs sem (.str ('-' :: (ip ++ '.' :: fp)) false) = .ok 0 ∧
    deStrF64EpochS sem (.str ('-' :: (ip ++ '.' :: fp)) false) = .panic := by
  have hp := (f64_from_str_numerals sem ip fp hip hfp hne).2.1
  rw [hround] at hp
  exact ⟨f64_ms_negative_is_epoch sem _ q hp hq,
    f64_s_panics sem _ _ hp (Or.inr (Or.inr ⟨q, rfl, Or.inl hq⟩))⟩

/-- **Laziness**: a poll from an empty buffer reads the inner stream only as far as needed — the
entries it consumed before the one that produced its result contributed nothing (no output, no
`Pending`), so no message is transformed before the outputs of its predecessors were handed out. -/
theorem poll_is_lazy (P : Params μ ε ι σ ο τ) (s : St μ σ ο τ) (hb : s.buffer = []) :
    ((pollNext P s).1.stream.items = [] ∧ specTrace P s.transformer s.stream.items = []) ∨
    ∃ pre last, s.stream.items = pre ++ last :: (pollNext P s).1.stream.items ∧
      specTrace P s.transformer pre = [] ∧
      specTrace P (specState P s.transformer (messages pre)) [last] ≠ [] := by
  rcases s with ⟨⟨items, ended⟩, t, buffer⟩
  cases hb
  simpa [pollNext] using pollInner_minimal P ended t items

/-- An ASCII payload is its own text (so a failed ASCII binary payload is reported verbatim). -/
theorem ascii_binary_failure_verbatim {ι : Type} (de : De ι) (b : List Nat) (ha : ∀ x ∈ b, x < 0x80)
    (h : de.binary b = none) :
    parse de (.ok (.binary b)) = some (.error (.deserialise (String.ofList (b.map Char.ofNat)))) :=
  binary_failure_carries_payload de b _ (utf8Decode_ascii b ha) h

/-- Scientific notation: `ip.fp e ds` denotes `ip.fp · 10^ds`, `ip.fp e-ds` denotes `ip.fp · 10^-ds`. -/
theorem f64_from_str_scientific (sem : FloatSem) (ip fp ds : List Char) (hip : ip.all isDigit = true)
    (hfp : fp.all isDigit = true) (hds : ds.all isDigit = true) (hne : ip ≠ [] ∨ fp ≠ []) (hdne : ds ≠ []) :
    parseF64Str sem (ip ++ '.' :: (fp ++ 'e' :: ds)) =
      .ok (sem.round (decimalValue ip fp * pow10Rat (natOfDigits ds : Int))) ∧
    parseF64Str sem (ip ++ '.' :: (fp ++ 'e' :: '-' :: ds)) =
      .ok (sem.round (decimalValue ip fp * pow10Rat (-(natOfDigits ds : Int)))) := by
  have h := parseNumber_scientific ip fp ds hip hfp hds hne hdne
  have hpow : ∀ a b : Int, pow10Rat (a + b) = pow10Rat a * pow10Rat b := by
    intro a b; unfold pow10Rat; exact Rat.zpow_add (by decide) a b
  constructor
  · rw [parseF64Str_number sem _ _ h.1]
    congr 2
    unfold decimalValue
    rw [show ((natOfDigits ds : Int) - (fp.length : Int)) = -(fp.length : Int) + (natOfDigits ds : Int) by omega,
      hpow, Rat.mul_assoc]
  · rw [parseF64Str_number sem _ _ h.2]
    congr 2
    unfold decimalValue
    rw [show (-(natOfDigits ds : Int) - (fp.length : Int)) = -(fp.length : Int) + -(natOfDigits ds : Int) by omega,
      hpow, Rat.mul_assoc]

/-- Any value of `2⁶⁴` ms or more saturates to `u64::MAX` ms and panics. -/
theorem f64_ms_huge_panics (sem : FloatSem) (cs : List Char) (q : Rat)
    (hp : parseF64Str sem cs = .ok (.finite q)) (h : (2 : Rat) ^ 64 ≤ q) :
    deStrF64EpochMs sem (.str cs false) = .panic := by
  have hn : ¬ q < 0 := by
    have : (0 : Rat) < (2 : Rat) ^ 64 := by decide +kernel
    grind
  have hfl : (18446744073709551616 : Int) ≤ q.floor := by
    rw [Rat.le_floor_iff, two_pow_64]; exact h
  have hmin : min q.floor.toNat u64Max = u64Max := by
    apply Nat.min_eq_right
    have : u64Max = 18446744073709551615 := by decide
    rw [this]; omega
  simp only [deStrF64EpochMs, deStr, hp, f64AsU64, if_neg hn, hmin]
  decide

/-- Bookkeeping only (kept because it is true and was audited; NOT the link to C12): the list
`future P s` with the flag `s.stream.ended` has the shape of a C12 connection script. As the review
of the sub-check theorems observed, the same equation holds for EVERY list and EVERY flag
(`any_list_is_a_c12_connection` below), neither `polls` nor `pollNext` occurs in it, so it says
nothing about what an `ExchangeStream` does. The link is
`exchange_stream_run_is_a_c12_connection` (section E). -/
theorem exchange_stream_is_a_c12_connection (P : Params μ ε ι σ ο τ) (s : St μ σ ο τ)
    (val : ο → Nat) (errId : τ → Nat) (terminal : τ → Bool) :
    Streams.connStream ((future P s).map (toElem val errId terminal)) (!s.stream.ended) =
      ⟨(future P s).map (fun o => .yield (toRes val errId terminal o)), s.stream.ended⟩ := by
  simp [Streams.connStream, elemSteps_map_toElem]

/-! ## E. After the review of the sub-check theorems: the link to C12 restated over runs; the
full panic sets of the `f64` helpers; numerals with very large exponents -/

/-- The shape equation of `exchange_stream_is_a_c12_connection` for an arbitrary list and flag:
recorded so that nobody mistakes that theorem for a statement about `ExchangeStream`. -/
theorem any_list_is_a_c12_connection (l : List (Except τ ο)) (b : Bool)
    (val : ο → Nat) (errId : τ → Nat) (terminal : τ → Bool) :
    Streams.connStream (l.map (toElem val errId terminal)) (!b) =
      ⟨l.map (fun o => .yield (toRes val errId terminal o)), b⟩ := by
  simp [Streams.connStream, elemSteps_map_toElem]

/-- What a consumer observes as the end of the connection is the inner stream's end: once a run
(`polls`) is longer than the determined part, its last poll is `Ready(None)` iff the inner stream
ended, `Pending` iff it is still open (= `hang` of the C12 connection). -/
theorem run_ends_iff_inner_ended (P : Params μ ε ι σ ο τ) (s : St μ σ ο τ) (n : Nat)
    (hn : (specPolls P s).length < n) :
    endedBy (polls P n s) = s.stream.ended := by
  rw [polls_eq_prefix_then_exhausted, List.take_of_length_le (Nat.le_of_lt hn)]
  obtain ⟨k, hk⟩ : ∃ k, n - (specPolls P s).length = k + 1 := ⟨n - (specPolls P s).length - 1, by omega⟩
  rw [hk, endedBy_exhausted]

/-- **Link to C12.** Take any parser, error conversion, stateful transformer, initial buffer and
inner-stream script, and run the `ExchangeStream` (`polls`, i.e. `pollNext` repeated) for more
polls than the script determines. The `Ready(Some _)` outputs of that run in order
(`itemsOf`: the `Pending`s are dropped — a `Pending` carries no content at the level of C12,
whose connection scripts have items, errors and a final hang/end only), together with whether its
last poll was `Ready(None)` (`endedBy`), ARE the inner stream `connStream elems hang` of one C12
connection `Conn.initOk elems hang` (`Model/Streams.lean`): its steps are exactly every buffered
item and every output of every message, each once and in order, and it ends iff the socket-level
stream ended. C12's theorems quantify over all such scripts. -/
theorem exchange_stream_run_is_a_c12_connection (P : Params μ ε ι σ ο τ) (s : St μ σ ο τ) (n : Nat)
    (hn : (specPolls P s).length < n)
    (val : ο → Nat) (errId : τ → Nat) (terminal : τ → Bool) :
    Streams.connStream ((itemsOf (polls P n s)).map (toElem val errId terminal)) (!endedBy (polls P n s)) =
      ⟨(s.buffer ++ specOut P s.transformer (messages s.stream.items)).map
          (fun o => .yield (toRes val errId terminal o)), s.stream.ended⟩ := by
  rw [run_ends_iff_inner_ended P s n hn, outputs_complete P s n (Nat.le_of_lt hn)]
  simp only [Streams.connStream, elemSteps_map_toElem, Bool.not_not]

/-- A run that is still going has handed C12 a prefix of that connection's elements. -/
theorem unfinished_run_is_a_prefix_of_the_c12_connection (P : Params μ ε ι σ ο τ) (s : St μ σ ο τ) (n : Nat)
    (val : ο → Nat) (errId : τ → Nat) (terminal : τ → Bool) :
    (itemsOf (polls P n s)).map (toElem val errId terminal) <+:
      (s.buffer ++ specOut P s.transformer (messages s.stream.items)).map (toElem val errId terminal) := by
  obtain ⟨t, ht⟩ := outputs_prefix P s n
  exact ⟨t.map (toElem val errId terminal), by rw [← List.map_append, ht]⟩

/-- **`Pending`s carry no content at the C12 level**: two inner streams with the same messages,
pending at different moments (any number of `Pending`s anywhere), run to exhaustion, present the
same connection to C12. -/
theorem pendings_carry_nothing_to_c12 (P : Params μ ε ι σ ο τ) (t : σ) (b : List (Except τ ο))
    (items items' : List (Inner μ)) (ended : Bool) (n n' : Nat)
    (hm : messages items = messages items')
    (hn : (specPolls P ⟨⟨items, ended⟩, t, b⟩).length < n)
    (hn' : (specPolls P ⟨⟨items', ended⟩, t, b⟩).length < n')
    (val : ο → Nat) (errId : τ → Nat) (terminal : τ → Bool) :
    Streams.connStream ((itemsOf (polls P n ⟨⟨items, ended⟩, t, b⟩)).map (toElem val errId terminal))
        (!endedBy (polls P n ⟨⟨items, ended⟩, t, b⟩)) =
      Streams.connStream ((itemsOf (polls P n' ⟨⟨items', ended⟩, t, b⟩)).map (toElem val errId terminal))
        (!endedBy (polls P n' ⟨⟨items', ended⟩, t, b⟩)) := by
  rw [exchange_stream_run_is_a_c12_connection P _ n hn, exchange_stream_run_is_a_c12_connection P _ n' hn']
  simp only [hm]

/-- The band between chrono's last second and `2⁶⁴` s (in no theorem before the review): the
seconds helper **panics** there too — the negation of `f64_s_value`'s hypothesis `hr`. -/
theorem f64_s_panics_beyond_chrono (sem : FloatSem) (cs : List Char) (q : Rat)
    (hp : parseF64Str sem cs = .ok (.finite q)) (h0 : 0 ≤ q) (h1 : q < (2 : Rat) ^ 64)
    (hr : ¬ (roundHalfEven (q * nanosPerSec)).toNat / nanosPerSec ≤ maxChronoSecs) :
    deStrF64EpochS sem (.str cs false) = .panic := by
  have hn : ¬ q < 0 := by grind
  have h2 : ¬ (2 : Rat) ^ 64 ≤ q := by grind
  simp only [deStrF64EpochS, deStr, hp, durationFromSecsF64, if_neg hn, if_neg h2]
  rw [panic_of_datetime _ hr]

/-- ... and so does the milliseconds helper (the negation of `f64_ms_value`'s `hr`). -/
theorem f64_ms_panics_beyond_chrono (sem : FloatSem) (cs : List Char) (q : Rat)
    (hp : parseF64Str sem cs = .ok (.finite q)) (h0 : 0 ≤ q) (h1 : q < (2 : Rat) ^ 64)
    (hr : ¬ q.floor.toNat / 1000 ≤ maxChronoSecs) :
    deStrF64EpochMs sem (.str cs false) = .panic := by
  simp only [deStrF64EpochMs, deStr, hp, f64_as_u64_in_range q h0 h1]
  rw [panic_of_datetime _ (by simpa [Duration.fromMillis] using hr)]

/-- **The panic set of `de_str_f64_epoch_s_as_datetime_utc`, exactly**: on a string that
`f64::from_str` reads as `x`, it panics iff `x` is `NaN`, infinite, negative, `≥ 2⁶⁴`, or rounds
to a nanosecond count beyond chrono's last second. The last disjunct is literally the negation of
the hypothesis `hr` of `f64_s_value`; the first four make `h0` / `h1` fail. -/
theorem f64_s_panics_iff (sem : FloatSem) (cs : List Char) (x : F64) (hp : parseF64Str sem cs = .ok x) :
    deStrF64EpochS sem (.str cs false) = .panic ↔
      (x = .nan ∨ (∃ n, x = .inf n) ∨
        ∃ q, x = .finite q ∧ (q < 0 ∨ (2 : Rat) ^ 64 ≤ q ∨
          ¬ (roundHalfEven (q * nanosPerSec)).toNat / nanosPerSec ≤ maxChronoSecs)) := by
  constructor
  · intro h
    cases x with
    | nan => exact Or.inl rfl
    | inf n => exact Or.inr (Or.inl ⟨n, rfl⟩)
    | finite q =>
      refine Or.inr (Or.inr ⟨q, rfl, ?_⟩)
      by_cases hq : q < 0
      · exact Or.inl hq
      · by_cases h2 : (2 : Rat) ^ 64 ≤ q
        · exact Or.inr (Or.inl h2)
        · refine Or.inr (Or.inr ?_)
          intro hr
          have h0 : 0 ≤ q := by grind
          have h1 : q < (2 : Rat) ^ 64 := by grind
          rw [f64_s_value sem cs q hp h0 h1 hr] at h
          cases h
  · rintro (rfl | ⟨n, rfl⟩ | ⟨q, rfl, hq | hq | hq⟩)
    · exact f64_s_panics sem cs _ hp (Or.inl rfl)
    · exact f64_s_panics sem cs _ hp (Or.inr (Or.inl ⟨n, rfl⟩))
    · exact f64_s_panics sem cs _ hp (Or.inr (Or.inr ⟨q, rfl, Or.inl hq⟩))
    · exact f64_s_panics sem cs _ hp (Or.inr (Or.inr ⟨q, rfl, Or.inr hq⟩))
    · by_cases hneg : q < 0
      · exact f64_s_panics sem cs _ hp (Or.inr (Or.inr ⟨q, rfl, Or.inl hneg⟩))
      · by_cases h2 : (2 : Rat) ^ 64 ≤ q
        · exact f64_s_panics sem cs _ hp (Or.inr (Or.inr ⟨q, rfl, Or.inr h2⟩))
        · exact f64_s_panics_beyond_chrono sem cs q hp (by grind) (by grind) hq

/-- **The panic set of `de_str_f64_epoch_ms_as_datetime_utc`, exactly**: `+inf`, or a finite
non-negative value that is `≥ 2⁶⁴` ms or whose whole milliseconds lie beyond chrono's last second
(the negation of `f64_ms_value`'s `hr`). Negative values, `NaN` and `-inf` do NOT panic: they are
the epoch (`f64_ms_negative_is_epoch`, `f64_ms_nan_is_epoch`, `f64_ms_inf`). -/
theorem f64_ms_panics_iff (sem : FloatSem) (cs : List Char) (x : F64) (hp : parseF64Str sem cs = .ok x) :
    deStrF64EpochMs sem (.str cs false) = .panic ↔
      (x = .inf false ∨
        ∃ q, x = .finite q ∧ 0 ≤ q ∧ ((2 : Rat) ^ 64 ≤ q ∨ ¬ q.floor.toNat / 1000 ≤ maxChronoSecs)) := by
  constructor
  · intro h
    cases x with
    | nan => rw [f64_ms_nan_is_epoch sem cs hp] at h; cases h
    | inf n =>
      cases n with
      | false => exact Or.inl rfl
      | true => rw [f64_ms_inf sem cs true hp] at h; cases h
    | finite q =>
      right
      by_cases hq : q < 0
      · rw [f64_ms_negative_is_epoch sem cs q hp hq] at h; cases h
      · have h0 : 0 ≤ q := by grind
        refine ⟨q, rfl, h0, ?_⟩
        by_cases h2 : (2 : Rat) ^ 64 ≤ q
        · exact Or.inl h2
        · right
          intro hr
          rw [f64_ms_value sem cs q hp h0 (by grind) hr] at h
          cases h
  · rintro (rfl | ⟨q, rfl, h0, hq | hq⟩)
    · simpa using f64_ms_inf sem cs false hp
    · exact f64_ms_huge_panics sem cs q hp hq
    · by_cases h2 : (2 : Rat) ^ 64 ≤ q
      · exact f64_ms_huge_panics sem cs q hp h2
      · exact f64_ms_panics_beyond_chrono sem cs q hp h0 (by grind) hq

/-- **A zero mantissa is zero whatever the exponent** (`"0e99999999999"`, `"0.000e-5"`,
`"-0e99999999999"`): `f64::from_str` reads the rounding of `0`, for every rounding — so the
milliseconds helper gives the epoch and the seconds helper too (no panic: `-0.0` is not negative). -/
theorem f64_zero_mantissa_any_exponent (sem : FloatSem) (cs ds : List Char) (e : Int)
    (h : parseNumberParts cs = some (ds, e)) (h0 : natOfDigits ds = 0) :
    parseF64Str sem cs = .ok (sem.round 0) ∧ parseF64Str sem ('-' :: cs) = .ok (sem.round 0) := by
  have hz := parseNumber_zero_mantissa cs ds e h h0
  refine ⟨parseF64Str_number sem _ _ hz, ?_⟩
  have := parseF64Str_negative sem _ _ hz
  rwa [show (-(0 : Rat)) = 0 by decide +kernel] at this

/-- `parseNumber` is `mantissa · 10^exponent` of `parseNumberParts` (same grammar, no power
computed), and the evaluation used by the driver (`parseF64Fast`) IS the model's `parseF64Str`
for every rounding, on every string whose numeral has a zero mantissa or a decimal exponent `E`
with `E < 400` and `-400 < E + #digits`. On the remaining strings (`"1e99999999999"`,
`"1e-99999999999"`) `parseF64Fast` answers `±inf` / `0` without evaluating `10^E`; that this is
what the rounding gives is a property of `ieee` (witnesses at the thresholds below), not proved
for all arguments. -/
theorem f64_fast_agrees (sem : FloatSem) (cs : List Char)
    (h : ∀ ds e, parseNumberParts (splitSign cs).2 = some (ds, e) →
      natOfDigits ds = 0 ∨ (e < 400 ∧ -400 < e + (ds.length : Int))) :
    parseF64Fast sem cs = parseF64Str sem cs ∧
    deStrF64EpochMsWith (parseF64Fast sem) (.str cs false) = deStrF64EpochMs sem (.str cs false) ∧
    deStrF64EpochSWith (parseF64Fast sem) (.str cs false) = deStrF64EpochS sem (.str cs false) := by
  have := parseF64Fast_eq sem cs h
  refine ⟨this, ?_, ?_⟩
  · simp only [deStrF64EpochMsWith, deStrF64EpochMs, deStr, this]
  · simp only [deStrF64EpochSWith, deStrF64EpochS, deStr, this]

/-! ## Non-vacuity -/

section examples

/-- a small stateful transformer: running sum, one output per element, error on multiples of 7 -/
private def tr (acc : Nat) (xs : List Nat) : Nat × List (Except String Nat) :=
  xs.foldl (fun (p : Nat × List (Except String Nat)) x =>
    if x % 7 = 0 then (p.1, p.2 ++ [.error "seven"]) else (p.1 + x, p.2 ++ [.ok (p.1 + x)])) (acc, [])

private def PP : Params (Option (List Nat)) String (List Nat) Nat Nat String where
  parse m := match m with
    | none => none
    | some [] => some (.error "empty")
    | some xs => some (.ok xs)
  conv e := e
  transform := tr

private def s0 : St (Option (List Nat)) Nat Nat String :=
  ⟨⟨[.item (some [1, 2]), .pending, .item none, .item (some []), .item (some [7, 3])], true⟩, 10, [.ok 0]⟩

example : polls PP 9 s0 =
    [.ready (some (.ok 0)), .ready (some (.ok 11)), .ready (some (.ok 13)), .pending,
     .ready (some (.error "empty")), .ready (some (.error "seven")), .ready (some (.ok 16)),
     .ready none, .ready none] := by rfl

example : (after PP 9 s0).transformer = 16 := by decide

example : utf8Decode [0x5b, 0x31, 0x5d] = .ok ['[', '1', ']'] := by decide
example : utf8Decode [0xe2, 0x82] = .err 0 none := by decide
example : closeFrameDebug (some ⟨.ofU16 1000, "bye"⟩) =
    "Some(CloseFrame { code: Normal, reason: Utf8Bytes(b\"bye\") })" := by decide +kernel
example : deU64EpochMs (.uint 1661978265280) = .ok 1661978265280000000 := by decide
example : (parseU64Str "+007".toList).toOption = some 7 := by decide
example : (parseU64Str "-5".toList).toOption = none := by decide
example : (parseU64Str "18446744073709551616".toList).toOption = none := by decide

example : decimalValue "1661978265".toList "280067".toList = 1661978265280067 / 1000000 := by decide +kernel

/-! The concrete IEEE-754 rounding used by the driver (`ieee`), evaluated by the kernel: the
hypotheses of the `f64` theorems are satisfiable, and the conventions show on ordinary inputs. -/
example : ieee.round (decimalValue "1661978265".toList "280067".toList) = .finite (3485421042988623 / 2097152) := by
  decide +kernel
example : deStrF64EpochS ieee (.str "1661978265.280067".toList false) = .ok 1661978265280066967 := by
  decide +kernel
example : deStrF64EpochS ieee (.str "0.0009765625".toList false) = .ok 976562 := by decide +kernel
example : deStrF64EpochS ieee (.str "0.0029296875".toList false) = .ok 2929688 := by decide +kernel
example : deStrF64EpochMs ieee (.str "1661978265280.9".toList false) = .ok 1661978265280000000 := by
  decide +kernel
example : deStrF64EpochS ieee (.str "-1".toList false) = .panic := by decide +kernel
example : deStrF64EpochS ieee (.str "nan".toList false) = .panic := by decide +kernel
example : deStrF64EpochMs ieee (.str "-5".toList false) = .ok 0 := by decide +kernel
example : deStrF64EpochMs ieee (.str "inf".toList false) = .panic := by decide +kernel
example : deStrU64EpochMs (.str "8210266876800000".toList false) = .panic := by decide +kernel

/-! The four inputs of the review (panic in code and model, in no theorem before): instances of
`f64_s_panics_iff` / `f64_ms_panics_iff`; and the last value below the band. -/
example : deStrF64EpochS ieee (.str "8210266876800".toList false) = .panic := by decide +kernel
example : deStrF64EpochS ieee (.str "18446744073709551615".toList false) = .panic := by decide +kernel
example : deStrF64EpochMs ieee (.str "1e19".toList false) = .panic := by decide +kernel
example : deStrF64EpochMs ieee (.str "8210266876799999.9".toList false) = .panic := by decide +kernel
example : deStrF64EpochMs ieee (.str "8210266876799999.4".toList false) = .ok 8210266876799999000000 := by
  decide +kernel
/-! binary64 at the bound: spacing 1 ms at 8.2e15 and 2⁻¹⁰ s at 8.2e12, the bound itself has an
even mantissa — so exactly the decimals from half a spacing below the bound upwards round into the
panic band (what the spec driver's hand-written panic predicate assumes). -/
example : ieee.round (8210266876800000 - 1 / 2) = .finite 8210266876800000 := by decide +kernel
example : ieee.round (8210266876800000 - 1 / 2 - 1 / 1000000) = .finite 8210266876799999 := by decide +kernel
example : ieee.round (8210266876800 - 1 / 2048) = .finite 8210266876800 := by decide +kernel
example : ieee.round (8210266876800 - 1 / 2048 - 1 / 1000000000) = .finite (8210266876800 - 1 / 1024) := by
  decide +kernel
/-! The thresholds of `parseF64Fast`: `ieee` overflows at `10^400` and underflows below `10^-400`. -/
example : ieee.round (pow10Rat 400) = .inf false := by decide +kernel
example : ieee.round (-pow10Rat 400) = .inf true := by decide +kernel
example : ieee.round (pow10Rat (-400)) = .finite 0 := by decide +kernel
example : (parseF64Fast ieee "1e309".toList).toOption = some (.inf false) ∧
    (parseF64Str ieee "1e309".toList).toOption = some (.inf false) := by decide +kernel
example : parseNumberParts "0.00e99999999999".toList = some ("000".toList, 99999999997) := by decide +kernel

end examples

end BarterModel.Props.C12W
