import BarterModel.Lemmas.Collections
/-!
# C03N — `NoneOneOrMany` / `OneOrMany`: the collections engine outputs and audits are made of

Statements only (proofs go through `Lemmas/Collections.lean`). The abstraction function is `asRef`
(the slice view): a `NoneOneOrMany` stands for a finite sequence, a `OneOrMany` for a non-empty one.
`Canonical` = the representation is the one determined by the length (`Many` holds ≥ 2 items).

What a user relies on, and where exactly it stops being true:
* every way of reading gives the same sequence; building from an iterator / vector gives that sequence
  in canonical form; `from_iter ∘ into_iter = id` on canonical values; canonical values are equal iff
  their sequences are;
* `len`, `contains`, `map` are the list operations; `is_empty` is `len = 0` **only** for canonical
  values (`Many(vec![])` is not "empty");
* `extend` always yields the right multiset, length and membership and keeps canonical form, but keeps
  the order "self, then other" **iff** it is not the case that self is `One(x)` and other has ≥ 2 items
  not all equal to `x` (`One(x).extend([y, z]) = Many([y, z, x])`);
* everything the `NoneOneOrMany` API builds is canonical; `OneOrMany`'s API is not closed:
  `from_iter([]) = Many([])` (an empty "one or many") and `One(x).extend([]) = Many([x])`;
* audit records: `add_output` appends (always in order), `add_errors` is `extend`, a record is terminal
  iff its event is or it has an error; `SendCancelsAndOpensOutput::unrecoverable_errors` is cancels'
  errors `extend` opens' errors, so its order is the request order except in the case above; in
  `Engine::process` `add_errors` only ever meets an empty error collection, and (since /repo a7785e6)
  the AlgoOrders output is kept next to the errors: the audit's outputs are the first stage's output
  followed by the algo output whenever anything was generated.
-/
namespace BarterModel.Props.C03N
open BarterModel.Collections

/-! ## NoneOneOrMany -/

/-- `into_vec`, `iter`, `into_iter` (owned, by reference) and `as_ref`/`borrow` all yield the same
sequence. -/
theorem nom_readings_agree {α : Type} (a : NOM α) :
    a.intoVec = a.asRef ∧ a.iter = a.asRef ∧ a.intoIter = a.asRef :=
  ⟨NOM.intoVec_eq a, NOM.iter_eq a, NOM.intoIter_eq a⟩

/-- `FromIterator` and `From<Vec>` agree, yield the given items in order, in canonical form, and the
variant is a function of the number of items: `None` for 0, `One` for 1, `Many` otherwise. -/
theorem nom_from_iter {α : Type} (l : List α) :
    NOM.fromVec l = NOM.fromIter l ∧ (NOM.fromIter l).asRef = l ∧ (NOM.fromIter l).Canonical ∧
      (NOM.fromIter l).shape = Spec.shapeOf l ∧
      (NOM.fromIter l = .none ↔ l = []) ∧ (∀ x, NOM.fromIter l = .one x ↔ l = [x]) ∧
      (∀ m, NOM.fromIter l = .many m ↔ l = m ∧ 2 ≤ l.length) :=
  ⟨NOM.fromVec_eq_fromIter l, NOM.fromIter_asRef l, NOM.fromIter_canonical l,
   by rw [NOM.shape_of_canonical (NOM.fromIter_canonical l), NOM.fromIter_asRef],
   NOM.fromIter_eq_none_iff l, NOM.fromIter_eq_one_iff l, NOM.fromIter_eq_many_iff l⟩

/-- `From<Option>`. -/
theorem nom_from_option {α : Type} (o : Option α) :
    (NOM.fromOption o).asRef = Spec.fromOption o ∧ (NOM.fromOption o).Canonical :=
  ⟨NOM.fromOption_asRef o, NOM.fromOption_canonical o⟩

/-- `from_iter ∘ into_iter` is the identity exactly on canonical values; in general it is the
canonical representative of the same sequence (and is idempotent). -/
theorem nom_from_iter_into_iter {α : Type} (a : NOM α) :
    (NOM.fromIter a.intoIter = a ↔ a.Canonical) ∧
      (NOM.fromIter a.intoIter).asRef = a.asRef ∧
      NOM.fromIter (NOM.fromIter a.intoIter).intoIter = NOM.fromIter a.intoIter := by
  refine ⟨⟨fun h => h ▸ NOM.fromIter_canonical _, fun h => ?_⟩, ?_, ?_⟩
  · rw [NOM.intoIter_eq]; exact NOM.fromIter_asRef_of_canonical h
  · rw [NOM.fromIter_asRef, NOM.intoIter_eq]
  · rw [NOM.intoIter_eq (NOM.fromIter _), NOM.fromIter_asRef]

/-- derived `PartialEq` on canonical values is equality of the sequences … -/
theorem nom_eq_iff_of_canonical {α : Type} {a b : NOM α} (ha : a.Canonical) (hb : b.Canonical) :
    a = b ↔ a.asRef = b.asRef :=
  ⟨fun h => h ▸ rfl, NOM.canonical_ext ha hb⟩

/-- … and distinguishes representations of the same sequence otherwise: `One(x) ≠ Many([x])`,
`None ≠ Many([])`. -/
theorem nom_eq_distinguishes_representations {α : Type} (x : α) :
    (NOM.one x ≠ NOM.many [x] ∧ (NOM.one x).asRef = (NOM.many [x]).asRef) ∧
      ((NOM.none : NOM α) ≠ NOM.many [] ∧ (NOM.none : NOM α).asRef = (NOM.many []).asRef) :=
  ⟨⟨nofun, rfl⟩, ⟨nofun, rfl⟩⟩

/-- `len` is the length; `contains` is membership; `map` maps the sequence and keeps canonical form. -/
theorem nom_len_contains_map {α β : Type} [BEq α] [LawfulBEq α] (a : NOM α) (x : α) (f : α → β) :
    a.len = Spec.len a.asRef ∧ (a.contains x = true ↔ x ∈ a.asRef) ∧
      (a.map f).asRef = Spec.map f a.asRef ∧ (a.Canonical → (a.map f).Canonical) ∧
      (a.map f).shape = a.shape :=
  ⟨NOM.len_eq a, NOM.contains_iff a x, NOM.map_asRef f a, NOM.map_canonical f, by cases a <;> rfl⟩

/-- `is_empty` (= `is_none`) implies no items; the converse holds for canonical values … -/
theorem nom_is_empty {α : Type} (a : NOM α) :
    (a.isEmpty = true → a.asRef = []) ∧ (a.Canonical → (a.isEmpty = true ↔ a.len = 0)) := by
  refine ⟨NOM.isEmpty_imp a, fun h => ?_⟩
  rw [NOM.isEmpty_iff_of_canonical h, NOM.len_eq]
  exact List.length_eq_zero_iff.symm

/-- … and fails for `Many(vec![])`: no items, `len() == 0`, but `is_empty() == false`. -/
theorem nom_is_empty_many_nil {α : Type} :
    (NOM.many ([] : List α)).len = 0 ∧ (NOM.many ([] : List α)).isEmpty = false := ⟨rfl, rfl⟩

/-- `extend`: multiset, length, membership — for all values and all iterators. -/
theorem nom_extend_perm {α : Type} [BEq α] [LawfulBEq α] (a : NOM α) (l : List α) (x : α) :
    (a.extend l).asRef.Perm (Spec.extend a.asRef l) ∧ (a.extend l).len = a.len + l.length ∧
      ((a.extend l).contains x = true ↔ a.contains x = true ∨ x ∈ l) := by
  refine ⟨NOM.extend_perm a l, NOM.extend_len a l, ?_⟩
  rw [NOM.contains_iff, NOM.contains_iff, (NOM.extend_perm a l).mem_iff, List.mem_append]

/-- `extend` keeps the order "items of self, then items of other" iff it is not the case that self is
`One(x)` and other has two or more items that are not all `x`. -/
theorem nom_extend_order_iff {α : Type} (a : NOM α) (l : List α) :
    (a.extend l).asRef = Spec.extend a.asRef l ↔
      ∀ x, a = .one x → 2 ≤ l.length → ∀ y ∈ l, y = x :=
  NOM.extend_asRef_eq_append_iff a l

/-- the exceptional arm: the single item of self ends up *behind* the items of other. -/
theorem nom_extend_one_many_reversed {α : Type} (x y z : α) (l : List α) :
    ((NOM.one x).extend (y :: z :: l)).asRef = (y :: z :: l) ++ [x] := rfl

/-- `extend` keeps canonical form. -/
theorem nom_extend_canonical {α : Type} {a : NOM α} (h : a.Canonical) (l : List α) :
    (a.extend l).Canonical := NOM.extend_canonical h l

/-- Values obtainable through the API (no literal `Many(..)`, no `Deserialize`). -/
inductive NomReach {α : Type} : NOM α → Prop
  | dflt : NomReach NOM.default
  | one (x : α) : NomReach (.one x)
  | fromIter (l : List α) : NomReach (NOM.fromIter l)
  | fromVec (l : List α) : NomReach (NOM.fromVec l)
  | fromOption (o : Option α) : NomReach (NOM.fromOption o)
  | extend {a : NOM α} (l : List α) : NomReach a → NomReach (a.extend l)
  | map {a : NOM α} (f : α → α) : NomReach a → NomReach (a.map f)
  | mutAll {a : NOM α} (f : α → α) : NomReach a → NomReach (a.mutAll f)

/-- `Many([])` and `Many([x])` are not reachable through the `NoneOneOrMany` API: every reachable value
is canonical, hence `is_empty ⇔ len = 0`, equality = equality of sequences, variant = f(length). -/
theorem nom_reachable_canonical {α : Type} {a : NOM α} (h : NomReach a) :
    a.Canonical ∧ a ≠ .many [] ∧ ∀ x, a ≠ .many [x] := by
  have hc : a.Canonical := by
    induction h with
    | dflt => trivial
    | one x => trivial
    | fromIter l => exact NOM.fromIter_canonical l
    | fromVec l => rw [NOM.fromVec_eq_fromIter]; exact NOM.fromIter_canonical l
    | fromOption o => exact NOM.fromOption_canonical o
    | extend l _ ih => exact NOM.extend_canonical ih l
    | map f _ ih => exact NOM.map_canonical f ih
    | mutAll f _ ih => rw [NOM.mutAll_eq_map]; exact NOM.map_canonical f ih
  refine ⟨hc, ?_, ?_⟩
  · intro h; subst h; simp [NOM.Canonical] at hc
  · intro x h; subst h; simp [NOM.Canonical] at hc

/-- `into_option` and `From<NoneOneOrMany> for Option<OneOrMany>` agree; nothing iff `None`; the
items are kept; a canonical value gives a canonical, non-empty `OneOrMany`. -/
theorem nom_into_option {α : Type} (a : NOM α) :
    a.intoOption = optionOfNOM a ∧ (a.intoOption = none ↔ a = .none) ∧
      (∀ v, a.intoOption = some v → v.asRef = a.asRef ∧ (a.Canonical → v.Canonical ∧ v.asRef ≠ [])) :=
  ⟨NOM.intoOption_eq_optionOfNOM a, NOM.intoOption_eq_none_iff a,
   fun _ h => ⟨NOM.intoOption_asRef h, fun hc => NOM.intoOption_canonical hc h⟩⟩

/-- derived `Ord` is consistent with derived `Eq` (elements `i64`) … -/
theorem nom_cmp_eq_iff (a b : NOM Int) : NOM.cmp a b = .eq ↔ a = b := NOM.cmp_eq_iff a b

/-- … but is *not* the lexicographic order of the sequences: the variant is compared first. -/
theorem nom_cmp_is_not_sequence_order :
    NOM.cmp (.one 9) (.many [1, 2]) = .lt ∧ NOM.cmpList [(9 : Int)] [1, 2] = .gt := by decide

/-! ## OneOrMany -/

theorem oom_readings_agree {α : Type} (a : OOM α) :
    a.intoVec = a.asRef ∧ a.iter = a.asRef ∧ a.intoIter = a.asRef :=
  ⟨OOM.intoVec_eq a, OOM.iter_eq a, OOM.intoIter_eq a⟩

/-- `FromIterator` keeps the items in order and is canonical iff there is at least one; the empty
iterator yields `Many(vec![])`, a "one or many" with `len() == 0`. -/
theorem oom_from_iter {α : Type} (l : List α) :
    (OOM.fromIter l).asRef = l ∧ ((OOM.fromIter l).Canonical ↔ l ≠ []) ∧
      OOM.fromIter ([] : List α) = .many [] ∧ (OOM.fromIter ([] : List α)).len = 0 :=
  ⟨OOM.fromIter_asRef l, OOM.fromIter_canonical_iff l, rfl, rfl⟩

/-- `From<Vec>` panics exactly on the empty vector and otherwise agrees with `FromIterator`. -/
theorem oom_from_vec {α : Type} (l : List α) :
    (OOM.fromVec l = none ↔ l = []) ∧
      (∀ v, OOM.fromVec l = some v → v = OOM.fromIter l ∧ v.asRef = l ∧ v.Canonical) :=
  ⟨OOM.fromVec_eq_none_iff l, fun _ h => OOM.fromVec_some h⟩

theorem oom_len_contains_map {α β : Type} [BEq α] [LawfulBEq α] (a : OOM α) (x : α) (f : α → β) :
    a.len = Spec.len a.asRef ∧ (a.contains x = true ↔ x ∈ a.asRef) ∧
      (a.map f).asRef = Spec.map f a.asRef ∧ (a.Canonical → (a.map f).Canonical) :=
  ⟨OOM.len_eq a, OOM.contains_iff a x, OOM.map_asRef f a, OOM.map_canonical f⟩

theorem oom_extend_perm {α : Type} [BEq α] [LawfulBEq α] (a : OOM α) (l : List α) (x : α) :
    (a.extend l).asRef.Perm (Spec.extend a.asRef l) ∧ (a.extend l).len = a.len + l.length ∧
      ((a.extend l).contains x = true ↔ a.contains x = true ∨ x ∈ l) := by
  refine ⟨OOM.extend_perm a l, OOM.extend_len a l, ?_⟩
  rw [OOM.contains_iff, OOM.contains_iff, (OOM.extend_perm a l).mem_iff, List.mem_append]

theorem oom_extend_order_iff {α : Type} (a : OOM α) (l : List α) :
    (a.extend l).asRef = Spec.extend a.asRef l ↔
      ∀ x, a = .one x → 2 ≤ l.length → ∀ y ∈ l, y = x :=
  OOM.extend_asRef_eq_append_iff a l

theorem oom_extend_one_many_reversed {α : Type} (x y z : α) (l : List α) :
    ((OOM.one x).extend (y :: z :: l)).asRef = (y :: z :: l) ++ [x] := rfl

/-- `extend` keeps canonical form except when one item is extended by nothing:
`One(x).extend([]) = Many([x])`, which `==` tells apart from `One(x)`. -/
theorem oom_extend_canonical_iff {α : Type} {a : OOM α} (h : a.Canonical) (l : List α) :
    ((a.extend l).Canonical ↔ ¬ (a.isOne = true ∧ l = [])) ∧
      ∀ x : α, (OOM.one x).extend [] = .many [x] ∧ (OOM.one x).extend [] ≠ .one x :=
  ⟨OOM.extend_canonical_iff h l, fun _ => ⟨rfl, nofun⟩⟩

/-- a non-empty `OneOrMany` stays non-empty under `extend` and `map`. -/
theorem oom_nonempty_preserved {α : Type} {a : OOM α} (h : a.asRef ≠ []) (l : List α) (f : α → α) :
    (a.extend l).asRef ≠ [] ∧ (a.map f).asRef ≠ [] ∧ 1 ≤ (a.extend l).len := by
  have h1 := OOM.extend_ne_nil h l
  refine ⟨h1, ?_, ?_⟩
  · rw [OOM.map_asRef]; simpa using h
  · rw [OOM.len_eq]; exact List.length_pos_iff.mpr h1

theorem oom_eq_iff_of_canonical {α : Type} {a b : OOM α} (ha : a.Canonical) (hb : b.Canonical) :
    a = b ↔ a.asRef = b.asRef :=
  ⟨fun h => h ▸ rfl, OOM.canonical_ext ha hb⟩

theorem oom_cmp_eq_iff (a b : OOM Int) : OOM.cmp a b = .eq ↔ a = b := OOM.cmp_eq_iff a b

/-! ## Refinement of whole histories (the register machine the drivers run) -/

/-- NoneOneOrMany register, any start value, any history of constructor / extend / map / mutate ops:
the items are a permutation of what the list program computes (so length, multiset, membership are
right); with canonical literals the value stays canonical (so variant, `is_empty`, `==` are right). -/
theorem runN_refines (n : NOM Int) (ops : List NOp) :
    (runN n ops).asRef.Perm (runNSpec n.asRef ops) ∧
      (n.Canonical → (∀ op ∈ ops, op.Safe) → (runN n ops).Canonical ∧
        (runN n ops).shape = Spec.shapeOf (runNSpec n.asRef ops)) := by
  have hp : ∀ (ops : List NOp) (n : NOM Int) (s : List Int), n.asRef.Perm s →
      (runN n ops).asRef.Perm (runNSpec s ops) := by
    intro ops
    induction ops with
    | nil => intro n s h; exact h
    | cons op ops ih => intro n s h; exact ih _ _ (NOp.apply_perm h op)
  have hc : ∀ (ops : List NOp) (n : NOM Int), n.Canonical → (∀ op ∈ ops, op.Safe) →
      (runN n ops).Canonical := by
    intro ops
    induction ops with
    | nil => intro n h _; exact h
    | cons op ops ih =>
      intro n h hs
      exact ih _ (NOp.apply_canonical h (hs op (by simp))) (fun o ho => hs o (by simp [ho]))
  refine ⟨hp ops n _ (List.Perm.refl _), fun h hs => ⟨hc ops n h hs, ?_⟩⟩
  rw [NOM.shape_of_canonical (hc ops n h hs)]
  simp only [Spec.shapeOf, (hp ops n _ (List.Perm.refl _)).length_eq]

/-- … and the items are exactly the list program's result, in order, when no step is the reversing
arm of `extend` (`KeepsOrderN`: no `One(x)` extended by ≥ 2 items not all `x`). No other hypothesis. -/
theorem runN_refines_exact (n : NOM Int) (ops : List NOp) (h : KeepsOrderN n ops) :
    (runN n ops).asRef = runNSpec n.asRef ops := by
  induction ops generalizing n with
  | nil => rfl
  | cons op ops ih =>
    simp only [runN, runNSpec, List.foldl_cons]
    rw [← NOp.apply_exact n h.1]
    exact ih _ h.2

/-- OneOrMany register: same statements; an op panics in the model iff the list program is undefined
(`From<Vec>` of the empty vector) and then changes nothing; from a non-empty value, with non-empty
literals and `from_iter` arguments, the value stays non-empty. -/
theorem runO_refines (o : OOM Int) (ops : List OOp) :
    (runO o ops).asRef.Perm (runOSpec o.asRef ops) ∧
      (∀ (op : OOp) (s : List Int), op.apply o = none ↔ op.applySpec s = none) ∧
      (o.asRef ≠ [] → (∀ op ∈ ops, op.Safe) → (runO o ops).asRef ≠ [] ∧ 1 ≤ (runO o ops).len) := by
  have hp : ∀ (ops : List OOp) (o : OOM Int) (s : List Int), o.asRef.Perm s →
      (runO o ops).asRef.Perm (runOSpec s ops) := by
    intro ops
    induction ops with
    | nil => intro o s h; exact h
    | cons op ops ih => intro o s h; exact ih _ _ (OOp.apply_perm h op)
  have hn : ∀ (ops : List OOp) (o : OOM Int), o.asRef ≠ [] → (∀ op ∈ ops, op.Safe) →
      (runO o ops).asRef ≠ [] := by
    intro ops
    induction ops with
    | nil => intro o h _; exact h
    | cons op ops ih =>
      intro o h hs
      exact ih _ (OOp.apply_nonempty h (hs op (by simp))) (fun x hx => hs x (by simp [hx]))
  refine ⟨hp ops o _ (List.Perm.refl _), fun op s => OOp.apply_none_iff o s op, fun h hs => ?_⟩
  have := hn ops o h hs
  exact ⟨this, by rw [OOM.len_eq]; exact List.length_pos_iff.mpr this⟩

theorem runO_refines_exact (o : OOM Int) (ops : List OOp) (h : KeepsOrderO o ops) :
    (runO o ops).asRef = runOSpec o.asRef ops := by
  induction ops generalizing o with
  | nil => rfl
  | cons op ops ih =>
    simp only [runO, runOSpec, List.foldl_cons]
    rw [← OOp.apply_exact o h.1]
    exact ih _ h.2

/-! ## Audit records -/

/-- `add_output` appends one output, *always* in order (the reversing arm needs ≥ 2 new items), and
touches nothing else; `add_errors` is `extend` on the errors and touches nothing else. -/
theorem audit_add {ε ω κ : Type} (a : ProcessAudit ε ω κ) (o : ω) (es : List κ) :
    ((a.addOutput o).outputs.asRef = a.outputs.asRef ++ [o] ∧ (a.addOutput o).errors = a.errors ∧
        (a.addOutput o).event = a.event) ∧
      ((a.addErrors es).errors.asRef.Perm (a.errors.asRef ++ es) ∧ (a.addErrors es).outputs = a.outputs ∧
        (a.addErrors es).event = a.event) ∧
      ((a.addErrors es).errors.asRef = a.errors.asRef ++ es ↔
        ∀ x, a.errors = .one x → 2 ≤ es.length → ∀ y ∈ es, y = x) ∧
      (a.errors = .none → (a.addErrors es).errors = NOM.fromIter es) :=
  ⟨⟨ProcessAudit.addOutput_outputs a o, rfl, rfl⟩, ⟨ProcessAudit.addErrors_errors_perm a es, rfl, rfl⟩,
   ProcessAudit.addErrors_errors_eq_iff a es, fun h => ProcessAudit.addErrors_of_none h es⟩

/-- a record with canonical errors is terminal iff its event is terminal or it carries an error;
`FeedEnded` is terminal; `EngineAudit::Process` defers to the record. -/
theorem audit_terminal_iff {ε ω κ : Type} (t : ε → Bool) (a : ProcessAudit ε ω κ) (h : a.errors.Canonical) :
    (a.isTerminal t = true ↔ t a.event = true ∨ a.errors.len ≠ 0) ∧
      (EngineAudit.process a).isTerminal t = a.isTerminal t ∧
      (EngineAudit.feedEnded : EngineAudit ε ω κ).isTerminal t = true := by
  refine ⟨?_, rfl, rfl⟩
  rw [ProcessAudit.isTerminal_iff h, NOM.len_eq]
  simp [List.length_eq_zero_iff]

/-- any history of audit operations (every constructor, `add_output`, `add_errors`,
`with_process_and_err`) from any related start: event and **outputs are exactly** the abstract
record's (in order), errors are a permutation, `terminal` agrees, both collections stay canonical. -/
theorem runA_refines (a : AuditReg) (s : Bool × Spec.Audit Out Int) (h : AuditRel a s) (ops : List AOp) :
    AuditRel (runA a ops) (runASpec s ops) ∧
      (runA a ops).isTerminal id = Spec.Audit.terminal (runASpec s ops).1 (runASpec s ops).2 := by
  have : ∀ (ops : List AOp) a s, AuditRel a s → AuditRel (runA a ops) (runASpec s ops) := by
    intro ops
    induction ops with
    | nil => intro a s h; exact h
    | cons op ops ih => intro a s h; exact ih _ _ (AOp.apply_rel h op)
  exact ⟨this ops a s h, (this ops a s h).terminal⟩

/-- … and the errors are exactly the abstract record's, in order, when no `add_errors` step is the
reversing arm. -/
theorem runA_refines_exact (a : AuditReg) (s : Bool × Spec.Audit Out Int)
    (he : a.errors.asRef = s.2.errors) (ops : List AOp) (h : KeepsOrderA a ops) :
    (runA a ops).errors.asRef = (runASpec s ops).2.errors := by
  induction ops generalizing a s with
  | nil => exact he
  | cons op ops ih =>
    simp only [runA, runASpec, List.foldl_cons]
    exact ih _ _ (AOp.apply_errors_exact a s he h.1) h.2

/-! ## Action outputs -/

/-- `send_requests`' output over per-request results: sent requests and failed requests in request
order, both canonical; the unrecoverable errors are those of the failed requests in request order;
empty iff there was no request. -/
theorem send_requests_output {ρ ρ' κ : Type} (rs : List (ρ × Option (EngineError ρ' κ))) :
    let s := SendRequestsOutput.ofResults rs
    s.sent.asRef = rs.filterMap SendRequestsOutput.sentOf ∧
      s.errors.asRef = rs.filterMap SendRequestsOutput.errorOf ∧
      s.sent.Canonical ∧ s.errors.Canonical ∧
      s.unrecoverableErrors.asRef = Spec.unrecoverable rs ∧ s.unrecoverableErrors.Canonical ∧
      s.isEmpty = rs.isEmpty :=
  ⟨SendRequestsOutput.ofResults_sent rs, SendRequestsOutput.ofResults_errors rs,
   (SendRequestsOutput.ofResults_canonical rs).1, (SendRequestsOutput.ofResults_canonical rs).2,
   SendRequestsOutput.unrecoverableErrors_ofResults rs,
   SendRequestsOutput.unrecoverableErrors_canonical _, SendRequestsOutput.isEmpty_ofResults rs⟩

/-- cancels-and-opens: the unrecoverable errors are a permutation of (cancels' errors ++ opens'
errors), canonical, and in that order iff it is not the case that there is exactly one cancel error
`k` and two or more open errors not all equal to `k`. -/
theorem cancels_and_opens_unrecoverable {ρc ρo ρ' κ : Type} (x : SendCancelsAndOpensOutput ρc ρo ρ' κ) :
    x.unrecoverableErrors.asRef.Perm
        (x.cancels.unrecoverableErrors.asRef ++ x.opens.unrecoverableErrors.asRef) ∧
      x.unrecoverableErrors.Canonical ∧
      (x.unrecoverableErrors.asRef =
          x.cancels.unrecoverableErrors.asRef ++ x.opens.unrecoverableErrors.asRef ↔
        ∀ k, x.cancels.unrecoverableErrors = .one k → 2 ≤ x.opens.unrecoverableErrors.asRef.length →
          ∀ y ∈ x.opens.unrecoverableErrors.asRef, y = k) :=
  ⟨SendCancelsAndOpensOutput.unrecoverableErrors_perm x,
   SendCancelsAndOpensOutput.unrecoverableErrors_canonical x,
   SendCancelsAndOpensOutput.unrecoverableErrors_eq_iff x⟩

/-- the collection `ActionOutput::unrecoverable_errors` converts with `into_option` -/
def actionErrors {ρc ρo ρ' κ φc φo : Type} : ActionOutput ρc ρo ρ' κ φc φo → NOM κ
  | .generateAlgoOrders g => g.cancelsAndOpens.unrecoverableErrors
  | .cancelOrders c => c.unrecoverableErrors
  | .openOrders o => o.unrecoverableErrors
  | .closePositions r => r.unrecoverableErrors

/-- `ActionOutput::unrecoverable_errors` is `None` iff the action had no unrecoverable error, and
otherwise a canonical, non-empty `OneOrMany` with the same items;
`GenerateAlgoOrdersOutput::unrecoverable_errors` is the same function. -/
theorem action_unrecoverable {ρc ρo ρ' κ φc φo : Type} (act : ActionOutput ρc ρo ρ' κ φc φo) :
    (act.unrecoverableErrors = none ↔ (actionErrors act).asRef = []) ∧
      (∀ v, act.unrecoverableErrors = some v →
        v.asRef = (actionErrors act).asRef ∧ v.Canonical ∧ v.asRef ≠ []) ∧
      (∀ g, (ActionOutput.generateAlgoOrders g : ActionOutput ρc ρo ρ' κ φc φo).unrecoverableErrors =
        g.unrecoverableErrors) := by
  have hc : (actionErrors act).Canonical := by
    cases act with
    | generateAlgoOrders g => exact SendCancelsAndOpensOutput.unrecoverableErrors_canonical _
    | cancelOrders c => exact SendRequestsOutput.unrecoverableErrors_canonical _
    | openOrders o => exact SendRequestsOutput.unrecoverableErrors_canonical _
    | closePositions r => exact SendCancelsAndOpensOutput.unrecoverableErrors_canonical _
  have he : act.unrecoverableErrors = (actionErrors act).intoOption := by cases act <;> rfl
  refine ⟨?_, ?_, fun _ => rfl⟩
  · rw [he]; exact NOM.intoOption_none_iff_of_canonical hc
  · intro v hv
    rw [he] at hv
    exact ⟨NOM.intoOption_asRef hv, NOM.intoOption_canonical hc hv⟩

/-! ## `Engine::process`: the audit it assembles -/

/-- Whatever the first stage produced and whatever generation returned: the result is a `Process`
record for the same event, in canonical form; its outputs are the first stage's outputs followed by
the algo output whenever generation returned something non-empty (`assembleOutputs`) — in particular
also when generation carries unrecoverable errors: then the record is
`pre.add_output(algo).add_errors(errs)`, its outputs are the pre outputs followed by the algo output
(nothing generated is dropped), and `add_errors` meets a record **without** errors — so at this point
it is `from_iter` and cannot reorder anything. -/
theorem engine_assemble {ε ω κ : Type} (pre : Pre ε ω κ) (algo : Option (AlgoView ω κ)) :
    ∃ p, assemble pre algo = .process p ∧ p.event = pre.audit.event ∧ p.WF ∧
      p.errors = assembleErrors pre algo ∧ p.outputs.asRef = assembleOutputs pre algo ∧
      (∀ a u, algo = some a → a.isEmpty = false → a.unrecoverable = some u →
        (∀ e, pre ≠ .shutdown e) → (∀ e u' o, pre ≠ .commandFatal e u' o) →
        p = (pre.audit.addOutput a.asOutput).addErrors u.intoIter ∧
          (pre.audit.addOutput a.asOutput).errors = .none ∧
          p.outputs.asRef = pre.audit.outputs.asRef ++ [a.asOutput] ∧
          p.errors = NOM.fromIter u.intoIter) := by
  obtain ⟨p, h1, h2, h3, h4, h5, h6⟩ := assemble_spec pre algo
  refine ⟨p, h1, h2, h4, h3, h5, ?_⟩
  intro a u ha hE hU hs hf
  obtain ⟨h7, h8⟩ := h6 a u ha hE hU hs hf
  refine ⟨h8, h7, ?_, ?_⟩
  · rw [h8, ProcessAudit.addErrors_outputs, ProcessAudit.addOutput_outputs]
  · rw [h8]; exact ProcessAudit.addErrors_of_none h7 _

/-- the one situation in which the order of the audit's errors is not the request order -/
def AlgoBoundary (dead : Nat → Bool) (algoC algoO : List Req) : Prop :=
  (failedSends dead (algoC.filter (!refused ·))).length = 1 ∧
    2 ≤ (failedSends dead (algoO.filter (!refused ·))).length

/-- One `Engine::process` (any link table, trading state, event, strategy output): the audit is a
canonical `Process` record of the event whose errors are a permutation of the unrecoverable send
failures of the stage that failed, in request order unless (`AlgoBoundary`) exactly one approved algo
cancel and at least two approved algo opens failed; it is terminal iff the event is `Shutdown` or
there is such a failure. Its outputs are exactly the first stage's output (if any) followed by the
AlgoOrders output whenever generation ran and the strategy generated anything — sent, failed
(recoverably or not) or refused: nothing generated is dropped from the audit. -/
theorem engine_audit_errors (dead : Nat → Bool) (enabled : Bool) (ev : EngEv) (algoC algoO : List Req) :
    ∃ p, engineAudit dead enabled ev algoC algoO = .process p ∧ p.event = ev ∧ p.WF ∧
      p.outputs.asRef = specEngineOutputs dead enabled ev algoC algoO ∧
      p.errors.asRef.Perm (specEngineErrors dead enabled ev algoC algoO) ∧
      (¬ AlgoBoundary dead algoC algoO → p.errors.asRef = specEngineErrors dead enabled ev algoC algoO) ∧
      (p.isTerminal EngEv.terminal = true ↔
        ev.terminal = true ∨ specEngineErrors dead enabled ev algoC algoO ≠ []) := by
  -- the errors, computed
  have key : ∃ p, engineAudit dead enabled ev algoC algoO = .process p ∧ p.event = ev ∧ p.WF ∧
      p.outputs.asRef = specEngineOutputs dead enabled ev algoC algoO ∧
      p.errors.asRef.Perm (specEngineErrors dead enabled ev algoC algoO) ∧
      (¬ AlgoBoundary dead algoC algoO → p.errors.asRef = specEngineErrors dead enabled ev algoC algoO) := by
    -- the generation stage, when it runs after a non-fatal first stage
    have stage : ∀ (ev' : EngEv) (pre : Pre EngEv Out Nat) (en : Bool), pre.audit.event = ev' →
        (∀ e, pre ≠ .shutdown e) → (∀ e u o, pre ≠ .commandFatal e u o) →
        ∃ p, assemble pre (if en then some ⟨(generateAlgoOrders dead algoC algoO).isEmpty,
              (generateAlgoOrders dead algoC algoO).unrecoverableErrors, .algo⟩ else none) = .process p ∧
          p.event = ev' ∧ p.WF ∧
          p.outputs.asRef = pre.audit.outputs.asRef ++
            (if en && !(algoC.isEmpty && algoO.isEmpty) then [Out.algo] else []) ∧
          p.errors.asRef.Perm (if en then failedSends dead (algoC.filter (!refused ·)) ++
              failedSends dead (algoO.filter (!refused ·)) else []) ∧
          (¬ AlgoBoundary dead algoC algoO →
            p.errors.asRef = if en then failedSends dead (algoC.filter (!refused ·)) ++
              failedSends dead (algoO.filter (!refused ·)) else []) := by
      intro ev' pre en hev h1 h2
      obtain ⟨p, hp, hpe, herr, hwf, hout, _⟩ := assemble_spec pre
        (if en then some ⟨(generateAlgoOrders dead algoC algoO).isEmpty,
              (generateAlgoOrders dead algoC algoO).unrecoverableErrors, .algo⟩ else none)
      refine ⟨p, hp, hpe.trans hev, hwf, ?_, ?_, ?_⟩
      · rw [hout, assembleOutputs_nonfatal pre en _ h1 h2, generateAlgoOrders_isEmpty]
      · rw [herr, assembleErrors_nonfatal pre en _ h1 h2]
        cases en
        · exact List.Perm.refl _
        · exact stageErrors_perm dead algoC algoO
      · intro hb
        rw [herr, assembleErrors_nonfatal pre en _ h1 h2]
        cases en
        · rfl
        · exact stageErrors_exact dead algoC algoO hb
    -- a command: fatal or not
    have cmd : ∀ (ev' : EngEv) (r : List Req) (act : ActOut),
        actionErrors act = (sendRequests dead r).unrecoverableErrors →
        enginePre dead enabled ev' =
          (match act.unrecoverableErrors with
            | some u => (Pre.commandFatal ev' u Out.cmd, enabled)
            | none => (Pre.command ev' Out.cmd, enabled)) →
        specEngineErrors dead enabled ev' algoC algoO =
          (if (failedSends dead r).isEmpty then
            (if enabled then failedSends dead (algoC.filter (!refused ·)) ++
              failedSends dead (algoO.filter (!refused ·)) else [])
           else failedSends dead r) →
        ∃ p, engineAudit dead enabled ev' algoC algoO = .process p ∧
          p.event = ev' ∧ p.WF ∧
          p.outputs.asRef = [Out.cmd] ++
            (if (failedSends dead r).isEmpty && enabled && !(algoC.isEmpty && algoO.isEmpty)
              then [Out.algo] else []) ∧
          p.errors.asRef.Perm (specEngineErrors dead enabled ev' algoC algoO) ∧
          (¬ AlgoBoundary dead algoC algoO → p.errors.asRef = specEngineErrors dead enabled ev' algoC algoO) := by
      intro ev' r act hact hpre hspec
      have ha := action_unrecoverable act
      unfold engineAudit
      rw [hpre, hspec]
      cases hU : act.unrecoverableErrors with
      | none =>
        have hnil : failedSends dead r = [] := by
          rw [← sendRequests_unrec, ← hact]; exact ha.1.mp hU
        obtain ⟨p, hp, h1, h2, ho, h3, h4⟩ := stage ev' (Pre.command ev' Out.cmd) enabled rfl nofun nofun
        refine ⟨p, hp, h1, h2, ?_, ?_, ?_⟩
        · simpa [hnil, Pre.audit, ProcessAudit.withOutput, NOM.asRef] using ho
        · simpa [hnil] using h3
        · intro hb; simpa [hnil] using h4 hb
      | some u =>
        obtain ⟨hu1, _, hu3⟩ := ha.2.1 u hU
        have hne : failedSends dead r ≠ [] := by
          rw [← sendRequests_unrec, ← hact, ← hu1]; exact hu3
        have hne' : (failedSends dead r).isEmpty = false := by
          cases h : failedSends dead r with
          | nil => exact absurd h hne
          | cons _ _ => rfl
        obtain ⟨p, hp, hpe, herr, hwf, hout, _⟩ := assemble_spec (Pre.commandFatal ev' u Out.cmd)
          (if enabled then some ⟨(generateAlgoOrders dead algoC algoO).isEmpty,
              (generateAlgoOrders dead algoC algoO).unrecoverableErrors, .algo⟩ else none)
        have hval : p.errors.asRef = failedSends dead r := by
          rw [herr]
          simp only [assembleErrors, NOM.fromIter_asRef, OOM.intoIter_eq, hu1, hact, sendRequests_unrec]
        refine ⟨p, hp, hpe, hwf, ?_, ?_, ?_⟩
        · rw [hout]; simp [assembleOutputs, Pre.audit, NOM.asRef, hne']
        · simp only [hne', Bool.false_eq_true, if_false]; exact hval ▸ List.Perm.refl _
        · intro _; simp only [hne', Bool.false_eq_true, if_false]; exact hval
    have hspecO : ∀ ev', specEngineOutputs dead enabled ev' algoC algoO =
        firstOutputs enabled ev' ++
          (if !ev'.terminal && !cmdFailed dead ev' && enabledAfter enabled ev' &&
              !(algoC.isEmpty && algoO.isEmpty) then [Out.algo] else []) := by
      intro ev'; unfold specEngineOutputs; split <;> simp
    cases ev with
    | shutdown =>
      exact ⟨ProcessAudit.withEvent .shutdown, rfl, rfl, ⟨trivial, trivial⟩,
        by rw [hspecO]; simp [firstOutputs, EngEv.terminal, ProcessAudit.withEvent, NOM.asRef],
        by simp [specEngineErrors, EngEv.terminal, ProcessAudit.withEvent, NOM.asRef],
        fun _ => by simp [specEngineErrors, EngEv.terminal, ProcessAudit.withEvent, NOM.asRef]⟩
    | cmdCancel r =>
      obtain ⟨p, hp, h1, h2, ho, h3, h4⟩ := cmd (.cmdCancel r) r (.cancelOrders (sendRequests dead r)) rfl rfl
        (by simp [specEngineErrors, EngEv.terminal])
      refine ⟨p, hp, h1, h2, ?_, h3, h4⟩
      rw [ho, hspecO]
      cases hf : failedSends dead r <;> simp [firstOutputs, cmdFailed, enabledAfter, EngEv.terminal, hf]
    | cmdOpen r =>
      obtain ⟨p, hp, h1, h2, ho, h3, h4⟩ := cmd (.cmdOpen r) r (.openOrders (sendRequests dead r)) rfl rfl
        (by simp [specEngineErrors, EngEv.terminal])
      refine ⟨p, hp, h1, h2, ?_, h3, h4⟩
      rw [ho, hspecO]
      cases hf : failedSends dead r <;> simp [firstOutputs, cmdFailed, enabledAfter, EngEv.terminal, hf]
    | tsOn =>
      obtain ⟨p, hp, h1, h2, ho, h3, h4⟩ := stage .tsOn (Pre.update .tsOn none) true rfl nofun nofun
      refine ⟨p, hp, h1, h2, ?_,
        by simpa [specEngineErrors, EngEv.terminal] using h3,
        fun hb => by simpa [specEngineErrors, EngEv.terminal] using h4 hb⟩
      rw [ho, hspecO]
      simp [firstOutputs, cmdFailed, enabledAfter, EngEv.terminal, Pre.audit, ProcessAudit.withOutput,
          ProcessAudit.withEvent, NOM.asRef]
    | tsOff =>
      obtain ⟨p, hp, h1, h2, ho, h3, h4⟩ := stage .tsOff (Pre.update .tsOff (if enabled then some (.td 0) else none)) false
        (by cases enabled <;> rfl) nofun nofun
      refine ⟨p, hp, h1, h2, ?_,
        by simpa [specEngineErrors, EngEv.terminal] using h3,
        fun hb => by simpa [specEngineErrors, EngEv.terminal] using h4 hb⟩
      rw [ho, hspecO]
      cases enabled <;> simp [firstOutputs, cmdFailed, enabledAfter, EngEv.terminal, Pre.audit, ProcessAudit.withOutput,
          ProcessAudit.withEvent, NOM.asRef]
    | mkt =>
      obtain ⟨p, hp, h1, h2, ho, h3, h4⟩ := stage .mkt (Pre.update .mkt none) enabled rfl nofun nofun
      refine ⟨p, hp, h1, h2, ?_,
        by simpa [specEngineErrors, EngEv.terminal] using h3,
        fun hb => by simpa [specEngineErrors, EngEv.terminal] using h4 hb⟩
      rw [ho, hspecO]
      simp [firstOutputs, cmdFailed, enabledAfter, EngEv.terminal, Pre.audit, ProcessAudit.withOutput,
          ProcessAudit.withEvent, NOM.asRef]
    | mktRe =>
      obtain ⟨p, hp, h1, h2, ho, h3, h4⟩ := stage .mktRe (Pre.update .mktRe (some (.md 0))) enabled rfl nofun nofun
      refine ⟨p, hp, h1, h2, ?_,
        by simpa [specEngineErrors, EngEv.terminal] using h3,
        fun hb => by simpa [specEngineErrors, EngEv.terminal] using h4 hb⟩
      rw [ho, hspecO]
      simp [firstOutputs, cmdFailed, enabledAfter, EngEv.terminal, Pre.audit, ProcessAudit.withOutput,
          ProcessAudit.withEvent, NOM.asRef]
    | accRe =>
      obtain ⟨p, hp, h1, h2, ho, h3, h4⟩ := stage .accRe (Pre.update .accRe (some (.ad 0))) enabled rfl nofun nofun
      refine ⟨p, hp, h1, h2, ?_,
        by simpa [specEngineErrors, EngEv.terminal] using h3,
        fun hb => by simpa [specEngineErrors, EngEv.terminal] using h4 hb⟩
      rw [ho, hspecO]
      simp [firstOutputs, cmdFailed, enabledAfter, EngEv.terminal, Pre.audit, ProcessAudit.withOutput,
          ProcessAudit.withEvent, NOM.asRef]
  obtain ⟨p, hp, hev, hwf, hout, hperm, hex⟩ := key
  refine ⟨p, hp, hev, hwf, hout, hperm, hex, ?_⟩
  rw [ProcessAudit.isTerminal_iff hwf.2, hev]
  have : p.errors.asRef ≠ [] ↔ specEngineErrors dead enabled ev algoC algoO ≠ [] := by
    constructor
    · intro h hn; rw [hn] at hperm; exact h (List.perm_nil.mp hperm)
    · intro h hn; rw [hn] at hperm; exact h (List.perm_nil.mp hperm.symm)
  rw [this]

/-! ## Non-vacuity and the reported facts on concrete values -/

-- the reversing arm, on the smallest input
example : ((NOM.one 1).extend [2, 3] : NOM Int) = .many [2, 3, 1] := rfl
example : ((NOM.many [0, 1]).extend [2, 3] : NOM Int) = .many [0, 1, 2, 3] := rfl
example : ((NOM.one 1).extend [2] : NOM Int) = .many [1, 2] := rfl
-- `KeepsOrderN` is satisfiable by a history with extends, and violated by the reversing one
example : KeepsOrderN (.none : NOM Int) [.vec [1, 2], .ext [3, 4], .map 1, .ext [], .ext [7]] := by
  simp [KeepsOrderN, NOp.keepsOrder, NOp.apply, NOM.fromVec, NOM.extend, NOM.fromIter, NOM.map]
example : ¬ KeepsOrderN (.none : NOM Int) [.opt (some 1), .ext [2, 3]] := by
  simp [KeepsOrderN, NOp.keepsOrder, NOp.apply, NOM.fromOption]
example : (runN .none [.opt (some 1), .ext [2, 3]]).asRef = [2, 3, 1] ∧
    runNSpec [] [.opt (some 1), .ext [2, 3]] = [1, 2, 3] := by decide
-- OneOrMany leaves its own domain
example : (OOM.fromIter ([] : List Int)).len = 0 := rfl
example : ((OOM.one 1).extend [] : OOM Int) = .many [1] := rfl
-- audit: the engine-level witness (exchange 1 and 2 dead): one failed algo cancel, two failed algo opens
example : (match engineAudit (fun e => e == 1 || e == 2) true .mkt [(1, 1)] [(2, 2), (2, 3)] with
    | .process p => p.errors.asRef | .feedEnded => []) = [2, 2, 1] := by decide
example : specEngineErrors (fun e => e == 1 || e == 2) true .mkt [(1, 1)] [(2, 2), (2, 3)] = [1, 2, 2] := by
  decide
-- since /repo a7785e6 the AlgoOrders output stays in the audit next to the errors
example : (match engineAudit (fun e => e == 1 || e == 2) true .mktRe [(1, 1)] [(2, 2), (2, 3)] with
    | .process p => p.outputs | .feedEnded => .none) = .many [.md 0, .algo] := by decide
example : specEngineOutputs (fun e => e == 1 || e == 2) true .mktRe [(1, 1)] [(2, 2), (2, 3)] = [.md 0, .algo] := by
  decide
example : AlgoBoundary (fun e => e == 1 || e == 2) [(1, 1)] [(2, 2), (2, 3)] := by
  simp [AlgoBoundary, failedSends, refused]
example : ¬ AlgoBoundary (fun e => e == 1 || e == 2) [(1, 1), (2, 5)] [(2, 2), (0, 3)] := by
  simp [AlgoBoundary, failedSends, refused]
-- the relation the audit refinement starts from holds for a fresh record
example : AuditRel (ProcessAudit.withEvent false) (false, ⟨[], []⟩) :=
  ⟨rfl, rfl, List.Perm.refl _, trivial, trivial⟩

end BarterModel.Props.C03N
