import BarterModel.Lemmas.Collections
/-!
# C03N — `NoneOneOrMany` / `OneOrMany`: the collections engine outputs and audits are made of

Statements only (proofs go through `Lemmas/Collections.lean`). The abstraction function is `asRef`
(the slice view): a `NoneOneOrMany` stands for a finite sequence, a `OneOrMany` for a non-empty one.
`Canonical` = the representation is the one determined by the length (`Many` holds ≥ 2 items).

What a user relies on, and where exactly it stops being true:
* every way of reading gives the same sequence; building from an iterator / vector gives that sequence
  in canonical form; `from_iter ∘ into_iter = id` on canonical values; canonical values are equal iff
  their sequences are;
* `len`, `contains`, `map` are the list operations; `is_empty` is `len = 0` **only** for canonical
  values (`Many(vec![])` is not "empty");
* `extend` always yields the right multiset, length and membership and keeps canonical form, but keeps
  the order "self, then other" **iff** it is not the case that self is `One(x)` and other has ≥ 2 items
  not all equal to `x` (`One(x).extend([y, z]) = Many([y, z, x])`);
* everything the `NoneOneOrMany` API builds is canonical; `OneOrMany`'s API is not closed:
  `from_iter([]) = Many([])` (an empty "one or many") and `One(x).extend([]) = Many([x])`;
* audit records: `add_output` appends (always in order), `add_errors` is `extend`, a record is terminal
  iff its event is or it has an error; `SendCancelsAndOpensOutput::unrecoverable_errors` is cancels'
  errors `extend` opens' errors, so its order is the request order except in the case above; in
  `Engine::process` `add_errors` only ever meets an empty error collection, and (since /repo a7785e6)
  the AlgoOrders output is kept next to the errors: the audit's outputs are the first stage's output
  followed by the algo output whenever anything was generated;
* one `Engine::process` over a TEN-event alphabet (`EngEv`: Shutdown, the four commands
  SendCancelRequests / SendOpenRequests / CancelOrders / ClosePositions, trading on / off, an account
  balance item, the two reconnecting notices): the audit's error collection is, in closed form,
  `from_iter(cancel-side failures).extend(open-side failures)` of the stage that failed
  (`engine_audit_closed_form`), hence out of request order exactly when that stage has one cancel-side
  failure and two or more open-side failures not all equal to it (`engine_audit_errors`,
  `audit_reorders_iff`) - which happens in the generation stage (`AlgoBoundary`) AND on the command path
  of `ClosePositions` (`close_positions_command_order`). Not in the alphabet: account items that exit a
  position, market items (they take the same `update` path with another first-stage output), links that
  are `Unhealthy` or missing.

Definitional / bookkeeping statements (true by unfolding one definition; kept for reference, not
results): `nom_readings_agree` / `oom_readings_agree` (the model has one `asRef` for `as_ref` / `borrow`
/ `&into_iter`), the first two conjuncts of `engine_assemble` (`assembleErrors` / `assembleOutputs`
repeat the match of `assemble`), `actionErrors` (mirrors `ActionOutput::unrecoverable_errors`), the
middle conjunct of `runO_refines`.
-/
namespace BarterModel.Props.C03N
open BarterModel.Collections

/-! ## NoneOneOrMany -/

/-- `into_vec`, `iter`, `into_iter` (owned, by reference) and `as_ref`/`borrow` all yield the same
sequence. -/
theorem nom_readings_agree {α : Type} (a : NOM α) :
    a.intoVec = a.asRef ∧ a.iter = a.asRef ∧ a.intoIter = a.asRef :=
  ⟨NOM.intoVec_eq a, NOM.iter_eq a, NOM.intoIter_eq a⟩

/-- `FromIterator` and `From<Vec>` agree, yield the given items in order, in canonical form, and the
variant is a function of the number of items: `None` for 0, `One` for 1, `Many` otherwise. -/
theorem nom_from_iter {α : Type} (l : List α) :
    NOM.fromVec l = NOM.fromIter l ∧ (NOM.fromIter l).asRef = l ∧ (NOM.fromIter l).Canonical ∧
      (NOM.fromIter l).shape = Spec.shapeOf l ∧
      (NOM.fromIter l = .none ↔ l = []) ∧ (∀ x, NOM.fromIter l = .one x ↔ l = [x]) ∧
      (∀ m, NOM.fromIter l = .many m ↔ l = m ∧ 2 ≤ l.length) :=
  ⟨NOM.fromVec_eq_fromIter l, NOM.fromIter_asRef l, NOM.fromIter_canonical l,
   by rw [NOM.shape_of_canonical (NOM.fromIter_canonical l), NOM.fromIter_asRef],
   NOM.fromIter_eq_none_iff l, NOM.fromIter_eq_one_iff l, NOM.fromIter_eq_many_iff l⟩

/-- `From<Option>`. -/
theorem nom_from_option {α : Type} (o : Option α) :
    (NOM.fromOption o).asRef = Spec.fromOption o ∧ (NOM.fromOption o).Canonical :=
  ⟨NOM.fromOption_asRef o, NOM.fromOption_canonical o⟩

/-- `from_iter ∘ into_iter` is the identity exactly on canonical values; in general it is the
canonical representative of the same sequence (and is idempotent). -/
theorem nom_from_iter_into_iter {α : Type} (a : NOM α) :
    (NOM.fromIter a.intoIter = a ↔ a.Canonical) ∧
      (NOM.fromIter a.intoIter).asRef = a.asRef ∧
      NOM.fromIter (NOM.fromIter a.intoIter).intoIter = NOM.fromIter a.intoIter := by
  refine ⟨⟨fun h => h ▸ NOM.fromIter_canonical _, fun h => ?_⟩, ?_, ?_⟩
  · rw [NOM.intoIter_eq]; exact NOM.fromIter_asRef_of_canonical h
  · rw [NOM.fromIter_asRef, NOM.intoIter_eq]
  · rw [NOM.intoIter_eq (NOM.fromIter _), NOM.fromIter_asRef]

/-- derived `PartialEq` on canonical values is equality of the sequences … -/
theorem nom_eq_iff_of_canonical {α : Type} {a b : NOM α} (ha : a.Canonical) (hb : b.Canonical) :
    a = b ↔ a.asRef = b.asRef :=
  ⟨fun h => h ▸ rfl, NOM.canonical_ext ha hb⟩

/-- … and distinguishes representations of the same sequence otherwise: `One(x) ≠ Many([x])`,
`None ≠ Many([])`. -/
theorem nom_eq_distinguishes_representations {α : Type} (x : α) :
    (NOM.one x ≠ NOM.many [x] ∧ (NOM.one x).asRef = (NOM.many [x]).asRef) ∧
      ((NOM.none : NOM α) ≠ NOM.many [] ∧ (NOM.none : NOM α).asRef = (NOM.many []).asRef) :=
  ⟨⟨nofun, rfl⟩, ⟨nofun, rfl⟩⟩

/-- `len` is the length; `contains` is membership; `map` maps the sequence and keeps canonical form. -/
theorem nom_len_contains_map {α β : Type} [BEq α] [LawfulBEq α] (a : NOM α) (x : α) (f : α → β) :
    a.len = Spec.len a.asRef ∧ (a.contains x = true ↔ x ∈ a.asRef) ∧
      (a.map f).asRef = Spec.map f a.asRef ∧ (a.Canonical → (a.map f).Canonical) ∧
      (a.map f).shape = a.shape :=
  ⟨NOM.len_eq a, NOM.contains_iff a x, NOM.map_asRef f a, NOM.map_canonical f, by cases a <;> rfl⟩

/-- `is_empty` (= `is_none`) implies no items; the converse holds for canonical values … -/
theorem nom_is_empty {α : Type} (a : NOM α) :
    (a.isEmpty = true → a.asRef = []) ∧ (a.Canonical → (a.isEmpty = true ↔ a.len = 0)) := by
  refine ⟨NOM.isEmpty_imp a, fun h => ?_⟩
  rw [NOM.isEmpty_iff_of_canonical h, NOM.len_eq]
  exact List.length_eq_zero_iff.symm

/-- … and fails for `Many(vec![])`: no items, `len() == 0`, but `is_empty() == false`. -/
theorem nom_is_empty_many_nil {α : Type} :
    (NOM.many ([] : List α)).len = 0 ∧ (NOM.many ([] : List α)).isEmpty = false := ⟨rfl, rfl⟩

/-- … and `Many(vec![])` is the ONLY value for which `is_empty` and `len() == 0` disagree (no canonicity
needed: `Many([x])` is fine). -/
theorem nom_is_empty_iff_exact {α : Type} (a : NOM α) :
    (a.isEmpty = true ↔ a.len = 0) ↔ a ≠ .many [] := by
  cases a with
  | none => simp [NOM.isEmpty, NOM.isNone, NOM.len]
  | one x => simp [NOM.isEmpty, NOM.isNone, NOM.len]
  | many l => cases l <;> simp [NOM.isEmpty, NOM.isNone, NOM.len]

/-- `extend`: multiset, length, membership — for all values and all iterators. -/
theorem nom_extend_perm {α : Type} [BEq α] [LawfulBEq α] (a : NOM α) (l : List α) (x : α) :
    (a.extend l).asRef.Perm (Spec.extend a.asRef l) ∧ (a.extend l).len = a.len + l.length ∧
      ((a.extend l).contains x = true ↔ a.contains x = true ∨ x ∈ l) := by
  refine ⟨NOM.extend_perm a l, NOM.extend_len a l, ?_⟩
  rw [NOM.contains_iff, NOM.contains_iff, (NOM.extend_perm a l).mem_iff, List.mem_append]

/-- `extend` keeps the order "items of self, then items of other" iff it is not the case that self is
`One(x)` and other has two or more items that are not all `x`. -/
theorem nom_extend_order_iff {α : Type} (a : NOM α) (l : List α) :
    (a.extend l).asRef = Spec.extend a.asRef l ↔
      ∀ x, a = .one x → 2 ≤ l.length → ∀ y ∈ l, y = x :=
  NOM.extend_asRef_eq_append_iff a l

/-- the exceptional arm: the single item of self ends up *behind* the items of other. -/
theorem nom_extend_one_many_reversed {α : Type} (x y z : α) (l : List α) :
    ((NOM.one x).extend (y :: z :: l)).asRef = (y :: z :: l) ++ [x] := rfl

/-- when all items are equal the order question does not arise: a permutation of a constant list is
that list (used by the spec driver: after the reversing arm the order is determined again as soon as
all items are equal). -/
theorem perm_of_all_same {α : Type} {l r : List α} (x : α) (h : l.Perm r) (hr : ∀ y ∈ r, y = x) : l = r := by
  have hl : ∀ y ∈ l, y = x := fun y hy => hr y (h.mem_iff.mp hy)
  rw [List.eq_replicate_iff.mpr ⟨rfl, hl⟩, List.eq_replicate_iff.mpr ⟨rfl, hr⟩, h.length_eq]

theorem nom_extend_all_same {α : Type} (a : NOM α) (l : List α) (x : α)
    (h : ∀ y ∈ a.asRef ++ l, y = x) : (a.extend l).asRef = Spec.extend a.asRef l :=
  perm_of_all_same x (NOM.extend_perm a l) h

/-- `extend` keeps canonical form. -/
theorem nom_extend_canonical {α : Type} {a : NOM α} (h : a.Canonical) (l : List α) :
    (a.extend l).Canonical := NOM.extend_canonical h l

/-- Values obtainable through the API (no literal `Many(..)`, no `Deserialize`). -/
inductive NomReach {α : Type} : NOM α → Prop
  | dflt : NomReach NOM.default
  | one (x : α) : NomReach (.one x)
  | fromIter (l : List α) : NomReach (NOM.fromIter l)
  | fromVec (l : List α) : NomReach (NOM.fromVec l)
  | fromOption (o : Option α) : NomReach (NOM.fromOption o)
  | extend {a : NOM α} (l : List α) : NomReach a → NomReach (a.extend l)
  | map {a : NOM α} (f : α → α) : NomReach a → NomReach (a.map f)
  | mutAll {a : NOM α} (f : α → α) : NomReach a → NomReach (a.mutAll f)

/-- `Many([])` and `Many([x])` are not reachable through the `NoneOneOrMany` API: every reachable value
is canonical, hence `is_empty ⇔ len = 0`, equality = equality of sequences, variant = f(length). -/
theorem nom_reachable_canonical {α : Type} {a : NOM α} (h : NomReach a) :
    a.Canonical ∧ a ≠ .many [] ∧ ∀ x, a ≠ .many [x] := by
  have hc : a.Canonical := by
    induction h with
    | dflt => trivial
    | one x => trivial
    | fromIter l => exact NOM.fromIter_canonical l
    | fromVec l => rw [NOM.fromVec_eq_fromIter]; exact NOM.fromIter_canonical l
    | fromOption o => exact NOM.fromOption_canonical o
    | extend l _ ih => exact NOM.extend_canonical ih l
    | map f _ ih => exact NOM.map_canonical f ih
    | mutAll f _ ih => rw [NOM.mutAll_eq_map]; exact NOM.map_canonical f ih
  refine ⟨hc, ?_, ?_⟩
  · intro h; subst h; simp [NOM.Canonical] at hc
  · intro x h; subst h; simp [NOM.Canonical] at hc

/-- `into_option` and `From<NoneOneOrMany> for Option<OneOrMany>` agree; nothing iff `None`; the
items are kept; a canonical value gives a canonical, non-empty `OneOrMany`. -/
theorem nom_into_option {α : Type} (a : NOM α) :
    a.intoOption = optionOfNOM a ∧ (a.intoOption = none ↔ a = .none) ∧
      (∀ v, a.intoOption = some v → v.asRef = a.asRef ∧ (a.Canonical → v.Canonical ∧ v.asRef ≠ [])) :=
  ⟨NOM.intoOption_eq_optionOfNOM a, NOM.intoOption_eq_none_iff a,
   fun _ h => ⟨NOM.intoOption_asRef h, fun hc => NOM.intoOption_canonical hc h⟩⟩

/-- derived `Ord` is consistent with derived `Eq` (elements `i64`) … -/
theorem nom_cmp_eq_iff (a b : NOM Int) : NOM.cmp a b = .eq ↔ a = b := NOM.cmp_eq_iff a b

/-- … but is *not* the lexicographic order of the sequences: the variant is compared first. -/
theorem nom_cmp_is_not_sequence_order :
    NOM.cmp (.one 9) (.many [1, 2]) = .lt ∧ NOM.cmpList [(9 : Int)] [1, 2] = .gt := by decide

/-- In general: derived `Ord` compares the position of the variant first (`None < One(_) < Many(_)`),
whatever the payloads are; within one variant it compares the payload (`One`: the items, `Many`: the
vectors lexicographically). -/
theorem nom_cmp_variant_first (a b : NOM Int) :
    (a.tag < b.tag → NOM.cmp a b = .lt) ∧ (b.tag < a.tag → NOM.cmp a b = .gt) ∧
      (∀ x y : Int, NOM.cmp (.one x) (.one y) = compare x y) ∧
      (∀ l r : List Int, NOM.cmp (.many l) (.many r) = NOM.cmpList l r) := by
  refine ⟨?_, ?_, fun _ _ => rfl, fun _ _ => rfl⟩
  · intro h; cases a <;> cases b <;> simp_all [NOM.tag, NOM.cmp, compare, compareOfLessAndEq]
  · intro h; cases a <;> cases b <;> simp_all [NOM.tag, NOM.cmp, compare, compareOfLessAndEq]

/-- On canonical values the derived order is therefore a function of the two sequences: shorter class
first (0 items < 1 item < 2 or more items), and within a class the lexicographic order of the items
(`Spec.cmpSeq`) - this is what the spec driver prints as `ord`. -/
theorem nom_cmp_of_canonical {a b : NOM Int} (ha : a.Canonical) (hb : b.Canonical) :
    NOM.cmp a b = Spec.cmpSeq a.asRef b.asRef := NOM.cmp_eq_cmpSeq ha hb

/-! ## OneOrMany -/

theorem oom_readings_agree {α : Type} (a : OOM α) :
    a.intoVec = a.asRef ∧ a.iter = a.asRef ∧ a.intoIter = a.asRef :=
  ⟨OOM.intoVec_eq a, OOM.iter_eq a, OOM.intoIter_eq a⟩

/-- `FromIterator` keeps the items in order and is canonical iff there is at least one; the empty
iterator yields `Many(vec![])`, a "one or many" with `len() == 0`. -/
theorem oom_from_iter {α : Type} (l : List α) :
    (OOM.fromIter l).asRef = l ∧ ((OOM.fromIter l).Canonical ↔ l ≠ []) ∧
      OOM.fromIter ([] : List α) = .many [] ∧ (OOM.fromIter ([] : List α)).len = 0 :=
  ⟨OOM.fromIter_asRef l, OOM.fromIter_canonical_iff l, rfl, rfl⟩

/-- `From<Vec>` panics exactly on the empty vector and otherwise agrees with `FromIterator`. -/
theorem oom_from_vec {α : Type} (l : List α) :
    (OOM.fromVec l = none ↔ l = []) ∧
      (∀ v, OOM.fromVec l = some v → v = OOM.fromIter l ∧ v.asRef = l ∧ v.Canonical) :=
  ⟨OOM.fromVec_eq_none_iff l, fun _ h => OOM.fromVec_some h⟩

theorem oom_len_contains_map {α β : Type} [BEq α] [LawfulBEq α] (a : OOM α) (x : α) (f : α → β) :
    a.len = Spec.len a.asRef ∧ (a.contains x = true ↔ x ∈ a.asRef) ∧
      (a.map f).asRef = Spec.map f a.asRef ∧ (a.Canonical → (a.map f).Canonical) :=
  ⟨OOM.len_eq a, OOM.contains_iff a x, OOM.map_asRef f a, OOM.map_canonical f⟩

theorem oom_extend_perm {α : Type} [BEq α] [LawfulBEq α] (a : OOM α) (l : List α) (x : α) :
    (a.extend l).asRef.Perm (Spec.extend a.asRef l) ∧ (a.extend l).len = a.len + l.length ∧
      ((a.extend l).contains x = true ↔ a.contains x = true ∨ x ∈ l) := by
  refine ⟨OOM.extend_perm a l, OOM.extend_len a l, ?_⟩
  rw [OOM.contains_iff, OOM.contains_iff, (OOM.extend_perm a l).mem_iff, List.mem_append]

theorem oom_extend_order_iff {α : Type} (a : OOM α) (l : List α) :
    (a.extend l).asRef = Spec.extend a.asRef l ↔
      ∀ x, a = .one x → 2 ≤ l.length → ∀ y ∈ l, y = x :=
  OOM.extend_asRef_eq_append_iff a l

theorem oom_extend_one_many_reversed {α : Type} (x y z : α) (l : List α) :
    ((OOM.one x).extend (y :: z :: l)).asRef = (y :: z :: l) ++ [x] := rfl

/-- `extend` keeps canonical form except when one item is extended by nothing:
`One(x).extend([]) = Many([x])`, which `==` tells apart from `One(x)`. -/
theorem oom_extend_canonical_iff {α : Type} {a : OOM α} (h : a.Canonical) (l : List α) :
    ((a.extend l).Canonical ↔ ¬ (a.isOne = true ∧ l = [])) ∧
      ∀ x : α, (OOM.one x).extend [] = .many [x] ∧ (OOM.one x).extend [] ≠ .one x :=
  ⟨OOM.extend_canonical_iff h l, fun _ => ⟨rfl, nofun⟩⟩

/-- a non-empty `OneOrMany` stays non-empty under `extend` and `map`. -/
theorem oom_nonempty_preserved {α : Type} {a : OOM α} (h : a.asRef ≠ []) (l : List α) (f : α → α) :
    (a.extend l).asRef ≠ [] ∧ (a.map f).asRef ≠ [] ∧ 1 ≤ (a.extend l).len := by
  have h1 := OOM.extend_ne_nil h l
  refine ⟨h1, ?_, ?_⟩
  · rw [OOM.map_asRef]; simpa using h
  · rw [OOM.len_eq]; exact List.length_pos_iff.mpr h1

theorem oom_eq_iff_of_canonical {α : Type} {a b : OOM α} (ha : a.Canonical) (hb : b.Canonical) :
    a = b ↔ a.asRef = b.asRef :=
  ⟨fun h => h ▸ rfl, OOM.canonical_ext ha hb⟩

theorem oom_cmp_eq_iff (a b : OOM Int) : OOM.cmp a b = .eq ↔ a = b := OOM.cmp_eq_iff a b

/-- derived `Ord` on `OneOrMany`: `One(_) < Many(_)` whatever the payloads; on canonical values it is
`Spec.cmpSeq` of the sequences. -/
theorem oom_cmp_variant_first (a b : OOM Int) :
    (a.tag < b.tag → OOM.cmp a b = .lt) ∧ (b.tag < a.tag → OOM.cmp a b = .gt) ∧
      (a.Canonical → b.Canonical → OOM.cmp a b = Spec.cmpSeq a.asRef b.asRef) := by
  refine ⟨?_, ?_, OOM.cmp_eq_cmpSeq⟩
  · intro h; cases a <;> cases b <;> simp_all [OOM.tag, OOM.cmp, compare, compareOfLessAndEq]
  · intro h; cases a <;> cases b <;> simp_all [OOM.tag, OOM.cmp, compare, compareOfLessAndEq]

/-! ## Refinement of whole histories (the register machine the drivers run) -/

/-- NoneOneOrMany register, any start value, any history of constructor / extend / map / mutate ops:
the items are a permutation of what the list program computes (so length, multiset, membership are
right); with canonical literals the value stays canonical (so variant, `is_empty`, `==` are right). -/
theorem runN_refines (n : NOM Int) (ops : List NOp) :
    (runN n ops).asRef.Perm (runNSpec n.asRef ops) ∧
      (n.Canonical → (∀ op ∈ ops, op.Safe) → (runN n ops).Canonical ∧
        (runN n ops).shape = Spec.shapeOf (runNSpec n.asRef ops)) := by
  have hp : ∀ (ops : List NOp) (n : NOM Int) (s : List Int), n.asRef.Perm s →
      (runN n ops).asRef.Perm (runNSpec s ops) := by
    intro ops
    induction ops with
    | nil => intro n s h; exact h
    | cons op ops ih => intro n s h; exact ih _ _ (NOp.apply_perm h op)
  have hc : ∀ (ops : List NOp) (n : NOM Int), n.Canonical → (∀ op ∈ ops, op.Safe) →
      (runN n ops).Canonical := by
    intro ops
    induction ops with
    | nil => intro n h _; exact h
    | cons op ops ih =>
      intro n h hs
      exact ih _ (NOp.apply_canonical h (hs op (by simp))) (fun o ho => hs o (by simp [ho]))
  refine ⟨hp ops n _ (List.Perm.refl _), fun h hs => ⟨hc ops n h hs, ?_⟩⟩
  rw [NOM.shape_of_canonical (hc ops n h hs)]
  simp only [Spec.shapeOf, (hp ops n _ (List.Perm.refl _)).length_eq]

/-- … and the items are exactly the list program's result, in order, when no step is the reversing
arm of `extend` (`KeepsOrderN`: no `One(x)` extended by ≥ 2 items not all `x`). No other hypothesis. -/
theorem runN_refines_exact (n : NOM Int) (ops : List NOp) (h : KeepsOrderN n ops) :
    (runN n ops).asRef = runNSpec n.asRef ops := by
  induction ops generalizing n with
  | nil => rfl
  | cons op ops ih =>
    simp only [runN, runNSpec, List.foldl_cons]
    rw [← NOp.apply_exact n h.1]
    exact ih _ h.2

/-- OneOrMany register: same statements; an op panics in the model iff the list program is undefined
(`From<Vec>` of the empty vector - the middle conjunct; it does not depend on the register, see
`runO_panicking_step`, which also states that a panicking op leaves both registers as they were); from
a non-empty value, with non-empty literals and `from_iter` arguments, the value stays non-empty. -/
theorem runO_refines (o : OOM Int) (ops : List OOp) :
    (runO o ops).asRef.Perm (runOSpec o.asRef ops) ∧
      (∀ (op : OOp) (s : List Int), op.apply o = none ↔ op.applySpec s = none) ∧
      (o.asRef ≠ [] → (∀ op ∈ ops, op.Safe) → (runO o ops).asRef ≠ [] ∧ 1 ≤ (runO o ops).len) := by
  have hp : ∀ (ops : List OOp) (o : OOM Int) (s : List Int), o.asRef.Perm s →
      (runO o ops).asRef.Perm (runOSpec s ops) := by
    intro ops
    induction ops with
    | nil => intro o s h; exact h
    | cons op ops ih => intro o s h; exact ih _ _ (OOp.apply_perm h op)
  have hn : ∀ (ops : List OOp) (o : OOM Int), o.asRef ≠ [] → (∀ op ∈ ops, op.Safe) →
      (runO o ops).asRef ≠ [] := by
    intro ops
    induction ops with
    | nil => intro o h _; exact h
    | cons op ops ih =>
      intro o h hs
      exact ih _ (OOp.apply_nonempty h (hs op (by simp))) (fun x hx => hs x (by simp [hx]))
  refine ⟨hp ops o _ (List.Perm.refl _), fun op s => OOp.apply_none_iff o s op, fun h hs => ?_⟩
  have := hn ops o h hs
  exact ⟨this, by rw [OOM.len_eq]; exact List.length_pos_iff.mpr this⟩

/-- Whether an op panics depends on the op alone (only `From<Vec>` of the empty vector does), not on
the register; a panicking op changes nothing: the run continues from the same register, in the model
and in the list program. -/
theorem runO_panicking_step (o o' : OOM Int) (s : List Int) (op : OOp) (ops : List OOp) :
    (op.apply o = none ↔ op.apply o' = none) ∧ (op.apply o = none ↔ op = .vec []) ∧
      (op.apply o = none → runO o (op :: ops) = runO o ops ∧ runOSpec s (op :: ops) = runOSpec s ops) := by
  refine ⟨by cases op <;> simp [OOp.apply], ?_, ?_⟩
  · cases op <;> simp [OOp.apply, OOM.fromVec_eq_none_iff]
  · intro h
    have hs : op.applySpec s = none := (OOp.apply_none_iff o s op).mp h
    simp [runO, runOSpec, h, hs]

theorem runO_refines_exact (o : OOM Int) (ops : List OOp) (h : KeepsOrderO o ops) :
    (runO o ops).asRef = runOSpec o.asRef ops := by
  induction ops generalizing o with
  | nil => rfl
  | cons op ops ih =>
    simp only [runO, runOSpec, List.foldl_cons]
    rw [← OOp.apply_exact o h.1]
    exact ih _ h.2

/-! ## Audit records -/

/-- `add_output` appends one output, *always* in order (the reversing arm needs ≥ 2 new items), and
touches nothing else; `add_errors` is `extend` on the errors and touches nothing else. -/
theorem audit_add {ε ω κ : Type} (a : ProcessAudit ε ω κ) (o : ω) (es : List κ) :
    ((a.addOutput o).outputs.asRef = a.outputs.asRef ++ [o] ∧ (a.addOutput o).errors = a.errors ∧
        (a.addOutput o).event = a.event) ∧
      ((a.addErrors es).errors.asRef.Perm (a.errors.asRef ++ es) ∧ (a.addErrors es).outputs = a.outputs ∧
        (a.addErrors es).event = a.event) ∧
      ((a.addErrors es).errors.asRef = a.errors.asRef ++ es ↔
        ∀ x, a.errors = .one x → 2 ≤ es.length → ∀ y ∈ es, y = x) ∧
      (a.errors = .none → (a.addErrors es).errors = NOM.fromIter es) :=
  ⟨⟨ProcessAudit.addOutput_outputs a o, rfl, rfl⟩, ⟨ProcessAudit.addErrors_errors_perm a es, rfl, rfl⟩,
   ProcessAudit.addErrors_errors_eq_iff a es, fun h => ProcessAudit.addErrors_of_none h es⟩

/-- a record is terminal iff its event is terminal or it carries an error - provided its error
collection is not the literal `Many(vec![])` (nothing else is needed; see `audit_terminal_many_nil`
for that value); `FeedEnded` is terminal; `EngineAudit::Process` defers to the record. -/
theorem audit_terminal_iff {ε ω κ : Type} (t : ε → Bool) (a : ProcessAudit ε ω κ) (h : a.errors ≠ .many []) :
    (a.isTerminal t = true ↔ t a.event = true ∨ a.errors.len ≠ 0) ∧
      (EngineAudit.process a).isTerminal t = a.isTerminal t ∧
      (EngineAudit.feedEnded : EngineAudit ε ω κ).isTerminal t = true := by
  refine ⟨?_, rfl, rfl⟩
  obtain ⟨e, o, er⟩ := a
  cases er with
  | none => simp [ProcessAudit.isTerminal, NOM.isEmpty, NOM.isNone, NOM.len]
  | one x => simp [ProcessAudit.isTerminal, NOM.isEmpty, NOM.isNone, NOM.len]
  | many l =>
    cases l with
    | nil => exact absurd rfl h
    | cons x l => simp [ProcessAudit.isTerminal, NOM.isEmpty, NOM.isNone, NOM.len]

/-- the previous formulation (canonical errors) is a special case -/
theorem audit_terminal_iff_of_canonical {ε ω κ : Type} (t : ε → Bool) (a : ProcessAudit ε ω κ)
    (h : a.errors.Canonical) :
    (a.isTerminal t = true ↔ t a.event = true ∨ a.errors.len ≠ 0) ∧
      (EngineAudit.process a).isTerminal t = a.isTerminal t ∧
      (EngineAudit.feedEnded : EngineAudit ε ω κ).isTerminal t = true :=
  audit_terminal_iff t a (by intro hn; rw [hn] at h; simp [NOM.Canonical] at h)

/-- the excluded value: a record whose errors are `Many(vec![])` (only a literal / `Deserialize` can
produce it) is terminal although it carries no error and its event is not terminal. -/
theorem audit_terminal_many_nil {ε ω κ : Type} (t : ε → Bool) (e : ε) (o : NOM ω) (h : t e = false) :
    (⟨e, o, .many []⟩ : ProcessAudit ε ω κ).isTerminal t = true ∧
      (⟨e, o, .many []⟩ : ProcessAudit ε ω κ).errors.len = 0 := by
  simp [ProcessAudit.isTerminal, NOM.isEmpty, NOM.isNone, NOM.len, h]

/-- any history of audit operations (every constructor, `add_output`, `add_errors`,
`with_process_and_err`) from any related start: event and **outputs are exactly** the abstract
record's (in order), errors are a permutation, `terminal` agrees, both collections stay canonical. -/
theorem runA_refines (a : AuditReg) (s : Bool × Spec.Audit Out Int) (h : AuditRel a s) (ops : List AOp) :
    AuditRel (runA a ops) (runASpec s ops) ∧
      (runA a ops).isTerminal id = Spec.Audit.terminal (runASpec s ops).1 (runASpec s ops).2 := by
  have : ∀ (ops : List AOp) a s, AuditRel a s → AuditRel (runA a ops) (runASpec s ops) := by
    intro ops
    induction ops with
    | nil => intro a s h; exact h
    | cons op ops ih => intro a s h; exact ih _ _ (AOp.apply_rel h op)
  exact ⟨this ops a s h, (this ops a s h).terminal⟩

/-- … and the errors are exactly the abstract record's, in order, when no `add_errors` step is the
reversing arm. -/
theorem runA_refines_exact (a : AuditReg) (s : Bool × Spec.Audit Out Int)
    (he : a.errors.asRef = s.2.errors) (ops : List AOp) (h : KeepsOrderA a ops) :
    (runA a ops).errors.asRef = (runASpec s ops).2.errors := by
  induction ops generalizing a s with
  | nil => exact he
  | cons op ops ih =>
    simp only [runA, runASpec, List.foldl_cons]
    exact ih _ _ (AOp.apply_errors_exact a s he h.1) h.2

/-! ## Action outputs -/

/-- `send_requests`' output over per-request results: sent requests and failed requests in request
order, both canonical; the unrecoverable errors are those of the failed requests in request order;
empty iff there was no request. -/
theorem send_requests_output {ρ ρ' κ : Type} (rs : List (ρ × Option (EngineError ρ' κ))) :
    let s := SendRequestsOutput.ofResults rs
    s.sent.asRef = rs.filterMap SendRequestsOutput.sentOf ∧
      s.errors.asRef = rs.filterMap SendRequestsOutput.errorOf ∧
      s.sent.Canonical ∧ s.errors.Canonical ∧
      s.unrecoverableErrors.asRef = Spec.unrecoverable rs ∧ s.unrecoverableErrors.Canonical ∧
      s.isEmpty = rs.isEmpty :=
  ⟨SendRequestsOutput.ofResults_sent rs, SendRequestsOutput.ofResults_errors rs,
   (SendRequestsOutput.ofResults_canonical rs).1, (SendRequestsOutput.ofResults_canonical rs).2,
   SendRequestsOutput.unrecoverableErrors_ofResults rs,
   SendRequestsOutput.unrecoverableErrors_canonical _, SendRequestsOutput.isEmpty_ofResults rs⟩

/-- cancels-and-opens: the unrecoverable errors are a permutation of (cancels' errors ++ opens'
errors), canonical, and in that order iff it is not the case that there is exactly one cancel error
`k` and two or more open errors not all equal to `k`. -/
theorem cancels_and_opens_unrecoverable {ρc ρo ρ' κ : Type} (x : SendCancelsAndOpensOutput ρc ρo ρ' κ) :
    x.unrecoverableErrors.asRef.Perm
        (x.cancels.unrecoverableErrors.asRef ++ x.opens.unrecoverableErrors.asRef) ∧
      x.unrecoverableErrors.Canonical ∧
      (x.unrecoverableErrors.asRef =
          x.cancels.unrecoverableErrors.asRef ++ x.opens.unrecoverableErrors.asRef ↔
        ∀ k, x.cancels.unrecoverableErrors = .one k → 2 ≤ x.opens.unrecoverableErrors.asRef.length →
          ∀ y ∈ x.opens.unrecoverableErrors.asRef, y = k) :=
  ⟨SendCancelsAndOpensOutput.unrecoverableErrors_perm x,
   SendCancelsAndOpensOutput.unrecoverableErrors_canonical x,
   SendCancelsAndOpensOutput.unrecoverableErrors_eq_iff x⟩

/-- the collection `ActionOutput::unrecoverable_errors` converts with `into_option` -/
def actionErrors {ρc ρo ρ' κ φc φo : Type} : ActionOutput ρc ρo ρ' κ φc φo → NOM κ
  | .generateAlgoOrders g => g.cancelsAndOpens.unrecoverableErrors
  | .cancelOrders c => c.unrecoverableErrors
  | .openOrders o => o.unrecoverableErrors
  | .closePositions r => r.unrecoverableErrors

/-- `ActionOutput::unrecoverable_errors` is `None` iff the action had no unrecoverable error, and
otherwise a canonical, non-empty `OneOrMany` with the same items;
`GenerateAlgoOrdersOutput::unrecoverable_errors` is the same function. -/
theorem action_unrecoverable {ρc ρo ρ' κ φc φo : Type} (act : ActionOutput ρc ρo ρ' κ φc φo) :
    (act.unrecoverableErrors = none ↔ (actionErrors act).asRef = []) ∧
      (∀ v, act.unrecoverableErrors = some v →
        v.asRef = (actionErrors act).asRef ∧ v.Canonical ∧ v.asRef ≠ []) ∧
      (∀ g, (ActionOutput.generateAlgoOrders g : ActionOutput ρc ρo ρ' κ φc φo).unrecoverableErrors =
        g.unrecoverableErrors) := by
  have hc : (actionErrors act).Canonical := by
    cases act with
    | generateAlgoOrders g => exact SendCancelsAndOpensOutput.unrecoverableErrors_canonical _
    | cancelOrders c => exact SendRequestsOutput.unrecoverableErrors_canonical _
    | openOrders o => exact SendRequestsOutput.unrecoverableErrors_canonical _
    | closePositions r => exact SendCancelsAndOpensOutput.unrecoverableErrors_canonical _
  have he : act.unrecoverableErrors = (actionErrors act).intoOption := by cases act <;> rfl
  refine ⟨?_, ?_, fun _ => rfl⟩
  · rw [he]; exact NOM.intoOption_none_iff_of_canonical hc
  · intro v hv
    rw [he] at hv
    exact ⟨NOM.intoOption_asRef hv, NOM.intoOption_canonical hc hv⟩

/-! ## `Engine::process`: the audit it assembles -/

/-- Whatever the first stage produced and whatever generation returned: the result is a `Process`
record for the same event, in canonical form; its outputs are the first stage's outputs followed by
the algo output whenever generation returned something non-empty (`assembleOutputs`) — in particular
also when generation carries unrecoverable errors: then the record is
`pre.add_output(algo).add_errors(errs)`, its outputs are the pre outputs followed by the algo output
(nothing generated is dropped), and `add_errors` meets a record **without** errors — so at this point
it is `from_iter` and cannot reorder anything. -/
theorem engine_assemble {ε ω κ : Type} (pre : Pre ε ω κ) (algo : Option (AlgoView ω κ)) :
    ∃ p, assemble pre algo = .process p ∧ p.event = pre.audit.event ∧ p.WF ∧
      p.errors = assembleErrors pre algo ∧ p.outputs.asRef = assembleOutputs pre algo ∧
      (∀ a u, algo = some a → a.isEmpty = false → a.unrecoverable = some u →
        (∀ e, pre ≠ .shutdown e) → (∀ e u' o, pre ≠ .commandFatal e u' o) →
        p = (pre.audit.addOutput a.asOutput).addErrors u.intoIter ∧
          (pre.audit.addOutput a.asOutput).errors = .none ∧
          p.outputs.asRef = pre.audit.outputs.asRef ++ [a.asOutput] ∧
          p.errors = NOM.fromIter u.intoIter) := by
  obtain ⟨p, h1, h2, h3, h4, h5, h6⟩ := assemble_spec pre algo
  refine ⟨p, h1, h2, h4, h3, h5, ?_⟩
  intro a u ha hE hU hs hf
  obtain ⟨h7, h8⟩ := h6 a u ha hE hU hs hf
  refine ⟨h8, h7, ?_, ?_⟩
  · rw [h8, ProcessAudit.addErrors_outputs, ProcessAudit.addOutput_outputs]
  · rw [h8]; exact ProcessAudit.addErrors_of_none h7 _

/-- The reversing arm of `extend` met by the GENERATION stage: exactly one approved algo cancel and two
or more approved algo opens failed unrecoverably. It is a NECESSARY condition for the audit's errors
of a tick whose generation stage failed to be out of request order (`audit_reorders_iff`); it is not
sufficient (generation must have run, and the open errors must not all equal the cancel error), and it
is not the only such situation: a `Command::ClosePositions` meets the same arm on the command path
(`CloseBoundary`, `close_positions_command_order`), whatever the algo requests are. -/
def AlgoBoundary (dead : Nat → Bool) (algoC algoO : List Req) : Prop :=
  (failedSends dead (algoC.filter (!refused ·))).length = 1 ∧
    2 ≤ (failedSends dead (algoO.filter (!refused ·))).length

/-- The same arm met on the COMMAND path: exactly one cancel and two or more opens of a
`ClosePositionsStrategy` failed unrecoverably (`ActionOutput::ClosePositions(r) =>
r.unrecoverable_errors()`, action/mod.rs:44, is `cancels.extend(opens)`, send_requests.rs:140-144). -/
def CloseBoundary (dead : Nat → Bool) (cancels opens : List Req) : Prop :=
  (failedSends dead cancels).length = 1 ∧ 2 ≤ (failedSends dead opens).length

/-- The exact condition under which the errors of one `Engine::process` audit are NOT in request
order: the stage that failed has exactly one cancel-side failure `k` and two or more open-side
failures that are not all `k`. -/
def AuditReorders (dead : Nat → Bool) (enabled : Bool) (ev : EngEv) (algoC algoO : List Req) : Prop :=
  Spec.reorders (specErrorParts dead enabled ev algoC algoO).1
    (specErrorParts dead enabled ev algoC algoO).2 = true

instance (dead : Nat → Bool) (enabled : Bool) (ev : EngEv) (algoC algoO : List Req) :
    Decidable (AuditReorders dead enabled ev algoC algoO) := by unfold AuditReorders; infer_instance

/-- `Spec.reorders` spelled out. -/
theorem reorders_iff {α : Type} [BEq α] [LawfulBEq α] (c o : List α) :
    Spec.reorders c o = true ↔ ∃ k, c = [k] ∧ 2 ≤ o.length ∧ ∃ y ∈ o, y ≠ k := by
  unfold Spec.reorders
  match c with
  | [] => simp
  | [k] => simp
  | _ :: _ :: _ => simp

/-- **One `Engine::process`, in closed form** — any link table (`dead`), trading state, any of the TEN
events of `EngEv` (Shutdown; the four commands SendCancelRequests / SendOpenRequests / CancelOrders /
ClosePositions; trading on / off; an account balance item; the two reconnecting notices), any strategy
output: the audit is a canonical `Process` record of the event, its outputs are the first stage's
output (if any) followed by the AlgoOrders output whenever generation ran and the strategy generated
anything (sent, failed or refused - nothing generated is dropped), and its error collection is
**exactly** `from_iter(cancel-side failures).extend(open-side failures)` of the stage that failed
(`specErrorParts`: the command's own sends; otherwise, if generation ran, the approved algo requests).
Value and representation are determined; everything below is a corollary of this and of
`nom_extend_order_iff`. -/
theorem engine_audit_closed_form (dead : Nat → Bool) (enabled : Bool) (ev : EngEv) (algoC algoO : List Req) :
    ∃ p, engineAudit dead enabled ev algoC algoO = .process p ∧ p.event = ev ∧ p.WF ∧
      p.outputs.asRef = specEngineOutputs dead enabled ev algoC algoO ∧
      p.errors = (NOM.fromIter (specErrorParts dead enabled ev algoC algoO).1).extend
        (specErrorParts dead enabled ev algoC algoO).2 :=
  engineAudit_closed_form dead enabled ev algoC algoO

/-- One `Engine::process` over the ten-event alphabet: the audit is a canonical `Process` record of the
event; its outputs are `specEngineOutputs`; its errors are a permutation of the unrecoverable send
failures of the stage that failed; they are in request order (cancel side, then open side) **iff** not
`AuditReorders`, and otherwise they are the open side followed by the single cancel-side failure; the
record is terminal iff the event is `Shutdown` or there is such a failure. -/
theorem engine_audit_errors (dead : Nat → Bool) (enabled : Bool) (ev : EngEv) (algoC algoO : List Req) :
    ∃ p, engineAudit dead enabled ev algoC algoO = .process p ∧ p.event = ev ∧ p.WF ∧
      p.outputs.asRef = specEngineOutputs dead enabled ev algoC algoO ∧
      p.errors.asRef.Perm (specEngineErrors dead enabled ev algoC algoO) ∧
      (p.errors.asRef = specEngineErrors dead enabled ev algoC algoO ↔
        ¬ AuditReorders dead enabled ev algoC algoO) ∧
      (AuditReorders dead enabled ev algoC algoO →
        p.errors.asRef = (specErrorParts dead enabled ev algoC algoO).2 ++
          (specErrorParts dead enabled ev algoC algoO).1) ∧
      (p.isTerminal EngEv.terminal = true ↔
        ev.terminal = true ∨ specEngineErrors dead enabled ev algoC algoO ≠ []) := by
  obtain ⟨p, hp, hev, hwf, hout, herr⟩ := engineAudit_closed_form dead enabled ev algoC algoO
  have hperm : p.errors.asRef.Perm (specEngineErrors dead enabled ev algoC algoO) := by
    rw [herr]
    have := NOM.extend_perm (NOM.fromIter (specErrorParts dead enabled ev algoC algoO).1)
      (specErrorParts dead enabled ev algoC algoO).2
    rwa [NOM.fromIter_asRef] at this
  refine ⟨p, hp, hev, hwf, hout, hperm, ?_, ?_, ?_⟩
  · unfold AuditReorders specEngineErrors
    rw [herr, Bool.not_eq_true, reorders_eq_false_iff]
    have := NOM.extend_asRef_eq_append_iff (NOM.fromIter (specErrorParts dead enabled ev algoC algoO).1)
      (specErrorParts dead enabled ev algoC algoO).2
    rwa [NOM.fromIter_asRef] at this
  · intro h; rw [herr]; exact extend_of_reorders _ _ h
  · rw [ProcessAudit.isTerminal_iff hwf.2, hev]
    have : p.errors.asRef ≠ [] ↔ specEngineErrors dead enabled ev algoC algoO ≠ [] := by
      constructor
      · intro h hn; rw [hn] at hperm; exact h (List.perm_nil.mp hperm)
      · intro h hn; rw [hn] at hperm; exact h (List.perm_nil.mp hperm.symm)
    rw [this]

/-- `AuditReorders` in terms of the inputs: either a `ClosePositions` command failed with the reversing
shape on its own sends (then the algo requests play no role), or no command send failed, the event is
not `Shutdown`, trading is enabled after the event (generation ran), and the approved algo requests
have the reversing shape. In particular `CloseBoundary` resp. `AlgoBoundary` is necessary, and so is
"the open errors are not all equal to the cancel error". -/
theorem audit_reorders_iff (dead : Nat → Bool) (enabled : Bool) (ev : EngEv) (algoC algoO : List Req) :
    AuditReorders dead enabled ev algoC algoO ↔
      (∃ c o, ev = .cmdClose c o ∧ Spec.reorders (failedSends dead c) (failedSends dead o) = true) ∨
      (cmdFailed dead ev = false ∧ ev.terminal = false ∧ enabledAfter enabled ev = true ∧
        Spec.reorders (failedSends dead (algoC.filter (!refused ·)))
          (failedSends dead (algoO.filter (!refused ·))) = true) := by
  unfold AuditReorders specErrorParts
  cases hf : cmdFailed dead ev with
  | true =>
    simp only [if_true, Bool.true_eq_false, false_and, or_false]
    cases ev with
    | cmdClose c o =>
      simp only [cmdErrorParts, EngEv.cmdClose.injEq]
      exact ⟨fun h => ⟨c, o, ⟨rfl, rfl⟩, h⟩, fun ⟨_, _, ⟨h1, h2⟩, h⟩ => h1 ▸ h2 ▸ h⟩
    | cmdCancel r => simp [cmdErrorParts, Spec.reorders]; cases failedSends dead r with
      | nil => simp
      | cons x xs => cases xs <;> simp
    | cmdCancelOrders r => simp [cmdErrorParts, Spec.reorders]; cases failedSends dead r with
      | nil => simp
      | cons x xs => cases xs <;> simp
    | cmdOpen r => simp [cmdErrorParts, Spec.reorders]
    | _ => simp [cmdErrorParts, Spec.reorders]
  | false =>
    have hno : ¬ ∃ c o, ev = EngEv.cmdClose c o ∧
        Spec.reorders (failedSends dead c) (failedSends dead o) = true := by
      rintro ⟨c, o, rfl, h⟩
      simp only [cmdFailed, cmdErrorParts, Bool.not_eq_false', List.isEmpty_iff,
        List.append_eq_nil_iff] at hf
      rw [hf.1] at h; simp [Spec.reorders] at h
    simp only [Bool.false_eq_true, if_false, hno, false_or, true_and]
    cases enabledAfter enabled ev <;> cases ev.terminal <;> simp [Spec.reorders]

/-- `Spec.reorders` needs the boundary shape: one item on the cancel side, two or more on the open side. -/
theorem reorders_shape {α : Type} [BEq α] [LawfulBEq α] {c o : List α} (h : Spec.reorders c o = true) :
    c.length = 1 ∧ 2 ≤ o.length := by
  obtain ⟨k, rfl, hl, _⟩ := (reorders_iff c o).mp h
  exact ⟨rfl, hl⟩

/-- The previous formulation (kept): for every event other than `ClosePositions`, outside
`AlgoBoundary` the audit's errors are in request order. (For `ClosePositions` this is false:
`close_positions_reorders_outside_algo_boundary`.) -/
theorem engine_audit_errors_of_not_algo_boundary (dead : Nat → Bool) (enabled : Bool) (ev : EngEv)
    (algoC algoO : List Req) (hev : ∀ c o, ev ≠ .cmdClose c o) (hb : ¬ AlgoBoundary dead algoC algoO) :
    ∃ p, engineAudit dead enabled ev algoC algoO = .process p ∧
      p.errors.asRef = specEngineErrors dead enabled ev algoC algoO := by
  obtain ⟨p, hp, _, _, _, _, hiff, _, _⟩ := engine_audit_errors dead enabled ev algoC algoO
  refine ⟨p, hp, hiff.mpr ?_⟩
  rw [audit_reorders_iff]
  rintro (⟨c, o, rfl, _⟩ | ⟨_, _, _, h⟩)
  · exact hev c o rfl
  · exact hb (reorders_shape h)

/-- … and generation not having run is enough, whatever the algo requests look like (the spec driver
prints `errors` in these cases): trading disabled after the event, `Shutdown`, or a command whose own
sends failed - unless that command is a `ClosePositions` with the reversing shape. -/
theorem engine_audit_errors_of_no_generation (dead : Nat → Bool) (enabled : Bool) (ev : EngEv)
    (algoC algoO : List Req) (hev : ∀ c o, ev ≠ .cmdClose c o)
    (hg : enabledAfter enabled ev = false ∨ ev.terminal = true ∨ cmdFailed dead ev = true) :
    ∃ p, engineAudit dead enabled ev algoC algoO = .process p ∧
      p.errors.asRef = specEngineErrors dead enabled ev algoC algoO := by
  obtain ⟨p, hp, _, _, _, _, hiff, _, _⟩ := engine_audit_errors dead enabled ev algoC algoO
  refine ⟨p, hp, hiff.mpr ?_⟩
  rw [audit_reorders_iff]
  rintro (⟨c, o, rfl, _⟩ | ⟨h1, h2, h3, _⟩)
  · exact hev c o rfl
  · rcases hg with h | h | h
    · rw [h3] at h; cases h
    · rw [h2] at h; cases h
    · rw [h1] at h; cases h

/-- **The command path of `Command::ClosePositions`**, for any trading state and any algo requests:
if one of its own sends fails unrecoverably, the audit is the fatal record - output `Commanded` only
(generation does not run), terminal - and its errors are exactly
`from_iter(failed cancels).extend(failed opens)`: cancels first, then opens, **iff** it is not the
case that exactly one cancel failed (error `k`) and two or more opens failed with errors not all `k`;
in that case they are the opens' errors followed by the cancel's. If none of its sends fails the
record carries the errors of the generation stage instead (covered by `engine_audit_errors`). -/
theorem close_positions_command_order (dead : Nat → Bool) (enabled : Bool) (cancels opens algoC algoO : List Req)
    (hfail : failedSends dead cancels ++ failedSends dead opens ≠ []) :
    ∃ p, engineAudit dead enabled (.cmdClose cancels opens) algoC algoO = .process p ∧
      p.outputs.asRef = [Out.cmd] ∧
      p.errors = (NOM.fromIter (failedSends dead cancels)).extend (failedSends dead opens) ∧
      (p.errors.asRef = failedSends dead cancels ++ failedSends dead opens ↔
        Spec.reorders (failedSends dead cancels) (failedSends dead opens) = false) ∧
      (Spec.reorders (failedSends dead cancels) (failedSends dead opens) = true →
        p.errors.asRef = failedSends dead opens ++ failedSends dead cancels) ∧
      p.isTerminal EngEv.terminal = true := by
  obtain ⟨p, hp, _, hwf, hout, herr⟩ :=
    engineAudit_closed_form dead enabled (.cmdClose cancels opens) algoC algoO
  have hcf : cmdFailed dead (.cmdClose cancels opens) = true := by
    simp only [cmdFailed, cmdErrorParts, Bool.not_eq_true', List.isEmpty_eq_false_iff]
    exact hfail
  have hparts : specErrorParts dead enabled (.cmdClose cancels opens) algoC algoO =
      (failedSends dead cancels, failedSends dead opens) := by
    unfold specErrorParts; rw [hcf]; rfl
  rw [hparts] at herr
  refine ⟨p, hp, ?_, herr, ?_, ?_, ?_⟩
  · rw [hout, specEngineOutputs]; simp [hcf, firstOutputs]
  · rw [herr, reorders_eq_false_iff]
    have := NOM.extend_asRef_eq_append_iff (NOM.fromIter (failedSends dead cancels)) (failedSends dead opens)
    rwa [NOM.fromIter_asRef] at this
  · intro h; rw [herr]; exact extend_of_reorders _ _ h
  · rw [ProcessAudit.isTerminal_iff hwf.2]
    right
    intro hn
    have hperm := NOM.extend_perm (NOM.fromIter (failedSends dead cancels)) (failedSends dead opens)
    rw [← herr, hn, NOM.fromIter_asRef] at hperm
    exact hfail (List.perm_nil.mp hperm.symm)

/-- Witness at the point `engine_audit_errors_of_not_algo_boundary` excludes: exchanges 1 and 2 dead,
`ClosePositions` whose strategy returns one cancel (exchange 1) and two opens (exchange 2), NO algo
request at all (so `AlgoBoundary` is false): the audit lists `[open, open, cancel]`. -/
theorem close_positions_reorders_outside_algo_boundary :
    let dead : Nat → Bool := fun e => e == 1 || e == 2
    (match engineAudit dead true (.cmdClose [(1, 1)] [(2, 2), (2, 3)]) [] [] with
      | .process p => p.errors.asRef | .feedEnded => []) = [2, 2, 1] ∧
    specEngineErrors dead true (.cmdClose [(1, 1)] [(2, 2), (2, 3)]) [] [] = [1, 2, 2] ∧
    ¬ AlgoBoundary dead [] [] ∧ CloseBoundary dead [(1, 1)] [(2, 2), (2, 3)] ∧
    AuditReorders dead true (.cmdClose [(1, 1)] [(2, 2), (2, 3)]) [] [] := by
  refine ⟨by decide, by decide, ?_, ?_, by decide⟩
  · simp [AlgoBoundary, failedSends]
  · simp [CloseBoundary, failedSends]

/-- … and `AlgoBoundary` alone does not reorder: with trading disabled generation does not run, and
with three identical errors there is nothing to reorder. -/
theorem algo_boundary_is_not_sufficient :
    let dead : Nat → Bool := fun e => e == 1 || e == 2
    (AlgoBoundary dead [(1, 1)] [(2, 2), (2, 3)] ∧
      ¬ AuditReorders dead false .mkt [(1, 1)] [(2, 2), (2, 3)]) ∧
    (AlgoBoundary dead [(1, 1)] [(1, 2), (1, 3)] ∧
      ¬ AuditReorders dead true .mkt [(1, 1)] [(1, 2), (1, 3)]) := by
  refine ⟨⟨?_, by decide⟩, ⟨?_, by decide⟩⟩ <;> simp [AlgoBoundary, failedSends, refused]

/-! ## Non-vacuity and the reported facts on concrete values -/

-- the reversing arm, on the smallest input
example : ((NOM.one 1).extend [2, 3] : NOM Int) = .many [2, 3, 1] := rfl
example : ((NOM.many [0, 1]).extend [2, 3] : NOM Int) = .many [0, 1, 2, 3] := rfl
example : ((NOM.one 1).extend [2] : NOM Int) = .many [1, 2] := rfl
-- `KeepsOrderN` is satisfiable by a history with extends, and violated by the reversing one
example : KeepsOrderN (.none : NOM Int) [.vec [1, 2], .ext [3, 4], .map 1, .ext [], .ext [7]] := by
  simp [KeepsOrderN, NOp.keepsOrder, NOp.apply, NOM.fromVec, NOM.extend, NOM.fromIter, NOM.map]
example : ¬ KeepsOrderN (.none : NOM Int) [.opt (some 1), .ext [2, 3]] := by
  simp [KeepsOrderN, NOp.keepsOrder, NOp.apply, NOM.fromOption]
example : (runN .none [.opt (some 1), .ext [2, 3]]).asRef = [2, 3, 1] ∧
    runNSpec [] [.opt (some 1), .ext [2, 3]] = [1, 2, 3] := by decide
-- OneOrMany leaves its own domain
example : (OOM.fromIter ([] : List Int)).len = 0 := rfl
example : ((OOM.one 1).extend [] : OOM Int) = .many [1] := rfl
-- audit: the engine-level witness (exchange 1 and 2 dead): one failed algo cancel, two failed algo opens
example : (match engineAudit (fun e => e == 1 || e == 2) true .mkt [(1, 1)] [(2, 2), (2, 3)] with
    | .process p => p.errors.asRef | .feedEnded => []) = [2, 2, 1] := by decide
example : specEngineErrors (fun e => e == 1 || e == 2) true .mkt [(1, 1)] [(2, 2), (2, 3)] = [1, 2, 2] := by
  decide
-- since /repo a7785e6 the AlgoOrders output stays in the audit next to the errors
example : (match engineAudit (fun e => e == 1 || e == 2) true .mktRe [(1, 1)] [(2, 2), (2, 3)] with
    | .process p => p.outputs | .feedEnded => .none) = .many [.md 0, .algo] := by decide
example : specEngineOutputs (fun e => e == 1 || e == 2) true .mktRe [(1, 1)] [(2, 2), (2, 3)] = [.md 0, .algo] := by
  decide
example : AlgoBoundary (fun e => e == 1 || e == 2) [(1, 1)] [(2, 2), (2, 3)] := by
  simp [AlgoBoundary, failedSends, refused]
example : ¬ AlgoBoundary (fun e => e == 1 || e == 2) [(1, 1), (2, 5)] [(2, 2), (0, 3)] := by
  simp [AlgoBoundary, failedSends, refused]
-- the two commands added to the alphabet: ClosePositions reorders on the command path, CancelOrders never does
example : (match engineAudit (fun e => e == 1 || e == 2) false (.cmdClose [(1, 1)] [(2, 2), (2, 3)]) [] [] with
    | .process p => p.errors | .feedEnded => .none) = .many [2, 2, 1] := by decide
example : (match engineAudit (fun e => e == 1 || e == 2) true (.cmdClose [(1, 1)] [(1, 2), (1, 3)]) [] [] with
    | .process p => p.errors | .feedEnded => .none) = .many [1, 1, 1] := by decide
example : (match engineAudit (fun e => e == 1 || e == 2) true (.cmdCancelOrders [(0, 1), (1, 2), (2, 3), (2, 4)]) [] [] with
    | .process p => p.errors | .feedEnded => .none) = .many [1, 2, 2] := by decide
-- a ClosePositions whose sends all succeed lets the generation stage run
example : (match engineAudit (fun e => e == 1 || e == 2) true (.cmdClose [(0, 1)] [(0, 2)]) [(1, 4)] [(2, 5), (2, 6)] with
    | .process p => (p.outputs, p.errors) | .feedEnded => (.none, .none)) = (.many [.cmd, .algo], .many [2, 2, 1]) := by
  decide
example : Spec.reorders [1] [2, 2] = true ∧ Spec.reorders [1] [1, 1] = false ∧ Spec.reorders [1] [2] = false ∧
    Spec.reorders [1, 1] [2, 2] = false ∧ Spec.reorders ([] : List Nat) [2, 2] = false := by decide
-- the hypothesis of `close_positions_command_order` and of `audit_terminal_iff`
example : failedSends (fun e => e == 1 || e == 2) [(1, 1)] ++ failedSends (fun e => e == 1 || e == 2) [(2, 2), (2, 3)] ≠ [] := by
  decide
example : (NOM.many [7] : NOM Int) ≠ .many [] := by decide
-- derived Ord on canonical values: the length class first
example : Spec.cmpSeq [9] [1, 2] = .lt ∧ Spec.cmpSeq [1, 2] [1, 1, 9] = .gt ∧ Spec.cmpSeq [] [0] = .lt := by decide
-- the relation the audit refinement starts from holds for a fresh record
example : AuditRel (ProcessAudit.withEvent false) (false, ⟨[], []⟩) :=
  ⟨rfl, rfl, List.Perm.refl _, trivial, trivial⟩

end BarterModel.Props.C03N
