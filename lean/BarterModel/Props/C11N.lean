import BarterModel.Lemmas.Names
import BarterModel.Props.C11
/-!
# C11N (sub-check of C11) — instrument / asset / exchange names and keys, and the lookup API of
`IndexedInstruments`

Statements only (helpers in `Lemmas/Names.lean`, the builder and its lemmas are those of C11).
Strings are `List Char`; `lowerStr` is the model of `to_lowercase_smolstr` (exact on ASCII; the
non-ASCII rows of its table are an assumption probed by the correspondence); `IsAscii s` restricts a
statement to ASCII where the documentation ("lowercase") is unambiguous. `build defs = some ii`
ranges over every `IndexedInstruments` the builder model can produce (C11 `build_total`: it always
produces one), `buildS` is the same builder on string-named definitions through the name code.
-/
namespace BarterModel.Props.C11N
open BarterModel.Names BarterModel.Index

/-! ## A. the name constructors -/

/-- The `if all chars lowercase` shortcut is unobservable: an internal name is the lower-cased input. -/
theorem internal_name_is_lowercased (s : Str) :
    (AssetNameInternal.new s).name = lowerStr s ∧ (InstrumentNameInternal.new s).name = lowerStr s :=
  ⟨nameNew_eq_lowerStr s, nameNew_eq_lowerStr s⟩

/-- Constructors are idempotent (all strings, including the modelled non-ASCII blocks). -/
theorem asset_name_new_idempotent (s : Str) :
    AssetNameInternal.new (AssetNameInternal.new s).name = AssetNameInternal.new s := by
  simp [AssetNameInternal.new, nameNew_idem]

theorem instrument_name_new_idempotent (s : Str) :
    InstrumentNameInternal.new (InstrumentNameInternal.new s).name = InstrumentNameInternal.new s := by
  simp [InstrumentNameInternal.new, nameNew_idem]

/-- Refinement to the documented reading on ASCII: every capital Latin letter replaced by its small
letter, nothing else touched, length kept. -/
theorem internal_name_refines_spec (s : Str) (h : IsAscii s) :
    (AssetNameInternal.new s).name = specLower s ∧ (InstrumentNameInternal.new s).name = specLower s ∧
      (specLower s).length = s.length := by
  have : nameNew s = specLower s := by
    rw [nameNew_eq_lowerStr, lowerStr_ascii s h, specLower_eq]
  exact ⟨this, this, by simp [specLower]⟩

/-- Two ASCII inputs give the same internal name iff they are equal up to the case of Latin letters. -/
theorem internal_name_eq_iff_caseEq (s t : Str) (hs : IsAscii s) (ht : IsAscii t) :
    (AssetNameInternal.new s = AssetNameInternal.new t ↔ caseEq s t = true) ∧
    (InstrumentNameInternal.new s = InstrumentNameInternal.new t ↔ caseEq s t = true) := by
  have : nameNew s = nameNew t ↔ caseEq s t = true := by
    rw [nameNew_eq_lowerStr, nameNew_eq_lowerStr, lowerStr_ascii s hs, lowerStr_ascii t ht, caseEq_iff]
  constructor
  · rw [← this]; simp [AssetNameInternal.new]
  · rw [← this]; simp [InstrumentNameInternal.new]

/-- Exchange names are kept verbatim: case matters. -/
theorem exchange_names_verbatim (s t : Str) :
    (AssetNameExchange.new s).name = s ∧ (InstrumentNameExchange.new s).name = s ∧
    (AssetNameExchange.new s = AssetNameExchange.new t ↔ s = t) ∧
    (InstrumentNameExchange.new s = InstrumentNameExchange.new t ↔ s = t) := by
  simp [AssetNameExchange.new, InstrumentNameExchange.new]

/-- `Display` and `Serialize` show the name; deserialising what was serialised gives the value back
exactly for values that came out of a constructor … -/
theorem serde_display_round_trip (s : Str) :
    (AssetNameInternal.new s).display = (AssetNameInternal.new s).name ∧
    AssetNameInternal.de (AssetNameInternal.new s).ser = AssetNameInternal.new s ∧
    AssetNameInternal.de (AssetNameInternal.new s).display = AssetNameInternal.new s ∧
    InstrumentNameInternal.de (InstrumentNameInternal.new s).ser = InstrumentNameInternal.new s ∧
    AssetNameExchange.de (AssetNameExchange.new s).ser = AssetNameExchange.new s ∧
    InstrumentNameExchange.de (InstrumentNameExchange.new s).ser = InstrumentNameExchange.new s := by
  refine ⟨rfl, ?_, ?_, ?_, rfl, rfl⟩ <;>
    simp [AssetNameInternal.de, AssetNameInternal.ser, AssetNameInternal.display, AssetNameInternal.new,
      InstrumentNameInternal.de, InstrumentNameInternal.ser, InstrumentNameInternal.new, nameNew_idem]

/-- … and for an arbitrary value (the field of `InstrumentNameInternal` is `pub`, so a value need not
be lower-case) exactly when its name is already lower-case. -/
theorem serde_round_trip_iff (x : InstrumentNameInternal) :
    InstrumentNameInternal.de x.ser = x ↔ lowerStr x.name = x.name := by
  obtain ⟨n⟩ := x
  simp [InstrumentNameInternal.de, InstrumentNameInternal.ser, InstrumentNameInternal.new,
    nameNew_eq_lowerStr]

/-- `Asset::new_from_exchange` = `Asset::new` with the exchange name in both places. -/
theorem asset_new_from_exchange (e : Str) :
    Asset.newFromExchange e = Asset.new e e ∧ (Asset.newFromExchange e).nameInternal.name = lowerStr e ∧
      (Asset.newFromExchange e).nameExchange.name = e :=
  ⟨rfl, nameNew_eq_lowerStr e, rfl⟩

/-! ## B. the `ExchangeId` table (42 variants; `decide` over the whole enum) -/

theorem exchange_all_complete (e : ExchangeId) : e ∈ ExchangeId.all := mem_all e

theorem exchange_all_length : ExchangeId.all.length = 42 ∧ ExchangeId.all.Nodup := by decide

/-- Declaration position ↔ variant: a bijection onto `0..41`. -/
theorem exchange_toNat_bijective :
    (∀ e : ExchangeId, ExchangeId.ofNat? e.toNat = some e ∧ e.toNat < 42) ∧
    (∀ a b : ExchangeId, a.toNat = b.toNat → a = b) ∧
    (∀ n e, ExchangeId.ofNat? n = some e → e.toNat = n) := by
  refine ⟨fun e => ⟨ofNat?_toNat e, toNat_lt e⟩, fun a b => toNat_inj, ?_⟩
  have : ∀ n, n < 42 → ∀ e, ExchangeId.ofNat? n = some e → e.toNat = n := by decide
  intro n e h
  by_cases hn : n < 42
  · exact this n hn e h
  · simp only [ExchangeId.ofNat?] at h
    have hlen : ExchangeId.all.length = 42 := by decide
    rw [List.getElem?_eq_none (by omega)] at h
    cases h

theorem as_str_injective (a b : ExchangeId) (h : a.asStr = b.asStr) : a = b := by
  have : ∀ a ∈ ExchangeId.all, ∀ b ∈ ExchangeId.all, a.asStr = b.asStr → a = b := by decide +kernel
  exact this a (mem_all a) b (mem_all b) h

/-- serde's snake_case rename of the variant identifier, `as_str`, and the documented reading
(words of the identifier, lower-cased, joined by `_`) are one table. -/
theorem ser_as_str_spec_agree (e : ExchangeId) :
    e.ser = e.asStr ∧ e.asStr = specExchangeName e := by
  have : ∀ e ∈ ExchangeId.all, e.ser = e.asStr ∧ e.asStr = specExchangeName e := by decide +kernel
  exact this e (mem_all e)

/-- `Display` is the variant identifier: never equal to `as_str`; lower-cased it is `as_str` with
the underscores removed. -/
theorem display_is_not_as_str (e : ExchangeId) :
    e.display = e.variantName ∧ e.display ≠ e.asStr ∧
      lowerStr e.display = e.asStr.filter (· != '_') := by
  have : ∀ e ∈ ExchangeId.all, e.display ≠ e.asStr ∧
      lowerStr e.display = e.asStr.filter (· != '_') := by decide +kernel
  exact ⟨rfl, this e (mem_all e)⟩

theorem de_ser (e : ExchangeId) : ExchangeId.de e.ser = some e := by
  have : ∀ e ∈ ExchangeId.all, ExchangeId.de e.ser = some e := by decide +kernel
  exact this e (mem_all e)

/-- What deserialises to a variant: its `as_str`, and for `Htx` also the alias `huobi`. -/
theorem de_some_iff (s : Str) (e : ExchangeId) :
    ExchangeId.de s = some e ↔ s = e.asStr ∨ (s = "huobi".toList ∧ e = .htx) := by
  constructor
  · intro h
    unfold ExchangeId.de at h
    split at h
    · rename_i e' he'
      cases h
      have := List.find?_some he'
      simp only [decide_eq_true_eq] at this
      exact Or.inl (by rw [← this, (ser_as_str_spec_agree e).1])
    · split at h
      · cases h; exact Or.inr ⟨‹_›, rfl⟩
      · cases h
  · rintro (rfl | ⟨rfl, rfl⟩)
    · rw [← (ser_as_str_spec_agree e).1]; exact de_ser e
    · decide +kernel

/-- `as_str` is lower-case snake: a fixed point of the name constructor, and free of `-`. -/
theorem as_str_is_lowercase (e : ExchangeId) :
    lowerStr e.asStr = e.asStr ∧ '-' ∉ e.asStr ∧ IsAscii e.asStr := by
  have : ∀ e ∈ ExchangeId.all, lowerStr e.asStr = e.asStr ∧ '-' ∉ e.asStr ∧ IsAscii e.asStr := by
    decide +kernel
  exact this e (mem_all e)

/-! ## C. instrument names built from an exchange -/

theorem lowcs_dash : lowcs '-' = ['-'] := by decide
theorem lowcs_underscore : lowcs '_' = ['_'] := by decide

/-- `new_from_exchange`, for every input: `as_str`, a dash, the lower-cased exchange name. -/
theorem new_from_exchange_eq (e : ExchangeId) (s : Str) :
    (InstrumentNameInternal.newFromExchange e s).name = e.asStr ++ '-' :: lowerStr s := by
  simp only [InstrumentNameInternal.newFromExchange, InstrumentNameInternal.new,
    InstrumentNameExchange.new, InstrumentNameExchange.display, nameNew_eq_lowerStr, lowerStr_append,
    lowerStr_cons, (as_str_is_lowercase e).1, lowcs_dash]
  rfl

theorem new_from_exchange_refines_spec (e : ExchangeId) (s : Str) (h : IsAscii s) :
    (InstrumentNameInternal.newFromExchange e s).name = specExchangeName e ++ '-' :: specLower s := by
  rw [new_from_exchange_eq, lowerStr_ascii s h, specLower_eq, (ser_as_str_spec_agree e).2]

theorem append_dash_inj : ∀ (a b x y : Str), '-' ∉ a → '-' ∉ b → a ++ '-' :: x = b ++ '-' :: y →
    a = b ∧ x = y
  | [], [], x, y, _, _, h => by simpa using h
  | [], c :: b, x, y, _, hb, h => by
    simp at h; exact absurd (List.mem_cons.mpr (Or.inl h.1)) hb
  | c :: a, [], x, y, ha, _, h => by
    simp at h; exact absurd (List.mem_cons.mpr (Or.inl h.1.symm)) ha
  | c :: a, d :: b, x, y, ha, hb, h => by
    simp only [List.cons_append, List.cons.injEq] at h
    have := append_dash_inj a b x y (fun e => ha (by simp [e])) (fun e => hb (by simp [e])) h.2
    exact ⟨by rw [h.1, this.1], this.2⟩

/-- "Unique across exchanges": the name determines the exchange, and the exchange's instrument
name up to case. -/
theorem new_from_exchange_unique (e₁ e₂ : ExchangeId) (s₁ s₂ : Str) :
    InstrumentNameInternal.newFromExchange e₁ s₁ = InstrumentNameInternal.newFromExchange e₂ s₂ ↔
      e₁ = e₂ ∧ lowerStr s₁ = lowerStr s₂ := by
  constructor
  · intro h
    have h' := congrArg InstrumentNameInternal.name h
    rw [new_from_exchange_eq, new_from_exchange_eq] at h'
    have := append_dash_inj _ _ _ _ (as_str_is_lowercase e₁).2.1 (as_str_is_lowercase e₂).2.1 h'
    exact ⟨as_str_injective _ _ this.1, this.2⟩
  · rintro ⟨rfl, h⟩
    have : (InstrumentNameInternal.newFromExchange e₁ s₁).name =
        (InstrumentNameInternal.newFromExchange e₁ s₂).name := by
      rw [new_from_exchange_eq, new_from_exchange_eq, h]
    cases h1 : InstrumentNameInternal.newFromExchange e₁ s₁
    cases h2 : InstrumentNameInternal.newFromExchange e₁ s₂
    simp_all

/-- `new_from_exchange_underlying` formats the exchange with **`Display`**: the lower-cased variant
identifier (no underscores), a dash, base, an underscore, quote. -/
theorem new_from_exchange_underlying_eq (e : ExchangeId) (b q : Str) :
    (InstrumentNameInternal.newFromExchangeUnderlying e b q).name =
      lowerStr e.variantName ++ '-' :: lowerStr b ++ '_' :: lowerStr q := by
  simp only [InstrumentNameInternal.newFromExchangeUnderlying, InstrumentNameInternal.new,
    AssetNameExchange.new, AssetNameExchange.display, ExchangeId.display, nameNew_eq_lowerStr,
    lowerStr_append, lowerStr_cons, lowcs_dash, lowcs_underscore]
  simp

/-- The two "from exchange" constructors name the same instrument differently exactly for the
exchanges whose `as_str` contains an underscore (26 of the 42). -/
theorem underlying_agrees_iff (e : ExchangeId) :
    (∀ b q : Str, InstrumentNameInternal.newFromExchangeUnderlying e b q =
        InstrumentNameInternal.newFromExchange e (b ++ '_' :: q)) ↔ '_' ∉ e.asStr := by
  have key : ∀ e ∈ ExchangeId.all, (lowerStr e.variantName = e.asStr ↔ '_' ∉ e.asStr) := by
    decide +kernel
  rw [← key e (mem_all e)]
  have ext : ∀ x y : InstrumentNameInternal, x = y ↔ x.name = y.name := by
    intro x y; cases x; cases y; simp
  have hname : ∀ b q : Str, (InstrumentNameInternal.newFromExchangeUnderlying e b q =
      InstrumentNameInternal.newFromExchange e (b ++ '_' :: q)) ↔
      lowerStr e.variantName ++ '-' :: lowerStr b ++ '_' :: lowerStr q =
        e.asStr ++ '-' :: lowerStr b ++ '_' :: lowerStr q := by
    intro b q
    rw [ext, new_from_exchange_underlying_eq, new_from_exchange_eq, lowerStr_append, lowerStr_cons,
      lowcs_underscore]
    simp
  constructor
  · intro h
    have := (hname [] []).mp (h [] [])
    exact List.append_cancel_right (List.append_cancel_right this)
  · intro h b q
    rw [hname, h]

/-- Concrete instance (the system configuration uses `new_from_exchange_underlying`, the test
utilities and doc examples `new_from_exchange`). -/
theorem underlying_differs_binance_spot :
    (InstrumentNameInternal.newFromExchangeUnderlying .binanceSpot "btc".toList "usdt".toList).name =
      "binancespot-btc_usdt".toList ∧
    (InstrumentNameInternal.newFromExchange .binanceSpot "btc_usdt".toList).name =
      "binance_spot-btc_usdt".toList := by decide +kernel

/-- `new_from_exchange_underlying` does not determine (base, quote): the separator may occur in
an asset name. -/
theorem underlying_collision (e : ExchangeId) :
    InstrumentNameInternal.newFromExchangeUnderlying e "a_b".toList "c".toList =
      InstrumentNameInternal.newFromExchangeUnderlying e "a".toList "b_c".toList := by
  have h1 := new_from_exchange_underlying_eq e "a_b".toList "c".toList
  have h2 := new_from_exchange_underlying_eq e "a".toList "b_c".toList
  have e1 : lowerStr "a_b".toList = "a_b".toList := by decide
  have e2 : lowerStr "c".toList = "c".toList := by decide
  have e3 : lowerStr "a".toList = "a".toList := by decide
  have e4 : lowerStr "b_c".toList = "b_c".toList := by decide
  rw [e1, e2] at h1
  rw [e3, e4] at h2
  cases h3 : InstrumentNameInternal.newFromExchangeUnderlying e "a_b".toList "c".toList
  cases h4 : InstrumentNameInternal.newFromExchangeUnderlying e "a".toList "b_c".toList
  simp_all

/-! ## D. the name code (strings → the naturals of the C11 model) -/

/-- Injective and strictly monotone on names of at most `L` = 48 characters, with `decode` as left
inverse: the C11 builder, run on codes, sorts and compares names exactly as Rust's `str` does. -/
theorem name_code_faithful (s t : Str) (hs : s.length ≤ L) (ht : t.length ≤ L) :
    (code s = code t ↔ s = t) ∧ (code s < code t ↔ s < t) ∧ decode (code s) = s :=
  ⟨⟨code_inj s t hs ht, fun h => h ▸ rfl⟩, code_lt_iff s t hs ht, decode_code s hs⟩

/-! ## E. the lookup API, for every index the builder can produce -/

theorem find_exchange_index_ok_iff {defs : List Def} {ii : Indexed} (h : build defs = some ii)
    (e i : Nat) : findExchangeIndex ii e = .ok i ↔ (exchanges ii)[i]? = some ⟨i, e⟩ := by
  obtain ⟨h1, _⟩ := build_some defs ii h
  rw [findExchangeIndex, okOr_ok_iff, Indexed.findExchangeIndex, exchanges, h1,
    findExchange_iff _ (nodup_sortedExchanges defs), getElem?_enumerate_eq]
  simp

theorem find_exchange_index_error_iff {defs : List Def} {ii : Indexed} (h : build defs = some ii)
    (e : Nat) (x : IndexError) :
    findExchangeIndex ii e = .error x ↔ x = .exchangeIndex ∧ ∀ d ∈ defs, d.exchange ≠ e := by
  obtain ⟨h1, _⟩ := build_some defs ii h
  rw [findExchangeIndex, okOr_error_iff, Indexed.findExchangeIndex, h1, findExchange_enumerate,
    List.findIdx?_eq_none_iff]
  simp only [decide_eq_false_iff_not, mem_sortedExchanges]
  constructor
  · rintro ⟨h2, rfl⟩
    exact ⟨rfl, fun d hd he => h2 e ⟨d, hd, he⟩ rfl⟩
  · rintro ⟨rfl, h2⟩
    exact ⟨fun v ⟨d, hd, he⟩ hv => h2 d hd (he.trans hv), rfl⟩

theorem find_exchange_ok_iff {defs : List Def} {ii : Indexed} (h : build defs = some ii)
    (i e : Nat) : findExchange ii i = .ok e ↔ (exchanges ii)[i]? = some ⟨i, e⟩ := by
  obtain ⟨h1, _⟩ := build_some defs ii h
  rw [findExchange, okOr_ok_iff, findExchange_eq defs ii h, exchanges, h1, getElem?_enumerate_eq]
  simp

theorem find_exchange_error_iff {defs : List Def} {ii : Indexed} (h : build defs = some ii)
    (i : Nat) (x : IndexError) :
    findExchange ii i = .error x ↔ x = .exchangeIndex ∧ (exchanges ii).length ≤ i := by
  obtain ⟨h1, _⟩ := build_some defs ii h
  rw [findExchange, okOr_error_iff, findExchange_eq defs ii h, exchanges, h1, length_enumerate,
    List.getElem?_eq_none_iff]
  exact And.comm

theorem find_asset_index_ok_iff {defs : List Def} {ii : Indexed} (h : build defs = some ii)
    (e n i : Nat) :
    findAssetIndex ii e n = .ok i ↔
      (∃ x, (assets ii)[i]? = some ⟨i, x⟩ ∧ x.exchange = e ∧ x.asset.nameInternal = n) ∧
      ∀ j, j < i → ∀ y, (assets ii)[j]? = some y →
        ¬(y.value.exchange = e ∧ y.value.asset.nameInternal = n) := by
  obtain ⟨_, h2, _⟩ := build_some defs ii h
  rw [findAssetIndex, okOr_ok_iff, Indexed.findAssetIndex, assets, h2, findAsset_enumerate,
    findIdx?_first]
  constructor
  · rintro ⟨⟨x, hx, hp⟩, hlt⟩
    refine ⟨⟨x, (getElem?_enumerate_eq _ _ _).mpr ⟨rfl, hx⟩, by simpa using hp⟩, ?_⟩
    intro j hj y hy
    have := hlt j hj y.value ((getElem?_enumerate_eq _ _ _).mp hy).2
    simpa using this
  · rintro ⟨⟨x, hx, hp⟩, hlt⟩
    refine ⟨⟨x, ((getElem?_enumerate_eq _ _ _).mp hx).2, by simpa using hp⟩, ?_⟩
    intro j hj y hy
    have := hlt j hj ⟨j, y⟩ ((getElem?_enumerate_eq _ _ _).mpr ⟨rfl, hy⟩)
    simpa using this

theorem find_asset_index_error_iff {defs : List Def} {ii : Indexed} (h : build defs = some ii)
    (e n : Nat) (x : IndexError) :
    findAssetIndex ii e n = .error x ↔
      x = .assetIndex ∧ ∀ d ∈ defs, d.exchange = e → ∀ a ∈ d.assetRefs, a.nameInternal ≠ n := by
  obtain ⟨_, h2, _⟩ := build_some defs ii h
  rw [findAssetIndex, okOr_error_iff, Indexed.findAssetIndex, h2, findAsset_enumerate,
    List.findIdx?_eq_none_iff]
  simp only [decide_eq_false_iff_not, mem_sortedAssets, List.mem_flatMap, mem_defAssets]
  constructor
  · rintro ⟨h3, rfl⟩
    exact ⟨rfl, fun d hd he a ha hn => h3 ⟨d.exchange, a⟩ ⟨d, hd, rfl, ha⟩ ⟨he, hn⟩⟩
  · rintro ⟨rfl, h3⟩
    exact ⟨fun y ⟨d, hd, hye, hya⟩ ⟨h4, h5⟩ => h3 d hd (hye ▸ h4) _ hya h5, rfl⟩

theorem find_asset_ok_iff {defs : List Def} {ii : Indexed} (h : build defs = some ii)
    (i : Nat) (x : ExchangeAsset) : findAsset ii i = .ok x ↔ (assets ii)[i]? = some ⟨i, x⟩ := by
  obtain ⟨_, h2, _⟩ := build_some defs ii h
  rw [findAsset, okOr_ok_iff, findAsset_eq defs ii h, assets, h2, getElem?_enumerate_eq]
  simp

theorem find_asset_error_iff {defs : List Def} {ii : Indexed} (h : build defs = some ii)
    (i : Nat) (x : IndexError) :
    findAsset ii i = .error x ↔ x = .assetIndex ∧ (assets ii).length ≤ i := by
  obtain ⟨_, h2, _⟩ := build_some defs ii h
  rw [findAsset, okOr_error_iff, findAsset_eq defs ii h, assets, h2, length_enumerate,
    List.getElem?_eq_none_iff]
  exact And.comm

theorem find_instrument_index_ok_iff {defs : List Def} {ii : Indexed} (h : build defs = some ii)
    (e n i : Nat) :
    findInstrumentIndex ii e n = .ok i ↔
      (∃ x, (instruments ii)[i]? = some ⟨i, x⟩ ∧ x.exchange.value = e ∧ x.nameInternal = n) ∧
      ∀ j, j < i → ∀ y, (instruments ii)[j]? = some y →
        ¬(y.value.exchange.value = e ∧ y.value.nameInternal = n) := by
  rw [findInstrumentIndex, okOr_ok_iff, findInstrumentIndex_eq defs ii h, findIdx?_first, instruments]
  simp only [List.getElem?_map, Option.map_eq_some_iff, decide_eq_true_eq, decide_eq_false_iff_not]
  constructor
  · rintro ⟨⟨x, ⟨y, hy, rfl⟩, hp⟩, hlt⟩
    obtain ⟨_, _, hk, _⟩ := build_instrument_at defs ii h i y hy
    refine ⟨⟨y.value, ?_, hp⟩, fun j hj z hz => hlt j hj z.value ⟨z, hz, rfl⟩⟩
    rw [hy]; congr 1; cases y; simp_all
  · rintro ⟨⟨x, hx, hp⟩, hlt⟩
    exact ⟨⟨x, ⟨_, hx, rfl⟩, hp⟩, fun j hj v ⟨z, hz, hv⟩ => hv ▸ hlt j hj z hz⟩

/-- The error of a failed `find_instrument_index` is the **asset** variant. -/
theorem find_instrument_index_error_iff {defs : List Def} {ii : Indexed} (h : build defs = some ii)
    (e n : Nat) (x : IndexError) :
    findInstrumentIndex ii e n = .error x ↔
      x = .assetIndex ∧ ∀ d ∈ defs, ¬(d.exchange = e ∧ d.nameInternal = n) := by
  rw [findInstrumentIndex, okOr_error_iff, findInstrumentIndex_eq defs ii h, List.findIdx?_eq_none_iff]
  simp only [decide_eq_false_iff_not, List.mem_map]
  constructor
  · rintro ⟨h3, rfl⟩
    refine ⟨rfl, fun d hd hp => ?_⟩
    obtain ⟨k, hk⟩ := List.mem_iff_getElem?.mp ((mem_sortedDefs defs d).mpr hd)
    obtain ⟨_, _, _, hget⟩ := build_some defs ii h
    obtain ⟨i, hi, he, _, hn, _⟩ := hget k d hk
    exact h3 i ⟨⟨k, i⟩, List.mem_of_getElem? hi, rfl⟩ ⟨he.trans hp.1, hn.trans hp.2⟩
  · rintro ⟨rfl, h3⟩
    refine ⟨?_, rfl⟩
    rintro v ⟨y, hy, rfl⟩ hp
    obtain ⟨k, hk⟩ := List.mem_iff_getElem?.mp hy
    obtain ⟨d, hd, _, he, _, hn, _⟩ := build_instrument_at defs ii h k y hk
    exact h3 d ((mem_sortedDefs _ _).mp (List.mem_iff_getElem?.mpr ⟨_, hd⟩)) ⟨he ▸ hp.1, hn ▸ hp.2⟩

theorem find_instrument_ok_iff {defs : List Def} {ii : Indexed} (h : build defs = some ii)
    (i : Nat) (x : IInstrument) :
    findInstrument ii i = .ok x ↔ (instruments ii)[i]? = some ⟨i, x⟩ := by
  rw [findInstrument, okOr_ok_iff, findInstrument_eq defs ii h, instruments]
  constructor
  · intro hx
    simp only [Option.map_eq_some_iff] at hx
    obtain ⟨y, hy, rfl⟩ := hx
    obtain ⟨_, _, hk, _⟩ := build_instrument_at defs ii h i y hy
    rw [hy]; congr 1; cases y; simp_all
  · intro hx; rw [hx]; rfl

theorem find_instrument_error_iff {defs : List Def} {ii : Indexed} (h : build defs = some ii)
    (i : Nat) (x : IndexError) :
    findInstrument ii i = .error x ↔ x = .instrumentIndex ∧ (instruments ii).length ≤ i := by
  rw [findInstrument, okOr_error_iff, findInstrument_eq defs ii h, instruments]
  simp only [Option.map_eq_none_iff, List.getElem?_eq_none_iff]
  exact And.comm

/-- `exchanges()` lists the exchange ids in strictly ascending (declaration) order. -/
theorem exchanges_sorted {defs : List Def} {ii : Indexed} (h : build defs = some ii) :
    ((exchanges ii).map (·.value)).Pairwise (· < ·) := by
  obtain ⟨h1, _⟩ := build_some defs ii h
  rw [exchanges, h1, map_value_enumerate]
  refine (strict_sortDedup exchangeKey exchangeKey_inj _).imp ?_
  intro a b ⟨hle, hne⟩
  have hle' : [a] ≤ [b] := of_decide_eq_true hle
  have : a ≤ b := by
    rcases Nat.lt_or_ge b a with hlt | hge
    · exact absurd (List.cons_lt_cons_iff.mpr (Or.inl hlt)) (List.not_lt.mpr hle')
    · exact hge
  omega

theorem rank_of_sorted (l : List Nat) (hl : l.Pairwise (· < ·)) (i e : Nat) (hi : l[i]? = some e) :
    (l.filter (· < e)).length = i := by
  induction l generalizing i with
  | nil => simp at hi
  | cons a t ih =>
    have ⟨h1, h2⟩ := List.pairwise_cons.mp hl
    cases i with
    | zero =>
      simp only [List.getElem?_cons_zero, Option.some.injEq] at hi
      subst hi
      rw [List.filter_cons_of_neg (by simp), List.length_eq_zero_iff, List.filter_eq_nil_iff]
      intro b hb; have := h1 b hb; simp; omega
    | succ k =>
      simp only [List.getElem?_cons_succ] at hi
      have hae : a < e := h1 e (List.mem_of_getElem? hi)
      rw [List.filter_cons_of_pos (by simpa using hae), List.length_cons, ih h2 k hi]

/-- `find_exchange_index` as a function of the input alone: the rank of the exchange among the
distinct exchanges of the definitions. -/
theorem find_exchange_index_is_rank {defs : List Def} {ii : Indexed} (h : build defs = some ii)
    (e i : Nat) (hf : findExchangeIndex ii e = .ok i) :
    i = ((specExchanges defs).filter (· < e)).length := by
  have hs := exchanges_sorted h
  have hi := (find_exchange_index_ok_iff h e i).mp hf
  have hv : ((exchanges ii).map (·.value))[i]? = some e := by
    rw [List.getElem?_map, hi]; rfl
  rw [← rank_of_sorted _ hs i e hv]
  exact ((C11.unique_exchanges h).filter _).length_eq

/-- Duplicates: the builder removes only *identical* definitions, so several may share one
(exchange, name_internal). `find_instrument_index` then answers with the one that is least in the
derived order of `Instrument` (the next fields compared are name_exchange, underlying, …); the
others are reachable by position only. -/
theorem find_instrument_index_least {defs : List Def} {ii : Indexed} (h : build defs = some ii)
    (e n i : Nat) (hf : findInstrumentIndex ii e n = .ok i) :
    ∃ d ∈ defs, d.exchange = e ∧ d.nameInternal = n ∧
      (∃ x, (instruments ii)[i]? = some ⟨i, x⟩ ∧ x.nameExchange = d.nameExchange) ∧
      ∀ d' ∈ defs, d'.exchange = e → d'.nameInternal = n →
        Instrument.sortKey d ≤ Instrument.sortKey d' := by
  obtain ⟨⟨x, hx, hxe, hxn⟩, hfirst⟩ := (find_instrument_index_ok_iff h e n i).mp hf
  obtain ⟨d, hd, _, he, _, hn, hne, _⟩ := build_instrument_at defs ii h i _ hx
  have hdm : d ∈ defs := (mem_sortedDefs _ _).mp (List.mem_iff_getElem?.mpr ⟨_, hd⟩)
  refine ⟨d, hdm, he ▸ hxe, hn ▸ hxn, ⟨x, hx, hne⟩, ?_⟩
  intro d' hd' he' hn'
  obtain ⟨k, hk⟩ := List.mem_iff_getElem?.mp ((mem_sortedDefs defs d').mpr hd')
  obtain ⟨_, _, _, hget⟩ := build_some defs ii h
  obtain ⟨y, hy, hye, _, hyn, _⟩ := hget k d' hk
  have hik : i ≤ k := by
    rcases Nat.lt_or_ge k i with hlt | hge
    · exact absurd ⟨hye.trans he', hyn.trans hn'⟩ (hfirst k hlt _ hy)
    · exact hge
  rcases Nat.lt_or_eq_of_le hik with hlt | heq
  · have hs := strict_sortDedup Instrument.sortKey Instrument.sortKey_inj defs
    obtain ⟨hil, hdi⟩ := List.getElem?_eq_some_iff.mp hd
    obtain ⟨hkl, hdk⟩ := List.getElem?_eq_some_iff.mp hk
    have := (List.pairwise_iff_getElem.mp hs) i k hil hkl hlt
    rw [hdi, hdk] at this
    exact of_decide_eq_true this.1
  · subst heq
    rw [hd] at hk; cases hk
    exact List.le_refl _

end BarterModel.Props.C11N
