import BarterModel.Lemmas.Names
import BarterModel.Props.C11
/-! # C11N (sub-check of C11) -/
namespace BarterModel.Props.C11N
open BarterModel.Names BarterModel.Index

/-! ## E. the lookup API, for every index the builder can produce -/

theorem find_exchange_index_ok_iff {defs : List Def} {ii : Indexed} (h : build defs = some ii)
    (e i : Nat) : findExchangeIndex ii e = .ok i ↔ (exchanges ii)[i]? = some ⟨i, e⟩ := by
  obtain ⟨h1, _⟩ := build_some defs ii h
  rw [findExchangeIndex, okOr_ok_iff, Indexed.findExchangeIndex, exchanges, h1,
    findExchange_iff _ (nodup_sortedExchanges defs), getElem?_enumerate_eq]
  simp

theorem find_exchange_index_error_iff {defs : List Def} {ii : Indexed} (h : build defs = some ii)
    (e : Nat) (x : IndexError) :
    findExchangeIndex ii e = .error x ↔ x = .exchangeIndex ∧ ∀ d ∈ defs, d.exchange ≠ e := by
  obtain ⟨h1, _⟩ := build_some defs ii h
  rw [findExchangeIndex, okOr_error_iff, Indexed.findExchangeIndex, h1, findExchange_enumerate,
    List.findIdx?_eq_none_iff]
  simp only [decide_eq_false_iff_not, mem_sortedExchanges]
  constructor
  · rintro ⟨h2, rfl⟩
    exact ⟨rfl, fun d hd he => h2 e ⟨d, hd, he⟩ rfl⟩
  · rintro ⟨rfl, h2⟩
    exact ⟨fun v ⟨d, hd, he⟩ hv => h2 d hd (he.trans hv), rfl⟩

theorem find_exchange_ok_iff {defs : List Def} {ii : Indexed} (h : build defs = some ii)
    (i e : Nat) : findExchange ii i = .ok e ↔ (exchanges ii)[i]? = some ⟨i, e⟩ := by
  obtain ⟨h1, _⟩ := build_some defs ii h
  rw [findExchange, okOr_ok_iff, findExchange_eq defs ii h, exchanges, h1, getElem?_enumerate_eq]
  simp

theorem find_exchange_error_iff {defs : List Def} {ii : Indexed} (h : build defs = some ii)
    (i : Nat) (x : IndexError) :
    findExchange ii i = .error x ↔ x = .exchangeIndex ∧ (exchanges ii).length ≤ i := by
  obtain ⟨h1, _⟩ := build_some defs ii h
  rw [findExchange, okOr_error_iff, findExchange_eq defs ii h, exchanges, h1, length_enumerate,
    List.getElem?_eq_none_iff]
  exact And.comm

theorem find_asset_index_ok_iff {defs : List Def} {ii : Indexed} (h : build defs = some ii)
    (e n i : Nat) :
    findAssetIndex ii e n = .ok i ↔
      (∃ x, (assets ii)[i]? = some ⟨i, x⟩ ∧ x.exchange = e ∧ x.asset.nameInternal = n) ∧
      ∀ j, j < i → ∀ y, (assets ii)[j]? = some y →
        ¬(y.value.exchange = e ∧ y.value.asset.nameInternal = n) := by
  obtain ⟨_, h2, _⟩ := build_some defs ii h
  rw [findAssetIndex, okOr_ok_iff, Indexed.findAssetIndex, assets, h2, findAsset_enumerate,
    findIdx?_first]
  constructor
  · rintro ⟨⟨x, hx, hp⟩, hlt⟩
    refine ⟨⟨x, (getElem?_enumerate_eq _ _ _).mpr ⟨rfl, hx⟩, by simpa using hp⟩, ?_⟩
    intro j hj y hy
    have := hlt j hj y.value ((getElem?_enumerate_eq _ _ _).mp hy).2
    simpa using this
  · rintro ⟨⟨x, hx, hp⟩, hlt⟩
    refine ⟨⟨x, ((getElem?_enumerate_eq _ _ _).mp hx).2, by simpa using hp⟩, ?_⟩
    intro j hj y hy
    have := hlt j hj ⟨j, y⟩ ((getElem?_enumerate_eq _ _ _).mpr ⟨rfl, hy⟩)
    simpa using this

theorem find_asset_index_error_iff {defs : List Def} {ii : Indexed} (h : build defs = some ii)
    (e n : Nat) (x : IndexError) :
    findAssetIndex ii e n = .error x ↔
      x = .assetIndex ∧ ∀ d ∈ defs, d.exchange = e → ∀ a ∈ d.assetRefs, a.nameInternal ≠ n := by
  obtain ⟨_, h2, _⟩ := build_some defs ii h
  rw [findAssetIndex, okOr_error_iff, Indexed.findAssetIndex, h2, findAsset_enumerate,
    List.findIdx?_eq_none_iff]
  simp only [decide_eq_false_iff_not, mem_sortedAssets, List.mem_flatMap, mem_defAssets]
  constructor
  · rintro ⟨h3, rfl⟩
    exact ⟨rfl, fun d hd he a ha hn => h3 ⟨d.exchange, a⟩ ⟨d, hd, rfl, ha⟩ ⟨he, hn⟩⟩
  · rintro ⟨rfl, h3⟩
    exact ⟨fun y ⟨d, hd, hye, hya⟩ ⟨h4, h5⟩ => h3 d hd (hye ▸ h4) _ hya h5, rfl⟩

theorem find_asset_ok_iff {defs : List Def} {ii : Indexed} (h : build defs = some ii)
    (i : Nat) (x : ExchangeAsset) : findAsset ii i = .ok x ↔ (assets ii)[i]? = some ⟨i, x⟩ := by
  obtain ⟨_, h2, _⟩ := build_some defs ii h
  rw [findAsset, okOr_ok_iff, findAsset_eq defs ii h, assets, h2, getElem?_enumerate_eq]
  simp

theorem find_asset_error_iff {defs : List Def} {ii : Indexed} (h : build defs = some ii)
    (i : Nat) (x : IndexError) :
    findAsset ii i = .error x ↔ x = .assetIndex ∧ (assets ii).length ≤ i := by
  obtain ⟨_, h2, _⟩ := build_some defs ii h
  rw [findAsset, okOr_error_iff, findAsset_eq defs ii h, assets, h2, length_enumerate,
    List.getElem?_eq_none_iff]
  exact And.comm

theorem find_instrument_index_ok_iff {defs : List Def} {ii : Indexed} (h : build defs = some ii)
    (e n i : Nat) :
    findInstrumentIndex ii e n = .ok i ↔
      (∃ x, (instruments ii)[i]? = some ⟨i, x⟩ ∧ x.exchange.value = e ∧ x.nameInternal = n) ∧
      ∀ j, j < i → ∀ y, (instruments ii)[j]? = some y →
        ¬(y.value.exchange.value = e ∧ y.value.nameInternal = n) := by
  rw [findInstrumentIndex, okOr_ok_iff, findInstrumentIndex_eq defs ii h, findIdx?_first, instruments]
  simp only [List.getElem?_map, Option.map_eq_some_iff, decide_eq_true_eq, decide_eq_false_iff_not]
  constructor
  · rintro ⟨⟨x, ⟨y, hy, rfl⟩, hp⟩, hlt⟩
    obtain ⟨_, _, hk, _⟩ := build_instrument_at defs ii h i y hy
    refine ⟨⟨y.value, ?_, hp⟩, fun j hj z hz => hlt j hj z.value ⟨z, hz, rfl⟩⟩
    rw [hy]; congr 1; cases y; simp_all
  · rintro ⟨⟨x, hx, hp⟩, hlt⟩
    exact ⟨⟨x, ⟨_, hx, rfl⟩, hp⟩, fun j hj v ⟨z, hz, hv⟩ => hv ▸ hlt j hj z hz⟩

/-- The error of a failed `find_instrument_index` is the **asset** variant. -/
theorem find_instrument_index_error_iff {defs : List Def} {ii : Indexed} (h : build defs = some ii)
    (e n : Nat) (x : IndexError) :
    findInstrumentIndex ii e n = .error x ↔
      x = .assetIndex ∧ ∀ d ∈ defs, ¬(d.exchange = e ∧ d.nameInternal = n) := by
  rw [findInstrumentIndex, okOr_error_iff, findInstrumentIndex_eq defs ii h, List.findIdx?_eq_none_iff]
  simp only [decide_eq_false_iff_not, List.mem_map]
  constructor
  · rintro ⟨h3, rfl⟩
    refine ⟨rfl, fun d hd hp => ?_⟩
    obtain ⟨k, hk⟩ := List.mem_iff_getElem?.mp ((mem_sortedDefs defs d).mpr hd)
    obtain ⟨_, _, _, hget⟩ := build_some defs ii h
    obtain ⟨i, hi, he, _, hn, _⟩ := hget k d hk
    exact h3 i ⟨⟨k, i⟩, List.mem_of_getElem? hi, rfl⟩ ⟨he.trans hp.1, hn.trans hp.2⟩
  · rintro ⟨rfl, h3⟩
    refine ⟨?_, rfl⟩
    rintro v ⟨y, hy, rfl⟩ hp
    obtain ⟨k, hk⟩ := List.mem_iff_getElem?.mp hy
    obtain ⟨d, hd, _, he, _, hn, _⟩ := build_instrument_at defs ii h k y hk
    exact h3 d ((mem_sortedDefs _ _).mp (List.mem_iff_getElem?.mpr ⟨_, hd⟩)) ⟨he ▸ hp.1, hn ▸ hp.2⟩

theorem find_instrument_ok_iff {defs : List Def} {ii : Indexed} (h : build defs = some ii)
    (i : Nat) (x : IInstrument) :
    findInstrument ii i = .ok x ↔ (instruments ii)[i]? = some ⟨i, x⟩ := by
  rw [findInstrument, okOr_ok_iff, findInstrument_eq defs ii h, instruments]
  constructor
  · intro hx
    simp only [Option.map_eq_some_iff] at hx
    obtain ⟨y, hy, rfl⟩ := hx
    obtain ⟨_, _, hk, _⟩ := build_instrument_at defs ii h i y hy
    rw [hy]; congr 1; cases y; simp_all
  · intro hx; rw [hx]; rfl

theorem find_instrument_error_iff {defs : List Def} {ii : Indexed} (h : build defs = some ii)
    (i : Nat) (x : IndexError) :
    findInstrument ii i = .error x ↔ x = .instrumentIndex ∧ (instruments ii).length ≤ i := by
  rw [findInstrument, okOr_error_iff, findInstrument_eq defs ii h, instruments]
  simp only [Option.map_eq_none_iff, List.getElem?_eq_none_iff]
  exact And.comm

/-- `exchanges()` lists the exchange ids in strictly ascending (declaration) order. -/
theorem exchanges_sorted {defs : List Def} {ii : Indexed} (h : build defs = some ii) :
    ((exchanges ii).map (·.value)).Pairwise (· < ·) := by
  obtain ⟨h1, _⟩ := build_some defs ii h
  rw [exchanges, h1, map_value_enumerate]
  refine (strict_sortDedup exchangeKey exchangeKey_inj _).imp ?_
  intro a b ⟨hle, hne⟩
  have hle' : [a] ≤ [b] := of_decide_eq_true hle
  have : a ≤ b := by
    rcases Nat.lt_or_ge b a with hlt | hge
    · exact absurd (List.cons_lt_cons_iff.mpr (Or.inl hlt)) (List.not_lt.mpr hle')
    · exact hge
  omega

theorem rank_of_sorted (l : List Nat) (hl : l.Pairwise (· < ·)) (i e : Nat) (hi : l[i]? = some e) :
    (l.filter (· < e)).length = i := by
  induction l generalizing i with
  | nil => simp at hi
  | cons a t ih =>
    have ⟨h1, h2⟩ := List.pairwise_cons.mp hl
    cases i with
    | zero =>
      simp only [List.getElem?_cons_zero, Option.some.injEq] at hi
      subst hi
      rw [List.filter_cons_of_neg (by simp), List.length_eq_zero_iff, List.filter_eq_nil_iff]
      intro b hb; have := h1 b hb; simp; omega
    | succ k =>
      simp only [List.getElem?_cons_succ] at hi
      have hae : a < e := h1 e (List.mem_of_getElem? hi)
      rw [List.filter_cons_of_pos (by simpa using hae), List.length_cons, ih h2 k hi]

/-- `find_exchange_index` as a function of the input alone: the rank of the exchange among the
distinct exchanges of the definitions. -/
theorem find_exchange_index_is_rank {defs : List Def} {ii : Indexed} (h : build defs = some ii)
    (e i : Nat) (hf : findExchangeIndex ii e = .ok i) :
    i = ((specExchanges defs).filter (· < e)).length := by
  have hs := exchanges_sorted h
  have hi := (find_exchange_index_ok_iff h e i).mp hf
  have hv : ((exchanges ii).map (·.value))[i]? = some e := by
    rw [List.getElem?_map, hi]; rfl
  rw [← rank_of_sorted _ hs i e hv]
  exact ((C11.unique_exchanges h).filter _).length_eq

/-- Duplicates: the builder removes only *identical* definitions, so several may share one
(exchange, name_internal). `find_instrument_index` then answers with the one that is least in the
derived order of `Instrument` (the next fields compared are name_exchange, underlying, …); the
others are reachable by position only. -/
theorem find_instrument_index_least {defs : List Def} {ii : Indexed} (h : build defs = some ii)
    (e n i : Nat) (hf : findInstrumentIndex ii e n = .ok i) :
    ∃ d ∈ defs, d.exchange = e ∧ d.nameInternal = n ∧
      (∃ x, (instruments ii)[i]? = some ⟨i, x⟩ ∧ x.nameExchange = d.nameExchange) ∧
      ∀ d' ∈ defs, d'.exchange = e → d'.nameInternal = n →
        Instrument.sortKey d ≤ Instrument.sortKey d' := by
  obtain ⟨⟨x, hx, hxe, hxn⟩, hfirst⟩ := (find_instrument_index_ok_iff h e n i).mp hf
  obtain ⟨d, hd, _, he, _, hn, hne, _⟩ := build_instrument_at defs ii h i _ hx
  have hdm : d ∈ defs := (mem_sortedDefs _ _).mp (List.mem_iff_getElem?.mpr ⟨_, hd⟩)
  refine ⟨d, hdm, he ▸ hxe, hn ▸ hxn, ⟨x, hx, hne⟩, ?_⟩
  intro d' hd' he' hn'
  obtain ⟨k, hk⟩ := List.mem_iff_getElem?.mp ((mem_sortedDefs defs d').mpr hd')
  obtain ⟨_, _, _, hget⟩ := build_some defs ii h
  obtain ⟨y, hy, hye, _, hyn, _⟩ := hget k d' hk
  have hik : i ≤ k := by
    rcases Nat.lt_or_ge k i with hlt | hge
    · exact absurd ⟨hye.trans he', hyn.trans hn'⟩ (hfirst k hlt _ hy)
    · exact hge
  rcases Nat.lt_or_eq_of_le hik with hlt | heq
  · have hs := strict_sortDedup Instrument.sortKey Instrument.sortKey_inj defs
    obtain ⟨hil, hdi⟩ := List.getElem?_eq_some_iff.mp hd
    obtain ⟨hkl, hdk⟩ := List.getElem?_eq_some_iff.mp hk
    have := (List.pairwise_iff_getElem.mp hs) i k hil hkl hlt
    rw [hdi, hdk] at this
    exact of_decide_eq_true this.1
  · subst heq
    rw [hd] at hk; cases hk
    exact List.le_refl _

end BarterModel.Props.C11N
