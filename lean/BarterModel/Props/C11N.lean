import BarterModel.Lemmas.Names
/-! # C11N (sub-check of C11) -/
namespace BarterModel.Props.C11N
open BarterModel.Names

theorem mem_all (e : ExchangeId) : e ∈ ExchangeId.all := by cases e <;> decide

theorem asStr_injective (a b : ExchangeId) (h : a.asStr = b.asStr) : a = b := by
  have : ∀ a ∈ ExchangeId.all, ∀ b ∈ ExchangeId.all, a.asStr = b.asStr → a = b := by decide +kernel
  exact this a (mem_all a) b (mem_all b) h

end BarterModel.Props.C11N
