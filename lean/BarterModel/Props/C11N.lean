import BarterModel.Lemmas.Names
import BarterModel.Props.C11
/-!
# C11N (sub-check of C11) — instrument / asset / exchange names and keys, and the lookup API of
`IndexedInstruments`

Statements only (helpers in `Lemmas/Names.lean`, the builder and its lemmas are those of C11).
Strings are `List Char`; `lowerStr` is the model of `to_lowercase_smolstr` (exact on ASCII; the
non-ASCII rows of its table are an assumption probed by the correspondence); `IsAscii s` restricts a
statement to ASCII where the documentation ("lowercase") is unambiguous. `build defs = some ii`
ranges over every `IndexedInstruments` the builder model can produce (C11 `build_total`: it always
produces one), `buildS` is the same builder on string-named definitions through the name code.
The functions `spec…` (`specExchangeTable`, `specAssetTable`, `specAssetIndex`, …) are the
specification's own reading of the tables and of the lookup values, written in `Model/Names.lean`
without the builder; section G ties them to it.
-/
namespace BarterModel.Props.C11N
open BarterModel.Names BarterModel.Index

/-! ## A. the name constructors -/

/-- The `if all chars lowercase` shortcut is unobservable: an internal name is the lower-cased input. -/
theorem internal_name_is_lowercased (s : Str) :
    (AssetNameInternal.new s).name = lowerStr s ∧ (InstrumentNameInternal.new s).name = lowerStr s :=
  ⟨nameNew_eq_lowerStr s, nameNew_eq_lowerStr s⟩

/-- Constructors are idempotent (all strings, including the modelled non-ASCII blocks). -/
theorem asset_name_new_idempotent (s : Str) :
    AssetNameInternal.new (AssetNameInternal.new s).name = AssetNameInternal.new s := by
  simp [AssetNameInternal.new, nameNew_idem]

theorem instrument_name_new_idempotent (s : Str) :
    InstrumentNameInternal.new (InstrumentNameInternal.new s).name = InstrumentNameInternal.new s := by
  simp [InstrumentNameInternal.new, nameNew_idem]

/-- Refinement to the documented reading on ASCII: every capital Latin letter replaced by its small
letter, nothing else touched, length kept. -/
theorem internal_name_refines_spec (s : Str) (h : IsAscii s) :
    (AssetNameInternal.new s).name = specLower s ∧ (InstrumentNameInternal.new s).name = specLower s ∧
      (specLower s).length = s.length := by
  have : nameNew s = specLower s := by
    rw [nameNew_eq_lowerStr, lowerStr_ascii s h, specLower_eq]
  exact ⟨this, this, by simp [specLower]⟩

/-- Two ASCII inputs give the same internal name iff they are equal up to the case of Latin letters. -/
theorem internal_name_eq_iff_caseEq (s t : Str) (hs : IsAscii s) (ht : IsAscii t) :
    (AssetNameInternal.new s = AssetNameInternal.new t ↔ caseEq s t = true) ∧
    (InstrumentNameInternal.new s = InstrumentNameInternal.new t ↔ caseEq s t = true) := by
  have : nameNew s = nameNew t ↔ caseEq s t = true := by
    rw [nameNew_eq_lowerStr, nameNew_eq_lowerStr, lowerStr_ascii s hs, lowerStr_ascii t ht, caseEq_iff]
  constructor
  · rw [← this]; simp [AssetNameInternal.new]
  · rw [← this]; simp [InstrumentNameInternal.new]

/-- Exchange names are kept verbatim: case matters. (Definitional: restates the constructors;
bookkeeping, not listed as a result.) -/
theorem exchange_names_verbatim (s t : Str) :
    (AssetNameExchange.new s).name = s ∧ (InstrumentNameExchange.new s).name = s ∧
    (AssetNameExchange.new s = AssetNameExchange.new t ↔ s = t) ∧
    (InstrumentNameExchange.new s = InstrumentNameExchange.new t ↔ s = t) := by
  simp [AssetNameExchange.new, InstrumentNameExchange.new]

/-- `Display` and `Serialize` show the name; deserialising what was serialised gives the value back
exactly for values that came out of a constructor … (the first conjunct and the two exchange-name
conjuncts are definitional; the three internal-name conjuncts need idempotence) -/
theorem serde_display_round_trip (s : Str) :
    (AssetNameInternal.new s).display = (AssetNameInternal.new s).name ∧
    AssetNameInternal.de (AssetNameInternal.new s).ser = AssetNameInternal.new s ∧
    AssetNameInternal.de (AssetNameInternal.new s).display = AssetNameInternal.new s ∧
    InstrumentNameInternal.de (InstrumentNameInternal.new s).ser = InstrumentNameInternal.new s ∧
    AssetNameExchange.de (AssetNameExchange.new s).ser = AssetNameExchange.new s ∧
    InstrumentNameExchange.de (InstrumentNameExchange.new s).ser = InstrumentNameExchange.new s := by
  refine ⟨rfl, ?_, ?_, ?_, rfl, rfl⟩ <;>
    simp [AssetNameInternal.de, AssetNameInternal.ser, AssetNameInternal.display, AssetNameInternal.new,
      InstrumentNameInternal.de, InstrumentNameInternal.ser, InstrumentNameInternal.new, nameNew_idem]

/-- … and for an arbitrary value (the field of `InstrumentNameInternal` is `pub`, so a value need not
be lower-case) exactly when its name is already lower-case. -/
theorem serde_round_trip_iff (x : InstrumentNameInternal) :
    InstrumentNameInternal.de x.ser = x ↔ lowerStr x.name = x.name := by
  obtain ⟨n⟩ := x
  simp [InstrumentNameInternal.de, InstrumentNameInternal.ser, InstrumentNameInternal.new,
    nameNew_eq_lowerStr]

/-- `Asset::new_from_exchange` = `Asset::new` with the exchange name in both places. (Definitional
up to `internal_name_is_lowercased`; bookkeeping.) -/
theorem asset_new_from_exchange (e : Str) :
    Asset.newFromExchange e = Asset.new e e ∧ (Asset.newFromExchange e).nameInternal.name = lowerStr e ∧
      (Asset.newFromExchange e).nameExchange.name = e :=
  ⟨rfl, nameNew_eq_lowerStr e, rfl⟩

/-! ## B. the `ExchangeId` table (42 variants; `decide` over the whole enum) -/

theorem exchange_all_complete (e : ExchangeId) : e ∈ ExchangeId.all := mem_all e

theorem exchange_all_length : ExchangeId.all.length = 42 ∧ ExchangeId.all.Nodup := by decide

/-- Declaration position ↔ variant: a bijection onto `0..41`. -/
theorem exchange_toNat_bijective :
    (∀ e : ExchangeId, ExchangeId.ofNat? e.toNat = some e ∧ e.toNat < 42) ∧
    (∀ a b : ExchangeId, a.toNat = b.toNat → a = b) ∧
    (∀ n e, ExchangeId.ofNat? n = some e → e.toNat = n) := by
  refine ⟨fun e => ⟨ofNat?_toNat e, toNat_lt e⟩, fun a b => toNat_inj, ?_⟩
  have : ∀ n, n < 42 → ∀ e, ExchangeId.ofNat? n = some e → e.toNat = n := by decide
  intro n e h
  by_cases hn : n < 42
  · exact this n hn e h
  · simp only [ExchangeId.ofNat?] at h
    have hlen : ExchangeId.all.length = 42 := by decide
    rw [List.getElem?_eq_none (by omega)] at h
    cases h

theorem as_str_injective (a b : ExchangeId) (h : a.asStr = b.asStr) : a = b := by
  have : ∀ a ∈ ExchangeId.all, ∀ b ∈ ExchangeId.all, a.asStr = b.asStr → a = b := by decide +kernel
  exact this a (mem_all a) b (mem_all b) h

/-- serde's snake_case rename of the variant identifier, `as_str`, and the documented reading
(words of the identifier, lower-cased, joined by `_`) are one table. -/
theorem ser_eq_as_str (e : ExchangeId) : e.ser = e.asStr := by
  have : ∀ e ∈ ExchangeId.all, e.ser = e.asStr := by decide +kernel
  exact this e (mem_all e)

theorem as_str_eq_spec (e : ExchangeId) : e.asStr = specExchangeName e := by
  have : ∀ e ∈ ExchangeId.all, e.asStr = specExchangeName e := by decide +kernel
  exact this e (mem_all e)

theorem ser_as_str_spec_agree (e : ExchangeId) :
    e.ser = e.asStr ∧ e.asStr = specExchangeName e := ⟨ser_eq_as_str e, as_str_eq_spec e⟩

/-- `Display` is the variant identifier (first conjunct: definitional): never equal to `as_str`;
lower-cased it is `as_str` with the underscores removed. -/
theorem display_is_not_as_str (e : ExchangeId) :
    e.display = e.variantName ∧ e.display ≠ e.asStr ∧
      lowerStr e.display = e.asStr.filter (· != '_') := by
  have : ∀ e ∈ ExchangeId.all, e.display ≠ e.asStr ∧
      lowerStr e.display = e.asStr.filter (· != '_') := by decide +kernel
  exact ⟨rfl, this e (mem_all e)⟩

theorem de_ser (e : ExchangeId) : ExchangeId.de e.ser = some e := by
  have : ∀ e ∈ ExchangeId.all, ExchangeId.de e.ser = some e := by decide +kernel
  exact this e (mem_all e)

/-- What deserialises to a variant: its `as_str`, and for `Htx` also the alias `huobi`. -/
theorem de_some_iff (s : Str) (e : ExchangeId) :
    ExchangeId.de s = some e ↔ s = e.asStr ∨ (s = "huobi".toList ∧ e = .htx) := by
  constructor
  · intro h
    unfold ExchangeId.de at h
    split at h
    · rename_i e' he'
      cases h
      have := List.find?_some he'
      simp only [decide_eq_true_eq] at this
      exact Or.inl (by rw [← this, (ser_as_str_spec_agree e).1])
    · split at h
      · cases h; exact Or.inr ⟨‹_›, rfl⟩
      · cases h
  · rintro (rfl | ⟨rfl, rfl⟩)
    · rw [← (ser_as_str_spec_agree e).1]; exact de_ser e
    · decide +kernel

/-- `as_str` is lower-case snake: a fixed point of the name constructor, and free of `-`. -/
theorem as_str_is_lowercase (e : ExchangeId) :
    lowerStr e.asStr = e.asStr ∧ '-' ∉ e.asStr ∧ IsAscii e.asStr := by
  have : ∀ e ∈ ExchangeId.all, lowerStr e.asStr = e.asStr ∧ '-' ∉ e.asStr ∧ IsAscii e.asStr := by
    decide +kernel
  exact this e (mem_all e)

/-! ## C. instrument names built from an exchange -/

theorem lowcs_dash : lowcs '-' = ['-'] := by decide
theorem lowcs_underscore : lowcs '_' = ['_'] := by decide

/-- `new_from_exchange`, for every input: `as_str`, a dash, the lower-cased exchange name. -/
theorem new_from_exchange_eq (e : ExchangeId) (s : Str) :
    (InstrumentNameInternal.newFromExchange e s).name = e.asStr ++ '-' :: lowerStr s := by
  simp only [InstrumentNameInternal.newFromExchange, InstrumentNameInternal.new,
    InstrumentNameExchange.new, InstrumentNameExchange.display, nameNew_eq_lowerStr, lowerStr_append,
    lowerStr_cons, (as_str_is_lowercase e).1, lowcs_dash]
  rfl

theorem new_from_exchange_refines_spec (e : ExchangeId) (s : Str) (h : IsAscii s) :
    (InstrumentNameInternal.newFromExchange e s).name = specExchangeName e ++ '-' :: specLower s := by
  rw [new_from_exchange_eq, lowerStr_ascii s h, specLower_eq, (ser_as_str_spec_agree e).2]

theorem append_dash_inj : ∀ (a b x y : Str), '-' ∉ a → '-' ∉ b → a ++ '-' :: x = b ++ '-' :: y →
    a = b ∧ x = y
  | [], [], x, y, _, _, h => by simpa using h
  | [], c :: b, x, y, _, hb, h => by
    simp at h; exact absurd (List.mem_cons.mpr (Or.inl h.1)) hb
  | c :: a, [], x, y, ha, _, h => by
    simp at h; exact absurd (List.mem_cons.mpr (Or.inl h.1.symm)) ha
  | c :: a, d :: b, x, y, ha, hb, h => by
    simp only [List.cons_append, List.cons.injEq] at h
    have := append_dash_inj a b x y (fun e => ha (by simp [e])) (fun e => hb (by simp [e])) h.2
    exact ⟨by rw [h.1, this.1], this.2⟩

/-- "Unique across exchanges": the name determines the exchange, and the exchange's instrument
name up to case. -/
theorem new_from_exchange_unique (e₁ e₂ : ExchangeId) (s₁ s₂ : Str) :
    InstrumentNameInternal.newFromExchange e₁ s₁ = InstrumentNameInternal.newFromExchange e₂ s₂ ↔
      e₁ = e₂ ∧ lowerStr s₁ = lowerStr s₂ := by
  constructor
  · intro h
    have h' := congrArg InstrumentNameInternal.name h
    rw [new_from_exchange_eq, new_from_exchange_eq] at h'
    have := append_dash_inj _ _ _ _ (as_str_is_lowercase e₁).2.1 (as_str_is_lowercase e₂).2.1 h'
    exact ⟨as_str_injective _ _ this.1, this.2⟩
  · rintro ⟨rfl, h⟩
    have : (InstrumentNameInternal.newFromExchange e₁ s₁).name =
        (InstrumentNameInternal.newFromExchange e₁ s₂).name := by
      rw [new_from_exchange_eq, new_from_exchange_eq, h]
    cases h1 : InstrumentNameInternal.newFromExchange e₁ s₁
    cases h2 : InstrumentNameInternal.newFromExchange e₁ s₂
    simp_all

/-- `new_from_exchange_underlying` formats the exchange with **`Display`**: the lower-cased variant
identifier (no underscores), a dash, base, an underscore, quote. -/
theorem new_from_exchange_underlying_eq (e : ExchangeId) (b q : Str) :
    (InstrumentNameInternal.newFromExchangeUnderlying e b q).name =
      lowerStr e.variantName ++ '-' :: lowerStr b ++ '_' :: lowerStr q := by
  simp only [InstrumentNameInternal.newFromExchangeUnderlying, InstrumentNameInternal.new,
    AssetNameExchange.new, AssetNameExchange.display, ExchangeId.display, nameNew_eq_lowerStr,
    lowerStr_append, lowerStr_cons, lowcs_dash, lowcs_underscore]
  simp

/-- The two "from exchange" constructors name the same instrument differently exactly for the
exchanges whose `as_str` contains an underscore — for EVERY base and quote (pointwise form). -/
theorem underlying_agrees_pointwise (e : ExchangeId) (b q : Str) :
    (InstrumentNameInternal.newFromExchangeUnderlying e b q =
        InstrumentNameInternal.newFromExchange e (b ++ '_' :: q)) ↔ '_' ∉ e.asStr := by
  have key : ∀ e ∈ ExchangeId.all, (lowerStr e.variantName = e.asStr ↔ '_' ∉ e.asStr) := by
    decide +kernel
  rw [← key e (mem_all e)]
  have ext : ∀ x y : InstrumentNameInternal, x = y ↔ x.name = y.name := by
    intro x y; cases x; cases y; simp
  rw [ext, new_from_exchange_underlying_eq, new_from_exchange_eq, lowerStr_append, lowerStr_cons,
    lowcs_underscore]
  constructor
  · intro h
    have h' : lowerStr e.variantName ++ ('-' :: (lowerStr b ++ '_' :: lowerStr q)) =
        e.asStr ++ ('-' :: (lowerStr b ++ '_' :: lowerStr q)) := by simpa using h
    exact List.append_cancel_right h'
  · intro h; rw [h]; simp

/-- Corollary (the form of the first review): agreement for all names iff no underscore. -/
theorem underlying_agrees_iff (e : ExchangeId) :
    (∀ b q : Str, InstrumentNameInternal.newFromExchangeUnderlying e b q =
        InstrumentNameInternal.newFromExchange e (b ++ '_' :: q)) ↔ '_' ∉ e.asStr :=
  ⟨fun h => (underlying_agrees_pointwise e [] []).mp (h [] []),
   fun h b q => (underlying_agrees_pointwise e b q).mpr h⟩

/-- The counts quoted in the texts: 16 of the 42 variants have an underscore in `as_str` (the two
constructors disagree there), 26 have none. -/
theorem underlying_agreement_counts :
    (ExchangeId.all.filter (fun e => decide ('_' ∈ e.asStr))).length = 16 ∧
    (ExchangeId.all.filter (fun e => decide ('_' ∉ e.asStr))).length = 26 := by decide +kernel

/-- `new_from_exchange_underlying` does determine the EXCHANGE (the lower-cased variant identifiers
are pairwise different and contain no dash), though not (base, quote): `underlying_collision`. -/
theorem underlying_determines_exchange (e₁ e₂ : ExchangeId) (b₁ q₁ b₂ q₂ : Str)
    (h : InstrumentNameInternal.newFromExchangeUnderlying e₁ b₁ q₁ =
         InstrumentNameInternal.newFromExchangeUnderlying e₂ b₂ q₂) : e₁ = e₂ := by
  have hinj : ∀ a ∈ ExchangeId.all, ∀ b ∈ ExchangeId.all,
      lowerStr a.variantName = lowerStr b.variantName → a = b := by decide +kernel
  have hnd : ∀ a ∈ ExchangeId.all, '-' ∉ lowerStr a.variantName := by decide +kernel
  have h' := congrArg InstrumentNameInternal.name h
  rw [new_from_exchange_underlying_eq, new_from_exchange_underlying_eq] at h'
  have h'' : lowerStr e₁.variantName ++ '-' :: (lowerStr b₁ ++ '_' :: lowerStr q₁) =
      lowerStr e₂.variantName ++ '-' :: (lowerStr b₂ ++ '_' :: lowerStr q₂) := by simpa using h'
  have := append_dash_inj _ _ _ _ (hnd e₁ (mem_all e₁)) (hnd e₂ (mem_all e₂)) h''
  exact hinj e₁ (mem_all e₁) e₂ (mem_all e₂) this.1

/-- Concrete instance (the system configuration uses `new_from_exchange_underlying`, the test
utilities and doc examples `new_from_exchange`). -/
theorem underlying_differs_binance_spot :
    (InstrumentNameInternal.newFromExchangeUnderlying .binanceSpot "btc".toList "usdt".toList).name =
      "binancespot-btc_usdt".toList ∧
    (InstrumentNameInternal.newFromExchange .binanceSpot "btc_usdt".toList).name =
      "binance_spot-btc_usdt".toList := by decide +kernel

/-- `new_from_exchange_underlying` does not determine (base, quote): the separator may occur in
an asset name. -/
theorem underlying_collision (e : ExchangeId) :
    InstrumentNameInternal.newFromExchangeUnderlying e "a_b".toList "c".toList =
      InstrumentNameInternal.newFromExchangeUnderlying e "a".toList "b_c".toList := by
  have h1 := new_from_exchange_underlying_eq e "a_b".toList "c".toList
  have h2 := new_from_exchange_underlying_eq e "a".toList "b_c".toList
  have e1 : lowerStr "a_b".toList = "a_b".toList := by decide
  have e2 : lowerStr "c".toList = "c".toList := by decide
  have e3 : lowerStr "a".toList = "a".toList := by decide
  have e4 : lowerStr "b_c".toList = "b_c".toList := by decide
  rw [e1, e2] at h1
  rw [e3, e4] at h2
  cases h3 : InstrumentNameInternal.newFromExchangeUnderlying e "a_b".toList "c".toList
  cases h4 : InstrumentNameInternal.newFromExchangeUnderlying e "a".toList "b_c".toList
  simp_all

/-! ## D. the name code (strings → the naturals of the C11 model) -/

/-- Injective and strictly monotone on names of at most `L` = 48 characters, with `decode` as left
inverse: the C11 builder, run on codes, sorts and compares names exactly as Rust's `str` does. -/
theorem name_code_faithful (s t : Str) (hs : s.length ≤ L) (ht : t.length ≤ L) :
    (code s = code t ↔ s = t) ∧ (code s < code t ↔ s < t) ∧ decode (code s) = s :=
  ⟨⟨code_inj s t hs ht, fun h => h ▸ rfl⟩, code_lt_iff s t hs ht, decode_code s hs⟩

/-- The length bound is necessary: two 49-character names share a code. -/
theorem name_code_bound_necessary :
    code (List.replicate 48 'a' ++ ['b']) = code (List.replicate 48 'a' ++ ['c']) ∧
      List.replicate 48 'a' ++ ['b'] ≠ List.replicate 48 'a' ++ ['c'] := by decide +kernel

/-! ## E. the lookup API, for every index the builder can produce

`build defs = some ii` ranges over the values `IndexedInstruments::new` / the builder / `from_iter`
produce. The type also derives `Deserialize`: a value read from arbitrary JSON need not have
key = position, ascending order or distinct entries, and is outside this section. -/

theorem find_exchange_index_ok_iff {defs : List Def} {ii : Indexed} (h : build defs = some ii)
    (e i : Nat) : findExchangeIndex ii e = .ok i ↔ (exchanges ii)[i]? = some ⟨i, e⟩ := by
  obtain ⟨h1, _⟩ := build_some defs ii h
  rw [findExchangeIndex, okOr_ok_iff, Indexed.findExchangeIndex, exchanges, h1,
    findExchange_iff _ (nodup_sortedExchanges defs), getElem?_enumerate_eq]
  simp

theorem find_exchange_index_error_iff {defs : List Def} {ii : Indexed} (h : build defs = some ii)
    (e : Nat) (x : IndexError) :
    findExchangeIndex ii e = .error x ↔ x = .exchangeIndex ∧ ∀ d ∈ defs, d.exchange ≠ e := by
  obtain ⟨h1, _⟩ := build_some defs ii h
  rw [findExchangeIndex, okOr_error_iff, Indexed.findExchangeIndex, h1, findExchange_enumerate,
    List.findIdx?_eq_none_iff]
  simp only [decide_eq_false_iff_not, mem_sortedExchanges]
  constructor
  · rintro ⟨h2, rfl⟩
    exact ⟨rfl, fun d hd he => h2 e ⟨d, hd, he⟩ rfl⟩
  · rintro ⟨rfl, h2⟩
    exact ⟨fun v ⟨d, hd, he⟩ hv => h2 d hd (he.trans hv), rfl⟩

theorem find_exchange_ok_iff {defs : List Def} {ii : Indexed} (h : build defs = some ii)
    (i e : Nat) : findExchange ii i = .ok e ↔ (exchanges ii)[i]? = some ⟨i, e⟩ := by
  obtain ⟨h1, _⟩ := build_some defs ii h
  rw [findExchange, okOr_ok_iff, findExchange_eq defs ii h, exchanges, h1, getElem?_enumerate_eq]
  simp

theorem find_exchange_error_iff {defs : List Def} {ii : Indexed} (h : build defs = some ii)
    (i : Nat) (x : IndexError) :
    findExchange ii i = .error x ↔ x = .exchangeIndex ∧ (exchanges ii).length ≤ i := by
  obtain ⟨h1, _⟩ := build_some defs ii h
  rw [findExchange, okOr_error_iff, findExchange_eq defs ii h, exchanges, h1, length_enumerate,
    List.getElem?_eq_none_iff]
  exact And.comm

theorem find_asset_index_ok_iff {defs : List Def} {ii : Indexed} (h : build defs = some ii)
    (e n i : Nat) :
    findAssetIndex ii e n = .ok i ↔
      (∃ x, (assets ii)[i]? = some ⟨i, x⟩ ∧ x.exchange = e ∧ x.asset.nameInternal = n) ∧
      ∀ j, j < i → ∀ y, (assets ii)[j]? = some y →
        ¬(y.value.exchange = e ∧ y.value.asset.nameInternal = n) := by
  obtain ⟨_, h2, _⟩ := build_some defs ii h
  rw [findAssetIndex, okOr_ok_iff, Indexed.findAssetIndex, assets, h2, findAsset_enumerate,
    findIdx?_first]
  constructor
  · rintro ⟨⟨x, hx, hp⟩, hlt⟩
    refine ⟨⟨x, (getElem?_enumerate_eq _ _ _).mpr ⟨rfl, hx⟩, by simpa using hp⟩, ?_⟩
    intro j hj y hy
    have := hlt j hj y.value ((getElem?_enumerate_eq _ _ _).mp hy).2
    simpa using this
  · rintro ⟨⟨x, hx, hp⟩, hlt⟩
    refine ⟨⟨x, ((getElem?_enumerate_eq _ _ _).mp hx).2, by simpa using hp⟩, ?_⟩
    intro j hj y hy
    have := hlt j hj ⟨j, y⟩ ((getElem?_enumerate_eq _ _ _).mpr ⟨rfl, hy⟩)
    simpa using this

theorem find_asset_index_error_iff {defs : List Def} {ii : Indexed} (h : build defs = some ii)
    (e n : Nat) (x : IndexError) :
    findAssetIndex ii e n = .error x ↔
      x = .assetIndex ∧ ∀ d ∈ defs, d.exchange = e → ∀ a ∈ d.assetRefs, a.nameInternal ≠ n := by
  obtain ⟨_, h2, _⟩ := build_some defs ii h
  rw [findAssetIndex, okOr_error_iff, Indexed.findAssetIndex, h2, findAsset_enumerate,
    List.findIdx?_eq_none_iff]
  simp only [decide_eq_false_iff_not, mem_sortedAssets, List.mem_flatMap, mem_defAssets]
  constructor
  · rintro ⟨h3, rfl⟩
    exact ⟨rfl, fun d hd he a ha hn => h3 ⟨d.exchange, a⟩ ⟨d, hd, rfl, ha⟩ ⟨he, hn⟩⟩
  · rintro ⟨rfl, h3⟩
    exact ⟨fun y ⟨d, hd, hye, hya⟩ ⟨h4, h5⟩ => h3 d hd (hye ▸ h4) _ hya h5, rfl⟩

theorem find_asset_ok_iff {defs : List Def} {ii : Indexed} (h : build defs = some ii)
    (i : Nat) (x : ExchangeAsset) : findAsset ii i = .ok x ↔ (assets ii)[i]? = some ⟨i, x⟩ := by
  obtain ⟨_, h2, _⟩ := build_some defs ii h
  rw [findAsset, okOr_ok_iff, findAsset_eq defs ii h, assets, h2, getElem?_enumerate_eq]
  simp

theorem find_asset_error_iff {defs : List Def} {ii : Indexed} (h : build defs = some ii)
    (i : Nat) (x : IndexError) :
    findAsset ii i = .error x ↔ x = .assetIndex ∧ (assets ii).length ≤ i := by
  obtain ⟨_, h2, _⟩ := build_some defs ii h
  rw [findAsset, okOr_error_iff, findAsset_eq defs ii h, assets, h2, length_enumerate,
    List.getElem?_eq_none_iff]
  exact And.comm

theorem find_instrument_index_ok_iff {defs : List Def} {ii : Indexed} (h : build defs = some ii)
    (e n i : Nat) :
    findInstrumentIndex ii e n = .ok i ↔
      (∃ x, (instruments ii)[i]? = some ⟨i, x⟩ ∧ x.exchange.value = e ∧ x.nameInternal = n) ∧
      ∀ j, j < i → ∀ y, (instruments ii)[j]? = some y →
        ¬(y.value.exchange.value = e ∧ y.value.nameInternal = n) := by
  rw [findInstrumentIndex, okOr_ok_iff, findInstrumentIndex_eq defs ii h, findIdx?_first, instruments]
  simp only [List.getElem?_map, Option.map_eq_some_iff, decide_eq_true_eq, decide_eq_false_iff_not]
  constructor
  · rintro ⟨⟨x, ⟨y, hy, rfl⟩, hp⟩, hlt⟩
    obtain ⟨_, _, hk, _⟩ := build_instrument_at defs ii h i y hy
    refine ⟨⟨y.value, ?_, hp⟩, fun j hj z hz => hlt j hj z.value ⟨z, hz, rfl⟩⟩
    rw [hy]; congr 1; cases y; simp_all
  · rintro ⟨⟨x, hx, hp⟩, hlt⟩
    exact ⟨⟨x, ⟨_, hx, rfl⟩, hp⟩, fun j hj v ⟨z, hz, hv⟩ => hv ▸ hlt j hj z hz⟩

/-- The error of a failed `find_instrument_index` is the **asset** variant. -/
theorem find_instrument_index_error_iff {defs : List Def} {ii : Indexed} (h : build defs = some ii)
    (e n : Nat) (x : IndexError) :
    findInstrumentIndex ii e n = .error x ↔
      x = .assetIndex ∧ ∀ d ∈ defs, ¬(d.exchange = e ∧ d.nameInternal = n) := by
  rw [findInstrumentIndex, okOr_error_iff, findInstrumentIndex_eq defs ii h, List.findIdx?_eq_none_iff]
  simp only [decide_eq_false_iff_not, List.mem_map]
  constructor
  · rintro ⟨h3, rfl⟩
    refine ⟨rfl, fun d hd hp => ?_⟩
    obtain ⟨k, hk⟩ := List.mem_iff_getElem?.mp ((mem_sortedDefs defs d).mpr hd)
    obtain ⟨_, _, _, hget⟩ := build_some defs ii h
    obtain ⟨i, hi, he, _, hn, _⟩ := hget k d hk
    exact h3 i ⟨⟨k, i⟩, List.mem_of_getElem? hi, rfl⟩ ⟨he.trans hp.1, hn.trans hp.2⟩
  · rintro ⟨rfl, h3⟩
    refine ⟨?_, rfl⟩
    rintro v ⟨y, hy, rfl⟩ hp
    obtain ⟨k, hk⟩ := List.mem_iff_getElem?.mp hy
    obtain ⟨d, hd, _, he, _, hn, _⟩ := build_instrument_at defs ii h k y hk
    exact h3 d ((mem_sortedDefs _ _).mp (List.mem_iff_getElem?.mpr ⟨_, hd⟩)) ⟨he ▸ hp.1, hn ▸ hp.2⟩

theorem find_instrument_ok_iff {defs : List Def} {ii : Indexed} (h : build defs = some ii)
    (i : Nat) (x : IInstrument) :
    findInstrument ii i = .ok x ↔ (instruments ii)[i]? = some ⟨i, x⟩ := by
  rw [findInstrument, okOr_ok_iff, findInstrument_eq defs ii h, instruments]
  constructor
  · intro hx
    simp only [Option.map_eq_some_iff] at hx
    obtain ⟨y, hy, rfl⟩ := hx
    obtain ⟨_, _, hk, _⟩ := build_instrument_at defs ii h i y hy
    rw [hy]; congr 1; cases y; simp_all
  · intro hx; rw [hx]; rfl

theorem find_instrument_error_iff {defs : List Def} {ii : Indexed} (h : build defs = some ii)
    (i : Nat) (x : IndexError) :
    findInstrument ii i = .error x ↔ x = .instrumentIndex ∧ (instruments ii).length ≤ i := by
  rw [findInstrument, okOr_error_iff, findInstrument_eq defs ii h, instruments]
  simp only [Option.map_eq_none_iff, List.getElem?_eq_none_iff]
  exact And.comm

/-- The accessor tables: `exchanges()` holds exactly the exchanges of the definitions,
`assets()` exactly the (exchange, asset) pairs they mention (base, quote, settlement, quantity unit),
each once, and in all three tables the key of an entry is its position. -/
theorem accessor_tables {defs : List Def} {ii : Indexed} (h : build defs = some ii) :
    (∀ e, e ∈ (exchanges ii).map (·.value) ↔ ∃ d ∈ defs, d.exchange = e) ∧
    (∀ x, x ∈ (assets ii).map (·.value) ↔ ∃ d ∈ defs, x.exchange = d.exchange ∧ x.asset ∈ d.assetRefs) ∧
    ((exchanges ii).map (·.value)).Nodup ∧ ((assets ii).map (·.value)).Nodup ∧
    (∀ (k : Nat) x, (exchanges ii)[k]? = some x → x.key = k) ∧
    (∀ (k : Nat) x, (assets ii)[k]? = some x → x.key = k) ∧
    (∀ (k : Nat) x, (instruments ii)[k]? = some x → x.key = k) := by
  obtain ⟨h1, h2, _⟩ := build_some defs ii h
  have hd := C11.dense h
  refine ⟨?_, ?_, ?_, ?_, hd.1, hd.2.1, hd.2.2⟩
  · intro e; rw [exchanges, h1, map_value_enumerate, mem_sortedExchanges]
  · intro x
    rw [assets, h2, map_value_enumerate, mem_sortedAssets, List.mem_flatMap]
    simp only [mem_defAssets]
  · rw [exchanges, h1, map_value_enumerate]; exact nodup_sortedExchanges defs
  · rw [assets, h2, map_value_enumerate]; exact nodup_sortedAssets defs

/-- `exchanges()` lists the exchange ids in strictly ascending (declaration) order. -/
theorem exchanges_sorted {defs : List Def} {ii : Indexed} (h : build defs = some ii) :
    ((exchanges ii).map (·.value)).Pairwise (· < ·) := by
  obtain ⟨h1, _⟩ := build_some defs ii h
  rw [exchanges, h1, map_value_enumerate]
  refine (strict_sortDedup exchangeKey exchangeKey_inj _).imp ?_
  intro a b ⟨hle, hne⟩
  have hle' : [a] ≤ [b] := of_decide_eq_true hle
  have : a ≤ b := by
    rcases Nat.lt_or_ge b a with hlt | hge
    · exact absurd (List.cons_lt_cons_iff.mpr (Or.inl hlt)) (List.not_lt.mpr hle')
    · exact hge
  omega

theorem rank_of_sorted (l : List Nat) (hl : l.Pairwise (· < ·)) (i e : Nat) (hi : l[i]? = some e) :
    (l.filter (· < e)).length = i := by
  induction l generalizing i with
  | nil => simp at hi
  | cons a t ih =>
    have ⟨h1, h2⟩ := List.pairwise_cons.mp hl
    cases i with
    | zero =>
      simp only [List.getElem?_cons_zero, Option.some.injEq] at hi
      subst hi
      rw [List.filter_cons_of_neg (by simp), List.length_eq_zero_iff, List.filter_eq_nil_iff]
      intro b hb; have := h1 b hb; simp; omega
    | succ k =>
      simp only [List.getElem?_cons_succ] at hi
      have hae : a < e := h1 e (List.mem_of_getElem? hi)
      rw [List.filter_cons_of_pos (by simpa using hae), List.length_cons, ih h2 k hi]

/-- `find_exchange_index` as a function of the input alone: the rank of the exchange among the
distinct exchanges of the definitions. -/
theorem find_exchange_index_is_rank {defs : List Def} {ii : Indexed} (h : build defs = some ii)
    (e i : Nat) (hf : findExchangeIndex ii e = .ok i) :
    i = ((specExchanges defs).filter (· < e)).length := by
  have hs := exchanges_sorted h
  have hi := (find_exchange_index_ok_iff h e i).mp hf
  have hv : ((exchanges ii).map (·.value))[i]? = some e := by
    rw [List.getElem?_map, hi]; rfl
  rw [← rank_of_sorted _ hs i e hv]
  exact ((C11.unique_exchanges h).filter _).length_eq

/-- Duplicates: the builder removes only *identical* definitions, so several may share one
(exchange, name_internal). `find_instrument_index` then answers with the one that is least in the
derived order of `Instrument` (the next fields compared are name_exchange, underlying, …); the
others are reachable by position only. -/
theorem find_instrument_index_least {defs : List Def} {ii : Indexed} (h : build defs = some ii)
    (e n i : Nat) (hf : findInstrumentIndex ii e n = .ok i) :
    ∃ d ∈ defs, d.exchange = e ∧ d.nameInternal = n ∧
      (∃ x, (instruments ii)[i]? = some ⟨i, x⟩ ∧ x.nameExchange = d.nameExchange) ∧
      ∀ d' ∈ defs, d'.exchange = e → d'.nameInternal = n →
        Instrument.sortKey d ≤ Instrument.sortKey d' := by
  obtain ⟨⟨x, hx, hxe, hxn⟩, hfirst⟩ := (find_instrument_index_ok_iff h e n i).mp hf
  obtain ⟨d, hd, _, he, _, hn, hne, _⟩ := build_instrument_at defs ii h i _ hx
  have hdm : d ∈ defs := (mem_sortedDefs _ _).mp (List.mem_iff_getElem?.mpr ⟨_, hd⟩)
  refine ⟨d, hdm, he ▸ hxe, hn ▸ hxn, ⟨x, hx, hne⟩, ?_⟩
  intro d' hd' he' hn'
  obtain ⟨k, hk⟩ := List.mem_iff_getElem?.mp ((mem_sortedDefs defs d').mpr hd')
  obtain ⟨_, _, _, hget⟩ := build_some defs ii h
  obtain ⟨y, hy, hye, _, hyn, _⟩ := hget k d' hk
  have hik : i ≤ k := by
    rcases Nat.lt_or_ge k i with hlt | hge
    · exact absurd ⟨hye.trans he', hyn.trans hn'⟩ (hfirst k hlt _ hy)
    · exact hge
  rcases Nat.lt_or_eq_of_le hik with hlt | heq
  · have hs := strict_sortDedup Instrument.sortKey Instrument.sortKey_inj defs
    obtain ⟨hil, hdi⟩ := List.getElem?_eq_some_iff.mp hd
    obtain ⟨hkl, hdk⟩ := List.getElem?_eq_some_iff.mp hk
    have := (List.pairwise_iff_getElem.mp hs) i k hil hkl hlt
    rw [hdi, hdk] at this
    exact of_decide_eq_true this.1
  · subst heq
    rw [hd] at hk; cases hk
    exact List.le_refl _

/-- `assets()` is strictly ascending in (exchange, internal name, exchange name): the derived order
of `ExchangeAsset<Asset>`. Together with `accessor_tables` (its members) this determines the table. -/
theorem assets_sorted {defs : List Def} {ii : Indexed} (h : build defs = some ii) :
    ((assets ii).map (·.value)).Pairwise (fun a b => a.exchange < b.exchange ∨
      (a.exchange = b.exchange ∧ (a.asset.nameInternal < b.asset.nameInternal ∨
        (a.asset.nameInternal = b.asset.nameInternal ∧ a.asset.nameExchange < b.asset.nameExchange)))) := by
  obtain ⟨_, h2, _⟩ := build_some defs ii h
  rw [assets, h2, map_value_enumerate]
  refine (strict_sortDedup ExchangeAsset.sortKey ExchangeAsset.sortKey_inj _).imp ?_
  intro a b ⟨hle, hne⟩
  have h1 : ¬ (ExchangeAsset.sortKey b < ExchangeAsset.sortKey a) :=
    List.not_lt.mpr (of_decide_eq_true hle)
  obtain ⟨ae, ⟨ai, ax⟩⟩ := a
  obtain ⟨be, ⟨bi, bx⟩⟩ := b
  simp only [ExchangeAsset.sortKey, lt3] at h1
  simp only [ne_eq, ExchangeAsset.mk.injEq, Index.Asset.mk.injEq] at hne
  dsimp only
  omega

/-- `instruments()` is ascending in (exchange, internal name) — the first two members of the derived
order of `Instrument`, the pair `find_instrument_index` is keyed by. -/
theorem instruments_sorted {defs : List Def} {ii : Indexed} (h : build defs = some ii) :
    ((instruments ii).map (·.value)).Pairwise (fun a b => a.exchange.value < b.exchange.value ∨
      (a.exchange.value = b.exchange.value ∧ a.nameInternal ≤ b.nameInternal)) := by
  have hs : (sortedDefs defs).Pairwise (fun a b => a.exchange < b.exchange ∨
      (a.exchange = b.exchange ∧ a.nameInternal ≤ b.nameInternal)) :=
    (strict_sortDedup Instrument.sortKey Instrument.sortKey_inj defs).imp
      (fun {a b} hab => le_cons2 (a := a.exchange) (b := a.nameInternal) (a' := b.exchange)
        (b' := b.nameInternal) (of_decide_eq_true hab.1))
  rw [List.pairwise_iff_getElem]
  intro i j hi hj hij
  simp only [List.length_map] at hi hj
  simp only [List.getElem_map]
  obtain ⟨di, hdi, _, hie, _, hin, _⟩ :=
    build_instrument_at defs ii h i _ (List.getElem?_eq_getElem hi)
  obtain ⟨dj, hdj, _, hje, _, hjn, _⟩ :=
    build_instrument_at defs ii h j _ (List.getElem?_eq_getElem hj)
  obtain ⟨hil, hdi'⟩ := List.getElem?_eq_some_iff.mp hdi
  obtain ⟨hjl, hdj'⟩ := List.getElem?_eq_some_iff.mp hdj
  have := (List.pairwise_iff_getElem.mp hs) i j hil hjl hij
  rw [hdi', hdj'] at this
  simp only [instruments] at hie hin hje hjn ⊢
  rw [hie, hin, hje, hjn]
  exact this

/-- `find_asset_index` as a function of the input alone: the number of distinct (exchange, asset)
pairs of the definitions whose (exchange, internal name) comes before the queried pair. -/
theorem find_asset_index_is_rank {defs : List Def} {ii : Indexed} (h : build defs = some ii)
    (e n i : Nat) (hf : findAssetIndex ii e n = .ok i) :
    i = ((specAssets defs).filter
      (fun x => keyLt x.exchange x.asset.nameInternal e n)).length := by
  obtain ⟨⟨x, hx, hxe, hxn⟩, hfirst⟩ := (find_asset_index_ok_iff h e n i).mp hf
  obtain ⟨_, h2, _⟩ := build_some defs ii h
  have hs := strict_sortDedup ExchangeAsset.sortKey ExchangeAsset.sortKey_inj (defs.flatMap defAssets)
  have hs' : (sortedAssets defs).Pairwise (fun a b => a.exchange < b.exchange ∨
      (a.exchange = b.exchange ∧ a.asset.nameInternal ≤ b.asset.nameInternal)) :=
    hs.imp (fun hab => le_cons2 (of_decide_eq_true hab.1))
  have hxi : (sortedAssets defs)[i]? = some x := by
    rw [assets, h2] at hx; exact ((getElem?_enumerate_eq _ _ _).mp hx).2
  have hcount := rank_of_first (fun a : ExchangeAsset => a.exchange) (fun a => a.asset.nameInternal)
    (sortedAssets defs) hs' e n i x hxi hxe hxn (by
      intro j hj y hy
      have := hfirst j hj ⟨j, y⟩ (by
        rw [assets, h2]; exact (getElem?_enumerate_eq _ _ _).mpr ⟨rfl, hy⟩)
      simpa using this)
  rw [← hcount]
  exact ((perm_sortDedup_specDistinct _ ExchangeAsset.sortKey_inj _).filter _).length_eq

/-- `find_instrument_index` as a function of the input alone: the number of distinct definitions
whose (exchange, internal name) comes before the queried pair — whatever else they differ in. -/
theorem find_instrument_index_is_rank {defs : List Def} {ii : Indexed} (h : build defs = some ii)
    (e n i : Nat) (hf : findInstrumentIndex ii e n = .ok i) :
    i = ((specInstruments defs).filter (fun d => keyLt d.exchange d.nameInternal e n)).length := by
  obtain ⟨⟨x, hx, hxe, hxn⟩, hfirst⟩ := (find_instrument_index_ok_iff h e n i).mp hf
  obtain ⟨d, hd, _, he, _, hn, _⟩ := build_instrument_at defs ii h i _ hx
  obtain ⟨_, _, _, hget⟩ := build_some defs ii h
  have hs := strict_sortDedup Instrument.sortKey Instrument.sortKey_inj defs
  have hs' : (sortedDefs defs).Pairwise (fun a b => a.exchange < b.exchange ∨
      (a.exchange = b.exchange ∧ a.nameInternal ≤ b.nameInternal)) :=
    hs.imp (fun {a b} hab => le_cons2 (a := a.exchange) (b := a.nameInternal) (a' := b.exchange)
      (b' := b.nameInternal) (of_decide_eq_true hab.1))
  have hcount := rank_of_first (fun a : Def => a.exchange) (fun a => a.nameInternal)
    (sortedDefs defs) hs' e n i d hd (he ▸ hxe) (hn ▸ hxn) (by
      intro j hj y hy
      obtain ⟨z, hz, hze, _, hzn, _⟩ := hget j y hy
      have := hfirst j hj _ hz
      simp only at this
      rw [hze, hzn] at this
      exact this)
  rw [← hcount]
  exact ((perm_sortDedup_specDistinct _ Instrument.sortKey_inj _).filter _).length_eq

/-- What the entry at the answered index IS (the part `find_instrument_index_least` leaves open): it
carries the names of the least definition `d` under the queried key, its exchange reference is the
position of `d`'s exchange in `exchanges()`, and — when an internal asset name names one asset per
exchange (`WFAssets`; witness of the excluded point: C11 `asset_two_exchange_names_witness`) —
reading it back through the tables by position gives `d` itself: kind, spec and every asset. -/
theorem find_instrument_index_entry {defs : List Def} {ii : Indexed} (h : build defs = some ii)
    (e n i : Nat) (hf : findInstrumentIndex ii e n = .ok i) :
    ∃ d ∈ defs, d.exchange = e ∧ d.nameInternal = n ∧
      (∀ d' ∈ defs, d'.exchange = e → d'.nameInternal = n →
        Instrument.sortKey d ≤ Instrument.sortKey d') ∧
      ∃ x, (instruments ii)[i]? = some ⟨i, x⟩ ∧ x.exchange.value = d.exchange ∧
        x.nameInternal = d.nameInternal ∧ x.nameExchange = d.nameExchange ∧
        (exchanges ii)[x.exchange.key]? = some ⟨x.exchange.key, d.exchange⟩ ∧
        (WFAssets defs → resolve ii x = some d) := by
  obtain ⟨d, hdm, hde, hdn, ⟨x, hx, hxne⟩, hleast⟩ := find_instrument_index_least h e n i hf
  obtain ⟨d0, hd0, _, he0, hk0, hn0, hne0, hres⟩ := build_instrument_at defs ii h i _ hx
  have hd0m : d0 ∈ defs := (mem_sortedDefs _ _).mp (List.mem_iff_getElem?.mpr ⟨_, hd0⟩)
  obtain ⟨⟨x', hx', hxe, hxn⟩, _⟩ := (find_instrument_index_ok_iff h e n i).mp hf
  rw [hx] at hx'; cases hx'
  simp only at he0 hk0 hn0 hne0 hres
  have h1 := build_some defs ii h
  refine ⟨d0, hd0m, he0 ▸ hxe, hn0 ▸ hxn, ?_, x, hx, he0, hn0, hne0, ?_, hres⟩
  · intro d' hd' he' hn'
    have hle := hleast d0 hd0m (he0 ▸ hxe) (hn0 ▸ hxn)
    have hle0 : Instrument.sortKey d0 ≤ Instrument.sortKey d := by
      -- `d0` sits at position `i`, `d` somewhere in the sorted table at or after the first match
      obtain ⟨k, hk⟩ := List.mem_iff_getElem?.mp ((mem_sortedDefs defs d).mpr hdm)
      obtain ⟨_, _, _, hget⟩ := h1
      obtain ⟨y, hy, hye, _, hyn, _⟩ := hget k d hk
      obtain ⟨_, hfirst⟩ := (find_instrument_index_ok_iff h e n i).mp hf
      have hik : i ≤ k := by
        rcases Nat.lt_or_ge k i with hlt | hge
        · exact absurd ⟨hye.trans hde, hyn.trans hdn⟩ (hfirst k hlt _ hy)
        · exact hge
      rcases Nat.lt_or_eq_of_le hik with hlt | heq
      · have hs := strict_sortDedup Instrument.sortKey Instrument.sortKey_inj defs
        obtain ⟨hil, hdi⟩ := List.getElem?_eq_some_iff.mp hd0
        obtain ⟨hkl, hdk⟩ := List.getElem?_eq_some_iff.mp hk
        have := (List.pairwise_iff_getElem.mp hs) i k hil hkl hlt
        rw [hdi, hdk] at this
        exact of_decide_eq_true this.1
      · subst heq
        rw [hd0] at hk; cases hk
        exact List.le_refl _
    exact List.le_trans hle0 (hleast d' hd' he' hn')
  · rw [exchanges, h1.1, getElem?_enumerate_eq]
    exact ⟨rfl, hk0⟩

/-! ## F. `Instrument` constructors, key mapping, kind accessors -/

/-- `Instrument::new` normalises exactly the internal name; `Instrument::spot` is `new` with the
underlying quote as quote asset and the spot kind. (Definitional - nine `rfl`; bookkeeping.) -/
theorem instrument_new_fields {E A : Type} (e : E) (ni ne : Str) (b q : A) (qa : Nat) (k : Kind A)
    (sp : Option (Spec A)) :
    let i := Names.Instrument.new e ni ne b q qa k sp
    i.exchange = e ∧ i.nameInternal = .new ni ∧ i.nameExchange.name = ne ∧ i.base = b ∧ i.quote = q ∧
      i.quoteAsset = qa ∧ i.kind = k ∧ i.spec = sp ∧
      Names.Instrument.spot e ni ne b q sp = Names.Instrument.new e ni ne b q 1 .spot sp :=
  ⟨rfl, rfl, rfl, rfl, rfl, rfl, rfl, rfl, rfl⟩

/-- `map_exchange_key` replaces the exchange key and nothing else; mapping twice = mapping once.
(Definitional; bookkeeping.) -/
theorem map_exchange_key_laws {E E' E'' A : Type} (i : Names.Instrument E A) (e' : E') (e'' : E'') :
    (i.mapExchangeKey e').exchange = e' ∧ (i.mapExchangeKey e').assetRefs = i.assetRefs ∧
      (i.mapExchangeKey e').nameInternal = i.nameInternal ∧
      (i.mapExchangeKey e').mapExchangeKey e'' = i.mapExchangeKey e'' ∧ i.mapExchangeKey i.exchange = i :=
  ⟨rfl, rfl, rfl, rfl, by cases i; rfl⟩

/-- `map_asset_key_with_lookup` fails exactly with the lookup's error for the first asset reference
(base, quote, settlement asset, quantity-unit asset) that the lookup does not find … -/
theorem map_asset_key_error_iff {ε E A B : Type} (f : A → Except ε B) (i : Names.Instrument E A) (x : ε) :
    i.mapAssetKeyWithLookup f = .error x ↔
      ∃ pre a post, i.assetRefs = pre ++ a :: post ∧ (∀ p ∈ pre, ∃ b, f p = .ok b) ∧ f a = .error x := by
  rw [mapAssetKey_error_iff, firstError_some_iff]

/-- … and succeeds exactly when every reference is found. -/
theorem map_asset_key_ok_iff {ε E A B : Type} (f : A → Except ε B) (i : Names.Instrument E A) :
    (∃ r, i.mapAssetKeyWithLookup f = .ok r) ↔ ∀ a ∈ i.assetRefs, ∃ b, f a = .ok b := by
  rw [except_cases, ← firstError_none_iff]
  simp only [mapAssetKey_error_iff]
  cases firstError f i.assetRefs <;> simp

/-- The success VALUE, for a general lookup: when the lookup answers every reference `a` with
`g a`, the result is the instrument with `g` applied to base, quote, settlement asset and
quantity-unit asset, and nothing else changed. -/
theorem map_asset_key_ok_value {ε E A B : Type} (f : A → Except ε B) (g : A → B)
    (i : Names.Instrument E A) (h : ∀ a ∈ i.assetRefs, f a = .ok (g a)) :
    i.mapAssetKeyWithLookup f = .ok
      { exchange := i.exchange, nameInternal := i.nameInternal, nameExchange := i.nameExchange,
        base := g i.base, quote := g i.quote, quoteAsset := i.quoteAsset,
        kind := kindMap g i.kind, spec := specMap g i.spec } := by
  obtain ⟨e, ni, ne, b, q, qa, k, sp⟩ := i
  simp only [Names.Instrument.assetRefs, List.mem_append, List.mem_cons, List.not_mem_nil, or_false,
    Option.mem_toList] at h
  have hb := h b (Or.inl (Or.inl (Or.inl rfl)))
  have hq := h q (Or.inl (Or.inl (Or.inr rfl)))
  have hk : kindMapE f k = .ok (kindMap g k) := by
    cases k <;> simp only [kindMapE, kindMap]
    all_goals (rw [h _ (Or.inl (Or.inr rfl))]; rfl)
  have hs : specMapE f sp = .ok (specMap g sp) := by
    cases sp with
    | none => rfl
    | some s =>
      obtain ⟨pm, tk, u, qm, qi, nm⟩ := s
      cases u with
      | asset a =>
        have := h a (Or.inr rfl)
        simp only [specMapE, specMap, this]; rfl
      | contract => rfl
      | quote => rfl
  simp only [Names.Instrument.mapAssetKeyWithLookup, hb, hq, hk, hs]

/-- The C11 builder model uses the `Option` form of this function (an `Err` is a panic there): it is
this function with the error forgotten. -/
theorem map_asset_key_is_builders {ε E A B : Type} (f : A → Except ε B) (i : Names.Instrument E A) :
    (i.mapAssetKeyWithLookup f).toOption.map eraseNames =
      (eraseNames i).mapAssetKeyWithLookup (fun a => (f a).toOption) :=
  mapAssetKey_option_view f i

/-- the identity lookup is the identity -/
theorem map_asset_key_id {ε E A : Type} (i : Names.Instrument E A) :
    i.mapAssetKeyWithLookup (fun a => (Except.ok a : Except ε A)) = .ok i := by
  obtain ⟨e, ni, ne, b, q, qa, k, sp⟩ := i
  cases k <;> cases sp <;> simp [Names.Instrument.mapAssetKeyWithLookup, kindMapE, specMapE, Except.map]
  all_goals (rename_i s; obtain ⟨pm, tk, u, qm, qi, nm⟩ := s; cases u <;> simp)

/-- The market-data view of an instrument: internal names of the underlying, the kind without
contract size and settlement asset; `eq_market_data_instrument_kind` accepts it; spot has contract
size 1. -/
theorem market_data_of_instrument {E : Type} (i : Names.Instrument E Names.Asset) :
    (MarketDataInstrument.ofInstrument i).base = i.base.nameInternal ∧
    (MarketDataInstrument.ofInstrument i).quote = i.quote.nameInternal ∧
    eqMarketDataKind i.kind (MarketDataInstrument.ofInstrument i).kind = true ∧
    contractSize (Kind.spot : Kind Names.Asset) = 1 := by
  refine ⟨rfl, rfl, ?_, rfl⟩
  cases h : i.kind <;>
    simp [MarketDataInstrument.ofInstrument, MDKind.ofKind, eqMarketDataKind, h, Dec.toRat]
  grind

/-- `MarketDataInstrument::new` lower-cases both names; its `Display` is `base_quote_kind`.
(Definitional up to `internal_name_is_lowercased`; bookkeeping.) -/
theorem market_data_new (b q : Str) (k : MDKind) :
    (MarketDataInstrument.new b q k).base.name = lowerStr b ∧
    (MarketDataInstrument.new b q k).quote.name = lowerStr q ∧
    (MarketDataInstrument.new b q k).display = lowerStr b ++ '_' :: lowerStr q ++ '_' :: k.display := by
  simp [MarketDataInstrument.new, MarketDataInstrument.display, AssetNameInternal.new,
    AssetNameInternal.display, nameNew_eq_lowerStr]

/-! ## G. the lookup API on string-named definitions: refinement to the documented behaviour -/

theorem build_total (defs : List SDef) : ∃ ii, buildS defs = some ii := C11.build_total _

/-- `find_exchange_index` answers `Ok` exactly for the exchanges added during initialisation,
otherwise `IndexError::ExchangeIndex`; the positional lookup of the answer gives the exchange back. -/
theorem lookup_exchange_refines_spec {defs : List SDef} {ii : Indexed} (h : buildS defs = some ii)
    (e : ExchangeId) :
    ((∃ i, findExchangeIndex ii e.toNat = .ok i) ↔ specHasExchange defs e = true) ∧
    (∀ x, findExchangeIndex ii e.toNat = .error x → x = .exchangeIndex) ∧
    (∀ i, findExchangeIndex ii e.toNat = .ok i → findExchange ii i = .ok e.toNat) := by
  refine ⟨?_, fun x hx => ((find_exchange_index_error_iff h _ x).mp hx).1, fun i hi => ?_⟩
  · rw [except_cases]
    simp only [find_exchange_index_error_iff h, specHasExchange, List.any_eq_true, beq_iff_eq,
      List.mem_map]
    constructor
    · intro hne
      apply Classical.byContradiction
      intro hno
      exact hne ⟨_, rfl, fun d ⟨d', hd', hdd⟩ he => hno ⟨d', hd', toNat_inj (by rw [← hdd] at he; exact he)⟩⟩
    · rintro ⟨d, hd, rfl⟩ ⟨x, _, hx⟩
      exact hx (toDef d) ⟨d, hd, rfl⟩ rfl
  · exact (find_exchange_ok_iff h i _).mpr ((find_exchange_index_ok_iff h _ i).mp hi)

/-- `find_asset_index(exchange, name)`: `Ok` exactly when a definition on that exchange mentions an
asset (base, quote, settlement, quantity unit) with that internal name, otherwise
`IndexError::AssetIndex`; `find_asset` of the answer is an asset of that exchange with that name. -/
theorem lookup_asset_refines_spec {defs : List SDef} {ii : Indexed} (h : buildS defs = some ii)
    (hshort : ∀ d ∈ defs, d.Short) (e : ExchangeId) (n : AssetNameInternal) (hn : n.name.length ≤ L) :
    ((∃ i, findAssetIndexS ii e n = .ok i) ↔ specHasAsset defs e n = true) ∧
    (∀ x, findAssetIndexS ii e n = .error x → x = .assetIndex) ∧
    (∀ i, findAssetIndexS ii e n = .ok i →
      ∃ y, findAsset ii i = .ok y ∧ y.exchange = e.toNat ∧ y.asset.nameInternal = code n.name) := by
  refine ⟨?_, fun x hx => ((find_asset_index_error_iff h _ _ x).mp hx).1, fun i hi => ?_⟩
  · rw [except_cases]
    simp only [findAssetIndexS, find_asset_index_error_iff h, specHasAsset, List.any_eq_true,
      Bool.and_eq_true, beq_iff_eq, List.mem_map]
    constructor
    · intro hne
      apply Classical.byContradiction
      intro hno
      refine hne ⟨_, rfl, ?_⟩
      rintro d ⟨d', hd', rfl⟩ he a ha hcode
      rw [toDef_assetRefs, List.mem_map] at ha
      obtain ⟨a', ha', rfl⟩ := ha
      refine hno ⟨d', hd', toNat_inj he, a', ha', ?_⟩
      have hs := ((hshort d' hd').2.2 a' ha').1
      have := code_inj _ _ hs hn hcode
      cases hx : a'.nameInternal; cases n; simp_all
    · rintro ⟨d, hd, rfl, a, ha, rfl⟩ ⟨x, _, hx⟩
      exact hx (toDef d) ⟨d, hd, rfl⟩ rfl a.erase
        (by rw [toDef_assetRefs]; exact List.mem_map.mpr ⟨a, ha, rfl⟩) rfl
  · obtain ⟨⟨y, hy, hye, hyn⟩, _⟩ := (find_asset_index_ok_iff h _ _ i).mp hi
    exact ⟨y, (find_asset_ok_iff h i y).mpr hy, hye, hyn⟩

/-- `find_instrument_index(exchange, name)`: `Ok` exactly when a definition with that exchange and
that internal name was added; `find_instrument` of the answer is such an instrument. The error of a
miss is `IndexError::AssetIndex` — NOT the `InstrumentIndex` variant that index/error.rs documents
for "a failure to find an InstrumentIndex for a given instrument identifier". -/
theorem lookup_instrument_refines_spec {defs : List SDef} {ii : Indexed} (h : buildS defs = some ii)
    (hshort : ∀ d ∈ defs, d.Short) (e : ExchangeId) (n : InstrumentNameInternal)
    (hn : n.name.length ≤ L) :
    ((∃ i, findInstrumentIndexS ii e n = .ok i) ↔ specHasInstrument defs e n = true) ∧
    (∀ x, findInstrumentIndexS ii e n = .error x → x = .assetIndex) ∧
    (∀ i, findInstrumentIndexS ii e n = .ok i →
      ∃ y, findInstrument ii i = .ok y ∧ y.exchange.value = e.toNat ∧ y.nameInternal = code n.name) := by
  refine ⟨?_, fun x hx => ((find_instrument_index_error_iff h _ _ x).mp hx).1, fun i hi => ?_⟩
  · rw [except_cases]
    simp only [findInstrumentIndexS, find_instrument_index_error_iff h, specHasInstrument,
      List.any_eq_true, Bool.and_eq_true, beq_iff_eq, List.mem_map]
    constructor
    · intro hne
      apply Classical.byContradiction
      intro hno
      refine hne ⟨_, rfl, ?_⟩
      rintro d ⟨d', hd', rfl⟩ ⟨he, hcode⟩
      refine hno ⟨d', hd', toNat_inj he, ?_⟩
      have := code_inj _ _ (hshort d' hd').1 hn hcode
      cases hx : d'.nameInternal; cases n; simp_all
    · rintro ⟨d, hd, rfl, rfl⟩ ⟨x, _, hx⟩
      exact hx (toDef d) ⟨d, hd, rfl⟩ ⟨rfl, rfl⟩
  · obtain ⟨⟨y, hy, hye, hyn⟩, _⟩ := (find_instrument_index_ok_iff h _ _ i).mp hi
    exact ⟨y, (find_instrument_ok_iff h i y).mpr hy, hye, hyn⟩

/-- The counter-documentation fact on its own: a missing instrument is reported with the asset
variant, whatever the index. -/
theorem missing_instrument_reports_asset_error {defs : List Def} {ii : Indexed}
    (h : build defs = some ii) (e n : Nat) (x : IndexError)
    (hx : findInstrumentIndex ii e n = .error x) : x = .assetIndex ∧ x ≠ .instrumentIndex := by
  have := ((find_instrument_index_error_iff h e n x).mp hx).1
  subst this
  exact ⟨rfl, by decide⟩

/-- Lookups by name depend on the name handed to the constructor only through its lower-casing
(no hypothesis on the index: a congruence on the constructor). -/
theorem lookup_ignores_case' (ii : Indexed) (e : ExchangeId) (s t : Str)
    (h : lowerStr s = lowerStr t) :
    findAssetIndexS ii e (.new s) = findAssetIndexS ii e (.new t) ∧
    findInstrumentIndexS ii e (.new s) = findInstrumentIndexS ii e (.new t) := by
  simp [AssetNameInternal.new, InstrumentNameInternal.new, nameNew_eq_lowerStr, h]

/-- Corollary in the documented vocabulary: lookups by name ignore the case of the (ASCII) name. -/
theorem lookup_ignores_case (ii : Indexed) (e : ExchangeId) (s t : Str) (hs : IsAscii s)
    (ht : IsAscii t) (hc : caseEq s t = true) :
    findAssetIndexS ii e (.new s) = findAssetIndexS ii e (.new t) ∧
    findInstrumentIndexS ii e (.new s) = findInstrumentIndexS ii e (.new t) := by
  apply lookup_ignores_case'
  rw [lowerStr_ascii s hs, lowerStr_ascii t ht]
  exact (caseEq_iff s t).mp hc

/-- Positional lookups: index `i` is valid exactly below the table length; an out-of-range index
gives the error variant of its own kind. -/
theorem positional_lookups {defs : List Def} {ii : Indexed} (h : build defs = some ii) (i : Nat) :
    ((∃ e, findExchange ii i = .ok e) ↔ i < (exchanges ii).length) ∧
    ((∃ a, findAsset ii i = .ok a) ↔ i < (assets ii).length) ∧
    ((∃ x, findInstrument ii i = .ok x) ↔ i < (instruments ii).length) := by
  refine ⟨?_, ?_, ?_⟩
  · rw [except_cases]; simp only [find_exchange_error_iff h]; simp
  · rw [except_cases]; simp only [find_asset_error_iff h]; simp
  · rw [except_cases]; simp only [find_instrument_error_iff h]; simp

/-! ### the tables and the lookup values as functions of the definitions (what the spec driver prints) -/

/-- `exchanges()` = the variants of the enum that occur in the definitions, in declaration order. -/
theorem exchange_table_is_spec {defs : List SDef} {ii : Indexed} (h : buildS defs = some ii) :
    (exchanges ii).map (·.value) = (specExchangeTable defs).map ExchangeId.toNat := by
  obtain ⟨h1, _⟩ := build_some _ ii h
  rw [exchanges, h1, map_value_enumerate]
  apply strict_ext (leKey exchangeKey) (leKey_antisymm exchangeKey exchangeKey_inj)
  · exact strict_sortDedup exchangeKey exchangeKey_inj _
  · unfold Strict specExchangeTable
    rw [List.pairwise_map]
    exact all_toNat_strict.filter _
  · intro x
    rw [mem_sortedExchanges]
    simp only [List.mem_map, specExchangeTable, List.mem_filter, specHasExchange, List.any_eq_true,
      beq_iff_eq]
    constructor
    · rintro ⟨_, ⟨d, hd, rfl⟩, rfl⟩
      exact ⟨d.exchange, ⟨mem_all _, d, hd, rfl⟩, rfl⟩
    · rintro ⟨e, ⟨_, d, hd, rfl⟩, rfl⟩
      exact ⟨toDef d, ⟨d, hd, rfl⟩, rfl⟩

/-- `assets()` = the distinct (exchange, asset) pairs of the definitions inserted one by one into a
list ascending in (exchange, internal name, exchange name) — the specification's own "sorted +
deduped", written without the builder — seen through the name code. -/
theorem asset_table_is_spec {defs : List SDef} {ii : Indexed} (h : buildS defs = some ii)
    (hshort : ∀ d ∈ defs, d.Short) :
    (assets ii).map (·.value) = (specAssetTable defs).map eraseEntry := by
  obtain ⟨_, h2, _⟩ := build_some _ ii h
  have hsh : ∀ x ∈ specAssetEntries defs,
      x.2.nameInternal.name.length ≤ L ∧ x.2.nameExchange.name.length ≤ L := by
    intro x hx
    obtain ⟨d, hd, _, ha⟩ := (mem_specAssetEntries defs x).mp hx
    exact (hshort d hd).2.2 x.2 ha
  rw [assets, h2, map_value_enumerate, sortedAssets, flatMap_defAssets_toDef]
  exact (specSortDistinct_map_eq specAssetLt eraseEntry ExchangeAsset.sortKey
    ExchangeAsset.sortKey_inj _
    (fun a ha b hb => specAssetLt_key a b (hsh a ha) (hsh b hb))).symm

/-- the `ExchangeIndex` `find_exchange_index` answers, as a function of the definitions -/
theorem lookup_exchange_index_value {defs : List SDef} {ii : Indexed} (h : buildS defs = some ii)
    (e : ExchangeId) (i : Nat) (hf : findExchangeIndex ii e.toNat = .ok i) :
    i = specExchangeIndex defs e := by
  have hi := (find_exchange_index_ok_iff h e.toNat i).mp hf
  have hv : ((exchanges ii).map (·.value))[i]? = some e.toNat := by
    rw [List.getElem?_map, hi]; rfl
  rw [exchange_table_is_spec h, List.getElem?_map] at hv
  obtain ⟨e', he', hee⟩ := Option.map_eq_some_iff.mp hv
  have := toNat_inj hee
  subst this
  obtain ⟨hil, hget⟩ := List.getElem?_eq_some_iff.mp he'
  have hnd : (specExchangeTable defs).Nodup := exchange_all_length.2.filter _
  unfold specExchangeIndex
  rw [← hget, hnd.idxOf_getElem]

/-- the `AssetIndex` `find_asset_index` answers, as a function of the definitions: the number of
distinct (exchange, asset) pairs mentioned whose (exchange, internal name) comes before the query —
exchanges in declaration order, names in Rust's string order. -/
theorem lookup_asset_index_value {defs : List SDef} {ii : Indexed} (h : buildS defs = some ii)
    (hshort : ∀ d ∈ defs, d.Short) (e : ExchangeId) (n : AssetNameInternal) (hn : n.name.length ≤ L)
    (i : Nat) (hf : findAssetIndexS ii e n = .ok i) : i = specAssetIndex defs e n := by
  have hrank := find_asset_index_is_rank h _ _ i hf
  rw [hrank]
  unfold specAssets specAssetIndex
  rw [flatMap_defAssets_toDef]
  have hsh : ∀ x ∈ specAssetEntries defs,
      x.2.nameInternal.name.length ≤ L ∧ x.2.nameExchange.name.length ≤ L := by
    intro x hx
    obtain ⟨d, hd, _, ha⟩ := (mem_specAssetEntries defs x).mp hx
    exact (hshort d hd).2.2 x.2 ha
  apply distinct_filter_map_length eraseEntry
  · intro x hx y hy hxy
    obtain ⟨xe, ⟨⟨xi⟩, ⟨xx⟩⟩⟩ := x
    obtain ⟨ye, ⟨⟨yi⟩, ⟨yx⟩⟩⟩ := y
    have hx' := hsh _ hx
    have hy' := hsh _ hy
    simp only [eraseEntry, Asset.erase, ExchangeAsset.mk.injEq, Index.Asset.mk.injEq] at hxy
    obtain ⟨h1, h2, h3⟩ := hxy
    have e1 : xe = ye := toNat_inj h1
    have e2 : xi = yi := code_inj _ _ hx'.1 hy'.1 h2
    have e3 : xx = yx := code_inj _ _ hx'.2 hy'.2 h3
    rw [e1, e2, e3]
  · intro x hx
    exact specKeyLt_code x.1 e x.2.nameInternal.name n.name (hsh x hx).1 hn

/-- the `InstrumentIndex` `find_instrument_index` answers, as a function of the definitions: the
number of distinct definitions whose (exchange, internal name) comes before the query. -/
theorem lookup_instrument_index_value {defs : List SDef} {ii : Indexed} (h : buildS defs = some ii)
    (hshort : ∀ d ∈ defs, d.Short) (e : ExchangeId) (n : InstrumentNameInternal)
    (hn : n.name.length ≤ L) (i : Nat) (hf : findInstrumentIndexS ii e n = .ok i) :
    i = specInstrumentIndex defs e n := by
  have hrank := find_instrument_index_is_rank h _ _ i hf
  rw [hrank]
  unfold specInstruments specInstrumentIndex
  apply distinct_filter_map_length toDef
  · intro x hx y hy hxy
    exact toDef_inj x y (hshort x hx) (hshort y hy) hxy
  · intro x hx
    exact specKeyLt_code x.exchange e x.nameInternal.name n.name (hshort x hx).1 hn

/-- the values of the positional lookups `find_exchange` / `find_asset`: the entry at that position
of the specification's table -/
theorem positional_values {defs : List SDef} {ii : Indexed} (h : buildS defs = some ii)
    (hshort : ∀ d ∈ defs, d.Short) (i : Nat) :
    (∀ v, findExchange ii i = .ok v ↔ ((specExchangeTable defs)[i]?).map ExchangeId.toNat = some v) ∧
    (∀ y, findAsset ii i = .ok y ↔ ((specAssetTable defs)[i]?).map eraseEntry = some y) := by
  have hk : ∀ {α : Type} (l : List (Keyed Nat α)) (v : α),
      (∀ (k : Nat) x, l[k]? = some x → x.key = k) →
      (l[i]? = some ⟨i, v⟩ ↔ (l.map (·.value))[i]? = some v) := by
    intro α l v hkey
    rw [List.getElem?_map]
    constructor
    · intro hx; rw [hx]; rfl
    · intro hx
      obtain ⟨x, hx1, hx2⟩ := Option.map_eq_some_iff.mp hx
      have := hkey i x hx1
      rw [hx1]; cases x; simp_all
  have hd := C11.dense h
  constructor
  · intro v
    rw [find_exchange_ok_iff h, hk (exchanges ii) v hd.1, exchange_table_is_spec h, List.getElem?_map]
  · intro y
    rw [find_asset_ok_iff h, hk (assets ii) y hd.2.1, asset_table_is_spec h hshort, List.getElem?_map]

/-! ## H. what `Display` prints for decimals and dates -/

/-- The date part of a market-data kind is a real calendar position (month 1–12, day 1–31). -/
theorem civil_ranges (n : Nat) :
    1 ≤ (civil n).2.1 ∧ (civil n).2.1 ≤ 12 ∧ 1 ≤ (civil n).2.2 ∧ (civil n).2.2 ≤ 31 := by
  simp only [civil]
  split <;> omega

theorem dec_display_integer (m : Int) :
    (Dec.mk m 0).display = (if m < 0 then ['-'] else []) ++ Nat.toDigits 10 m.natAbs := by
  have := @Nat.length_toDigits_pos 10 m.natAbs
  simp only [Dec.display]
  have h : 0 + 1 - (Nat.toDigits 10 m.natAbs).length = 0 := by omega
  simp [h]

/-- `Display` shows the scale: equal decimals (so equal, and equally hashed, `MarketDataInstrument`s)
can print differently, e.g. strike 50000 vs 50000.0. -/
theorem display_not_value_function :
    (Dec.mk 50000 0).toRat = (Dec.mk 500000 1).toRat ∧
      (Dec.mk 50000 0).display ≠ (Dec.mk 500000 1).display := by
  refine ⟨?_, by decide⟩
  simp [Dec.toRat]
  grind

/-! ## Non-vacuity -/

example : IsAscii "BtC_usdt-1".toList := by decide
example : (AssetNameInternal.new "BtC_usdt-1".toList).name = "btc_usdt-1".toList := by decide
example : caseEq "BtC".toList "bTc".toList = true ∧ caseEq "btc".toList "bt_".toList = false := by decide
/-- outside ASCII, inside the modelled blocks (Latin-1, Greek, Cyrillic, U+0130 → two characters) -/
example : (AssetNameInternal.new "ÀΣЯİx".toList).name = "àσяi̇x".toList := by decide
example : ¬ IsAscii "ÀΣЯİx".toList := by decide
example : (InstrumentNameInternal.newFromExchange .gateioPerpetualsUsd "BTC_USDT".toList).name =
    "gateio_perpetuals_usd-btc_usdt".toList := by decide
example : '_' ∈ ExchangeId.binanceSpot.asStr ∧ '_' ∉ ExchangeId.kraken.asStr := by decide
example : (Dec.mk (-5) 3).display = "-0.005".toList ∧ (Dec.mk 0 2).display = "0.00".toList := by decide
example : dateDisplay 951782400000 = "2000-02-29".toList ∧
    dateDisplay 253402300799999 = "9999-12-31".toList := by decide
example : (MarketDataInstrument.new "BTC".toList "usd".toList
    (.option 1 1 1703980800000 ⟨500000, 1⟩)).display =
      "btc_usd_option_put_bermudan_2023-12-31-UTC_50000.0".toList := by decide
example : code "BTC".toList < code "btc".toList ∧ code "ab".toList < code "abc".toList ∧
    decode (code "xbt/usd".toList) = "xbt/usd".toList := by decide +kernel

/-- Three definitions: two on one exchange sharing the internal name `btc_usdt` (written in two
cases, different exchange names: both are kept), the assets written through `Asset::new`. -/
def exBtc : Names.Asset := Asset.new "BTC".toList "XBT".toList
def exUsdt : Names.Asset := Asset.new "usdt".toList "USDT".toList
def exDefs : List SDef :=
  [ Names.Instrument.new .binanceSpot "BTC_USDT".toList "XBTUSDT".toList exBtc exUsdt 1 .spot none,
    Names.Instrument.new .binanceSpot "btc_usdt".toList "BTCUSDT".toList exBtc exUsdt 1
      (.perpetual 1 exUsdt) (some ⟨1, 1, .asset exBtc, 1, 1, 1⟩),
    Names.Instrument.spot .kraken "Btc_Usdt".toList "XBT/USDT".toList exBtc exUsdt none ]

example : ∀ d ∈ exDefs, d.Short := by decide
example : ∃ ii, buildS exDefs = some ii ∧
    (∃ i, findInstrumentIndexS ii .binanceSpot (.new "Btc_usdT".toList) = .ok i) ∧
    (∃ i, findAssetIndexS ii .kraken (.new "BTC".toList) = .ok i) ∧
    findInstrumentIndexS ii .okx (.new "Btc_usdT".toList) = .error .assetIndex ∧
    findExchangeIndex ii ExchangeId.okx.toNat = .error .exchangeIndex := by
  obtain ⟨ii, h⟩ := build_total exDefs
  have hs : ∀ d ∈ exDefs, d.Short := by decide
  refine ⟨ii, h, ?_, ?_, ?_, ?_⟩
  · exact (lookup_instrument_refines_spec h hs _ _ (by decide)).1.mpr (by decide)
  · exact (lookup_asset_refines_spec h hs _ _ (by decide)).1.mpr (by decide)
  · have h3 := lookup_instrument_refines_spec h hs .okx (.new "Btc_usdT".toList) (by decide)
    cases hr : findInstrumentIndexS ii .okx (.new "Btc_usdT".toList) with
    | ok i => exact absurd (h3.1.mp ⟨i, hr⟩) (by decide)
    | error x => rw [h3.2.1 x hr]
  · have h3 := lookup_exchange_refines_spec h .okx
    cases hr : findExchangeIndex ii ExchangeId.okx.toNat with
    | ok i => exact absurd (h3.1.mp ⟨i, hr⟩) (by decide)
    | error x => rw [h3.2.1 x hr]
/-- the specification's tables and index values on `exDefs`, and the builder model agreeing -/
example : specExchangeTable exDefs = [.binanceSpot, .kraken] ∧
    specAssetTable exDefs =
      [(.binanceSpot, exBtc), (.binanceSpot, exUsdt), (.kraken, exBtc), (.kraken, exUsdt)] ∧
    specAssetIndex exDefs .kraken (.new "BTC".toList) = 2 ∧
    specInstrumentIndex exDefs .kraken (.new "btc_USDT".toList) = 2 ∧
    specWFAssets exDefs = true := by decide +kernel
example : ∃ ii, buildS exDefs = some ii ∧
    findAssetIndexS ii .kraken (.new "BTC".toList) = .ok 2 ∧
    findInstrumentIndexS ii .kraken (.new "btc_USDT".toList) = .ok 2 ∧
    findExchangeIndex ii ExchangeId.kraken.toNat = .ok 1 := by
  obtain ⟨ii, h⟩ := build_total exDefs
  have hs : ∀ d ∈ exDefs, d.Short := by decide
  refine ⟨ii, h, ?_, ?_, ?_⟩
  · obtain ⟨i, hi⟩ := (lookup_asset_refines_spec h hs .kraken (.new "BTC".toList) (by decide)).1.mpr
      (by decide)
    rw [hi, lookup_asset_index_value h hs _ _ (by decide) i hi]
    congr 1
  · obtain ⟨i, hi⟩ := (lookup_instrument_refines_spec h hs .kraken (.new "btc_USDT".toList)
      (by decide)).1.mpr (by decide)
    rw [hi, lookup_instrument_index_value h hs _ _ (by decide) i hi]
    congr 1
  · obtain ⟨i, hi⟩ := (lookup_exchange_refines_spec h .kraken).1.mpr (by decide)
    rw [hi, lookup_exchange_index_value h _ i hi]
    congr 1
/-- quote is checked before the settlement asset: with both unknown the error names the quote -/
example : Names.Instrument.mapAssetKeyWithLookup
    (fun a : Names.Asset => if a.nameInternal.name = "btc".toList then
      (Except.ok a.nameExchange : Except AssetNameInternal AssetNameExchange) else .error a.nameInternal)
    (Names.Instrument.new ExchangeId.kraken "x".toList "X".toList exBtc exUsdt 1
      (.perpetual 1 (Asset.new "eth".toList "ETH".toList)) none) = .error ⟨"usdt".toList⟩ := by
  rw [mapAssetKey_error_iff]
  decide
/-- the perpetual of `exDefs`: base is found, quote `usdt` is the first reference that is not -/
example : Names.Instrument.mapAssetKeyWithLookup
    (fun a : Names.Asset => if a.nameInternal.name = "usdt".toList then
      (Except.error a.nameInternal : Except AssetNameInternal AssetNameExchange) else .ok a.nameExchange)
    exDefs[1] = .error ⟨"usdt".toList⟩ := by
  rw [mapAssetKey_error_iff]
  decide

end BarterModel.Props.C11N
