import BarterModel.Lemmas.Stale
import BarterModel.Lemmas.Orders
import BarterModel.Lemmas.Review1
import BarterModel.Lemmas.KernelsAgree.RegistersSM
import BarterModel.Lemmas.KernelsAgree.OrdersSM
/-!
# C09 — Late or duplicate exchange messages never roll engine state back

A *register* is `Option (time × value)` updated by `upd strict` (Model/Stale.lean): the balance of an
asset (`strict = false`), the last traded price and the top of book of an instrument
(`strict = true`), and — via the C01 model — the open-order details of a tracked order
(`strict = false`). `deliver strict h ms` delivers the message list `ms` (any order, any
duplicates) to a register holding `h`.
**Open-order details**: the register statement holds PER TRACKING EPISODE of an order (section "Added
after the independent review" at the end: `order_details_episode_register`,
`order_details_carry_max_within_episode`); across episodes the code rolls back
(`order_details_roll_back_witness`; known finding `clause=ord_resurrected`).
-/
namespace BarterModel.Props.C09
open BarterModel.Stale BarterModel.Orders

variable {α : Type}

/-- (1) `carries_max`: after delivering any non-empty list of timestamped messages, in whatever
order and with whatever repetitions, the register holds a message that was actually delivered and
whose timestamp is the greatest delivered. -/
theorem carries_max (s : Bool) (ms : List (Msg α)) (hne : ms ≠ []) :
    ∃ r, deliver s none ms = some r ∧ r ∈ ms ∧ ∀ m ∈ ms, m.1 ≤ r.1 := by
  have hs := deliver_isSome s none ms (Or.inr hne)
  cases hr : deliver s none ms with
  | none => simp [hr] at hs
  | some r =>
    refine ⟨r, rfl, ?_, (deliver_ge s none ms r hr).2⟩
    rcases deliver_mem s none ms r hr with h | h
    · exact h
    · cases h

/-- (1') the same from any held state: never older than what was held, never older than anything
delivered, and the value is the held one or a delivered one. -/
theorem carries_max_from (s : Bool) (c : Msg α) (ms : List (Msg α)) :
    ∃ r, deliver s (some c) ms = some r ∧ (r ∈ ms ∨ r = c) ∧ c.1 ≤ r.1 ∧ ∀ m ∈ ms, m.1 ≤ r.1 := by
  have hs := deliver_isSome s (some c) ms (Or.inl rfl)
  cases hr : deliver s (some c) ms with
  | none => simp [hr] at hs
  | some r =>
    have hg := deliver_ge s (some c) ms r hr
    refine ⟨r, rfl, ?_, hg.1 c rfl, hg.2⟩
    rcases deliver_mem s (some c) ms r hr with h | h
    · exact Or.inl h
    · injection h with h; exact Or.inr h.symm

/-- (2) `perm_invariant`: the held timestamp is the same for every delivery order of the same
multiset of messages (and does not depend on which of the two guards is used). -/
theorem perm_invariant (s s' : Bool) (ms ms' : List (Msg α)) (hp : ms.Perm ms') :
    (deliver s none ms).map (·.1) = (deliver s' none ms').map (·.1) := by
  by_cases hne : ms = []
  · subst hne
    have : ms' = [] := List.Perm.eq_nil (List.Perm.symm hp)
    subst this; rfl
  · have hne' : ms' ≠ [] := fun h => hne (by subst h; exact List.Perm.eq_nil hp)
    obtain ⟨r, hr, hmem, hmax⟩ := carries_max s ms hne
    obtain ⟨r', hr', hmem', hmax'⟩ := carries_max s' ms' hne'
    have h1 : r.1 ≤ r'.1 := hmax' r (hp.mem_iff.mp hmem)
    have h2 : r'.1 ≤ r.1 := hmax r' (hp.mem_iff.mpr hmem')
    rw [hr, hr']; simp; omega

/-- (3) `older_never_overwrites`: a message older than the held one changes nothing. -/
theorem older_never_overwrites (s : Bool) (c m : Msg α) (h : m.1 < c.1) :
    upd s (some c) m = some c := by
  have : passes s c.1 m.1 = false := by cases s <;> simp [passes] <;> omega
  simp [upd, this]

/-- (3') a duplicate delivery changes nothing. -/
theorem duplicate_idempotent (s : Bool) (h : Option (Msg α)) (m : Msg α) :
    upd s (upd s h m) m = upd s h m := by
  cases h with
  | none => cases s <;> simp [upd, passes]
  | some c =>
    by_cases hg : passes s c.1 m.1 = true
    · have hmm : passes s m.1 m.1 = !s := by cases s <;> simp [passes]
      cases s <;> simp [upd, hg, hmm]
    · simp [upd, hg]

/-- Which of several equal-timestamp values is held (not demanded by the property, but fixed by the
code and therefore modelled and corresponded): with the `<=` guard (balances, open orders) the
LAST delivered message among those with the greatest timestamp is held … -/
theorem nonstrict_keeps_last (ms : List (Msg α)) (r : Msg α) (h : deliver false none ms = some r) :
    ∃ pre post, ms = pre ++ r :: post ∧ ∀ m ∈ post, m.1 < r.1 := by
  have key : ∀ (ms : List (Msg α)) (h0 : Option (Msg α)), deliver false h0 ms = some r →
      (∃ pre post, ms = pre ++ r :: post ∧ ∀ m ∈ post, m.1 < r.1) ∨
      (h0 = some r ∧ ∀ m ∈ ms, m.1 < r.1) := by
    intro ms
    induction ms with
    | nil => intro h0 h; right; exact ⟨by simpa [deliver] using h, by simp⟩
    | cons m ms ih =>
      intro h0 h
      simp only [deliver, List.foldl_cons] at h
      rcases ih (upd false h0 m) h with ⟨pre, post, hms, hpost⟩ | ⟨hupd, hall⟩
      · left; exact ⟨m :: pre, post, by simp [hms], hpost⟩
      · cases h0 with
        | none =>
          simp only [upd] at hupd; injection hupd with hupd; subst hupd
          left; exact ⟨[], ms, rfl, hall⟩
        | some c =>
          by_cases hg : passes false c.1 m.1 = true
          · simp only [upd, hg, ↓reduceIte] at hupd; injection hupd with hupd; subst hupd
            left; exact ⟨[], ms, rfl, hall⟩
          · simp only [upd, hg] at hupd; injection hupd with hupd; subst hupd
            right; refine ⟨rfl, ?_⟩
            intro x hx
            rcases List.mem_cons.mp hx with rfl | hx
            · simp [passes] at hg; omega
            · exact hall x hx
  rcases key ms none h with hdec | ⟨hn, _⟩
  · exact hdec
  · cases hn

/-- … and with the strict `<` guard (last trade, top of book) the FIRST one. -/
theorem strict_keeps_first (ms : List (Msg α)) (r : Msg α) (h : deliver true none ms = some r) :
    ∃ pre post, ms = pre ++ r :: post ∧ ∀ m ∈ pre, m.1 < r.1 := by
  have key : ∀ (ms : List (Msg α)) (h0 : Option (Msg α)), deliver true h0 ms = some r →
      (∃ pre post, ms = pre ++ r :: post ∧ (∀ m ∈ pre, m.1 < r.1) ∧ (∀ c, h0 = some c → c.1 < r.1)) ∨
      h0 = some r := by
    intro ms
    induction ms with
    | nil => intro h0 h; right; simpa [deliver] using h
    | cons m ms ih =>
      intro h0 h
      simp only [deliver, List.foldl_cons] at h
      rcases ih (upd true h0 m) h with ⟨pre, post, hms, hpre, hheld⟩ | hupd
      · left
        cases h0 with
        | none =>
          have hm := hheld m (by simp [upd])
          refine ⟨m :: pre, post, by simp [hms], ?_, by simp⟩
          intro x hx
          rcases List.mem_cons.mp hx with rfl | hx
          · exact hm
          · exact hpre x hx
        | some c =>
          by_cases hg : passes true c.1 m.1 = true
          · have hm := hheld m (by simp [upd, hg])
            have hcm : c.1 < m.1 := by simpa [passes] using hg
            refine ⟨m :: pre, post, by simp [hms], ?_, ?_⟩
            · intro x hx
              rcases List.mem_cons.mp hx with rfl | hx
              · exact hm
              · exact hpre x hx
            · intro c' hc'; injection hc' with hc'; subst hc'; omega
          · have hc := hheld c (by simp [upd, hg])
            have hmc : m.1 ≤ c.1 := by simp [passes] at hg; omega
            refine ⟨m :: pre, post, by simp [hms], ?_, ?_⟩
            · intro x hx
              rcases List.mem_cons.mp hx with rfl | hx
              · omega
              · exact hpre x hx
            · intro c' hc'; injection hc' with hc'; subst hc'; exact hc
      · cases h0 with
        | none =>
          simp only [upd] at hupd; injection hupd with hupd; subst hupd
          left; exact ⟨[], ms, rfl, by simp, by simp⟩
        | some c =>
          by_cases hg : passes true c.1 m.1 = true
          · simp only [upd, hg, ↓reduceIte] at hupd; injection hupd with hupd; subst hupd
            left; refine ⟨[], ms, rfl, by simp, ?_⟩
            intro c' hc'; injection hc' with hc'; subst hc'; simpa [passes] using hg
          · simp only [upd, hg] at hupd; injection hupd with hupd; subst hupd
            right; rfl
  rcases key ms none h with ⟨pre, post, h1, h2, _⟩ | hn
  · exact ⟨pre, post, h1, h2⟩
  · cases hn

/-! ### Engine level: routing and the three concrete registers -/

/-- A balance for asset `a` updates exactly that asset's register with the `<=` guard and touches
no other asset and no market data. -/
theorem balance_routed (e : Eng) (a a' : Nat) (m : Msg Bal) :
    (e.balance a m).assets[a']? =
      (if a' = a then e.assets[a]?.map (fun h => upd false h m) else e.assets[a']?) ∧
    (e.balance a m).data = e.data := by
  simp [Eng.balance, modifyAt_getElem?]

/-- A full account snapshot is subject to the same rule item by item: asset `a`'s register after the
snapshot is the delivery of the snapshot's items for `a`, in order. -/
theorem full_snapshot_item_by_item (e : Eng) (items : List (Nat × Msg Bal)) (a : Nat)
    (h : Option (Msg Bal)) (ha : e.assets[a]? = some h) :
    (e.fullSnapshot items).assets[a]? =
      some (deliver false h ((items.filter (fun am => am.1 = a)).map (·.2))) := by
  induction items generalizing e h with
  | nil => simpa [Eng.fullSnapshot, deliver] using ha
  | cons am items ih =>
    obtain ⟨a0, m⟩ := am
    simp only [Eng.fullSnapshot, List.foldl_cons]
    have hb := (balance_routed e a0 a m).1
    by_cases h0 : a0 = a
    · subst h0
      have : (e.balance a0 m).assets[a0]? = some (upd false h m) := by simpa [ha] using hb
      have := ih (e.balance a0 m) (upd false h m) this
      simpa [Eng.fullSnapshot, deliver] using this
    · have : (e.balance a0 m).assets[a]? = some h := by
        simpa [show ¬ a = a0 from fun x => h0 x.symm, ha] using hb
      have := ih (e.balance a0 m) h this
      simpa [Eng.fullSnapshot, deliver, h0] using this

/-- Balances: after any sequence of single balance snapshots and full account snapshots, the
balance held for asset `a` carries the greatest delivered timestamp with a delivered value. -/
theorem balance_carries_max (n k : Nat) (items : List (Nat × Msg Bal)) (a : Nat) (ha : a < n)
    (hne : (items.filter (fun am => am.1 = a)) ≠ []) :
    ∃ r, ((Eng.init n k).fullSnapshot items).assets[a]? = some (some r) ∧
      r ∈ (items.filter (fun am => am.1 = a)).map (·.2) ∧
      ∀ am ∈ items, am.1 = a → am.2.1 ≤ r.1 := by
  have h0 : (Eng.init n k).assets[a]? = some none := by simp [Eng.init, ha]
  have hrun := full_snapshot_item_by_item (Eng.init n k) items a none h0
  obtain ⟨r, hr, hmem, hmax⟩ := carries_max false ((items.filter (fun am => am.1 = a)).map (·.2))
    (by simpa using hne)
  refine ⟨r, by rw [hrun, hr], hmem, ?_⟩
  intro am ham heq
  exact hmax am.2 (List.mem_map.mpr ⟨am, by simp [ham, heq], rfl⟩)

/-- Last traded price: the `Trade` arm is the strict register. -/
theorem trade_register (d : MarketData) (te : Int) (p : Rat) :
    (d.trade te p).lastTrade = upd true d.lastTrade (te, p) ∧ (d.trade te p).l1 = d.l1 := by
  simp [MarketData.trade]

/-- the top-of-book register seen as `(payload time, payload)` -/
def l1Reg (d : MarketData) : Option (Msg L1) := d.l1.map (fun x => (x.tl, x))

/-- Top of book: when the payload's own time equals the event time (true of the connectors that
produce L1 events), the `OrderBookL1` arm is the strict register. -/
theorem l1_register (d : MarketData) (te : Int) (l1 : L1) (htl : l1.tl = te) :
    l1Reg (d.bookL1 te l1) = upd true (l1Reg d) (te, l1) ∧ (d.bookL1 te l1).lastTrade = d.lastTrade := by
  unfold MarketData.bookL1 l1Reg
  cases hd : d.l1 with
  | none => simp [upd, htl]
  | some c =>
    by_cases hg : c.tl < te
    · simp [hg, upd, passes, htl]
    · simp [hg, upd, passes, hd]

/-- delivering trades to an instrument's data -/
def deliverTrades (d : MarketData) (ms : List (Msg Rat)) : MarketData :=
  ms.foldl (fun d m => d.trade m.1 m.2) d

theorem trades_carry_max (ms : List (Msg Rat)) (hne : ms ≠ []) :
    ∃ r, (deliverTrades MarketData.init ms).lastTrade = some r ∧ r ∈ ms ∧ ∀ m ∈ ms, m.1 ≤ r.1 := by
  have key : ∀ (ms : List (Msg Rat)) (d : MarketData),
      (deliverTrades d ms).lastTrade = deliver true d.lastTrade ms := by
    intro ms
    induction ms with
    | nil => intro d; rfl
    | cons m ms ih =>
      intro d
      simp only [deliverTrades, List.foldl_cons, deliver] at *
      rw [ih (d.trade m.1 m.2)]; simp [MarketData.trade]
  rw [key]; exact carries_max true ms hne

def deliverL1 (d : MarketData) (ms : List L1) : MarketData :=
  ms.foldl (fun d m => d.bookL1 m.tl m) d

theorem l1_carries_max (ms : List L1) (hne : ms ≠ []) :
    ∃ r, (deliverL1 MarketData.init ms).l1 = some r ∧ r ∈ ms ∧ ∀ m ∈ ms, m.tl ≤ r.tl := by
  have key : ∀ (ms : List L1) (d : MarketData),
      l1Reg (deliverL1 d ms) = deliver true (l1Reg d) (ms.map fun x => (x.tl, x)) := by
    intro ms
    induction ms with
    | nil => intro d; rfl
    | cons m ms ih =>
      intro d
      simp only [deliverL1, List.foldl_cons, deliver, List.map_cons] at *
      rw [ih (d.bookL1 m.tl m), (l1_register d m.tl m rfl).1]
  obtain ⟨r, hr, hmem, hmax⟩ := carries_max true (ms.map fun x => (x.tl, x)) (by simpa using hne)
  have hk := key ms MarketData.init
  have hinit : l1Reg MarketData.init = none := rfl
  rw [hinit, hr] at hk
  unfold l1Reg at hk
  cases hl : (deliverL1 MarketData.init ms).l1 with
  | none => simp [hl] at hk
  | some x =>
    simp [hl] at hk
    obtain ⟨y, hy, rfl⟩ := List.mem_map.mp hmem
    refine ⟨x, rfl, ?_, ?_⟩
    · have : x = y := by have := congrArg Prod.snd hk; simpa using this
      rw [this]; exact hy
    · intro m hm
      have := hmax (m.tl, m) (List.mem_map.mpr ⟨m, hm, rfl⟩)
      have hx : x.tl = y.tl := by have := congrArg Prod.fst hk; simpa using this
      simp at this; omega

/-! ### Open-order details (via the C01 model) -/

def snapOpen (c : Nat) (q p : Rat) (o : Open) : Op := .snapshot ⟨c, q, p, .active (.opn o), 0⟩
def toMsg (o : Open) : Msg Open := (o.t, o)

/-- Open reports (with something left to fill) delivered to an untracked or open order behave as the
`<=` register on the reports' exchange timestamps: the held order details carry the greatest
delivered timestamp. (Histories that also contain requests / cancels: C01 `time_monotone_run`.) -/
theorem open_reports_register (m : Orders) (c : Nat) (q p : Rat) (rs : List Open)
    (hrem : ∀ o ∈ rs, remZero q o = false) (h : Option Open)
    (hst : stateOf m c = h.map Active.opn) :
    stateOf (run m (rs.map (snapOpen c q p))) c =
      (deliver false (h.map toMsg) (rs.map toMsg)).map (fun r => Active.opn r.2) := by
  induction rs generalizing m h with
  | nil => cases h <;> simpa [run, deliver, toMsg] using hst
  | cons o rs ih =>
    simp only [List.map_cons, run, List.foldl_cons, deliver]
    have hz := hrem o (by simp)
    have hstep := step_refines m (snapOpen c q p o) c rfl
    simp only [snapOpen, Lifecycle.stepOp, Op.input, ↓reduceIte, hz] at hstep
    cases h with
    | none =>
      simp only [Option.map_none] at hst
      rw [hst] at hstep
      have := ih (step m (snapOpen c q p o)) (fun x hx => hrem x (by simp [hx])) (some o)
        (by simpa [snapOpen, Lifecycle.step] using hstep)
      simpa [run, deliver, upd, toMsg] using this
    | some c0 =>
      simp only [Option.map_some] at hst
      rw [hst] at hstep
      by_cases ht : c0.t ≤ o.t
      · have := ih (step m (snapOpen c q p o)) (fun x hx => hrem x (by simp [hx])) (some o)
          (by simpa [snapOpen, Lifecycle.step, ht] using hstep)
        simpa [run, deliver, upd, toMsg, passes, ht] using this
      · have := ih (step m (snapOpen c q p o)) (fun x hx => hrem x (by simp [hx])) (some c0)
          (by simpa [snapOpen, Lifecycle.step, ht] using hstep)
        simpa [run, deliver, upd, toMsg, passes, ht] using this

/-- the exchange-confirmed order details held for an id, whatever in-flight marker wraps them -/
def metaOf (st : Option Active) : Option Open := st.bind Active.openMeta

/-- states in which everything held came from the exchange: untracked, open, or cancel-in-flight
around a confirmed open -/
def Confirmed (st : Option Active) : Prop :=
  st = none ∨ ∃ o, st = some (.opn o) ∨ st = some (.cancelInFlight (some o))

/-- an op of the mixed history: an open report (something left to fill) or a cancel request sent -/
inductive OrdEv where
  | report (o : Open)
  | cancelSent

def OrdEv.toOp (c : Nat) (q p : Rat) : OrdEv → Op
  | .report o => snapOpen c q p o
  | .cancelSent => .recCancel c

def reportsOf : List OrdEv → List Open
  | [] => []
  | .report o :: rest => o :: reportsOf rest
  | .cancelSent :: rest => reportsOf rest

/-- Cancel requests sent in between — once or repeatedly — never disturb the register: for any
interleaving of open reports and cancel requests on one order, the confirmed details held (inside
`Open` or inside `CancelInFlight`) are those of the `<=` register over the reports alone, so they
carry the greatest delivered timestamp and never roll back. -/
theorem open_reports_with_cancels_register (m : Orders) (c : Nat) (q p : Rat) (evs : List OrdEv)
    (hrem : ∀ o ∈ reportsOf evs, remZero q o = false) (hc : Confirmed (stateOf m c)) :
    metaOf (stateOf (run m (evs.map (OrdEv.toOp c q p))) c) =
      (deliver false ((metaOf (stateOf m c)).map toMsg) ((reportsOf evs).map toMsg)).map (·.2) ∧
    Confirmed (stateOf (run m (evs.map (OrdEv.toOp c q p))) c) := by
  induction evs generalizing m with
  | nil =>
    refine ⟨?_, hc⟩
    simp only [List.map_nil, run, List.foldl_nil, reportsOf, deliver]
    cases metaOf (stateOf m c) <;> simp [toMsg]
  | cons ev evs ih =>
    simp only [List.map_cons, run, List.foldl_cons]
    cases ev with
    | cancelSent =>
      have hstep := step_refines m (.recCancel c) c rfl
      simp only [Lifecycle.stepOp, Op.input, ↓reduceIte] at hstep
      have hmeta : metaOf (stateOf (step m (.recCancel c)) c) = metaOf (stateOf m c) ∧
          Confirmed (stateOf (step m (.recCancel c)) c) := by
        rw [hstep]
        rcases hc with h0 | ⟨o, h1 | h1⟩
        · rw [h0]; exact ⟨rfl, Or.inl rfl⟩
        · rw [h1]; exact ⟨rfl, Or.inr ⟨o, Or.inr rfl⟩⟩
        · rw [h1]; exact ⟨rfl, Or.inr ⟨o, Or.inr rfl⟩⟩
      have := ih (step m (.recCancel c)) (fun o ho => hrem o (by simpa [reportsOf] using ho)) hmeta.2
      simp only [OrdEv.toOp, run, reportsOf] at this ⊢
      rw [hmeta.1] at this
      exact this
    | report o =>
      have hz := hrem o (by simp [reportsOf])
      have hstep := step_refines m (snapOpen c q p o) c rfl
      simp only [snapOpen, Lifecycle.stepOp, Op.input, ↓reduceIte, hz] at hstep
      have hmeta : metaOf (stateOf (step m (snapOpen c q p o)) c) =
            (upd false ((metaOf (stateOf m c)).map toMsg) (toMsg o)).map (·.2) ∧
          Confirmed (stateOf (step m (snapOpen c q p o)) c) := by
        simp only [snapOpen]
        rw [hstep]
        rcases hc with h0 | ⟨h, h1 | h1⟩
        · rw [h0]; exact ⟨by simp [Lifecycle.step, metaOf, Active.openMeta, upd, toMsg], Or.inr ⟨o, Or.inl rfl⟩⟩
        · rw [h1]
          by_cases ht : h.t ≤ o.t
          · exact ⟨by simp [Lifecycle.step, metaOf, Active.openMeta, upd, toMsg, passes, ht],
              Or.inr ⟨o, Or.inl (by simp [Lifecycle.step, ht])⟩⟩
          · exact ⟨by simp [Lifecycle.step, metaOf, Active.openMeta, upd, toMsg, passes, ht],
              Or.inr ⟨h, Or.inl (by simp [Lifecycle.step, ht])⟩⟩
        · rw [h1]
          by_cases ht : h.t ≤ o.t
          · exact ⟨by simp [Lifecycle.step, metaOf, Active.openMeta, upd, toMsg, passes, ht],
              Or.inr ⟨o, Or.inr (by simp [Lifecycle.step, ht])⟩⟩
          · exact ⟨by simp [Lifecycle.step, metaOf, Active.openMeta, upd, toMsg, passes, ht],
              Or.inr ⟨h, Or.inr (by simp [Lifecycle.step, ht])⟩⟩
      have := ih (step m (snapOpen c q p o)) (fun x hx => hrem x (by simp [reportsOf, hx])) hmeta.2
      simp only [OrdEv.toOp, run, reportsOf, List.map_cons, deliver, List.foldl_cons] at this ⊢
      rw [hmeta.1] at this
      -- re-wrap the register value as a message
      have hwrap : ((upd false ((metaOf (stateOf m c)).map toMsg) (toMsg o)).map (·.2)).map toMsg =
          upd false ((metaOf (stateOf m c)).map toMsg) (toMsg o) := by
        cases metaOf (stateOf m c) with
        | none => simp [upd, toMsg]
        | some h => by_cases ht : passes false h.t o.t = true <;> simp [upd, toMsg, ht]
      rw [hwrap] at this
      exact this

/-- A failed cancel restores the LAST EXCHANGE-CONFIRMED open state (C01's clause, over histories):
after any interleaving of open reports and (repeated) cancel requests, if the order is being
cancelled and the cancel then fails, the order is `Open` again with exactly the details of the
`<=` register over all reports delivered so far — the greatest-timestamp report, latest among ties. -/
theorem cancel_err_restores_latest_confirmed (m : Orders) (c : Nat) (q p : Rat) (evs : List OrdEv)
    (hrem : ∀ o ∈ reportsOf evs, remZero q o = false) (hc : Confirmed (stateOf m c)) (o : Open)
    (hst : stateOf (run m (evs.map (OrdEv.toOp c q p))) c = some (.cancelInFlight (some o))) :
    stateOf (step (run m (evs.map (OrdEv.toOp c q p))) (.cancelResp c false)) c = some (.opn o) ∧
    some o = (deliver false ((metaOf (stateOf m c)).map toMsg) ((reportsOf evs).map toMsg)).map (·.2) := by
  refine ⟨?_, ?_⟩
  · rw [step_refines _ _ _ rfl]
    simp [Lifecycle.stepOp, Op.input, hst, Lifecycle.step]
  · have := (open_reports_with_cancels_register m c q p evs hrem hc).1
    rw [hst] at this
    simpa [metaOf, Active.openMeta] using this

/-! Non-vacuity -/
example : deliver false none [((3 : Int), (1 : Nat)), (5, 2), (4, 3), (5, 4), (1, 5)] = some (5, 4) := by decide
example : deliver true none [((3 : Int), (1 : Nat)), (5, 2), (4, 3), (5, 4), (1, 5)] = some (5, 2) := by decide
example : remZero 10 ⟨7, 2, 5⟩ = false := by decide +kernel

/-- **Tie of the registers to the source by translation.** `AssetState::update_from_balance` (with
`Snapshot::value`, `TearSheetAssetGenerator::update_from_balance`), `DefaultInstrumentMarketData::{price,
process}` (with `OrderBookL1::volume_weighed_mid_price`, `volume_weighted_mid_price`) and the structs
they work on are regenerated from the current `barter/src/engine/state/asset/mod.rs`,
`barter/src/engine/state/instrument/data.rs` (+ balance.rs, snapshot.rs, summary/asset.rs,
books/mod.rs, subscription/book.rs, event.rs) by `tools/rust2lean_sm.py` on every run
(`Generated/Machines2.lean`, group `registers`). For all states, messages and key types: the held
balance after `update_from_balance` is `upd false` of the held balance (read through the bijection
`ofHeld`), `asset` is untouched and `statistics` is fed exactly the accepted snapshots (and agrees with
the C16 / C18 models of the asset tear sheet); on the embedding `toMD` of the model's `MarketData` the
trade arm of `process` is `MarketData.trade` (`upd true`) on the price `Decimal::from_f64` returns — for
every such function — and a no-op when it returns `None`, the L1 arm is `MarketData.bookL1` under the
model's documented precondition (event times on a fresh instrument are after the Unix epoch; see
`RegistersSM.process_l1_at_or_before_epoch` for the boundary), every other kind changes nothing, and
`price` is C15's `Unrealised.price`. The open-order guards of `engine/state/order/mod.rs` are not whole
functions and are not translated. The statement is that of
`KernelsAgree.RegistersSM.registers_sm_agree` (Lemmas/KernelsAgree/RegistersSM.lean). -/
theorem state_machine_agrees_with_source :
    type_of% BarterModel.KernelsAgree.RegistersSM.registers_sm_agree :=
  BarterModel.KernelsAgree.RegistersSM.registers_sm_agree

/-! ## Added after the independent review (audit/REVIEW-notes.md, item C09-1)

The order-report clause over the FULL report alphabet. Vocabulary (Lemmas/Review1.lean): `EpisodeEv` =
an open report of any kind (any timestamp, any filled quantity — including "nothing left to fill"), a
terminal report (cancelled / fully filled / failed / expired), a cancel request sent, a cancel response
ok / err; `EpisodeEv.ends q` = the events after which the order is no longer tracked (they END a
tracking episode); `heldMeta` = this file's `metaOf`; `episodeRegister` = the `<=` register that is
EMPTIED by every event that ends an episode. What is true — and proved — is the property **per
tracking episode**; across episodes the code rolls back (`order_details_roll_back_witness`): it keeps
no memory of finished client order ids, so a stale open report that arrives after a terminal one is
taken for a new order. That is recorded as the known finding `clause=ord_resurrected` of this check
(the spec driver states the property literally and the real code fails it on exactly these
histories). -/

/-- (order reports, full alphabet) For EVERY history of open reports of any kind, terminal reports,
cancel requests and cancel responses on one order — any order of delivery, duplicates, stale reports —
starting untracked or exchange-confirmed, the open-order details held are those of the `<=` register
over the open reports delivered SINCE THE LAST EVENT THAT ENDED A TRACKING EPISODE, and the state stays
exchange-confirmed. -/
theorem order_details_episode_register (m : Orders) (c : Nat) (q p : Rat) (evs : List EpisodeEv)
    (hc : ExchangeConfirmed (stateOf m c)) :
    heldMeta (stateOf (run m (evs.map (EpisodeEv.toOp c q p))) c) =
      (episodeRegister q ((heldMeta (stateOf m c)).map openMsg) evs).map (·.2) ∧
    ExchangeConfirmed (stateOf (run m (evs.map (EpisodeEv.toOp c q p))) c) :=
  episode_register m c q p evs hc

/-- the episode register after an event that ends an episode forgets everything before it -/
theorem episodeRegister_after_end (q : Rat) (h : Option (Msg Open)) (pre post : List EpisodeEv)
    (e : EpisodeEv) (he : e.ends q = true) :
    episodeRegister q h (pre ++ e :: post) = episodeRegister q none post := by
  simp [episodeRegister, List.foldl_append, episodeStep, he]

/-- (order reports, positive statement for the CURRENT episode) Whatever happened before — any history
`pre` over the full alphabet — once an event `e` has ended a tracking episode, the details held after
any further open reports (something left to fill), cancel requests and failed cancels `post` carry the
greatest exchange timestamp among the open reports delivered SINCE `e`, with a value delivered with
that timestamp (the last delivered among ties): nothing older than a report of the current episode is
ever held. Reports delivered BEFORE `e` do not count — that is exactly what
`order_details_roll_back_witness` shows to be a violation of the literal property. -/
theorem order_details_carry_max_within_episode (m : Orders) (c : Nat) (q p : Rat)
    (pre post : List EpisodeEv) (e : EpisodeEv) (he : e.ends q = true)
    (hpost : ∀ ev ∈ post, ev.ends q = false) (hc : ExchangeConfirmed (stateOf m c)) :
    heldMeta (stateOf (run m ((pre ++ e :: post).map (EpisodeEv.toOp c q p))) c) =
      (deliver false none ((episodeReports post).map openMsg)).map (·.2) ∧
    (episodeReports post ≠ [] →
      ∃ r, heldMeta (stateOf (run m ((pre ++ e :: post).map (EpisodeEv.toOp c q p))) c) = some r ∧
        r ∈ episodeReports post ∧ ∀ x ∈ episodeReports post, x.t ≤ r.t) := by
  have h1 := (episode_register m c q p (pre ++ e :: post) hc).1
  rw [episodeRegister_after_end q _ pre post e he, episodeRegister_no_end q none post hpost] at h1
  refine ⟨h1, ?_⟩
  intro hne
  obtain ⟨r, hr, hmem, hmax⟩ := carries_max false ((episodeReports post).map openMsg) (by simpa using hne)
  obtain ⟨x, hx, rfl⟩ := List.mem_map.mp hmem
  refine ⟨x, by rw [h1, hr]; rfl, hx, ?_⟩
  intro y hy
  simpa [openMsg] using hmax (openMsg y) (List.mem_map.mpr ⟨y, hy, rfl⟩)

/-- (order reports, the FIRST episode) the same from a fresh or exchange-confirmed order when nothing
has ended an episode yet: extends `open_reports_with_cancels_register` by failed cancel responses in
between (a failed cancel restores the details, it never loses or ages them). -/
theorem order_details_first_episode (m : Orders) (c : Nat) (q p : Rat) (evs : List EpisodeEv)
    (hne : ∀ ev ∈ evs, ev.ends q = false) (hc : ExchangeConfirmed (stateOf m c)) :
    heldMeta (stateOf (run m (evs.map (EpisodeEv.toOp c q p))) c) =
      (deliver false ((heldMeta (stateOf m c)).map openMsg) ((episodeReports evs).map openMsg)).map (·.2) := by
  have h1 := (episode_register m c q p evs hc).1
  rw [episodeRegister_no_end q _ evs hne] at h1
  exact h1

/-- (order reports, C09-1) **the roll-back, kernel-checked.** Reports `Open(t = 5)`, `Cancelled`,
`Open(t = 2)` (a late duplicate) for client order id 7: after the first report the engine holds
open-order details with timestamp 5; after the third it holds open-order details with timestamp 2,
although a report with timestamp 5 WAS delivered for that order. Delivered in another order
(`Open 2, Open 5, Cancelled`) the same three messages leave the order untracked: the end state depends
on the delivery order. -/
theorem order_details_roll_back_witness :
    let o5 : Open := ⟨1, 5, 0⟩
    let o2 : Open := ⟨1, 2, 0⟩
    let cancelled : Op := .snapshot ⟨7, 10, 100, .inactive .cancelled, 0⟩
    metaOf (stateOf (run [] [snapOpen 7 10 100 o5]) 7) = some o5 ∧
    metaOf (stateOf (run [] [snapOpen 7 10 100 o5, cancelled, snapOpen 7 10 100 o2]) 7) = some o2 ∧
    o2.t < o5.t ∧
    stateOf (run [] [snapOpen 7 10 100 o2, snapOpen 7 10 100 o5, cancelled]) 7 = none := by
  decide +kernel

/-- the same witness in the vocabulary of the positive theorems: the history is
`[report o5, finished cancelled, report o2]`, its episode register holds `o2` (the only report since
the episode ended), whereas the plain `<=` register over ALL its open reports — the literal property —
holds `o5`. -/
theorem order_details_roll_back_registers :
    let evs : List EpisodeEv := [.report ⟨1, 5, 0⟩, .finished .cancelled, .report ⟨1, 2, 0⟩]
    (episodeRegister 10 none evs).map (·.2) = some ⟨1, 2, 0⟩ ∧
    (deliver false none ((episodeReports evs).map openMsg)).map (·.2) = some ⟨1, 5, 0⟩ := by
  decide +kernel

/-! Non-vacuity of the added statements -/
example : ExchangeConfirmed (stateOf ([] : Orders) 7) := Or.inl rfl
example : (EpisodeEv.finished .cancelled).ends 10 = true ∧
    (∀ ev ∈ [EpisodeEv.report ⟨1, 2, 0⟩, .cancelSent, .cancelFailed, .report ⟨1, 1, 5⟩], ev.ends 10 = false) := by
  decide +kernel
example : heldMeta (stateOf (run [] (([EpisodeEv.report ⟨1, 5, 0⟩] ++ EpisodeEv.finished .cancelled ::
    [EpisodeEv.report ⟨1, 2, 0⟩, EpisodeEv.cancelSent, EpisodeEv.cancelFailed,
     EpisodeEv.report ⟨1, 1, 5⟩]).map (EpisodeEv.toOp 7 10 100))) 7)
    = some ⟨1, 2, 0⟩ := by decide +kernel

/-- **Translator tie (map machine), order part.** The open-order register of this property lives inside
`Orders::update_from_order_snapshot` (the `current.time_exchange <= update.time_exchange` guards in the arms over the
`FnvHashMap` Entry API). That function and the other three entry points of the order table are regenerated from the
current source by `tools/rust2lean_sm.py` on every run (`Generated/Machines3.lean`, group `orders`, the map read through
the translator's explicit map vocabulary) and proved equal, for ALL tables and inputs and all key types, to the
`BarterModel.Orders` model the order theorems of this file are about (`open_reports_register`,
`order_details_episode_register`, …). This re-exports C01's `map_machine_agrees_with_source`; the statement is that of
`KernelsAgree.OrdersSM.orders_sm_agree` (Lemmas/KernelsAgree/OrdersSM.lean). -/
theorem map_machine_agrees_with_source (A I : Type) [DecidableEq A] [DecidableEq I] :
    type_of% (@BarterModel.KernelsAgree.OrdersSM.orders_sm_agree A I _ _) :=
  BarterModel.KernelsAgree.OrdersSM.orders_sm_agree

end BarterModel.Props.C09
