import BarterModel.Lemmas.SubRequests
/-!
# C13Q — subscription requests: every connector asks the venue for exactly what was subscribed

Sub-check of C13. Statements only (proofs go through `Lemmas/SubRequests.lean`). Everything quantifies over
**every** connector (`e : Exch`, the 15 `ExchangeId`s with a `Connector`), every `(connector, kind)` pair `p` of
the dynamic builder (`supported`, 21 arms) and **every list** of subscriptions (any length, duplicates allowed).
Hypotheses, where a theorem has them, are exactly: `Decodable e s` for every subscription (the statements that
compare what the venue reads with what was subscribed: `requests_refine_spec`, `requested_is_subscribed`,
`requested_perm_subscribed`, `kth_requested`, `requests_determine_topics`, `text_read_refines_spec`);
`p ∈ supported`, and for Binance `CleanName` of every instrument (`supported_decodable`, `asks_for_venue_names`,
`map_ids_are_requested_ids`, `id_in_map_iff_requested`); `supports p i.kind` (`asks_for_venue_names`). The other
theorems have none. Vocabulary:

* `subs : List ESub` — the `ExchangeSub`s handed to `Connector::requests`; `requests e subs : List Wire` — the
  frames it returns, in sending order; `Wire.text` — the JSON text of a frame;
* `readFrames ws` / `requested ws` — what the venue reads in the frames according to its documented request
  grammar: per frame a verb and a list of `(channel, market)` topics / all topics in order; defined on the
  `Wire` constructor, and equal to the reading of the frame's JSON text by `readText` (`venue_reads_the_text`);
* `specFrames`, `specTopics`, `specAcks`, `docAcks` — the abstract specification (written from the doc comments
  and the venue payload examples quoted in the repository);
* `mapper p insts` = `WebSocketSubMapper::map`, `subscribe p insts` = what `WebSocketSubscriber::subscribe` has
  computed when it starts sending; the instrument map is the C13 model's `mapOf`, `expected` the C13S model's
  `expectedResponses`;
* `Decodable e s` — the names fit the venue's grammar (no `@` in a Binance symbol, Binance stream names start
  with `@`, no `:` in a Bitmex table name, no `.` in a Bybit topic name); it holds for everything the 21
  supported pairs derive from instruments without `@` in their asset names (`supported_decodable`).
-/
namespace BarterModel.Props.C13Q
open BarterModel.Connectors BarterModel.SubRequests

/-! ## 1. The venue is asked for exactly what was subscribed -/

/-- **Refinement to the specification.** For every connector and every list of subscriptions, what the venue
reads in the frames `Connector::requests` produces is exactly the documented request for those subscriptions:
the right verb, one frame carrying all topics in order (Binance, Bitmex, Bybit, Okx) or one single-topic frame
per subscription in order (Bitfinex, Coinbase, Gateio, Kraken); Binance symbols lower-cased. -/
theorem requests_refine_spec (e : Exch) (subs : List ESub) (h : ∀ s ∈ subs, Decodable e s) :
    readFrames (requests e subs) = specFrames e subs :=
  readFrames_requests e subs h

/-- Nothing missing, nothing extra, duplicates kept, order kept: the list of requested `(channel, market)`
topics **is** the list of subscribed ones. -/
theorem requested_is_subscribed (e : Exch) (subs : List ESub) (h : ∀ s ∈ subs, Decodable e s) :
    requested (requests e subs) = specTopics e subs :=
  requested_requests e subs h

/-- … in particular as multisets. -/
theorem requested_perm_subscribed (e : Exch) (subs : List ESub) (h : ∀ s ∈ subs, Decodable e s) :
    (requested (requests e subs)).Perm (specTopics e subs) := by
  rw [requested_is_subscribed e subs h]

/-- The `k`-th requested topic is the `k`-th subscription (order preserved, stated pointwise). -/
theorem kth_requested (e : Exch) (subs : List ESub) (h : ∀ s ∈ subs, Decodable e s) (k : Nat) :
    (requested (requests e subs))[k]? = subs[k]?.map fun s => ⟨s.chan, requestCase e s.market⟩ := by
  rw [requested_is_subscribed e subs h]; simp [specTopics]

/-- Duplicate subscriptions are **not** merged in the request: as many topics are requested as subscriptions
were given, whatever they are (no hypothesis). -/
theorem one_topic_per_subscription (e : Exch) (subs : List ESub) :
    (requested (requests e subs)).length = subs.length :=
  length_requested e subs

/-- Number of frames sent: one for the batching venues, one per subscription otherwise (no hypothesis). -/
theorem frame_count (e : Exch) (subs : List ESub) :
    (requests e subs).length = if batches e then 1 else subs.length :=
  length_requests e subs

/-- Every frame carries the documented verb (`SUBSCRIBE` for Binance, `subscribe` otherwise). -/
theorem every_frame_has_the_verb (e : Exch) (subs : List ESub) :
    ∀ w ∈ requests e subs, w.verb = specVerb e :=
  verb_requests e subs

/-- Appending subscriptions appends to the request: for the one-frame-per-subscription venues the frames of a
longer list extend the frames of its prefix (earlier frames never change). -/
theorem requests_append (e : Exch) (h : batches e = false) (a b : List ESub) :
    requests e (a ++ b) = requests e a ++ requests e b := by
  rw [requests_of_family, requests_of_family, requests_of_family]
  unfold batches at h
  cases hf : family e <;> simp_all

/-- The request determines what was subscribed: two subscription lists that produce the same frames ask for the
same topics (no two different subscription sets are indistinguishable to the venue). -/
theorem requests_determine_topics (e : Exch) (a b : List ESub) (ha : ∀ s ∈ a, Decodable e s)
    (hb : ∀ s ∈ b, Decodable e s) (h : requests e a = requests e b) : specTopics e a = specTopics e b := by
  rw [← requested_is_subscribed e a ha, ← requested_is_subscribed e b hb, h]

/-- Binance: the requested symbol is the lower-cased venue symbol, and upper-casing it gives back the symbol
under which the venue's messages are identified (the instrument map's market). -/
theorem binance_symbol_round_trip (p : Pair) (i : Inst) (h : family p.exch = .binance) :
    requestCase p.exch (exchangeSub p i).market = lower (market p.exch i) ∧
    upper (requestCase p.exch (exchangeSub p i).market) = market p.exch i := by
  obtain ⟨e, k⟩ := p
  cases e <;> simp [family] at h <;>
    simp [requestCase, family, exchangeSub, market, concatMarket, upper_lower_upper]

/-- Everything the 21 supported pairs derive from instruments is decodable (Binance: asset names without `@`). -/
theorem supported_decodable (p : Pair) (hp : p ∈ supported) (i : Inst)
    (h : family p.exch = .binance → CleanName i) : Decodable p.exch (exchangeSub p i) :=
  decodable_exchangeSub p hp i h

/-- **End to end, in the venue's own words** (link to the C13 specification): for a supported pair and instrument
kinds the dynamic builder lets through, the venue is asked — in subscription order, once per subscription — for
the channel under which it publishes the pair's stream (`venueChannel`) and for its own symbol of each
instrument (`venueSymbol`), lower-cased for Binance. -/
theorem asks_for_venue_names (p : Pair) (hp : p ∈ supported) (insts : List Inst)
    (hs : ∀ i ∈ insts, supports p i.kind = true)
    (h : family p.exch = .binance → ∀ i ∈ insts, CleanName i) :
    requested (mapper p insts).ws =
      insts.map fun i => ⟨venueChannel p, requestCase p.exch (venueSymbol p.exch i)⟩ := by
  have hd : ∀ s ∈ exchangeSubs p insts, Decodable p.exch s := by
    intro s hs'
    obtain ⟨i, hi, rfl⟩ := List.mem_map.mp hs'
    exact decodable_exchangeSub p hp i (fun hf => h hf i hi)
  simp only [mapper]
  rw [requested_requests _ _ hd]
  simp only [specTopics, exchangeSubs, List.map_map, Function.comp_def]
  apply List.map_congr_left
  intro i hi
  simp only [exchangeSub, market_eq_venueSymbol, channel_of_supports p i.kind hp (hs i hi)]

/-! ## 2. Instrument map and requests are built from the same `ExchangeSub`s -/

/-- The `SubscriptionId`s of the instrument map `WebSocketSubMapper::map` returns are exactly the ids derivable
from the topics its requests ask for (`channel|SYMBOL`, first occurrences in request order). -/
theorem map_ids_are_requested_ids (p : Pair) (hp : p ∈ supported) (insts : List Inst)
    (h : family p.exch = .binance → ∀ i ∈ insts, CleanName i) :
    keysOf (mapper p insts).map = dedup [] ((requested (mapper p insts).ws).map (topicId p.exch)) := by
  rw [requested_ids p hp insts h]; exact keysOf_mapOf p insts

/-- … as sets: an id is in the map iff some requested topic has it. -/
theorem id_in_map_iff_requested (p : Pair) (hp : p ∈ supported) (insts : List Inst)
    (h : family p.exch = .binance → ∀ i ∈ insts, CleanName i) (id : Str) :
    id ∈ keysOf (mapper p insts).map ↔ ∃ t ∈ requested (mapper p insts).ws, topicId p.exch t = id := by
  rw [map_ids_are_requested_ids p hp insts h, mem_dedup]
  simp

/-- The map's ids are pairwise distinct (it is a hash map) … -/
theorem map_ids_distinct (p : Pair) (insts : List Inst) : (keysOf (mapper p insts).map).Nodup := by
  simp only [mapper]; rw [keysOf_mapOf]; exact nodup_dedup [] _ List.nodup_nil

/-- … so duplicates ARE merged in the map (while they are not in the request). Stated as: the map has as many
entries as the request has topics iff no two subscriptions share an id; the form the name announces (strictly
smaller iff some id is shared) is `map_strictly_smaller_iff_duplicates` below. -/
theorem map_smaller_iff_duplicates (p : Pair) (insts : List Inst) :
    (mapper p insts).map.length = (requested (mapper p insts).ws).length ↔
      (insts.map (subscriptionId p)).Nodup := by
  simp only [mapper, one_topic_per_subscription, exchangeSubs, List.length_map]
  exact length_mapOf_eq_iff p insts

/-- Which instrument a shared id ends up with: the **last** subscription carrying it (`HashMap::insert`
replaces); `none` iff no subscription has the id. For duplicate-free lists this is C13's `find_mapOf`. -/
theorem map_key_is_last_subscription (p : Pair) (insts : List Inst) (id : Str) :
    (mapper p insts).map.find id = lastIndex (insts.map (subscriptionId p)) id :=
  find_mapOf_last p insts id

theorem last_subscription_spec (ids : List Str) (id : Str) :
    (lastIndex ids id = none ↔ id ∉ ids) ∧
    ∀ k, lastIndex ids id = some k → ids[k]? = some id ∧ ∀ j, k < j → ids[j]? ≠ some id := by
  refine ⟨lastIndexFrom_none_iff 0 ids id, ?_⟩
  intro k hk
  have := lastIndexFrom_some 0 ids id k hk
  simpa using this.2

/-- `ExchangeSub::new(sub).id()` is C13's subscription id. -/
theorem exchange_sub_id (p : Pair) (i : Inst) : (exchangeSub p i).id = subscriptionId p i := rfl

/-! ## 3. Expected responses against the acknowledgements the venue documents -/

/-- The documented number of acknowledgements for what `requests` sends: one per frame (Binance, Bybit: per
request id; Coinbase, Gateio, Bitfinex: per subscribe message, of which there is one per subscription), one per
topic (Bitmex, Okx, Kraken). -/
theorem documented_acks (e : Exch) (subs : List ESub) :
    docAcks e (requests e subs) = if acksPerTopic e then subs.length else if batches e then 1 else subs.length :=
  docAcks_requests e subs

/-- **When does the validator wait for the documented number of acknowledgements?** Binance, Bybit: always.
Bitfinex, Coinbase, Gateio, Kraken, Okx: exactly when no two subscriptions share an id (the code counts map
entries, the venue answers requests). Bitmex: exactly when there is ONE subscription — the code expects one
response, the payload quoted in bitmex/subscription.rs acknowledges one topic (`"subscribe":"trade:XBTUSD"`). -/
theorem expected_is_documented_iff (p : Pair) (insts : List Inst) :
    (subscribe p insts).expected = docAcks p.exch (subscribe p insts).sent ↔
      match family p.exch with
      | .binance | .bybit => True
      | .bitmex => insts.length = 1
      | _ => (insts.map (subscriptionId p)).Nodup :=
  expected_eq_docAcks_iff p insts

/-- The code never waits for MORE than the documented acknowledgements when at least one subscription is
given (so a well-behaved venue never makes it time out) … -/
theorem expected_le_documented (p : Pair) (insts : List Inst) (hne : insts ≠ []) :
    (subscribe p insts).expected ≤ docAcks p.exch (subscribe p insts).sent := by
  have hpos : 1 ≤ insts.length := by cases insts <;> simp_all
  simp only [subscribe, mapper, docAcks_requests, exchangeSubs, List.length_map]
  unfold expected BarterModel.SubValidator.expectedResponses specAcks acksPerTopic specFrameCount batches
  have hle := length_mapOf_le p insts
  cases hf : family p.exch <;> simp only [↓reduceIte, Bool.false_eq_true] <;> omega

/-- … Bitmex with two or more subscriptions: it stops after the first of `n` documented acknowledgements. -/
theorem bitmex_waits_for_one_of_n (p : Pair) (hp : family p.exch = .bitmex) (insts : List Inst) :
    (subscribe p insts).expected = 1 ∧ docAcks p.exch (subscribe p insts).sent = insts.length := by
  simp only [subscribe, mapper, docAcks_requests, exchangeSubs, List.length_map]
  unfold expected BarterModel.SubValidator.expectedResponses specAcks acksPerTopic
  simp [hp]

/-! ## 4. The empty subscription list -/

/-- What is sent for no subscriptions: the batching venues still send one frame with an empty topic list, the
others send nothing. -/
theorem empty_request (e : Exch) :
    requests e [] =
      match family e with
      | .binance => [.binance []] | .bitmex => [.bitmex []] | .bybit => [.bybit []] | .okx => [.okx []]
      | _ => [] :=
  requests_nil e

/-- … and how many responses the validator then waits for: one for Binance, Bybit and Bitmex (whose empty
request the venue may or may not answer), none for everyone else — Okx included, which has just sent
`{"args":[],"op":"subscribe"}`. -/
theorem empty_expected (p : Pair) :
    (subscribe p []).expected =
      match family p.exch with
      | .binance | .bybit | .bitmex => 1
      | _ => 0 := by
  simp only [subscribe, mapper, mapOf, mapFrom, List.length_nil]
  unfold expected BarterModel.SubValidator.expectedResponses
  cases family p.exch <;> rfl

/-- Link to C13S: with nothing expected the GENERIC validator (`WebSocketSubValidator`: every connector but
Bitfinex) returns at once, reading nothing from the socket; for `e = .bitfinex` this instance talks about a
validator Bitfinex does not use — its own is covered by `empty_validates_at_once_bitfinex` below … -/
theorem empty_validates_at_once (e : Exch) (h : expected e 0 = 0)
    (frames : List (SubValidator.Frame SubValidator.Resp)) :
    SubValidator.validateGeneric (family e) 0 frames = .ok ([], frames) :=
  validate_zero_expected (family e) h frames

/-- … with one response expected and a venue that does not answer an empty request, `subscribe` fails with the
validation timeout after 10 s (or "terminated unexpectedly" when the venue hangs up). -/
theorem empty_unanswered_times_out (e : Exch) (h : expected e 0 = 1) (d : Nat) (hd : 10000 ≤ d) :
    SubValidator.validateGeneric (family e) 0 [.wait d] = .error .timeout ∧
    SubValidator.validateGeneric (family e) 0 [] = .error .ended :=
  validate_one_expected_silence (family e) h d hd

/-! ## 5. The JSON text of each frame (all payloads; keys in `BTreeMap` order, fixed fields) -/

theorem binance_text (params : List Str) :
    Wire.text (.binance params) =
      objText [field "id".toList "1".toList, field "method".toList (quote "SUBSCRIBE".toList),
               field "params".toList (strsText params)] := text_binance params

theorem bitfinex_text (c s : Str) :
    Wire.text (.bitfinex c s) =
      objText [field "channel".toList (quote c), field "event".toList (quote "subscribe".toList),
               field "symbol".toList (quote s)] := text_bitfinex c s

theorem bitmex_text (args : List Str) :
    Wire.text (.bitmex args) =
      objText [field "args".toList (strsText args), field "op".toList (quote "subscribe".toList)] :=
  text_bitmex args

theorem bybit_text (args : List Str) :
    Wire.text (.bybit args) =
      objText [field "args".toList (strsText args), field "op".toList (quote "subscribe".toList)] :=
  text_bybit args

theorem coinbase_text (ps cs : List Str) :
    Wire.text (.coinbase ps cs) =
      objText [field "channels".toList (strsText cs), field "product_ids".toList (strsText ps),
               field "type".toList (quote "subscribe".toList)] := text_coinbase ps cs

theorem gateio_text (c : Str) (payload : List Str) :
    Wire.text (.gateio c payload) =
      objText [field "channel".toList (quote c), field "event".toList (quote "subscribe".toList),
               field "payload".toList (strsText payload), field "time".toList "NOW".toList] :=
  text_gateio c payload

theorem kraken_text (pair : List Str) (name : Str) :
    Wire.text (.kraken pair name) =
      objText [field "event".toList (quote "subscribe".toList), field "pair".toList (strsText pair),
               field "subscription".toList (objText [field "name".toList (quote name)])] :=
  text_kraken pair name

theorem okx_text (args : List ESub) :
    Wire.text (.okx args) =
      objText [field "args".toList (arrText (args.map okxArg)), field "op".toList (quote "subscribe".toList)] :=
  text_okx args

/-! ## 6. The finite tables (decided over all 15 connectors) -/

/-- the model's connector list is the whole enumeration, without repetition -/
theorem connectors_enumerated : (∀ e : Exch, e ∈ allExch) ∧ allExch.Nodup ∧ allExch.length = 15 := by
  refine ⟨fun e => by cases e <;> decide, by decide, rfl⟩

/-- `ExchangeId::as_str` names are pairwise different -/
theorem connector_ids_distinct : (allExch.map idName).Nodup := by decide +kernel

/-- every connector's URL is a secure-websocket URL on a host of its venue, and `Url::parse` leaves it as it
is except for adding the root path where there is none (Coinbase) -/
theorem url_table (e : Exch) :
    urlOk e = true ∧ (urlParsed e = urlConst e ∨ urlParsed e = urlConst e ++ ['/']) := by
  cases e <;> decide +kernel

/-- no two connectors share a URL -/
theorem urls_distinct : (allExch.map urlConst).Nodup := by decide +kernel

/-- application-level pings: Bybit every 5 s `{"op":"ping"}`, Okx every 29 s the bare text `ping` (below the
30 s idle limit its doc link states), nobody else -/
theorem ping_table (e : Exch) :
    pingInterval e =
      match family e with
      | .bybit => some (5000, "{\"op\":\"ping\"}".toList)
      | .okx => some (29000, "ping".toList)
      | _ => none := by
  cases e <;> decide +kernel

/-- every connector uses the default 10 s subscription timeout -/
theorem timeout_table (e : Exch) : timeoutMs e = 10000 := rfl

/-- `expected_responses` is the C13S table -/
theorem expected_table (e : Exch) (n : Nat) :
    expected e n = match family e with
      | .binance | .bybit | .bitmex => 1
      | _ => n := by
  unfold expected BarterModel.SubValidator.expectedResponses
  cases family e <;> rfl

/-! ## Non-vacuity and concrete texts -/

def exSubs : List ESub :=
  [⟨"@trade".toList, "BTCUSDT".toList⟩, ⟨"@depth@100ms".toList, "ETHUSDT".toList⟩,
   ⟨"@trade".toList, "BTCUSDT".toList⟩]

example : ∀ s ∈ exSubs, Decodable .binanceSpot s := by
  intro s hs
  simp only [exSubs, List.mem_cons, List.not_mem_nil, or_false] at hs
  rcases hs with rfl | rfl | rfl <;> exact ⟨by decide, _, rfl⟩

example : String.ofList ((requests .binanceSpot exSubs).map Wire.text).head! =
    "{\"id\":1,\"method\":\"SUBSCRIBE\",\"params\":[\"btcusdt@trade\",\"ethusdt@depth@100ms\",\"btcusdt@trade\"]}" := by
  decide +kernel

example : (requested (requests .binanceSpot exSubs)).map (·.market) =
    ["btcusdt".toList, "ethusdt".toList, "btcusdt".toList] := by decide +kernel

/-- `Decodable` is needed: a Bybit topic name containing the separator is read differently by the venue -/
example : requested (requests .bybitSpot [⟨"a.b".toList, "C".toList⟩]) = [⟨"a".toList, "b.C".toList⟩] := by
  decide +kernel

def exInsts : List Inst :=
  [⟨"Btc".toList, "USDt".toList, .spot⟩, ⟨"eth".toList, "usd".toList, .spot⟩, ⟨"BTC".toList, "usdt".toList, .spot⟩]

def krakenTrades : Pair := ⟨.kraken, .publicTrades⟩
def bitmexTrades : Pair := ⟨.bitmex, .publicTrades⟩

example : krakenTrades ∈ supported := by decide
example : ((mapper krakenTrades exInsts).ws.map fun w => String.ofList w.text) =
    ["{\"event\":\"subscribe\",\"pair\":[\"BTC/USDT\"],\"subscription\":{\"name\":\"trade\"}}",
     "{\"event\":\"subscribe\",\"pair\":[\"ETH/USD\"],\"subscription\":{\"name\":\"trade\"}}",
     "{\"event\":\"subscribe\",\"pair\":[\"BTC/USDT\"],\"subscription\":{\"name\":\"trade\"}}"] := by
  decide +kernel
/-- duplicates: three frames are sent, the map has two entries, the shared id belongs to the LAST subscription,
two responses are awaited where the venue documents three -/
example : (subscribe krakenTrades exInsts).sent.length = 3 ∧ (subscribe krakenTrades exInsts).map.length = 2 ∧
    (subscribe krakenTrades exInsts).map.find "trade|BTC/USDT".toList = some 2 ∧
    (subscribe krakenTrades exInsts).expected = 2 ∧
    docAcks .kraken (subscribe krakenTrades exInsts).sent = 3 := by decide +kernel

/-- Bitmex, two instruments: one frame, two topics, ONE response awaited, two documented -/
example : ((subscribe bitmexTrades [⟨"xbt".toList, "usd".toList, .perpetual⟩, ⟨"eth".toList, "usd".toList, .perpetual⟩]).sent.map
      fun w => String.ofList w.text) = ["{\"args\":[\"trade:XBTUSD\",\"trade:ETHUSD\"],\"op\":\"subscribe\"}"] ∧
    (subscribe bitmexTrades [⟨"xbt".toList, "usd".toList, .perpetual⟩, ⟨"eth".toList, "usd".toList, .perpetual⟩]).expected = 1 ∧
    docAcks .bitmex (subscribe bitmexTrades [⟨"xbt".toList, "usd".toList, .perpetual⟩, ⟨"eth".toList, "usd".toList, .perpetual⟩]).sent = 2 := by
  decide +kernel

/-- the empty Okx request -/
example : (requests .okx []).map (fun w => String.ofList w.text) = ["{\"args\":[],\"op\":\"subscribe\"}"] ∧
    expected .okx 0 = 0 := by decide +kernel

example : String.ofList (urlParsed .coinbase) = "wss://ws-feed.execution.coinbase.com/" := by decide +kernel
example : String.ofList (urlHost (urlConst .binanceSpot)) = "stream.binance.com" := by decide +kernel

/-! ## 7. Added after the review of the sub-check theorems

The venue-side reading of the frame TEXT (`readText`, `Model/SubRequests.lean`) and its link to `Wire.verb` /
`Wire.topics` and to the specification; the Bitfinex form of `empty_validates_at_once`; the strict form of
`map_smaller_iff_duplicates`. -/

section Added

/-- **What the venue reads in the TEXT of the frames.** `readText` reads a frame's JSON text (a list of
characters) with the venue's documented grammar — lexing string literals with their escapes, then taking the
verb from its key and the topics from the array / members the grammar names — without looking at how the frame
was built. For every connector, every list of subscriptions and all names (no hypothesis): reading the text of
each frame `Connector::requests` produces gives that frame's verb and topics, i.e. `Wire.verb` / `Wire.topics`
(on which the theorems of section 1 are stated) ARE the reading of `Wire.text`. -/
theorem venue_reads_the_text (e : Exch) (subs : List ESub) :
    ∀ w ∈ requests e subs, readText (family e) w.text = some (w.verb, w.topics) :=
  readText_text e subs

/-- **From the raw text to the specification.** For decodable names, reading the JSON texts of the frames, in
sending order, gives exactly the documented request for the subscriptions. -/
theorem text_read_refines_spec (e : Exch) (subs : List ESub) (h : ∀ s ∈ subs, Decodable e s) :
    (requests e subs).map (fun w => readText (family e) w.text) = (specFrames e subs).map some := by
  rw [← requests_refine_spec e subs h, readFrames, List.map_map]
  apply List.map_congr_left
  intro w hw
  exact venue_reads_the_text e subs w hw

/-- The reader is a function of the text alone: two frames with the same text are read alike. (Not so for
`Wire.topics` a priori: it is defined on the constructor.) -/
theorem same_text_same_reading (e : Exch) (a b : List ESub) (w w' : Wire) (hw : w ∈ requests e a)
    (hw' : w' ∈ requests e b) (ht : w.text = w'.text) : w.verb = w'.verb ∧ w.topics = w'.topics := by
  have h1 := venue_reads_the_text e a w hw
  have h2 := venue_reads_the_text e b w' hw'
  rw [ht, h2] at h1
  simp only [Option.some.injEq, Prod.mk.injEq] at h1
  exact ⟨h1.1.symm, h1.2.symm⟩

/-- escapes are read back: a Kraken name with a double quote, a pair with a backslash -/
example : (readText .kraken (Wire.text (.kraken ["XBT\\USD".toList] "tr\"ade".toList))).map
      (fun r => (String.ofList r.1, r.2.map fun t => (String.ofList t.chan, String.ofList t.market)))
    = some ("subscribe", [("tr\"ade", "XBT\\USD")]) := by decide +kernel

/-- the reader does read the text: other texts give other readings, and text that is not a request gives none -/
example : (readText .bitmex "{\"args\":[\"trade:XBTUSD\",\"x:y:z\"],\"op\":\"unsubscribe\"}".toList).map
      (fun r => (String.ofList r.1, r.2.map fun t => (String.ofList t.chan, String.ofList t.market)))
    = some ("unsubscribe", [("trade", "XBTUSD"), ("x", "y:z")]) := by decide +kernel
example : readText .bitmex "{\"op\":\"subscribe\"}".toList = none := by decide +kernel

/-- `empty_validates_at_once` is about the generic validator (`WebSocketSubValidator`), which Bitfinex does not
use. The statement for `BitfinexWebSocketSubValidator`: with an empty instrument map it returns at once, the
map, the buffer and the socket untouched. -/
theorem empty_validates_at_once_bitfinex (frames : List (SubValidator.Frame SubValidator.BfxEvent)) :
    SubValidator.validateBfx [] frames = .ok ([], [], frames) := by
  cases frames <;> simp [SubValidator.validateBfx, SubValidator.runBfx, SubValidator.expectedResponses]

/-- `map_smaller_iff_duplicates` as its name says it: the map is strictly smaller than the request iff two
subscriptions share an id (it is never larger). -/
theorem map_strictly_smaller_iff_duplicates (p : Pair) (insts : List Inst) :
    (mapper p insts).map.length < (requested (mapper p insts).ws).length ↔
      ¬ (insts.map (subscriptionId p)).Nodup := by
  rw [← map_smaller_iff_duplicates p insts]
  have hle : (mapper p insts).map.length ≤ (requested (mapper p insts).ws).length := by
    simp only [mapper, one_topic_per_subscription, exchangeSubs, List.length_map]
    exact length_mapOf_le p insts
  omega

end Added

end BarterModel.Props.C13Q
