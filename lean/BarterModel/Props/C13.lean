import BarterModel.Lemmas.Connectors
namespace BarterModel.Props.C13
open BarterModel.Connectors

theorem sep_injective (c m₁ m₂ : Str) (h : subId c m₁ = subId c m₂) : m₁ = m₂ :=
  subId_injective c m₁ m₂ h

end BarterModel.Props.C13
