import BarterModel.Lemmas.Connectors
/-!
# C13 — Market-data messages are attributed to the subscribed instrument, or rejected

Statements only (proofs go through `Lemmas/Connectors.lean`). Everything quantifies over **every**
`(connector, kind)` pair of `supported` (the 21 arms of `DynamicStreams::init`), every list of
subscribed instruments (any length, any ASCII names, any kinds/expiries/strikes) and every message.

* `p` — the pair; `subs` — the subscribed instruments, the `k`-th one has instrument key `k`;
* `mapOf p subs` — the instrument map `WebSocketSubMapper::map` builds;
* `transform p m msg` — `Transformer::transform` of the pair's transformer;
* hypotheses: `Nodup` of the subscription ids / venue symbols ("pairwise distinct markets": two
  instruments that the venue itself cannot tell apart are outside the property), and for the
  connectors that read the id off the first trade of a batch, a non-empty batch.

Bitfinex (which names a numeric channel id instead of the market) has its own pair of theorems.
-/
namespace BarterModel.Props.C13
open BarterModel.Connectors

/-! ## 4. `sep_injective` -/

/-- `channel|m₁ = channel|m₂ → m₁ = m₂`. -/
theorem sep_injective (c m₁ m₂ : Str) (h : subId c m₁ = subId c m₂) : m₁ = m₂ :=
  subId_injective c m₁ m₂ h

/-- No channel of any pair (and no venue channel) contains `|`, hence `channel|market` decodes
uniquely: equal ids have equal channels **and** equal markets. -/
theorem sep_injective_channels (p q : Pair) (ik jk : IKind) (m₁ m₂ : Str)
    (h : subId (channel p ik) m₁ = subId (channel q jk) m₂) :
    channel p ik = channel q jk ∧ m₁ = m₂ :=
  subId_inj_of_no_bar _ _ _ _ (channel_no_bar p ik) (channel_no_bar q jk) h

/-! ## 1. `market_is_venue_symbol` -/

/-- The market string the subscribe side derives for an instrument is the venue's symbol for it —
for every connector, every ASCII base/quote spelling (any case mix), every instrument kind, expiry
and strike. (False for Kraken before `fix:` e8d664e and for Okx dated contracts before `fix:`
ef20a36; holds without hypothesis on the current tree.) -/
theorem market_is_venue_symbol (e : Exch) (i : Inst) : market e i = venueSymbol e i :=
  market_eq_venueSymbol e i

/-- … and the subscribe-side channel is the venue's channel for the pair, for every instrument
kind the dynamic builder lets through (`supports`). -/
theorem channel_is_venue_channel (p : Pair) (hp : p ∈ supported) (ik : IKind)
    (hs : supports p ik = true) : channel p ik = venueChannel p :=
  channel_of_supports p ik hp hs

/-- The payload-side derivation (`de_*_subscription_id`, `Identifier<Option<SubscriptionId>>`)
yields exactly the subscribe-side id when the payload names the instrument's market (and, where
the connector reads it, the instrument's channel). -/
theorem payload_id_agrees (p : Pair) (hp : p ∈ supported) (hb : p.exch ≠ .bitfinex) (i : Inst)
    (msg : Msg) (hm : msg.market = market p.exch i) (hc : msg.chan = channel p i.kind)
    (hne : p.exch.needsItem = true → msg.items ≠ []) :
    payloadId p msg = some (subscriptionId p i) := by
  rw [payloadId_some p msg hp hb hne, subscriptionId, hm]
  congr 2
  unfold payloadChan
  by_cases hr : p.exch.readsChan = true
  · simp [hr, hc]
  · simp only [hr]; exact (channel_const p i.kind hp (by simpa using hr)).symm

/-! ## 2. `attributed` -/

/-- A message for the market of the `k`-th subscribed instrument is transformed into exactly the
events `events p k msg` — all of which carry key `k` (`events_key_exchange`) and the payload's
fields (`trade_fields_as_stated` …). -/
theorem attributed (p : Pair) (hp : p ∈ supported) (hb : p.exch ≠ .bitfinex) (subs : List Inst)
    (hd : (subs.map (subscriptionId p)).Nodup) (k : Nat) (i : Inst) (hk : subs[k]? = some i)
    (msg : Msg) (hm : msg.market = market p.exch i) (hc : msg.chan = channel p i.kind)
    (hne : p.exch.needsItem = true → msg.items ≠ []) :
    transform p (mapOf p subs) msg = .events (events p k msg) := by
  simp [transform, payload_id_agrees p hp hb i msg hm hc hne, find_mapOf p subs hd k i hk]

/-- Every event built for key `k` carries key `k` and the connector's exchange id. -/
theorem events_key_exchange (p : Pair) (k : Nat) (msg : Msg) :
    ∀ ev ∈ events p k msg, ev.key = k ∧ ev.exch = p.exch := by
  intro ev hev
  unfold events at hev
  cases hk : p.kind <;> simp only [hk] at hev
  · split at hev
    · split at hev <;> simp_all
    · simp only [List.mem_map] at hev; obtain ⟨_, _, rfl⟩ := hev; simp
  · split at hev <;> simp_all
  · split at hev <;> simp_all
  · split at hev <;> simp_all

/-- the `(price, traded quantity, side, time)` of a trade event -/
def tradeView (ev : Event) : Option SpecTrade :=
  match ev.kind with
  | .trade p a s => some ⟨p, absR a, s, ev.time⟩
  | _ => none

/-- Trades: one event per trade of the payload, in order, with the price and time as stated, the
traded quantity `|amount|` and the side — the stated side field, or the sign of the amount for the
venues that sign it (`specTrade`). -/
theorem trade_fields_as_stated (p : Pair) (hk : p.kind = .publicTrades) (k : Nat) (msg : Msg)
    (hs : shapeOk p msg = true) :
    (events p k msg).map tradeView = msg.items.map fun it => some (specTrade p.exch it) := by
  have key : ∀ it : Item, tradeView ⟨k, p.exch, it.time, tradeOf p.exch it⟩ = some (specTrade p.exch it) := by
    intro it
    have habs : absR (absR it.amount) = absR it.amount := by
      by_cases h : it.amount < 0
      · have h2 : ¬ (-it.amount < 0) := by grind
        simp [absR, h, h2]
      · simp [absR, h]
    cases he : p.exch <;>
      simp [tradeView, tradeOf, specTrade, Exch.signEncodesSide, signSide, habs]
  unfold events
  simp only [hk]
  by_cases hst : p.exch.singleTrade = true
  · simp only [hst, ↓reduceIte]
    unfold shapeOk at hs
    simp only [hk] at hs
    match hi : msg.items with
    | [] => simp
    | [it] => simp [key]
    | a :: b :: rest =>
      rw [hi] at hs
      cases he : p.exch <;> simp_all [Exch.singleTrade]
  · simp only [hst]
    simp [List.map_map, Function.comp_def, key]

/-- L1: one event, time of the message, best bid / ask = the stated `(price, amount)` levels
(a level whose stated price is zero is reported as absent). -/
theorem l1_fields_as_stated (p : Pair) (hk : p.kind = .orderBooksL1) (k : Nat) (msg : Msg)
    (b a : Item) (hi : msg.items = [b, a]) :
    events p k msg = [⟨k, p.exch, b.time, .l1 (level b) (level a)⟩] ∧
    (b.price ≠ 0 → level b = some (b.price, b.amount)) ∧
    (a.price ≠ 0 → level a = some (a.price, a.amount)) := by
  refine ⟨by simp [events, hk, hi], ?_, ?_⟩ <;> intro h <;> simp [level, h]

/-- Liquidations: one event with the stated price, quantity, side and time. -/
theorem liq_fields_as_stated (p : Pair) (hk : p.kind = .liquidations) (k : Nat) (msg : Msg)
    (it : Item) (hi : msg.items = [it]) :
    events p k msg = [⟨k, p.exch, it.time, .liq it.price it.amount it.side⟩] := by
  simp [events, hk, hi]

/-- L2 updates: one event, the stated bid levels and ask levels. -/
theorem l2_fields_as_stated (p : Pair) (hk : p.kind = .orderBooksL2) (k : Nat) (msg : Msg)
    (it : Item) (rest : List Item) (hi : msg.items = it :: rest) :
    events p k msg = [⟨k, p.exch, it.time,
      .l2 ((msg.items.filter (·.side = .buy)).map fun i => (i.price, i.amount))
          ((msg.items.filter (·.side = .sell)).map fun i => (i.price, i.amount))⟩] := by
  simp [events, hk, hi]

/-! ## 3. `rejected` -/

/-- A message whose `(channel, market)` is not that of any subscribed instrument yields the
unidentifiable-subscription error carrying the derived id. (`'|' ∉ msg.chan` only matters for the
connectors that take the channel text from the payload.) -/
theorem rejected (p : Pair) (hp : p ∈ supported) (hb : p.exch ≠ .bitfinex) (subs : List Inst)
    (msg : Msg) (hbar : '|' ∉ msg.chan)
    (hno : ∀ i ∈ subs, ¬ (market p.exch i = msg.market ∧ channel p i.kind = payloadChan p msg))
    (hne : p.exch.needsItem = true → msg.items ≠ []) :
    transform p (mapOf p subs) msg = .unidentifiable (subId (payloadChan p msg) msg.market) := by
  have hid := payloadId_some p msg hp hb hne
  have hnb : '|' ∉ payloadChan p msg := by
    unfold payloadChan; split
    · exact hbar
    · exact channel_no_bar p .spot
  have hnot : subId (payloadChan p msg) msg.market ∉ subs.map (subscriptionId p) := by
    intro hmem
    obtain ⟨i, hi, heq⟩ := List.mem_map.mp hmem
    have := subId_inj_of_no_bar _ _ _ _ (channel_no_bar p i.kind) hnb heq
    exact hno i hi ⟨this.2, this.1⟩
  simp [transform, hid, find_mapOf_none p subs _ hnot]

/-- … and in no case (also for an empty batch) does such a message produce an event for some
other instrument. -/
theorem rejected_never_event (p : Pair) (hp : p ∈ supported) (hb : p.exch ≠ .bitfinex)
    (subs : List Inst) (msg : Msg) (hbar : '|' ∉ msg.chan)
    (hno : ∀ i ∈ subs, ¬ (market p.exch i = msg.market ∧ channel p i.kind = payloadChan p msg))
    (ev : Event) (evs : List Event) :
    transform p (mapOf p subs) msg ≠ .events (ev :: evs) := by
  by_cases hne : p.exch.needsItem = true → msg.items ≠ []
  · rw [rejected p hp hb subs msg hbar hno hne]; intro h; cases h
  · have hn : p.exch.needsItem = true := by
      by_cases h : p.exch.needsItem = true
      · exact h
      · exact absurd (fun h' => absurd h' h) hne
    have he : msg.items = [] := by
      by_cases h : msg.items = []
      · exact h
      · exact absurd (fun _ => h) hne
    simp [transform, payloadId_none_of_empty p msg hp hn he]

/-! ## Refinement to the venue specification (what the `spec` driver runs) -/

/-- For instrument sets the dynamic builder accepts for the pair (`supports`) whose venue symbols
are pairwise distinct, and a message on the pair's venue channel naming market `m`:
the transformer does exactly what the property's attribution rule (`specVerdict`, defined on venue
symbols only) demands — events for the one instrument the venue lists under `m`, or the
unidentifiable error when there is none; the verdict is never `ambiguous`. -/
theorem refines_spec (p : Pair) (hp : p ∈ supported) (hb : p.exch ≠ .bitfinex) (subs : List Inst)
    (hs : ∀ i ∈ subs, supports p i.kind = true)
    (hd : (subs.map (venueSymbol p.exch)).Nodup)
    (msg : Msg) (hc : msg.chan = venueChannel p)
    (hne : p.exch.needsItem = true → msg.items ≠ []) :
    match specVerdict p.exch subs msg.market with
    | .attributed k => transform p (mapOf p subs) msg = .events (events p k msg)
    | .rejected => ∃ id, transform p (mapOf p subs) msg = .unidentifiable id
    | .ambiguous => False := by
  by_cases hmem : msg.market ∈ subs.map (venueSymbol p.exch)
  · obtain ⟨i, hi, hsym⟩ := List.mem_map.mp hmem
    obtain ⟨k, hk⟩ := List.getElem?_of_mem hi
    have hh := holdersFrom_unique p.exch 0 subs msg.market hd k i hk hsym
    simp only [specVerdict, holders, hh, Nat.zero_add]
    apply attributed p hp hb subs (ids_nodup_of_symbols p subs hp hs hd) k i hk msg
    · rw [market_eq_venueSymbol, hsym]
    · rw [hc, channel_of_supports p i.kind hp (hs i hi)]
    · exact hne
  · have hh := holdersFrom_none p.exch 0 subs msg.market hmem
    simp only [specVerdict, holders, hh]
    refine ⟨_, rejected p hp hb subs msg (hc ▸ venueChannel_no_bar p) ?_ hne⟩
    intro i hi ⟨h1, _⟩
    exact hmem (List.mem_map.mpr ⟨i, hi, by rw [← market_eq_venueSymbol, h1]⟩)

/-! ## Bitfinex: messages name the numeric channel id the venue confirmed

`confs` are the venue's `subscribed` confirmations `(symbol, chanId)` in arrival order; a
well-behaved venue confirms every symbol at most once and under pairwise distinct channel ids
(`Nodup` hypotheses). `bitfinexConfirm` is the validator's re-keying loop. -/

def bitfinex : Pair := ⟨.bitfinex, .publicTrades⟩

/-- A trade on the channel id confirmed for the `k`-th instrument's symbol is attributed to `k`. -/
theorem bitfinex_attributed (subs : List Inst)
    (hd : (subs.map (subscriptionId bitfinex)).Nodup) (confs : List (Str × Nat))
    (hs : (confs.map (·.1)).Nodup) (hc : (confs.map (·.2)).Nodup)
    (k : Nat) (i : Inst) (hk : subs[k]? = some i) (c : Nat)
    (hconf : (market .bitfinex i, c) ∈ confs)
    (msg : Msg) (hid : msg.chanId = c) (it : Item) (hi : msg.items = [it]) :
    transform bitfinex (bitfinexConfirm (mapOf bitfinex subs) confs) msg
      = .events (events bitfinex k msg) := by
  have h0 : (mapOf bitfinex subs).find (subId "trades".toList (market .bitfinex i)) = some k :=
    find_mapOf bitfinex subs hd k i hk
  have := find_confirm_attributed _ confs hs hc _ c k hconf h0
  simp [transform, payloadId, bitfinex, hi, hid] at this ⊢
  simp [this]

/-- A trade on a channel id the venue never confirmed, or confirmed for a symbol that was not
subscribed, yields the unidentifiable error — never an event. -/
theorem bitfinex_rejected (subs : List Inst) (confs : List (Str × Nat))
    (hc : (confs.map (·.2)).Nodup) (c : Nat)
    (hcase : c ∉ confs.map (·.2) ∨
      ∃ sym, (sym, c) ∈ confs ∧ sym ∉ subs.map (market .bitfinex))
    (msg : Msg) (hid : msg.chanId = c) (it : Item) (hi : msg.items = [it]) :
    transform bitfinex (bitfinexConfirm (mapOf bitfinex subs) confs) msg
      = .unidentifiable (Nat.toDigits 10 c) := by
  have hdig : (mapOf bitfinex subs).find (Nat.toDigits 10 c) = none := by
    apply find_mapOf_none
    intro hmem
    obtain ⟨i, _, heq⟩ := List.mem_map.mp hmem
    exact digits_ne_subId c _ _ heq.symm
  have hnone : (bitfinexConfirm (mapOf bitfinex subs) confs).find (Nat.toDigits 10 c) = none := by
    rcases hcase with hnot | ⟨sym, hmem, hsym⟩
    · rw [find_digits_confirm _ _ _ hnot]; exact hdig
    · apply find_confirm_rejected _ confs hc sym c hmem _ hdig
      apply find_mapOf_none
      intro hmem'
      obtain ⟨i, hi', heq⟩ := List.mem_map.mp hmem'
      apply hsym
      have : market .bitfinex i = sym := subId_injective _ _ _ heq
      exact List.mem_map.mpr ⟨i, hi', this⟩
  simp only [bitfinex] at hnone
  simp [transform, payloadId, bitfinex, hi, hid, hnone]

/-- Heartbeats (no trade) yield nothing. -/
theorem bitfinex_heartbeat (m : IMap) (msg : Msg) (hi : msg.items = []) :
    transform bitfinex m msg = .events [] := by
  simp [transform, payloadId, bitfinex, hi]

/-- Refinement to the venue specification for Bitfinex (what the `spec` driver runs): the message's
channel id stands for the symbol the venue confirmed under it (`bitfinexSymbolOf`), and the
attribution rule is applied to that symbol. -/
theorem bitfinex_refines_spec (subs : List Inst)
    (hsp : ∀ i ∈ subs, supports bitfinex i.kind = true)
    (hd : (subs.map (venueSymbol .bitfinex)).Nodup) (confs : List (Str × Nat))
    (hs : (confs.map (·.1)).Nodup) (hc : (confs.map (·.2)).Nodup)
    (msg : Msg) (it : Item) (hi : msg.items = [it]) :
    let out := transform bitfinex (bitfinexConfirm (mapOf bitfinex subs) confs) msg
    match bitfinexSymbolOf confs msg.chanId with
    | none => ∃ id, out = .unidentifiable id
    | some sym =>
      match specVerdict .bitfinex subs sym with
      | .attributed k => out = .events (events bitfinex k msg)
      | .rejected => ∃ id, out = .unidentifiable id
      | .ambiguous => False := by
  intro out
  have hids := ids_nodup_of_symbols bitfinex subs (by decide) hsp hd
  cases hsym : bitfinexSymbolOf confs msg.chanId with
  | none =>
    refine ⟨_, bitfinex_rejected subs confs hc msg.chanId (Or.inl ?_) msg rfl it hi⟩
    intro hmem
    obtain ⟨x, hx, hx2⟩ := List.mem_map.mp hmem
    simp only [bitfinexSymbolOf, Option.map_eq_none_iff, List.find?_eq_none] at hsym
    exact absurd (hsym x (List.mem_reverse.mpr hx)) (by simp [hx2])
  | some sym =>
    simp only [bitfinexSymbolOf, Option.map_eq_some_iff] at hsym
    obtain ⟨x, hfind, hx1⟩ := hsym
    have hx2 : x.2 = msg.chanId := by simpa using List.find?_some hfind
    have hmem : (sym, msg.chanId) ∈ confs := by
      have := List.mem_reverse.mp (List.mem_of_find?_eq_some hfind)
      rw [← hx1, ← hx2]; exact this
    by_cases hin : sym ∈ subs.map (venueSymbol .bitfinex)
    · obtain ⟨i, hi', hsy⟩ := List.mem_map.mp hin
      obtain ⟨k, hk⟩ := List.getElem?_of_mem hi'
      simp only [specVerdict, holders, holdersFrom_unique .bitfinex 0 subs sym hd k i hk hsy, Nat.zero_add]
      exact bitfinex_attributed subs hids confs hs hc k i hk msg.chanId
        (by rw [market_eq_venueSymbol, hsy]; exact hmem) msg rfl it hi
    · simp only [specVerdict, holders, holdersFrom_none .bitfinex 0 subs sym hin]
      refine ⟨_, bitfinex_rejected subs confs hc msg.chanId (Or.inr ⟨sym, hmem, ?_⟩) msg rfl it hi⟩
      intro h
      apply hin
      obtain ⟨i, hi', hsy⟩ := List.mem_map.mp h
      exact List.mem_map.mpr ⟨i, hi', by rw [← market_eq_venueSymbol, hsy]⟩

/-! ## Non-vacuity: the hypotheses are satisfiable by non-trivial values -/

/-- mixed-case names, digits, a shared prefix (`bt`/`btc`), three Okx kinds incl. an expiry whose ISO
week-year differs from its calendar year -/
def exSubs : List Inst :=
  [⟨"Btc".toList, "USDt".toList, .spot⟩, ⟨"bt".toList, "usd".toList, .perpetual⟩,
   ⟨"1inch".toList, "usd".toList, .future ⟨2027, 1, 1⟩⟩,
   ⟨"eth".toList, "usd".toList, .option ⟨2024, 12, 30⟩ 50000 true⟩]

def okxTrades : Pair := ⟨.okx, .publicTrades⟩

example : okxTrades ∈ supported := by decide
example : ∀ i ∈ exSubs, supports okxTrades i.kind = true := by decide
example : (exSubs.map (venueSymbol .okx)).Nodup := by decide
example : (exSubs.map (subscriptionId okxTrades)).Nodup := by decide
example : venueSymbol .okx exSubs[2] = "1INCH-USD-270101".toList := by decide
example : market .okx exSubs[3] = "ETH-USD-241230-50000-C".toList := by decide

/-- `attributed` / `refines_spec` fire on a concrete message: two trades for the dated future -/
example :
    (match transform okxTrades (mapOf okxTrades exSubs)
        ⟨"trades".toList, "1INCH-USD-270101".toList, 0, [⟨1, 2, .buy, 5⟩, ⟨3, 4, .sell, 6⟩]⟩ with
      | .events evs => evs.map fun ev => (ev.key, ev.exch, ev.time)
      | .unidentifiable _ => []) = [(2, .okx, 5), (2, .okx, 6)] := by
  decide

example : specVerdict .okx exSubs "1INCH-USD-270101".toList = .attributed 2 := by decide
example : specVerdict .okx exSubs "BT-USD".toList = .rejected := by decide
/-- the similar-prefix market is a different instrument -/
example : specVerdict .okx exSubs "BT-USD-SWAP".toList = .attributed 1 := by decide

/-- Bitfinex hypotheses: two instruments, confirmations in reverse order, one unsubscribed symbol -/
def exBfx : List Inst := [⟨"btc".toList, "usd".toList, .spot⟩, ⟨"ETH".toList, "usd".toList, .spot⟩]
def exConfs : List (Str × Nat) :=
  [("tETHUSD".toList, 7), ("tBTCUSD".toList, 12), ("tXRPUSD".toList, 3)]

example : (exBfx.map (subscriptionId bitfinex)).Nodup := by decide
example : (exConfs.map (·.1)).Nodup ∧ (exConfs.map (·.2)).Nodup := by decide
example : (market .bitfinex exBfx[1], 7) ∈ exConfs := by decide
example : "tXRPUSD".toList ∉ exBfx.map (market .bitfinex) := by decide
example :
    (match transform bitfinex (bitfinexConfirm (mapOf bitfinex exBfx) exConfs)
        ⟨[], [], 7, [⟨100, -2, .buy, 5⟩]⟩ with
      | .events evs => evs.map fun ev => (ev.key, ev.exch, ev.time)
      | .unidentifiable _ => []) = [(1, .bitfinex, 5)] := by
  decide

/-- Non-market messages (heartbeats, venue errors, command responses) are never attributed to any
instrument and never rejected: they yield nothing, whatever is subscribed. -/
theorem noise_yields_nothing (p : Pair) (m : IMap) (n : Noise) :
    transformNoise p m n = .events [] := rfl


/-! ## Both instrument representations (review C13-1)

Every connector has three `Identifier<Market>` impls; the theorems above are about the two that
FORMAT the market from the underlying (`Subscription<_, MarketDataInstrument, _>`,
`Subscription<_, Keyed<_, MarketDataInstrument>, _>`). The third,
`Subscription<_, MarketInstrumentData<Key>, _>`, takes `name_exchange` **verbatim** and is the one
the engine's indexed market stream uses (`streams/builder/dynamic/indexed.rs`). `InstRep` is the sum
of the two; the theorems of §1–§3 and the refinement are restated here over **lists of `InstRep`**
(any mixture); the statements above are the instances `subs.map .formatted`
(`formatted_is_the_old_path`). -/

/-- The model over the sum, restricted to formatted instruments, is the model the theorems above are
about: same subscription ids, same instrument map, same spec verdict. -/
theorem formatted_is_the_old_path (p : Pair) (subs : List Inst) :
    (∀ i, subscriptionIdR p (.formatted i) = subscriptionId p i) ∧
    mapOfR p (subs.map .formatted) = mapOf p subs ∧
    ∀ m, specVerdictR p.exch (subs.map .formatted) m = specVerdict p.exch subs m :=
  ⟨fun _ => rfl, mapOfR_formatted p subs, specVerdictR_formatted p.exch subs⟩

/-- `market_is_venue_symbol`, verbatim path: the market the subscribe side derives IS the
`name_exchange` the user supplied — identity: no case mapping, no formatting, for every connector
and every string. Whether it is the venue's symbol is the user's responsibility
(`lowercase_verbatim_name_is_rejected`). -/
theorem market_is_venue_symbol_verbatim (e : Exch) (name : Str) (k : IKind) :
    marketR e (.verbatim name k) = name := rfl

/-- `market_is_venue_symbol` over the sum: formatted — the venue's symbol for the underlying;
verbatim — the supplied name. -/
theorem market_is_venue_symbol_rep (e : Exch) (r : InstRep) : marketR e r = venueSymbolR e r :=
  marketR_eq_venueSymbolR e r

/-- `payload_id_agrees` for either representation. -/
theorem payload_id_agrees_rep (p : Pair) (hp : p ∈ supported) (hb : p.exch ≠ .bitfinex)
    (r : InstRep) (msg : Msg) (hm : msg.market = marketR p.exch r) (hc : msg.chan = channel p r.kind)
    (hne : p.exch.needsItem = true → msg.items ≠ []) :
    payloadId p msg = some (subscriptionIdR p r) := by
  rw [payloadId_some p msg hp hb hne, subscriptionIdR, hm]
  congr 2
  unfold payloadChan
  by_cases hr : p.exch.readsChan = true
  · simp [hr, hc]
  · simp only [hr]; exact (channel_const p r.kind hp (by simpa using hr)).symm

/-- `attributed` for either representation (and any mixture in one subscription list): a message
for the market of the `k`-th subscribed instrument — the formatted symbol, or the verbatim
`name_exchange` — is transformed into exactly the events of key `k`. -/
theorem attributed_rep (p : Pair) (hp : p ∈ supported) (hb : p.exch ≠ .bitfinex)
    (subs : List InstRep) (hd : (subs.map (subscriptionIdR p)).Nodup) (k : Nat) (r : InstRep)
    (hk : subs[k]? = some r) (msg : Msg) (hm : msg.market = marketR p.exch r)
    (hc : msg.chan = channel p r.kind) (hne : p.exch.needsItem = true → msg.items ≠ []) :
    transform p (mapOfR p subs) msg = .events (events p k msg) := by
  simp [transform, payload_id_agrees_rep p hp hb r msg hm hc hne, find_mapOfR p subs hd k r hk]

/-- `rejected` for either representation: a message whose `(channel, market)` is not that of any
subscribed instrument yields the unidentifiable error carrying the derived id. For a verbatim
instrument "its market" is the supplied name, character for character. -/
theorem rejected_rep (p : Pair) (hp : p ∈ supported) (hb : p.exch ≠ .bitfinex)
    (subs : List InstRep) (msg : Msg) (hbar : '|' ∉ msg.chan)
    (hno : ∀ r ∈ subs, ¬ (marketR p.exch r = msg.market ∧ channel p r.kind = payloadChan p msg))
    (hne : p.exch.needsItem = true → msg.items ≠ []) :
    transform p (mapOfR p subs) msg = .unidentifiable (subId (payloadChan p msg) msg.market) := by
  have hid := payloadId_some p msg hp hb hne
  have hnb : '|' ∉ payloadChan p msg := by
    unfold payloadChan; split
    · exact hbar
    · exact channel_no_bar p .spot
  have hnot : subId (payloadChan p msg) msg.market ∉ subs.map (subscriptionIdR p) := by
    intro hmem
    obtain ⟨r, hr, heq⟩ := List.mem_map.mp hmem
    have := subId_inj_of_no_bar _ _ _ _ (channel_no_bar p r.kind) hnb heq
    exact hno r hr ⟨this.2, this.1⟩
  simp [transform, hid, find_mapOfR_none p subs _ hnot]

/-- `rejected_never_event` for either representation. -/
theorem rejected_never_event_rep (p : Pair) (hp : p ∈ supported) (hb : p.exch ≠ .bitfinex)
    (subs : List InstRep) (msg : Msg) (hbar : '|' ∉ msg.chan)
    (hno : ∀ r ∈ subs, ¬ (marketR p.exch r = msg.market ∧ channel p r.kind = payloadChan p msg))
    (ev : Event) (evs : List Event) :
    transform p (mapOfR p subs) msg ≠ .events (ev :: evs) := by
  by_cases hne : p.exch.needsItem = true → msg.items ≠ []
  · rw [rejected_rep p hp hb subs msg hbar hno hne]; intro h; cases h
  · have hn : p.exch.needsItem = true := by
      by_cases h : p.exch.needsItem = true
      · exact h
      · exact absurd (fun h' => absurd h' h) hne
    have he : msg.items = [] := by
      by_cases h : msg.items = []
      · exact h
      · exact absurd (fun _ => h) hne
    simp [transform, payloadId_none_of_empty p msg hp hn he]

/-- `refines_spec` for either representation: for subscribed instruments of builder-accepted kinds
whose venue symbols (computed, or supplied verbatim) are pairwise distinct, the transformer does
exactly what the attribution rule demands. -/
theorem refines_spec_rep (p : Pair) (hp : p ∈ supported) (hb : p.exch ≠ .bitfinex)
    (subs : List InstRep) (hs : ∀ r ∈ subs, supports p r.kind = true)
    (hd : (subs.map (venueSymbolR p.exch)).Nodup)
    (msg : Msg) (hc : msg.chan = venueChannel p)
    (hne : p.exch.needsItem = true → msg.items ≠ []) :
    match specVerdictR p.exch subs msg.market with
    | .attributed k => transform p (mapOfR p subs) msg = .events (events p k msg)
    | .rejected => ∃ id, transform p (mapOfR p subs) msg = .unidentifiable id
    | .ambiguous => False := by
  by_cases hmem : msg.market ∈ subs.map (venueSymbolR p.exch)
  · obtain ⟨r, hr, hsym⟩ := List.mem_map.mp hmem
    obtain ⟨k, hk⟩ := List.getElem?_of_mem hr
    have hh := holdersFromR_unique p.exch 0 subs msg.market hd k r hk hsym
    simp only [specVerdictR, holdersR, hh, Nat.zero_add]
    apply attributed_rep p hp hb subs (idsR_nodup_of_symbols p subs hp hs hd) k r hk msg
    · rw [marketR_eq_venueSymbolR, hsym]
    · rw [hc, channel_of_supports p r.kind hp (hs r hr)]
    · exact hne
  · have hh := holdersFromR_none p.exch 0 subs msg.market hmem
    simp only [specVerdictR, holdersR, hh]
    refine ⟨_, rejected_rep p hp hb subs msg (hc ▸ venueChannel_no_bar p) ?_ hne⟩
    intro r hr ⟨h1, _⟩
    exact hmem (List.mem_map.mpr ⟨r, hr, by rw [← marketR_eq_venueSymbolR, h1]⟩)

/-- The subscription list of the engine's indexed path whose `name_exchange`s are the venue symbols
of the underlyings. -/
def verbatimOf (e : Exch) (subs : List Inst) : List InstRep :=
  subs.map fun i => .verbatim (venueSymbol e i) i.kind

/-- `verbatim_agrees_with_formatted`: when every verbatim `name_exchange` is the venue symbol of
the underlying, the two paths agree — same subscription ids, hence the same instrument map and the
same result of `transform` for every message. -/
theorem verbatim_agrees_with_formatted (p : Pair) (subs : List Inst) :
    (∀ i, subscriptionIdR p (.verbatim (venueSymbol p.exch i) i.kind) = subscriptionId p i) ∧
    mapOfR p (verbatimOf p.exch subs) = mapOf p subs ∧
    ∀ msg, transform p (mapOfR p (verbatimOf p.exch subs)) msg = transform p (mapOf p subs) msg := by
  have hid : ∀ i, subscriptionIdR p (.verbatim (venueSymbol p.exch i) i.kind) = subscriptionId p i := by
    intro i; simp [subscriptionIdR, subscriptionId, marketR, InstRep.kind, market_eq_venueSymbol]
  have hmap : ∀ (l : List Inst) (s : Nat) (m : IMap),
      mapFromR p s m (verbatimOf p.exch l) = mapFrom p s m l := by
    intro l
    induction l with
    | nil => intro s m; rfl
    | cons i rest ih =>
      intro s m
      simp only [verbatimOf, List.map_cons, mapFromR, mapFrom, hid]
      exact ih _ _
  have hm : mapOfR p (verbatimOf p.exch subs) = mapOf p subs := hmap subs 0 []
  exact ⟨hid, hm, fun msg => by rw [hm]⟩

/-- the id of the unidentifiable error, if that is the result -/
def rejectedId : Out → Option Str
  | .unidentifiable id => some id
  | .events _ => none

/-- the instrument keys of the events, if events are the result -/
def eventKeys : Out → Option (List Nat)
  | .events evs => some (evs.map (·.key))
  | .unidentifiable _ => none

/-- Nothing normalises a verbatim name: on a venue whose symbols are upper case (Binance sends
`BTCUSDT`), an instrument subscribed under the lower-cased `name_exchange` `btcusdt` does NOT receive
the venue's messages — they are rejected as unidentifiable — whereas the upper-case name, and the
same underlying on the formatted path (any spelling of base / quote), are attributed. -/
theorem lowercase_verbatim_name_is_rejected :
    let p : Pair := ⟨.binanceSpot, .publicTrades⟩
    let msg : Msg := ⟨[], "BTCUSDT".toList, 0, [⟨1, 2, .buy, 5⟩]⟩
    rejectedId (transform p (mapOfR p [.verbatim "btcusdt".toList .spot]) msg)
      = some "@trade|BTCUSDT".toList ∧
    eventKeys (transform p (mapOfR p [.verbatim "BTCUSDT".toList .spot]) msg) = some [0] ∧
    eventKeys (transform p (mapOfR p [.formatted ⟨"btc".toList, "usdt".toList, .spot⟩]) msg)
      = some [0] := by
  decide

/-- … and a verbatim name that is another venue's symbol for the same underlying (`BTC-USDT`, Okx /
Coinbase style, on Binance) is rejected too. -/
theorem other_venue_verbatim_name_is_rejected :
    let p : Pair := ⟨.binanceSpot, .publicTrades⟩
    let msg : Msg := ⟨[], "BTCUSDT".toList, 0, [⟨1, 2, .buy, 5⟩]⟩
    rejectedId (transform p
        (mapOfR p [.verbatim (venueSymbol .okx ⟨"btc".toList, "usdt".toList, .spot⟩) .spot]) msg)
      = some "@trade|BTCUSDT".toList := by
  decide

/-! ### Bitfinex over both representations -/

/-- `bitfinex_attributed` for either representation. -/
theorem bitfinex_attributed_rep (subs : List InstRep)
    (hd : (subs.map (subscriptionIdR bitfinex)).Nodup) (confs : List (Str × Nat))
    (hs : (confs.map (·.1)).Nodup) (hc : (confs.map (·.2)).Nodup)
    (k : Nat) (r : InstRep) (hk : subs[k]? = some r) (c : Nat)
    (hconf : (marketR .bitfinex r, c) ∈ confs)
    (msg : Msg) (hid : msg.chanId = c) (it : Item) (hi : msg.items = [it]) :
    transform bitfinex (bitfinexConfirm (mapOfR bitfinex subs) confs) msg
      = .events (events bitfinex k msg) := by
  have h0 : (mapOfR bitfinex subs).find (subId "trades".toList (marketR .bitfinex r)) = some k :=
    find_mapOfR bitfinex subs hd k r hk
  have := find_confirm_attributed _ confs hs hc _ c k hconf h0
  simp [transform, payloadId, bitfinex, hi, hid] at this ⊢
  simp [this]

/-- `bitfinex_rejected` for either representation. -/
theorem bitfinex_rejected_rep (subs : List InstRep) (confs : List (Str × Nat))
    (hc : (confs.map (·.2)).Nodup) (c : Nat)
    (hcase : c ∉ confs.map (·.2) ∨
      ∃ sym, (sym, c) ∈ confs ∧ sym ∉ subs.map (marketR .bitfinex))
    (msg : Msg) (hid : msg.chanId = c) (it : Item) (hi : msg.items = [it]) :
    transform bitfinex (bitfinexConfirm (mapOfR bitfinex subs) confs) msg
      = .unidentifiable (Nat.toDigits 10 c) := by
  have hdig : (mapOfR bitfinex subs).find (Nat.toDigits 10 c) = none := by
    apply find_mapOfR_none
    intro hmem
    obtain ⟨i, _, heq⟩ := List.mem_map.mp hmem
    exact digits_ne_subId c _ _ heq.symm
  have hnone : (bitfinexConfirm (mapOfR bitfinex subs) confs).find (Nat.toDigits 10 c) = none := by
    rcases hcase with hnot | ⟨sym, hmem, hsym⟩
    · rw [find_digits_confirm _ _ _ hnot]; exact hdig
    · apply find_confirm_rejected _ confs hc sym c hmem _ hdig
      apply find_mapOfR_none
      intro hmem'
      obtain ⟨r, hr', heq⟩ := List.mem_map.mp hmem'
      apply hsym
      have : marketR .bitfinex r = sym := subId_injective _ _ _ heq
      exact List.mem_map.mpr ⟨r, hr', this⟩
  simp only [bitfinex] at hnone
  simp [transform, payloadId, bitfinex, hi, hid, hnone]

/-- `bitfinex_refines_spec` for either representation. -/
theorem bitfinex_refines_spec_rep (subs : List InstRep)
    (hsp : ∀ r ∈ subs, supports bitfinex r.kind = true)
    (hd : (subs.map (venueSymbolR .bitfinex)).Nodup) (confs : List (Str × Nat))
    (hs : (confs.map (·.1)).Nodup) (hc : (confs.map (·.2)).Nodup)
    (msg : Msg) (it : Item) (hi : msg.items = [it]) :
    let out := transform bitfinex (bitfinexConfirm (mapOfR bitfinex subs) confs) msg
    match bitfinexSymbolOf confs msg.chanId with
    | none => ∃ id, out = .unidentifiable id
    | some sym =>
      match specVerdictR .bitfinex subs sym with
      | .attributed k => out = .events (events bitfinex k msg)
      | .rejected => ∃ id, out = .unidentifiable id
      | .ambiguous => False := by
  intro out
  have hids := idsR_nodup_of_symbols bitfinex subs (by decide) hsp hd
  cases hsym : bitfinexSymbolOf confs msg.chanId with
  | none =>
    refine ⟨_, bitfinex_rejected_rep subs confs hc msg.chanId (Or.inl ?_) msg rfl it hi⟩
    intro hmem
    obtain ⟨x, hx, hx2⟩ := List.mem_map.mp hmem
    simp only [bitfinexSymbolOf, Option.map_eq_none_iff, List.find?_eq_none] at hsym
    exact absurd (hsym x (List.mem_reverse.mpr hx)) (by simp [hx2])
  | some sym =>
    simp only [bitfinexSymbolOf, Option.map_eq_some_iff] at hsym
    obtain ⟨x, hfind, hx1⟩ := hsym
    have hx2 : x.2 = msg.chanId := by simpa using List.find?_some hfind
    have hmem : (sym, msg.chanId) ∈ confs := by
      have := List.mem_reverse.mp (List.mem_of_find?_eq_some hfind)
      rw [← hx1, ← hx2]; exact this
    by_cases hin : sym ∈ subs.map (venueSymbolR .bitfinex)
    · obtain ⟨r, hr', hsy⟩ := List.mem_map.mp hin
      obtain ⟨k, hk⟩ := List.getElem?_of_mem hr'
      simp only [specVerdictR, holdersR, holdersFromR_unique .bitfinex 0 subs sym hd k r hk hsy, Nat.zero_add]
      exact bitfinex_attributed_rep subs hids confs hs hc k r hk msg.chanId
        (by rw [marketR_eq_venueSymbolR, hsy]; exact hmem) msg rfl it hi
    · simp only [specVerdictR, holdersR, holdersFromR_none .bitfinex 0 subs sym hin]
      refine ⟨_, bitfinex_rejected_rep subs confs hc msg.chanId (Or.inr ⟨sym, hmem, ?_⟩) msg rfl it hi⟩
      intro h
      apply hin
      obtain ⟨r, hr', hsy⟩ := List.mem_map.mp h
      exact List.mem_map.mpr ⟨r, hr', by rw [← marketR_eq_venueSymbolR, hsy]⟩

/-! ### Non-vacuity for the sum: a mixed list (verbatim + formatted) on Okx -/

def exReps : List InstRep :=
  [.verbatim "BTC-USDT".toList .spot, .formatted ⟨"bt".toList, "usd".toList, .perpetual⟩,
   .verbatim "1INCH-USD-270101".toList (.future ⟨2027, 1, 1⟩)]

example : ∀ r ∈ exReps, supports okxTrades r.kind = true := by decide
example : (exReps.map (venueSymbolR .okx)).Nodup := by decide
example : (exReps.map (subscriptionIdR okxTrades)).Nodup := by decide
example : specVerdictR .okx exReps "1INCH-USD-270101".toList = .attributed 2 := by decide
example : specVerdictR .okx exReps "btc-usdt".toList = .rejected := by decide
example :
    (match transform okxTrades (mapOfR okxTrades exReps)
        ⟨"trades".toList, "BTC-USDT".toList, 0, [⟨1, 2, .buy, 5⟩]⟩ with
      | .events evs => evs.map fun ev => (ev.key, ev.exch, ev.time)
      | .unidentifiable _ => []) = [(0, .okx, 5)] := by
  decide

/-! ## The sign of `PublicTrade.amount` (review C13-3)

The property constrains the traded quantity `|amount|` and the side (`trade_fields_as_stated`); it
says nothing about the sign of the `amount` field, and the connectors differ. The model mirrors the
code (observation key `sgn`, compared with the implementation; the spec is silent). -/

/-- Per connector, which sign convention the `amount` of its trade events carries
(`Exch.signConv`): Bitfinex — the absolute value (never negative), side from the sign;
Gateio futures / perpetuals / options — the venue's **signed** size as it is (negative exactly for
sells), side from the sign; every other connector — the payload's amount field unchanged, side from
the side field. -/
theorem amount_sign_convention (e : Exch) (it : Item) :
    match e.signConv with
    | .absolute => tradeOf e it = .trade it.price (absR it.amount) (signSide it.amount) ∧
        0 ≤ absR it.amount
    | .signed => tradeOf e it = .trade it.price it.amount (signSide it.amount) ∧
        (it.amount < 0 ↔ signSide it.amount = .sell)
    | .asStated => tradeOf e it = .trade it.price it.amount it.side := by
  cases e <;> simp [Exch.signConv, tradeOf, absR_nonneg, signSide] <;> split <;> simp_all

/-- … as a statement about the events: every trade event of a pair carries, for the `j`-th trade of
the payload, the amount its connector's convention prescribes. In particular a Gateio
futures / perpetual / option sell is reported with a NEGATIVE amount while every other connector
reports a non-negative one for unsigned payloads. -/
theorem events_amount_sign (p : Pair) (hk : p.kind = .publicTrades) (k : Nat) (msg : Msg)
    (hs : shapeOk p msg = true) :
    (events p k msg).map (·.kind.amount?) = msg.items.map fun it =>
      some (match p.exch.signConv with
        | .absolute => absR it.amount
        | .signed | .asStated => it.amount) := by
  have key : ∀ it : Item, (tradeOf p.exch it).amount? =
      some (match p.exch.signConv with
        | .absolute => absR it.amount
        | .signed | .asStated => it.amount) := by
    intro it
    cases he : p.exch <;> simp [tradeOf, Exch.signConv, EvKind.amount?]
  unfold events
  simp only [hk]
  by_cases hst : p.exch.singleTrade = true
  · simp only [hst, ↓reduceIte]
    unfold shapeOk at hs
    simp only [hk] at hs
    match hi : msg.items with
    | [] => simp
    | [it] => simp [key]
    | a :: b :: rest =>
      rw [hi] at hs
      cases he : p.exch <;> simp_all [Exch.singleTrade]
  · simp only [hst]
    simp [List.map_map, Function.comp_def, key]

/-- the two conventions disagree on the same signed payload: Gateio perpetuals report `-2`, Bitfinex `2` -/
example : (tradeOf .gateioPerpetualsUsd ⟨100, -2, .buy, 5⟩).amount? = some (-2) ∧
    (tradeOf .bitfinex ⟨100, -2, .buy, 5⟩).amount? = some 2 := by decide

/-! ## The un-keyed representation (oracle audit C13-H1)

`Subscription<_, MarketDataInstrument, _>` — the FIRST `Identifier<Market>` impl of every connector, the
instrument type of the README examples. The market is formatted like the keyed one; the instrument key
is the stored instrument itself (`Inst.canon`: base / quote lower-cased by `AssetNameInternal`), so the
map is a `Map<MarketDataInstrument>` (`UMap`, `mapOfU`) and events carry instruments (`transformU`).
The theorems tie this path to the positional model the theorems above are about: same subscription
ids, and looking an id up in the un-keyed map is looking it up in the positional map and reading the
instrument at that position (`UKeyed`), through subscription, Bitfinex confirmations and `transform`. -/

theorem lowc_lowc (c : Char) : lowc (lowc c) = lowc c := by
  unfold lowc
  by_cases h : 65 ≤ c.toNat ∧ c.toNat ≤ 90
  · have h1 : c.toNat + 32 < 55296 := by omega
    have h2 : ¬ (65 ≤ c.toNat + 32 ∧ c.toNat + 32 ≤ 90) := by omega
    rw [if_pos h, toNat_ofNat_small _ h1, if_neg h2]
  · rw [if_neg h, if_neg h]

theorem lower_lower (s : Str) : lower (lower s) = lower s := by
  simp [lower, List.map_map, Function.comp_def, lowc_lowc]

/-- Storing the instrument (lower-casing base and quote) changes nothing the formatters read: the
stored instrument has the same market, for every connector, … -/
theorem canon_same_market (e : Exch) (i : Inst) : market e i.canon = market e i := by
  cases e <;>
    simp [market, concatMarket, bitfinexMarket, coinbaseMarket, krakenMarket, okxMarket, gateioMarket,
      Inst.canon, Inst.b, Inst.q, lower_lower]

/-- … hence the same subscription id: **the un-keyed path subscribes under exactly the ids of the
keyed path** (`marketR` / `mapOfR` on `.formatted i`). -/
theorem unkeyed_same_id (p : Pair) (i : Inst) :
    subscriptionId p i.canon = subscriptionId p i ∧
    subscriptionId p i.canon = subscriptionIdR p (.formatted i) := by
  have h : subscriptionId p i.canon = subscriptionId p i := by
    have hk : i.canon.kind = i.kind := rfl
    simp only [subscriptionId, canon_same_market, hk]
  exact ⟨h, h⟩

theorem canon_canon (i : Inst) : i.canon.canon = i.canon := by
  simp [Inst.canon, lower_lower]

theorem ufind_insert_self (m : UMap) (id : Str) (k : Inst) : (m.insert id k).find id = some k := by
  induction m with
  | nil => simp [UMap.insert, UMap.find]
  | cons e rest ih =>
    obtain ⟨i, k'⟩ := e
    by_cases h : i = id <;> simp [UMap.insert, UMap.find, h, ih]

theorem ufind_insert_ne (m : UMap) (id id' : Str) (k : Inst) (h : id' ≠ id) :
    (m.insert id k).find id' = m.find id' := by
  induction m with
  | nil => simp [UMap.insert, UMap.find, Ne.symm h]
  | cons e rest ih =>
    obtain ⟨i, k'⟩ := e
    by_cases h1 : i = id
    · subst h1; simp [UMap.insert, UMap.find, Ne.symm h]
    · by_cases h2 : i = id'
      · subst h2; simp [UMap.insert, UMap.find, h1]
      · simp [UMap.insert, UMap.find, h1, h2, ih]

theorem ufind_remove_self (m : UMap) (id : Str) : (m.remove id).find id = none := by
  induction m with
  | nil => simp [UMap.remove, UMap.find]
  | cons e rest ih =>
    obtain ⟨i, k'⟩ := e
    by_cases h : i = id
    · simpa [UMap.remove, List.filter, h] using ih
    · simpa [UMap.remove, List.filter, h, UMap.find] using ih

theorem ufind_remove_ne (m : UMap) (id id' : Str) (h : id' ≠ id) :
    (m.remove id).find id' = m.find id' := by
  induction m with
  | nil => simp [UMap.remove, UMap.find]
  | cons e rest ih =>
    obtain ⟨i, k'⟩ := e
    by_cases h1 : i = id
    · subst h1
      have : ¬ i = id' := fun e => h e.symm
      simpa [UMap.remove, List.filter, UMap.find, this] using ih
    · by_cases h2 : i = id'
      · subst h2; simp [UMap.remove, List.filter, h1, UMap.find]
      · simpa [UMap.remove, List.filter, h1, UMap.find, h2] using ih

/-- the instrument key of position `k` of a subscription list -/
def keyAt (subs : List Inst) (k : Nat) : Inst := (subs.getD k default).canon

/-- The un-keyed map `mu` IS the positional map `m` read through the subscription list: every id
finds the instrument stored at the position the positional map finds. -/
def UKeyed (subs : List Inst) (mu : UMap) (m : IMap) : Prop :=
  ∀ id, mu.find id = (m.find id).map (keyAt subs)

theorem ukeyed_mapFrom (p : Pair) (pre rest : List Inst) (mu : UMap) (m : IMap)
    (h : UKeyed (pre ++ rest) mu m) :
    UKeyed (pre ++ rest) (mapFromU p mu rest) (mapFrom p pre.length m rest) := by
  induction rest generalizing pre mu m with
  | nil => simpa [mapFromU, mapFrom] using h
  | cons i rest ih =>
    simp only [mapFromU, mapFrom]
    have hstep : UKeyed (pre ++ i :: rest) (mu.insert (subscriptionId p i.canon) i.canon)
        (m.insert (subscriptionId p i) pre.length) := by
      intro id
      rw [(unkeyed_same_id p i).1]
      by_cases hid : id = subscriptionId p i
      · subst hid
        rw [ufind_insert_self, find_insert_self]
        simp [keyAt]
      · rw [ufind_insert_ne _ _ _ _ hid, find_insert_ne _ _ _ _ hid]
        exact h id
    have := ih (pre ++ [i]) _ _ (by simpa using hstep)
    simpa using this

/-- **Subscription.** `WebSocketSubMapper::map` over un-keyed subscriptions builds the positional map
of the keyed path with every position replaced by the instrument subscribed there (for every pair and
every list, duplicates and colliding ids included: the last subscription of an id wins on both sides). -/
theorem unkeyed_map_is_keyed_map (p : Pair) (subs : List Inst) :
    UKeyed subs (mapOfU p subs) (mapOf p subs) := by
  have := ukeyed_mapFrom p [] subs [] [] (by intro id; simp [UMap.find, IMap.find])
  simpa [mapOfU, mapOf] using this

/-- … in particular the two maps hold the same subscription ids. -/
theorem unkeyed_map_same_ids (p : Pair) (subs : List Inst) (id : Str) :
    ((mapOfU p subs).find id).isSome = ((mapOf p subs).find id).isSome := by
  rw [unkeyed_map_is_keyed_map p subs id]; cases (mapOf p subs).find id <;> rfl

/-- **Bitfinex confirmations** re-key both maps alike. -/
theorem unkeyed_conf (subs : List Inst) (mu : UMap) (m : IMap) (h : UKeyed subs mu m)
    (chan mkt : Str) (c : Nat) :
    UKeyed subs (bitfinexSubscribedU mu chan mkt c) (bitfinexSubscribed m chan mkt c) := by
  intro id
  unfold bitfinexSubscribedU bitfinexSubscribed
  rw [h (subId chan mkt)]
  cases hf : m.find (subId chan mkt) with
  | none => simpa using h id
  | some k =>
    simp only [Option.map_some]
    by_cases h1 : id = Nat.toDigits 10 c
    · subst h1; rw [ufind_insert_self, find_insert_self]; rfl
    · rw [ufind_insert_ne _ _ _ _ h1, find_insert_ne _ _ _ _ h1]
      by_cases h2 : id = subId chan mkt
      · subst h2; rw [ufind_remove_self, find_remove_self]; rfl
      · rw [ufind_remove_ne _ _ _ h2, find_remove_ne _ _ _ h2]; exact h id

/-- the events built for a key differ only in the key -/
theorem events_withKey (p : Pair) (k : Nat) (msg : Msg) (x : Inst) :
    (events p k msg).map (·.withKey x) = (events p 0 msg).map (·.withKey x) := by
  unfold events
  cases p.kind <;> simp only
  · split
    · split <;> simp [Event.withKey]
    · simp [List.map_map, Function.comp_def, Event.withKey]
  · split <;> simp [Event.withKey]
  · split <;> simp [Event.withKey]
  · split <;> simp [Event.withKey]

/-- the result of the positional `transform` with every event key replaced by the instrument
subscribed at that position -/
def relabel (subs : List Inst) : Out → OutU
  | .events evs => .events (evs.map fun ev => ev.withKey (keyAt subs ev.key))
  | .unidentifiable id => .unidentifiable id

/-- **Transform.** On maps related by `UKeyed` (after subscription and any Bitfinex confirmations) the
un-keyed transformer produces, for every message, exactly the positional result with the instrument in
place of the position: same events, same rejection, same id. Everything proved about `transform`
(`attributed`, `rejected`, `refines_spec`, the Bitfinex theorems, the field theorems) therefore holds
for the un-keyed path with "key `k`" read as "the `k`-th subscribed instrument". -/
theorem unkeyed_transform (p : Pair) (subs : List Inst) (mu : UMap) (m : IMap) (h : UKeyed subs mu m)
    (msg : Msg) : transformU p mu msg = relabel subs (transform p m msg) := by
  unfold transformU transform
  cases payloadId p msg with
  | none => simp [relabel]
  | some id =>
    simp only
    rw [h id]
    cases hf : m.find id with
    | none => simp [relabel]
    | some k =>
      simp only [Option.map_some, relabel]
      congr 1
      rw [← events_withKey p k msg]
      apply List.map_congr_left
      intro ev hev
      rw [(events_key_exchange p k msg ev hev).1]

/-- `attributed`, un-keyed: a message for the market of the `k`-th subscribed instrument yields
exactly the events of that payload, every one carrying THAT INSTRUMENT (as stored) as its key. -/
theorem attributed_unkeyed (p : Pair) (hp : p ∈ supported) (hb : p.exch ≠ .bitfinex) (subs : List Inst)
    (hd : (subs.map (subscriptionId p)).Nodup) (k : Nat) (i : Inst) (hk : subs[k]? = some i)
    (msg : Msg) (hm : msg.market = market p.exch i) (hc : msg.chan = channel p i.kind)
    (hne : p.exch.needsItem = true → msg.items ≠ []) :
    transformU p (mapOfU p subs) msg = .events ((events p k msg).map (·.withKey i.canon)) := by
  rw [unkeyed_transform p subs _ _ (unkeyed_map_is_keyed_map p subs),
    attributed p hp hb subs hd k i hk msg hm hc hne]
  simp only [relabel]
  congr 1
  apply List.map_congr_left
  intro ev hev
  rw [(events_key_exchange p k msg ev hev).1]
  simp [keyAt, List.getD, hk]

/-- `rejected`, un-keyed. -/
theorem rejected_unkeyed (p : Pair) (hp : p ∈ supported) (hb : p.exch ≠ .bitfinex) (subs : List Inst)
    (msg : Msg) (hbar : '|' ∉ msg.chan)
    (hno : ∀ i ∈ subs, ¬ (market p.exch i = msg.market ∧ channel p i.kind = payloadChan p msg))
    (hne : p.exch.needsItem = true → msg.items ≠ []) :
    transformU p (mapOfU p subs) msg = .unidentifiable (subId (payloadChan p msg) msg.market) := by
  rw [unkeyed_transform p subs _ _ (unkeyed_map_is_keyed_map p subs),
    rejected p hp hb subs msg hbar hno hne]
  rfl

/-- Two spellings of one instrument are ONE key on the un-keyed path (positions 0 and 1 both read as
`btc:usdt:spot`), so the attribution is determined although the positional key is not (`[k]` in the
positional map is the last subscription, `1`). -/
example :
    let p : Pair := ⟨.binanceSpot, .publicTrades⟩
    let subs : List Inst := [⟨"BTC".toList, "usdt".toList, .spot⟩, ⟨"btc".toList, "USDT".toList, .spot⟩]
    (mapOfU p subs).find "@trade|BTCUSDT".toList = some ⟨"btc".toList, "usdt".toList, .spot⟩ ∧
    (mapOf p subs).find "@trade|BTCUSDT".toList = some 1 ∧
    keyAt subs 0 = keyAt subs 1 := by
  decide

/-- swapping base and quote in the un-keyed formatter would subscribe another market (what the hand
mutant `C13_unkeyed_market_*` does to `binance/market.rs:21`): the venue's `BTCUSDT` is then rejected -/
example :
    let p : Pair := ⟨.binanceSpot, .publicTrades⟩
    let msg : Msg := ⟨[], "BTCUSDT".toList, 0, [⟨1, 2, .buy, 5⟩]⟩
    (match transformU p (mapOfU p [⟨"btc".toList, "usdt".toList, .spot⟩]) msg with
      | .events evs => evs.map (·.key.base) | .unidentifiable _ => []) = ["btc".toList] ∧
    (match transformU p (mapOfU p [⟨"usdt".toList, "btc".toList, .spot⟩]) msg with
      | .events evs => evs.map (·.key.base) | .unidentifiable _ => []) = [] := by
  decide

end BarterModel.Props.C13
