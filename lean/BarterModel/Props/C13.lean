import BarterModel.Lemmas.Connectors
/-!
# C13 — Market-data messages are attributed to the subscribed instrument, or rejected

Statements only (proofs go through `Lemmas/Connectors.lean`). Everything quantifies over **every**
`(connector, kind)` pair of `supported` (the 21 arms of `DynamicStreams::init`), every list of
subscribed instruments (any length, any ASCII names, any kinds/expiries/strikes) and every message.

* `p` — the pair; `subs` — the subscribed instruments, the `k`-th one has instrument key `k`;
* `mapOf p subs` — the instrument map `WebSocketSubMapper::map` builds;
* `transform p m msg` — `Transformer::transform` of the pair's transformer;
* hypotheses: `Nodup` of the subscription ids / venue symbols ("pairwise distinct markets": two
  instruments that the venue itself cannot tell apart are outside the property), and for the
  connectors that read the id off the first trade of a batch, a non-empty batch.

Bitfinex (which names a numeric channel id instead of the market) has its own pair of theorems.
-/
namespace BarterModel.Props.C13
open BarterModel.Connectors

/-! ## 4. `sep_injective` -/

/-- `channel|m₁ = channel|m₂ → m₁ = m₂`. -/
theorem sep_injective (c m₁ m₂ : Str) (h : subId c m₁ = subId c m₂) : m₁ = m₂ :=
  subId_injective c m₁ m₂ h

/-- No channel of any pair (and no venue channel) contains `|`, hence `channel|market` decodes
uniquely: equal ids have equal channels **and** equal markets. -/
theorem sep_injective_channels (p q : Pair) (ik jk : IKind) (m₁ m₂ : Str)
    (h : subId (channel p ik) m₁ = subId (channel q jk) m₂) :
    channel p ik = channel q jk ∧ m₁ = m₂ :=
  subId_inj_of_no_bar _ _ _ _ (channel_no_bar p ik) (channel_no_bar q jk) h

/-! ## 1. `market_is_venue_symbol` -/

/-- The market string the subscribe side derives for an instrument is the venue's symbol for it —
for every connector, every ASCII base/quote spelling (any case mix), every instrument kind, expiry
and strike. (False for Kraken before `fix:` e8d664e and for Okx dated contracts before `fix:`
ef20a36; holds without hypothesis on the current tree.) -/
theorem market_is_venue_symbol (e : Exch) (i : Inst) : market e i = venueSymbol e i :=
  market_eq_venueSymbol e i

/-- … and the subscribe-side channel is the venue's channel for the pair, for every instrument
kind the dynamic builder lets through (`supports`). -/
theorem channel_is_venue_channel (p : Pair) (hp : p ∈ supported) (ik : IKind)
    (hs : supports p ik = true) : channel p ik = venueChannel p :=
  channel_of_supports p ik hp hs

/-- The payload-side derivation (`de_*_subscription_id`, `Identifier<Option<SubscriptionId>>`)
yields exactly the subscribe-side id when the payload names the instrument's market (and, where
the connector reads it, the instrument's channel). -/
theorem payload_id_agrees (p : Pair) (hp : p ∈ supported) (hb : p.exch ≠ .bitfinex) (i : Inst)
    (msg : Msg) (hm : msg.market = market p.exch i) (hc : msg.chan = channel p i.kind)
    (hne : p.exch.needsItem = true → msg.items ≠ []) :
    payloadId p msg = some (subscriptionId p i) := by
  rw [payloadId_some p msg hp hb hne, subscriptionId, hm]
  congr 2
  unfold payloadChan
  by_cases hr : p.exch.readsChan = true
  · simp [hr, hc]
  · simp only [hr]; exact (channel_const p i.kind hp (by simpa using hr)).symm

/-! ## 2. `attributed` -/

/-- A message for the market of the `k`-th subscribed instrument is transformed into exactly the
events `events p k msg` — all of which carry key `k` (`events_key_exchange`) and the payload's
fields (`trade_fields_as_stated` …). -/
theorem attributed (p : Pair) (hp : p ∈ supported) (hb : p.exch ≠ .bitfinex) (subs : List Inst)
    (hd : (subs.map (subscriptionId p)).Nodup) (k : Nat) (i : Inst) (hk : subs[k]? = some i)
    (msg : Msg) (hm : msg.market = market p.exch i) (hc : msg.chan = channel p i.kind)
    (hne : p.exch.needsItem = true → msg.items ≠ []) :
    transform p (mapOf p subs) msg = .events (events p k msg) := by
  simp [transform, payload_id_agrees p hp hb i msg hm hc hne, find_mapOf p subs hd k i hk]

/-- Every event built for key `k` carries key `k` and the connector's exchange id. -/
theorem events_key_exchange (p : Pair) (k : Nat) (msg : Msg) :
    ∀ ev ∈ events p k msg, ev.key = k ∧ ev.exch = p.exch := by
  intro ev hev
  unfold events at hev
  cases hk : p.kind <;> simp only [hk] at hev
  · split at hev
    · split at hev <;> simp_all
    · simp only [List.mem_map] at hev; obtain ⟨_, _, rfl⟩ := hev; simp
  · split at hev <;> simp_all
  · split at hev <;> simp_all
  · split at hev <;> simp_all

/-- the `(price, traded quantity, side, time)` of a trade event -/
def tradeView (ev : Event) : Option SpecTrade :=
  match ev.kind with
  | .trade p a s => some ⟨p, absR a, s, ev.time⟩
  | _ => none

/-- Trades: one event per trade of the payload, in order, with the price and time as stated, the
traded quantity `|amount|` and the side — the stated side field, or the sign of the amount for the
venues that sign it (`specTrade`). -/
theorem trade_fields_as_stated (p : Pair) (hk : p.kind = .publicTrades) (k : Nat) (msg : Msg)
    (hs : shapeOk p msg = true) :
    (events p k msg).map tradeView = msg.items.map fun it => some (specTrade p.exch it) := by
  have key : ∀ it : Item, tradeView ⟨k, p.exch, it.time, tradeOf p.exch it⟩ = some (specTrade p.exch it) := by
    intro it
    have habs : absR (absR it.amount) = absR it.amount := by
      unfold absR; split <;> split <;> grind
    cases he : p.exch <;>
      simp [tradeView, tradeOf, specTrade, Exch.signEncodesSide, signSide, habs]
  unfold events
  simp only [hk]
  by_cases hst : p.exch.singleTrade = true
  · simp only [hst, ↓reduceIte]
    unfold shapeOk at hs
    simp only [hk] at hs
    match hi : msg.items with
    | [] => simp
    | [it] => simp [key]
    | a :: b :: rest =>
      rw [hi] at hs
      cases he : p.exch <;> simp_all [Exch.singleTrade]
  · simp only [hst]
    simp [List.map_map, Function.comp_def, key]

/-- L1: one event, time of the message, best bid / ask = the stated `(price, amount)` levels
(a level whose stated price is zero is reported as absent). -/
theorem l1_fields_as_stated (p : Pair) (hk : p.kind = .orderBooksL1) (k : Nat) (msg : Msg)
    (b a : Item) (hi : msg.items = [b, a]) :
    events p k msg = [⟨k, p.exch, b.time, .l1 (level b) (level a)⟩] ∧
    (b.price ≠ 0 → level b = some (b.price, b.amount)) ∧
    (a.price ≠ 0 → level a = some (a.price, a.amount)) := by
  refine ⟨by simp [events, hk, hi], ?_, ?_⟩ <;> intro h <;> simp [level, h]

/-- Liquidations: one event with the stated price, quantity, side and time. -/
theorem liq_fields_as_stated (p : Pair) (hk : p.kind = .liquidations) (k : Nat) (msg : Msg)
    (it : Item) (hi : msg.items = [it]) :
    events p k msg = [⟨k, p.exch, it.time, .liq it.price it.amount it.side⟩] := by
  simp [events, hk, hi]

/-- L2 updates: one event, the stated bid levels and ask levels. -/
theorem l2_fields_as_stated (p : Pair) (hk : p.kind = .orderBooksL2) (k : Nat) (msg : Msg)
    (it : Item) (rest : List Item) (hi : msg.items = it :: rest) :
    events p k msg = [⟨k, p.exch, it.time,
      .l2 ((msg.items.filter (·.side = .buy)).map fun i => (i.price, i.amount))
          ((msg.items.filter (·.side = .sell)).map fun i => (i.price, i.amount))⟩] := by
  simp [events, hk, hi]

/-! ## 3. `rejected` -/

/-- A message whose `(channel, market)` is not that of any subscribed instrument yields the
unidentifiable-subscription error carrying the derived id. (`'|' ∉ msg.chan` only matters for the
connectors that take the channel text from the payload.) -/
theorem rejected (p : Pair) (hp : p ∈ supported) (hb : p.exch ≠ .bitfinex) (subs : List Inst)
    (msg : Msg) (hbar : '|' ∉ msg.chan)
    (hno : ∀ i ∈ subs, ¬ (market p.exch i = msg.market ∧ channel p i.kind = payloadChan p msg))
    (hne : p.exch.needsItem = true → msg.items ≠ []) :
    transform p (mapOf p subs) msg = .unidentifiable (subId (payloadChan p msg) msg.market) := by
  have hid := payloadId_some p msg hp hb hne
  have hnb : '|' ∉ payloadChan p msg := by
    unfold payloadChan; split
    · exact hbar
    · exact channel_no_bar p .spot
  have hnot : subId (payloadChan p msg) msg.market ∉ subs.map (subscriptionId p) := by
    intro hmem
    obtain ⟨i, hi, heq⟩ := List.mem_map.mp hmem
    have := subId_inj_of_no_bar _ _ _ _ (channel_no_bar p i.kind) hnb heq
    exact hno i hi ⟨this.2, this.1⟩
  simp [transform, hid, find_mapOf_none p subs _ hnot]

/-- … and in no case (also for an empty batch) does such a message produce an event for some
other instrument. -/
theorem rejected_never_event (p : Pair) (hp : p ∈ supported) (hb : p.exch ≠ .bitfinex)
    (subs : List Inst) (msg : Msg) (hbar : '|' ∉ msg.chan)
    (hno : ∀ i ∈ subs, ¬ (market p.exch i = msg.market ∧ channel p i.kind = payloadChan p msg))
    (ev : Event) (evs : List Event) :
    transform p (mapOf p subs) msg ≠ .events (ev :: evs) := by
  by_cases hne : p.exch.needsItem = true → msg.items ≠ []
  · rw [rejected p hp hb subs msg hbar hno hne]; intro h; cases h
  · have hn : p.exch.needsItem = true := by
      by_cases h : p.exch.needsItem = true
      · exact h
      · exact absurd (fun h' => absurd h' h) hne
    have he : msg.items = [] := by
      by_cases h : msg.items = []
      · exact h
      · exact absurd (fun _ => h) hne
    simp [transform, payloadId_none_of_empty p msg hp hn he]

/-! ## Refinement to the venue specification (what the `spec` driver runs) -/

/-- For instrument sets the dynamic builder accepts for the pair (`supports`) whose venue symbols
are pairwise distinct, and a message on the pair's venue channel naming market `m`:
the transformer does exactly what the property's attribution rule (`specVerdict`, defined on venue
symbols only) demands — events for the one instrument the venue lists under `m`, or the
unidentifiable error when there is none; the verdict is never `ambiguous`. -/
theorem refines_spec (p : Pair) (hp : p ∈ supported) (hb : p.exch ≠ .bitfinex) (subs : List Inst)
    (hs : ∀ i ∈ subs, supports p i.kind = true)
    (hd : (subs.map (venueSymbol p.exch)).Nodup)
    (msg : Msg) (hc : msg.chan = venueChannel p)
    (hne : p.exch.needsItem = true → msg.items ≠ []) :
    match specVerdict p.exch subs msg.market with
    | .attributed k => transform p (mapOf p subs) msg = .events (events p k msg)
    | .rejected => ∃ id, transform p (mapOf p subs) msg = .unidentifiable id
    | .ambiguous => False := by
  by_cases hmem : msg.market ∈ subs.map (venueSymbol p.exch)
  · obtain ⟨i, hi, hsym⟩ := List.mem_map.mp hmem
    obtain ⟨k, hk⟩ := List.getElem?_of_mem hi
    have hh := holdersFrom_unique p.exch 0 subs msg.market hd k i hk hsym
    simp only [specVerdict, holders, hh, Nat.zero_add]
    apply attributed p hp hb subs (ids_nodup_of_symbols p subs hp hs hd) k i hk msg
    · rw [market_eq_venueSymbol, hsym]
    · rw [hc, channel_of_supports p i.kind hp (hs i hi)]
    · exact hne
  · have hh := holdersFrom_none p.exch 0 subs msg.market hmem
    simp only [specVerdict, holders, hh]
    refine ⟨_, rejected p hp hb subs msg (hc ▸ venueChannel_no_bar p) ?_ hne⟩
    intro i hi ⟨h1, _⟩
    exact hmem (List.mem_map.mpr ⟨i, hi, by rw [← market_eq_venueSymbol, h1]⟩)

end BarterModel.Props.C13
