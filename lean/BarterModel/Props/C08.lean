import BarterModel.Lemmas.MockExchange
import BarterModel.Lemmas.KernelsAgree.MockSM
/-!
# C08 — Simulated exchange keeps a consistent ledger of balances, orders and fills

Statements only (proofs go through `Lemmas/MockExchange.lean`). The model is
`Model/MockExchange.lean`: `openOrder` mirrors `MockExchange::open_order`, `step` one iteration of
`MockExchange::run`, `run` a whole request history, `init c` the exchange built from a
configuration `c` (latency, fee percentage, initial balances, instruments).

Hypotheses used, and only where stated:
* `c.wf = true` / `WF s` — every balance has `total = free` and both assets of every configured
  instrument have a balance. These are the exchange's own internal assumptions (`assert_eq!`,
  `expect`); outside them the code panics (modelled as `Result.panic`). `reach_wf` shows they
  hold in every state reachable from a well-formed configuration.
* `∀ p ∈ c.init, 0 ≤ p.2` — initial balances are not negative (only for `non_negative`).
Nothing is assumed about the fee percentage, prices or quantities (any rationals, any sign):
"quantity" in the amounts is the magnitude `|q|` (the code takes `quantity.abs()`).

`Spec.spends`, `Spec.required`, `Spec.fees`, `Spec.accepted`, `Spec.ledger`, `Spec.fills`,
`Spec.respond`, `Spec.tradesSince` are the abstract specification written from the property text.
-/
namespace BarterModel.Props.C08
open BarterModel.MockExchange

/-! ## 0. Reachable states are well formed; the exchange never panics -/

/-- Every state reachable from a well-formed configuration by any request history satisfies the
exchange's internal assumptions. -/
theorem reach_wf {c : Cfg} (hc : c.wf = true) (ops : List (Int × Request)) : WF (run (init c) ops) :=
  refines_wf (refines_run hc ops) hc

/-- … so no open-order request can make it panic, whichever way it is driven. -/
theorem never_panics {c : Cfg} (hc : c.wf = true) (ops : List (Int × Request)) (t : Int) (r : Req) :
    (openOrder (run (init c) ops) r).2 ≠ .panic ∧
    (step (run (init c) ops) t (.openOrder r)).2.1 ≠ .order .panic := by
  refine ⟨openOrder_no_panic (reach_wf hc ops) r, ?_⟩
  rw [step_open_resp]
  intro h; injection h with h
  exact openOrder_no_panic (updateTime_wf t (reach_wf hc ops)) r h

/-! ## 1. `accept_iff_funds` -/

/-- An order is accepted **iff** it is a market order on a known instrument and the asset it spends
(quote for a buy, base for a sell) holds at least the required amount (price × |quantity| × (1+fee)
for a buy, |quantity| × (1+fee) for a sell). Direct call of `open_order` in any well-formed state. -/
theorem accept_iff_funds {s : State} (h : WF s) (r : Req) :
    (∃ f, (openOrder s r).2 = .accepted f) ↔
      r.kind = .market ∧ ∃ a b, Spec.spends s.instruments r = some a ∧ s.balances[a]? = some b ∧
        Spec.required s.fee r ≤ b.free := by
  have hnp := openOrder_no_panic h r
  rcases openOrder_cases s r with ⟨hk, e⟩ | ⟨hk, hi, e⟩ | ⟨u, _, _, _, e⟩ | ⟨u, cur, _, _, _, _, e⟩ |
    ⟨u, cur, hk, hi, hb, ht, hn, e⟩ | ⟨u, cur, hk, hi, hb, ht, hn, e⟩
  · rw [e]; constructor
    · rintro ⟨f, hf⟩; cases hf
    · rintro ⟨hk', _⟩; exact absurd hk' hk
  · rw [e]; constructor
    · rintro ⟨f, hf⟩; cases hf
    · rintro ⟨_, a, b, hsp, _⟩; rw [spends_eq, hi] at hsp; cases hsp
  · rw [e] at hnp; exact absurd rfl hnp
  · rw [e] at hnp; exact absurd rfl hnp
  · rw [e]; constructor
    · rintro ⟨f, hf⟩; cases hf
    · rintro ⟨_, a, b, hsp, hb', hle⟩
      rw [spends_eq, hi] at hsp; simp only [Option.map_some, Option.some.injEq] at hsp; subst hsp
      rw [hb] at hb'; injection hb' with hb'; subst hb'
      exfalso; apply hn; grind
  · rw [e]; constructor
    · intro _
      refine ⟨hk, spentAsset u r.side, cur, by rw [spends_eq, hi]; rfl, hb, by grind⟩
    · intro _; exact ⟨_, rfl⟩

/-- The same through the request loop (`MockExecution` → `MockExchange::run`): the oneshot answer
to an open-order request is `Ok` iff the funds rule holds in the state before the request. -/
theorem step_accept_iff_funds {s : State} (h : WF s) (t : Int) (r : Req) :
    (∃ f, (step s t (.openOrder r)).2.1 = .order (.accepted f)) ↔
      r.kind = .market ∧ ∃ a b, Spec.spends s.instruments r = some a ∧ s.balances[a]? = some b ∧
        Spec.required s.fee r ≤ b.free := by
  rw [step_open_resp]
  have := accept_iff_funds (updateTime_wf t h) r
  constructor
  · rintro ⟨f, hf⟩
    injection hf with hf
    obtain ⟨hk, a, b, hsp, hb, hle⟩ := this.mp ⟨f, hf⟩
    rw [updateTime_getElem?] at hb
    cases hb0 : s.balances[a]? with
    | none => simp [hb0] at hb
    | some b0 =>
      simp only [hb0, Option.map_some, Option.some.injEq] at hb; subst hb
      exact ⟨hk, a, b0, hsp, hb0, hle⟩
  · rintro ⟨hk, a, b, hsp, hb, hle⟩
    obtain ⟨f, hf⟩ := this.mpr ⟨hk, a, { b with time := (updateTime s t).time }, hsp,
      by rw [updateTime_getElem?, hb]; rfl, hle⟩
    exact ⟨f, by rw [hf]⟩

/-- In a well-formed state every order is either accepted or rejected (never a panic), so
"rejected" is exactly the negation of the funds rule. -/
theorem rejected_iff_not_funds {s : State} (h : WF s) (r : Req) :
    (∃ e, (openOrder s r).2 = .rejected e) ↔ ¬ ∃ f, (openOrder s r).2 = .accepted f := by
  have hnp := openOrder_no_panic h r
  cases hres : (openOrder s r).2 with
  | rejected e => simp
  | accepted f => simp
  | panic => exact absurd hres hnp

/-- Limit orders are rejected (in any state, before anything else is looked at). -/
theorem limit_rejected (s : State) (r : Req) (h : r.kind = .limit) :
    openOrder s r = (s, .rejected .kindUnsupported) := by
  simp [openOrder, h]

/-- Market orders on an instrument the exchange is not set up for are rejected. -/
theorem unknown_instrument_rejected (s : State) (r : Req) (hk : r.kind = .market)
    (h : s.instruments.length ≤ r.instr) :
    openOrder s r = (s, .rejected (.instrumentInvalid r.instr)) := by
  have : s.instruments[r.instr]? = none := by rw [List.getElem?_eq_none_iff]; exact h
  simp [openOrder, hk, this]

/-! ## 2. `exact_debit`, `non_negative`, rejection leaves the ledger alone -/

/-- An accepted order debits exactly the spent asset by exactly the required amount: the ledger
(`(total, free)` per asset) afterwards is the ledger before with that one entry lowered; the
balance notification carries that new entry. -/
theorem exact_debit (s : State) (r : Req) (f : Fill) (h : (openOrder s r).2 = .accepted f) :
    Spec.spends s.instruments r = some f.asset ∧
    ∃ b, s.balances[f.asset]? = some b ∧
      ledger (openOrder s r).1 =
        (ledger s).set f.asset (b.free - Spec.required s.fee r, b.free - Spec.required s.fee r) ∧
      f.balance.total = b.free - Spec.required s.fee r ∧
      f.balance.free = b.free - Spec.required s.fee r ∧
      (openOrder s r).1.balances[f.asset]? = some f.balance := by
  rcases openOrder_cases s r with ⟨_, e⟩ | ⟨_, _, e⟩ | ⟨u, _, _, _, e⟩ | ⟨u, cur, _, _, _, _, e⟩ |
    ⟨u, cur, _, _, _, _, _, e⟩ | ⟨u, cur, hk, hi, hb, ht, hn, e⟩ <;> rw [e] at h ⊢ <;> try (cases h; done)
  simp only at h; injection h with h; subst h
  refine ⟨by rw [spends_eq, hi]; rfl, cur, hb, ?_, rfl, rfl, ?_⟩
  · simp [ledger, List.map_set]
  · have : spentAsset u r.side < s.balances.length := by
      have := List.getElem?_eq_some_iff.mp hb; exact this.1
    simp [this]

/-- Every other balance is unchanged by an accepted order. -/
theorem others_untouched (s : State) (r : Req) (f : Fill) (h : (openOrder s r).2 = .accepted f)
    (a : Nat) (ha : a ≠ f.asset) : (ledger (openOrder s r).1)[a]? = (ledger s)[a]? := by
  obtain ⟨_, b, _, hl, _⟩ := exact_debit s r f h
  rw [hl, List.getElem?_set]; simp [Ne.symm ha]

/-- A rejected order changes nothing at all (balances, trades, id counter). -/
theorem rejected_untouched (s : State) (r : Req) (e : Err) (h : (openOrder s r).2 = .rejected e) :
    (openOrder s r).1 = s := by
  rcases openOrder_cases s r with ⟨_, e'⟩ | ⟨_, _, e'⟩ | ⟨u, _, _, _, e'⟩ | ⟨u, cur, _, _, _, _, e'⟩ |
    ⟨u, cur, _, _, _, _, _, e'⟩ | ⟨u, cur, _, _, _, _, _, e'⟩ <;> rw [e'] at h ⊢
  cases h

/-- Through the request loop: any request that is not an accepted open-order request (queries,
cancel requests, rejected orders) leaves every balance, the recorded trades and the id counter
untouched and broadcasts nothing. -/
theorem step_untouched (s : State) (t : Int) (rq : Request)
    (h : ∀ f, (step s t rq).2.1 ≠ .order (.accepted f)) :
    ledger (step s t rq).1 = ledger s ∧ (step s t rq).1.trades = s.trades ∧
    (step s t rq).1.seq = s.seq ∧ (step s t rq).2.2 = [] := by
  cases rq with
  | openOrder r =>
    have hna : ∀ f, (openOrder (updateTime s t) r).2 ≠ .accepted f := by
      intro f hf; apply h f; rw [step_open_resp, hf]
    rw [step_open_not_accepted hna]
    have hsame : (openOrder (updateTime s t) r).1 = updateTime s t := by
      rcases openOrder_cases (updateTime s t) r with ⟨_, e⟩ | ⟨_, _, e⟩ | ⟨u, _, _, _, e⟩ | ⟨u, cur, _, _, _, _, e⟩ |
        ⟨u, cur, _, _, _, _, _, e⟩ | ⟨u, cur, _, _, _, _, _, e⟩ <;> rw [e]
      exact absurd (by rw [e]) (hna _)
    simp only [hsame, updateTime_ledger]
    exact ⟨trivial, rfl, rfl, trivial⟩
  | _ => simp [step, updateTime_ledger] <;> simp [updateTime]

/-- No balance ever goes negative: over any request history from non-negative initial balances
(no other hypothesis: any fee, any prices and quantities, even an ill-formed configuration). -/
theorem non_negative (c : Cfg) (h0 : ∀ p ∈ c.init, 0 ≤ p.2) (ops : List (Int × Request)) :
    ∀ b ∈ (run (init c) ops).balances, 0 ≤ b.free ∧ (c.wf = true → 0 ≤ b.total) := by
  have hnn : NonNeg (run (init c) ops) := by
    apply run_inv (P := NonNeg) (fun s t rq hs => step_nonneg hs t rq)
    intro b hb
    simp only [init, List.mem_map] at hb
    obtain ⟨p, hp, rfl⟩ := hb
    exact h0 p hp
  intro b hb
  refine ⟨hnn b hb, fun hc => ?_⟩
  rw [(reach_wf hc ops).1 b hb]; exact hnn b hb

/-! ## 3. `one_fill` -/

/-- Each accepted order yields exactly one fill: the recorded trades grow by exactly that trade, its
trade id and order id are the current counter value (which then increases), its fees are the
configured percentage of the notional in quote units, it echoes the request, and exactly two
notifications are broadcast — the balance snapshot of the debited asset, then the trade. -/
theorem one_fill (s : State) (t : Int) (r : Req) (f : Fill)
    (h : (step s t (.openOrder r)).2.1 = .order (.accepted f)) :
    let s' := (step s t (.openOrder r)).1
    (step s t (.openOrder r)).2.2 = [.balance f.asset f.balance, .trade f.trade] ∧
    s'.trades = s.trades ++ [f.trade] ∧ s'.seq = s.seq + 1 ∧
    f.id = s.seq ∧ f.trade.id = s.seq ∧ f.trade.orderId = s.seq ∧
    f.trade.fees = Spec.fees s.fee r ∧ f.filled = r.qty ∧
    f.trade.instr = r.instr ∧ f.trade.strategy = r.strategy ∧ f.trade.side = r.side ∧
    f.trade.price = r.price ∧ f.trade.qty = r.qty ∧
    f.trade.time = t + ((s.latency / 2 : Nat) : Int) ∧ f.time = f.trade.time := by
  rw [step_open_resp] at h
  injection h with h
  rw [step_open_accepted h]
  rcases openOrder_cases (updateTime s t) r with ⟨_, e⟩ | ⟨_, _, e⟩ | ⟨u, _, _, _, e⟩ | ⟨u, cur, _, _, _, _, e⟩ |
    ⟨u, cur, _, _, _, _, _, e⟩ | ⟨u, cur, hk, hi, hb, ht, hn, e⟩ <;> rw [e] at h ⊢ <;> try (cases h; done)
  simp only at h; injection h with h; subst h
  simp [ackTrade, updateTime]

/-- A request that is not accepted yields no fill and no notification. -/
theorem no_fill (s : State) (t : Int) (rq : Request)
    (h : ∀ f, (step s t rq).2.1 ≠ .order (.accepted f)) :
    (step s t rq).2.2 = [] ∧ (step s t rq).1.trades = s.trades ∧ (step s t rq).1.seq = s.seq :=
  let ⟨_, h2, h3, h4⟩ := step_untouched s t rq h
  ⟨h4, h2, h3⟩

/-- Ids are fresh: over any request history (any configuration) the recorded trade ids are exactly
`0, 1, …, seq-1` in order — hence pairwise distinct — and order id = trade id. -/
theorem ids_fresh (c : Cfg) (ops : List (Int × Request)) :
    let s := run (init c) ops
    s.trades.map (·.id) = List.range s.seq ∧ (s.trades.map (·.id)).Nodup ∧
    ∀ tr ∈ s.trades, tr.orderId = tr.id := by
  have key : ∀ s : State, (IdsOk s ∧ ∀ tr ∈ s.trades, tr.orderId = tr.id) →
      ∀ t rq, (IdsOk (step s t rq).1 ∧ ∀ tr ∈ (step s t rq).1.trades, tr.orderId = tr.id) := by
    intro s ⟨hs, ho⟩ t rq
    by_cases hacc : ∃ f, (step s t rq).2.1 = .order (.accepted f)
    · obtain ⟨f, hf⟩ := hacc
      cases rq with
      | openOrder r =>
        obtain ⟨_, h2, h3, _, h5, h6, _⟩ := one_fill s t r f hf
        refine ⟨?_, ?_⟩
        · simp only [IdsOk] at hs ⊢
          rw [h2, h3, List.map_append, hs, List.range_succ]; simp [h5]
        · intro tr htr
          rw [h2] at htr
          rcases List.mem_append.mp htr with htr | htr
          · exact ho tr htr
          · simp only [List.mem_singleton] at htr; subst htr; rw [h5, h6]
      | _ => simp [step] at hf
    · have hna : ∀ f, (step s t rq).2.1 ≠ .order (.accepted f) := fun f hf => hacc ⟨f, hf⟩
      obtain ⟨_, h2, h3, _⟩ := step_untouched s t rq hna
      refine ⟨?_, ?_⟩
      · simp only [IdsOk] at hs ⊢; rw [h2, h3]; exact hs
      · rw [h2]; exact ho
  have := run_inv (P := fun s => IdsOk s ∧ ∀ tr ∈ s.trades, tr.orderId = tr.id)
    (fun s t rq hs => key s hs t rq) (s := init c) ⟨by simp [IdsOk, init], by simp [init]⟩ ops
  refine ⟨this.1, ?_, this.2⟩
  rw [this.1]; exact List.nodup_range

/-! ## 4. `queries` / refinement to the history-only specification -/

/-- After any request history from a well-formed configuration, the exchange's ledger, recorded
trades and id counter are functions of the *accepted open-order requests of that history alone*:
each balance is the initial balance minus what the accepted orders spent of that asset, the trades
are the accepted orders' fills numbered in order, the counter is their number. `Spec.accepted`
singles the accepted orders out by the funds rule applied to that same ledger. -/
theorem refines_spec {c : Cfg} (hc : c.wf = true) (ops : List (Int × Request)) :
    let s := run (init c) ops
    let acc := Spec.accepted c (opens c ops)
    ledger s = Spec.ledger c acc ∧ s.trades = Spec.fills c acc ∧ s.seq = acc.length := by
  have h := refines_run hc ops
  exact ⟨refines_ledger h, h.trades, h.seq⟩

/-- The answer to the next open-order request (oneshot response and broadcast notifications) is the
specification's answer computed from the accepted orders of the history: accepted with the debited
asset's new balance and the one fill, or rejected with no notification. -/
theorem responses_refine {c : Cfg} (hc : c.wf = true) (ops : List (Int × Request)) (t : Int) (r : Req) :
    let s := run (init c) ops
    let acc := Spec.accepted c (opens c ops)
    match Spec.respond c acc ⟨exchangeTime c t, r⟩ with
    | some (a, b, tr) =>
      (step s t (.openOrder r)).2 =
        (.order (.accepted ⟨acc.length, exchangeTime c t, r.qty, a, ⟨b, b, exchangeTime c t⟩, tr⟩),
         [.balance a ⟨b, b, exchangeTime c t⟩, .trade tr])
    | none => ∃ err, (step s t (.openOrder r)).2 = (.order (.rejected err), []) :=
  refines_open_response (refines_run hc ops) hc t r

/-- Account snapshots, balance queries and trade queries reflect exactly the accepted orders: the
balances returned are the specification's ledger, the trades returned are the accepted orders'
fills with exchange time `≥ since`. -/
theorem queries_refine {c : Cfg} (hc : c.wf = true) (ops : List (Int × Request)) (t since : Int) :
    let s := run (init c) ops
    let acc := Spec.accepted c (opens c ops)
    (∃ bs, (step s t .fetchSnapshot).2 = (.snapshot bs, []) ∧
        bs.map (fun b => (b.total, b.free)) = Spec.ledger c acc) ∧
    (∃ bs, (step s t .fetchBalances).2 = (.balances bs, []) ∧
        bs.map (fun b => (b.total, b.free)) = Spec.ledger c acc) ∧
    (step s t (.fetchTrades since)).2 = (.trades (Spec.tradesSince c acc since), []) := by
  have h := refines_updateTime (refines_run hc ops) t
  have hl := refines_ledger h
  refine ⟨⟨_, rfl, hl⟩, ⟨_, rfl, hl⟩, ?_⟩
  simp only [step, tradesSince, Spec.tradesSince]
  rw [h.trades]

/-- The direct path (`MockExchange::open_order` called on the struct, no request loop, the exchange
clock stays at 0 and nobody acknowledges trades): after any sequence of calls from a well-formed
configuration the ledger and the id counter are the specification's, and the answer to the next call
is the specification's answer. -/
theorem direct_refines {c : Cfg} (hc : c.wf = true) (rs : List Req) (r : Req) :
    let s := runDirect (init c) rs
    let acc := Spec.accepted c (opensDirect rs)
    ledger s = Spec.ledger c acc ∧ s.seq = acc.length ∧
    match Spec.respond c acc ⟨0, r⟩ with
    | some (a, b, tr) => (openOrder s r).2 = .accepted ⟨acc.length, 0, r.qty, a, ⟨b, b, 0⟩, tr⟩
    | none => ∃ err, openOrder s r = (s, .rejected err) := by
  obtain ⟨h, htime, _⟩ := refinesD_run hc rs
  have h' : Refines c { runDirect (init c) rs with trades := Spec.fills c (Spec.accepted c (opensDirect rs)) }
      (Spec.accepted c (opensDirect rs)) := h
  refine ⟨(refines_ledger h' :), h'.seq, ?_⟩
  rcases refinesD_open h hc r with ⟨hf, a, v, hsp, hv, hres, _⟩ | ⟨hf, err, hres⟩
  · rw [htime] at hres
    simp only [Spec.respond, hf, if_true, hsp, hv]
    exact hres
  · simp only [Spec.respond, hf]
    exact ⟨err, hres⟩

/-! ## Non-vacuity: a concrete configuration and history -/

/-- base asset 0 holds 2, quote asset 1 holds 100, fee 1 %, latency 100 ms, one instrument 0/1. -/
def c0 : Cfg := { latency := 100, fee := 1/100, init := [(2, 2), (100, 100)], instruments := [⟨0, 1⟩] }
def buy0 : Req := { instr := 0, strategy := 1, cid := 7, side := .buy, price := 10, qty := 2, kind := .market }
def sell0 : Req := { instr := 0, strategy := 1, cid := 8, side := .sell, price := 10, qty := 2, kind := .market }

example : c0.wf = true := by decide
example : ∀ p ∈ c0.init, 0 ≤ p.2 := by decide
/-- the buy is accepted (needs 20.2 of 100 quote) … -/
example : (step (init c0) 5 (.openOrder buy0)).2 =
    (.order (.accepted ⟨0, 55, 2, 1, ⟨399/5, 399/5, 55⟩, ⟨0, 0, 0, 1, 55, .buy, 10, 2, 1/5⟩⟩),
     [.balance 1 ⟨399/5, 399/5, 55⟩, .trade ⟨0, 0, 0, 1, 55, .buy, 10, 2, 1/5⟩]) := by decide +kernel
/-- … the sell is rejected (needs 2.02 of 2 base), so both branches of every theorem are inhabited. -/
example : (step (init c0) 5 (.openOrder sell0)).2.1 =
    .order (.rejected (.balanceInsufficient 0 2 (101/50))) := by decide +kernel
example : Spec.accepted c0 (opens c0 [(5, .openOrder buy0), (6, .openOrder sell0), (7, .fetchSnapshot)]) =
    [⟨55, buy0⟩] := by decide +kernel

/-- **Translator tie (map machine): the ledger model IS the current source.** `MockExchange::{open_order,
validate_order_kind_supported, find_instrument_data, order_id_sequence_fetch_add, update_time_exchange, time_exchange}`,
`build_open_order_err_response`, `AccountState::{update_time_exchange, trades, ack_trade}` (`balance_mut`, a
`&mut`-returning accessor, is read in place at its calls), `AssetFees::quote_fees` and the structs / enums they work on
are regenerated from `barter-execution/src/exchange/mock/{mod,account}.rs` (and `error.rs`, `balance.rs`, `trade.rs`,
`order/*.rs`) by `tools/rust2lean_sm.py` on every run (`Generated/Machines3.lean`, group `mock`); the two `FnvHashMap`s are
read through the translator's explicit map vocabulary (an association list with `get` / `insert` / `values_mut`, proved to
be a finite map in `Lemmas/KernelsAgree/MapVocab.lean`); `MockExchange` is translated without its two channel fields, and
the `async` request loop is not translated. The model keeps balances and instruments as LISTS by position where the code
keys hash maps by name, so the correspondence is a simulation UP TO THE ORDER OF THE MAPS: `Sim g s` (scalars equal; for
every key, `get` of the generated map is the model's list entry at that position; names are positions). For ALL related
states and ALL requests, under `WF` (total = free, instrument assets have balances: what rules out the exchange's own
`expect` / `assert_eq!` panics, `reach_wf`): the generated `open_order` yields related states and — read through `ofResp`:
the `Order` response, the notifications, and the values `format!` puts into the error message — the model's `Result`
(`openOrder`); the generated `update_time_exchange` / `ack_trade` / `trades` are `updateTime` / `ackTrade` / `tradesSince`; the
composition the request loop performs for an open request is the model's `step`; every model state has a generated
counterpart (`toMock`). No inequivalence was found. The statement is that of `KernelsAgree.MockSM.mock_sm_agree`
(Lemmas/KernelsAgree/MockSM.lean). -/
theorem map_machine_agrees_with_source :
    type_of% BarterModel.KernelsAgree.MockSM.mock_sm_agree :=
  BarterModel.KernelsAgree.MockSM.mock_sm_agree

end BarterModel.Props.C08
