import BarterModel.Lemmas.MockExchange
namespace BarterModel.Props.C08
open BarterModel.MockExchange

theorem limit_rejected (s : State) (r : Req) (h : r.kind = .limit) :
    openOrder s r = (s, .rejected .kindUnsupported) := by
  simp [openOrder, h]

end BarterModel.Props.C08
