import BarterModel.Lemmas.SubValidator
/-!
# C13S — subscription validation of the market-data connectors

Statements about `WebSocketSubValidator::validate` (`run`), the per-connector response validators and
`BitfinexWebSocketSubValidator::validate` (`runBfx`) of `Model/SubValidator.lean`. The input of a validation
is the list of everything the socket yields (`Frame`), including silences (`wait ms`); the end of the list
is the end of the stream. All theorems hold for every input list, every timeout and every expected count.

Reading aid: `Proceeds validate T k pre mid` = starting from the consumed history `pre`, the validator
consumes the items of `mid` one after the other (before each of them the history does not yet hold `k`
accepted responses, and the item is not fatal: not a rejected response, a close frame, a transport error,
or a wait that completes a silence of `T`). `proceeds_iff` spells it out position by position.
-/
namespace BarterModel.Props.C13S
open BarterModel.SubValidator

section Generic
variable {R : Type} (validate : R → Option RespErr) (T k : Nat)

abbrev Proceeds (pre mid : List (Frame R)) : Prop :=
  Steps (fun pre => successCount validate pre == k) (fatal validate T silence) pre mid

theorem proceeds_iff (pre mid : List (Frame R)) :
    Proceeds validate T k pre mid ↔
      ∀ i (h : i < mid.length),
        successCount validate (pre ++ mid.take i) ≠ k ∧
        fatal validate T silence (pre ++ mid.take i) mid[i] = none := by
  unfold Proceeds
  rw [steps_take_iff]
  constructor
  · intro h i hi; have := h i hi; simpa using this
  · intro h i hi; have := h i hi; simpa using this

/-- (0) Refinement: the counter-threading loop of the code computes the history-based specification. -/
theorem run_refines_spec (frames : List (Frame R)) :
    run validate T k {} frames = spec validate T k frames := by
  have := run_eq_scan validate T k frames []
  simpa [summary, successCount, bufferedOf, silence, others, spec] using this

/-- (1) `Ok` exactly when a prefix of the input is consumed without anything fatal and holds the expected
number of accepted responses (and no shorter prefix does); the buffer holds the non-response payloads that
followed the first accepted response; `rest` is what stays unread in the socket. -/
theorem ok_iff (frames : List (Frame R)) (b : List Nat) (rest : List (Frame R)) :
    run validate T k {} frames = .ok (b, rest) ↔
      ∃ pre, frames = pre ++ rest ∧ Proceeds validate T k [] pre ∧
        successCount validate pre = k ∧ b = bufferedOf validate pre := by
  rw [run_refines_spec, spec, scanWith_ok_iff]
  constructor
  · rintro ⟨mid, tl, h1, h2, h3, h4⟩
    simp at h3 h4
    exact ⟨mid, by rw [h1, h4.2], h2, h3, h4.1⟩
  · rintro ⟨pre, h1, h2, h3, h4⟩
    exact ⟨pre, rest, h1, h2, by simpa using h3, by simp [h4]⟩

/-- (2) `Err e` exactly when, before the expected number of accepted responses has been seen, the stream
ends (`ended`) or the next item is fatal with `e`. -/
theorem err_iff (frames : List (Frame R)) (e : ValErr) :
    run validate T k {} frames = .error e ↔
      ∃ pre, Proceeds validate T k [] pre ∧ successCount validate pre ≠ k ∧
        ((frames = pre ∧ e = .ended) ∨
          ∃ f tl, frames = pre ++ f :: tl ∧ fatal validate T silence pre f = some e) := by
  rw [run_refines_spec, spec, scanWith_error_iff]
  constructor
  · rintro ⟨mid, h1, h2, h3⟩
    exact ⟨mid, h1, by simpa using h2, by simpa using h3⟩
  · rintro ⟨pre, h1, h2, h3⟩
    exact ⟨pre, h1, by simpa using h2, by simpa using h3⟩

/-- (3) The hint's formulation: the validation succeeds iff the expected number of accepted responses
arrives before any rejected response, close frame, transport error, timeout or stream end. -/
theorem ok_iff_enough_before_anything_fatal (frames : List (Frame R)) :
    (∃ b rest, run validate T k {} frames = .ok (b, rest)) ↔
      ∃ pre rest, frames = pre ++ rest ∧ successCount validate pre = k ∧
        ∀ i (h : i < pre.length), fatal validate T silence (pre.take i) pre[i] = none := by
  constructor
  · rintro ⟨b, rest, h⟩
    obtain ⟨pre, h1, h2, h3, _⟩ := (ok_iff validate T k frames b rest).mp h
    refine ⟨pre, rest, h1, h3, ?_⟩
    intro i hi
    have := ((proceeds_iff validate T k [] pre).mp h2 i hi).2
    simpa using this
  · rintro ⟨pre, rest, h1, h2, h3⟩
    rw [run_refines_spec, spec, h1]
    obtain ⟨a, ha⟩ := scanWith_ok_of_noFatal
      (complete := fun pre => successCount validate pre == k)
      (result := fun pre rest => (bufferedOf validate pre, rest))
      (fatalNext := fatal validate T silence) [] pre rest (by simpa using h3) (by simpa using h2)
    exact ⟨a.1, a.2, ha⟩

/-- (4) Nothing is expected (`k = 0`, e.g. an empty instrument map): `Ok` at once, nothing consumed. -/
theorem nothing_expected (frames : List (Frame R)) :
    run validate T 0 {} frames = .ok ([], frames) := by
  cases frames <;> simp [run]

/-- (5) With `k > 0`, a successful validation stops right after an accepted response, which is the `k`-th:
no frame beyond the last needed confirmation is taken from the socket. -/
theorem ok_stops_at_kth_confirmation (hk : 0 < k) (frames : List (Frame R)) (b : List Nat)
    (rest : List (Frame R)) (h : run validate T k {} frames = .ok (b, rest)) :
    ∃ pre r, frames = pre ++ [.resp r] ++ rest ∧ validate r = none ∧
      successCount validate pre = k - 1 := by
  obtain ⟨pre, h1, h2, h3, _⟩ := (ok_iff validate T k frames b rest).mp h
  rcases List.eq_nil_or_concat pre with hp | ⟨ini, last, hp⟩
  · subst hp; simp [successCount] at h3; omega
  · rw [List.concat_eq_append] at hp
    subst hp
    have hs := (steps_snoc [] ini last).mp h2
    have hn : successCount validate ini ≠ k := by simpa using hs.2.1
    rw [successCount_snoc] at h3
    cases last with
    | resp r =>
      by_cases hv : validate r = none
      · refine ⟨ini, r, by simp [h1], hv, ?_⟩
        simp [isSuccess, hv] at h3; omega
      · simp [isSuccess, hv] at h3; exact absurd h3 hn
    | _ => simp [isSuccess] at h3; exact absurd h3 hn

/-- (6) No market event is lost: every non-response payload that follows the first accepted response is
either in the returned buffer or still unread in the socket, in order. -/
theorem no_event_lost (hk : 0 < k) (frames : List (Frame R)) (b : List Nat) (rest : List (Frame R))
    (h : run validate T k {} frames = .ok (b, rest)) :
    bufferedOf validate frames = b ++ others rest := by
  obtain ⟨pre, h1, _, h3, h4⟩ := (ok_iff validate T k frames b rest).mp h
  subst h1 h4
  unfold bufferedOf
  rw [dropWhile_of_count_pos validate pre rest (by omega), others_append]

/-- (6') ... and what precedes the first accepted response is dropped (the code's catch-all arm). -/
theorem before_first_confirmation_dropped (frames : List (Frame R)) (b : List Nat) (rest : List (Frame R))
    (h : run validate T k {} frames = .ok (b, rest)) :
    ∃ pre, frames = pre ++ rest ∧
      b = others (pre.dropWhile (fun f => !isSuccess validate f)) := by
  obtain ⟨pre, h1, _, _, h4⟩ := (ok_iff validate T k frames b rest).mp h
  exact ⟨pre, h1, h4⟩

/-- (7) A rejected response that arrives before validation is complete yields exactly its error. -/
theorem rejection_is_reported (pre tl : List (Frame R)) (r : R) (e : RespErr)
    (hp : Proceeds validate T k [] pre) (hk : successCount validate pre ≠ k) (hr : validate r = some e) :
    run validate T k {} (pre ++ .resp r :: tl) = .error (.rejected e) := by
  rw [err_iff]
  exact ⟨pre, hp, hk, Or.inr ⟨.resp r, tl, rfl, by simp [fatal, hr]⟩⟩

/-- (7') ... likewise a close frame, a transport error (then the fused stream ends) and the end of stream. -/
theorem close_is_reported (pre tl : List (Frame R))
    (hp : Proceeds validate T k [] pre) (hk : successCount validate pre ≠ k) :
    run validate T k {} (pre ++ .close :: tl) = .error .closed ∧
    run validate T k {} (pre ++ .transportErr :: tl) = .error .ended ∧
    run validate T k {} pre = .error .ended := by
  refine ⟨?_, ?_, ?_⟩
  · rw [err_iff]; exact ⟨pre, hp, hk, Or.inr ⟨.close, tl, rfl, by simp [fatal]⟩⟩
  · rw [err_iff]; exact ⟨pre, hp, hk, Or.inr ⟨.transportErr, tl, rfl, by simp [fatal]⟩⟩
  · rw [err_iff]; exact ⟨pre, hp, hk, Or.inl ⟨rfl, rfl⟩⟩

/-- (8) The outcome depends only on what is consumed: whatever else is queued behind it stays queued. -/
theorem unread_untouched (pre rest rest' : List (Frame R)) (b : List Nat)
    (h : run validate T k {} (pre ++ rest) = .ok (b, rest)) :
    run validate T k {} (pre ++ rest') = .ok (b, rest') := by
  obtain ⟨pre', h1, h2, h3, h4⟩ := (ok_iff validate T k (pre ++ rest) b rest).mp h
  have := List.append_cancel_right h1
  subst this
  exact (ok_iff validate T k _ b rest').mpr ⟨pre, rfl, h2, h3, h4⟩

/-- (8') A failure once reported does not depend on what the venue would have sent afterwards (only
`ended` does: more input may follow). -/
theorem error_is_final (frames more : List (Frame R)) (e : ValErr) (he : e ≠ .ended)
    (h : run validate T k {} frames = .error e) :
    run validate T k {} (frames ++ more) = .error e := by
  obtain ⟨pre, h1, h2, h3⟩ := (err_iff validate T k frames e).mp h
  rcases h3 with ⟨_, h4⟩ | ⟨f, tl, hf, hfat⟩
  · exact absurd h4 he
  · rw [err_iff]
    exact ⟨pre, h1, h2, Or.inr ⟨f, tl ++ more, by simp [hf], hfat⟩⟩

/-- (8'') Pings and pongs are invisible apart from re-arming the timer: on an input without silences,
deleting them changes neither the verdict nor the buffer nor (up to the same deletion) the unread rest. -/
theorem pings_invisible (frames : List (Frame R)) (hw : NoWaits frames) :
    run validate T k {} (frames.filter notSkip)
      = (run validate T k {} frames).map (fun p => (p.1, p.2.filter notSkip)) :=
  run_filter_skip validate T k frames hw {}

/-- (9) A timeout is reported only at a wait that completes a silence of at least `T` since the last item
the socket yielded (any item: the code re-arms its `sleep` on every loop iteration). -/
theorem timeout_only_after_silence (frames : List (Frame R))
    (h : run validate T k {} frames = .error .timeout) :
    ∃ pre d tl, frames = pre ++ .wait d :: tl ∧ T ≤ silence pre + d := by
  obtain ⟨pre, _, _, h3⟩ := (err_iff validate T k frames .timeout).mp h
  rcases h3 with ⟨_, he⟩ | ⟨f, tl, hf, hfat⟩
  · cases he
  · cases f with
    | wait d =>
      refine ⟨pre, d, tl, hf, ?_⟩
      simp only [fatal] at hfat
      split at hfat
      · assumption
      · cases hfat
    | resp r => simp only [fatal] at hfat; cases hv : validate r <;> simp [hv] at hfat
    | _ => simp [fatal] at hfat

/-- (10) The two readings of `subscription_timeout`. `specDeadline` measures the timeout from the start of
the validation ("will wait to receive all success responses"); the code measures each silence. They agree
whenever the whole input takes less than the timeout ... -/
theorem readings_agree_within_deadline (frames : List (Frame R)) (h : elapsed frames < T) :
    run validate T k {} frames = specDeadline validate T k frames := by
  rw [run_refines_spec, spec, specDeadline]
  apply scanWith_congr
  intro i hi
  cases hf : frames[i] with
  | wait d =>
    have hsplit : frames = frames.take i ++ frames[i] :: frames.drop (i + 1) := by
      rw [List.getElem_cons_drop, List.take_append_drop]
    have he : elapsed (frames.take i) + d ≤ elapsed frames := by
      have h2 : elapsed frames
          = elapsed (frames.take i) + (d + elapsed (frames.drop (i + 1))) := by
        conv => lhs; rw [hsplit]
        simp [elapsed, hf, waitMs]
      omega
    have hs := silence_le_elapsed (frames.take i)
    simp only [fatal, List.nil_append]
    rw [if_neg (by omega), if_neg (by omega)]
  | _ => simp [fatal]

/-- ... a success under the deadline reading is the same success of the code, and a timeout of the code
is a timeout under the deadline reading. The converse fails (see the example below): the code can return
`Ok` after more than `T`. -/
theorem deadline_ok_is_code_ok (frames : List (Frame R)) (a : List Nat × List (Frame R))
    (h : specDeadline validate T k frames = .ok a) : run validate T k {} frames = .ok a := by
  rw [run_refines_spec, spec]
  exact scanWith_ok_of_earlier (earlier_silence_elapsed validate T) [] frames a h

theorem code_timeout_is_deadline_timeout (frames : List (Frame R))
    (h : run validate T k {} frames = .error .timeout) :
    specDeadline validate T k frames = .error .timeout := by
  rw [run_refines_spec, spec] at h
  exact scanWith_timeout_of_earlier (earlier_silence_elapsed validate T) [] frames h

end Generic

/-! ## Bitfinex: `BitfinexWebSocketSubValidator::validate` -/

section Bitfinex

/-- The instrument map the subscriber hands over: one entry per `channel|market` key. -/
def WF (map0 : IMap) : Prop := KeysNodup map0 ∧ AllSub map0

/-- `Map::from_iter` over `channel|market` keys always yields such a map. -/
theorem ofList_wf (es : List (Key × Nat)) (h : ∀ e ∈ es, ∃ c mk, e.1 = Key.sub c mk) :
    WF (IMap.ofList es) :=
  ⟨IMap.ofList_keysNodup es, IMap.ofList_allSub es h⟩

/-- validation is complete: every subscription of the map is confirmed and as many follow-up payloads as
subscriptions have arrived -/
abbrev completeBfx (map0 : IMap) (pre : List (Frame BfxEvent)) : Bool :=
  hitCount map0 pre == map0.length && (snapshotsOf map0 pre).length == map0.length

abbrev ProceedsBfx (map0 : IMap) (pre mid : List (Frame BfxEvent)) : Prop :=
  Steps (completeBfx map0) (fatal BfxEvent.validate (subscriptionTimeoutMs .bitfinex) silence) pre mid

/-- (B1) `Ok (map, buffered, rest)` exactly when a prefix of the input is consumed without anything fatal
and completes the validation; the buffer is what followed the first confirmation. (The returned map is
characterised in `bfx_map_is_rekeyed`.) -/
theorem bfx_ok_iff {map0 : IMap} (hn : KeysNodup map0) (frames : List (Frame BfxEvent)) (b : List Nat)
    (rest : List (Frame BfxEvent)) :
    (∃ m, validateBfx map0 frames = .ok (m, b, rest)) ↔
      ∃ pre, frames = pre ++ rest ∧ ProceedsBfx map0 [] pre ∧ completeBfx map0 pre = true ∧
        b = snapshotsOf map0 pre := by
  rw [validateBfx_eq_scan hn]
  constructor
  · rintro ⟨m, h⟩
    obtain ⟨mid, tl, h1, h2, h3, h4⟩ := (scanWith_ok_iff _ _ _).mp h
    simp at h4
    exact ⟨mid, by rw [h1, h4.2.2], h2, by simpa using h3, h4.2.1⟩
  · rintro ⟨pre, h1, h2, h3, h4⟩
    exact ⟨mapAfter map0 pre, (scanWith_ok_iff _ _ _).mpr ⟨pre, rest, h1, h2, by simpa using h3, by simp [h4]⟩⟩

/-- (B2) errors, as for the generic validator; a platform status "maintenance" and an `error` event are
rejected responses. -/
theorem bfx_err_iff {map0 : IMap} (hn : KeysNodup map0) (frames : List (Frame BfxEvent)) (e : ValErr) :
    validateBfx map0 frames = .error e ↔
      ∃ pre, ProceedsBfx map0 [] pre ∧ completeBfx map0 pre = false ∧
        ((frames = pre ∧ e = .ended) ∨
          ∃ f tl, frames = pre ++ f :: tl ∧
            fatal BfxEvent.validate (subscriptionTimeoutMs .bitfinex) silence pre f = some e) := by
  rw [validateBfx_eq_scan hn, scanWith_error_iff]
  simp

/-- (B3) Refinement to the specification: same verdict, same buffer, same unread input; the specification's
map is `rekey map0 consumed`, the code's map has the same entries whenever the venue assigned pairwise
distinct channel ids (`distinctIds`), and never has two entries for one key. -/
theorem bfx_refines_spec {map0 : IMap} (hw : WF map0) (frames : List (Frame BfxEvent)) :
    (∀ e, validateBfx map0 frames = .error e ↔
        specBfx (subscriptionTimeoutMs .bitfinex) map0 frames = .error e) ∧
    (∀ m b rest, validateBfx map0 frames = .ok (m, b, rest) →
        ∃ pre, frames = pre ++ rest ∧
          specBfx (subscriptionTimeoutMs .bitfinex) map0 frames = .ok (rekey map0 pre, b, rest) ∧
          KeysNodup m ∧
          (distinctIds map0 pre = true → ∀ x, x ∈ m ↔ x ∈ rekey map0 pre)) := by
  constructor
  · intro e
    rw [validateBfx_eq_scan hw.1, specBfx, scanWith_error_iff, scanWith_error_iff]
  · intro m b rest h
    rw [validateBfx_eq_scan hw.1] at h
    obtain ⟨mid, tl, h1, h2, h3, h4⟩ := (scanWith_ok_iff _ _ _).mp h
    simp at h4
    obtain ⟨hm, hb, hr⟩ := h4
    subst hr
    refine ⟨mid, by simpa using h1, ?_, ?_, ?_⟩
    · rw [specBfx]
      exact (scanWith_ok_iff _ _ _).mpr ⟨mid, rest, h1, h2, h3, by simp [hb]⟩
    · rw [hm]; exact mapAfter_keysNodup hw.1 mid
    · intro hd x
      rw [hm]
      have := mapAfter_mem_iff_rekey hw.1 hw.2 mid hd x
      simpa using this

/-- (B4) The hint's statement. After a successful validation every subscription of the map has been
confirmed, and (channel ids pairwise distinct) the returned map contains exactly the confirmed channel ids,
each mapped to the instrument that was subscribed under the confirmed `channel|market` key. Without
`distinctIds`: no `channel|market` key is left (`bfx_no_sub_key_left`) and every entry is such a pair
(`bfx_map_within_rekeyed`), but entries can be missing (`bfx_shared_id_loses_instrument`). -/
theorem bfx_map_is_rekeyed {map0 : IMap} (hw : WF map0) (frames : List (Frame BfxEvent)) (m : IMap)
    (b : List Nat) (rest : List (Frame BfxEvent)) (h : validateBfx map0 frames = .ok (m, b, rest)) :
    ∃ pre, frames = pre ++ rest ∧
      (∀ key ins, (key, ins) ∈ map0 → ∃ id, chanIdOf pre key = some id) ∧
      KeysNodup m ∧
      (distinctIds map0 pre = true →
        ∀ key ins, (key, ins) ∈ m ↔
          ∃ k0 id, (k0, ins) ∈ map0 ∧ chanIdOf pre k0 = some id ∧ key = .chan id) := by
  obtain ⟨pre, h1, hs, hk, hm⟩ := (bfx_refines_spec hw frames).2 m b rest h
  have hall : ∀ key ins, (key, ins) ∈ map0 → ∃ id, chanIdOf pre key = some id := by
    obtain ⟨pre', h1', _, h3', _⟩ := (bfx_ok_iff hw.1 frames b rest).mp ⟨m, h⟩
    have hpp : pre' = pre := List.append_cancel_right (h1'.symm.trans h1)
    subst hpp
    simp only [completeBfx, Bool.and_eq_true, beq_iff_eq] at h3'
    have := List.length_filter_eq_length_iff.mp h3'.1
    intro key ins hmem
    have := this (key, ins) hmem
    exact Option.isSome_iff_exists.mp this
  refine ⟨pre, h1, hall, hk, ?_⟩
  intro hd key ins
  rw [hm hd, mem_rekey]
  constructor
  · rintro ⟨e, he, hx⟩
    obtain ⟨id, hid⟩ := hall e.1 e.2 he
    simp only [rk, rekeyEntry, hid] at hx
    cases hx
    exact ⟨e.1, id, he, hid, rfl⟩
  · rintro ⟨k0, id, hmem, hid, hkey⟩
    exact ⟨(k0, ins), hmem, by simp [rk, rekeyEntry, hid, hkey]⟩

/-- (B5) The two readings of the timeout, as for the generic validator. -/
theorem bfx_code_timeout_is_deadline_timeout {map0 : IMap} (hw : WF map0) (frames : List (Frame BfxEvent))
    (h : validateBfx map0 frames = .error .timeout) :
    specBfxDeadline (subscriptionTimeoutMs .bitfinex) map0 frames = .error .timeout := by
  have := ((bfx_refines_spec hw frames).1 .timeout).mp h
  rw [specBfx] at this
  exact scanWith_timeout_of_earlier (earlier_silence_elapsed _ _) [] frames this

end Bitfinex

/-! ## The connectors' response validators and parameters -/

section Connectors

/-- which responses each connector accepts (`validate` returns `Ok(self)`) -/
theorem binance_accepts_iff (r : BinanceResp) : r.validate = none ↔ r.result = none := by
  cases r with | mk res => cases res <;> simp [BinanceResp.validate]

theorem bybit_accepts_iff (r : BybitResp) :
    r.validate = none ↔ r.success = true ∧ r.retMsg ≠ .pong := by
  cases r with | mk s m => cases s <;> cases m <;> simp [BybitResp.validate]

/-- a Bybit `pong` during validation is an error of its own kind, whatever its `success` flag -/
theorem bybit_pong_out_of_sequence (s : Bool) : (BybitResp.mk s .pong).validate = some .outOfSequence := rfl

theorem bitmex_accepts_iff (r : BitmexResp) : r.validate = none ↔ r.success = true := by
  cases r with | mk s => cases s <;> simp [BitmexResp.validate]

theorem coinbase_accepts_iff (r : CoinbaseResp) : r.validate = none ↔ ∃ n, r = .subscribed n := by
  cases r <;> simp [CoinbaseResp.validate]

theorem gateio_accepts_iff (r : GateioResp) : r.validate = none ↔ r.error = none := by
  cases r with | mk e => cases e <;> simp [GateioResp.validate]

theorem kraken_accepts_iff (r : KrakenResp) : r.validate = none ↔ ∃ id, r = .subscribed id := by
  cases r <;> simp [KrakenResp.validate]

theorem okx_accepts_iff (r : OkxResp) : r.validate = none ↔ r = .subscribed := by
  cases r <;> simp [OkxResp.validate]

theorem bitfinex_accepts_iff (ev : BfxEvent) :
    ev.validate = none ↔ ev = .platformStatus true ∨ ∃ c m id, ev = .subscribed c m id := by
  cases ev with
  | platformStatus op => cases op <;> simp [BfxEvent.validate]
  | subscribed c m id => simp [BfxEvent.validate]
  | error code => simp [BfxEvent.validate]

/-- every rejection other than Bybit's pong and Bitfinex's maintenance notice is a plain `failure` -/
theorem rejection_kinds (r : Resp) (e : RespErr) (h : r.validate = some e) :
    e = .failure ∨ (e = .outOfSequence ∧ ∃ s, r = .bybit ⟨s, .pong⟩) := by
  cases r with
  | binance r => cases r with | mk res => cases res <;> simp_all [Resp.validate, BinanceResp.validate]
  | bybit r =>
    cases r with | mk s m => cases s <;> cases m <;> simp_all [Resp.validate, BybitResp.validate]
  | bitmex r => cases r with | mk s => cases s <;> simp_all [Resp.validate, BitmexResp.validate]
  | coinbase r => cases r <;> simp_all [Resp.validate, CoinbaseResp.validate]
  | gateio r => cases r with | mk e' => cases e' <;> simp_all [Resp.validate, GateioResp.validate]
  | kraken r => cases r <;> simp_all [Resp.validate, KrakenResp.validate]
  | okx r => cases r <;> simp_all [Resp.validate, OkxResp.validate]

/-- the payloads the connectors' own doc comments give as success / failure are accepted / rejected
(Gateio's documented failure payload has no `Resp` value: it does not deserialise, see the model) -/
theorem documented_success_accepted (ex : Exchange) (r : Resp) (h : docOk ex = some r) :
    r.validate = none := by
  cases ex <;> simp [docOk] at h <;> subst h <;> rfl

theorem documented_failure_rejected (ex : Exchange) (r : Resp) (h : docFail ex = some r) :
    r.validate = some .failure := by
  cases ex <;> simp [docFail] at h <;> subst h <;> rfl

/-- one response for the whole request on Binance, Bybit and Bitmex, one per subscription elsewhere -/
theorem expected_responses_table (ex : Exchange) (n : Nat) :
    expectedResponses ex n = if ex = .binance ∨ ex = .bybit ∨ ex = .bitmex then 1 else n := by
  cases ex <;> simp [expectedResponses]

/-- consequence: with an empty instrument map the single-response venues still wait for one response,
the others return at once -/
theorem empty_map (ex : Exchange) (frames : List (Frame Resp)) (h : expectedResponses ex 0 = 0) :
    validateGeneric ex 0 frames = .ok ([], frames) := by
  unfold validateGeneric; rw [h]; exact nothing_expected _ _ frames

end Connectors

/-! ## Non-vacuity and edge-case witnesses (concrete runs of the model; each was also run through the real
code by the harness) -/

section Witnesses

def krakenOk (id : Nat) : Frame Resp := .resp (.kraken (.subscribed id))

/-- two subscriptions, a market event between the confirmations, one queued behind them -/
example : validateGeneric .kraken 2 [.other 7, krakenOk 1, .other 3, .skip, krakenOk 2, .other 4]
    = .ok ([3], [.other 4]) := by decide

/-- the hypotheses of `rejection_is_reported` are satisfiable by a non-trivial history -/
example : Proceeds Resp.validate 10000 2 [] [krakenOk 1, .other 3, .wait 9000] := by
  rw [proceeds_iff]; decide

example : validateGeneric .kraken 2 [krakenOk 1, .other 3, .wait 9000, .resp (.kraken .error)]
    = .error (.rejected .failure) := by decide

/-- The timer restarts with every item the socket yields: `Ok` 18 s after the start with a 10 s timeout;
under the one-deadline reading of `subscription_timeout` this input times out. -/
example : validateGeneric .kraken 2 [krakenOk 1, .wait 9000, .skip, .wait 9000, krakenOk 2]
    = .ok ([], []) := by decide
example : specDeadline Resp.validate 10000 2 [krakenOk 1, .wait 9000, .skip, .wait 9000, krakenOk 2]
    = .error .timeout := by decide

/-- Gateio's documented failure payload does not deserialise (`Frame.other`): it is skipped, and the
failure surfaces as a timeout instead of the venue's error -/
example : validateGeneric .gateio 1 [.other 0, .wait 10000] = .error .timeout := by decide

/-- Bitfinex, two subscriptions, the venue confirms in the other order -/
def bfxMap : IMap := IMap.ofList [(.sub 0 0, 5), (.sub 0 1, 6)]

example : WF bfxMap :=
  ofList_wf _ (by intro e he; simp at he; rcases he with rfl | rfl <;> exact ⟨_, _, rfl⟩)

example : validateBfx bfxMap
    [.resp (.platformStatus true), .resp (.subscribed 0 1 11), .other 1, .resp (.subscribed 0 0 10),
     .other 2, .other 3]
    = .ok ([(.chan 10, 5), (.chan 11, 6)], [1, 2], [.other 3]) := by decide

example : distinctIds bfxMap [.resp (.subscribed 0 1 11), .other 1, .resp (.subscribed 0 0 10), .other 2]
    = true := by decide

/-- Bitfinex: more follow-up payloads than subscriptions before the last confirmation (a snapshot plus
trades or heartbeats of the first channel) and the validation can never complete -/
example : validateBfx bfxMap
    [.resp (.subscribed 0 0 10), .other 1, .other 2, .other 3, .resp (.subscribed 0 1 11), .other 4]
    = .error .ended := by decide

/-- Bitfinex: the same channel id announced for two subscriptions overwrites an entry (outside
`distinctIds`; the theorems then promise a map without duplicate keys, without `channel|market` keys and with
only rightly filed instruments: `bfx_no_sub_key_left`, `bfx_map_within_rekeyed`; named witness
`bfx_shared_id_loses_instrument`) -/
example : validateBfx bfxMap
    [.resp (.subscribed 0 0 10), .other 1, .resp (.subscribed 0 1 10), .other 2]
    = .ok ([(.chan 10, 6)], [1, 2], []) := by decide

end Witnesses

/-! ## Added after the review of the sub-check theorems

What holds of the Bitfinex map WITHOUT the `distinctIds` hypothesis (B4a, B4b) and what does not (B4c); what
"pings only re-arm the timer" means in general (8''a) and why `pings_invisible` needs `NoWaits` (8''b); the
instrument map the generic validators hand back (S). -/

section Added

/-- (B4a) **No hypothesis on the channel ids.** After a successful validation no `channel|market` key is left
in the returned map, whatever ids the venue announced (also when it announced the same id twice). Needs only
that the original map has one entry per key (`Map::from_iter`: `ofList_wf`). -/
theorem bfx_no_sub_key_left {map0 : IMap} (hn : KeysNodup map0) (frames : List (Frame BfxEvent)) (m : IMap)
    (b : List Nat) (rest : List (Frame BfxEvent)) (h : validateBfx map0 frames = .ok (m, b, rest)) :
    ∀ c mk ins, (Key.sub c mk, ins) ∉ m := by
  obtain ⟨pre, h1, _, h3, _⟩ := (bfx_ok_iff hn frames b rest).mp ⟨m, h⟩
  rw [validateBfx_eq_scan hn] at h
  obtain ⟨mid, tl, h1', _, _, h4⟩ := (scanWith_ok_iff _ _ _).mp h
  simp at h4
  obtain ⟨hm, _, hr⟩ := h4
  subst hr
  have hpp : mid = pre := List.append_cancel_right (h1'.symm.trans (by simpa using h1))
  subst hpp
  simp only [completeBfx, Bool.and_eq_true, beq_iff_eq] at h3
  have hall := List.length_filter_eq_length_iff.mp h3.1
  intro c mk ins hmem
  have hsome : ((mapAfter map0 mid).get (.sub c mk)).isSome :=
    (IMap.get_isSome_iff _ _).mpr ⟨ins, by rw [← hm]; exact hmem⟩
  rw [mapAfter_get_sub] at hsome
  cases hc : chanIdOf mid (.sub c mk) with
  | some id => simp [hc] at hsome
  | none =>
    simp [hc] at hsome
    obtain ⟨v, hv⟩ := (IMap.get_isSome_iff map0 _).mp hsome
    have := hall (.sub c mk, v) hv
    simp [hc] at this

/-- (B4b) **No hypothesis on the channel ids.** Every entry of the returned map is a confirmed channel id
mapped to an instrument that was subscribed under a `channel|market` key whose FIRST confirmation announced
that id: nothing is invented and no instrument is filed under a foreign id. (What can still go wrong without
`distinctIds` is that entries are missing: `bfx_shared_id_loses_instrument`.) -/
theorem bfx_map_within_rekeyed {map0 : IMap} (hn : KeysNodup map0) (frames : List (Frame BfxEvent)) (m : IMap)
    (b : List Nat) (rest : List (Frame BfxEvent)) (h : validateBfx map0 frames = .ok (m, b, rest)) :
    ∃ pre, frames = pre ++ rest ∧
      ∀ key ins, (key, ins) ∈ m →
        ∃ k0 id, (k0, ins) ∈ map0 ∧ chanIdOf pre k0 = some id ∧ key = .chan id := by
  obtain ⟨pre, h1, _, h3, _⟩ := (bfx_ok_iff hn frames b rest).mp ⟨m, h⟩
  rw [validateBfx_eq_scan hn] at h
  obtain ⟨mid, tl, h1', _, _, h4⟩ := (scanWith_ok_iff _ _ _).mp h
  simp at h4
  obtain ⟨hm, _, hr⟩ := h4
  subst hr
  have hpp : mid = pre := List.append_cancel_right (h1'.symm.trans (by simpa using h1))
  subst hpp
  simp only [completeBfx, Bool.and_eq_true, beq_iff_eq] at h3
  have hall := List.length_filter_eq_length_iff.mp h3.1
  refine ⟨mid, h1, ?_⟩
  intro key ins hmem
  rw [hm] at hmem
  obtain ⟨e, he, hex⟩ := (mem_rekey map0 mid _).mp (mapAfter_subset_rekey hn mid _ hmem)
  have hs := hall e he
  obtain ⟨id, hid⟩ := Option.isSome_iff_exists.mp hs
  simp only [rk, rekeyEntry, hid] at hex
  cases hex
  exact ⟨e.1, id, he, hid, rfl⟩

/-- (B4c) Witness outside `distinctIds`: the venue announces channel id 10 for both subscriptions; the
validation succeeds, instrument 5 is gone from the returned map, and the map still has no `channel|market`
key and only confirmed ids (B4a, B4b). So the "exactly the confirmed ids with their instruments" half of
`bfx_map_is_rekeyed` does need `distinctIds`. -/
theorem bfx_shared_id_loses_instrument :
    let map0 : IMap := IMap.ofList [(.sub 0 0, 5), (.sub 0 1, 6)]
    let frames : List (Frame BfxEvent) :=
      [.resp (.subscribed 0 0 10), .other 1, .resp (.subscribed 0 1 10), .other 2]
    validateBfx map0 frames = .ok ([(.chan 10, 6)], [1, 2], []) ∧ distinctIds map0 frames = false := by
  decide

/-- (8''a) What "re-arming" means, for every history: the silence the timeout is compared with restarts at
every item that is not itself a silence (response, payload, ping/pong, ...), and a `wait` prolongs it. -/
theorem silence_restarts_at_every_item {R : Type} (pre : List (Frame R)) (f : Frame R) :
    silence (pre ++ [f]) = if isWait f then silence pre + waitMs f else 0 :=
  silence_snoc pre f

/-- (8''b) `pings_invisible` needs `NoWaits`: with silences in the input a ping is visible, it re-arms the
timer. Two 9 s silences with a ping in between validate; without the ping they time out. -/
theorem ping_rearms_timer :
    validateGeneric .kraken 1 [.wait 9000, .skip, .wait 9000, .resp (.kraken (.subscribed 1))] = .ok ([], []) ∧
    validateGeneric .kraken 1 [.wait 9000, .wait 9000, .resp (.kraken (.subscribed 1))] = .error .timeout := by
  decide

/-- (S) The generic validators hand the instrument map back unchanged; the map itself is `Map::from_iter`
of the subscriber's entries, under which a key carries the instrument of the LAST entry with that key. -/
theorem ofList_get_is_last_entry (es : List (Key × Nat)) (k : Key) :
    (IMap.ofList es).get k = lastEntry es k :=
  IMap.get_ofList es k

/-- ... stated on entries (the map has one entry per key: `ofList_wf`). -/
theorem ofList_mem_iff_last_entry (es : List (Key × Nat)) (k : Key) (v : Nat) :
    (k, v) ∈ IMap.ofList es ↔ lastEntry es k = some v := by
  rw [← IMap.get_ofList, IMap.get_eq_some_iff (IMap.ofList_keysNodup es)]

end Added

section Added2
variable {R : Type} (validate : R → Option RespErr) (T k : Nat)

/-- (10') `readings_agree_within_deadline` with the hypothesis where it belongs: only the CONSUMED part of the
input has to fit into the timeout. If the code validates successfully and what it consumed took less than `T`
in total, the one-deadline reading validates too, with the same buffer and the same unread input (the converse
is `deadline_ok_is_code_ok`, without hypothesis). -/
theorem code_ok_within_deadline_is_deadline_ok (pre rest : List (Frame R)) (b : List Nat)
    (h : run validate T k {} (pre ++ rest) = .ok (b, rest)) (hT : elapsed pre < T) :
    specDeadline validate T k (pre ++ rest) = .ok (b, rest) := by
  obtain ⟨pre', h1, h2, h3, h4⟩ := (ok_iff validate T k (pre ++ rest) b rest).mp h
  have hp : pre = pre' := List.append_cancel_right h1
  subst hp
  rw [specDeadline]
  refine (scanWith_ok_iff _ _ _).mpr ⟨pre, rest, rfl, ?_, by simpa using h3, by simp [h4]⟩
  rw [steps_take_iff]
  have hs := (proceeds_iff validate T k [] pre).mp h2
  intro i hi
  obtain ⟨hc, hf⟩ := hs i hi
  refine ⟨by simpa using hc, ?_⟩
  cases hfi : pre[i] with
  | wait d =>
    have hsplit : pre = pre.take i ++ pre[i] :: pre.drop (i + 1) := by
      rw [List.getElem_cons_drop, List.take_append_drop]
    have he : elapsed (pre.take i) + d ≤ elapsed pre := by
      have h2' : elapsed pre = elapsed (pre.take i) + (d + elapsed (pre.drop (i + 1))) := by
        conv => lhs; rw [hsplit]
        simp [elapsed, hfi, waitMs]
      omega
    simp only [fatal, List.nil_append]
    rw [if_neg (by omega)]
  | resp r =>
    rw [hfi] at hf
    simpa [fatal] using hf
  | close => rw [hfi] at hf; simp [fatal] at hf
  | transportErr => rw [hfi] at hf; simp [fatal] at hf
  | _ => simp [fatal]

end Added2

end BarterModel.Props.C13S
