import BarterModel.Lemmas.BinanceL2
import BarterModel.Lemmas.Review2_C06
import BarterModel.Lemmas.PartialDepth
import BarterModel.Lemmas.KernelsAgree.Sequencer
/-!
# C06 — Binance L2 streams never leave a silently wrong local book

Statements only (proofs by reference to `Lemmas/BinanceL2.lean`, `Lemmas/Book.lean`). The concrete
model (`Sequencer.validateSequence`, `Transformer.transform`, `terminate`, `Conn.step`, composed
with C05's `OrderBook.update`) is what `drv_c06 model` executes; the abstract side — the venue
(`Venue`, `bookAt`), genuine messages (`Genuine`), the published chaining rule (`Stale`,
`FirstRule`, `NextRule`, `Extends`, `Chain`) and the executable `SpecInstrument.step` / `specBook`
— is what `drv_c06 spec` executes. `r : Rules` ranges over both rule sets (spot, USD-futures) in
every theorem.

Quantifiers: sequencer theorems hold for *all* message lists whatsoever (arbitrary ids and
levels). Theorems that compare with the exchange's book assume what the property assumes — the
delivered messages are genuine messages of the venue (`IsGenuine`: for *some* id range, so any
drop / duplicate / swap / replay / early or late start of the venue's stream qualifies) and the
REST snapshot is the venue's book at its id (`GenuineSnapshot`). The venue itself is an arbitrary
list of changes (no hypothesis on ids is needed; `Venue.WF` only gives `bookAt` its reading as
"the book after the event with id x").
-/
namespace BarterModel.Props.C06
open BarterModel.Book BarterModel.BinanceL2

/-! ## 1. the sequencer: stale ⇒ silently dropped; otherwise extends the chain or terminal error -/

/-- **Trichotomy of `validate_sequence`** (every state, every message, both rule sets):
* stale (`u ≤ last` spot / `u < last` futures) ⇒ dropped, state unchanged;
* not stale and extending the chain (first: covers the snapshot id; later: follows the previous
  `u`) ⇒ admitted, `updates_processed + 1`, `last_update_id = u`;
* not stale and not extending ⇒ `InvalidSequence { prev_last_update_id: last, first_update_id: U }`,
  state unchanged.
The three guards are exclusive and exhaustive, so a message is *silently* dropped only if stale
and the state advances only on success. -/
theorem validate_sequence_trichotomy (r : Rules) (sq : Sequencer) (m : Update) :
    (Stale r sq.lastUpdateId m ∧ sq.validateSequence r m = (sq, .dropped)) ∨
    (¬ Stale r sq.lastUpdateId m ∧ Extends r (sq.updatesProcessed == 0) sq.lastUpdateId m ∧
      sq.validateSequence r m =
        ({ updatesProcessed := sq.updatesProcessed + 1, lastUpdateId := m.lastUpdateId,
           prevLastUpdateId := match r with
             | .spot => sq.lastUpdateId
             | .futures => sq.prevLastUpdateId }, .valid m)) ∨
    (¬ Stale r sq.lastUpdateId m ∧ ¬ Extends r (sq.updatesProcessed == 0) sq.lastUpdateId m ∧
      sq.validateSequence r m = (sq, .error (.invalidSequence sq.lastUpdateId m.firstUpdateId))) :=
  validate_cases r sq m

/-- the only error the sequencer produces is terminal (`DataError::is_terminal`), and being
terminal means being an `InvalidSequence` -/
theorem sequencer_error_terminal (r : Rules) (sq : Sequencer) (m : Update) (e : DataError)
    (h : (sq.validateSequence r m).2 = .error e) :
    e.isTerminal = true ∧ (sq.validateSequence r m).1 = sq := by
  rcases validate_cases r sq m with ⟨_, hv⟩ | ⟨_, _, hv⟩ | ⟨_, _, hv⟩ <;> rw [hv] at h ⊢ <;> simp at h
  subst h; exact ⟨rfl, rfl⟩

theorem terminal_iff (e : DataError) : e.isTerminal = true ↔ ∃ p f, e = .invalidSequence p f := by
  cases e <;> simp [DataError.isTerminal]

/-- the executable spec step (`drv_c06 spec`) and the model's `validate_sequence` give the same
verdict and the same ids, in every state -/
theorem spec_step_agrees (r : Rules) (sq : Sequencer) (m : Update) :
    let i : SpecInstrument := ⟨sq.updatesProcessed, sq.lastUpdateId⟩
    let res := sq.validateSequence r m
    ((i.step r m).2 = .ignored ↔ res.2 = .dropped) ∧
    ((i.step r m).2 = .extended ↔ res.2 = .valid m) ∧
    ((i.step r m).2 = .told ↔ ∃ e, res.2 = .error e) ∧
    (i.step r m).1.processed = res.1.updatesProcessed ∧ (i.step r m).1.last = res.1.lastUpdateId := by
  intro i res
  rcases validate_cases r sq m with ⟨hs, hv⟩ | ⟨hs, he, hv⟩ | ⟨hs, he, hv⟩
  · simp [i, res, hv, SpecInstrument.step, hs]
  · simp [i, res, hv, SpecInstrument.step, hs, he, Sequencer.advance]
  · simp [i, res, hv, SpecInstrument.step, hs, he]

/-- **admitted_chain** — for *any* delivery whatsoever after a snapshot at `s` (even continuing
past errors), the admitted updates form an unbroken chain under the venue's rule (spot: first
`U ≤ s+1 ≤ u`, then `U = previous u + 1`; futures: first `U ≤ s ≤ u`, then `pu = previous u`);
the sequencer has counted exactly them and reports the last admitted `u` (or `s`). -/
theorem admitted_chain (r : Rules) (s : Nat) (ms : List Update) :
    let res := Sequencer.run r (Sequencer.new s) ms
    Chain r s (admitted res.2) ∧
    res.1.updatesProcessed = (admitted res.2).length ∧
    res.1.lastUpdateId = ((admitted res.2).getLast?.map (·.lastUpdateId)).getD s := by
  intro res
  have h1 := chain_of_run r (Sequencer.new s) ms rfl
  have h2 := run_state r (Sequencer.new s) ms
  refine ⟨h1, ?_, h2.2⟩
  have := h2.1
  simp only [Sequencer.new, Nat.zero_add] at this
  exact this

/-- the same from any later state: what is admitted from then on is linked to the current id -/
theorem admitted_linked (r : Rules) (sq : Sequencer) (ms : List Update) (h : sq.updatesProcessed ≠ 0) :
    Linked r sq.lastUpdateId (admitted (Sequencer.run r sq ms).2) := linked_of_run r sq ms h

/-- no admitted update is stale with respect to the id the sequencer started from -/
theorem admitted_not_stale (r : Rules) (sq : Sequencer) (ms : List Update) :
    ∀ m ∈ admitted (Sequencer.run r sq ms).2, ¬ Stale r sq.lastUpdateId m :=
  admitted_mem_not_stale r sq ms

/-! ## 2. key lemma: a genuine message moves the exchange's book from any covered id to `hi` -/

/-- **key_lemma** — if the local book denotes the exchange's book as of `x`, and `m` is a genuine
message for `(lo, hi]` with `lo ≤ x ≤ hi`, then after `OrderBook::update` with the event built from
`m` the local book denotes the exchange's book as of `hi` and reports `hi`. (Overlap `lo < x` is
harmless: levels are absolute amounts.) -/
theorem key_lemma (r : Rules) (v : Venue) (lo x hi : Nat) (m : Update) (b : OrderBook)
    (h1 : lo ≤ x) (h2 : x ≤ hi) (hg : Genuine r v lo hi m) (hs : SortedBook b)
    (hb : abs b.bids = bookAt v x .bids) (ha : abs b.asks = bookAt v x .asks) :
    abs (b.update m.toEvent).bids = bookAt v hi .bids ∧
    abs (b.update m.toEvent).asks = bookAt v hi .asks ∧
    (b.update m.toEvent).sequence = hi := by
  obtain ⟨hids, hgb, hga⟩ := hg
  simp only [Update.toEvent, OrderBook.update, OrderBook.new]
  refine ⟨?_, ?_, hids.2.1⟩
  · rw [abs_upsert hs.bids, hb]
    exact key_side v lo x hi .bids _ h1 h2 (genuineSide_perm (sortLevels_perm .bids m.bids).symm hgb)
  · rw [abs_upsert hs.asks, ha]
    exact key_side v lo x hi .asks _ h1 h2 (genuineSide_perm (sortLevels_perm .asks m.asks).symm hga)

/-- the function-level core: any list of levels that states `bookAt hi` and covers the touched
prices, in any order and with repetitions -/
theorem key_lemma_side (v : Venue) (lo x hi : Nat) (side : Side) (levels : List Level)
    (h1 : lo ≤ x) (h2 : x ≤ hi) (hg : GenuineSide v lo hi side levels) :
    applyLevels (bookAt v x side) levels = bookAt v hi side := key_side v lo x hi side levels h1 h2 hg

/-- a price not touched in `(x, hi]` has the same amount at `x` and at `hi` -/
theorem untouched (v : Venue) (x hi : Nat) (side : Side) (p : Rat) (hx : x ≤ hi)
    (hn : ¬ Touched v x hi side p) : bookAt v hi side p = bookAt v x side p :=
  bookAt_untouched v x hi side p hx hn

/-- reading of `bookAt` for a well-formed venue (ids strictly increasing): the book as of the id of
an event `c` is the result of applying the venue's history up to and including `c`, in order -/
theorem bookAt_is_history_prefix (pre post : Venue) (c : Change) (side : Side)
    (h : Venue.WF (pre ++ c :: post)) :
    bookAt (pre ++ c :: post) c.id side =
      applyLevels (fun _ => 0)
        (((pre ++ [c]).filter fun d => decide (d.side = side)).map fun d => ⟨d.price, d.amount⟩) := by
  unfold bookAt; rw [changesUpTo_prefix pre post c side h]

/-! ## 3. the book is the exchange's book at the sequence it reports — or the consumer is told -/

/-- the initial local state: fresh sequencer at the snapshot id, the snapshot as book -/
def start (s : Nat) (b0 : OrderBook) : Local := ⟨Sequencer.new s, b0⟩

theorem start_synced (v : Venue) (s : Nat) (b0 : OrderBook) (hs : SortedBook b0)
    (hg : GenuineSnapshot v s b0) : Synced v (start s b0) :=
  ⟨hs, hg.1, by show abs b0.bids = bookAt v b0.sequence .bids; rw [hg.2.1, hg.1],
    by show abs b0.asks = bookAt v b0.sequence .asks; rw [hg.2.2, hg.1]⟩

/-- **book_is_truth** — for *every* delivery made of genuine messages of the venue (any
sub-multiset in any order: drops, duplicates, swaps, replays of old prefixes, early or late start;
the statement holds for every list, hence at every prefix), processed until the first error: the
local book is strictly ordered, reports the sequencer's last id, and denotes exactly the
exchange's book as of the sequence number it reports. If processing stopped early, the reason is a
*terminal* error (`told = some e`, `e.is_terminal()`), which ends the connection
(`with_termination_on_error`, theorem `stream_view` below) and forces re-initialisation. -/
theorem book_is_truth (r : Rules) (v : Venue) (s : Nat) (b0 : OrderBook) (ms : List Update)
    (hs : SortedBook b0) (h0 : GenuineSnapshot v s b0) (hg : ∀ m ∈ ms, IsGenuine r v m) :
    let res := Local.run r (start s b0) ms
    SortedBook res.1.book ∧
    res.1.book.sequence = res.1.sequencer.lastUpdateId ∧
    abs res.1.book.bids = bookAt v res.1.book.sequence .bids ∧
    abs res.1.book.asks = bookAt v res.1.book.sequence .asks ∧
    (∀ e, res.2 = some e → e.isTerminal = true) := by
  intro res
  have h := synced_run (r := r) (start_synced v s b0 hs h0) hg
  exact ⟨h.sorted, h.seq, h.bids, h.asks, fun e he => local_run_told he⟩

/-- … and with a snapshot free of zero amounts (C05's `WFBook`, what `OrderBook::new` yields for a
venue snapshot) the book is *literally* the book computed from the venue's history by the
executable specification (`specBook`, the value `drv_c06 spec` prints): same levels, same order,
same sequence. -/
theorem book_is_truth_exact (r : Rules) (v : Venue) (s : Nat) (b0 : OrderBook) (ms : List Update)
    (hw : WFBook b0) (h0 : GenuineSnapshot v s b0) (hg : ∀ m ∈ ms, IsGenuine r v m) :
    let res := Local.run r (start s b0) ms
    res.1.book = specBook v res.1.book.sequence := by
  intro res
  have h := synced_run (r := r) (start_synced v s b0 hw.toSortedBook h0) hg
  have hz := nonZero_run (r := r) (l := start s b0) (ms := ms) hw.bidsNonZero hw.asksNonZero
  exact synced_eq_specBook h hz.1 hz.2

/-- the invariant is inductive for single steps too (feeding on after an error changes nothing) -/
theorem book_is_truth_step (r : Rules) (v : Venue) (l : Local) (m : Update) (hl : Synced v l)
    (hg : IsGenuine r v m) : Synced v (l.step r m).1 := synced_step hl hg

/-- `IsGenuine` is decidable through the range the message's own ids claim (used by `drv_c06 spec`) -/
theorem isGenuine_iff (r : Rules) (v : Venue) (m : Update) (hU : 0 < m.firstUpdateId) :
    IsGenuine r v m ↔ GenuineMsg r v m := by
  constructor
  · rintro ⟨lo, hi, hids, hb, ha⟩
    obtain ⟨hlt, hu, hspot, hfut⟩ := hids
    have hlo : m.lo r = lo := by
      cases r
      · have := hspot rfl; simp [Update.lo]; omega
      · exact (hfut rfl).1
    unfold GenuineMsg
    rw [hlo, hu]
    exact ⟨⟨hlt, hu, hspot, hfut⟩, hb, ha⟩
  · intro h; exact ⟨_, _, h⟩

/-! ## 4. no false alarm -/

/-- **no_false_alarm** — a delivery consisting of any number of strictly older messages (stale
with respect to the snapshot id, in any order, genuine or not) followed by a gap-free in-order run
of genuine messages whose first one covers the snapshot point emits no error: every message of the
run is admitted, the sequencer ends at the last `u`, and the book is the exchange's book at that
id. -/
theorem no_false_alarm (r : Rules) (v : Venue) (s c0 : Nat) (b0 : OrderBook) (old run : List Update)
    (hs : SortedBook b0) (h0 : GenuineSnapshot v s b0)
    (hold : ∀ m ∈ old, Stale r s m) (hrun : GenuineRun r v c0 run) (hcov : Covers r v s c0 run) :
    let res := Local.run r (start s b0) (old ++ run)
    let last := (run.getLast?.map (·.lastUpdateId)).getD s
    res.2 = none ∧
    res.1.sequencer.updatesProcessed = run.length ∧
    res.1.sequencer.lastUpdateId = last ∧
    res.1.book.sequence = last ∧
    abs res.1.book.bids = bookAt v last .bids ∧ abs res.1.book.asks = bookAt v last .asks := by
  intro res last
  have hrun' : Local.run r (start s b0) (old ++ run) = (Local.admitAll r (start s b0) run, none) := by
    rw [run_stale_prefix old run (by simpa [start, Sequencer.new] using hold)]
    exact run_covering (l := start s b0) rfl (by simpa [start, Sequencer.new] using hcov) hrun
  have hst := admitAll_state r (start s b0) run
  -- the book: synced along the admitted run
  have hsync : Synced v (Local.run r (start s b0) run).1 :=
    synced_run (r := r) (start_synced v s b0 hs h0) (genuineRun_mem hrun)
  have hrun2 : Local.run r (start s b0) run = (Local.admitAll r (start s b0) run, none) :=
    run_covering (l := start s b0) rfl (by simpa [start, Sequencer.new] using hcov) hrun
  rw [hrun2] at hsync
  have hl : (Local.admitAll r (start s b0) run).sequencer.lastUpdateId = last := by
    simpa [start, Sequencer.new, last] using hst.2
  have hseq : (Local.admitAll r (start s b0) run).book.sequence = last := hsync.seq.trans hl
  rw [show res = _ from hrun']
  refine ⟨rfl, by simpa [start, Sequencer.new] using hst.1, hl, hseq, ?_, ?_⟩
  · rw [← hseq]; exact hsync.bids
  · rw [← hseq]; exact hsync.asks

/-! ## 5. several instruments on one connection -/

/-- **independent_instruments (a)** — a message of subscription `m.sub` never changes the
sequencer (or key) of another subscription -/
theorem other_sequencer_untouched (r : Rules) (t : Transformer) (m : Update) (b : Nat) (hb : b ≠ m.sub) :
    (t.transform r m).1.instrumentMap.lookup b = t.instrumentMap.lookup b := transform_other r t m b hb

/-- **(b)** — a message for a subscription id that is not in the map yields exactly one
non-terminal `Unidentifiable` error and changes nothing -/
theorem unknown_subscription (r : Rules) (t : Transformer) (m : Update)
    (h : t.instrumentMap.lookup m.sub = none) :
    t.transform r m = (t, [.error (.unidentifiable m.sub)]) ∧
    (DataError.unidentifiable m.sub).isTerminal = false := ⟨transform_unknown h, rfl⟩

/-- **(c)** — `transform` for a subscribed instrument is that instrument's sequencer: nothing /
one `Update` event for the instrument's key carrying `OrderBook::new(u, bids, asks)` / the error -/
theorem transform_is_sequencer (r : Rules) (t : Transformer) (m : Update) (im : Meta)
    (h : t.instrumentMap.lookup m.sub = some im) :
    (t.transform r m).1.instrumentMap.lookup m.sub =
      some { im with sequencer := (im.sequencer.validateSequence r m).1 } ∧
    (t.transform r m).2 =
      match (im.sequencer.validateSequence r m).2 with
      | .dropped => []
      | .valid u => [.event im.key u.toEvent]
      | .error e => [.error e] := by
  rcases transform_known (r := r) h with ⟨hs, hv⟩ | ⟨hs, he, hv⟩ | ⟨hs, he, hv⟩
  · rw [hv, validate_stale hs]; simp [lookup_setSequencer, h]
  · rw [hv, validate_extends hs he]; simp [lookup_setSequencer, h]
  · rw [hv, validate_breaks hs he]; simp [lookup_setSequencer, h]

/-- **(d)** — on the consumer's side an event for key `k` changes the book of `k` only -/
theorem other_book_untouched (books : Books) (k : Nat) (ev : Event) (k' : Nat) (hk : k' ≠ k) :
    (managerStep books (.item k ev)).lookup k' = books.lookup k' := by
  rw [lookup_managerStep]; simp [hk]

/-- a live connection dies exactly on a subscribed, non-stale, non-extending message -/
theorem told_iff (r : Rules) (c : Conn) (m : Update) (h : c.alive = true) :
    (c.step r m).alive = false ↔
      ∃ im, c.transformer.instrumentMap.lookup m.sub = some im ∧
        ¬ Stale r im.sequencer.lastUpdateId m ∧
        ¬ Extends r (im.sequencer.updatesProcessed == 0) im.sequencer.lastUpdateId m := by
  rcases conn_step_cases r c m h with ⟨hn, hv⟩ | ⟨im, hl, hcase⟩
  · rw [hv]; simp [h, hn]
  · rcases hcase with ⟨hs, hv⟩ | ⟨hs, he, hv⟩ | ⟨hs, he, hv⟩
    · rw [hv]; simp [hl, hs]
    · rw [hv]; simp [hl, hs, he]
    · rw [hv]; simp [hl, hs, he]

/-- **book_is_truth for the whole connection** — several instruments on one connection, messages
of all of them interleaved arbitrarily (each genuine for its own instrument's venue; messages for
unknown subscriptions are unrestricted): as long as the invariant holds at the start it holds after
any delivery — every subscribed instrument's book is the exchange's book of *that* instrument at
the sequence it reports, and equals its sequencer's last id. (After the connection died the books
are frozen in that state and the consumer has been told.) -/
theorem connection_book_is_truth (r : Rules) (venues : Nat → Venue) (c : Conn) (ms : List Update)
    (hc : ConnSynced venues c)
    (hg : ∀ m ∈ ms, (c.transformer.instrumentMap.lookup m.sub).isSome → IsGenuine r (venues m.sub) m) :
    ConnSynced venues (c.run r ms) := by
  induction ms generalizing c with
  | nil => exact hc
  | cons m ms ih =>
    simp only [Conn.run, List.foldl_cons]
    have hsub : ∀ a, ((c.step r m).transformer.instrumentMap.lookup a).isSome =
        (c.transformer.instrumentMap.lookup a).isSome := by
      intro a
      cases halive : c.alive with
      | false => rw [conn_step_dead m halive]
      | true =>
        rcases conn_step_cases r c m halive with ⟨_, hv⟩ | ⟨im, hl, hcase⟩
        · rw [hv]
        · rcases hcase with ⟨_, hv⟩ | ⟨_, _, hv⟩ | ⟨_, _, hv⟩ <;> rw [hv] <;>
            simp only [lookup_setSequencer] <;> split <;> simp_all
    refine ih _ (connSynced_step hc (fun im him => hg m (by simp) (by simp [him]))) ?_
    intro x hx hsome
    exact hg x (by simp [hx]) (by rw [← hsub]; exact hsome)

/-- a freshly initialised connection (distinct instrument keys, every
snapshot strictly ordered and genuine for its instrument's venue) satisfies the invariant -/
theorem connection_start (venues : Nat → Venue) (insts : List (Nat × Nat × OrderBook))
    (hkey : (insts.map (·.2.1)).Nodup)
    (h : ∀ x ∈ insts, SortedBook x.2.2 ∧ GenuineSnapshot (venues x.1) x.2.2.sequence x.2.2) :
    ConnSynced venues (Conn.start insts) := connSynced_start venues insts hkey h

/-- **stream_view** — the per-message view of the connection (`Conn.step`: stop reading at the
terminal error) is the whole output list of the transformer pushed through
`with_termination_on_error` (`terminate`, a `map_while`) and applied by the consumer. -/
theorem stream_view (r : Rules) (c : Conn) (ms : List Update) (h : c.alive = true) :
    (c.run r ms).books = consume c.books (terminate (Transformer.run r c.transformer ms).2) ∧
    (c.run r ms).alive = !terminated (Transformer.run r c.transformer ms).2 :=
  conn_run_eq_terminate r c ms h

/-- nothing after the first terminal error is delivered, everything before it is -/
theorem terminate_spec (a : List Out) (e : DataError) (b : List Out) (he : e.isTerminal = true)
    (ha : terminated a = false) : terminate (a ++ .error e :: b) = a := by
  rw [terminate_append, ha]
  simp only [cond_false, terminate, he, ↓reduceIte, List.append_nil]
  clear he
  induction a with
  | nil => rfl
  | cons x xs ih =>
    cases x with
    | event k ev => simp only [terminated] at ha; simp [terminate, ih ha]
    | error e' =>
      simp only [terminated, Bool.or_eq_false_iff] at ha
      simp [terminate, ha.1, ih ha.2]

/-! ## tie to the source by translation -/

/-- **Tie to the source by translation.** The ten sequencer functions the model's
`Sequencer.{new, isFirstUpdate, validateFirstUpdate, validateNextUpdate, validateSequence}` mirror
(`impl BinanceSpotOrderBookL2Sequencer` in `spot/l2.rs`, `impl BinanceFuturesUsdOrderBookL2Sequencer`
in `futures/l2.rs`) are not only hand-written: on every run `tools/rust2lean_sm.py` regenerates
`BarterModel.Generated.Machines.Binance*Sequencer.*` (state-passing functions, `u64 ↦ Nat`,
`Result ↦ Except`) from the current source, and for ALL states and updates the model's functions
are the generated ones read through the record bijections of `Lemmas/KernelsAgree/Sequencer.lean`
(`toSpot/ofSpot`; `toFut/ofFut` with the model's third field as a passenger; `spotIds/futIds` =
the `u64` fields of the update; `err` = `InvalidSequence{..}`). A change of one of these functions
in the source makes this theorem fail to build. -/
theorem kernels_agree_with_source :
    (∀ id, Sequencer.new id
        = KernelsAgree.Sequencer.ofSpot (Generated.Machines.BinanceSpotOrderBookL2Sequencer.new id))
    ∧ (∀ s : Sequencer, s.isFirstUpdate = (KernelsAgree.Sequencer.toSpot s).is_first_update)
    ∧ (∀ (s : Sequencer) (u : Update), s.validateFirstUpdate .spot u
        = KernelsAgree.Sequencer.check
            ((KernelsAgree.Sequencer.toSpot s).validate_first_update (KernelsAgree.Sequencer.spotIds u)))
    ∧ (∀ (s : Sequencer) (u : Update), s.validateNextUpdate .spot u
        = KernelsAgree.Sequencer.check
            ((KernelsAgree.Sequencer.toSpot s).validate_next_update (KernelsAgree.Sequencer.spotIds u)))
    ∧ (∀ (s : Sequencer) (u : Update), s.validateSequence .spot u
        = (KernelsAgree.Sequencer.ofSpot
              ((KernelsAgree.Sequencer.toSpot s).validate_sequence (KernelsAgree.Sequencer.spotIds u)).1,
            KernelsAgree.Sequencer.validated u
              ((KernelsAgree.Sequencer.toSpot s).validate_sequence (KernelsAgree.Sequencer.spotIds u)).2))
    ∧ (∀ id, Sequencer.new id
        = KernelsAgree.Sequencer.ofFut (Generated.Machines.BinanceFuturesUsdOrderBookL2Sequencer.new id) id)
    ∧ (∀ s : Sequencer, s.isFirstUpdate = (KernelsAgree.Sequencer.toFut s).is_first_update)
    ∧ (∀ (s : Sequencer) (u : Update), s.validateFirstUpdate .futures u
        = KernelsAgree.Sequencer.check
            ((KernelsAgree.Sequencer.toFut s).validate_first_update (KernelsAgree.Sequencer.futIds u)))
    ∧ (∀ (s : Sequencer) (u : Update), s.validateNextUpdate .futures u
        = KernelsAgree.Sequencer.check
            ((KernelsAgree.Sequencer.toFut s).validate_next_update (KernelsAgree.Sequencer.futIds u)))
    ∧ (∀ (s : Sequencer) (u : Update), s.validateSequence .futures u
        = (KernelsAgree.Sequencer.ofFut
              ((KernelsAgree.Sequencer.toFut s).validate_sequence (KernelsAgree.Sequencer.futIds u)).1
              s.prevLastUpdateId,
            KernelsAgree.Sequencer.validated u
              ((KernelsAgree.Sequencer.toFut s).validate_sequence (KernelsAgree.Sequencer.futIds u)).2)) :=
  KernelsAgree.Sequencer.sequencer_kernels_agree

/-- non-vacuity of the tie: the generated spot sequencer, started at snapshot id 1, admits `U=1,u=2`
and then refuses `U=4` with the two payload fields of `InvalidSequence`. -/
example :
    ((Generated.Machines.BinanceSpotOrderBookL2Sequencer.new 1).validate_sequence ⟨1, 2⟩)
      = (⟨1, 2, 1⟩, .ok (some ⟨1, 2⟩))
    ∧ (((Generated.Machines.BinanceSpotOrderBookL2Sequencer.new 1).validate_sequence ⟨1, 2⟩).1.validate_sequence
        ⟨4, 5⟩).2 = .error (.InvalidSequence 2 4) := ⟨rfl, rfl⟩

/-! ## non-vacuity: a concrete venue, snapshot and deliveries -/

/-- three changes: bid 100 ↦ 1 (id 1), ask 101 ↦ 2 (id 2), bid 100 deleted (id 3) -/
def exVenue : Venue := [⟨1, .bids, 100, 1⟩, ⟨2, .asks, 101, 2⟩, ⟨3, .bids, 100, 0⟩]

def exSnapshot : OrderBook := ⟨1, [⟨100, 1⟩], []⟩

/-- spot messages for `(0,2]` and `(2,3]`; futures for `(0,2]` (`U = 1`) and `(2,3]` -/
def exM1 : Update := ⟨0, 1, 2, 0, [⟨100, 1⟩], [⟨101, 2⟩]⟩
def exM2 : Update := ⟨0, 3, 3, 2, [⟨100, 0⟩], []⟩

example : Genuine .spot exVenue 0 2 exM1 := by decide
example : Genuine .spot exVenue 2 3 exM2 := by decide
example : Genuine .futures exVenue 0 2 exM1 := by decide
example : Genuine .futures exVenue 2 3 exM2 := by decide
example : GenuineRun .spot exVenue 0 [exM1, exM2] := ⟨by decide, by decide, trivial⟩
example : Covers .spot exVenue 1 0 [exM1, exM2] := ⟨by decide, by decide⟩
example : Covers .futures exVenue 1 0 [exM1, exM2] := ⟨by decide, by decide, ⟨1, .bids, 100, 1⟩, by decide, rfl⟩
example : Venue.WF exVenue := by unfold Venue.WF; decide
example : SortedBook exSnapshot := ⟨by decide, by decide⟩

example : GenuineSnapshot exVenue 1 exSnapshot := by
  refine ⟨rfl, ?_, ?_⟩ <;> funext p <;>
    simp [exSnapshot, exVenue, abs, bookAt, changesUpTo, applyLevels, setLevel] <;> grind

/-- two instruments (subscriptions 0 and 1, keys 10 and 11) on one connection -/
example : ConnSynced (fun _ => exVenue) (Conn.start [(0, 10, exSnapshot), (1, 11, exSnapshot)]) := by
  apply connection_start
  · decide
  · intro x hx
    have hsnap : GenuineSnapshot exVenue 1 exSnapshot := by
      refine ⟨rfl, ?_, ?_⟩ <;> funext p <;>
        simp [exSnapshot, exVenue, abs, bookAt, changesUpTo, applyLevels, setLevel] <;> grind
    simp only [List.mem_cons, List.not_mem_nil, or_false] at hx
    rcases hx with hx | hx <;> subst hx <;> exact ⟨⟨by decide, by decide⟩, hsnap⟩

/-- the in-order delivery is admitted entirely (both rule sets) … -/
example : (Local.run .spot (start 1 exSnapshot) [exM1, exM2]).2 = none := by decide
example : (Local.run .futures (start 1 exSnapshot) [exM1, exM2]).2 = none := by decide
example : (Local.run .spot (start 1 exSnapshot) [exM1, exM2]).1.book = ⟨3, [], [⟨101, 2⟩]⟩ := by decide +kernel
/-- … dropping the first message is reported as a terminal error (the hypotheses of the
trichotomy's third case are satisfiable) … -/
example : (Local.run .spot (start 1 exSnapshot) [exM2]).2 = some (.invalidSequence 1 3) := by decide
example : (Local.run .futures (start 1 exSnapshot) [exM2]).2 = some (.invalidSequence 1 3) := by decide
/-- … and a duplicate is silently dropped by the spot rule but reported by the futures rule -/
example : (Local.run .spot (start 1 exSnapshot) [exM1, exM1, exM2]).2 = none := by decide
example : (Local.run .futures (start 1 exSnapshot) [exM1, exM1, exM2]).2 = some (.invalidSequence 2 1) := by decide

/-! ## 6. additions after the independent review (`audit/REVIEW-notes.md`, section C06) -/

/-! ### review C06-4: stale messages need not be genuine -/

/-- **review C06-4, step form** (the reviewer's `synced_step'`). The coupling invariant of one
instrument survives a message under the hypothesis that the message is genuine *if the sequencer
does not drop it as stale*; a stale message (spot `u ≤ last`, futures `u < last`) may carry
anything. Strengthens `book_is_truth_step`, which asks genuineness unconditionally. -/
theorem book_is_truth_step' (r : Rules) (v : Venue) (l : Local) (m : Update) (hl : Synced v l)
    (hg : ¬ Stale r l.sequencer.lastUpdateId m → IsGenuine r v m) : Synced v (l.step r m).1 :=
  synced_step' hl hg

/-- **review C06-4, tightest form**: only a message that is actually *admitted* (not stale and
extending the chain from the current state) has to be genuine, for every delivery `ms` processed
until the first error from a snapshot at `s`. The hypothesis quantifies over the positions of the
delivery: `ms = pre ++ m :: post`, the messages before the position were processed without error,
and in the state reached then `m` is neither stale nor chain-breaking. Conclusion literally that
of `book_is_truth`. -/
theorem book_is_truth_admitted (r : Rules) (v : Venue) (s : Nat) (b0 : OrderBook) (ms : List Update)
    (hs : SortedBook b0) (h0 : GenuineSnapshot v s b0)
    (hg : ∀ pre m post, ms = pre ++ m :: post → (Local.run r (start s b0) pre).2 = none →
      ¬ Stale r (Local.run r (start s b0) pre).1.sequencer.lastUpdateId m →
      Extends r ((Local.run r (start s b0) pre).1.sequencer.updatesProcessed == 0)
        (Local.run r (start s b0) pre).1.sequencer.lastUpdateId m → IsGenuine r v m) :
    let res := Local.run r (start s b0) ms
    SortedBook res.1.book ∧
    res.1.book.sequence = res.1.sequencer.lastUpdateId ∧
    abs res.1.book.bids = bookAt v res.1.book.sequence .bids ∧
    abs res.1.book.asks = bookAt v res.1.book.sequence .asks ∧
    (∀ e, res.2 = some e → e.isTerminal = true) := by
  intro res
  have h := synced_run_admitted (r := r) (start_synced v s b0 hs h0) hg
  exact ⟨h.sorted, h.seq, h.bids, h.asks, fun e he => local_run_told he⟩

/-- **book_is_truth'** (review C06-4) — `book_is_truth` with the hypothesis weakened to: every
message of the delivery *that the sequencer does not drop as stale* is genuine. Stated per
position of the delivery (`ms = pre ++ m :: post`): if the messages before the position were
processed without error and `m` is not stale for the last id the sequencer holds then, `m` is a
genuine message of the venue. Messages that are dropped as stale — and every message after the
first error, which is never read — are unrestricted (any ids, any levels). Same conclusion as
`book_is_truth`: the book is strictly ordered, reports the sequencer's last id, denotes the
exchange's book as of that id, and an early stop is a terminal error.
`nonstale_genuine_of_all_genuine` shows `book_is_truth`'s hypothesis implies this one;
`stale_junk_witness` shows the converse fails. -/
theorem book_is_truth' (r : Rules) (v : Venue) (s : Nat) (b0 : OrderBook) (ms : List Update)
    (hs : SortedBook b0) (h0 : GenuineSnapshot v s b0)
    (hg : ∀ pre m post, ms = pre ++ m :: post → (Local.run r (start s b0) pre).2 = none →
      ¬ Stale r (Local.run r (start s b0) pre).1.sequencer.lastUpdateId m → IsGenuine r v m) :
    let res := Local.run r (start s b0) ms
    SortedBook res.1.book ∧
    res.1.book.sequence = res.1.sequencer.lastUpdateId ∧
    abs res.1.book.bids = bookAt v res.1.book.sequence .bids ∧
    abs res.1.book.asks = bookAt v res.1.book.sequence .asks ∧
    (∀ e, res.2 = some e → e.isTerminal = true) :=
  book_is_truth_admitted r v s b0 ms hs h0 (fun pre m post h1 h2 h3 _ => hg pre m post h1 h2 h3)

/-- **book_is_truth_exact'** (review C06-4) — `book_is_truth_exact` under the weakened hypothesis
of `book_is_truth'`: with a zero-free snapshot the book is literally `specBook` of the venue at
the sequence it reports. -/
theorem book_is_truth_exact' (r : Rules) (v : Venue) (s : Nat) (b0 : OrderBook) (ms : List Update)
    (hw : WFBook b0) (h0 : GenuineSnapshot v s b0)
    (hg : ∀ pre m post, ms = pre ++ m :: post → (Local.run r (start s b0) pre).2 = none →
      ¬ Stale r (Local.run r (start s b0) pre).1.sequencer.lastUpdateId m → IsGenuine r v m) :
    let res := Local.run r (start s b0) ms
    res.1.book = specBook v res.1.book.sequence := by
  intro res
  have h := synced_run' (r := r) (start_synced v s b0 hw.toSortedBook h0) hg
  have hz := nonZero_run (r := r) (l := start s b0) (ms := ms) hw.bidsNonZero hw.asksNonZero
  exact synced_eq_specBook h hz.1 hz.2

/-- (review C06-4) the hypothesis of `book_is_truth` (every message genuine) implies the
hypothesis of `book_is_truth'` (every non-stale message genuine), from any local state: the
primed theorems are generalisations, not variants. -/
theorem nonstale_genuine_of_all_genuine (r : Rules) (v : Venue) (l : Local) (ms : List Update)
    (hg : ∀ m ∈ ms, IsGenuine r v m) :
    ∀ pre m post, ms = pre ++ m :: post → (Local.run r l pre).2 = none →
      ¬ Stale r (Local.run r l pre).1.sequencer.lastUpdateId m → IsGenuine r v m :=
  fun pre m post h _ _ => hg m (by rw [h]; simp)

/-- `book_is_truth` re-derived from `book_is_truth'` -/
example (r : Rules) (v : Venue) (s : Nat) (b0 : OrderBook) (ms : List Update)
    (hs : SortedBook b0) (h0 : GenuineSnapshot v s b0) (hg : ∀ m ∈ ms, IsGenuine r v m) :
    let res := Local.run r (start s b0) ms
    SortedBook res.1.book ∧ res.1.book.sequence = res.1.sequencer.lastUpdateId ∧
    abs res.1.book.bids = bookAt v res.1.book.sequence .bids ∧
    abs res.1.book.asks = bookAt v res.1.book.sequence .asks ∧
    (∀ e, res.2 = some e → e.isTerminal = true) :=
  book_is_truth' r v s b0 ms hs h0 (nonstale_genuine_of_all_genuine r v _ ms hg)

/-- a message that is no message of `exVenue` for any id range: it claims the bid `100 ↦ 5` as of
id 1 where the venue has `100 ↦ 1`; with `u = 1` it is stale for a snapshot at id 1 under the spot
rule (`u ≤ last`) -/
def exJunk : Update := ⟨0, 1, 1, 0, [⟨100, 5⟩], []⟩

/-- **stale_junk_witness** (review C06-4) — the weakening is real: the delivery
`[exJunk, exM1, exM2]` after the snapshot at id 1 contains a message that is not genuine for any
id range (so `book_is_truth` does not apply), yet it satisfies the hypothesis of `book_is_truth'`
(spot rule: the junk is dropped as stale), is processed without error, and leaves the exchange's
book as of id 3. -/
theorem stale_junk_witness :
    ¬ IsGenuine .spot exVenue exJunk ∧
    (∀ pre m post, [exJunk, exM1, exM2] = pre ++ m :: post →
      (Local.run .spot (start 1 exSnapshot) pre).2 = none →
      ¬ Stale .spot (Local.run .spot (start 1 exSnapshot) pre).1.sequencer.lastUpdateId m →
      IsGenuine .spot exVenue m) ∧
    (Local.run .spot (start 1 exSnapshot) [exJunk, exM1, exM2]).2 = none ∧
    (Local.run .spot (start 1 exSnapshot) [exJunk, exM1, exM2]).1.book = ⟨3, [], [⟨101, 2⟩]⟩ := by
  refine ⟨?_, ?_, by decide, by decide +kernel⟩
  · rintro ⟨lo, hi, hids, hb, _⟩
    have hu : (1 : Nat) = hi := hids.2.1
    subst hu
    exact absurd (hb.1 ⟨100, 5⟩ (by simp [exJunk])) (by decide)
  · intro pre m post hsplit _ hns
    have g1 : IsGenuine .spot exVenue exM1 := ⟨0, 2, by decide⟩
    have g2 : IsGenuine .spot exVenue exM2 := ⟨2, 3, by decide⟩
    match pre, hsplit with
    | [], h =>
      simp only [List.nil_append, List.cons.injEq] at h
      rw [← h.1] at hns
      exact absurd (by decide) hns
    | [_], h =>
      simp only [List.cons_append, List.nil_append, List.cons.injEq] at h
      rw [← h.2.1]; exact g1
    | [_, _], h =>
      simp only [List.cons_append, List.nil_append, List.cons.injEq] at h
      rw [← h.2.2.1]; exact g2
    | _ :: _ :: _ :: pre', h =>
      simp at h

/-- **connection_book_is_truth'** (review C06-4, connection level) — `connection_book_is_truth`
with genuineness demanded only of messages that are not dropped as stale: at every position of the
interleaved delivery (`ms = pre ++ m :: post`), if the message's subscription is in the map as it
stands after `pre` and the message is not stale for that instrument's sequencer, it is a genuine
message of that instrument's venue. Stale messages, messages for unknown subscriptions and
whatever arrives after the connection died are unrestricted. -/
theorem connection_book_is_truth' (r : Rules) (venues : Nat → Venue) (c : Conn) (ms : List Update)
    (hc : ConnSynced venues c)
    (hg : ∀ pre m post, ms = pre ++ m :: post →
      ∀ im, (c.run r pre).transformer.instrumentMap.lookup m.sub = some im →
      ¬ Stale r im.sequencer.lastUpdateId m → IsGenuine r (venues m.sub) m) :
    ConnSynced venues (c.run r ms) := connSynced_run' hc hg

/-! ### review C06-2 (and C06-3): several instruments interleaved on one connection -/

/-- **connection_instrument_is_sequencer_run** (review C06-2 / C06-3) — the projection that ties
the connection to the single-instrument theorems: after *any* interleaved delivery `ms`, the map
entry of a subscribed instrument `a` still has its key, and its sequencer is exactly
`Sequencer.run` fed with `a`'s own messages (`ms.filter (·.sub == a)`, in their order) from `a`'s
initial sequencer. So `admitted_chain` / `admitted_linked` / `admitted_not_stale`, stated for
`Sequencer.run`, are statements about every instrument's sequencer inside the transformer. No
hypothesis on the messages. -/
theorem connection_instrument_is_sequencer_run (r : Rules) (t : Transformer) (ms : List Update)
    (a : Nat) (im : Meta) (h : t.instrumentMap.lookup a = some im) :
    (Transformer.run r t ms).1.instrumentMap.lookup a =
      some { im with sequencer :=
        (Sequencer.run r im.sequencer (ms.filter (fun x => x.sub == a))).1 } :=
  transformer_run_lookup h

/-- **connection_errors_are_instrument_errors** (review C06-2) — if no subscribed instrument's own
sub-sequence makes *its* sequencer (run alone) report an error, then the only errors in the
output of the whole interleaved delivery are the non-terminal `Unidentifiable` answers to
messages whose subscription id is not in the map; in particular the output is not terminated. -/
theorem connection_errors_are_instrument_errors (r : Rules) (t : Transformer) (ms : List Update)
    (h : ∀ a im, t.instrumentMap.lookup a = some im →
      ∀ e, Validated.error e ∉ (Sequencer.run r im.sequencer (ms.filter (fun x => x.sub == a))).2) :
    (∀ e, Out.error e ∈ (Transformer.run r t ms).2 →
      ∃ m ∈ ms, t.instrumentMap.lookup m.sub = none ∧ e = .unidentifiable m.sub) ∧
    terminated (Transformer.run r t ms).2 = false := by
  have herr := transformer_run_errors h
  refine ⟨herr, ?_⟩
  cases ht : terminated (Transformer.run r t ms).2 with
  | false => rfl
  | true =>
    obtain ⟨e, he, hterm⟩ := terminated_has_terminal ht
    obtain ⟨m, _, _, rfl⟩ := herr e he
    simp [DataError.isTerminal] at hterm

/-- **no_false_alarm_conn** (review C06-2) — `no_false_alarm` for SEVERAL instruments whose
messages are interleaved arbitrarily on one live connection. Hypothesis, per subscribed instrument
`a` (map entry `im`): its sequencer is fresh (`updates_processed = 0`, standing at the snapshot
id `im.sequencer.lastUpdateId`), and `a`'s own sub-sequence of the connection history
(`ms.filter (·.sub == a)`) is `old a ++ run a`: any number of messages stale with respect to the
snapshot id (genuine or not) followed by a gap-free in-order run of genuine messages of `a`'s
venue whose first one covers the snapshot point — exactly the hypothesis of `no_false_alarm`, for
each instrument separately; how the instruments' messages are interleaved, and messages for
subscription ids that are not in the map, are unrestricted. Conclusion: the connection is alive
after the whole history (hence, `conn_stays_alive_prefix`, after every prefix: it is never told
to terminate); the output of the transformer contains no terminal error, and the only errors in it
are the non-terminal `Unidentifiable` answers to messages for unknown subscription ids (none at
all if every message is for a subscribed instrument, `no_false_alarm_conn_no_error`); every
instrument's sequencer has counted exactly its run and stands at the run's last `u`. -/
theorem no_false_alarm_conn (r : Rules) (venues : Nat → Venue) (c : Conn) (ms : List Update)
    (old run : Nat → List Update) (c0 : Nat → Nat) (halive : c.alive = true)
    (hinst : ∀ a im, c.transformer.instrumentMap.lookup a = some im →
      im.sequencer.updatesProcessed = 0 ∧
      ms.filter (fun m => m.sub == a) = old a ++ run a ∧
      (∀ m ∈ old a, Stale r im.sequencer.lastUpdateId m) ∧
      GenuineRun r (venues a) (c0 a) (run a) ∧
      Covers r (venues a) im.sequencer.lastUpdateId (c0 a) (run a)) :
    (c.run r ms).alive = true ∧
    terminated (Transformer.run r c.transformer ms).2 = false ∧
    (∀ e, Out.error e ∈ (Transformer.run r c.transformer ms).2 →
      ∃ m ∈ ms, c.transformer.instrumentMap.lookup m.sub = none ∧ e = .unidentifiable m.sub) ∧
    (∀ a im, c.transformer.instrumentMap.lookup a = some im →
      ∃ im', (c.run r ms).transformer.instrumentMap.lookup a = some im' ∧ im'.key = im.key ∧
        im'.sequencer.updatesProcessed = (run a).length ∧
        im'.sequencer.lastUpdateId =
          (((run a).getLast?.map (·.lastUpdateId)).getD im.sequencer.lastUpdateId)) := by
  have hno : ∀ a im, c.transformer.instrumentMap.lookup a = some im →
      ∀ e, Validated.error e ∉
        (Sequencer.run r im.sequencer (ms.filter (fun x => x.sub == a))).2 := by
    intro a im hl
    obtain ⟨hup, hsplit, hold, hrun, hcov⟩ := hinst a im hl
    rw [hsplit]; exact (seq_run_no_false_alarm hup hold hrun hcov).1
  obtain ⟨herr, hterm⟩ := connection_errors_are_instrument_errors r c.transformer ms hno
  have halive' : (c.run r ms).alive = true := by rw [(stream_view r c ms halive).2, hterm]; rfl
  refine ⟨halive', hterm, herr, ?_⟩
  intro a im hl
  obtain ⟨hup, hsplit, hold, hrun, hcov⟩ := hinst a im hl
  have hfin := seq_run_no_false_alarm hup hold hrun hcov
  rw [conn_run_transformer halive', transformer_run_lookup hl, hsplit]
  exact ⟨_, rfl, rfl, hfin.2.1, hfin.2.2⟩

/-- (review C06-2) "never told": a connection that is alive after a history was alive after every
prefix of it — so under the hypotheses of `no_false_alarm_conn` no message of the history is
answered with the terminal error. -/
theorem conn_stays_alive_prefix (r : Rules) (c : Conn) (pre rest : List Update)
    (h : (c.run r (pre ++ rest)).alive = true) : (c.run r pre).alive = true :=
  conn_run_alive_prefix h

/-- (review C06-2) under the hypotheses of `no_false_alarm_conn`, if moreover every message of the
history is for a subscribed instrument, the transformer's output contains no error at all: every
output is a book update event. -/
theorem no_false_alarm_conn_no_error (r : Rules) (venues : Nat → Venue) (c : Conn) (ms : List Update)
    (old run : Nat → List Update) (c0 : Nat → Nat) (halive : c.alive = true)
    (hinst : ∀ a im, c.transformer.instrumentMap.lookup a = some im →
      im.sequencer.updatesProcessed = 0 ∧
      ms.filter (fun m => m.sub == a) = old a ++ run a ∧
      (∀ m ∈ old a, Stale r im.sequencer.lastUpdateId m) ∧
      GenuineRun r (venues a) (c0 a) (run a) ∧
      Covers r (venues a) im.sequencer.lastUpdateId (c0 a) (run a))
    (hknown : ∀ m ∈ ms, (c.transformer.instrumentMap.lookup m.sub).isSome) :
    ∀ e, Out.error e ∉ (Transformer.run r c.transformer ms).2 := by
  intro e he
  obtain ⟨m, hm, hnone, _⟩ := (no_false_alarm_conn r venues c ms old run c0 halive hinst).2.2.1 e he
  have := hknown m hm
  rw [hnone] at this; simp at this

/-- **no_false_alarm_conn_books** (review C06-2) — … and the books: if the connection moreover
satisfies the coupling invariant at the start (`ConnSynced`; `connection_start` gives it for a
freshly initialised connection with genuine snapshots), then after the interleaved history every
subscribed instrument's book in the consumer's map reports the last `u` of that instrument's run
(or its snapshot id if the run is empty) and denotes the exchange's book of *that* instrument as of
that id. The stale messages `old a` need not be genuine. -/
theorem no_false_alarm_conn_books (r : Rules) (venues : Nat → Venue) (c : Conn) (ms : List Update)
    (old run : Nat → List Update) (c0 : Nat → Nat) (halive : c.alive = true)
    (hc : ConnSynced venues c)
    (hinst : ∀ a im, c.transformer.instrumentMap.lookup a = some im →
      im.sequencer.updatesProcessed = 0 ∧
      ms.filter (fun m => m.sub == a) = old a ++ run a ∧
      (∀ m ∈ old a, Stale r im.sequencer.lastUpdateId m) ∧
      GenuineRun r (venues a) (c0 a) (run a) ∧
      Covers r (venues a) im.sequencer.lastUpdateId (c0 a) (run a)) :
    ConnSynced venues (c.run r ms) ∧
    ∀ a im, c.transformer.instrumentMap.lookup a = some im →
      let last := (((run a).getLast?.map (·.lastUpdateId)).getD im.sequencer.lastUpdateId)
      ∃ b, (c.run r ms).books.lookup im.key = some b ∧ SortedBook b ∧ b.sequence = last ∧
        abs b.bids = bookAt (venues a) last .bids ∧ abs b.asks = bookAt (venues a) last .asks := by
  obtain ⟨halive', _, _, hfin⟩ := no_false_alarm_conn r venues c ms old run c0 halive hinst
  have hsync : ConnSynced venues (c.run r ms) := by
    apply connSynced_run' hc
    intro pre m post hsplit im' hl' hns
    have hpre : (c.run r pre).alive = true := conn_run_alive_prefix (by rw [← hsplit]; exact halive')
    rw [conn_run_transformer hpre] at hl'
    cases h0 : c.transformer.instrumentMap.lookup m.sub with
    | none => rw [transformer_run_lookup_none h0] at hl'; simp at hl'
    | some im0 =>
      rw [transformer_run_lookup h0] at hl'
      simp only [Option.some.injEq] at hl'
      subst hl'
      obtain ⟨_, hfil, hold, hrun, _⟩ := hinst m.sub im0 h0
      have hmem : m ∈ old m.sub ++ run m.sub := by
        rw [← hfil, List.mem_filter]; exact ⟨by rw [hsplit]; simp, by simp⟩
      rcases List.mem_append.mp hmem with hm | hm
      · exact absurd (stale_mono (seq_run_last_mono r im0.sequencer _) (hold m hm)) hns
      · exact genuineRun_mem hrun m hm
  refine ⟨hsync, ?_⟩
  intro a im hl last
  obtain ⟨im', hl', hkey, _, hlast⟩ := hfin a im hl
  obtain ⟨b, hb, hs⟩ := hsync.synced a im' hl'
  have hseq : b.sequence = last := hs.seq.trans hlast
  refine ⟨b, by rw [← hkey]; exact hb, hs.sorted, hseq, ?_, ?_⟩
  · rw [← hseq]; exact hs.bids
  · rw [← hseq]; exact hs.asks

/-! ### review C06-1: the futures first-update rule and a snapshot exactly at a message boundary -/

/-- a REST snapshot of `exVenue` taken exactly at the boundary id 2 (after `exM1`'s range `(0,2]`,
before `exM2`'s range `(2,3]`) -/
def exSnapshotBoundary : OrderBook := ⟨2, [⟨100, 1⟩], [⟨101, 2⟩]⟩

/-- **futures_boundary_snapshot_witness** (review C06-1) — kernel-checked on concrete numbers.
Snapshot of `exVenue` taken EXACTLY at a message boundary (`lastUpdateId = s = 2`, a genuine
snapshot), followed by the gap-free continuation `[exM2]` (`U = 3 = s+1`, `pu = 2 = s`, `u = 3`;
a `GenuineRun` from cut 2 under both rule sets — nothing is missing between the snapshot and the
message):
* the SPOT rules accept it (`validate_first_update`: `U ≤ s+1 ≤ u`, `spot/l2.rs:242-255`): no error;
* the FUTURES rules REJECT it with the terminal `InvalidSequence { prev_last_update_id: 2,
  first_update_id: 3 }`: the futures `validate_first_update`
  (`/repo/barter-data/src/exchange/binance/futures/l2.rs:248-262`, guard at lines 252-253
  `update.first_update_id <= self.last_update_id && update.last_update_id >= self.last_update_id`)
  demands `U ≤ lastUpdateId ≤ u`, i.e. the snapshot id strictly *inside* the first processed
  message (`U = 3 ≤ 2` fails). This is Binance's PUBLISHED rule for USD-M futures ("How to manage a
  local order book correctly", step 5: "The first processed event should have U <= lastUpdateId
  AND u >= lastUpdateId", quoted in the doc comments at `futures/l2.rs:235-247`), which the code
  implements literally — the model mirrors it, it is not a modelling artefact;
* this is exactly the point `Covers .futures` excludes (`c0 < s`: the first message's range must
  start strictly before the snapshot id), and is why `no_false_alarm` (and `no_false_alarm_conn`)
  for the futures rule set carries the hypothesis `Covers .futures`; `Covers .spot` holds here;
* preceded by the previous message `exM1` (range `(0,2]`, `u = s`: not stale under the futures
  rule `u < last`, and covering the snapshot id) the same continuation is accepted by futures. -/
theorem futures_boundary_snapshot_witness :
    GenuineSnapshot exVenue 2 exSnapshotBoundary ∧ SortedBook exSnapshotBoundary ∧
    GenuineRun .spot exVenue 2 [exM2] ∧ GenuineRun .futures exVenue 2 [exM2] ∧
    exM2.firstUpdateId = 2 + 1 ∧ exM2.prevLastUpdateId = 2 ∧
    -- the two `validate_first_update`s on a fresh sequencer at the snapshot id
    (Sequencer.new 2).validateFirstUpdate .spot exM2 = .ok () ∧
    (Sequencer.new 2).validateFirstUpdate .futures exM2 = .error (.invalidSequence 2 3) ∧
    -- whole local pipeline: spot admits and reaches the venue's book at 3, futures tells the consumer
    (Local.run .spot (start 2 exSnapshotBoundary) [exM2]).2 = none ∧
    (Local.run .spot (start 2 exSnapshotBoundary) [exM2]).1.book = ⟨3, [], [⟨101, 2⟩]⟩ ∧
    (Local.run .futures (start 2 exSnapshotBoundary) [exM2]).2 = some (.invalidSequence 2 3) ∧
    (DataError.invalidSequence 2 3).isTerminal = true ∧
    -- the hypothesis of `no_false_alarm` that excludes it
    Covers .spot exVenue 2 2 [exM2] ∧ ¬ Covers .futures exVenue 2 2 [exM2] ∧
    -- with the message containing the snapshot id in front, futures accepts
    Covers .futures exVenue 2 0 [exM1, exM2] ∧
    (Local.run .futures (start 2 exSnapshotBoundary) [exM1, exM2]).2 = none := by
  refine ⟨?_, ⟨by decide, by decide⟩, ⟨by decide, trivial⟩, ⟨by decide, trivial⟩, rfl, rfl,
    rfl, rfl, by decide, by decide +kernel, by decide, rfl, ⟨by decide, by decide⟩,
    fun h => absurd h.1 (by decide), ⟨by decide, by decide, ⟨2, .asks, 101, 2⟩, by decide, rfl⟩,
    by decide⟩
  refine ⟨rfl, ?_, ?_⟩ <;> funext p <;>
    simp [exSnapshotBoundary, exVenue, abs, bookAt, changesUpTo, applyLevels, setLevel] <;> grind

/-! ### non-vacuity of `no_false_alarm_conn`: two instruments interleaved -/

/-- the two messages of `exVenue` again, for subscription 1 -/
def exM1' : Update := { exM1 with sub := 1 }
def exM2' : Update := { exM2 with sub := 1 }

/-- two instruments (subscriptions 0 and 1, both with venue `exVenue` and the snapshot at id 1) on a
fresh connection; their messages interleaved `0,1,1,0`, one stale non-genuine message (`exJunk`,
subscription 0) in front: all hypotheses of `no_false_alarm_conn` hold (spot rule) … -/
example :
    let c := Conn.start [(0, 10, exSnapshot), (1, 11, exSnapshot)]
    let ms := [exJunk, exM1, exM1', exM2', exM2]
    let old : Nat → List Update := fun a => if a = 0 then [exJunk] else []
    let run : Nat → List Update := fun a => if a = 0 then [exM1, exM2] else [exM1', exM2']
    ∀ a im, c.transformer.instrumentMap.lookup a = some im →
      im.sequencer.updatesProcessed = 0 ∧
      ms.filter (fun m => m.sub == a) = old a ++ run a ∧
      (∀ m ∈ old a, Stale .spot im.sequencer.lastUpdateId m) ∧
      GenuineRun .spot exVenue 0 (run a) ∧
      Covers .spot exVenue im.sequencer.lastUpdateId 0 (run a) := by
  intro c ms old run a im h
  match a, h with
  | 0, h =>
    simp [c, Conn.start] at h; subst h
    exact ⟨rfl, by decide, by decide, ⟨by decide, by decide, trivial⟩, ⟨by decide, by decide⟩⟩
  | 1, h =>
    simp [c, Conn.start, List.lookup] at h; subst h
    exact ⟨rfl, by decide, by decide, ⟨by decide, by decide, trivial⟩, ⟨by decide, by decide⟩⟩
  | n + 2, h => simp [c, Conn.start, List.lookup] at h

/-- … and the conclusion, computed: alive, no error output, both books at the venue's book as of 3 -/
example :
    ((Conn.start [(0, 10, exSnapshot), (1, 11, exSnapshot)]).run .spot
      [exJunk, exM1, exM1', exM2', exM2]).alive = true := by decide
example :
    ((Conn.start [(0, 10, exSnapshot), (1, 11, exSnapshot)]).run .spot
      [exJunk, exM1, exM1', exM2', exM2]).books =
      [(10, ⟨3, [], [⟨101, 2⟩]⟩), (11, ⟨3, [], [⟨101, 2⟩]⟩)] := by decide +kernel
/-- dropping instrument 1's first message kills the whole connection (the hypothesis is needed) -/
example :
    ((Conn.start [(0, 10, exSnapshot), (1, 11, exSnapshot)]).run .spot
      [exM1, exM2', exM2]).alive = false := by decide
/-- the same two instruments under the FUTURES rule (snapshot id 1 strictly inside `exM1`'s range
`(0,2]`, so `Covers .futures` holds): hypotheses satisfiable, connection alive -/
example :
    let c := Conn.start [(0, 10, exSnapshot), (1, 11, exSnapshot)]
    let ms := [exM1, exM1', exM2', exM2]
    let run : Nat → List Update := fun a => if a = 0 then [exM1, exM2] else [exM1', exM2']
    ∀ a im, c.transformer.instrumentMap.lookup a = some im →
      im.sequencer.updatesProcessed = 0 ∧
      ms.filter (fun m => m.sub == a) = [] ++ run a ∧
      (∀ m ∈ ([] : List Update), Stale .futures im.sequencer.lastUpdateId m) ∧
      GenuineRun .futures exVenue 0 (run a) ∧
      Covers .futures exVenue im.sequencer.lastUpdateId 0 (run a) := by
  intro c ms run a im h
  match a, h with
  | 0, h =>
    simp [c, Conn.start] at h; subst h
    exact ⟨rfl, by decide, by simp, ⟨by decide, by decide, trivial⟩,
      ⟨by decide, by decide, ⟨1, .bids, 100, 1⟩, by decide, rfl⟩⟩
  | 1, h =>
    simp [c, Conn.start, List.lookup] at h; subst h
    exact ⟨rfl, by decide, by simp, ⟨by decide, by decide, trivial⟩,
      ⟨by decide, by decide, ⟨1, .bids, 100, 1⟩, by decide, rfl⟩⟩
  | n + 2, h => simp [c, Conn.start, List.lookup] at h
example :
    ((Conn.start [(0, 10, exSnapshot), (1, 11, exSnapshot)]).run .futures
      [exM1, exM1', exM2', exM2]).alive = true := by decide


/-! ## 7. additions after the review of the sub-check theorems (`audit/sub/report_A.md` #1):
REST snapshots of LIMITED depth

`GenuineSnapshot` (hypothesis of `book_is_truth`, `no_false_alarm`, `connection_start`, …) says the
snapshot is the venue's FULL book. The code's own fetchers request `…&limit=100`
(`/repo/barter-data/src/exchange/binance/spot/l2.rs:54`, `futures/l2.rs:57`), so in the real wiring
the hypothesis is false for every instrument whose book is deeper than 100 levels on a side. What such
a snapshot satisfies is `GenuineSnapshotOn v s b P`: equality with the venue's book ON the prices `P`
it covers (`truncated_snapshot_genuine_on`: for the best-`n`-levels cut these are all prices of a side
holding fewer than `n` levels, otherwise the prices at least as good as the side's worst level). The
theorems of this section are the partial-depth forms; the full-depth theorems above are their
instances at `P = everything` (`genuineSnapshot_is_on_everything`, `book_is_truth_is_the_full_depth_case`). -/

/-- the full-depth hypothesis is the partial-depth one at `P = everything` -/
theorem genuineSnapshot_is_on_everything (v : Venue) (s : Nat) (b : OrderBook) :
    GenuineSnapshot v s b ↔ GenuineSnapshotOn v s b (fun _ _ => True) :=
  genuineSnapshot_iff_on_all v s b

/-- **what a depth-limited REST snapshot covers.** The venue's book as of `s` cut to the best `n`
levels of each side (`truncateBook n (specBook v s)`, what `GET …/depth?…&limit=n` returns) agrees with
the venue's book as of `s` at every price `coveredBy n` accepts: every price of a side on which the
snapshot holds fewer than `n` levels (the side is then complete), and otherwise every price that is not
strictly worse than the snapshot's worst level of that side (a price in that range which the snapshot
does not list is empty at the venue). `coveredBy` is the executable test the spec drivers use. -/
theorem truncated_snapshot_genuine_on (v : Venue) (s n : Nat) :
    GenuineSnapshotOn v s (truncateBook n (specBook v s))
      (fun sd p => coveredBy n sd (sideOf (truncateBook n (specBook v s)) sd) p = true) :=
  truncated_genuine_on v s n

/-- **book_is_truth_on** — `book_is_truth` for a snapshot that is right on the prices `P` only
(both rule sets; hypothesis on the delivery as in `book_is_truth_admitted`: only a message that is
ADMITTED has to be genuine). For every delivery processed until the first error: the local book is
strictly ordered, reports the sequencer's last id, and **at every price that the snapshot covers (`P`),
or that an admitted update has written since (`Local.admittedBy`, `Update.Writes`), or that the venue
changed since the snapshot id (`Touched v s sequence`), the local book holds exactly the amount of the
exchange's book as of the sequence number it reports** (0 = no level); an early stop is a terminal
error. Nothing is claimed at a price outside the three sets — and nothing can be:
`truncated_snapshot_witness`. -/
theorem book_is_truth_on (r : Rules) (v : Venue) (s : Nat) (b0 : OrderBook) (ms : List Update)
    (P : Side → Rat → Prop) (hs : SortedBook b0) (h0 : GenuineSnapshotOn v s b0 P)
    (hg : ∀ pre m post, ms = pre ++ m :: post → (Local.run r (start s b0) pre).2 = none →
      ¬ Stale r (Local.run r (start s b0) pre).1.sequencer.lastUpdateId m →
      Extends r ((Local.run r (start s b0) pre).1.sequencer.updatesProcessed == 0)
        (Local.run r (start s b0) pre).1.sequencer.lastUpdateId m → IsGenuine r v m) :
    let res := Local.run r (start s b0) ms
    SortedBook res.1.book ∧
    res.1.book.sequence = res.1.sequencer.lastUpdateId ∧
    (∀ sd p, (P sd p ∨ (∃ u ∈ Local.admittedBy r (start s b0) ms, u.Writes sd p) ∨
        Touched v s res.1.book.sequence sd p) →
      abs (sideOf res.1.book sd) p = bookAt v res.1.book.sequence sd p) ∧
    (∀ e, res.2 = some e → e.isTerminal = true) := by
  intro res
  have h := syncedOn_run_admitted (r := r) (start_syncedOn v s b0 P hs h0) hg
  refine ⟨h.sorted, h.seq, ?_, fun e he => local_run_told he⟩
  intro sd p hp
  apply h.known sd p
  rcases hp with hp | hp | hp
  · exact .inl (.inl hp)
  · exact .inl (.inr hp)
  · exact .inr hp

/-- … with the plain hypothesis of `book_is_truth` (every message of the delivery genuine) -/
theorem book_is_truth_on_genuine (r : Rules) (v : Venue) (s : Nat) (b0 : OrderBook) (ms : List Update)
    (P : Side → Rat → Prop) (hs : SortedBook b0) (h0 : GenuineSnapshotOn v s b0 P)
    (hg : ∀ m ∈ ms, IsGenuine r v m) :
    let res := Local.run r (start s b0) ms
    SortedBook res.1.book ∧
    res.1.book.sequence = res.1.sequencer.lastUpdateId ∧
    (∀ sd p, (P sd p ∨ (∃ u ∈ Local.admittedBy r (start s b0) ms, u.Writes sd p) ∨
        Touched v s res.1.book.sequence sd p) →
      abs (sideOf res.1.book sd) p = bookAt v res.1.book.sequence sd p) ∧
    (∀ e, res.2 = some e → e.isTerminal = true) :=
  book_is_truth_on r v s b0 ms P hs h0 (fun pre m post h _ _ _ => hg m (by rw [h]; simp))

/-- **the full-depth theorem is the case `P = everything`**: `book_is_truth_admitted` (hence
`book_is_truth'`, `book_is_truth`) re-derived from `book_is_truth_on` -/
theorem book_is_truth_is_the_full_depth_case (r : Rules) (v : Venue) (s : Nat) (b0 : OrderBook)
    (ms : List Update) (hs : SortedBook b0) (h0 : GenuineSnapshot v s b0)
    (hg : ∀ pre m post, ms = pre ++ m :: post → (Local.run r (start s b0) pre).2 = none →
      ¬ Stale r (Local.run r (start s b0) pre).1.sequencer.lastUpdateId m →
      Extends r ((Local.run r (start s b0) pre).1.sequencer.updatesProcessed == 0)
        (Local.run r (start s b0) pre).1.sequencer.lastUpdateId m → IsGenuine r v m) :
    let res := Local.run r (start s b0) ms
    SortedBook res.1.book ∧
    res.1.book.sequence = res.1.sequencer.lastUpdateId ∧
    abs res.1.book.bids = bookAt v res.1.book.sequence .bids ∧
    abs res.1.book.asks = bookAt v res.1.book.sequence .asks ∧
    (∀ e, res.2 = some e → e.isTerminal = true) := by
  intro res
  obtain ⟨h1, h2, h3, h4⟩ := book_is_truth_on r v s b0 ms (fun _ _ => True) hs
    ((genuineSnapshot_iff_on_all v s b0).mp h0) hg
  exact ⟨h1, h2, funext fun p => h3 .bids p (.inl trivial), funext fun p => h3 .asks p (.inl trivial), h4⟩

/-- the admitted updates `book_is_truth_on` speaks about are what the sequencer admits: as long as
`Local.run` reports no error they are exactly `admitted (Sequencer.run …)` of `admitted_chain` -/
theorem admittedBy_is_admitted (r : Rules) (l : Local) (ms : List Update) (h : (Local.run r l ms).2 = none) :
    Local.admittedBy r l ms = admitted (Sequencer.run r l.sequencer ms).2 := by
  induction ms generalizing l with
  | nil => rfl
  | cons m ms ih =>
    rw [local_run_cons] at h
    rw [admittedBy_cons, run_cons]
    rcases local_step_cases r l m with ⟨hs, hv⟩ | ⟨hs, he, hv⟩ | ⟨_, _, hv⟩
    · rw [hv] at h ⊢
      rw [validate_stale hs]
      simpa [admitted] using ih l h
    · rw [hv] at h ⊢
      rw [validate_extends hs he]
      simpa [admitted] using ih _ h
    · rw [hv] at h; simp at h

/-- a venue whose bid side is two levels deep: bid 99 ↦ 1 (id 1), bid 100 ↦ 1 (id 2), then the best
bid is deleted (id 3) -/
def exDeep : Venue := [⟨1, .bids, 99, 1⟩, ⟨2, .bids, 100, 1⟩, ⟨3, .bids, 100, 0⟩]

theorem exDeep_book_at_2 : specBook exDeep 2 = ⟨2, [⟨100, 1⟩, ⟨99, 1⟩], []⟩ := by
  have h1 : specSide exDeep 2 .bids = [⟨100, 1⟩, ⟨99, 1⟩] := by decide +kernel
  have h2 : specSide exDeep 2 .asks = [] := by decide +kernel
  simp only [specBook, h1, h2, PMap.levels]
  have : ([⟨100, 1⟩, ⟨99, 1⟩] : List Level).mergeSort Side.bids.le = [⟨100, 1⟩, ⟨99, 1⟩] :=
    sortLevels_of_sorted (s := .bids) (by decide)
  rw [this, List.mergeSort_nil]

/-- the genuine depth message for the id range `(2,3]` of `exDeep` (spot `U = 3`, futures `pu = 2`) -/
def exDel : Update := ⟨0, 3, 3, 2, [⟨100, 0⟩], []⟩

/-- **truncated_snapshot_witness** — the full-depth statement is FALSE with a depth-limited snapshot;
kernel-checked on concrete numbers. Snapshot of `exDeep` at id 2 with `limit = 1`: it lists the best bid
`100 ↦ 1` and not the second level `99 ↦ 1`. It is genuine on what it covers but not `GenuineSnapshot`.
The gap-free genuine continuation `exDel` (the venue deletes its best bid) is admitted without error by
both rule sets (spot: `U = 3 = s+1`; futures would need the message containing id 2 first — shown for
spot) and leaves the local book with NO bid at all while the venue's best bid is `99 ↦ 1`: at the price
99 — not covered by the snapshot, written by no admitted update, not changed by the venue since the
snapshot — the local book differs from the exchange's book as of the sequence it reports, and the
consumer has not been told. At the covered price 100 the book is right. (In the real wiring: a level
beyond the 100 best of the REST snapshot is unknown to the local book until the venue next changes it;
if the market moves through the 100 levels the local book's best prices are wrong in this sense.
Binance documents the same caveat for its own procedure: levels outside the initial snapshot are
learnt only when they change.) -/
theorem truncated_snapshot_witness :
    truncateBook 1 (specBook exDeep 2) = ⟨2, [⟨100, 1⟩], []⟩ ∧
    specBook exDeep 2 = ⟨2, [⟨100, 1⟩, ⟨99, 1⟩], []⟩ ∧
    SortedBook (truncateBook 1 (specBook exDeep 2)) ∧
    ¬ GenuineSnapshot exDeep 2 (truncateBook 1 (specBook exDeep 2)) ∧
    GenuineSnapshotOn exDeep 2 (truncateBook 1 (specBook exDeep 2))
      (fun sd p => coveredBy 1 sd (sideOf (truncateBook 1 (specBook exDeep 2)) sd) p = true) ∧
    Genuine .spot exDeep 2 3 exDel ∧ Genuine .futures exDeep 2 3 exDel ∧
    (Local.run .spot (start 2 (truncateBook 1 (specBook exDeep 2))) [exDel]).2 = none ∧
    (Local.run .spot (start 2 (truncateBook 1 (specBook exDeep 2))) [exDel]).1.book = ⟨3, [], []⟩ ∧
    specBook exDeep 3 = ⟨3, [⟨99, 1⟩], []⟩ ∧
    -- the uncovered, unwritten, untouched price 99: local 0, venue 1
    abs (sideOf (Local.run .spot (start 2 (truncateBook 1 (specBook exDeep 2))) [exDel]).1.book .bids) 99 = 0 ∧
    bookAt exDeep 3 .bids 99 = 1 ∧
    coveredBy 1 .bids [⟨100, 1⟩] 99 = false ∧ ¬ exDel.Writes .bids 99 ∧ ¬ Touched exDeep 2 3 .bids 99 ∧
    -- the covered price 100 is right
    coveredBy 1 .bids [⟨100, 1⟩] 100 = true ∧
    abs (sideOf (Local.run .spot (start 2 (truncateBook 1 (specBook exDeep 2))) [exDel]).1.book .bids) 100 =
      bookAt exDeep 3 .bids 100 := by
  have hb : truncateBook 1 (specBook exDeep 2) = ⟨2, [⟨100, 1⟩], []⟩ := by rw [exDeep_book_at_2]; rfl
  refine ⟨hb, exDeep_book_at_2, ?_, ?_, truncated_genuine_on exDeep 2 1, by decide, by decide, ?_, ?_,
    by decide +kernel, ?_, by decide +kernel, by decide +kernel, by decide, ?_, by decide +kernel, ?_⟩
  · rw [hb]; exact ⟨by decide, by decide⟩
  · rw [hb]
    intro h
    have := congrFun h.2.1 99
    exact absurd this (by decide +kernel)
  · rw [hb]; decide +kernel
  · rw [hb]; decide +kernel
  · rw [hb]; decide +kernel
  · rintro ⟨c, hc, h1, h2, h3, h4⟩
    simp only [exDeep, List.mem_cons, List.not_mem_nil, or_false] at hc
    rcases hc with rfl | rfl | rfl <;> simp_all
  · rw [hb]; decide +kernel


/-- **level_oracle_sound** — the per-level lines of the executable oracle (`drv_c06 spec`,
`drv_c06e spec`: `lv<k>:<side>:<price> <amount>`) are consequences of `book_is_truth_on`. For a snapshot
that is the venue's book at `s` cut to its best `n` levels per side, any delivery whose admitted
messages are genuine, and any list `written` of prices that admitted updates wrote: at every price the
oracle's test `knownPrice` accepts (covered by the snapshot / in `written` / changed by the venue since
`s`), the local book holds exactly the amount the oracle prints, `abs (specSide v sequence sd) p` — the
venue's amount as of the sequence the book reports, computed from the venue's history alone. -/
theorem level_oracle_sound (r : Rules) (v : Venue) (s n : Nat) (ms : List Update)
    (written : List (Side × Rat))
    (hg : ∀ pre m post, ms = pre ++ m :: post →
      (Local.run r (start s (truncateBook n (specBook v s))) pre).2 = none →
      ¬ Stale r (Local.run r (start s (truncateBook n (specBook v s))) pre).1.sequencer.lastUpdateId m →
      Extends r ((Local.run r (start s (truncateBook n (specBook v s))) pre).1.sequencer.updatesProcessed == 0)
        (Local.run r (start s (truncateBook n (specBook v s))) pre).1.sequencer.lastUpdateId m →
      IsGenuine r v m)
    (hw : ∀ sd p, (sd, p) ∈ written →
      ∃ u ∈ Local.admittedBy r (start s (truncateBook n (specBook v s))) ms, u.Writes sd p) :
    let res := Local.run r (start s (truncateBook n (specBook v s))) ms
    ∀ sd p, knownPrice n (truncateBook n (specBook v s)) written v res.1.book.sequence sd p = true →
      abs (sideOf res.1.book sd) p = abs (specSide v res.1.book.sequence sd) p := by
  intro res sd p hk
  have hsorted : SortedBook (truncateBook n (specBook v s)) :=
    sortedBook_truncate (wfBook_specBook v s).toSortedBook n
  obtain ⟨_, _, hknown, _⟩ := book_is_truth_on r v s (truncateBook n (specBook v s)) ms _ hsorted
    (truncated_genuine_on v s n) hg
  rw [abs_specSide]
  apply hknown sd p
  simp only [knownPrice, Bool.or_eq_true, List.contains_iff_mem] at hk
  rcases hk with (hk | hk) | hk
  · exact .inl hk
  · exact .inr (.inl (hw sd p hk))
  · exact .inr (.inr ((touchedB_iff v _ _ sd p).mp hk))

/-! ### several instruments on one connection, partial depth -/

/-- `ConnSyncedOn venues s P c`, spelled out for one subscribed instrument `a` (snapshot id `s a`,
covered prices `P a`): the consumer holds a strictly ordered book for its key that reports the
sequencer's last id and, at every price the snapshot covers or the venue changed since the snapshot id,
the amount of the venue's book as of that id. -/
theorem connSyncedOn_reading (venues : Nat → Venue) (s : Nat → Nat) (P : Nat → Side → Rat → Prop) (c : Conn)
    (h : ConnSyncedOn venues s P c) (a : Nat) (im : Meta) (hl : c.transformer.instrumentMap.lookup a = some im) :
    ∃ b, c.books.lookup im.key = some b ∧ SortedBook b ∧ b.sequence = im.sequencer.lastUpdateId ∧
      ∀ sd p, (P a sd p ∨ Touched (venues a) (s a) b.sequence sd p) →
        abs (sideOf b sd) p = bookAt (venues a) b.sequence sd p := by
  obtain ⟨b, hb, hs⟩ := h.inv a im hl
  exact ⟨b, hb, hs.sorted, hs.seq, hs.known⟩

/-- a freshly initialised connection (distinct instrument keys; every snapshot strictly ordered and
genuine ON ITS price set, taken at `s`) satisfies the partial-depth invariant -/
theorem connection_start_on (venues : Nat → Venue) (s : Nat → Nat) (P : Nat → Side → Rat → Prop)
    (insts : List (Nat × Nat × OrderBook)) (hkey : (insts.map (·.2.1)).Nodup)
    (h : ∀ x ∈ insts, SortedBook x.2.2 ∧ GenuineSnapshotOn (venues x.1) (s x.1) x.2.2 (P x.1)) :
    ConnSyncedOn venues s P (Conn.start insts) := connSyncedOn_start venues s P insts hkey h

/-- **connection_book_is_truth_on** — `connection_book_is_truth'` for partial-depth snapshots: several
instruments interleaved arbitrarily on one connection, genuineness demanded only of messages that are
not dropped as stale; the invariant on the covered-or-changed prices holds after any delivery (after
the connection died the books are frozen in that state and the consumer has been told). -/
theorem connection_book_is_truth_on (r : Rules) (venues : Nat → Venue) (s : Nat → Nat)
    (P : Nat → Side → Rat → Prop) (c : Conn) (ms : List Update) (hc : ConnSyncedOn venues s P c)
    (hg : ∀ pre m post, ms = pre ++ m :: post →
      ∀ im, (c.run r pre).transformer.instrumentMap.lookup m.sub = some im →
      ¬ Stale r im.sequencer.lastUpdateId m → IsGenuine r (venues m.sub) m) :
    ConnSyncedOn venues s P (c.run r ms) := connSyncedOn_run' hc hg

/-- the full-depth connection invariant is the case `P = everything` (whatever the ids `s`) -/
theorem connSynced_is_on_everything (venues : Nat → Venue) (s : Nat → Nat) (c : Conn) :
    ConnSynced venues c ↔ ConnSyncedOn venues s (fun _ _ _ => True) c :=
  connSynced_iff_on_all venues s c


end BarterModel.Props.C06
