import BarterModel.Lemmas.BinanceL2
import BarterModel.Lemmas.KernelsAgree.Sequencer
/-!
# C06 — Binance L2 streams never leave a silently wrong local book

Statements only (proofs by reference to `Lemmas/BinanceL2.lean`, `Lemmas/Book.lean`). The concrete
model (`Sequencer.validateSequence`, `Transformer.transform`, `terminate`, `Conn.step`, composed
with C05's `OrderBook.update`) is what `drv_c06 model` executes; the abstract side — the venue
(`Venue`, `bookAt`), genuine messages (`Genuine`), the published chaining rule (`Stale`,
`FirstRule`, `NextRule`, `Extends`, `Chain`) and the executable `SpecInstrument.step` / `specBook`
— is what `drv_c06 spec` executes. `r : Rules` ranges over both rule sets (spot, USD-futures) in
every theorem.

Quantifiers: sequencer theorems hold for *all* message lists whatsoever (arbitrary ids and
levels). Theorems that compare with the exchange's book assume what the property assumes — the
delivered messages are genuine messages of the venue (`IsGenuine`: for *some* id range, so any
drop / duplicate / swap / replay / early or late start of the venue's stream qualifies) and the
REST snapshot is the venue's book at its id (`GenuineSnapshot`). The venue itself is an arbitrary
list of changes (no hypothesis on ids is needed; `Venue.WF` only gives `bookAt` its reading as
"the book after the event with id x").
-/
namespace BarterModel.Props.C06
open BarterModel.Book BarterModel.BinanceL2

/-! ## 1. the sequencer: stale ⇒ silently dropped; otherwise extends the chain or terminal error -/

/-- **Trichotomy of `validate_sequence`** (every state, every message, both rule sets):
* stale (`u ≤ last` spot / `u < last` futures) ⇒ dropped, state unchanged;
* not stale and extending the chain (first: covers the snapshot id; later: follows the previous
  `u`) ⇒ admitted, `updates_processed + 1`, `last_update_id = u`;
* not stale and not extending ⇒ `InvalidSequence { prev_last_update_id: last, first_update_id: U }`,
  state unchanged.
The three guards are exclusive and exhaustive, so a message is *silently* dropped only if stale
and the state advances only on success. -/
theorem validate_sequence_trichotomy (r : Rules) (sq : Sequencer) (m : Update) :
    (Stale r sq.lastUpdateId m ∧ sq.validateSequence r m = (sq, .dropped)) ∨
    (¬ Stale r sq.lastUpdateId m ∧ Extends r (sq.updatesProcessed == 0) sq.lastUpdateId m ∧
      sq.validateSequence r m =
        ({ updatesProcessed := sq.updatesProcessed + 1, lastUpdateId := m.lastUpdateId,
           prevLastUpdateId := match r with
             | .spot => sq.lastUpdateId
             | .futures => sq.prevLastUpdateId }, .valid m)) ∨
    (¬ Stale r sq.lastUpdateId m ∧ ¬ Extends r (sq.updatesProcessed == 0) sq.lastUpdateId m ∧
      sq.validateSequence r m = (sq, .error (.invalidSequence sq.lastUpdateId m.firstUpdateId))) :=
  validate_cases r sq m

/-- the only error the sequencer produces is terminal (`DataError::is_terminal`), and being
terminal means being an `InvalidSequence` -/
theorem sequencer_error_terminal (r : Rules) (sq : Sequencer) (m : Update) (e : DataError)
    (h : (sq.validateSequence r m).2 = .error e) :
    e.isTerminal = true ∧ (sq.validateSequence r m).1 = sq := by
  rcases validate_cases r sq m with ⟨_, hv⟩ | ⟨_, _, hv⟩ | ⟨_, _, hv⟩ <;> rw [hv] at h ⊢ <;> simp at h
  subst h; exact ⟨rfl, rfl⟩

theorem terminal_iff (e : DataError) : e.isTerminal = true ↔ ∃ p f, e = .invalidSequence p f := by
  cases e <;> simp [DataError.isTerminal]

/-- the executable spec step (`drv_c06 spec`) and the model's `validate_sequence` give the same
verdict and the same ids, in every state -/
theorem spec_step_agrees (r : Rules) (sq : Sequencer) (m : Update) :
    let i : SpecInstrument := ⟨sq.updatesProcessed, sq.lastUpdateId⟩
    let res := sq.validateSequence r m
    ((i.step r m).2 = .ignored ↔ res.2 = .dropped) ∧
    ((i.step r m).2 = .extended ↔ res.2 = .valid m) ∧
    ((i.step r m).2 = .told ↔ ∃ e, res.2 = .error e) ∧
    (i.step r m).1.processed = res.1.updatesProcessed ∧ (i.step r m).1.last = res.1.lastUpdateId := by
  intro i res
  rcases validate_cases r sq m with ⟨hs, hv⟩ | ⟨hs, he, hv⟩ | ⟨hs, he, hv⟩
  · simp [i, res, hv, SpecInstrument.step, hs]
  · simp [i, res, hv, SpecInstrument.step, hs, he, Sequencer.advance]
  · simp [i, res, hv, SpecInstrument.step, hs, he]

/-- **admitted_chain** — for *any* delivery whatsoever after a snapshot at `s` (even continuing
past errors), the admitted updates form an unbroken chain under the venue's rule (spot: first
`U ≤ s+1 ≤ u`, then `U = previous u + 1`; futures: first `U ≤ s ≤ u`, then `pu = previous u`);
the sequencer has counted exactly them and reports the last admitted `u` (or `s`). -/
theorem admitted_chain (r : Rules) (s : Nat) (ms : List Update) :
    let res := Sequencer.run r (Sequencer.new s) ms
    Chain r s (admitted res.2) ∧
    res.1.updatesProcessed = (admitted res.2).length ∧
    res.1.lastUpdateId = ((admitted res.2).getLast?.map (·.lastUpdateId)).getD s := by
  intro res
  have h1 := chain_of_run r (Sequencer.new s) ms rfl
  have h2 := run_state r (Sequencer.new s) ms
  refine ⟨h1, ?_, h2.2⟩
  have := h2.1
  simp only [Sequencer.new, Nat.zero_add] at this
  exact this

/-- the same from any later state: what is admitted from then on is linked to the current id -/
theorem admitted_linked (r : Rules) (sq : Sequencer) (ms : List Update) (h : sq.updatesProcessed ≠ 0) :
    Linked r sq.lastUpdateId (admitted (Sequencer.run r sq ms).2) := linked_of_run r sq ms h

/-- no admitted update is stale with respect to the id the sequencer started from -/
theorem admitted_not_stale (r : Rules) (sq : Sequencer) (ms : List Update) :
    ∀ m ∈ admitted (Sequencer.run r sq ms).2, ¬ Stale r sq.lastUpdateId m :=
  admitted_mem_not_stale r sq ms

/-! ## 2. key lemma: a genuine message moves the exchange's book from any covered id to `hi` -/

/-- **key_lemma** — if the local book denotes the exchange's book as of `x`, and `m` is a genuine
message for `(lo, hi]` with `lo ≤ x ≤ hi`, then after `OrderBook::update` with the event built from
`m` the local book denotes the exchange's book as of `hi` and reports `hi`. (Overlap `lo < x` is
harmless: levels are absolute amounts.) -/
theorem key_lemma (r : Rules) (v : Venue) (lo x hi : Nat) (m : Update) (b : OrderBook)
    (h1 : lo ≤ x) (h2 : x ≤ hi) (hg : Genuine r v lo hi m) (hs : SortedBook b)
    (hb : abs b.bids = bookAt v x .bids) (ha : abs b.asks = bookAt v x .asks) :
    abs (b.update m.toEvent).bids = bookAt v hi .bids ∧
    abs (b.update m.toEvent).asks = bookAt v hi .asks ∧
    (b.update m.toEvent).sequence = hi := by
  obtain ⟨hids, hgb, hga⟩ := hg
  simp only [Update.toEvent, OrderBook.update, OrderBook.new]
  refine ⟨?_, ?_, hids.2.1⟩
  · rw [abs_upsert hs.bids, hb]
    exact key_side v lo x hi .bids _ h1 h2 (genuineSide_perm (sortLevels_perm .bids m.bids).symm hgb)
  · rw [abs_upsert hs.asks, ha]
    exact key_side v lo x hi .asks _ h1 h2 (genuineSide_perm (sortLevels_perm .asks m.asks).symm hga)

/-- the function-level core: any list of levels that states `bookAt hi` and covers the touched
prices, in any order and with repetitions -/
theorem key_lemma_side (v : Venue) (lo x hi : Nat) (side : Side) (levels : List Level)
    (h1 : lo ≤ x) (h2 : x ≤ hi) (hg : GenuineSide v lo hi side levels) :
    applyLevels (bookAt v x side) levels = bookAt v hi side := key_side v lo x hi side levels h1 h2 hg

/-- a price not touched in `(x, hi]` has the same amount at `x` and at `hi` -/
theorem untouched (v : Venue) (x hi : Nat) (side : Side) (p : Rat) (hx : x ≤ hi)
    (hn : ¬ Touched v x hi side p) : bookAt v hi side p = bookAt v x side p :=
  bookAt_untouched v x hi side p hx hn

/-- reading of `bookAt` for a well-formed venue (ids strictly increasing): the book as of the id of
an event `c` is the result of applying the venue's history up to and including `c`, in order -/
theorem bookAt_is_history_prefix (pre post : Venue) (c : Change) (side : Side)
    (h : Venue.WF (pre ++ c :: post)) :
    bookAt (pre ++ c :: post) c.id side =
      applyLevels (fun _ => 0)
        (((pre ++ [c]).filter fun d => decide (d.side = side)).map fun d => ⟨d.price, d.amount⟩) := by
  unfold bookAt; rw [changesUpTo_prefix pre post c side h]

/-! ## 3. the book is the exchange's book at the sequence it reports — or the consumer is told -/

/-- the initial local state: fresh sequencer at the snapshot id, the snapshot as book -/
def start (s : Nat) (b0 : OrderBook) : Local := ⟨Sequencer.new s, b0⟩

theorem start_synced (v : Venue) (s : Nat) (b0 : OrderBook) (hs : SortedBook b0)
    (hg : GenuineSnapshot v s b0) : Synced v (start s b0) :=
  ⟨hs, hg.1, by show abs b0.bids = bookAt v b0.sequence .bids; rw [hg.2.1, hg.1],
    by show abs b0.asks = bookAt v b0.sequence .asks; rw [hg.2.2, hg.1]⟩

/-- **book_is_truth** — for *every* delivery made of genuine messages of the venue (any
sub-multiset in any order: drops, duplicates, swaps, replays of old prefixes, early or late start;
the statement holds for every list, hence at every prefix), processed until the first error: the
local book is strictly ordered, reports the sequencer's last id, and denotes exactly the
exchange's book as of the sequence number it reports. If processing stopped early, the reason is a
*terminal* error (`told = some e`, `e.is_terminal()`), which ends the connection
(`with_termination_on_error`, theorem `stream_view` below) and forces re-initialisation. -/
theorem book_is_truth (r : Rules) (v : Venue) (s : Nat) (b0 : OrderBook) (ms : List Update)
    (hs : SortedBook b0) (h0 : GenuineSnapshot v s b0) (hg : ∀ m ∈ ms, IsGenuine r v m) :
    let res := Local.run r (start s b0) ms
    SortedBook res.1.book ∧
    res.1.book.sequence = res.1.sequencer.lastUpdateId ∧
    abs res.1.book.bids = bookAt v res.1.book.sequence .bids ∧
    abs res.1.book.asks = bookAt v res.1.book.sequence .asks ∧
    (∀ e, res.2 = some e → e.isTerminal = true) := by
  intro res
  have h := synced_run (r := r) (start_synced v s b0 hs h0) hg
  exact ⟨h.sorted, h.seq, h.bids, h.asks, fun e he => local_run_told he⟩

/-- … and with a snapshot free of zero amounts (C05's `WFBook`, what `OrderBook::new` yields for a
venue snapshot) the book is *literally* the book computed from the venue's history by the
executable specification (`specBook`, the value `drv_c06 spec` prints): same levels, same order,
same sequence. -/
theorem book_is_truth_exact (r : Rules) (v : Venue) (s : Nat) (b0 : OrderBook) (ms : List Update)
    (hw : WFBook b0) (h0 : GenuineSnapshot v s b0) (hg : ∀ m ∈ ms, IsGenuine r v m) :
    let res := Local.run r (start s b0) ms
    res.1.book = specBook v res.1.book.sequence := by
  intro res
  have h := synced_run (r := r) (start_synced v s b0 hw.toSortedBook h0) hg
  have hz := nonZero_run (r := r) (l := start s b0) (ms := ms) hw.bidsNonZero hw.asksNonZero
  exact synced_eq_specBook h hz.1 hz.2

/-- the invariant is inductive for single steps too (feeding on after an error changes nothing) -/
theorem book_is_truth_step (r : Rules) (v : Venue) (l : Local) (m : Update) (hl : Synced v l)
    (hg : IsGenuine r v m) : Synced v (l.step r m).1 := synced_step hl hg

/-- `IsGenuine` is decidable through the range the message's own ids claim (used by `drv_c06 spec`) -/
theorem isGenuine_iff (r : Rules) (v : Venue) (m : Update) (hU : 0 < m.firstUpdateId) :
    IsGenuine r v m ↔ GenuineMsg r v m := by
  constructor
  · rintro ⟨lo, hi, hids, hb, ha⟩
    obtain ⟨hlt, hu, hspot, hfut⟩ := hids
    have hlo : m.lo r = lo := by
      cases r
      · have := hspot rfl; simp [Update.lo]; omega
      · exact (hfut rfl).1
    unfold GenuineMsg
    rw [hlo, hu]
    exact ⟨⟨hlt, hu, hspot, hfut⟩, hb, ha⟩
  · intro h; exact ⟨_, _, h⟩

/-! ## 4. no false alarm -/

/-- **no_false_alarm** — a delivery consisting of any number of strictly older messages (stale
with respect to the snapshot id, in any order, genuine or not) followed by a gap-free in-order run
of genuine messages whose first one covers the snapshot point emits no error: every message of the
run is admitted, the sequencer ends at the last `u`, and the book is the exchange's book at that
id. -/
theorem no_false_alarm (r : Rules) (v : Venue) (s c0 : Nat) (b0 : OrderBook) (old run : List Update)
    (hs : SortedBook b0) (h0 : GenuineSnapshot v s b0)
    (hold : ∀ m ∈ old, Stale r s m) (hrun : GenuineRun r v c0 run) (hcov : Covers r v s c0 run) :
    let res := Local.run r (start s b0) (old ++ run)
    let last := (run.getLast?.map (·.lastUpdateId)).getD s
    res.2 = none ∧
    res.1.sequencer.updatesProcessed = run.length ∧
    res.1.sequencer.lastUpdateId = last ∧
    res.1.book.sequence = last ∧
    abs res.1.book.bids = bookAt v last .bids ∧ abs res.1.book.asks = bookAt v last .asks := by
  intro res last
  have hrun' : Local.run r (start s b0) (old ++ run) = (Local.admitAll r (start s b0) run, none) := by
    rw [run_stale_prefix old run (by simpa [start, Sequencer.new] using hold)]
    exact run_covering (l := start s b0) rfl (by simpa [start, Sequencer.new] using hcov) hrun
  have hst := admitAll_state r (start s b0) run
  -- the book: synced along the admitted run
  have hsync : Synced v (Local.run r (start s b0) run).1 :=
    synced_run (r := r) (start_synced v s b0 hs h0) (genuineRun_mem hrun)
  have hrun2 : Local.run r (start s b0) run = (Local.admitAll r (start s b0) run, none) :=
    run_covering (l := start s b0) rfl (by simpa [start, Sequencer.new] using hcov) hrun
  rw [hrun2] at hsync
  have hl : (Local.admitAll r (start s b0) run).sequencer.lastUpdateId = last := by
    simpa [start, Sequencer.new, last] using hst.2
  have hseq : (Local.admitAll r (start s b0) run).book.sequence = last := hsync.seq.trans hl
  rw [show res = _ from hrun']
  refine ⟨rfl, by simpa [start, Sequencer.new] using hst.1, hl, hseq, ?_, ?_⟩
  · rw [← hseq]; exact hsync.bids
  · rw [← hseq]; exact hsync.asks

/-! ## 5. several instruments on one connection -/

/-- **independent_instruments (a)** — a message of subscription `m.sub` never changes the
sequencer (or key) of another subscription -/
theorem other_sequencer_untouched (r : Rules) (t : Transformer) (m : Update) (b : Nat) (hb : b ≠ m.sub) :
    (t.transform r m).1.instrumentMap.lookup b = t.instrumentMap.lookup b := transform_other r t m b hb

/-- **(b)** — a message for a subscription id that is not in the map yields exactly one
non-terminal `Unidentifiable` error and changes nothing -/
theorem unknown_subscription (r : Rules) (t : Transformer) (m : Update)
    (h : t.instrumentMap.lookup m.sub = none) :
    t.transform r m = (t, [.error (.unidentifiable m.sub)]) ∧
    (DataError.unidentifiable m.sub).isTerminal = false := ⟨transform_unknown h, rfl⟩

/-- **(c)** — `transform` for a subscribed instrument is that instrument's sequencer: nothing /
one `Update` event for the instrument's key carrying `OrderBook::new(u, bids, asks)` / the error -/
theorem transform_is_sequencer (r : Rules) (t : Transformer) (m : Update) (im : Meta)
    (h : t.instrumentMap.lookup m.sub = some im) :
    (t.transform r m).1.instrumentMap.lookup m.sub =
      some { im with sequencer := (im.sequencer.validateSequence r m).1 } ∧
    (t.transform r m).2 =
      match (im.sequencer.validateSequence r m).2 with
      | .dropped => []
      | .valid u => [.event im.key u.toEvent]
      | .error e => [.error e] := by
  rcases transform_known (r := r) h with ⟨hs, hv⟩ | ⟨hs, he, hv⟩ | ⟨hs, he, hv⟩
  · rw [hv, validate_stale hs]; simp [lookup_setSequencer, h]
  · rw [hv, validate_extends hs he]; simp [lookup_setSequencer, h]
  · rw [hv, validate_breaks hs he]; simp [lookup_setSequencer, h]

/-- **(d)** — on the consumer's side an event for key `k` changes the book of `k` only -/
theorem other_book_untouched (books : Books) (k : Nat) (ev : Event) (k' : Nat) (hk : k' ≠ k) :
    (managerStep books (.item k ev)).lookup k' = books.lookup k' := by
  rw [lookup_managerStep]; simp [hk]

/-- a live connection dies exactly on a subscribed, non-stale, non-extending message -/
theorem told_iff (r : Rules) (c : Conn) (m : Update) (h : c.alive = true) :
    (c.step r m).alive = false ↔
      ∃ im, c.transformer.instrumentMap.lookup m.sub = some im ∧
        ¬ Stale r im.sequencer.lastUpdateId m ∧
        ¬ Extends r (im.sequencer.updatesProcessed == 0) im.sequencer.lastUpdateId m := by
  rcases conn_step_cases r c m h with ⟨hn, hv⟩ | ⟨im, hl, hcase⟩
  · rw [hv]; simp [h, hn]
  · rcases hcase with ⟨hs, hv⟩ | ⟨hs, he, hv⟩ | ⟨hs, he, hv⟩
    · rw [hv]; simp [hl, hs]
    · rw [hv]; simp [hl, hs, he]
    · rw [hv]; simp [hl, hs, he]

/-- **book_is_truth for the whole connection** — several instruments on one connection, messages
of all of them interleaved arbitrarily (each genuine for its own instrument's venue; messages for
unknown subscriptions are unrestricted): as long as the invariant holds at the start it holds after
any delivery — every subscribed instrument's book is the exchange's book of *that* instrument at
the sequence it reports, and equals its sequencer's last id. (After the connection died the books
are frozen in that state and the consumer has been told.) -/
theorem connection_book_is_truth (r : Rules) (venues : Nat → Venue) (c : Conn) (ms : List Update)
    (hc : ConnSynced venues c)
    (hg : ∀ m ∈ ms, (c.transformer.instrumentMap.lookup m.sub).isSome → IsGenuine r (venues m.sub) m) :
    ConnSynced venues (c.run r ms) := by
  induction ms generalizing c with
  | nil => exact hc
  | cons m ms ih =>
    simp only [Conn.run, List.foldl_cons]
    have hsub : ∀ a, ((c.step r m).transformer.instrumentMap.lookup a).isSome =
        (c.transformer.instrumentMap.lookup a).isSome := by
      intro a
      cases halive : c.alive with
      | false => rw [conn_step_dead m halive]
      | true =>
        rcases conn_step_cases r c m halive with ⟨_, hv⟩ | ⟨im, hl, hcase⟩
        · rw [hv]
        · rcases hcase with ⟨_, hv⟩ | ⟨_, _, hv⟩ | ⟨_, _, hv⟩ <;> rw [hv] <;>
            simp only [lookup_setSequencer] <;> split <;> simp_all
    refine ih _ (connSynced_step hc (fun im him => hg m (by simp) (by simp [him]))) ?_
    intro x hx hsome
    exact hg x (by simp [hx]) (by rw [← hsub]; exact hsome)

/-- a freshly initialised connection (distinct instrument keys, every
snapshot strictly ordered and genuine for its instrument's venue) satisfies the invariant -/
theorem connection_start (venues : Nat → Venue) (insts : List (Nat × Nat × OrderBook))
    (hkey : (insts.map (·.2.1)).Nodup)
    (h : ∀ x ∈ insts, SortedBook x.2.2 ∧ GenuineSnapshot (venues x.1) x.2.2.sequence x.2.2) :
    ConnSynced venues (Conn.start insts) := connSynced_start venues insts hkey h

/-- **stream_view** — the per-message view of the connection (`Conn.step`: stop reading at the
terminal error) is the whole output list of the transformer pushed through
`with_termination_on_error` (`terminate`, a `map_while`) and applied by the consumer. -/
theorem stream_view (r : Rules) (c : Conn) (ms : List Update) (h : c.alive = true) :
    (c.run r ms).books = consume c.books (terminate (Transformer.run r c.transformer ms).2) ∧
    (c.run r ms).alive = !terminated (Transformer.run r c.transformer ms).2 :=
  conn_run_eq_terminate r c ms h

/-- nothing after the first terminal error is delivered, everything before it is -/
theorem terminate_spec (a : List Out) (e : DataError) (b : List Out) (he : e.isTerminal = true)
    (ha : terminated a = false) : terminate (a ++ .error e :: b) = a := by
  rw [terminate_append, ha]
  simp only [cond_false, terminate, he, ↓reduceIte, List.append_nil]
  clear he
  induction a with
  | nil => rfl
  | cons x xs ih =>
    cases x with
    | event k ev => simp only [terminated] at ha; simp [terminate, ih ha]
    | error e' =>
      simp only [terminated, Bool.or_eq_false_iff] at ha
      simp [terminate, ha.1, ih ha.2]

/-! ## tie to the source by translation -/

/-- **Tie to the source by translation.** The ten sequencer functions the model's
`Sequencer.{new, isFirstUpdate, validateFirstUpdate, validateNextUpdate, validateSequence}` mirror
(`impl BinanceSpotOrderBookL2Sequencer` in `spot/l2.rs`, `impl BinanceFuturesUsdOrderBookL2Sequencer`
in `futures/l2.rs`) are not only hand-written: on every run `tools/rust2lean_sm.py` regenerates
`BarterModel.Generated.Machines.Binance*Sequencer.*` (state-passing functions, `u64 ↦ Nat`,
`Result ↦ Except`) from the current source, and for ALL states and updates the model's functions
are the generated ones read through the record bijections of `Lemmas/KernelsAgree/Sequencer.lean`
(`toSpot/ofSpot`; `toFut/ofFut` with the model's third field as a passenger; `spotIds/futIds` =
the `u64` fields of the update; `err` = `InvalidSequence{..}`). A change of one of these functions
in the source makes this theorem fail to build. -/
theorem kernels_agree_with_source :
    (∀ id, Sequencer.new id
        = KernelsAgree.Sequencer.ofSpot (Generated.Machines.BinanceSpotOrderBookL2Sequencer.new id))
    ∧ (∀ s : Sequencer, s.isFirstUpdate = (KernelsAgree.Sequencer.toSpot s).is_first_update)
    ∧ (∀ (s : Sequencer) (u : Update), s.validateFirstUpdate .spot u
        = KernelsAgree.Sequencer.check
            ((KernelsAgree.Sequencer.toSpot s).validate_first_update (KernelsAgree.Sequencer.spotIds u)))
    ∧ (∀ (s : Sequencer) (u : Update), s.validateNextUpdate .spot u
        = KernelsAgree.Sequencer.check
            ((KernelsAgree.Sequencer.toSpot s).validate_next_update (KernelsAgree.Sequencer.spotIds u)))
    ∧ (∀ (s : Sequencer) (u : Update), s.validateSequence .spot u
        = (KernelsAgree.Sequencer.ofSpot
              ((KernelsAgree.Sequencer.toSpot s).validate_sequence (KernelsAgree.Sequencer.spotIds u)).1,
            KernelsAgree.Sequencer.validated u
              ((KernelsAgree.Sequencer.toSpot s).validate_sequence (KernelsAgree.Sequencer.spotIds u)).2))
    ∧ (∀ id, Sequencer.new id
        = KernelsAgree.Sequencer.ofFut (Generated.Machines.BinanceFuturesUsdOrderBookL2Sequencer.new id) id)
    ∧ (∀ s : Sequencer, s.isFirstUpdate = (KernelsAgree.Sequencer.toFut s).is_first_update)
    ∧ (∀ (s : Sequencer) (u : Update), s.validateFirstUpdate .futures u
        = KernelsAgree.Sequencer.check
            ((KernelsAgree.Sequencer.toFut s).validate_first_update (KernelsAgree.Sequencer.futIds u)))
    ∧ (∀ (s : Sequencer) (u : Update), s.validateNextUpdate .futures u
        = KernelsAgree.Sequencer.check
            ((KernelsAgree.Sequencer.toFut s).validate_next_update (KernelsAgree.Sequencer.futIds u)))
    ∧ (∀ (s : Sequencer) (u : Update), s.validateSequence .futures u
        = (KernelsAgree.Sequencer.ofFut
              ((KernelsAgree.Sequencer.toFut s).validate_sequence (KernelsAgree.Sequencer.futIds u)).1
              s.prevLastUpdateId,
            KernelsAgree.Sequencer.validated u
              ((KernelsAgree.Sequencer.toFut s).validate_sequence (KernelsAgree.Sequencer.futIds u)).2)) :=
  KernelsAgree.Sequencer.sequencer_kernels_agree

/-- non-vacuity of the tie: the generated spot sequencer, started at snapshot id 1, admits `U=1,u=2`
and then refuses `U=4` with the two payload fields of `InvalidSequence`. -/
example :
    ((Generated.Machines.BinanceSpotOrderBookL2Sequencer.new 1).validate_sequence ⟨1, 2⟩)
      = (⟨1, 2, 1⟩, .ok (some ⟨1, 2⟩))
    ∧ (((Generated.Machines.BinanceSpotOrderBookL2Sequencer.new 1).validate_sequence ⟨1, 2⟩).1.validate_sequence
        ⟨4, 5⟩).2 = .error (.InvalidSequence 2 4) := ⟨rfl, rfl⟩

/-! ## non-vacuity: a concrete venue, snapshot and deliveries -/

/-- three changes: bid 100 ↦ 1 (id 1), ask 101 ↦ 2 (id 2), bid 100 deleted (id 3) -/
def exVenue : Venue := [⟨1, .bids, 100, 1⟩, ⟨2, .asks, 101, 2⟩, ⟨3, .bids, 100, 0⟩]

def exSnapshot : OrderBook := ⟨1, [⟨100, 1⟩], []⟩

/-- spot messages for `(0,2]` and `(2,3]`; futures for `(0,2]` (`U = 1`) and `(2,3]` -/
def exM1 : Update := ⟨0, 1, 2, 0, [⟨100, 1⟩], [⟨101, 2⟩]⟩
def exM2 : Update := ⟨0, 3, 3, 2, [⟨100, 0⟩], []⟩

example : Genuine .spot exVenue 0 2 exM1 := by decide
example : Genuine .spot exVenue 2 3 exM2 := by decide
example : Genuine .futures exVenue 0 2 exM1 := by decide
example : Genuine .futures exVenue 2 3 exM2 := by decide
example : GenuineRun .spot exVenue 0 [exM1, exM2] := ⟨by decide, by decide, trivial⟩
example : Covers .spot exVenue 1 0 [exM1, exM2] := ⟨by decide, by decide⟩
example : Covers .futures exVenue 1 0 [exM1, exM2] := ⟨by decide, by decide, ⟨1, .bids, 100, 1⟩, by decide, rfl⟩
example : Venue.WF exVenue := by unfold Venue.WF; decide
example : SortedBook exSnapshot := ⟨by decide, by decide⟩

example : GenuineSnapshot exVenue 1 exSnapshot := by
  refine ⟨rfl, ?_, ?_⟩ <;> funext p <;>
    simp [exSnapshot, exVenue, abs, bookAt, changesUpTo, applyLevels, setLevel] <;> grind

/-- two instruments (subscriptions 0 and 1, keys 10 and 11) on one connection -/
example : ConnSynced (fun _ => exVenue) (Conn.start [(0, 10, exSnapshot), (1, 11, exSnapshot)]) := by
  apply connection_start
  · decide
  · intro x hx
    have hsnap : GenuineSnapshot exVenue 1 exSnapshot := by
      refine ⟨rfl, ?_, ?_⟩ <;> funext p <;>
        simp [exSnapshot, exVenue, abs, bookAt, changesUpTo, applyLevels, setLevel] <;> grind
    simp only [List.mem_cons, List.not_mem_nil, or_false] at hx
    rcases hx with hx | hx <;> subst hx <;> exact ⟨⟨by decide, by decide⟩, hsnap⟩

/-- the in-order delivery is admitted entirely (both rule sets) … -/
example : (Local.run .spot (start 1 exSnapshot) [exM1, exM2]).2 = none := by decide
example : (Local.run .futures (start 1 exSnapshot) [exM1, exM2]).2 = none := by decide
example : (Local.run .spot (start 1 exSnapshot) [exM1, exM2]).1.book = ⟨3, [], [⟨101, 2⟩]⟩ := by decide +kernel
/-- … dropping the first message is reported as a terminal error (the hypotheses of the
trichotomy's third case are satisfiable) … -/
example : (Local.run .spot (start 1 exSnapshot) [exM2]).2 = some (.invalidSequence 1 3) := by decide
example : (Local.run .futures (start 1 exSnapshot) [exM2]).2 = some (.invalidSequence 1 3) := by decide
/-- … and a duplicate is silently dropped by the spot rule but reported by the futures rule -/
example : (Local.run .spot (start 1 exSnapshot) [exM1, exM1, exM2]).2 = none := by decide
example : (Local.run .futures (start 1 exSnapshot) [exM1, exM1, exM2]).2 = some (.invalidSequence 2 1) := by decide

end BarterModel.Props.C06
