import BarterModel.Lemmas.BinanceL2
namespace BarterModel.Props.C06
open BarterModel.Book BarterModel.BinanceL2

theorem terminal_iff (e : DataError) : e.isTerminal = true ↔ ∃ p f, e = .invalidSequence p f := by
  cases e <;> simp [DataError.isTerminal]

end BarterModel.Props.C06
