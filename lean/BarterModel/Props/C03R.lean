import BarterModel.Lemmas.Risk
import BarterModel.Model.Engine
import BarterModel.Lemmas.KernelsAgree.RiskSM
/-!
# C03R — risk-check utilities and default risk manager (sub-check of C03)

Statements about the model of `barter/src/risk/**` (`Model/Risk.lean`), for ALL inputs.

* `fits : Rat → Bool` is an arbitrary notion of "representable as a `Decimal`" (overflow ⇔ `fits`
  is false); theorems that need more say so (`decFits`, the 96-bit range).
* `le : α → α → Bool` is `PartialOrd::le` of the checked type.

Sections: A wrappers · B `DefaultRiskManager` · C `CheckHigherThan` · D notional · E percentage
difference · F delta · G checks composed with the utilities (what a risk manager built from them
decides) · H link with the engine model of C03.
-/
namespace BarterModel.Props.C03R
open BarterModel.Risk

/-! ## A. `RiskApproved` / `RiskRefused` are transparent wrappers -/

theorem approved_into_item_new {α : Type} (a : α) : (RiskApproved.new a).intoItem = a := rfl

theorem approved_new_into_item {α : Type} (r : RiskApproved α) : RiskApproved.new r.intoItem = r := rfl

theorem approved_new_injective {α : Type} (a b : α) (h : RiskApproved.new a = RiskApproved.new b) :
    a = b := by
  cases h; rfl

theorem refused_new_fields {α ρ : Type} (a : α) (reason : ρ) :
    (RiskRefused.new a reason).intoItem = a ∧ (RiskRefused.new a reason).reason = reason := ⟨rfl, rfl⟩

/-- A refusal is unrecoverable exactly when its reason is. -/
theorem refused_unrecoverable_iff {α : Type} (r : RiskRefused α EngineErrorKind) :
    r.isUnrecoverable EngineErrorKind.isUnrecoverable = true ↔ r.reason = .unrecoverable := by
  cases r with
  | mk item reason => cases reason <;> simp [RiskRefused.isUnrecoverable, EngineErrorKind.isUnrecoverable]

/-! ## B. `DefaultRiskManager` approves everything -/

/-- Refinement to "approves all orders": the approved outputs are the inputs, nothing is refused —
for every state, every request type, every reason type. -/
theorem default_refines_spec {σ κ ο ρ : Type} (s : σ) (cancels : List κ) (opens : List ο) :
    (DefaultRiskManager.check (ρ := ρ) s cancels opens).items = specApproveAll cancels opens := by
  simp [DefaultRiskManager.check, CheckOut.items, specApproveAll, RiskApproved.intoItem,
    RiskApproved.new, Function.comp_def]

theorem default_refuses_nothing {σ κ ο ρ : Type} (s : σ) (cancels : List κ) (opens : List ο) :
    (DefaultRiskManager.check (ρ := ρ) s cancels opens).refusedCancels = [] ∧
    (DefaultRiskManager.check (ρ := ρ) s cancels opens).refusedOpens = [] := ⟨rfl, rfl⟩

/-- Order and position are preserved: the `i`-th approved request is the `i`-th input request. -/
theorem default_approves_in_order {σ κ ο ρ : Type} (s : σ) (cancels : List κ) (opens : List ο) (i : Nat) :
    (DefaultRiskManager.check (ρ := ρ) s cancels opens).approvedCancels[i]? =
      cancels[i]?.map RiskApproved.new ∧
    (DefaultRiskManager.check (ρ := ρ) s cancels opens).approvedOpens[i]? =
      opens[i]?.map RiskApproved.new := by
  simp [DefaultRiskManager.check]

theorem default_lengths {σ κ ο ρ : Type} (s : σ) (cancels : List κ) (opens : List ο) :
    (DefaultRiskManager.check (ρ := ρ) s cancels opens).approvedCancels.length = cancels.length ∧
    (DefaultRiskManager.check (ρ := ρ) s cancels opens).approvedOpens.length = opens.length := by
  simp [DefaultRiskManager.check]

/-- Multiplicity is preserved: a request submitted `k` times is approved `k` times. -/
theorem default_multiplicity {σ κ ο ρ : Type} [DecidableEq κ] [DecidableEq ο] (s : σ)
    (cancels : List κ) (opens : List ο) :
    (∀ x, ((DefaultRiskManager.check (ρ := ρ) s cancels opens).approvedCancels.map
        RiskApproved.intoItem).count x = cancels.count x) ∧
    (∀ x, ((DefaultRiskManager.check (ρ := ρ) s cancels opens).approvedOpens.map
        RiskApproved.intoItem).count x = opens.count x) := by
  have h := default_refines_spec (ρ := ρ) s cancels opens
  simp only [CheckOut.items, specApproveAll, Prod.mk.injEq] at h
  exact ⟨fun x => by rw [h.1], fun x => by rw [h.2.1]⟩

/-- The state is never read. -/
theorem default_state_independent {σ σ' κ ο ρ : Type} (s : σ) (s' : σ') (cancels : List κ)
    (opens : List ο) :
    DefaultRiskManager.check (ρ := ρ) s cancels opens = DefaultRiskManager.check s' cancels opens := rfl

/-- Cancels and opens do not influence each other. -/
theorem default_kinds_independent {σ κ ο ρ : Type} (s : σ) (cancels : List κ) (opens opens' : List ο)
    (cancels' : List κ) :
    (DefaultRiskManager.check (ρ := ρ) s cancels opens).approvedCancels =
      (DefaultRiskManager.check (ρ := ρ) s cancels opens').approvedCancels ∧
    (DefaultRiskManager.check (ρ := ρ) s cancels opens).approvedOpens =
      (DefaultRiskManager.check (ρ := ρ) s cancels' opens).approvedOpens := ⟨rfl, rfl⟩

/-- Checking a batch is checking its parts: no cross-request effect. -/
theorem default_append {σ κ ο ρ : Type} (s : σ) (c₁ c₂ : List κ) (o₁ o₂ : List ο) :
    (DefaultRiskManager.check (ρ := ρ) s (c₁ ++ c₂) (o₁ ++ o₂)).approvedCancels =
      (DefaultRiskManager.check (ρ := ρ) s c₁ o₁).approvedCancels ++
      (DefaultRiskManager.check (ρ := ρ) s c₂ o₂).approvedCancels ∧
    (DefaultRiskManager.check (ρ := ρ) s (c₁ ++ c₂) (o₁ ++ o₂)).approvedOpens =
      (DefaultRiskManager.check (ρ := ρ) s c₁ o₁).approvedOpens ++
      (DefaultRiskManager.check (ρ := ρ) s c₂ o₂).approvedOpens := by
  simp [DefaultRiskManager.check]

/-- The contract of a `RiskManager` (every request ends in exactly one output) holds. -/
theorem default_conserves {σ κ ο ρ : Type} [DecidableEq κ] [DecidableEq ο] (s : σ)
    (cancels : List κ) (opens : List ο) :
    Conserves cancels opens (DefaultRiskManager.check (ρ := ρ) s cancels opens) := by
  have h := default_multiplicity (ρ := ρ) s cancels opens
  refine ⟨fun x => ?_, fun x => ?_⟩
  · rw [h.1]; simp [DefaultRiskManager.check]
  · rw [h.2]; simp [DefaultRiskManager.check]

/-- What `Conserves` gives a caller, for any risk manager: nothing is invented, nothing is lost. -/
theorem conserves_no_invention_no_loss {κ ο ρ : Type} [DecidableEq κ] [DecidableEq ο]
    {cancels : List κ} {opens : List ο} {out : CheckOut κ ο ρ} (h : Conserves cancels opens out) (x : κ) :
    (x ∈ cancels ↔ x ∈ out.approvedCancels.map RiskApproved.intoItem ∨
        x ∈ out.refusedCancels.map RiskRefused.intoItem) := by
  have := h.1 x
  rw [← List.count_pos_iff, ← List.count_pos_iff, ← List.count_pos_iff]
  omega

/-- … and, as lists: approved ++ refused is a rearrangement of the input. -/
theorem conserves_perm {κ ο ρ : Type} [DecidableEq κ] [DecidableEq ο]
    {cancels : List κ} {opens : List ο} {out : CheckOut κ ο ρ} (h : Conserves cancels opens out) :
    List.Perm (out.approvedCancels.map RiskApproved.intoItem ++
      out.refusedCancels.map RiskRefused.intoItem) cancels ∧
    List.Perm (out.approvedOpens.map RiskApproved.intoItem ++
      out.refusedOpens.map RiskRefused.intoItem) opens := by
  constructor
  · rw [List.perm_iff_count]; intro x; rw [List.count_append]; exact h.1 x
  · rw [List.perm_iff_count]; intro x; rw [List.count_append]; exact h.2 x

/-! ## C. `CheckHigherThan`: passes exactly when `input <= limit` -/

theorem check_ok_iff {α : Type} (le : α → α → Bool) (c : CheckHigherThan α) (x : α) :
    c.check le x = .ok () ↔ le x c.limit = true := by
  unfold CheckHigherThan.check
  split <;> simp_all

/-- A failure reports the limit and the offending input, unchanged. -/
theorem check_error_iff {α : Type} (le : α → α → Bool) (c : CheckHigherThan α) (x : α)
    (e : CheckFailHigherThan α) :
    c.check le x = .error e ↔ le x c.limit = false ∧ e = ⟨c.limit, x⟩ := by
  unfold CheckHigherThan.check
  split
  · simp_all
  · simp_all only [Bool.not_eq_true, Except.error.injEq, true_and]
    exact ⟨fun h => h.symm, fun h => h.symm⟩

/-- `Decimal`: the documented inequality, non-strict. -/
theorem check_dec_passes_iff (limit input : Rat) :
    (CheckHigherThan.mk limit).check leRat input = .ok () ↔ input ≤ limit := by
  simp [check_ok_iff, leRat]

theorem check_dec_fails_iff (limit input : Rat) :
    (∃ e, (CheckHigherThan.mk limit).check leRat input = .error e) ↔ limit < input := by
  constructor
  · rintro ⟨e, h⟩
    have := ((check_error_iff _ _ _ _).mp h).1
    simp only [leRat, decide_eq_false_iff_not] at this
    exact Rat.not_le.mp this
  · intro h
    exact ⟨⟨limit, input⟩, (check_error_iff _ _ _ _).mpr ⟨by simp [leRat, Rat.not_le.mpr h], rfl⟩⟩

/-- Boundary: an input equal to the limit passes. -/
theorem check_dec_boundary (limit : Rat) :
    (CheckHigherThan.mk limit).check leRat limit = .ok () :=
  (check_dec_passes_iff limit limit).mpr Rat.le_refl

theorem check_int_passes_iff (limit input : Int) :
    (CheckHigherThan.mk limit).check leInt input = .ok () ↔ input ≤ limit := by
  simp [check_ok_iff, leInt]

/-- Refinement to the documented outcome (verdict and payload). -/
theorem check_dec_refines_spec (limit input : Rat) :
    (CheckHigherThan.mk limit).check leRat input = specCheck limit input := by
  unfold CheckHigherThan.check specCheck leRat
  by_cases h : input ≤ limit <;> simp [h]

theorem check_f64_refines_spec (limit input : F64) :
    (CheckHigherThan.mk limit).check F64.le input = specCheckF64 limit input := by
  unfold CheckHigherThan.check specCheckF64
  cases limit <;> cases input <;> simp [F64.le]

/-- The error text claims `input > limit`: true for `Decimal`. -/
theorem check_dec_message_truthful (limit input : Rat) (e : CheckFailHigherThan Rat)
    (h : (CheckHigherThan.mk limit).check leRat input = .error e) :
    e.limit = limit ∧ e.input = input ∧ e.input > e.limit := by
  obtain ⟨h1, rfl⟩ := (check_error_iff _ _ _ _).mp h
  simp only [leRat, decide_eq_false_iff_not] at h1
  exact ⟨rfl, rfl, Rat.not_le.mp h1⟩

/-- Partial orders: a NaN input never passes and nothing passes a NaN limit (there the error text's
`input > limit` is not true either). -/
theorem check_nan_never_passes (x : F64) :
    (CheckHigherThan.mk F64.nan).check F64.le x ≠ .ok () ∧
    (CheckHigherThan.mk x).check F64.le F64.nan ≠ .ok () := by
  constructor <;> rw [Ne, check_ok_iff] <;> cases x <;> simp [F64.le]

/-- Passing is downward closed in the input (any transitive `le`). -/
theorem check_mono_input {α : Type} (le : α → α → Bool)
    (trans : ∀ a b c, le a b = true → le b c = true → le a c = true)
    (c : CheckHigherThan α) (x y : α) (hxy : le x y = true) (hy : c.check le y = .ok ()) :
    c.check le x = .ok () := by
  rw [check_ok_iff] at *
  exact trans _ _ _ hxy hy

/-- Raising the limit never turns a pass into a failure. -/
theorem check_mono_limit {α : Type} (le : α → α → Bool)
    (trans : ∀ a b c, le a b = true → le b c = true → le a c = true)
    (l l' x : α) (hl : le l l' = true) (h : (CheckHigherThan.mk l).check le x = .ok ()) :
    (CheckHigherThan.mk l').check le x = .ok () := by
  rw [check_ok_iff] at *
  exact trans _ _ _ h hl

/-- Two limits on the same quantity are one limit: their minimum. -/
theorem check_dec_two_limits (l₁ l₂ x : Rat) :
    ((CheckHigherThan.mk l₁).check leRat x = .ok () ∧ (CheckHigherThan.mk l₂).check leRat x = .ok ()) ↔
      (CheckHigherThan.mk (if l₁ ≤ l₂ then l₁ else l₂)).check leRat x = .ok () := by
  simp only [check_dec_passes_iff]
  by_cases h : l₁ ≤ l₂ <;> simp only [h, if_true, if_false]
  · exact ⟨fun h' => h'.1, fun h' => ⟨h', Rat.le_trans h' h⟩⟩
  · have h2 : l₂ ≤ l₁ := Rat.le_of_lt (Rat.not_le.mp h)
    exact ⟨fun h' => h'.2, fun h' => ⟨Rat.le_trans h' h2, h'⟩⟩

theorem check_name : CheckHigherThan.name = "CheckHigherThan" := rfl

/-! ## D. `calculate_quote_notional` = quantity × price × contract size -/

/-- Whatever is returned is the exact product. -/
theorem notional_sound (fits : Rat → Bool) (q p c v : Rat)
    (h : calculateQuoteNotional fits q p c = some v) : v = specNotional q p c :=
  (notional_eq_some.mp h).2.2

/-- A value is returned whenever neither product overflows. -/
theorem notional_complete (fits : Rat → Bool) (q p c : Rat) (h1 : fits (q * p) = true)
    (h2 : fits (q * p * c) = true) :
    calculateQuoteNotional fits q p c = some (specNotional q p c) :=
  notional_eq_some.mpr ⟨h1, h2, rfl⟩

/-- "Returns None if overflow has occurred" — and only then. -/
theorem notional_none_iff (fits : Rat → Bool) (q p c : Rat) :
    calculateQuoteNotional fits q p c = none ↔ fits (q * p) = false ∨ fits (q * p * c) = false :=
  notional_eq_none

/-- Refinement to the documented behaviour. -/
theorem notional_refines_spec (fits : Rat → Bool) (q p c : Rat) :
    NotionalOk (!fits (q * p) || !fits (q * p * c)) (specNotional q p c)
      (calculateQuoteNotional fits q p c) := by
  cases h : calculateQuoteNotional fits q p c with
  | some v => exact .inl (by rw [notional_sound fits q p c v h])
  | none =>
    refine .inr ⟨rfl, ?_⟩
    rcases (notional_none_iff fits q p c).mp h with h | h <;> simp [h]

/-- Per instrument kind: spot has multiplier one, the derivatives their `contract_size`. -/
theorem notional_per_kind (fits : Rat → Bool) (k : Kind) (q p v : Rat)
    (h : calculateQuoteNotional fits q p k.contractSize = some v) : v = specNotionalKind k q p := by
  have := notional_sound fits q p _ v h
  cases k <;> simp_all [specNotional, specNotionalKind, Kind.contractSize, Rat.mul_one]

theorem notional_spot (fits : Rat → Bool) (q p : Rat) (h : fits (q * p) = true) :
    calculateQuoteNotional fits q p Kind.spot.contractSize = some (q * p) := by
  have := notional_complete fits q p 1 h (by simpa [Rat.mul_one] using h)
  simpa [Kind.contractSize, specNotional, Rat.mul_one] using this

/-- Quantity and price may be swapped (the first product is symmetric). -/
theorem notional_swap_quantity_price (fits : Rat → Bool) (q p c : Rat) :
    calculateQuoteNotional fits q p c = calculateQuoteNotional fits p q c := by
  unfold calculateQuoteNotional checkedMul
  rw [Rat.mul_comm q p]

/-- Additive in the quantity (order splitting does not change total notional). -/
theorem specNotional_add_quantity (q₁ q₂ p c : Rat) :
    specNotional (q₁ + q₂) p c = specNotional q₁ p c + specNotional q₂ p c := by
  unfold specNotional; grind

theorem specNotional_pos (q p c : Rat) (hq : 0 < q) (hp : 0 < p) (hc : 0 < c) :
    0 < specNotional q p c :=
  Rat.mul_pos (Rat.mul_pos hq hp) hc

theorem specNotional_zero_quantity (p c : Rat) : specNotional 0 p c = 0 := by
  unfold specNotional; grind

/-- With the 96-bit range: a multiplier of magnitude ≤ 1 never causes the second overflow, so the
result is `None` exactly when quantity × price overflows. -/
theorem notional_small_multiplier (q p c : Rat) (hc : c.abs ≤ 1) :
    calculateQuoteNotional decFits q p c = none ↔ decFits (q * p) = false := by
  rw [notional_none_iff]
  constructor
  · rintro (h | h)
    · exact h
    · cases h1 : decFits (q * p) with
      | false => rfl
      | true => rw [decFits_mul_of_abs_le_one h1 hc] at h; cases h
  · exact .inl

/-- The order of the multiplications is observable: an intermediate overflow yields `None` although
the notional itself is representable (10¹⁵ × 10¹⁵ × 10⁻¹⁰ = 10²⁰). -/
theorem notional_intermediate_overflow :
    calculateQuoteNotional decFits 1000000000000000 1000000000000000 (1 / 10000000000) = none ∧
    decFits (specNotional 1000000000000000 1000000000000000 (1 / 10000000000)) = true := by
  decide +kernel

/-! ## E. `calculate_abs_percent_difference` -/

/-- Positive reference value (a price): the result is |current − other| / |other|. -/
theorem apd_refines_spec (fits : Rat → Bool) (c o : Rat) (ho : 0 < o) (h1 : fits (c - o) = true)
    (h2 : fits (specAbsPercentDifference c o) = true) :
    calculateAbsPercentDifference fits c o = some (specAbsPercentDifference c o) := by
  rw [← code_quotient_pos ho] at h2 ⊢
  exact apd_eq_some.mpr ⟨by grind, h1, h2, rfl⟩

theorem apd_sound_pos (fits : Rat → Bool) (c o v : Rat) (ho : 0 < o)
    (h : calculateAbsPercentDifference fits c o = some v) :
    v = specAbsPercentDifference c o ∧ 0 ≤ v := by
  have := (apd_eq_some.mp h).2.2.2
  rw [code_quotient_pos ho] at this
  exact ⟨this, this ▸ specApd_nonneg c o⟩

/-- "None if overflow has occurred" — for a non-zero reference only then. -/
theorem apd_none_iff (fits : Rat → Bool) (c o : Rat) (ho : o ≠ 0) :
    calculateAbsPercentDifference fits c o = none ↔
      fits (c - o) = false ∨ fits ((c - o).abs / o) = false := by
  cases h : calculateAbsPercentDifference fits c o with
  | some v =>
    have := apd_eq_some.mp h
    simp [this.2.1, this.2.2.1]
  | none =>
    simp only [true_iff]
    cases h1 : fits (c - o) with
    | false => exact .inl rfl
    | true =>
      cases h2 : fits ((c - o).abs / o) with
      | false => exact .inr rfl
      | true =>
        have := apd_eq_some.mpr ⟨ho, h1, h2, rfl⟩
        rw [h] at this; cases this

/-- Zero reference: no percentage exists; `None`, no panic. -/
theorem apd_zero_reference (fits : Rat → Bool) (c : Rat) :
    calculateAbsPercentDifference fits c 0 = none :=
  BarterModel.Risk.apd_zero_reference fits c

/-- Negative reference: the code divides by `other`, not by its magnitude, so the "absolute"
difference it returns is the NEGATED documented value (≤ 0, and < 0 unless the values are equal). -/
theorem apd_negative_reference (fits : Rat → Bool) (c o v : Rat) (ho : o < 0)
    (h : calculateAbsPercentDifference fits c o = some v) :
    v = -specAbsPercentDifference c o ∧ v ≤ 0 ∧ (c ≠ o → v < 0) := by
  have := (apd_eq_some.mp h).2.2.2
  rw [code_quotient_neg ho] at this
  have hnn := specApd_nonneg c o
  refine ⟨this, by grind, fun hne => ?_⟩
  have : specAbsPercentDifference c o ≠ 0 := fun h0 =>
    hne ((specApd_eq_zero_iff (by grind)).mp h0)
  grind

theorem specApd_nonneg (c o : Rat) : 0 ≤ specAbsPercentDifference c o :=
  BarterModel.Risk.specApd_nonneg c o

theorem specApd_eq_zero_iff (c o : Rat) (ho : o ≠ 0) : specAbsPercentDifference c o = 0 ↔ c = o :=
  BarterModel.Risk.specApd_eq_zero_iff ho

/-- The sign of the deviation does not matter: 5 % above and 5 % below give the same value. -/
theorem specApd_deviation_symmetric (o d : Rat) :
    specAbsPercentDifference (o + d) o = specAbsPercentDifference (o - d) o := by
  unfold specAbsPercentDifference
  have h1 : o + d - o = d := by grind
  have h2 : o - d - o = -d := by grind
  rw [h1, h2, Rat.abs_neg]

/-- Unit independence: scaling both values by the same non-zero factor changes nothing. -/
theorem specApd_scale_invariant (k c o : Rat) (hk : k ≠ 0) (ho : o ≠ 0) :
    specAbsPercentDifference (k * c) (k * o) = specAbsPercentDifference c o := by
  unfold specAbsPercentDifference
  have h1 : k * c - k * o = k * (c - o) := by grind
  rw [h1, abs_mul, abs_mul]
  have hk' : k.abs ≠ 0 := by have := Rat.abs_pos_iff.mpr hk; grind
  have ho' : o.abs ≠ 0 := by have := Rat.abs_pos_iff.mpr ho; grind
  grind

/-- It is relative to `other`, so it is not symmetric in its arguments; the two readings are related
by the ratio of the magnitudes. -/
theorem specApd_swap (c o : Rat) (hc : c ≠ 0) (ho : o ≠ 0) :
    specAbsPercentDifference c o * o.abs = specAbsPercentDifference o c * c.abs := by
  unfold specAbsPercentDifference
  have hc' : c.abs ≠ 0 := by have := Rat.abs_pos_iff.mpr hc; grind
  have ho' : o.abs ≠ 0 := by have := Rat.abs_pos_iff.mpr ho; grind
  rw [Rat.div_mul_cancel ho', Rat.div_mul_cancel hc', Rat.abs_sub_comm]

/-- "0.05 for a 5% difference". -/
theorem specApd_five_percent :
    specAbsPercentDifference 105 100 = 1 / 20 ∧ specAbsPercentDifference 95 100 = 1 / 20 := by
  decide +kernel

/-! ## F. `calculate_delta` -/

theorem delta_sound (fits : Rat → Bool) (d cs q v : Rat) (side : Side)
    (h : calculateDelta fits d cs side q = some v) : v = specDelta d cs side q :=
  (delta_eq_some.mp h).2.2

theorem delta_complete (fits : Rat → Bool) (d cs q : Rat) (side : Side)
    (h1 : fits (q * cs) = true) (h2 : fits (d * (q * cs)) = true) :
    calculateDelta fits d cs side q = some (specDelta d cs side q) :=
  delta_eq_some.mpr ⟨h1, h2, rfl⟩

/-- It panics exactly when one of its two unchecked multiplications overflows. -/
theorem delta_panics_iff (fits : Rat → Bool) (d cs q : Rat) (side : Side) :
    calculateDelta fits d cs side q = none ↔ fits (q * cs) = false ∨ fits (d * (q * cs)) = false :=
  delta_eq_none

/-- Sell is the negated Buy, including whether it panics. -/
theorem delta_sell_eq_neg_buy (fits : Rat → Bool) (d cs q : Rat) :
    calculateDelta fits d cs .sell q = (calculateDelta fits d cs .buy q).map (fun x => -x) := by
  unfold calculateDelta
  cases checkedMul fits q cs with
  | none => rfl
  | some x => cases h : checkedMul fits d x <;> simp [h]

/-- A long and a short of the same size hedge each other. -/
theorem specDelta_hedge (d cs q : Rat) : specDelta d cs .buy q + specDelta d cs .sell q = 0 := by
  unfold specDelta; grind

theorem specDelta_add_quantity (d cs q₁ q₂ : Rat) (side : Side) :
    specDelta d cs side (q₁ + q₂) = specDelta d cs side q₁ + specDelta d cs side q₂ := by
  cases side <;> unfold specDelta <;> grind

/-- Spot / perpetual / future (instrument delta 1): the delta is the signed exposure. -/
theorem specDelta_linear_instrument (cs q : Rat) :
    specDelta 1 cs .buy q = cs * q ∧ specDelta 1 cs .sell q = -(cs * q) := by
  unfold specDelta; constructor <;> grind

/-- "A positive return value indicates long exposure …, negative … short": with a positive
instrument delta, a Buy is long and a Sell is short; a negative instrument delta (puts) flips it. -/
theorem specDelta_sign (d cs q : Rat) (hcs : 0 < cs) (hq : 0 < q) :
    (0 < d → 0 < specDelta d cs .buy q ∧ specDelta d cs .sell q < 0) ∧
    (d < 0 → specDelta d cs .buy q < 0 ∧ 0 < specDelta d cs .sell q) := by
  unfold specDelta
  constructor
  · intro hd
    have := Rat.mul_pos (Rat.mul_pos hd hcs) hq
    constructor <;> grind
  · intro hd
    have := Rat.mul_pos (Rat.mul_pos (show (0 : Rat) < -d by grind) hcs) hq
    constructor <;> grind

/-- An option's delta lies in [−1, 1]: its exposure never exceeds that of the underlying. -/
theorem specDelta_bounded (d cs q : Rat) (side : Side) (hd : d.abs ≤ 1) (hcs : 0 ≤ cs) (hq : 0 ≤ q) :
    (specDelta d cs side q).abs ≤ cs * q := by
  have key : (d * cs * q).abs ≤ cs * q := by
    rw [abs_mul, abs_mul, Rat.abs_of_nonneg hcs, Rat.abs_of_nonneg hq]
    have := Rat.mul_le_mul_of_nonneg_right hd (Rat.mul_nonneg hcs hq)
    grind
  cases side <;> simp only [specDelta]
  · exact key
  · rw [Rat.abs_neg]; exact key

/-! ## G. The checks composed with the utilities -/

/-- A maximum-notional check refuses exactly the orders whose quantity × price × contract size
exceeds the limit (when nothing overflows). -/
theorem max_notional_check (fits : Rat → Bool) (limit q p c : Rat) (h1 : fits (q * p) = true)
    (h2 : fits (q * p * c) = true) :
    (∃ v, calculateQuoteNotional fits q p c = some v ∧
        (CheckHigherThan.mk limit).check leRat v = .ok ()) ↔ q * p * c ≤ limit := by
  rw [notional_complete fits q p c h1 h2]
  simp [check_dec_passes_iff, specNotional]

/-- A maximum-deviation check on the percentage difference from a positive market price accepts
exactly the prices inside the band `other·(1 − limit) ≤ current ≤ other·(1 + limit)`; both edges
of the band are accepted. -/
theorem price_band_check (fits : Rat → Bool) (limit c o : Rat) (ho : 0 < o)
    (h1 : fits (c - o) = true) (h2 : fits (specAbsPercentDifference c o) = true) :
    (∃ v, calculateAbsPercentDifference fits c o = some v ∧
        (CheckHigherThan.mk limit).check leRat v = .ok ()) ↔
      o * (1 - limit) ≤ c ∧ c ≤ o * (1 + limit) := by
  rw [apd_refines_spec fits c o ho h1 h2]
  simp only [Option.some.injEq, exists_eq_left', check_dec_passes_iff, specAbsPercentDifference]
  rw [Rat.abs_of_nonneg (Rat.le_of_lt ho), div_le_iff_of_pos ho]
  rcases abs_cases (c - o) with ⟨h, e⟩ | ⟨h, e⟩ <;> rw [e] <;> constructor <;> intro h' <;>
    (try constructor) <;> grind

/-! ## H. Link with the engine model of C03

The engine model takes the risk manager's verdict as a parameter `refuse : Key → Bool`
(`Model/Engine.lean: generateAlgoOrders`). `DefaultRiskManager` is the instance `fun _ => false`. -/

theorem default_is_never_refuse {σ ρ : Type} (s : σ) (cancels : List BarterModel.Engine.CancelReq)
    (opens : List BarterModel.Engine.OpenReq) :
    (DefaultRiskManager.check (ρ := ρ) s cancels opens).items =
      (cancels.filter (fun r => !(fun _ => false) r.key), opens.filter (fun r => !(fun _ => false) r.key),
       cancels.filter (fun r => (fun _ => false) r.key), opens.filter (fun r => (fun _ => false) r.key)) := by
  rw [default_refines_spec]
  simp [specApproveAll, filter_const_true, filter_const_false]

/-- With the default risk manager the engine reports no refused request. -/
theorem engine_default_risk_refuses_nothing (e : BarterModel.Engine.Eng)
    (cancels : List BarterModel.Engine.CancelReq) (opens : List BarterModel.Engine.OpenReq) :
    (BarterModel.Engine.generateAlgoOrders e cancels opens (fun _ => false)).2.cancelsRefused = [] ∧
    (BarterModel.Engine.generateAlgoOrders e cancels opens (fun _ => false)).2.opensRefused = [] := by
  simp [BarterModel.Engine.generateAlgoOrders]

/-- Any risk manager that decides request by request — the shape the engine model of C03 assumes
(`refuse : Key → Bool`) — satisfies the `RiskManager` contract `Conserves`. -/
theorem verdict_conserves {κ ο ρ : Type} [DecidableEq κ] [DecidableEq ο] (rc : κ → Bool) (ro : ο → Bool)
    (reason : ρ) (cancels : List κ) (opens : List ο) :
    Conserves cancels opens
      { approvedCancels := (cancels.filter (fun r => !rc r)).map RiskApproved.new,
        approvedOpens := (opens.filter (fun r => !ro r)).map RiskApproved.new,
        refusedCancels := (cancels.filter rc).map (fun r => RiskRefused.new r reason),
        refusedOpens := (opens.filter ro).map (fun r => RiskRefused.new r reason) } := by
  constructor <;> intro x <;>
    simp only [List.map_map, Function.comp_def, RiskApproved.intoItem, RiskApproved.new,
      RiskRefused.intoItem, RiskRefused.new, List.map_id'] <;>
    exact count_filter_partition _ _ x

/-! ## Non-vacuity -/

/-- the overflow hypotheses are satisfiable with the real 96-bit range -/
example : decFits ((2 : Rat) * (201 / 2)) = true ∧ decFits ((2 : Rat) * (201 / 2) * (1 / 100)) = true := by
  decide +kernel

example : calculateQuoteNotional decFits 2 (201 / 2) (1 / 100) = some (201 / 100) := by decide +kernel

example : calculateAbsPercentDifference decFits 105 100 = some (1 / 20) := by decide +kernel

/-- the negative-reference deviation is real: |1 − (−1)| / (−1) = −2 -/
example : calculateAbsPercentDifference decFits 1 (-1) = some (-2) := by decide +kernel

example : calculateDelta decFits (1 / 2) 100 .sell 3 = some (-150) := by decide +kernel

/-- `calculate_delta` can panic: 2 × (1 × (2^96 − 1)) -/
example : calculateDelta decFits 2 79228162514264337593543950335 .buy 1 = none := by decide +kernel

example : ((CheckHigherThan.mk (50 : Rat)).check leRat (5001 / 100)).toBool = false ∧
    ((CheckHigherThan.mk (50 : Rat)).check leRat 50).toBool = true := by
  decide +kernel

/-- `Conserves` is not trivially true: dropping a request violates it -/
example : ¬ Conserves [1, 2] ([] : List Nat)
    ({ approvedCancels := [⟨1⟩], approvedOpens := [], refusedCancels := [], refusedOpens := [] } :
      CheckOut Nat Nat String) := by
  intro h; have := h.1 2; simp [RiskApproved.intoItem] at this

example : (DefaultRiskManager.check (ρ := String) () [1, 1, 2] [7]).items = ([1, 1, 2], [7], [], []) := rfl

/-- **Tie to the source by translation.** `RiskApproved::{new, into_item}`, `RiskRefused::into_item`,
`CheckHigherThan::{new, check}` and `calculate_quote_notional` / `calculate_abs_percent_difference` /
`calculate_delta` (with the four structs) are regenerated from the current `barter/src/risk/mod.rs`,
`barter/src/risk/check/{mod,util}.rs` by `tools/rust2lean_sm.py` on every run
(`Generated/Machines2.lean`, group `risk`) and equal the model's definitions the theorems above are
about, for all arguments: the wrappers through the evident bijections; `check` for every checked type
and EVERY `PartialOrd` implementation (the record parameter `T_ord` of the generated definition, whose
field `le` is the model's `le`); the three
arithmetic helpers at `fits = noOverflow` (the translator's `checked_mul` / `checked_sub` never
overflow) and, for every `fits`, with the same value whenever the model returns one.
`RiskRefused::new`, `Unrecoverable for RiskRefused` and `DefaultRiskManager::check` are outside the
translated subset. The statement is that of `KernelsAgree.RiskSM.risk_sm_agree`
(Lemmas/KernelsAgree/RiskSM.lean). -/
theorem kernels_agree_with_source :
    type_of% BarterModel.KernelsAgree.RiskSM.risk_sm_agree :=
  BarterModel.KernelsAgree.RiskSM.risk_sm_agree

end BarterModel.Props.C03R
