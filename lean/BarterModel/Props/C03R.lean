import BarterModel.Lemmas.Risk
import BarterModel.Model.Engine
import BarterModel.Lemmas.KernelsAgree.RiskSM
/-!
# C03R — risk-check utilities and default risk manager (sub-check of C03)

Statements about the model of `barter/src/risk/**` (`Model/Risk.lean`).

* `fits : Rat → Bool` is an arbitrary predicate on the EXACT result of a checked operation (`none` ⇔
  `fits` is false). Theorems quantified over `fits` (`notional_sound`, `notional_complete`,
  `notional_none_iff`, `delta_*`, `apd_*`) are statements about the exact-arithmetic model
  `calculate… fits`; `fits` decides only overflow of the exact result, and at `fits = decFits` the
  model is the real `Decimal` code only where no operation rounds. That domain is explicit:
  `decExact x` ("x is a `Decimal`": integer mantissa below 2^96, scale ≤ 28) of every INTERMEDIATE
  product in the code's evaluation order; `notional_exact_of_no_rounding`,
  `delta_exact_of_no_rounding` (digit form: `notional_exact_of_digits`).
* `notionalDec` / `deltaDec` are the two helpers over `decMul`, `rust_decimal`'s multiplication WITH
  its rounding (half-to-even to the largest scale whose mantissa fits 96 bits); this is what the
  driver runs and what is compared with the code, also outside the exactness domain (sections D′, F′).
  Rounding of `checked_sub` / `checked_div` is not modelled (section E is exact arithmetic).
* `le : α → α → Bool` is `PartialOrd::le` of the checked type.
* `spec…` functions are the documented mathematical meaning; theorems named `spec…_…` are laws of the
  SPEC function (they never mention `calculate…`); the statements about the code's model carry the
  hypotheses under which it equals the spec and are named without the `spec` prefix.

Definitional / bookkeeping (true by unfolding one definition; kept for the record, not results):
`approved_into_item_new`, `approved_new_into_item`, `refused_new_fields`, `default_refuses_nothing`,
`default_state_independent`, `default_kinds_independent`, `check_name`. All of section B unfolds the
one-line model `cancels.map RiskApproved.new` of `DefaultRiskManager::check`, which is outside the
translated subset: it is tied to the code by sampled correspondence only.

Sections: A wrappers · B `DefaultRiskManager` · C `CheckHigherThan` · D notional (exact model) ·
D′ notional over the real multiplication · E percentage difference · F delta · F′ delta over the real
multiplication · G checks composed with the utilities (what a risk manager built from them decides) ·
H link with the engine model of C03.
-/
namespace BarterModel.Props.C03R
open BarterModel.Risk

/-! ## A. `RiskApproved` / `RiskRefused` are transparent wrappers -/

/-- definitional (`rfl`) -/
theorem approved_into_item_new {α : Type} (a : α) : (RiskApproved.new a).intoItem = a := rfl

/-- definitional (`rfl`) -/
theorem approved_new_into_item {α : Type} (r : RiskApproved α) : RiskApproved.new r.intoItem = r := rfl

theorem approved_new_injective {α : Type} (a b : α) (h : RiskApproved.new a = RiskApproved.new b) :
    a = b := by
  cases h; rfl

/-- definitional (`rfl`) -/
theorem refused_new_fields {α ρ : Type} (a : α) (reason : ρ) :
    (RiskRefused.new a reason).intoItem = a ∧ (RiskRefused.new a reason).reason = reason := ⟨rfl, rfl⟩

/-- A refusal is unrecoverable exactly when its reason is. -/
theorem refused_unrecoverable_iff {α : Type} (r : RiskRefused α EngineErrorKind) :
    r.isUnrecoverable EngineErrorKind.isUnrecoverable = true ↔ r.reason = .unrecoverable := by
  cases r with
  | mk item reason => cases reason <;> simp [RiskRefused.isUnrecoverable, EngineErrorKind.isUnrecoverable]

/-! ## B. `DefaultRiskManager` approves everything

Everything in this section is about the one-line MODEL `cancels.map RiskApproved.new` /
`opens.map RiskApproved.new` / `[]` / `[]`; `DefaultRiskManager::check` itself (`impl IntoIterator`,
iterator adaptors) is outside the translated subset and is tied to this model by the sampled
correspondence only (`rm` ops). -/

/-- Refinement to "approves all orders": the approved outputs are the inputs, nothing is refused —
for every state, every request type, every reason type. -/
theorem default_refines_spec {σ κ ο ρ : Type} (s : σ) (cancels : List κ) (opens : List ο) :
    (DefaultRiskManager.check (ρ := ρ) s cancels opens).items = specApproveAll cancels opens := by
  simp [DefaultRiskManager.check, CheckOut.items, specApproveAll, RiskApproved.intoItem,
    RiskApproved.new, Function.comp_def]

/-- definitional (`rfl`) -/
theorem default_refuses_nothing {σ κ ο ρ : Type} (s : σ) (cancels : List κ) (opens : List ο) :
    (DefaultRiskManager.check (ρ := ρ) s cancels opens).refusedCancels = [] ∧
    (DefaultRiskManager.check (ρ := ρ) s cancels opens).refusedOpens = [] := ⟨rfl, rfl⟩

/-- Order and position are preserved: the `i`-th approved request is the `i`-th input request. -/
theorem default_approves_in_order {σ κ ο ρ : Type} (s : σ) (cancels : List κ) (opens : List ο) (i : Nat) :
    (DefaultRiskManager.check (ρ := ρ) s cancels opens).approvedCancels[i]? =
      cancels[i]?.map RiskApproved.new ∧
    (DefaultRiskManager.check (ρ := ρ) s cancels opens).approvedOpens[i]? =
      opens[i]?.map RiskApproved.new := by
  simp [DefaultRiskManager.check]

theorem default_lengths {σ κ ο ρ : Type} (s : σ) (cancels : List κ) (opens : List ο) :
    (DefaultRiskManager.check (ρ := ρ) s cancels opens).approvedCancels.length = cancels.length ∧
    (DefaultRiskManager.check (ρ := ρ) s cancels opens).approvedOpens.length = opens.length := by
  simp [DefaultRiskManager.check]

/-- Multiplicity is preserved: a request submitted `k` times is approved `k` times. -/
theorem default_multiplicity {σ κ ο ρ : Type} [DecidableEq κ] [DecidableEq ο] (s : σ)
    (cancels : List κ) (opens : List ο) :
    (∀ x, ((DefaultRiskManager.check (ρ := ρ) s cancels opens).approvedCancels.map
        RiskApproved.intoItem).count x = cancels.count x) ∧
    (∀ x, ((DefaultRiskManager.check (ρ := ρ) s cancels opens).approvedOpens.map
        RiskApproved.intoItem).count x = opens.count x) := by
  have h := default_refines_spec (ρ := ρ) s cancels opens
  simp only [CheckOut.items, specApproveAll, Prod.mk.injEq] at h
  exact ⟨fun x => by rw [h.1], fun x => by rw [h.2.1]⟩

/-- The state is never read (definitional: the model does not mention it). -/
theorem default_state_independent {σ σ' κ ο ρ : Type} (s : σ) (s' : σ') (cancels : List κ)
    (opens : List ο) :
    DefaultRiskManager.check (ρ := ρ) s cancels opens = DefaultRiskManager.check s' cancels opens := rfl

/-- Cancels and opens do not influence each other (definitional). -/
theorem default_kinds_independent {σ κ ο ρ : Type} (s : σ) (cancels : List κ) (opens opens' : List ο)
    (cancels' : List κ) :
    (DefaultRiskManager.check (ρ := ρ) s cancels opens).approvedCancels =
      (DefaultRiskManager.check (ρ := ρ) s cancels opens').approvedCancels ∧
    (DefaultRiskManager.check (ρ := ρ) s cancels opens).approvedOpens =
      (DefaultRiskManager.check (ρ := ρ) s cancels' opens).approvedOpens := ⟨rfl, rfl⟩

/-- Checking a batch is checking its parts: no cross-request effect. -/
theorem default_append {σ κ ο ρ : Type} (s : σ) (c₁ c₂ : List κ) (o₁ o₂ : List ο) :
    (DefaultRiskManager.check (ρ := ρ) s (c₁ ++ c₂) (o₁ ++ o₂)).approvedCancels =
      (DefaultRiskManager.check (ρ := ρ) s c₁ o₁).approvedCancels ++
      (DefaultRiskManager.check (ρ := ρ) s c₂ o₂).approvedCancels ∧
    (DefaultRiskManager.check (ρ := ρ) s (c₁ ++ c₂) (o₁ ++ o₂)).approvedOpens =
      (DefaultRiskManager.check (ρ := ρ) s c₁ o₁).approvedOpens ++
      (DefaultRiskManager.check (ρ := ρ) s c₂ o₂).approvedOpens := by
  simp [DefaultRiskManager.check]

/-- The contract of a `RiskManager` (every request ends in exactly one output) holds. -/
theorem default_conserves {σ κ ο ρ : Type} [DecidableEq κ] [DecidableEq ο] (s : σ)
    (cancels : List κ) (opens : List ο) :
    Conserves cancels opens (DefaultRiskManager.check (ρ := ρ) s cancels opens) := by
  have h := default_multiplicity (ρ := ρ) s cancels opens
  refine ⟨fun x => ?_, fun x => ?_⟩
  · rw [h.1]; simp [DefaultRiskManager.check]
  · rw [h.2]; simp [DefaultRiskManager.check]

/-- What `Conserves` gives a caller, for any risk manager: nothing is invented, nothing is lost. -/
theorem conserves_no_invention_no_loss {κ ο ρ : Type} [DecidableEq κ] [DecidableEq ο]
    {cancels : List κ} {opens : List ο} {out : CheckOut κ ο ρ} (h : Conserves cancels opens out) (x : κ) :
    (x ∈ cancels ↔ x ∈ out.approvedCancels.map RiskApproved.intoItem ∨
        x ∈ out.refusedCancels.map RiskRefused.intoItem) := by
  have := h.1 x
  rw [← List.count_pos_iff, ← List.count_pos_iff, ← List.count_pos_iff]
  omega

/-- … and, as lists: approved ++ refused is a rearrangement of the input. -/
theorem conserves_perm {κ ο ρ : Type} [DecidableEq κ] [DecidableEq ο]
    {cancels : List κ} {opens : List ο} {out : CheckOut κ ο ρ} (h : Conserves cancels opens out) :
    List.Perm (out.approvedCancels.map RiskApproved.intoItem ++
      out.refusedCancels.map RiskRefused.intoItem) cancels ∧
    List.Perm (out.approvedOpens.map RiskApproved.intoItem ++
      out.refusedOpens.map RiskRefused.intoItem) opens := by
  constructor
  · rw [List.perm_iff_count]; intro x; rw [List.count_append]; exact h.1 x
  · rw [List.perm_iff_count]; intro x; rw [List.count_append]; exact h.2 x

/-! ## C. `CheckHigherThan`: passes exactly when `input <= limit` -/

theorem check_ok_iff {α : Type} (le : α → α → Bool) (c : CheckHigherThan α) (x : α) :
    c.check le x = .ok () ↔ le x c.limit = true := by
  unfold CheckHigherThan.check
  split <;> simp_all

/-- A failure reports the limit and the offending input, unchanged. -/
theorem check_error_iff {α : Type} (le : α → α → Bool) (c : CheckHigherThan α) (x : α)
    (e : CheckFailHigherThan α) :
    c.check le x = .error e ↔ le x c.limit = false ∧ e = ⟨c.limit, x⟩ := by
  unfold CheckHigherThan.check
  split
  · simp_all
  · simp_all only [Bool.not_eq_true, Except.error.injEq, true_and]
    exact ⟨fun h => h.symm, fun h => h.symm⟩

/-- `Decimal`: the documented inequality, non-strict. -/
theorem check_dec_passes_iff (limit input : Rat) :
    (CheckHigherThan.mk limit).check leRat input = .ok () ↔ input ≤ limit := by
  simp [check_ok_iff, leRat]

theorem check_dec_fails_iff (limit input : Rat) :
    (∃ e, (CheckHigherThan.mk limit).check leRat input = .error e) ↔ limit < input := by
  constructor
  · rintro ⟨e, h⟩
    have := ((check_error_iff _ _ _ _).mp h).1
    simp only [leRat, decide_eq_false_iff_not] at this
    exact Rat.not_le.mp this
  · intro h
    exact ⟨⟨limit, input⟩, (check_error_iff _ _ _ _).mpr ⟨by simp [leRat, Rat.not_le.mpr h], rfl⟩⟩

/-- Boundary: an input equal to the limit passes. -/
theorem check_dec_boundary (limit : Rat) :
    (CheckHigherThan.mk limit).check leRat limit = .ok () :=
  (check_dec_passes_iff limit limit).mpr Rat.le_refl

theorem check_int_passes_iff (limit input : Int) :
    (CheckHigherThan.mk limit).check leInt input = .ok () ↔ input ≤ limit := by
  simp [check_ok_iff, leInt]

/-- Refinement to the documented outcome (verdict and payload). -/
theorem check_dec_refines_spec (limit input : Rat) :
    (CheckHigherThan.mk limit).check leRat input = specCheck limit input := by
  unfold CheckHigherThan.check specCheck leRat
  by_cases h : input ≤ limit <;> simp [h]

/-- `f64`: the decision is "input <= limit" on the extended real line, NaN incomparable
(`specCheckF64` re-spells `F64.le` through `F64.ext`; near-definitional). -/
theorem check_f64_refines_spec (limit input : F64) :
    (CheckHigherThan.mk limit).check F64.le input = specCheckF64 limit input := by
  unfold CheckHigherThan.check specCheckF64
  cases limit <;> cases input <;> simp [F64.le, F64.ext]

/-- The infinities: a limit of +∞ passes every input but NaN, a limit of −∞ passes only −∞; an input
of −∞ passes every limit but NaN, an input of +∞ passes only the limit +∞. -/
theorem check_f64_infinities (x : F64) :
    ((CheckHigherThan.mk F64.pinf).check F64.le x = .ok () ↔ x ≠ .nan) ∧
    ((CheckHigherThan.mk F64.ninf).check F64.le x = .ok () ↔ x = .ninf) ∧
    ((CheckHigherThan.mk x).check F64.le F64.ninf = .ok () ↔ x ≠ .nan) ∧
    ((CheckHigherThan.mk x).check F64.le F64.pinf = .ok () ↔ x = .pinf) := by
  simp only [check_ok_iff]
  cases x <;> simp [F64.le]

/-- The error text claims `input > limit`: true for `Decimal`. -/
theorem check_dec_message_truthful (limit input : Rat) (e : CheckFailHigherThan Rat)
    (h : (CheckHigherThan.mk limit).check leRat input = .error e) :
    e.limit = limit ∧ e.input = input ∧ e.input > e.limit := by
  obtain ⟨h1, rfl⟩ := (check_error_iff _ _ _ _).mp h
  simp only [leRat, decide_eq_false_iff_not] at h1
  exact ⟨rfl, rfl, Rat.not_le.mp h1⟩

/-- Partial orders: a NaN input never passes and nothing passes a NaN limit (there the error text's
`input > limit` is not true either). -/
theorem check_nan_never_passes (x : F64) :
    (CheckHigherThan.mk F64.nan).check F64.le x ≠ .ok () ∧
    (CheckHigherThan.mk x).check F64.le F64.nan ≠ .ok () := by
  constructor <;> rw [Ne, check_ok_iff] <;> cases x <;> simp [F64.le]

/-- Passing is downward closed in the input (any transitive `le`). -/
theorem check_mono_input {α : Type} (le : α → α → Bool)
    (trans : ∀ a b c, le a b = true → le b c = true → le a c = true)
    (c : CheckHigherThan α) (x y : α) (hxy : le x y = true) (hy : c.check le y = .ok ()) :
    c.check le x = .ok () := by
  rw [check_ok_iff] at *
  exact trans _ _ _ hxy hy

/-- Raising the limit never turns a pass into a failure. -/
theorem check_mono_limit {α : Type} (le : α → α → Bool)
    (trans : ∀ a b c, le a b = true → le b c = true → le a c = true)
    (l l' x : α) (hl : le l l' = true) (h : (CheckHigherThan.mk l).check le x = .ok ()) :
    (CheckHigherThan.mk l').check le x = .ok () := by
  rw [check_ok_iff] at *
  exact trans _ _ _ h hl

/-- Two limits on the same quantity are one limit: their minimum. -/
theorem check_dec_two_limits (l₁ l₂ x : Rat) :
    ((CheckHigherThan.mk l₁).check leRat x = .ok () ∧ (CheckHigherThan.mk l₂).check leRat x = .ok ()) ↔
      (CheckHigherThan.mk (if l₁ ≤ l₂ then l₁ else l₂)).check leRat x = .ok () := by
  simp only [check_dec_passes_iff]
  by_cases h : l₁ ≤ l₂ <;> simp only [h, if_true, if_false]
  · exact ⟨fun h' => h'.1, fun h' => ⟨h', Rat.le_trans h' h⟩⟩
  · have h2 : l₂ ≤ l₁ := Rat.le_of_lt (Rat.not_le.mp h)
    exact ⟨fun h' => h'.2, fun h' => ⟨Rat.le_trans h' h2, h'⟩⟩

/-- definitional (`rfl`) -/
theorem check_name : CheckHigherThan.name = "CheckHigherThan" := rfl

/-! ## D. `calculate_quote_notional` = quantity × price × contract size (exact-arithmetic model)

`calculateQuoteNotional fits` multiplies EXACTLY and asks `fits` about each exact product. The
theorems of this section are true of that model for every `fits`; `fits` decides only overflow of
the exact product. They are statements about the real `Decimal` code only under the exactness
hypothesis of section D′ (`notional_exact_of_no_rounding`); outside it the code rounds, and the three
theorems `notional_sound` / `notional_complete` / `notional_none_iff` read at `decFits` are FALSE of
the code (`notional_rounds_then_overflows`, `notional_underflows_to_zero`,
`notional_rounds_into_range`). -/

/-- MODEL (exact arithmetic): whatever is returned is the exact product. Of the code only where no
product rounds (D′). -/
theorem notional_sound (fits : Rat → Bool) (q p c v : Rat)
    (h : calculateQuoteNotional fits q p c = some v) : v = specNotional q p c :=
  (notional_eq_some.mp h).2.2

/-- MODEL (exact arithmetic): a value is returned whenever neither exact product overflows. Of the code
only where no product rounds (D′): the code may round q·p up and then overflow
(`notional_rounds_then_overflows`). -/
theorem notional_complete (fits : Rat → Bool) (q p c : Rat) (h1 : fits (q * p) = true)
    (h2 : fits (q * p * c) = true) :
    calculateQuoteNotional fits q p c = some (specNotional q p c) :=
  notional_eq_some.mpr ⟨h1, h2, rfl⟩

/-- MODEL (exact arithmetic): "Returns None if overflow has occurred" — and only then. Of the code: see
`notional_none_only_on_overflow` (the overflow is that of the ROUNDED first product times the contract size). -/
theorem notional_none_iff (fits : Rat → Bool) (q p c : Rat) :
    calculateQuoteNotional fits q p c = none ↔ fits (q * p) = false ∨ fits (q * p * c) = false :=
  notional_eq_none

/-- Refinement to the documented behaviour. -/
theorem notional_refines_spec (fits : Rat → Bool) (q p c : Rat) :
    NotionalOk (!fits (q * p) || !fits (q * p * c)) (specNotional q p c)
      (calculateQuoteNotional fits q p c) := by
  cases h : calculateQuoteNotional fits q p c with
  | some v => exact .inl (by rw [notional_sound fits q p c v h])
  | none =>
    refine .inr ⟨rfl, ?_⟩
    rcases (notional_none_iff fits q p c).mp h with h | h <;> simp [h]

/-- Per instrument kind: spot has multiplier one, the derivatives their `contract_size`. -/
theorem notional_per_kind (fits : Rat → Bool) (k : Kind) (q p v : Rat)
    (h : calculateQuoteNotional fits q p k.contractSize = some v) : v = specNotionalKind k q p := by
  have := notional_sound fits q p _ v h
  cases k <;> simp_all [specNotional, specNotionalKind, Kind.contractSize, Rat.mul_one]

theorem notional_spot (fits : Rat → Bool) (q p : Rat) (h : fits (q * p) = true) :
    calculateQuoteNotional fits q p Kind.spot.contractSize = some (q * p) := by
  have := notional_complete fits q p 1 h (by simpa [Rat.mul_one] using h)
  simpa [Kind.contractSize, specNotional, Rat.mul_one] using this

/-- Quantity and price may be swapped (the first product is symmetric). -/
theorem notional_swap_quantity_price (fits : Rat → Bool) (q p c : Rat) :
    calculateQuoteNotional fits q p c = calculateQuoteNotional fits p q c := by
  unfold calculateQuoteNotional checkedMul
  rw [Rat.mul_comm q p]

/-- Law of the SPEC function: additive in the quantity (order splitting does not change total
notional). Code side: `notional_add_quantity`. -/
theorem specNotional_add_quantity (q₁ q₂ p c : Rat) :
    specNotional (q₁ + q₂) p c = specNotional q₁ p c + specNotional q₂ p c := by
  unfold specNotional; grind

/-- Law of the SPEC function. Code side: `notional_pos` (needs exactness: `notional_underflows_to_zero`). -/
theorem specNotional_pos (q p c : Rat) (hq : 0 < q) (hp : 0 < p) (hc : 0 < c) :
    0 < specNotional q p c :=
  Rat.mul_pos (Rat.mul_pos hq hp) hc

/-- Law of the SPEC function. Code side: `notional_zero_quantity`. -/
theorem specNotional_zero_quantity (p c : Rat) : specNotional 0 p c = 0 := by
  unfold specNotional; grind

/-- MODEL (exact arithmetic) with the 96-bit range: a multiplier of magnitude ≤ 1 never causes the
second overflow, so the result is `None` exactly when quantity × price overflows. -/
theorem notional_small_multiplier (q p c : Rat) (hc : c.abs ≤ 1) :
    calculateQuoteNotional decFits q p c = none ↔ decFits (q * p) = false := by
  rw [notional_none_iff]
  constructor
  · rintro (h | h)
    · exact h
    · cases h1 : decFits (q * p) with
      | false => rfl
      | true => rw [decFits_mul_of_abs_le_one h1 hc] at h; cases h
  · exact .inl

/-- The order of the multiplications is observable: an intermediate overflow yields `None` although
the notional itself is representable (10¹⁵ × 10¹⁵ × 10⁻¹⁰ = 10²⁰) — in the exact model and over the
real multiplication alike. -/
theorem notional_intermediate_overflow :
    calculateQuoteNotional decFits 1000000000000000 1000000000000000 (1 / 10000000000) = none ∧
    decFits (specNotional 1000000000000000 1000000000000000 (1 / 10000000000)) = true ∧
    notionalDec 1000000000000000 1000000000000000 (1 / 10000000000) = none := by
  decide +kernel

/-! ## D′. `calculate_quote_notional` over the real `Decimal` multiplication (`notionalDec`)

`decMul a b` is what `rust_decimal` stores for `a.checked_mul(b)`: the exact product when it is a
`Decimal` (`decExact`), otherwise the product rounded half-to-even to the largest scale ≤ 28 whose
mantissa fits 96 bits, `none` when scale 0 does not fit. -/

/-- `decExact` is "is a `Decimal`": `± m / 10^e` with `|m| ≤ 2^96 − 1`, `e ≤ 28`. -/
theorem decExact_iff (x : Rat) :
    decExact x = true ↔
      ∃ (m : Int) (e : Nat), e ≤ 28 ∧ m.natAbs ≤ decMantMax ∧ x = (m : Rat) / (10 : Rat) ^ e :=
  BarterModel.Risk.decExact_iff

/-- One multiplication neither rounds nor overflows when its exact product is a `Decimal` … -/
theorem mul_exact_of_no_rounding (a b : Rat) (h : decExact (a * b) = true) :
    decMul a b = some (a * b) ∧ checkedMul decFits a b = some (a * b) :=
  ⟨decMul_exact h, checkedMul_decFits_of_exact h⟩

/-- … for which it suffices, in digits, that the scales add up to at most 28 and the product of the
mantissas fits 96 bits. -/
theorem mul_exact_of_digits (m₁ m₂ : Int) (s₁ s₂ : Nat) (hs : s₁ + s₂ ≤ 28)
    (hm : (m₁ * m₂).natAbs ≤ decMantMax) :
    decMul ((m₁ : Rat) / (10 : Rat) ^ s₁) ((m₂ : Rat) / (10 : Rat) ^ s₂)
      = some (((m₁ : Rat) / (10 : Rat) ^ s₁) * ((m₂ : Rat) / (10 : Rat) ^ s₂)) :=
  decMul_exact (decExact_mul_of_digits m₁ m₂ s₁ s₂ hs hm)

/-- **The exactness domain.** When both intermediate products, in the code's evaluation order
(`quantity · price`, then `(quantity · price) · contract_size`), are exactly representable, the real
multiplication returns the exact product, and coincides with the exact-arithmetic model at the
96-bit range — so every `fits`-parametric theorem of section D, read at `decFits`, is then a
statement about the code. -/
theorem notional_exact_of_no_rounding (q p c : Rat) (h1 : decExact (q * p) = true)
    (h2 : decExact (q * p * c) = true) :
    notionalDec q p c = some (specNotional q p c) ∧
    notionalDec q p c = calculateQuoteNotional decFits q p c := by
  have h := notionalDec_exact h1 h2
  refine ⟨h, ?_⟩
  rw [h, notional_complete decFits q p c (decFits_of_decExact h1) (decFits_of_decExact h2)]
  rfl

/-- The same in digits: the three scales add up to at most 28, the product of the first two
mantissas and the product of all three fit 96 bits. -/
theorem notional_exact_of_digits (mq mp mc : Int) (sq sp sc : Nat) (hs : sq + sp + sc ≤ 28)
    (h1 : (mq * mp).natAbs ≤ decMantMax) (h2 : (mq * mp * mc).natAbs ≤ decMantMax) :
    notionalDec ((mq : Rat) / (10 : Rat) ^ sq) ((mp : Rat) / (10 : Rat) ^ sp) ((mc : Rat) / (10 : Rat) ^ sc)
      = some (specNotional ((mq : Rat) / (10 : Rat) ^ sq) ((mp : Rat) / (10 : Rat) ^ sp)
          ((mc : Rat) / (10 : Rat) ^ sc)) := by
  refine (notional_exact_of_no_rounding _ _ _ (decExact_mul_of_digits mq mp sq sp (by omega) h1) ?_).1
  rw [div_pow_mul_div_pow]
  exact decExact_mul_of_digits (mq * mp) mc (sq + sp) sc hs h2

/-- Whatever the real code returns is itself a `Decimal`. -/
theorem notional_result_is_decimal (q p c v : Rat) (h : notionalDec q p c = some v) :
    decExact v = true := by
  unfold notionalDec at h
  cases h1 : decMul q p with
  | none => rw [h1] at h; cases h
  | some x =>
    rw [h1, Option.bind_some] at h
    exact decRound_is_decimal h

/-- Of the code: `None` only on overflow — of the exact first product, or of the exact product of the
STORED (possibly rounded) first product with the contract size. -/
theorem notional_none_only_on_overflow (q p c : Rat) (h : notionalDec q p c = none) :
    decFits (q * p) = false ∨ ∃ x, decMul q p = some x ∧ decFits (x * c) = false := by
  unfold notionalDec at h
  cases h1 : decMul q p with
  | none => exact .inl (decMul_none_overflow h1)
  | some x =>
    rw [h1, Option.bind_some] at h
    exact .inr ⟨x, rfl, decMul_none_overflow h⟩

/-- Of the code: a product of magnitude 2^96 or more is always `None`; one of magnitude at most
2^96 − 1 never is (it may be rounded). -/
theorem mul_overflow_bounds (a b : Rat) :
    (((decMantMax + 1 : Nat) : Rat) ≤ (a * b).abs → decMul a b = none) ∧
    (decFits (a * b) = true → ∃ v, decMul a b = some v) :=
  ⟨fun h => decRound_none_of_ge h, fun h => decRound_some_of_fits h⟩

/-- What is stored when the code rounds: the mantissa `m` at some scale `e ≤ 28` fits 96 bits and is
within half a unit of the exact `|x|·10^e` (`x = a·b = num/den`; both differences are in units of
`1/den`, natural-number subtraction). -/
theorem mul_rounding_error (a b v : Rat) (h : decMul a b = some v) :
    ∃ e, e ≤ 28 ∧ mantAt (a * b) e ≤ decMantMax ∧ v = decValue (a * b) (mantAt (a * b) e) e ∧
      2 * (mantAt (a * b) e * (a * b).den - (a * b).num.natAbs * 10 ^ e) ≤ (a * b).den ∧
      2 * ((a * b).num.natAbs * 10 ^ e - mantAt (a * b) e * (a * b).den) ≤ (a * b).den := by
  obtain ⟨e, he, hm, hv⟩ := decRound_shape h
  exact ⟨e, he, hm, hv, rneDiv_error _ _ (a * b).den_pos⟩

/-- **Witness (review, excluded point 1).** 79228162514264337593543950335 × 0.5 × 2: every exact
product fits (`decFits`), the exact model returns the exact notional — and the real multiplication
returns `None`: q·p = 39614081257132168796771975167.5 is not a `Decimal`, it is stored as …168, and
…168 × 2 = 2^96 overflows. -/
theorem notional_rounds_then_overflows :
    notionalDec 79228162514264337593543950335 (1 / 2) 2 = none ∧
    decMul 79228162514264337593543950335 (1 / 2) = some 39614081257132168796771975168 ∧
    decExact ((79228162514264337593543950335 : Rat) * (1 / 2)) = false ∧
    decFits ((79228162514264337593543950335 : Rat) * (1 / 2)) = true ∧
    decFits ((79228162514264337593543950335 : Rat) * (1 / 2) * 2) = true ∧
    calculateQuoteNotional decFits 79228162514264337593543950335 (1 / 2) 2
      = some 79228162514264337593543950335 := by
  decide +kernel

/-- **Witness (review, excluded point 2).** 10⁻²⁸ × 10⁻²⁸ × 1: the real multiplication returns 0
(the product 10⁻⁵⁶ has no digit left at scale 28), the exact model 10⁻⁵⁶; the code's result is not
positive although all three factors are. -/
theorem notional_underflows_to_zero :
    notionalDec (1 / 10000000000000000000000000000) (1 / 10000000000000000000000000000) 1 = some 0 ∧
    calculateQuoteNotional decFits (1 / 10000000000000000000000000000)
      (1 / 10000000000000000000000000000) 1
      = some (1 / 100000000000000000000000000000000000000000000000000000000) ∧
    0 < specNotional (1 / 10000000000000000000000000000) (1 / 10000000000000000000000000000) 1 := by
  decide +kernel

/-- **Witness (converse direction).** 631 × 125559687027360281447771712.1 × 1: the exact product
79228162514264337593543950335.1 exceeds the largest `Decimal` (`decFits` false, exact model `None`)
but the real multiplication rounds it INTO range and returns 2^96 − 1. A product of exactly
2^96 − ½ (11447 × 6921303617914242822883196.5) ties to the even 2^96 and overflows. -/
theorem notional_rounds_into_range :
    notionalDec 631 (1255596870273602814477717121 / 10) 1 = some 79228162514264337593543950335 ∧
    decFits ((631 : Rat) * (1255596870273602814477717121 / 10)) = false ∧
    calculateQuoteNotional decFits 631 (1255596870273602814477717121 / 10) 1 = none ∧
    decMul 11447 (69213036179142428228831965 / 10) = none := by
  decide +kernel

/-- Ties go to the even mantissa: 7922816251426433759354395033.5 × 3 = …100.5 is stored as …100,
0.5 × 10⁻²⁸ as 0 and 1.5 × 10⁻²⁸ as 2 × 10⁻²⁸. -/
theorem mul_ties_to_even :
    decMul (79228162514264337593543950335 / 10) 3 = some 23768448754279301278063185100 ∧
    decMul (1 / 10000000000000000000000000000) (1 / 2) = some 0 ∧
    decMul (3 / 10000000000000000000000000000) (1 / 2) = some (2 / 10000000000000000000000000000) := by
  decide +kernel

/-- Of the code, unconditionally: quantity and price may be swapped. -/
theorem notionalDec_swap_quantity_price (q p c : Rat) : notionalDec q p c = notionalDec p q c := by
  unfold notionalDec; rw [decMul_comm]

/-- Of the code, unconditionally: a zero quantity has zero notional (never `None`). -/
theorem notional_zero_quantity (p c : Rat) : notionalDec 0 p c = some 0 := by
  unfold notionalDec; rw [decMul_zero_left, Option.bind_some, decMul_zero_left]

/-- Of the code, on the exactness domain: positive factors give a positive notional (off the domain:
`notional_underflows_to_zero`). -/
theorem notional_pos (q p c v : Rat) (h1 : decExact (q * p) = true) (h2 : decExact (q * p * c) = true)
    (hq : 0 < q) (hp : 0 < p) (hc : 0 < c) (h : notionalDec q p c = some v) : 0 < v := by
  rw [(notional_exact_of_no_rounding q p c h1 h2).1] at h
  cases h; exact specNotional_pos q p c hq hp hc

/-- Of the code, on the exactness domain of the three calls: splitting the quantity does not change
the total notional. -/
theorem notional_add_quantity (q₁ q₂ p c : Rat)
    (h1 : decExact (q₁ * p) = true) (h1' : decExact (q₁ * p * c) = true)
    (h2 : decExact (q₂ * p) = true) (h2' : decExact (q₂ * p * c) = true)
    (h3 : decExact ((q₁ + q₂) * p) = true) (h3' : decExact ((q₁ + q₂) * p * c) = true) :
    ∃ v v₁ v₂, notionalDec (q₁ + q₂) p c = some v ∧ notionalDec q₁ p c = some v₁ ∧
      notionalDec q₂ p c = some v₂ ∧ v = v₁ + v₂ :=
  ⟨_, _, _, (notional_exact_of_no_rounding _ _ _ h3 h3').1, (notional_exact_of_no_rounding _ _ _ h1 h1').1,
    (notional_exact_of_no_rounding _ _ _ h2 h2').1, specNotional_add_quantity q₁ q₂ p c⟩

/-! ## E. `calculate_abs_percent_difference` (exact-arithmetic model)

`calculateAbsPercentDifference fits` subtracts and divides EXACTLY (`fits` decides overflow of the
exact results); the rounding of `checked_sub` / `checked_div` is not modelled (quotients are compared
with a tolerance). `specApd_*` are laws of the SPEC function |current − other| / |other|; the
statements about the code's model (`apd_*`) carry the hypotheses under which it equals the spec —
essentially a positive reference value. -/

/-- Positive reference value (a price): the result is |current − other| / |other|. -/
theorem apd_refines_spec (fits : Rat → Bool) (c o : Rat) (ho : 0 < o) (h1 : fits (c - o) = true)
    (h2 : fits (specAbsPercentDifference c o) = true) :
    calculateAbsPercentDifference fits c o = some (specAbsPercentDifference c o) := by
  rw [← code_quotient_pos ho] at h2 ⊢
  exact apd_eq_some.mpr ⟨by grind, h1, h2, rfl⟩

theorem apd_sound_pos (fits : Rat → Bool) (c o v : Rat) (ho : 0 < o)
    (h : calculateAbsPercentDifference fits c o = some v) :
    v = specAbsPercentDifference c o ∧ 0 ≤ v := by
  have := (apd_eq_some.mp h).2.2.2
  rw [code_quotient_pos ho] at this
  exact ⟨this, this ▸ specApd_nonneg c o⟩

/-- "None if overflow has occurred" — for a non-zero reference only then. -/
theorem apd_none_iff (fits : Rat → Bool) (c o : Rat) (ho : o ≠ 0) :
    calculateAbsPercentDifference fits c o = none ↔
      fits (c - o) = false ∨ fits ((c - o).abs / o) = false := by
  cases h : calculateAbsPercentDifference fits c o with
  | some v =>
    have := apd_eq_some.mp h
    simp [this.2.1, this.2.2.1]
  | none =>
    simp only [true_iff]
    cases h1 : fits (c - o) with
    | false => exact .inl rfl
    | true =>
      cases h2 : fits ((c - o).abs / o) with
      | false => exact .inr rfl
      | true =>
        have := apd_eq_some.mpr ⟨ho, h1, h2, rfl⟩
        rw [h] at this; cases this

/-- Zero reference: no percentage exists; `None`, no panic. -/
theorem apd_zero_reference (fits : Rat → Bool) (c : Rat) :
    calculateAbsPercentDifference fits c 0 = none :=
  BarterModel.Risk.apd_zero_reference fits c

/-- Negative reference: the code divides by `other`, not by its magnitude, so the "absolute"
difference it returns is the NEGATED documented value (≤ 0, and < 0 unless the values are equal). -/
theorem apd_negative_reference (fits : Rat → Bool) (c o v : Rat) (ho : o < 0)
    (h : calculateAbsPercentDifference fits c o = some v) :
    v = -specAbsPercentDifference c o ∧ v ≤ 0 ∧ (c ≠ o → v < 0) := by
  have := (apd_eq_some.mp h).2.2.2
  rw [code_quotient_neg ho] at this
  have hnn := specApd_nonneg c o
  refine ⟨this, by grind, fun hne => ?_⟩
  have : specAbsPercentDifference c o ≠ 0 := fun h0 =>
    hne ((specApd_eq_zero_iff (by grind)).mp h0)
  grind

/-- Law of the SPEC function. Code side: `apd_sound_pos` (`0 < other`), `apd_negative_reference`. -/
theorem specApd_nonneg (c o : Rat) : 0 ≤ specAbsPercentDifference c o :=
  BarterModel.Risk.specApd_nonneg c o

/-- Law of the SPEC function. Code side: `apd_eq_zero_iff`. -/
theorem specApd_eq_zero_iff (c o : Rat) (ho : o ≠ 0) : specAbsPercentDifference c o = 0 ↔ c = o :=
  BarterModel.Risk.specApd_eq_zero_iff ho

/-- Law of the SPEC function: the sign of the deviation does not matter (5 % above and 5 % below give
the same value). Code side: `apd_deviation_symmetric`. -/
theorem specApd_deviation_symmetric (o d : Rat) :
    specAbsPercentDifference (o + d) o = specAbsPercentDifference (o - d) o := by
  unfold specAbsPercentDifference
  have h1 : o + d - o = d := by grind
  have h2 : o - d - o = -d := by grind
  rw [h1, h2, Rat.abs_neg]

/-- Law of the SPEC function: scaling both values by the same non-zero factor changes nothing. Of the
code only for a POSITIVE factor and reference (`apd_scale_invariant`; it fails at k = −1:
`apd_scale_invariant_fails_negative`). -/
theorem specApd_scale_invariant (k c o : Rat) (hk : k ≠ 0) (ho : o ≠ 0) :
    specAbsPercentDifference (k * c) (k * o) = specAbsPercentDifference c o := by
  unfold specAbsPercentDifference
  have h1 : k * c - k * o = k * (c - o) := by grind
  rw [h1, abs_mul, abs_mul]
  have hk' : k.abs ≠ 0 := by have := Rat.abs_pos_iff.mpr hk; grind
  have ho' : o.abs ≠ 0 := by have := Rat.abs_pos_iff.mpr ho; grind
  grind

/-- Law of the SPEC function: it is relative to `other`, so it is not symmetric in its arguments; the
two readings are related by the ratio of the magnitudes. Code side: `apd_swap` (positive values). -/
theorem specApd_swap (c o : Rat) (hc : c ≠ 0) (ho : o ≠ 0) :
    specAbsPercentDifference c o * o.abs = specAbsPercentDifference o c * c.abs := by
  unfold specAbsPercentDifference
  have hc' : c.abs ≠ 0 := by have := Rat.abs_pos_iff.mpr hc; grind
  have ho' : o.abs ≠ 0 := by have := Rat.abs_pos_iff.mpr ho; grind
  rw [Rat.div_mul_cancel ho', Rat.div_mul_cancel hc', Rat.abs_sub_comm]

/-- "0.05 for a 5% difference" (spec function; the code's model: non-vacuity examples below). -/
theorem specApd_five_percent :
    specAbsPercentDifference 105 100 = 1 / 20 ∧ specAbsPercentDifference 95 100 = 1 / 20 := by
  decide +kernel

/-! ### the same laws for the code's model -/

/-- Of the code's model, any non-zero reference: the result is zero exactly for equal values. -/
theorem apd_eq_zero_iff (fits : Rat → Bool) (c o v : Rat)
    (h : calculateAbsPercentDifference fits c o = some v) : v = 0 ↔ c = o := by
  obtain ⟨ho, _, _, rfl⟩ := apd_eq_some.mp h
  constructor
  · intro h0
    have h1 : (c - o).abs = 0 := by
      have := Rat.div_mul_cancel (a := (c - o).abs) ho
      rw [h0] at this; grind
    have := Rat.abs_eq_zero_iff.mp h1
    grind
  · intro hco; subst hco
    have : c - c = 0 := by grind
    rw [this, Rat.abs_zero]; grind

/-- Of the code's model at the 96-bit range, every reference value (zero and negative included): the
sign of the deviation does not matter. -/
theorem apd_deviation_symmetric (o d : Rat) :
    calculateAbsPercentDifference decFits (o + d) o = calculateAbsPercentDifference decFits (o - d) o := by
  have h1 : o + d - o = d := by grind
  have h2 : o - d - o = -d := by grind
  unfold calculateAbsPercentDifference checkedSub
  rw [h1, h2, decFits_neg]
  cases decFits d <;> simp [Rat.abs_neg]

/-- Of the code's model: scale invariance for a POSITIVE factor and a positive reference (the
subtraction of the scaled values must not overflow). -/
theorem apd_scale_invariant (fits : Rat → Bool) (k c o v : Rat) (hk : 0 < k) (ho : 0 < o)
    (h1 : fits (k * c - k * o) = true) (h : calculateAbsPercentDifference fits c o = some v) :
    calculateAbsPercentDifference fits (k * c) (k * o) = some v := by
  obtain ⟨_, _, hf, hv⟩ := apd_eq_some.mp h
  rw [code_quotient_pos ho] at hf hv
  have hko : 0 < k * o := Rat.mul_pos hk ho
  have hs := specApd_scale_invariant k c o (by grind) (by grind)
  rw [hv, ← hs]
  exact apd_refines_spec fits (k * c) (k * o) hko h1 (by rw [hs]; exact hf)

/-- … and it FAILS for a negative factor: (105, 100) gives 0.05, (−105, −100) gives −0.05, while the
spec function gives 0.05 for both. -/
theorem apd_scale_invariant_fails_negative :
    calculateAbsPercentDifference decFits 105 100 = some (1 / 20) ∧
    calculateAbsPercentDifference decFits (-1 * 105) (-1 * 100) = some (-(1 / 20)) ∧
    specAbsPercentDifference (-1 * 105) (-1 * 100) = specAbsPercentDifference 105 100 := by
  decide +kernel

/-- Of the code's model, positive values: the two readings are related by the ratio of the values. -/
theorem apd_swap (fits : Rat → Bool) (c o v w : Rat) (hc : 0 < c) (ho : 0 < o)
    (h1 : calculateAbsPercentDifference fits c o = some v)
    (h2 : calculateAbsPercentDifference fits o c = some w) : v * o = w * c := by
  have e1 := (apd_sound_pos fits c o v ho h1).1
  have e2 := (apd_sound_pos fits o c w hc h2).1
  have := specApd_swap c o (by grind) (by grind)
  rw [Rat.abs_of_nonneg (Rat.le_of_lt ho), Rat.abs_of_nonneg (Rat.le_of_lt hc)] at this
  rw [e1, e2]; exact this

/-! ## F. `calculate_delta` (exact-arithmetic model)

`calculateDelta fits` multiplies EXACTLY; `fits` decides only overflow of the exact products. The
theorems are true of that model for every `fits`; they are statements about the real `Decimal` code
under the exactness hypothesis of section F′ (`delta_exact_of_no_rounding`). `specDelta_*` are laws
of the SPEC function. -/

/-- MODEL (exact arithmetic). Of the code only where no product rounds (F′). -/
theorem delta_sound (fits : Rat → Bool) (d cs q v : Rat) (side : Side)
    (h : calculateDelta fits d cs side q = some v) : v = specDelta d cs side q :=
  (delta_eq_some.mp h).2.2

/-- MODEL (exact arithmetic). Of the code only where no product rounds (F′). -/
theorem delta_complete (fits : Rat → Bool) (d cs q : Rat) (side : Side)
    (h1 : fits (q * cs) = true) (h2 : fits (d * (q * cs)) = true) :
    calculateDelta fits d cs side q = some (specDelta d cs side q) :=
  delta_eq_some.mpr ⟨h1, h2, rfl⟩

/-- MODEL (exact arithmetic): it panics exactly when one of its two unchecked multiplications overflows
(overflow of the EXACT products; of the code: `delta_panics_only_on_overflow`). -/
theorem delta_panics_iff (fits : Rat → Bool) (d cs q : Rat) (side : Side) :
    calculateDelta fits d cs side q = none ↔ fits (q * cs) = false ∨ fits (d * (q * cs)) = false :=
  delta_eq_none

/-- MODEL (exact arithmetic): Sell is the negated Buy, including whether it panics (of the code:
`deltaDec_sell_eq_neg_buy`). -/
theorem delta_sell_eq_neg_buy (fits : Rat → Bool) (d cs q : Rat) :
    calculateDelta fits d cs .sell q = (calculateDelta fits d cs .buy q).map (fun x => -x) := by
  unfold calculateDelta
  cases checkedMul fits q cs with
  | none => rfl
  | some x => cases h : checkedMul fits d x <;> simp [h]

/-- Law of the SPEC function: a long and a short of the same size hedge each other. Code side:
`delta_hedge`. -/
theorem specDelta_hedge (d cs q : Rat) : specDelta d cs .buy q + specDelta d cs .sell q = 0 := by
  unfold specDelta; grind

/-- Law of the SPEC function (code side: through `delta_exact_of_no_rounding`). -/
theorem specDelta_add_quantity (d cs q₁ q₂ : Rat) (side : Side) :
    specDelta d cs side (q₁ + q₂) = specDelta d cs side q₁ + specDelta d cs side q₂ := by
  cases side <;> unfold specDelta <;> grind

/-- Law of the SPEC function: spot / perpetual / future (instrument delta 1): the delta is the signed
exposure. Code side: `delta_linear_instrument`. -/
theorem specDelta_linear_instrument (cs q : Rat) :
    specDelta 1 cs .buy q = cs * q ∧ specDelta 1 cs .sell q = -(cs * q) := by
  unfold specDelta; constructor <;> grind

/-- Law of the SPEC function (code side: `delta_sign`; off the exactness domain the code can return 0,
`delta_underflows_to_zero`). "A positive return value indicates long exposure …, negative … short": with a positive
instrument delta, a Buy is long and a Sell is short; a negative instrument delta (puts) flips it. -/
theorem specDelta_sign (d cs q : Rat) (hcs : 0 < cs) (hq : 0 < q) :
    (0 < d → 0 < specDelta d cs .buy q ∧ specDelta d cs .sell q < 0) ∧
    (d < 0 → specDelta d cs .buy q < 0 ∧ 0 < specDelta d cs .sell q) := by
  unfold specDelta
  constructor
  · intro hd
    have := Rat.mul_pos (Rat.mul_pos hd hcs) hq
    constructor <;> grind
  · intro hd
    have := Rat.mul_pos (Rat.mul_pos (show (0 : Rat) < -d by grind) hcs) hq
    constructor <;> grind

/-- Law of the SPEC function (code side: through `delta_exact_of_no_rounding`): an option's delta lies
in [−1, 1], its exposure never exceeds that of the underlying. -/
theorem specDelta_bounded (d cs q : Rat) (side : Side) (hd : d.abs ≤ 1) (hcs : 0 ≤ cs) (hq : 0 ≤ q) :
    (specDelta d cs side q).abs ≤ cs * q := by
  have key : (d * cs * q).abs ≤ cs * q := by
    rw [abs_mul, abs_mul, Rat.abs_of_nonneg hcs, Rat.abs_of_nonneg hq]
    have := Rat.mul_le_mul_of_nonneg_right hd (Rat.mul_nonneg hcs hq)
    grind
  cases side <;> simp only [specDelta]
  · exact key
  · rw [Rat.abs_neg]; exact key

/-! ## F′. `calculate_delta` over the real `Decimal` multiplication (`deltaDec`) -/

/-- **The exactness domain.** When both products, in the code's evaluation order
(`quantity_in_kind · contract_size`, then `instrument_delta · (that)`), are exactly representable,
the real multiplication returns the documented value (no panic), and coincides with the exact model
at the 96-bit range. Every `specDelta_*` law is a law of the code on this domain. -/
theorem delta_exact_of_no_rounding (d cs q : Rat) (side : Side) (h1 : decExact (q * cs) = true)
    (h2 : decExact (d * (q * cs)) = true) :
    deltaDec d cs side q = some (specDelta d cs side q) ∧
    deltaDec d cs side q = calculateDelta decFits d cs side q := by
  have h := deltaDec_exact (side := side) h1 h2
  exact ⟨h, by rw [h, delta_complete decFits d cs q side (decFits_of_decExact h1) (decFits_of_decExact h2)]⟩

/-- Of the code, unconditionally: Sell is the negated Buy, including whether it panics. -/
theorem deltaDec_sell_eq_neg_buy (d cs q : Rat) :
    deltaDec d cs .sell q = (deltaDec d cs .buy q).map (fun x => -x) := by
  unfold deltaDec
  cases decMul q cs with
  | none => rfl
  | some x =>
    rw [Option.bind_some, Option.bind_some]
    cases h : decMul d x <;> simp

/-- Of the code: a panic only on overflow — of the exact first product, or of the exact product of the
instrument delta with the STORED (possibly rounded) first product. -/
theorem delta_panics_only_on_overflow (d cs q : Rat) (side : Side) (h : deltaDec d cs side q = none) :
    decFits (q * cs) = false ∨ ∃ x, decMul q cs = some x ∧ decFits (d * x) = false := by
  unfold deltaDec at h
  cases h1 : decMul q cs with
  | none => exact .inl (decMul_none_overflow h1)
  | some x =>
    rw [h1, Option.bind_some] at h
    cases h2 : decMul d x with
    | none => exact .inr ⟨x, rfl, decMul_none_overflow h2⟩
    | some y => rw [h2] at h; cases h

/-- **Witness (review, excluded point 3).** delta 1, contract size 10⁻²⁸, Buy 10⁻²⁸: the real
multiplication returns 0, the exact model 10⁻⁵⁶ (positive delta, positive size and quantity, and
yet no long exposure reported). -/
theorem delta_underflows_to_zero :
    deltaDec 1 (1 / 10000000000000000000000000000) .buy (1 / 10000000000000000000000000000) = some 0 ∧
    calculateDelta decFits 1 (1 / 10000000000000000000000000000) .buy (1 / 10000000000000000000000000000)
      = some (1 / 100000000000000000000000000000000000000000000000000000000) := by
  decide +kernel

/-- Of the code, unconditionally: a long and a short of the same size hedge each other whenever the
code returns at all. -/
theorem delta_hedge (d cs q b s : Rat) (hb : deltaDec d cs .buy q = some b)
    (hs : deltaDec d cs .sell q = some s) : b + s = 0 := by
  rw [deltaDec_sell_eq_neg_buy, hb] at hs
  cases hs; grind

/-- Of the code, on the exactness domain: instrument delta 1 gives the signed exposure. -/
theorem delta_linear_instrument (cs q : Rat) (h1 : decExact (q * cs) = true) :
    deltaDec 1 cs .buy q = some (cs * q) ∧ deltaDec 1 cs .sell q = some (-(cs * q)) := by
  have h2 : decExact (1 * (q * cs)) = true := by rw [Rat.one_mul]; exact h1
  rw [(delta_exact_of_no_rounding 1 cs q .buy h1 h2).1, (delta_exact_of_no_rounding 1 cs q .sell h1 h2).1,
    (specDelta_linear_instrument cs q).1, (specDelta_linear_instrument cs q).2]
  exact ⟨rfl, rfl⟩

/-- Of the code, on the exactness domain: with a positive instrument delta a Buy is long and a Sell
short; a negative instrument delta flips it. -/
theorem delta_sign (d cs q b s : Rat) (h1 : decExact (q * cs) = true)
    (h2 : decExact (d * (q * cs)) = true) (hcs : 0 < cs) (hq : 0 < q)
    (hb : deltaDec d cs .buy q = some b) (hs : deltaDec d cs .sell q = some s) :
    (0 < d → 0 < b ∧ s < 0) ∧ (d < 0 → b < 0 ∧ 0 < s) := by
  rw [(delta_exact_of_no_rounding d cs q .buy h1 h2).1] at hb
  rw [(delta_exact_of_no_rounding d cs q .sell h1 h2).1] at hs
  cases hb; cases hs
  exact specDelta_sign d cs q hcs hq

/-! ## G. The checks composed with the utilities (exact-arithmetic model; of the code on the exactness domain) -/

/-- A maximum-notional check refuses exactly the orders whose quantity × price × contract size
exceeds the limit (when nothing overflows). -/
theorem max_notional_check (fits : Rat → Bool) (limit q p c : Rat) (h1 : fits (q * p) = true)
    (h2 : fits (q * p * c) = true) :
    (∃ v, calculateQuoteNotional fits q p c = some v ∧
        (CheckHigherThan.mk limit).check leRat v = .ok ()) ↔ q * p * c ≤ limit := by
  rw [notional_complete fits q p c h1 h2]
  simp [check_dec_passes_iff, specNotional]

/-- A maximum-deviation check on the percentage difference from a positive market price accepts
exactly the prices inside the band `other·(1 − limit) ≤ current ≤ other·(1 + limit)`; both edges
of the band are accepted. -/
theorem price_band_check (fits : Rat → Bool) (limit c o : Rat) (ho : 0 < o)
    (h1 : fits (c - o) = true) (h2 : fits (specAbsPercentDifference c o) = true) :
    (∃ v, calculateAbsPercentDifference fits c o = some v ∧
        (CheckHigherThan.mk limit).check leRat v = .ok ()) ↔
      o * (1 - limit) ≤ c ∧ c ≤ o * (1 + limit) := by
  rw [apd_refines_spec fits c o ho h1 h2]
  simp only [Option.some.injEq, exists_eq_left', check_dec_passes_iff, specAbsPercentDifference]
  rw [Rat.abs_of_nonneg (Rat.le_of_lt ho), div_le_iff_of_pos ho]
  rcases abs_cases (c - o) with ⟨h, e⟩ | ⟨h, e⟩ <;> rw [e] <;> constructor <;> intro h' <;>
    (try constructor) <;> grind

/-- Of the code, on the exactness domain: a maximum-notional check over the real multiplication refuses
exactly the orders whose quantity × price × contract size exceeds the limit. -/
theorem max_notional_check_dec (limit q p c : Rat) (h1 : decExact (q * p) = true)
    (h2 : decExact (q * p * c) = true) :
    (∃ v, notionalDec q p c = some v ∧
        (CheckHigherThan.mk limit).check leRat v = .ok ()) ↔ q * p * c ≤ limit := by
  rw [(notional_exact_of_no_rounding q p c h1 h2).1]
  simp [check_dec_passes_iff, specNotional]

/-! ## H. Link with the engine model of C03

The engine model takes the risk manager's verdict as a parameter `refuse : Key → Bool`
(`Model/Engine.lean: generateAlgoOrders`) and splits the requests by it with four `List.filter`s.
What is stated here, and what is not:

* `default_is_never_refuse`: the four lists of the MODEL of `DefaultRiskManager::check` are those four
  filters at `refuse = fun _ => false`. Its right-hand side is the filter expression written out, not
  a projection of `generateAlgoOrders`.
* `engine_step_of_risk_output` closes that gap inside the models: for ANY `CheckOut` whose four lists
  are the four filters of a verdict `refuse`, `Engine.generateAlgoOrders e cancels opens refuse` IS
  the engine step computed from that `CheckOut` (send the approved requests, record them, report the
  refused ones); `engine_step_with_default_risk_manager` instantiates it with
  `DefaultRiskManager.check`.
* `engine_default_risk_refuses_nothing` is a fact about the engine model at the constant verdict.
* NOT stated: that the Rust engine calls `RiskManager::check` and routes its four iterators this way —
  that is the engine model of C03 (tied by C03's own correspondence), and `DefaultRiskManager::check`
  is tied to its model by sampling only (section B). -/

theorem default_is_never_refuse {σ ρ : Type} (s : σ) (cancels : List BarterModel.Engine.CancelReq)
    (opens : List BarterModel.Engine.OpenReq) :
    (DefaultRiskManager.check (ρ := ρ) s cancels opens).items =
      (cancels.filter (fun r => !(fun _ => false) r.key), opens.filter (fun r => !(fun _ => false) r.key),
       cancels.filter (fun r => (fun _ => false) r.key), opens.filter (fun r => (fun _ => false) r.key)) := by
  rw [default_refines_spec]
  simp [specApproveAll, filter_const_true, filter_const_false]

/-- With the default risk manager the engine reports no refused request. -/
theorem engine_default_risk_refuses_nothing (e : BarterModel.Engine.Eng)
    (cancels : List BarterModel.Engine.CancelReq) (opens : List BarterModel.Engine.OpenReq) :
    (BarterModel.Engine.generateAlgoOrders e cancels opens (fun _ => false)).2.cancelsRefused = [] ∧
    (BarterModel.Engine.generateAlgoOrders e cancels opens (fun _ => false)).2.opensRefused = [] := by
  simp [BarterModel.Engine.generateAlgoOrders]

/-- The engine step of `generate_algo_orders` computed from a risk manager's OUTPUT (instead of from a
verdict function): send the approved cancels, then the approved opens, record what was sent, report
the refused. -/
def engineStepFrom {ρ : Type} (e : BarterModel.Engine.Eng)
    (out : CheckOut BarterModel.Engine.CancelReq BarterModel.Engine.OpenReq ρ) :
    BarterModel.Engine.Eng × BarterModel.Engine.AlgoOut :=
  let r1 := BarterModel.Engine.sendRequests e BarterModel.Engine.Req.cnl out.items.1
  let r2 := BarterModel.Engine.sendRequests r1.1 BarterModel.Engine.Req.opn out.items.2.1
  (BarterModel.Engine.recordOpens (BarterModel.Engine.recordCancels r2.1 r1.2.sent) r2.2.sent,
    ⟨r1.2, r2.2, out.items.2.2.1, out.items.2.2.2⟩)

/-- The link as a term of the engine model: whenever a risk manager's output is the per-request
split by a verdict `refuse`, the engine model instantiated with that verdict is the engine step fed
with that output. -/
theorem engine_step_of_risk_output {ρ : Type} (e : BarterModel.Engine.Eng)
    (cancels : List BarterModel.Engine.CancelReq) (opens : List BarterModel.Engine.OpenReq)
    (refuse : BarterModel.Engine.Key → Bool)
    (out : CheckOut BarterModel.Engine.CancelReq BarterModel.Engine.OpenReq ρ)
    (h : out.items = (cancels.filter (fun r => !refuse r.key), opens.filter (fun r => !refuse r.key),
      cancels.filter (fun r => refuse r.key), opens.filter (fun r => refuse r.key))) :
    BarterModel.Engine.generateAlgoOrders e cancels opens refuse = engineStepFrom e out := by
  unfold engineStepFrom
  rw [h]
  rfl

/-- … in particular the engine model at `refuse = fun _ => false` is the engine step fed with the
output of (the model of) `DefaultRiskManager::check`, whatever the state handed to it. -/
theorem engine_step_with_default_risk_manager {σ ρ : Type} (s : σ) (e : BarterModel.Engine.Eng)
    (cancels : List BarterModel.Engine.CancelReq) (opens : List BarterModel.Engine.OpenReq) :
    BarterModel.Engine.generateAlgoOrders e cancels opens (fun _ => false)
      = engineStepFrom e (DefaultRiskManager.check (ρ := ρ) s cancels opens) :=
  engine_step_of_risk_output e cancels opens (fun _ => false) _ (default_is_never_refuse s cancels opens)

/-- Any risk manager that decides request by request — the shape the engine model of C03 assumes
(`refuse : Key → Bool`) — satisfies the `RiskManager` contract `Conserves`. -/
theorem verdict_conserves {κ ο ρ : Type} [DecidableEq κ] [DecidableEq ο] (rc : κ → Bool) (ro : ο → Bool)
    (reason : ρ) (cancels : List κ) (opens : List ο) :
    Conserves cancels opens
      { approvedCancels := (cancels.filter (fun r => !rc r)).map RiskApproved.new,
        approvedOpens := (opens.filter (fun r => !ro r)).map RiskApproved.new,
        refusedCancels := (cancels.filter rc).map (fun r => RiskRefused.new r reason),
        refusedOpens := (opens.filter ro).map (fun r => RiskRefused.new r reason) } := by
  constructor <;> intro x <;>
    simp only [List.map_map, Function.comp_def, RiskApproved.intoItem, RiskApproved.new,
      RiskRefused.intoItem, RiskRefused.new, List.map_id'] <;>
    exact count_filter_partition _ _ x

/-! ## Non-vacuity -/

/-- the overflow hypotheses are satisfiable with the real 96-bit range -/
example : decFits ((2 : Rat) * (201 / 2)) = true ∧ decFits ((2 : Rat) * (201 / 2) * (1 / 100)) = true := by
  decide +kernel

example : calculateQuoteNotional decFits 2 (201 / 2) (1 / 100) = some (201 / 100) := by decide +kernel

/-- the exactness hypotheses are satisfiable, also at the edge of the range (2^96 − 1 itself, scale 28) -/
example : decExact ((2 : Rat) * (201 / 2)) = true ∧ decExact ((2 : Rat) * (201 / 2) * (1 / 100)) = true ∧
    notionalDec 2 (201 / 2) (1 / 100) = some (201 / 100) ∧
    decExact (79228162514264337593543950335 : Rat) = true ∧
    decExact (79228162514264337593543950335 / 10000000000000000000000000000 : Rat) = true ∧
    decExact (1 / 10000000000000000000000000000 : Rat) = true ∧
    decExact (79228162514264337593543950336 : Rat) = false ∧
    decExact (1 / 100000000000000000000000000000 : Rat) = false ∧ decExact (1 / 3 : Rat) = false := by
  decide +kernel

/-- `deltaDec` on the exactness domain, and its panic -/
example : deltaDec (1 / 2) 100 .sell 3 = some (-150) ∧
    deltaDec 2 79228162514264337593543950335 .buy 1 = none := by decide +kernel

example : calculateAbsPercentDifference decFits 105 100 = some (1 / 20) := by decide +kernel

/-- the negative-reference deviation is real: |1 − (−1)| / (−1) = −2 -/
example : calculateAbsPercentDifference decFits 1 (-1) = some (-2) := by decide +kernel

example : calculateDelta decFits (1 / 2) 100 .sell 3 = some (-150) := by decide +kernel

/-- `calculate_delta` can panic: 2 × (1 × (2^96 − 1)) -/
example : calculateDelta decFits 2 79228162514264337593543950335 .buy 1 = none := by decide +kernel

example : ((CheckHigherThan.mk (50 : Rat)).check leRat (5001 / 100)).toBool = false ∧
    ((CheckHigherThan.mk (50 : Rat)).check leRat 50).toBool = true := by
  decide +kernel

/-- `Conserves` is not trivially true: dropping a request violates it -/
example : ¬ Conserves [1, 2] ([] : List Nat)
    ({ approvedCancels := [⟨1⟩], approvedOpens := [], refusedCancels := [], refusedOpens := [] } :
      CheckOut Nat Nat String) := by
  intro h; have := h.1 2; simp [RiskApproved.intoItem] at this

example : (DefaultRiskManager.check (ρ := String) () [1, 1, 2] [7]).items = ([1, 1, 2], [7], [], []) := rfl

/-- **Tie to the source by translation.** `RiskApproved::{new, into_item}`, `RiskRefused::into_item`,
`CheckHigherThan::{new, check}` and `calculate_quote_notional` / `calculate_abs_percent_difference` /
`calculate_delta` (with the four structs) are regenerated from the current `barter/src/risk/mod.rs`,
`barter/src/risk/check/{mod,util}.rs` by `tools/rust2lean_sm.py` on every run
(`Generated/Machines2.lean`, group `risk`) and equal the model's definitions the theorems above are
about, for all arguments: the wrappers through the evident bijections; `check` for every checked type
and EVERY `PartialOrd` implementation (the record parameter `T_ord` of the generated definition, whose
field `le` is the model's `le`); the three
arithmetic helpers at `fits = noOverflow` (the translator's `checked_mul` / `checked_sub` never
overflow) and, for every `fits`, with the same value whenever the model returns one.
The tie by translation is to the EXACT-arithmetic model; the rounding of `rust_decimal`'s
multiplication (`decMul`, sections D′ / F′) is outside the translator's prelude and is tied to the
code by the sampled correspondence (edge-of-range generator, `corpus/C03R/edge.ops`).
`RiskRefused::new`, `Unrecoverable for RiskRefused` and `DefaultRiskManager::check` are outside the
translated subset (sampled correspondence only). The statement is that of `KernelsAgree.RiskSM.risk_sm_agree`
(Lemmas/KernelsAgree/RiskSM.lean). -/
theorem kernels_agree_with_source :
    type_of% BarterModel.KernelsAgree.RiskSM.risk_sm_agree :=
  BarterModel.KernelsAgree.RiskSM.risk_sm_agree

end BarterModel.Props.C03R
