import BarterModel.Lemmas.TearSheet
import BarterModel.Lemmas.KernelsAgree.Metric
import BarterModel.Lemmas.KernelsAgree.PnLReturnsSM
/-!
# C16 — Tear-sheet PnL, win rate and profit factor match the closed positions

Statements only (helper lemmas are in `Lemmas/TearSheet.lean`). `ps` is any finite list of closed
positions (oldest first), fed one by one to a fresh `TearSheetGenerator`
(`TearSheetGenerator.init.run ps`); `generate` is the tear sheet it then reports. The spec side
(`specPnl`, `specWinRate`, `specProfitFactor`, `ret`, `wins`, `losers`, `grossWin`, `grossLoss`,
`historyOf`, `balancesOf`, `latest`) is defined in `Model/TearSheet.lean` from the property text.

No hypothesis on `ps` is needed for the identities. What the *code* needs: every position has
`price_entry_average * quantity_abs_max ≠ 0`, otherwise `calculate_pnl_return` panics (a `Decimal`
division by zero) — the model's `Closed.panics`, mirrored by the driver as `panic`; at those points
the theorems talk about Lean's `x / 0 = 0` and say nothing about the code. `Valid` names the
non-panicking histories and is shown satisfiable below.

The trading-summary theorems are stated for `n` instruments and `m` assets and any event history,
for both ways a summary is produced: from the engine (`engineSummary`:
`Engine::trading_summary_generator(..).generate(..)`) and from a generator that is updated directly
(`directSummary`).
-/
namespace BarterModel.Props.C16
open BarterModel.TearSheet

/-- Histories on which the code does not panic. -/
def Valid (ps : List Closed) : Prop := ∀ p ∈ ps, p.priceEntryAverage * p.quantityAbsMax ≠ 0

/-- `Valid` is exactly "the driver's / harness's `panic` guard never fires". -/
theorem valid_iff_no_panic (ps : List Closed) : Valid ps ↔ ∀ p ∈ ps, p.panics = false := by
  simp [Valid, Closed.panics]

/-- The tear sheet reported after the closed positions `ps`. -/
def sheet (ps : List Closed) : TearSheet := (TearSheetGenerator.init.run ps).generate

/-- (1) The tear sheet's PnL is the sum of the realised PnL of the closed positions. -/
theorem pnl_eq_sum (ps : List Closed) : (sheet ps).pnl = specPnl ps := by
  have := (run_init ps).1
  simpa [sheet, TearSheetGenerator.generate] using this

/-- (2) The win rate is the fraction of closed positions whose return is not negative, and is
absent exactly when there is no closed position. -/
theorem win_rate_eq (ps : List Closed) : (sheet ps).winRate = specWinRate ps := by
  obtain ⟨_, h2, _, h4, _⟩ := run_init ps
  simp only [sheet, TearSheetGenerator.generate, WinRate.calculate, specWinRate]
  rw [h2, h4]
  by_cases hn : ps.length = 0
  · simp [hn]
  · have hne : ¬ ((ps.length : Rat) = 0) := by
      simpa [Rat.natCast_eq_zero_iff] using hn
    simp only [hn, hne, ↓reduceIte, Option.some.injEq]
    have hlen := length_wins_add_losers ps
    have hw : (ps.length : Rat) - ((losers ps).length : Rat) = ((wins ps).length : Rat) := by
      rw [← hlen, Rat.natCast_add]; grind
    rw [hw, ratAbs_of_nonneg Rat.natCast_nonneg, ratAbs_of_nonneg Rat.natCast_nonneg]

theorem win_rate_none_iff (ps : List Closed) : (sheet ps).winRate = none ↔ ps = [] := by
  rw [win_rate_eq, specWinRate]
  by_cases hn : ps.length = 0
  · simp [List.eq_nil_of_length_eq_zero hn]
  · simp only [hn, ↓reduceIte, reduceCtorEq, false_iff]
    intro h; exact hn (by simp [h])

/-- (3) The profit factor is the gross winning returns over the gross losing returns, absent when
both are zero (in particular without positions), `Decimal::MAX` when only the gross loss is zero,
`Decimal::MIN` when only the gross win is zero. -/
theorem profit_factor_eq (ps : List Closed) :
    (sheet ps).profitFactor = (specProfitFactor ps).toOption := by
  obtain ⟨_, _, h3, _, h5⟩ := run_init ps
  simp only [sheet, TearSheetGenerator.generate, ProfitFactor.calculate, specProfitFactor]
  rw [h3, h5]
  have hw := grossWin_nonneg ps
  have hl := grossLoss_nonneg ps
  have e1 : grossWin ps - grossLoss ps - -grossLoss ps = grossWin ps := by grind
  have e2 : (-grossLoss ps = 0) ↔ (grossLoss ps = 0) := by grind
  rw [e1]
  simp only [e2]
  by_cases hW : grossWin ps = 0 <;> by_cases hL : grossLoss ps = 0 <;>
    simp [hW, hL, PF.toOption, ratAbs_of_nonneg hw, ratAbs_neg_of_nonneg hl]

/-- The conventions of (3) in terms of positions: the gross loss is zero exactly when no closed
position has a negative return … -/
theorem gross_loss_zero_iff (ps : List Closed) : grossLoss ps = 0 ↔ losers ps = [] := by
  have h := sumRat_neg_eq_zero ((losers ps).map ret) (by
    intro x hx
    obtain ⟨p, hp, rfl⟩ := List.mem_map.mp hx
    exact (mem_losers.mp hp).2)
  unfold grossLoss
  constructor
  · intro h0
    have : sumRat ((losers ps).map ret) = 0 := by grind
    simpa using h.mp this
  · intro h0; rw [h0]; simp

/-- … and the gross win is zero exactly when no closed position has a positive return (break-even
positions count as wins for the win rate but add nothing to the gross win). -/
theorem gross_win_zero_iff (ps : List Closed) : grossWin ps = 0 ↔ ∀ p ∈ ps, ret p ≤ 0 := by
  have h := sumRat_nonneg_eq_zero ((wins ps).map ret) (by
    intro x hx
    obtain ⟨p, hp, rfl⟩ := List.mem_map.mp hx
    exact (mem_wins.mp hp).2)
  unfold grossWin
  rw [h]
  constructor
  · intro h0 p hp
    by_cases hr : 0 ≤ ret p
    · have := h0 (ret p) (List.mem_map.mpr ⟨p, mem_wins.mpr ⟨hp, hr⟩, rfl⟩)
      rw [this]; exact Rat.le_refl
    · have := Rat.not_le.mp hr; grind
  · intro h0 x hx
    obtain ⟨p, hp, rfl⟩ := List.mem_map.mp hx
    have h1 := (mem_wins.mp hp).2
    have h2 := h0 p (mem_wins.mp hp).1
    grind

/-- (1)–(3) together: the generated tear sheet is the one the property prescribes. -/
theorem tear_sheet_refines_spec (ps : List Closed) : sheet ps = specTearSheet ps := by
  have h1 := pnl_eq_sum ps
  have h2 := win_rate_eq ps
  have h3 := profit_factor_eq ps
  cases hs : sheet ps with
  | mk a b c =>
    rw [hs] at h1 h2 h3
    simp only at h1 h2 h3
    simp [specTearSheet, h1, h2, h3]

/-- The win rate lies in `[0, 1]`. -/
theorem win_rate_bounds (ps : List Closed) (w : Rat) (h : (sheet ps).winRate = some w) :
    0 ≤ w ∧ w ≤ 1 := by
  rw [win_rate_eq, specWinRate] at h
  by_cases hn : ps.length = 0
  · simp [hn] at h
  · simp only [hn, ↓reduceIte, Option.some.injEq] at h
    have hlen := length_wins_add_losers ps
    have hpos : (0 : Rat) < (ps.length : Rat) := Rat.natCast_pos.mpr (by omega)
    have hle : ((wins ps).length : Rat) ≤ (ps.length : Rat) := Rat.natCast_le_natCast.mpr (by omega)
    have h0 : (0 : Rat) ≤ ((wins ps).length : Rat) := Rat.natCast_nonneg
    subst h
    have hinv : (0 : Rat) < (ps.length : Rat)⁻¹ := Rat.inv_pos.mpr hpos
    rw [Rat.div_def]
    constructor
    · exact Rat.mul_nonneg h0 (Rat.le_of_lt hinv)
    · have := Rat.mul_le_mul_of_nonneg_right hle (Rat.le_of_lt hinv)
      rwa [Rat.mul_inv_cancel _ (Rat.ne_of_gt hpos)] at this

/-- (4a) Engine path, instruments: for every instrument `i < n`, the summary returned by
`Engine::trading_summary_generator(..).generate(..)` holds, under `i`, the tear sheet of exactly
`i`'s own closed positions; and it has exactly `n` instrument entries. -/
theorem engine_summary_instrument (n m : Nat) (evs : List Ev) :
    (engineSummary n m evs).instruments.length = n ∧
    ∀ i, i < n →
      (engineSummary n m evs).instruments[i]? = some (specTearSheet (historyOf i evs)) := by
  constructor
  · simp [engineSummary, TradingSummaryGenerator.generate, TradingSummaryGenerator.init,
      (EngState.run_lengths _ evs).1, EngState.init]
  · intro i hi
    have h0 : (EngState.init n m).instruments[i]? = some TearSheetGenerator.init := by
      simp [EngState.init, hi]
    have := EngState.run_instrument _ evs i _ h0
    simp only [engineSummary, TradingSummaryGenerator.generate, TradingSummaryGenerator.init,
      List.getElem?_map, this, Option.map_some]
    exact congrArg some (tear_sheet_refines_spec _)

/-- (4b) Engine path, assets: under asset `a < m` the summary holds the tear sheet of exactly
`a`'s own balance history — it ends with the most recent snapshot (by exchange time) of `a`. -/
theorem engine_summary_asset (n m : Nat) (evs : List Ev) :
    (engineSummary n m evs).assets.length = m ∧
    ∀ a, a < m →
      (engineSummary n m evs).assets[a]? = some (specAssetEngine (balancesOf a evs)) := by
  constructor
  · simp [engineSummary, TradingSummaryGenerator.generate, TradingSummaryGenerator.init,
      (EngState.run_lengths _ evs).2, EngState.init]
  · intro a ha
    have h0 : (EngState.init n m).assets[a]? = some AssetState.default := by
      simp [EngState.init, ha]
    have := EngState.run_asset _ evs a _ h0
    simp only [engineSummary, TradingSummaryGenerator.generate, TradingSummaryGenerator.init,
      List.getElem?_map, this, Option.map_some]
    simp [TearSheetAssetGenerator.generate, specAssetEngine, (AssetState.run_default _).2]

/-- (4c) Direct path, instruments: a `TradingSummaryGenerator` updated with
`update_from_position` reports, under `i`, the tear sheet of exactly `i`'s closed positions. -/
theorem direct_summary_instrument (n m : Nat) (evs : List Ev) :
    (directSummary n m evs).instruments.length = n ∧
    ∀ i, i < n →
      (directSummary n m evs).instruments[i]? = some (specTearSheet (historyOf i evs)) := by
  constructor
  · simp [directSummary, TradingSummaryGenerator.generate,
      (TradingSummaryGenerator.run_lengths _ evs).1, TradingSummaryGenerator.init, EngState.init]
  · intro i hi
    have h0 : (TradingSummaryGenerator.init (EngState.init n m)).instruments[i]? =
        some TearSheetGenerator.init := by
      simp [TradingSummaryGenerator.init, EngState.init, hi]
    have := TradingSummaryGenerator.run_instrument _ evs i _ h0
    simp only [directSummary, TradingSummaryGenerator.generate, List.getElem?_map, this,
      Option.map_some]
    exact congrArg some (tear_sheet_refines_spec _)

/-- (4d) Direct path, assets: under `a` the summary ends with the last balance given for `a`. -/
theorem direct_summary_asset (n m : Nat) (evs : List Ev) :
    (directSummary n m evs).assets.length = m ∧
    ∀ a, a < m →
      (directSummary n m evs).assets[a]? = some (specAssetDirect (balancesOf a evs)) := by
  constructor
  · simp [directSummary, TradingSummaryGenerator.generate,
      (TradingSummaryGenerator.run_lengths _ evs).2, TradingSummaryGenerator.init, EngState.init]
  · intro a ha
    have h0 : (TradingSummaryGenerator.init (EngState.init n m)).assets[a]? =
        some TearSheetAssetGenerator.default := by
      simp [TradingSummaryGenerator.init, EngState.init, ha, AssetState.default]
    have := TradingSummaryGenerator.run_asset _ evs a _ h0
    simp only [directSummary, TradingSummaryGenerator.generate, List.getElem?_map, this,
      Option.map_some]
    simp only [TearSheetAssetGenerator.generate, specAssetDirect,
      TearSheetAssetGenerator.run_balanceNow, Option.some.injEq, TearSheetAsset.mk.injEq]
    cases (balancesOf a evs).getLast? <;> simp [TearSheetAssetGenerator.default]

/-- The engine path and the direct path agree on every instrument entry (the asset entries differ
only in that the engine drops snapshots older than the one it holds). -/
theorem engine_direct_instruments_agree (n m : Nat) (evs : List Ev) :
    (engineSummary n m evs).instruments = (directSummary n m evs).instruments := by
  apply List.ext_getElem?
  intro i
  have he := engine_summary_instrument n m evs
  have hd := direct_summary_instrument n m evs
  by_cases hi : i < n
  · rw [he.2 i hi, hd.2 i hi]
  · rw [List.getElem?_eq_none (by omega), List.getElem?_eq_none (by omega)]

/-! ## Non-vacuity and sanity: concrete histories (also the DESIGN §8 F7 witness, which the repaired
code now gets right). -/

def w1 : Closed := ⟨10, 100, 1⟩      -- return +1/10
def w2 : Closed := ⟨20, 100, 1⟩      -- return +1/5
def l1 : Closed := ⟨-20, 100, 1⟩     -- return −1/5
def w3 : Closed := ⟨30, 100, 1⟩      -- return +3/10
def be : Closed := ⟨0, 50, 2⟩        -- break-even

example : Valid [w1, w2, l1, w3, be] := by
  intro p hp
  simp only [List.mem_cons, List.not_mem_nil, or_false] at hp
  rcases hp with h | h | h | h | h <;> subst h <;> decide +kernel
example : (sheet [w1, w2, l1, w3]).pnl = 40 := by decide +kernel
example : (sheet [w1, w2, l1, w3]).winRate = some (3 / 4) := by decide +kernel
example : (sheet [w1, w2, l1, w3]).profitFactor = some 3 := by decide +kernel
example : (sheet []).winRate = none ∧ (sheet []).profitFactor = none := by decide +kernel
example : (sheet [w1, be]).profitFactor = some decimalMax := by decide +kernel
example : (sheet [l1, be]).profitFactor = some decimalMin ∧ (sheet [l1, be]).winRate = some (1 / 2) := by
  decide +kernel
example : (sheet [be]).profitFactor = none ∧ (sheet [be]).winRate = some 1 := by decide +kernel
example : (engineSummary 2 3 [.position 0 w1, .position 1 l1, .balance 2 ⟨5, ⟨10, 4⟩⟩,
    .balance 2 ⟨3, ⟨7, 7⟩⟩, .position 0 l1]).instruments.map (·.pnl) = [-10, -20] := by decide +kernel
example : (engineSummary 2 3 [.position 0 w1, .balance 2 ⟨5, ⟨10, 4⟩⟩,
    .balance 2 ⟨3, ⟨7, 7⟩⟩]).assets.map (·.balanceEnd) = [none, none, some ⟨10, 4⟩] := by decide +kernel
example : (directSummary 2 3 [.position 0 w1, .balance 2 ⟨5, ⟨10, 4⟩⟩,
    .balance 2 ⟨3, ⟨7, 7⟩⟩]).assets.map (·.balanceEnd) = [none, none, some ⟨7, 7⟩] := by decide +kernel

/-- **Tie to the source by translation.** `calculate_pnl_return` (position.rs), `WinRate::calculate`
(metric/win_rate.rs) and `ProfitFactor::calculate` (metric/profit_factor.rs) are regenerated from
the current source by `tools/rust2lean.py` on every run, and the generated definitions equal the
model's for all arguments (the source returns the one-field structs `WinRate { value }` /
`ProfitFactor { value }`, the model the value). A change of one of these kernels in the source makes
this theorem fail to build. -/
theorem kernels_agree_with_source :
    (∀ pnlRealised priceEntryAverage quantityAbsMax : Rat,
        BarterModel.Generated.calculate_pnl_return pnlRealised priceEntryAverage quantityAbsMax
          = calculatePnlReturn pnlRealised priceEntryAverage quantityAbsMax)
    ∧ (∀ wins total : Rat,
        (BarterModel.Generated.WinRate.calculate wins total).map (·.value) = WinRate.calculate wins total)
    ∧ (∀ profitsGrossAbs lossesGrossAbs : Rat,
        (BarterModel.Generated.ProfitFactor.calculate profitsGrossAbs lossesGrossAbs).map (·.value)
          = ProfitFactor.calculate profitsGrossAbs lossesGrossAbs) :=
  BarterModel.KernelsAgree.metric_kernels_agree

/-- **Tie of the whole state machine to the source by translation.** `PnLReturns` (struct, derived
`Default`, `update`), `TearSheetGenerator` (struct, `init`, `update_from_position`), the derived
`Default`s of the three drawdown generators, `Timed::new` and `calculate_pnl_return` are regenerated
from the current `barter/src/statistic/summary/{pnl,instrument}.rs` (+ `position.rs`, `lib.rs`,
`metric/drawdown/*.rs`) by `tools/rust2lean_sm.py` on every run (`Generated/Machines2.lean`, group
`pnl_returns`). (A) Through the projections `ofClosed` / `ofDS` / `ofPnL` / `ofTSG` onto the reduced
records of this file's model (surjective: sections `toDS` / `toPnL` / `toTSG`) every generated step
function commutes with the model's `PnLReturns.update` / `TearSheetGenerator.{init,
updateFromPosition}` the theorems above are about — for all generator states, all exited positions,
all key types and EVERY behaviour of the untranslated `sqrt`. (B) Through the bijection `ofFull` /
`toFull` with the complete generator model `Metrics.Gen` (sub-check C16M: clock, `pnl_raw`, both full
`DataSetSummary`s, the three drawdown generators) `init` and `update_from_position` agree on every
field for every `sqrt` honouring its contract. `generate` is not part of this tie. The statement is
that of `KernelsAgree.PnLReturnsSM.pnl_returns_sm_agree` (Lemmas/KernelsAgree/PnLReturnsSM.lean). -/
theorem state_machine_agrees_with_source :
    type_of% BarterModel.KernelsAgree.PnLReturnsSM.pnl_returns_sm_agree :=
  BarterModel.KernelsAgree.PnLReturnsSM.pnl_returns_sm_agree

end BarterModel.Props.C16
