import BarterModel.Lemmas.DataSet
import BarterModel.Lemmas.KernelsAgree.Welford
import BarterModel.Lemmas.KernelsAgree.DataSetSM
/-!
# C17 — Running dataset statistics equal the statistics of the whole dataset

Statements only (proofs go through `Lemmas/DataSet.lean`).

* `Summary.run sqrtFn xs` is the executable model of `DataSetSummary::default()` followed by one
  `DataSetSummary::update` per element of `xs`, in arrival order (`Model/DataSet.lean`; this is what
  the `model` driver runs).
* `total`, `specMean`, `sqDev`, `specVariance`, `specHigh`, `specLow`, `specSummary` are the
  whole-dataset quantities (what the `spec` driver runs).
* Numbers are exact rationals: the statement's "within decimal rounding" is proved as exact
  equality. `sqrtFn : Rat → Rat` stands for `Decimal::sqrt` and is universally quantified: nothing
  is assumed about it in the general theorems; `std_dev_is_sqrt` then instantiates it with the
  executable root the drivers run and proves the 10⁻³⁰ error bound. The correspondence compares
  `std_dev` and `std_dev²` with the real `Decimal::sqrt` (which is not modelled).
* No hypothesis on `xs` except `xs ≠ []` where a clause is meaningless for the empty dataset
  (greatest/least element). Every theorem is for all finite sequences, of any length.
-/
namespace BarterModel.Props.C17
open BarterModel.DataSet

/-- Reading aid: the spec's `total` is the library sum of the list … -/
theorem total_eq_sum (xs : List Rat) : total xs = xs.sum := by
  induction xs with
  | nil => simp [total]
  | cons x xs ih => simp [total, ih]

/-- … and `sqDev c xs` is `Σ (x − c)²`. -/
theorem sqDev_eq_sum (c : Rat) (xs : List Rat) :
    sqDev c xs = (xs.map fun x => (x - c) ^ 2).sum := by
  induction xs with
  | nil => simp [sqDev]
  | cons x xs ih => simp only [sqDev, ih, List.map_cons, List.sum_cons]; grind

/-- **Refinement (everything at once).** After any sequence of updates the running summary is
*equal, field by field,* to the summary computed from the whole sequence at once. -/
theorem run_eq_spec (sqrtFn : Rat → Rat) (xs : List Rat) :
    Summary.run sqrtFn xs = specSummary sqrtFn xs :=
  run_eq_specSummary sqrtFn xs

/-- The same in running form: one more `update` on the summary of `xs` gives the whole-dataset
summary of `xs ++ [x]` (so the equality holds after *each* update, not only at the end). -/
theorem update_eq_spec (sqrtFn : Rat → Rat) (xs : List Rat) (x : Rat) :
    (Summary.run sqrtFn xs).update sqrtFn x = specSummary sqrtFn (xs ++ [x]) := by
  rw [← run_eq_specSummary]; simp [Summary.run]

/-- count = number of values. -/
theorem count_eq (sqrtFn : Rat → Rat) (xs : List Rat) :
    (Summary.run sqrtFn xs).count = (xs.length : Rat) := by
  rw [run_eq_specSummary]; rfl

/-- sum = Σ values. -/
theorem sum_eq (sqrtFn : Rat → Rat) (xs : List Rat) :
    (Summary.run sqrtFn xs).sum = total xs := by
  rw [run_eq_specSummary]; rfl

/-- mean = Σ values / n. -/
theorem mean_eq (sqrtFn : Rat → Rat) (xs : List Rat) :
    (Summary.run sqrtFn xs).mean = total xs / (xs.length : Rat) := by
  rw [run_eq_specSummary]; rfl

/-- Welford's recurrence value M = Σ (x − mean)², the mean being that of the whole dataset. -/
theorem m_eq (sqrtFn : Rat → Rat) (xs : List Rat) :
    (Summary.run sqrtFn xs).dispersion.recurrenceRelationM
      = sqDev (total xs / (xs.length : Rat)) xs := by
  rw [run_eq_specSummary]; rfl

/-- population variance = Σ (x − mean)² / n. -/
theorem variance_eq (sqrtFn : Rat → Rat) (xs : List Rat) :
    (Summary.run sqrtFn xs).dispersion.variance
      = sqDev (total xs / (xs.length : Rat)) xs / (xs.length : Rat) := by
  rw [run_eq_specSummary]; rfl

/-- Variance is never negative. -/
theorem variance_nonneg (sqrtFn : Rat → Rat) (xs : List Rat) :
    0 ≤ (Summary.run sqrtFn xs).dispersion.variance := by
  rw [run_eq_specSummary]; exact specVariance_nonneg xs

/-- standard deviation = √(population variance of the whole dataset) (for the code's `sqrt`, whatever
it computes; in particular the `.abs()` the code applies first never changes the argument). -/
theorem std_dev_eq (sqrtFn : Rat → Rat) (xs : List Rat) (hne : xs ≠ []) :
    (Summary.run sqrtFn xs).dispersion.stdDev
      = sqrtFn (sqDev (total xs / (xs.length : Rat)) xs / (xs.length : Rat)) :=
  stdDev_eq sqrtFn xs hne

/-- With the square root the drivers actually run (`sqrtApprox`, √ truncated to 30 decimal places)
the standard deviation *is* the square root of the whole-dataset population variance up to
10⁻³⁰: `0 ≤ σ`, `σ² ≤ variance < (σ + 10⁻³⁰)²`. Holds for every dataset, the empty one included. -/
theorem std_dev_is_sqrt (xs : List Rat) :
    let σ := (Summary.run sqrtApprox xs).dispersion.stdDev
    let v := sqDev (total xs / (xs.length : Rat)) xs / (xs.length : Rat)
    0 ≤ σ ∧ σ * σ ≤ v ∧ v < (σ + 1 / (sqrtScale : Rat)) * (σ + 1 / (sqrtScale : Rat)) := by
  cases xs with
  | nil =>
    have := sqrtApprox_spec 0 Rat.le_refl
    simpa [Summary.run, Summary.default, Dispersion.default, sqDev, sqrtApprox, Rat.div_def] using this
  | cons a as =>
    simp only [stdDev_eq sqrtApprox (a :: as) (by simp)]
    exact sqrtApprox_spec _ (specVariance_nonneg (a :: as))

/-- range: `high` is the greatest and `low` the least value of the dataset, `range()` their
difference, and the range is activated exactly when a value has arrived. -/
theorem range_eq (sqrtFn : Rat → Rat) (xs : List Rat) (hne : xs ≠ []) :
    let r := (Summary.run sqrtFn xs).dispersion.range
    r.activated = true ∧
    (r.high ∈ xs ∧ ∀ y ∈ xs, y ≤ r.high) ∧
    (r.low ∈ xs ∧ ∀ y ∈ xs, r.low ≤ y) ∧
    r.range = r.high - r.low := by
  simp only [BarterModel.DataSet.range_eq]
  refine ⟨by cases xs <;> simp_all, specHigh_isMax xs hne, specLow_isMin xs hne, rfl⟩

/-- Before any value arrives the range is not activated (and everything is zero). -/
theorem empty_eq (sqrtFn : Rat → Rat) :
    Summary.run sqrtFn [] = Summary.default := rfl

/-- The mean always lies within the range. -/
theorem mean_in_range (sqrtFn : Rat → Rat) (xs : List Rat) (hne : xs ≠ []) :
    let s := Summary.run sqrtFn xs
    s.dispersion.range.low ≤ s.mean ∧ s.mean ≤ s.dispersion.range.high := by
  simp only [mean_eq_specMean, BarterModel.DataSet.range_eq]
  exact ⟨le_specMean_of_le hne (specLow_isMin xs hne).2, specMean_le_of_le hne (specHigh_isMax xs hne).2⟩

/-- Arrival order is irrelevant: two orderings of the same multiset of values give the *same
summary*, all fields (count, sum, mean, M, variance, std_dev, high, low). -/
theorem perm_invariant (sqrtFn : Rat → Rat) {xs ys : List Rat} (h : xs.Perm ys) :
    Summary.run sqrtFn xs = Summary.run sqrtFn ys := by
  rw [run_eq_specSummary, run_eq_specSummary]; exact specSummary_perm sqrtFn h

/-! Non-vacuity: the only hypotheses used above are `xs ≠ []` and `List.Perm`; a concrete
non-trivial dataset (negative, repeated, different magnitudes) and what the model computes on it. -/
example : ([3, -1, 3, 1000, 1/2] : List Rat) ≠ [] := by simp
example : ([3, -1, 3, 1000, 1/2] : List Rat).Perm [1000, 3, 1/2, 3, -1] := by decide +kernel
example : (Summary.run id [1, 2, 3, 6]).mean = 3 := by decide +kernel
example : (Summary.run id [1, 2, 3, 6]).dispersion.variance = 7/2 := by decide +kernel
example : (Summary.run id [6, 1, 3, 2]).dispersion.range = ⟨true, 6, 1⟩ := by decide +kernel
example : Summary.run id [1, 2, 3, 6] ≠ Summary.run id [1, 2, 3, 7] := by decide +kernel

/-- **Tie to the source by translation.** The three `welford_online` kernels the model's
`Summary.update` / `Dispersion.update` are built from are not only hand-written: on every run
`tools/rust2lean.py` regenerates `BarterModel.Generated.welford_online.*` from the current
`barter/src/statistic/algorithm.rs`, and the generated definitions equal the model's for all
arguments. A change of one of these kernels in the source makes this theorem fail to build. -/
theorem kernels_agree_with_source :
    (∀ prevMean nextValue count : Rat,
        BarterModel.Generated.welford_online.calculate_mean prevMean nextValue count
          = calculateMean prevMean nextValue count)
    ∧ (∀ prevM prevMean newValue newMean : Rat,
        BarterModel.Generated.welford_online.calculate_recurrence_relation_m prevM prevMean newValue newMean
          = calculateRecurrenceRelationM prevM prevMean newValue newMean)
    ∧ (∀ m count : Rat,
        BarterModel.Generated.welford_online.calculate_population_variance m count
          = calculatePopulationVariance m count) :=
  BarterModel.KernelsAgree.welford_kernels_agree

/-- **Tie of the whole state machine to the source by translation.** `DataSetSummary`, `Dispersion`,
`Range` (structs and their derived `Default`s), `Range::{init, update, range}`, `Dispersion::update`
and `DataSetSummary::update` are regenerated from the current
`barter/src/statistic/summary/dataset/{mod,dispersion}.rs` by `tools/rust2lean_sm.py` on every run
(`Generated/Machines2.lean`, group `dataset`), and each generated function equals the model's
function the theorems above are about, for all states and values, through the record bijections
`ofRange` / `ofDisp` / `ofSum`; the last clause says that folding the generated `update` over any
dataset from the generated `default` is `Summary.run`. `algorithm::sqrt` is not translated: the
generated code takes it as a parameter `sqrt : Rat → Option Rat`, the clauses hold for every `sqrt`
that returns `Some` on non-negative arguments (its documented contract, `SqrtTotal`), with the
model's `sqrtFn = fun x => (sqrt x).getD 0`, and their proof shows that
`.expect("variance cannot be negative")` is dead code. The statement is that of
`KernelsAgree.DataSetSM.dataset_sm_agree` (Lemmas/KernelsAgree/DataSetSM.lean). -/
theorem state_machine_agrees_with_source :
    type_of% BarterModel.KernelsAgree.DataSetSM.dataset_sm_agree :=
  BarterModel.KernelsAgree.DataSetSM.dataset_sm_agree

/-! ## Review round 2 (audit/REVIEW-notes.md, section C17)

`mean_in_range'` removes an unnecessary hypothesis (review C17-3). The two `…_boundary_witness`
theorems answer review C17-1: every theorem of this file is about exact rationals, and
`rust_decimal::Decimal` (96-bit mantissa, scale 0…28) cannot be the subject of a theorem over ℚ.
**No Lean claim about `Decimal` is made below.** The witnesses only record, as kernel-checked facts
about the *model's* exact values, two datasets whose inputs are ordinary `Decimal`s but whose exact
whole-dataset statistics lie outside `Decimal`'s representable range, so that no implementation
returning a `Decimal` can return them. What the real code does there was measured by the reviewer
on /repo, not proved: `[0, 1e15]` panics with "Multiplication overflowed", and a cluster of
28-significant-digit values gives a `std_dev` 1.3 % off. The correspondence run of `./check C17`
samples values far inside the range (and compares division-derived fields to 1e-18 only), so the
equalities of this file transfer to the code only there (`props/C17.py` ASSUMPTIONS). -/

/-- The mean always lies within the range – for **every** dataset, the empty one included (review
C17-3: the hypothesis `xs ≠ []` of `mean_in_range`, which is kept, is unnecessary: for `[]` mean,
low and high are all `0`, as in `default()`). No hypothesis. -/
theorem mean_in_range' (sqrtFn : Rat → Rat) (xs : List Rat) :
    let s := Summary.run sqrtFn xs
    s.dispersion.range.low ≤ s.mean ∧ s.mean ≤ s.dispersion.range.high := by
  cases xs with
  | nil => simp [Summary.run, Summary.default, Dispersion.default, Range.default]
  | cons a as => exact mean_in_range sqrtFn (a :: as) (by simp)

/-- The value of `rust_decimal::Decimal::MAX` (2⁹⁶ − 1, scale 0), as a plain rational literal.
Only a number to compare the model's exact values with: nothing about `Decimal` is modelled. -/
def decimalMax : Rat := 79228162514264337593543950335

/-- The smallest positive `Decimal` (mantissa 1, scale 28), 10⁻²⁸, as a plain rational. -/
def decimalMinPos : Rat := 1 / 10 ^ 28

example : decimalMax = 2 ^ 96 - 1 := by decide +kernel

/-- **Overflow boundary (review C17-1, first half; no claim about `Decimal`).** For the dataset
`[0, 10¹⁵]` – two values that are ordinary `Decimal`s (integers far below 2⁹⁶) – the model's exact
Welford value `M = Σ (x − mean)²` is 5·10²⁹ (equal to the whole-dataset sum of squared deviations,
as `m_eq` says) and its exact population variance is 2.5·10²⁹; both EXCEED `Decimal::MAX`
≈ 7.9·10²⁸. So the exact values the theorems `m_eq` / `variance_eq` speak about are not
representable in the code's number type at all: the theorems hold for the model, and the code
cannot return these values – on the real code the reviewer observed a panic "Multiplication
overflowed" (`calculate_recurrence_relation_m`, algorithm.rs:16-23, multiplies `(10¹⁵ − 0)` by
`(10¹⁵ − 5·10¹⁴)`). The model/implementation correspondence only samples values far below this
boundary. Concrete, kernel-checked, no hypothesis. -/
theorem decimal_overflow_boundary_witness :
    (1000000000000000 : Rat) < decimalMax
    ∧ (Summary.run id [0, 1000000000000000]).dispersion.recurrenceRelationM
        = 500000000000000000000000000000
    ∧ sqDev (total [0, 1000000000000000] / 2) [0, 1000000000000000]
        = 500000000000000000000000000000
    ∧ decimalMax < (Summary.run id [0, 1000000000000000]).dispersion.recurrenceRelationM
    ∧ (Summary.run id [0, 1000000000000000]).dispersion.variance = 250000000000000000000000000000
    ∧ decimalMax < (Summary.run id [0, 1000000000000000]).dispersion.variance := by
  decide +kernel

/-- A cluster of three 28-significant-digit values: `1`, `1 + 10⁻²⁷`, `1 + 2·10⁻²⁷`. -/
def cluster28 : List Rat := [1, 1 + 1 / 10 ^ 27, 1 + 2 / 10 ^ 27]

/-- **Underflow boundary (review C17-1, second half; no claim about `Decimal`).** The three
values of `cluster28` are ordinary `Decimal`s (mantissa `10²⁷ + k < 2⁹⁶`, scale 27 ≤ 28). Their
exact population variance in the model is `2/3 · 10⁻⁵⁴`: strictly positive (the values differ) but
far BELOW the smallest positive `Decimal` 10⁻²⁸, so no `Decimal` other than `0` is within a factor
10²⁵ of it – while the exact standard deviation (here with the drivers' `sqrtApprox`, at least
8·10⁻²⁸) is itself above 10⁻²⁸. Hence "variance > 0 for non-constant data" and `std_dev_eq` are
statements about the model's exact values which the code's number type cannot carry for
such inputs; the reviewer measured on the real code that a 28-digit cluster gives a `std_dev`
1.3 % off. Concrete, kernel-checked, no hypothesis. -/
theorem decimal_underflow_boundary_witness :
    cluster28 = [((10 ^ 27 + 0 : Nat) : Rat) / 10 ^ 27, ((10 ^ 27 + 1 : Nat) : Rat) / 10 ^ 27,
        ((10 ^ 27 + 2 : Nat) : Rat) / 10 ^ 27]
    ∧ (10 ^ 27 + 2 : Nat) < 2 ^ 96
    ∧ (Summary.run id cluster28).dispersion.variance = 2 / (3 * 10 ^ 54)
    ∧ 0 < (Summary.run id cluster28).dispersion.variance
    ∧ (Summary.run id cluster28).dispersion.variance < decimalMinPos
    ∧ 8 * decimalMinPos ≤ (Summary.run sqrtApprox cluster28).dispersion.stdDev := by
  decide +kernel

end BarterModel.Props.C17
