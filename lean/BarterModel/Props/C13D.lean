import BarterModel.Lemmas.DynamicInit
/-!
# C13D (sub-check of C13) — the arm bodies of `DynamicStreams::init`

C13: "market-data messages are attributed to the subscribed instrument, or rejected; exchange id of events =
the subscribed exchange". The connectors stamp `Exchange::ID` of the connector TYPE a stream was initialised
with (C13, C12I `origin_is_exchange`). Which type that is, for a subscription handed to the dynamic builder, is
decided in the BODY of the arm of `DynamicStreams::init` the subscription's `(exchange, kind)` reaches
(barter-data/src/streams/builder/dynamic/mod.rs:127-546) — 21 hand-written bodies that name a connector type
and a kind type each, where a wrong name compiles. C13V reads the arm PATTERNS from the source and assumes the
bodies fit; here the bodies are a table (`DynamicInit.armBody`, tied to the code by observing the real `init`
through the repository's own `tracing` events) and the theorems say, for ALL batches, every instrument type
with a lawful order and EVERY function that satisfies the documentation of `sort_unstable_by_key`:

* the table is right (`TableOk`: kernel `decide` over all 42 × 6 entries): an arm exists exactly under C13V's
  patterns, constructs the connector whose id is the pattern's exchange, the kind type of the pattern's kind, a
  `StreamSelector` exists for the pair, and the stream is forwarded into the family created for that kind;
* with that table `init` refines the specification: on supported input every subscription of a batch is
  initialised under the connector whose id equals its own exchange id, with its own kind and instrument, exactly
  once per batch holding it, and nothing else is; on unsupported input the validation error names a rejected
  subscription and nothing is initialised. (The theorems are written over a table variable `tbl` with the
  hypothesis `TableOk tbl`; `tableOk_unique` shows there is exactly one such table, the repository's — the
  hypothesis names the four facts about the table the proofs use, it is not a generalisation. The tie of the
  hand-copied table to dynamic/mod.rs is the harness.)
* a table that is wrong in the connector or the kind of one body is caught by the specification on a concrete
  batch (counter-theorems); a table that is wrong in the channel FAMILY is not (`wrong_chan_satisfies_spec`):
  the family is read from the source, unobserved offline and unconstrained by `Spec`.
-/
namespace BarterModel.Props.C13D
open BarterModel.Names (ExchangeId Str)
open BarterModel.Connectors (Exch)
open BarterModel.Subscribe BarterModel.DynamicInit
open BarterModel.Streams (Policy)

/-! ## The table of arm bodies (finite: the kernel decides the WHOLE table) -/

/-- The repository's arm bodies are right, entry by entry over all 42 × 6 `(ExchangeId, SubKind)` pairs. -/
theorem arm_bodies_ok : TableOk armBody := armBody_ok

/-- An arm body exists exactly where C13V's pattern table (read from the source text) has an arm … -/
theorem arm_body_iff_arm (e : ExchangeId) (k : SubKind) : (armBody e k).isSome = hasArm e k :=
  armBody_ok.arm_iff e k

/-- … i.e. exactly for the pairs some instrument kind validates for (`arm_iff_validated` of C13V). -/
theorem arm_body_iff_validated (e : ExchangeId) (k : SubKind) :
    (armBody e k).isSome = true ↔ ∃ ik, supportsIKSK e ik k = true := by
  rw [arm_body_iff_arm]
  constructor
  · intro h
    have : ∀ e ∈ ExchangeId.all, ∀ k ∈ SubKind.all, hasArm e k = true →
        ∃ ik ∈ IKC.all, supportsIKSK e ik k = true := by decide +kernel
    obtain ⟨ik, _, h⟩ := this e (BarterModel.Names.mem_all e) k (SubKind.mem_all k) h
    exact ⟨ik, h⟩
  · rintro ⟨ik, h⟩
    exact (supported_arm_route e ik k h).1

/-- The connector an arm constructs has the pattern's exchange as its `Connector::ID`. -/
theorem arm_constructs_own_connector (e : ExchangeId) (k : SubKind) (b : Body) (h : armBody e k = some b) :
    connId b.conn = e := armBody_ok.own_id e k b h

/-- The kind type an arm constructs is the pattern's kind. -/
theorem arm_constructs_own_kind (e : ExchangeId) (k : SubKind) (b : Body) (h : armBody e k = some b) :
    b.kind = k := armBody_ok.own_kind e k b h

/-- The stream is forwarded into the channel family `Channels::try_from` created for the kind. -/
theorem arm_forwards_to_own_family (e : ExchangeId) (k : SubKind) (b : Body) (h : armBody e k = some b) :
    route k = some b.chan := armBody_ok.own_chan e k b h

/-- Every body names a pair for which `impl StreamSelector` exists (otherwise it would not compile: the model's
table is consistent with C13V's selector table). -/
theorem arm_has_selector (e : ExchangeId) (k : SubKind) (b : Body) (h : armBody e k = some b) :
    selector b.conn b.kind = true := ((armBody_entry e k).2 b h).2.2.2

/-- Two different arms never construct the same (connector, kind): no body is a copy of another. -/
theorem arm_bodies_injective (e e' : ExchangeId) (k k' : SubKind) (b b' : Body)
    (h : armBody e k = some b) (h' : armBody e' k' = some b') (hc : b.conn = b'.conn) (hk : b.kind = b'.kind) :
    (e, k) = (e', k') := by
  have h1 := armBody_ok.own_id e k b h
  have h2 := armBody_ok.own_id e' k' b' h'
  have h3 := armBody_ok.own_kind e k b h
  have h4 := armBody_ok.own_kind e' k' b' h'
  rw [← h1, ← h2, ← h3, ← h4, hc, hk]

/-- EVERY connector type dials a secure websocket URL of its own venue (C13Q's `urlOk`) — a fact about the 15
connectors, not about the arms (the restatement of `arm_dials_own_venue` without its idle hypothesis) — and
different connectors dial different URLs (`urls_distinct`), so the URL the code logs identifies the connector. -/
theorem every_connector_dials_own_venue (c : Exch) : BarterModel.SubRequests.urlOk c = true := by
  have : ∀ c ∈ connAll, BarterModel.SubRequests.urlOk c = true := by decide +kernel
  exact this c (connAll_complete c)

/-- Corollary for the connector an arm constructs (the hypothesis is not needed: see
`every_connector_dials_own_venue`). -/
theorem arm_dials_own_venue (e : ExchangeId) (k : SubKind) (b : Body) (_h : armBody e k = some b) :
    BarterModel.SubRequests.urlOk b.conn = true := every_connector_dials_own_venue b.conn

theorem urls_distinct (c c' : Exch)
    (h : BarterModel.SubRequests.urlParsed c = BarterModel.SubRequests.urlParsed c') : c = c' := by
  have : ∀ c ∈ connAll, ∀ c' ∈ connAll,
      BarterModel.SubRequests.urlParsed c = BarterModel.SubRequests.urlParsed c' → c = c' := by decide +kernel
  exact this c (connAll_complete c) c' (connAll_complete c') h

/-- BOOKKEEPING (definitional): the policy is a constant of `callOf`, so every call of the MODEL carries
`STREAM_RECONNECTION_POLICY` for any table and any sort whatsoever — the statement says that the model writes
the constant down (125 ms × 2ⁿ, capped at 60 s: C12I `default_policy_waits`); that the CODE passes it is what
the `ims` line of the correspondence compares. -/
theorem policy_is_a_constant_of_the_model {ι : Type} [DecidableEq ι] (tbl : Table) (ops : InstOps ι)
    (usort : List (Subscr ι) → List (Subscr ι)) (batches : List (List (Subscr ι))) :
    ∀ c ∈ (init tbl ops usort batches).calls, c.policy = ⟨125, 2, 60000⟩ := by
  have hra : ∀ g c, runArm (ι := ι) tbl g = .ok c → c.policy = ⟨125, 2, 60000⟩ := by
    intro g c h
    unfold runArm at h
    split at h
    · cases h
    · split at h
      · cases h
      · injection h with h; subst h; rfl
  have hrs : ∀ gs : List ((ExchangeId × SubKind) × List (Subscr ι)), ∀ c ∈ (runArms tbl gs).1, c.policy = ⟨125, 2, 60000⟩ := by
    intro gs
    induction gs with
    | nil => intro c hc; cases hc
    | cons g t ih =>
      intro c hc
      unfold runArms at hc
      cases hg : runArm tbl g with
      | error e => rw [hg] at hc; cases hc
      | ok c' =>
        rw [hg] at hc
        simp only [List.mem_cons] at hc
        rcases hc with rfl | hc
        · exact hra g _ hg
        · exact ih c hc
  intro c hc
  unfold BarterModel.DynamicInit.init at hc
  split at hc
  · cases hc
  · split at hc
    · cases hc
    · rename_i _ vs _ _ chans _
      have h := hrs (vs.flatMap (groups usort))
      generalize runArms tbl (vs.flatMap (groups usort)) = p at hc h
      obtain ⟨cs, oe⟩ := p
      cases oe with
      | some e => exact h c hc
      | none =>
        cases cs with
        | nil => cases hc
        | cons x t => exact h c hc

/-- The same with the (unneeded) hypotheses of the first version; bookkeeping, see
`policy_is_a_constant_of_the_model`. -/
theorem every_call_uses_default_policy {ι : Type} [DecidableEq ι] (tbl : Table) (ops : InstOps ι)
    (usort : List (Subscr ι) → List (Subscr ι)) (hu : UnstableSort usort) (ht : TableOk tbl)
    (batches : List (List (Subscr ι))) :
    ∀ c ∈ (init tbl ops usort batches).calls, c.policy = ⟨125, 2, 60000⟩ := by
  intro c hc
  by_cases hv : ∀ b ∈ batches, ∀ s ∈ b, s.valid ops = true
  · obtain ⟨_, _, hinit⟩ := init_accepted ht ops hu batches hv
    rw [hinit] at hc
    obtain ⟨g, _, rfl⟩ := List.mem_map.mp hc
    rfl
  · cases hvb : validateBatches ops batches with
    | ok vs => exact absurd ((validateBatches_ok_iff ops batches vs).mp hvb).1 hv
    | error s => rw [init_rejected ops s batches hvb] at hc; cases hc

/-! ## `init`, for every batch list and every admissible sort (`tbl` with `TableOk tbl` = the repository's
table, `tableOk_unique`) -/
section generic
variable {ι : Type} [DecidableEq ι] (ops : InstOps ι) (hl : ops.Lawful)
  {usort : List (Subscr ι) → List (Subscr ι)} (hu : UnstableSort usort)
  {tbl : Table} (ht : TableOk tbl)
include hl hu ht

/-- REFINEMENT: `DynamicStreams::init` with right arm bodies satisfies the specification, for all batches. -/
theorem refines_spec (batches : List (List (Subscr ι))) :
    Spec (Subscr.valid ops) batches (init tbl ops usort batches) := by
  unfold Spec
  split
  · rename_i hall
    have hv : ∀ b ∈ batches, ∀ s ∈ b, s.valid ops = true := by
      simpa [List.all_eq_true] using hall
    refine ⟨initialised_accepted ht ops hu hl batches hv, ?_⟩
    obtain ⟨chans, _, hinit⟩ := init_accepted ht ops hu batches hv
    rw [hinit]
    intro e
    simp only
    split <;> simp
  · rename_i hall
    cases hvb : validateBatches ops batches with
    | ok vs =>
      have := ((validateBatches_ok_iff ops batches vs).mp hvb).1
      exact absurd (by simpa [List.all_eq_true] using this) hall
    | error s =>
      rw [init_rejected ops s batches hvb]
      refine ⟨rfl, s, rfl, ?_⟩
      obtain ⟨pre, b, post, hb, _, hs⟩ := (validateBatches_error_iff ops batches s).mp hvb
      obtain ⟨pre', post', hb', _, hbad⟩ := (validateSubscriptions_error_iff ops b s).mp hs
      exact ⟨hbad, b, by simp [hb], by simp [hb']⟩

/-- The same against the DOCUMENTED table (README "Supported Exchange Subscriptions" plus the one undocumented
entry, C13V `dynamic_table_is_documented_plus_liquidations`). -/
theorem refines_documented_spec (batches : List (List (Subscr ι))) :
    Spec (fun s => documented s.exchange (ops.cls s.instrument) s.kind ||
        undocumentedExtra s.exchange (ops.cls s.instrument) s.kind) batches (init tbl ops usort batches) := by
  have h := refines_spec ops hl hu ht batches
  have htab : ∀ e ik k, supportsIKSK e ik k = (documented e ik k || undocumentedExtra e ik k) := by
    intro e ik k
    have : ∀ e ∈ ExchangeId.all, ∀ ik ∈ IKC.all, ∀ k ∈ SubKind.all,
        supportsIKSK e ik k = (documented e ik k || undocumentedExtra e ik k) := by decide +kernel
    exact this e (BarterModel.Names.mem_all e) ik (IKC.mem_all ik) k (SubKind.mem_all k)
  have : (Subscr.valid ops) = fun s => documented s.exchange (ops.cls s.instrument) s.kind ||
      undocumentedExtra s.exchange (ops.cls s.instrument) s.kind := by
    funext s; exact htab _ _ _
  rw [← this]; exact h

omit hl in
/-- NOTHING ELSE is initialised, and what is initialised carries the subscriber's own exchange id, kind and
instrument: every `(Connector::ID, instrument, kind)` handed to a subscriber is a subscription of some batch. -/
theorem connector_id_is_exchange_id (batches : List (List (Subscr ι))) :
    ∀ c ∈ (init tbl ops usort batches).calls, ∀ i ∈ c.instruments,
      ∃ b ∈ batches, (⟨connId c.conn, i, c.kind⟩ : Subscr ι) ∈ b := by
  intro c hc i hi
  by_cases hv : ∀ b ∈ batches, ∀ s ∈ b, s.valid ops = true
  · obtain ⟨_, _, hinit⟩ := init_accepted ht ops hu batches hv
    have hgood := groups_good ops hu batches hv
    rw [hinit] at hc
    obtain ⟨g, hg, rfl⟩ := List.mem_map.mp hc
    have hini := armCall_initialised ht g (hgood g hg).1 (hgood g hg).2.2
    have hmem : (⟨connId (armCall tbl g).conn, i, (armCall tbl g).kind⟩ : Subscr ι) ∈ g.2 := by
      rw [← hini]
      exact List.mem_map.mpr ⟨i, hi, rfl⟩
    obtain ⟨b', hb', hg'⟩ := List.mem_flatMap.mp hg
    obtain ⟨b, hb, rfl⟩ := List.mem_map.mp hb'
    exact ⟨b, hb, (mem_specSet ops b _).mp ((groups_wf hu (specSet ops b) g hg').2 _ hmem).2⟩
  · cases hvb : validateBatches ops batches with
    | ok vs => exact absurd ((validateBatches_ok_iff ops batches vs).mp hvb).1 hv
    | error s => rw [init_rejected ops s batches hvb] at hc; cases hc

omit hl in
/-- KIND PRESERVED, per call: all subscriptions of a call were asked for with the call's kind, on the call's
exchange — a call never mixes kinds or exchanges. -/
theorem kind_and_exchange_preserved (batches : List (List (Subscr ι)))
    (hv : ∀ b ∈ batches, ∀ s ∈ b, s.valid ops = true) :
    ∀ c ∈ (init tbl ops usort batches).calls, ∃ b ∈ batches,
      c.instruments ≠ [] ∧ ∀ i ∈ c.instruments, ∃ s ∈ b, s.instrument = i ∧ s.kind = c.kind ∧ s.exchange = c.id := by
  intro c hc
  obtain ⟨_, _, hinit⟩ := init_accepted ht ops hu batches hv
  have hgood := groups_good ops hu batches hv
  rw [hinit] at hc
  obtain ⟨g, hg, rfl⟩ := List.mem_map.mp hc
  have hini := armCall_initialised ht g (hgood g hg).1 (hgood g hg).2.2
  obtain ⟨b', hb', hg'⟩ := List.mem_flatMap.mp hg
  obtain ⟨b, hb, rfl⟩ := List.mem_map.mp hb'
  refine ⟨b, hb, ?_, fun i hi => ?_⟩
  · intro hnil
    have : (armCall tbl g).initialised = [] := by simp [Call.initialised, hnil]
    rw [hini] at this
    exact (hgood g hg).2.1 this
  · have hmem : (⟨connId (armCall tbl g).conn, i, (armCall tbl g).kind⟩ : Subscr ι) ∈ g.2 := by
      rw [← hini]
      exact List.mem_map.mpr ⟨i, hi, rfl⟩
    exact ⟨_, (mem_specSet ops b _).mp ((groups_wf hu (specSet ops b) g hg').2 _ hmem).2, rfl, rfl, rfl⟩

omit hl in
/-- The same WITHOUT the "all valid" hypothesis (the stronger statement of the sub-check review): on rejected
input no call is made at all, so the claim holds for every batch list. -/
theorem kind_and_exchange_preserved_always (batches : List (List (Subscr ι))) :
    ∀ c ∈ (init tbl ops usort batches).calls, ∃ b ∈ batches,
      c.instruments ≠ [] ∧ ∀ i ∈ c.instruments, ∃ s ∈ b, s.instrument = i ∧ s.kind = c.kind ∧ s.exchange = c.id := by
  by_cases hv : ∀ b ∈ batches, ∀ s ∈ b, s.valid ops = true
  · exact kind_and_exchange_preserved ops hu ht batches hv
  · intro c hc
    cases hvb : validateBatches ops batches with
    | ok vs => exact absurd ((validateBatches_ok_iff ops batches vs).mp hvb).1 hv
    | error s => rw [init_rejected ops s batches hvb] at hc; cases hc

omit hl in
/-- DEAD PATHS of the model, made explicit: for a right table every group of validated batches reaches an
existing arm with a non-empty group — so the `getD default` in `armCall` is never taken and `runArm` never
returns `Unsupported` / `SubscriptionsEmpty` … -/
theorem arm_lookup_never_defaults (batches : List (List (Subscr ι)))
    (hv : ∀ b ∈ batches, ∀ s ∈ b, s.valid ops = true) :
    ∀ g ∈ (batches.map (specSet ops)).flatMap (groups usort),
      (∃ b, tbl g.1.1 g.1.2 = some b ∧ armCall tbl g = callOf b g) ∧ runArm tbl g = .ok (armCall tbl g) := by
  intro g hg
  have hgood := groups_good ops hu batches hv g hg
  have h := ht.arm_iff g.1.1 g.1.2
  rw [hgood.1] at h
  obtain ⟨b, hb⟩ := Option.isSome_iff_exists.mp h
  exact ⟨⟨b, hb, by simp [armCall, hb]⟩, runArm_ok ht g hgood.1 hgood.2.1⟩

omit hl in
/-- … and the only error `init` returns is the validation error (`DataError::Unsupported`,
`UnsupportedSubKind`, `SubscriptionsEmpty` are unreachable; C13V `init_error_is_validation_error` for the
pattern table, here for the bodies). -/
theorem only_validation_errors (batches : List (List (Subscr ι))) (e : InitErr ι)
    (h : (init tbl ops usort batches).outcome = .error e) :
    ∃ s, e = .validation s ∧ validateBatches ops batches = .error s := by
  cases hvb : validateBatches ops batches with
  | error s =>
    rw [init_rejected ops s batches hvb] at h
    injection h with h
    exact ⟨s, h.symm, rfl⟩
  | ok vs =>
    have hv := ((validateBatches_ok_iff ops batches vs).mp hvb).1
    obtain ⟨chans, _, hinit⟩ := init_accepted ht ops hu batches hv
    rw [hinit] at h
    simp only at h
    split at h <;> cases h

/-- EXACTLY ONCE: on supported input a subscription is initialised once per batch that holds it — however
often it is repeated inside the batch, in whatever order — and a triple no batch holds is never initialised. -/
theorem each_subscription_once (batches : List (List (Subscr ι)))
    (hv : ∀ b ∈ batches, ∀ s ∈ b, s.valid ops = true) (s : Subscr ι) :
    (init tbl ops usort batches).initialised.count s = (batches.filter fun b => decide (s ∈ b)).length := by
  rw [(initialised_accepted ht ops hu hl batches hv).count_eq s]
  exact count_flatMap_nub batches s

/-- … in particular every subscription of every batch IS initialised. -/
theorem every_subscription_initialised (batches : List (List (Subscr ι)))
    (hv : ∀ b ∈ batches, ∀ s ∈ b, s.valid ops = true) (b : List (Subscr ι)) (hb : b ∈ batches)
    (s : Subscr ι) (hs : s ∈ b) : s ∈ (init tbl ops usort batches).initialised := by
  rw [(initialised_accepted ht ops hu hl batches hv).mem_iff]
  exact List.mem_flatMap.mpr ⟨b, hb, (mem_nub b s).mpr hs⟩

omit hl hu ht in
/-- UNSUPPORTED: one unsupported subscription anywhere and nothing at all is initialised; the error names the
first rejected subscription of the first rejected batch (C13V `init_reports_first_rejected`). -/
theorem unsupported_nothing_initialised (batches : List (List (Subscr ι))) (b : List (Subscr ι)) (hb : b ∈ batches)
    (s : Subscr ι) (hs : s ∈ b) (hbad : s.valid ops = false) :
    (init tbl ops usort batches).calls = [] ∧
      ∃ x, (init tbl ops usort batches).outcome = .error (.validation x) ∧ x.valid ops = false := by
  cases hvb : validateBatches ops batches with
  | ok vs =>
    have := ((validateBatches_ok_iff ops batches vs).mp hvb).1 b hb s hs
    rw [hbad] at this; cases this
  | error x =>
    rw [init_rejected ops x batches hvb]
    obtain ⟨_, b', _, _, _, hx⟩ := (validateBatches_error_iff ops batches x).mp hvb
    obtain ⟨_, _, _, _, hxbad⟩ := (validateSubscriptions_error_iff ops b' x).mp hx
    exact ⟨rfl, x, rfl, hxbad⟩

omit hl in
/-- The calls are exactly the connections the C13V model assumes (`Subscribe.init`): C13V's reading of the arm
patterns plus this table is the whole of `DynamicStreams::init` up to the network. -/
theorem calls_are_c13v_connections (batches : List (List (Subscr ι))) (r : InitOk ι)
    (h : BarterModel.Subscribe.init ops usort batches = .ok r) :
    (init tbl ops usort batches).calls.map Call.toConn = r.conns.flatten := by
  have hv : ∀ b ∈ batches, ∀ s ∈ b, s.valid ops = true := by
    cases hvb : validateBatches ops batches with
    | ok vs => exact ((validateBatches_ok_iff ops batches vs).mp hvb).1
    | error s => unfold BarterModel.Subscribe.init at h; rw [hvb] at h; cases h
  obtain ⟨chans, _, _, _, hok⟩ := init_ok ops hu batches hv
  rw [hok] at h
  injection h with h
  rw [← h]
  obtain ⟨_, _, hinit⟩ := init_accepted ht ops hu batches hv
  have hgood := groups_good ops hu batches hv
  rw [hinit]
  show (((batches.map (specSet ops)).flatMap (groups usort)).map (armCall tbl)).map Call.toConn =
    ((batches.map (specSet ops)).map fun b => (groups usort b).map connOf).flatten
  generalize (batches.map (specSet ops)) = vs at hgood ⊢
  induction vs with
  | nil => rfl
  | cons v t ih =>
    simp only [List.flatMap_cons, List.map_append, List.map_cons, List.flatten_cons, List.map_map]
    congr 1
    · apply List.map_congr_left
      intro g hg
      exact armCall_toConn ht g (hgood g (by simp [hg])).1
    · have := ih (fun g hg => hgood g (by
        simp only [List.flatMap_cons, List.mem_append]; exact Or.inr hg))
      simpa only [List.map_map] using this

omit hl in
/-- One call per distinct `(exchange, kind)` of every batch (the documented split), in batch order. -/
theorem calls_count (batches : List (List (Subscr ι))) (hv : ∀ b ∈ batches, ∀ s ∈ b, s.valid ops = true) :
    (init tbl ops usort batches).calls.length = specCalls ops batches := by
  obtain ⟨_, hch, hinit⟩ := init_accepted ht ops hu batches hv
  rw [hinit]
  simp only [List.length_map, specCalls]
  clear hinit hv hch
  induction batches with
  | nil => rfl
  | cons b t ih =>
    simp only [List.map_cons, List.flatMap_cons, List.length_append, List.sum_cons, ih]
    congr 1
    have h1 := congrArg List.length (groups_keys hu (specSet ops b))
    simp only [List.length_map] at h1
    rw [h1, specGroups, List.length_map]
    congr 1
    apply BarterModel.Index.sortDedup_congr gkeyNat gkeyNat_inj
    intro k
    simp only [List.mem_map]
    constructor
    · rintro ⟨s, hs, rfl⟩; exact ⟨s, (mem_specSet ops b s).mp hs, rfl⟩
    · rintro ⟨s, hs, rfl⟩; exact ⟨s, (mem_specSet ops b s).mpr hs, rfl⟩

omit hl in
/-- `Ok` is returned only when there is nothing to connect to; otherwise (offline) the connection attempt. -/
theorem outcome_ok_iff_no_subscription (batches : List (List (Subscr ι)))
    (hv : ∀ b ∈ batches, ∀ s ∈ b, s.valid ops = true) :
    (∃ chans, (init tbl ops usort batches).outcome = .ok chans) ↔ ∀ b ∈ batches, b = [] := by
  obtain ⟨chans, _, hinit⟩ := init_accepted ht ops hu batches hv
  rw [hinit]
  simp only
  have key : ((batches.map (specSet ops)).flatMap (groups usort)).isEmpty = true ↔ ∀ b ∈ batches, b = [] := by
    rw [List.isEmpty_iff]
    constructor
    · intro h b hb
      cases hbb : b with
      | nil => rfl
      | cons s t =>
        exfalso
        have hs : s ∈ specSet ops b := (mem_specSet ops b s).mpr (by simp [hbb])
        have hk : s.gkey ∈ (groups usort (specSet ops b)).map (·.1) :=
          (mem_groups_keys hu (specSet ops b) s.gkey).mpr ⟨s, hs, rfl⟩
        obtain ⟨g, hg, _⟩ := List.mem_map.mp hk
        have : g ∈ (batches.map (specSet ops)).flatMap (groups usort) :=
          List.mem_flatMap.mpr ⟨_, List.mem_map.mpr ⟨b, hb, rfl⟩, hg⟩
        rw [h] at this; cases this
    · intro h
      apply List.eq_nil_iff_forall_not_mem.mpr
      intro g hg
      obtain ⟨b', hb', hg'⟩ := List.mem_flatMap.mp hg
      obtain ⟨b, hb, rfl⟩ := List.mem_map.mp hb'
      have ⟨hne, hg2⟩ := groups_wf hu (specSet ops b) g hg'
      obtain ⟨s, hs⟩ := List.exists_mem_of_ne_nil _ hne
      have := (mem_specSet ops b s).mp (hg2 s hs).2
      rw [h b hb] at this; cases this
  constructor
  · rintro ⟨c, hc⟩
    apply key.mp
    split at hc
    · assumption
    · cases hc
  · intro h
    rw [if_pos (key.mpr h)]
    exact ⟨chans, rfl⟩

end generic

/-! ## The repository's table, concretely -/

/-- The refinement for the repository's arm bodies and `MarketDataInstrument`. -/
theorem init_refines_spec (usort : List (Subscr Inst) → List (Subscr Inst)) (hu : UnstableSort usort)
    (batches : List (List (Subscr Inst))) :
    Spec (Subscr.valid instOps) batches (init armBody instOps usort batches) :=
  refines_spec instOps instOps_lawful hu armBody_ok batches

/-! ## "Every right table" is ONE table -/

/-- `TableOk` pins the table down completely: the only right table is the repository's. The theorems above
that are stated "for every right table" are therefore exactly the theorems for `armBody` — `TableOk` is a way
of saying WHICH four properties of `armBody` the proofs use (arm pattern, own id, own kind, own family), not
a generalisation. The tie between `armBody` and dynamic/mod.rs is the harness (the table is copied by hand). -/
theorem tableOk_unique (tbl : Table) (ht : TableOk tbl) : tbl = armBody := by
  funext e k
  have h1 := ht.arm_iff e k
  have h2 := armBody_ok.arm_iff e k
  cases hb : tbl e k with
  | none =>
    rw [hb] at h1
    cases ha : armBody e k with
    | none => rfl
    | some b => rw [ha] at h2; simp at h1 h2; rw [h2] at h1; cases h1
  | some b =>
    rw [hb] at h1
    cases ha : armBody e k with
    | none => rw [ha] at h2; simp at h1 h2; rw [h1] at h2; cases h2
    | some b' =>
      have i1 := ht.own_id e k b hb
      have i2 := armBody_ok.own_id e k b' ha
      have k1 := ht.own_kind e k b hb
      have k2 := armBody_ok.own_kind e k b' ha
      have c1 := ht.own_chan e k b hb
      have c2 := armBody_ok.own_chan e k b' ha
      have hc : b.conn = b'.conn := connId_inj (i1.trans i2.symm)
      obtain ⟨bc, bk, bch⟩ := b
      obtain ⟨bc', bk', bch'⟩ := b'
      simp only at hc k1 k2 c1 c2
      subst hc; subst k1; subst k2
      rw [c1] at c2; injection c2 with c2; subst c2; rfl

/-! ## What a wrong body does (the specification is not vacuous, and one wrong name is enough) -/

/-- `GateioFuturesUsd::default()` written in the `GateioFuturesBtc` arm. -/
def wrongConnector : Table := fun e k =>
  match e, k with
  | .gateioFuturesBtc, .publicTrades => some ⟨.gateioFuturesUsd, .publicTrades, .trades⟩
  | e, k => armBody e k

/-- `OrderBooksL1` written in the `(BinanceSpot, PublicTrades)` arm. -/
def wrongKind : Table := fun e k =>
  match e, k with
  | .binanceSpot, .publicTrades => some ⟨.binanceSpot, .orderBooksL1, .trades⟩
  | e, k => armBody e k

def btcFuture : Subscr Inst := ⟨.gateioFuturesBtc, ⟨1, 2, .future 1743120000000⟩, .publicTrades⟩
def spotTrades : Subscr Inst := ⟨.binanceSpot, ⟨1, 2, .spot⟩, .publicTrades⟩

theorem wrong_connector_is_not_ok : ¬ TableOk wrongConnector := fun h => by
  have := h.own_id .gateioFuturesBtc .publicTrades _ rfl
  revert this; decide

/-- With the wrong connector the subscription `(GateioFuturesBtc, …)` is initialised on GateioFuturesUsd — its
events would carry the wrong exchange id — and the specification rejects the run. -/
theorem wrong_connector_violates_spec :
    (init wrongConnector instOps stableSort [[btcFuture]]).initialised =
        [⟨.gateioFuturesUsd, ⟨1, 2, .future 1743120000000⟩, .publicTrades⟩] ∧
      ¬ Spec (Subscr.valid instOps) [[btcFuture]] (init wrongConnector instOps stableSort [[btcFuture]]) := by
  have hrun : (init wrongConnector instOps stableSort [[btcFuture]]).initialised =
      [⟨.gateioFuturesUsd, ⟨1, 2, .future 1743120000000⟩, .publicTrades⟩] := by decide +kernel
  refine ⟨hrun, fun h => ?_⟩
  unfold Spec at h
  rw [if_pos (by decide), hrun] at h
  have := h.1.mem_iff (a := btcFuture)
  revert this; decide

theorem wrong_kind_violates_spec :
    (init wrongKind instOps stableSort [[spotTrades]]).initialised =
        [⟨.binanceSpot, ⟨1, 2, .spot⟩, .orderBooksL1⟩] ∧
      ¬ Spec (Subscr.valid instOps) [[spotTrades]] (init wrongKind instOps stableSort [[spotTrades]]) := by
  have hrun : (init wrongKind instOps stableSort [[spotTrades]]).initialised =
      [⟨.binanceSpot, ⟨1, 2, .spot⟩, .orderBooksL1⟩] := by decide +kernel
  refine ⟨hrun, fun h => ?_⟩
  unfold Spec at h
  rw [if_pos (by decide), hrun] at h
  have := h.1.mem_iff (a := spotTrades)
  revert this; decide

/-- BinanceSpot trades forwarded into `txs.l2s`: the body of the `(BinanceSpot, PublicTrades)` arm with another
channel family. -/
def wrongChan : Table := fun e k =>
  match e, k with
  | .binanceSpot, .publicTrades => some ⟨.binanceSpot, .publicTrades, .l2s⟩
  | e, k => armBody e k

theorem wrong_chan_is_not_ok : ¬ TableOk wrongChan := fun h => by
  have := h.own_chan .binanceSpot .publicTrades _ rfl
  revert this; decide

/-- THE SPECIFICATION DOES NOT CONSTRAIN THE CHANNEL FAMILY: the wrong-family table is not `TableOk`, its run
forwards into `l2s` — and `Spec` is satisfied all the same (what is initialised and the outcome are those of
the right table). `Spec`, the oracle and the offline harness see connector, kind and instruments only;
`arm_forwards_to_own_family` is a statement about the hand-copied table, read from the source and NOT
observed (`mutants/C13D.d/unobservable_arm_forwards_to_other_exchange.patch` passes). -/
theorem wrong_chan_satisfies_spec :
    ((init wrongChan instOps stableSort [[spotTrades]]).calls.map (·.chan)) = [Chan.l2s] ∧
      Spec (Subscr.valid instOps) [[spotTrades]] (init wrongChan instOps stableSort [[spotTrades]]) := by
  have h1 : (init wrongChan instOps stableSort [[spotTrades]]).initialised = [spotTrades] := by decide +kernel
  have h2 : (init wrongChan instOps stableSort [[spotTrades]]).outcome = .network := by decide +kernel
  refine ⟨by decide +kernel, ?_⟩
  unfold Spec
  rw [if_pos (by decide), h1, h2]
  exact ⟨by decide, fun e h => by cases h⟩

/-! ## Non-vacuity -/

/-- two batches; the first mixes two exchanges and two kinds and repeats a subscription, the second holds a
subscription of the first again -/
def demo : List (List (Subscr Inst)) :=
  [[spotTrades, ⟨.kraken, ⟨0, 1, .spot⟩, .orderBooksL1⟩, ⟨.binanceSpot, ⟨3, 2, .spot⟩, .publicTrades⟩, spotTrades,
    ⟨.binanceSpot, ⟨1, 2, .spot⟩, .orderBooksL2⟩],
   [btcFuture, spotTrades]]

example : ∀ b ∈ demo, ∀ s ∈ b, s.valid instOps = true := by decide +kernel

example : instOps.Lawful ∧ UnstableSort (stableSort (ι := Inst)) ∧ TableOk armBody :=
  ⟨instOps_lawful, stableSort_unstable, armBody_ok⟩

/-- `spotTrades` occurs three times, in two batches: initialised twice -/
example : (init armBody instOps stableSort demo).initialised.count spotTrades = 2 := by
  rw [each_subscription_once instOps instOps_lawful stableSort_unstable armBody_ok demo (by decide +kernel)]
  decide +kernel

example : btcFuture ∈ (init armBody instOps stableSort demo).initialised :=
  every_subscription_initialised instOps instOps_lawful stableSort_unstable armBody_ok demo (by decide +kernel)
    [btcFuture, spotTrades] (by decide +kernel) btcFuture (by decide +kernel)

/-- a subscription nobody asked for (the same instrument on the sibling connector) is never initialised -/
example : (init armBody instOps stableSort demo).initialised.count
    ⟨.gateioFuturesUsd, ⟨1, 2, .future 1743120000000⟩, .publicTrades⟩ = 0 := by
  rw [each_subscription_once instOps instOps_lawful stableSort_unstable armBody_ok demo (by decide +kernel)]
  decide +kernel

example : ¬ ∃ chans, (init armBody instOps stableSort demo).outcome = .ok chans := by
  rw [outcome_ok_iff_no_subscription instOps stableSort_unstable armBody_ok demo (by decide +kernel)]
  decide +kernel

example : init armBody instOps stableSort [[btcFuture]] =
    ⟨[⟨⟨125, 2, 60000⟩, .gateioFuturesBtc, .publicTrades, .trades, [⟨1, 2, .future 1743120000000⟩]⟩], .network⟩ := by
  decide +kernel

example : (init armBody instOps stableSort [[spotTrades, ⟨.binanceSpot, ⟨1, 2, .perpetual⟩, .publicTrades⟩]]) =
    ⟨[], .error (.validation ⟨.binanceSpot, ⟨1, 2, .perpetual⟩, .publicTrades⟩)⟩ := by decide +kernel

example : (init armBody instOps stableSort [[], []]).outcome = .ok {} := by decide +kernel

example : (armBody .gateioFuturesBtc .publicTrades).map (·.conn) = some .gateioFuturesBtc := rfl

example : ((ExchangeId.all.flatMap fun e => SubKind.all.map fun k => armBody e k).filter Option.isSome).length = 21 := by
  decide

end BarterModel.Props.C13D
