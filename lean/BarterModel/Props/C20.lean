import BarterModel.Lemmas.Backtest
/-!
# C20 — Backtests consume their whole dataset in order and do not affect one another (partial)

Model: `Model/Backtest.lean`. One backtest = market forwarder + account path + engine task +
`shutdown_after_backtest`, every scheduling decision an explicit `Act`; engine (`E`, which contains
the strategy, the risk manager and the recording state) and execution side (`X`) are arbitrary.
All theorems hold for EVERY action list (schedule), engine, exchange, dataset and number of
concurrent backtests; nothing is bounded.

What is proved, against the property text:
* `consumes_all`, `consumes_all_before_shutdown`, `shutdown_after_forwarder` — "feeds every event of
  its dataset to its engine exactly once and in dataset order before shutting the engine down …
  unless the engine stops on a fatal error, nothing is skipped".
* `summary_own_engine` — "the summary it returns is computed from that engine alone".
* `isolation`, `isolation_summary` — "running many backtests concurrently … gives each one the same
  [result] that it produces when run alone": for every global schedule, backtest `i` ends in exactly
  the state it reaches alone under the projection of that schedule. Machines share nothing BY
  CONSTRUCTION of `Sys`; that the Rust program has no hidden shared state is probed by the
  correspondence only (partial, by nature).
* `market_view_schedule_independent` — for every view of the engine that account events do not
  influence (the strategy's decisions, the recorded market sequence), the result of a cleanly
  shut down backtest does not depend on the schedule at all and equals the sequential run over the
  dataset: same requests, same recorded events, whatever tokio does.
* `account_view_schedule_dependent` (a proved NEGATIVE result, with `fills_lost_witness`): what the
  engine knows about fills / positions / balances / PnL at shutdown is NOT schedule-independent in
  the model that mirrors the code, even for a strategy that never looks at account events: `Shutdown`
  is sent when the market forwarder has finished ENQUEUEING (system/mod.rs:118-123), not when the
  execution responses have come back, so responses that are still in flight are dropped. The
  positive statement that can be proved is `drained_account_events_partial`.
-/
namespace BarterModel.Props.C20
open BarterModel.Backtest

variable {σ χ μ α ρ β : Type}

/-- (1a) At every moment of every schedule the market events the engine has processed are a prefix
of the dataset (dataset order, each once, no gap), and while the engine has not stopped nothing is
lost: processed ++ queued ++ unsent = dataset. -/
theorem consumes_all (E : Engine σ μ α ρ) (X : Exchange χ ρ α) (eng0 : σ) (exch0 : χ)
    (ds : List μ) (acc0 : List α) (acts : List Act) :
    let s := run E X (BT.init eng0 exch0 ds acc0) acts
    marketOf s.processed <+: ds ∧
    (s.stopped = none → marketOf s.processed ++ marketOf s.feed ++ s.market = ds) := by
  have h := inv_run E X ds acts _ (inv_init eng0 exch0 ds acc0)
  exact ⟨h.pre, h.cons⟩

/-- (1b) If the engine stopped on `Shutdown` (i.e. not on a fatal error), it has processed exactly
the dataset, in order, each event once, and all of it before the (single, final) `Shutdown`. -/
theorem consumes_all_before_shutdown (E : Engine σ μ α ρ) (X : Exchange χ ρ α) (eng0 : σ) (exch0 : χ)
    (ds : List μ) (acc0 : List α) (acts : List Act) :
    let s := run E X (BT.init eng0 exch0 ds acc0) acts
    s.stopped = some .shutdown →
      ∃ pre, s.processed = pre ++ [.shutdown] ∧ Ev.shutdown ∉ pre ∧ marketOf pre = ds := by
  intro s hs
  have h := inv_run E X ds acts _ (inv_init eng0 exch0 ds acc0)
  obtain ⟨pre, hp, hn⟩ := h.sdLast hs
  refine ⟨pre, hp, hn, ?_⟩
  have := h.clean hs
  rw [hp] at this
  simpa using this

/-- (1c) `Shutdown` is put on the feed only after the market forwarder has sent its last event. -/
theorem shutdown_after_forwarder (E : Engine σ μ α ρ) (X : Exchange χ ρ α) (eng0 : σ) (exch0 : χ)
    (ds : List μ) (acc0 : List α) (acts : List Act) :
    let s := run E X (BT.init eng0 exch0 ds acc0) acts
    (s.shutdownSent = true → s.market = []) ∧ (Ev.shutdown ∈ s.feed → s.shutdownSent = true) := by
  have h := inv_run E X ds acts _ (inv_init eng0 exch0 ds acc0)
  exact ⟨h.sent, h.sdfeed⟩

/-- (2) The summary is a function of the backtest's own engine, and that engine is exactly a fresh
copy of the shared initial state fed, alone and in order, the history this backtest's engine task
processed: nothing else enters it. -/
theorem summary_own_engine (E : Engine σ μ α ρ) (X : Exchange χ ρ α) (eng0 : σ) (exch0 : χ)
    (ds : List μ) (acc0 : List α) (summarise : σ → β) (acts : List Act) :
    let s := run E X (BT.init eng0 exch0 ds acc0) acts
    summary summarise s = summarise (engFold E eng0 s.processed) := by
  intro s
  have := own_run E X eng0 acts (BT.init eng0 exch0 ds acc0) rfl
  simp only [summary]; rw [← this]

/-- (3) Isolation: under ANY global schedule of N concurrent backtests, backtest `i` ends in exactly
the state it reaches when run alone under the actions of that schedule that concern it. -/
theorem isolation (E : Engine σ μ α ρ) (X : Exchange χ ρ α) (sys : Sys σ χ μ α)
    (acts : List (Nat × Act)) (i : Nat) :
    (sysRun E X sys acts)[i]? = (sys[i]?).map (fun s => run E X s (proj i acts)) :=
  sysRun_getElem? E X acts sys i

/-- (3') … hence the summary backtest `i` returns in the concurrent run is the summary it returns
alone (same schedule of its own tasks), whatever the other N-1 backtests do and however they are
interleaved with it. -/
theorem isolation_summary (E : Engine σ μ α ρ) (X : Exchange χ ρ α) (sys : Sys σ χ μ α)
    (acts : List (Nat × Act)) (summarise : σ → β) (i : Nat) (s0 : BT σ χ μ α) (hi : sys[i]? = some s0) :
    ((sysRun E X sys acts)[i]?).map (summary summarise) =
      some (summary summarise (run E X s0 (proj i acts))) := by
  rw [isolation, hi]; rfl

/-- Other machines' actions are invisible: two global schedules with the same projection on `i`
leave backtest `i` in the same state. -/
theorem isolation_others_irrelevant (E : Engine σ μ α ρ) (X : Exchange χ ρ α) (sys : Sys σ χ μ α)
    (acts acts' : List (Nat × Act)) (i : Nat) (h : proj i acts = proj i acts') :
    (sysRun E X sys acts)[i]? = (sysRun E X sys acts')[i]? := by
  rw [isolation, isolation, h]

/-- (4) Schedule independence of everything that does not depend on execution responses: let `obs`
be a view of the engine that account events and `Shutdown` leave unchanged and that market events
update as a function of the view (`MarketView`, on an engine invariant `P`). Then for EVERY schedule
that ends with the engine stopped on `Shutdown`, `obs` of the final engine equals `obs` of the plain
sequential run over the dataset. -/
theorem market_view_schedule_independent (E : Engine σ μ α ρ) (X : Exchange χ ρ α) (eng0 : σ)
    (exch0 : χ) (ds : List μ) (acc0 : List α) (P : σ → Prop) (obs : σ → β)
    (hv : MarketView E P obs) (hp0 : P eng0) (acts : List Act) :
    let s := run E X (BT.init eng0 exch0 ds acc0) acts
    s.stopped = some .shutdown → obs s.eng = obs (marketFold E eng0 ds) := by
  intro s hs
  have hown := own_run E X eng0 acts (BT.init eng0 exch0 ds acc0) rfl
  have hinv := inv_run E X ds acts _ (inv_init eng0 exch0 ds acc0)
  rw [hown, marketView_fold E P obs hv s.processed eng0 eng0 hp0 hp0 rfl, hinv.clean hs]

/-- (4') … in particular two schedules (e.g. concurrent vs alone, 1 vs 8 worker threads) agree. -/
theorem market_view_same_for_all_schedules (E : Engine σ μ α ρ) (X : Exchange χ ρ α) (eng0 : σ)
    (exch0 : χ) (ds : List μ) (acc0 : List α) (P : σ → Prop) (obs : σ → β)
    (hv : MarketView E P obs) (hp0 : P eng0) (acts acts' : List Act)
    (h : (run E X (BT.init eng0 exch0 ds acc0) acts).stopped = some .shutdown)
    (h' : (run E X (BT.init eng0 exch0 ds acc0) acts').stopped = some .shutdown) :
    obs (run E X (BT.init eng0 exch0 ds acc0) acts).eng =
      obs (run E X (BT.init eng0 exch0 ds acc0) acts').eng := by
  rw [market_view_schedule_independent E X eng0 exch0 ds acc0 P obs hv hp0 acts h,
      market_view_schedule_independent E X eng0 exch0 ds acc0 P obs hv hp0 acts' h']

/-- (5, partial) What CAN be said about the account side for all schedules: every account event the
engine processed was produced by this backtest's own execution side or was one of its own initial
events — processed, queued and pending account events are, as a multiset, exactly the initial ones
plus the responses to the requests this engine sent. MISSING for the property's last clause
("same fills, final positions, balances and realised PnL"): that all of them are processed before
`Shutdown`; the model that mirrors the code does not guarantee it (`account_view_schedule_dependent`),
so no schedule-independence of the account view is claimed. -/
theorem drained_account_events_partial (E : Engine σ μ α ρ) (X : Exchange χ ρ α) (eng0 : σ) (exch0 : χ)
    (ds : List μ) (acc0 : List α) (acts : List Act) :
    let s := run E X (BT.init eng0 exch0 ds acc0) acts
    s.stopped = none →
      (accountOf s.processed ++ accountOf s.feed ++ s.pending).Perm
        (acc0 ++ (respondAll X exch0 (requestsOf E eng0 s.processed)).2) :=
  account_conservation E X eng0 exch0 ds acc0 acts

/-! ## The negative result, on the concrete engine the driver runs -/

/-- dataset: 3 trades on one instrument -/
def wDs : List MktEv := [.trade 0 0 100, .trade 1 0 101, .trade 2 0 102]
/-- strategy: buy 1 after the first market event; it never looks at account events -/
def wPlan : List PlanItem := [⟨1, 0, .buy, 1⟩]
def wLazy : List Act := schedActs cEngine cExchange pickLazy 100 (cInit 1 wPlan wDs)
def wEager : List Act := schedActs cEngine cExchange pickEager 100 (cInit 1 wPlan wDs)

/-- Two schedules of the SAME backtest (same dataset, same strategy, same configuration), both
consuming the whole dataset and stopping on `Shutdown`: in one the engine ends long 1 with the quote
balance debited, in the other (the fill was still in flight when `Shutdown` was enqueued) it ends
flat with the initial balance — although the exchange filled the order in both. -/
theorem fills_lost_witness :
    let a := run cEngine cExchange (cInit 1 wPlan wDs) wEager
    let b := run cEngine cExchange (cInit 1 wPlan wDs) wLazy
    a.stopped = some .shutdown ∧ b.stopped = some .shutdown ∧
    marketOf a.processed = wDs ∧ marketOf b.processed = wDs ∧
    a.eng.mv.reqs = b.eng.mv.reqs ∧ a.exch = b.exch ∧
    (cSummarise a.eng).pos = [1] ∧ (cSummarise b.eng).pos = [0] ∧
    (cSummarise a.eng).bal = [100, 99900] ∧ (cSummarise b.eng).bal = [100, 100000] := by
  decide

/-- Hence the property's last clause does not hold of the model that mirrors the code: there is an
engine whose strategy ignores account events, and two schedules, with different summaries. -/
theorem account_view_schedule_dependent :
    ∃ (acts acts' : List Act),
      (run cEngine cExchange (cInit 1 wPlan wDs) acts).stopped = some .shutdown ∧
      (run cEngine cExchange (cInit 1 wPlan wDs) acts').stopped = some .shutdown ∧
      summary cSummarise (run cEngine cExchange (cInit 1 wPlan wDs) acts) ≠
        summary cSummarise (run cEngine cExchange (cInit 1 wPlan wDs) acts') :=
  ⟨wEager, wLazy, by decide, by decide, by decide⟩

/-- The concrete engine's market view (recorded events, prices, strategy cursor, requests sent) is a
`MarketView`: the plan strategy's decisions do not depend on execution responses. So (4) applies to
the very engine of the witness above: its requests and recorded market events ARE schedule
independent, only the account view is not. -/
theorem concrete_market_view : MarketView cEngine Settled (fun s => s.mv) := cMarketView

theorem concrete_init_settled (k : Nat) (plan : List PlanItem) : Settled (cEng0 k plan) :=
  cEng0_settled k plan

/-! ## Non-vacuity -/

/-- a schedule under which the hypotheses `stopped = some .shutdown` are met, with a non-trivial feed -/
example : (run cEngine cExchange (cInit 1 wPlan wDs) wEager).processed =
    [.account (.snapshot [100, 100000]), .market (.trade 0 0 100), .account (.order 0 true),
     .account (.balance 1 99900), .account (.trade 0 .buy 1 100), .market (.trade 1 0 101),
     .market (.trade 2 0 102), .shutdown] := by decide
example : (run cEngine cExchange (cInit 1 wPlan wDs) wLazy).processed =
    [.market (.trade 0 0 100), .market (.trade 1 0 101), .market (.trade 2 0 102), .shutdown] := by decide
/-- `stopped = none` is reachable with events in all three places -/
example : let s := run cEngine cExchange (cInit 1 wPlan wDs) [.fwdMarket, .fwdMarket, .engine]
    s.stopped = none ∧ marketOf s.processed = [.trade 0 0 100] ∧ marketOf s.feed = [.trade 1 0 101] ∧
    s.market = [.trade 2 0 102] ∧ s.pending.length = 4 := by decide
/-- isolation on a concrete 2-machine system with different strategies -/
example : (sysRun cEngine cExchange [cInit 1 wPlan wDs, cInit 1 [] wDs]
      (interleave 100 [wEager, wLazy]))[0]?.map (fun s => (cSummarise s.eng).pos) = some [1] := by
  decide

/-- `Reconnecting` markers are dataset elements like any other (`μ` is the whole stream event type):
markers before the first Item, between Items and after the last one are all fed, in order, before
`Shutdown`, and the engine's on-disconnect recorder sees each of them. -/
def wDsR : List MktEv :=
  [.reconnecting 0, .reconnecting 1, .trade 2 0 100, .reconnecting 3, .trade 4 0 101, .reconnecting 5]
def wRLazy : BT CEng CExch MktEv AccEv :=
  run cEngine cExchange (cInit 1 wPlan wDsR) (schedActs cEngine cExchange pickLazy 100 (cInit 1 wPlan wDsR))
def wREager : BT CEng CExch MktEv AccEv :=
  run cEngine cExchange (cInit 1 wPlan wDsR) (schedActs cEngine cExchange pickEager 100 (cInit 1 wPlan wDsR))
example : wRLazy.stopped = some .shutdown ∧ marketOf wRLazy.processed = wDsR ∧
    wRLazy.eng.mv.seen = [none, none, some 2, none, some 4, none] ∧ wRLazy.eng.mv.nMkt = 2 := by decide
example : wREager.stopped = some .shutdown ∧ marketOf wREager.processed = wDsR ∧
    wREager.eng.mv.seen = [none, none, some 2, none, some 4, none] ∧
    (cSummarise wREager.eng).pos = [1] := by decide


/-! ## Long datasets (`longdata`): the digesting engine `lEngine` (Model/Backtest.lean, last section)

Nothing above bounds the length of a dataset (`ds : List μ` is arbitrary in every theorem). What is
bounded is what the correspondence can EXECUTE: the list-recording engine `cEngine` is quadratic in
the dataset length. For datasets of 10^4 - 10^5 events the driver folds `lEngine` over the dataset
instead; the theorems of this section say that this is the same observation, digested:
* `long_market_view`, `long_digest_schedule_independent` - the digest (with the strategy's requests) is
  a `MarketView`: under EVERY schedule that ends with `Shutdown` it equals the plain sequential fold
  over the dataset, which is what the driver computes;
* `long_digest_refines_recording` - that fold is exactly the digest of what `cEngine` records on the
  same events (same strategy state, same requests; `seen` / `instSeen` folded by `SeqDig.step` /
  `instStep`), and the account views coincide;
* `long_digest_ok_iff_dataset` - `order=ok` with `n` events counted holds IF AND ONLY IF the processed
  stream is the dataset (so a repeat, an omission, a swap, a truncation all show);
* `long_digest_of_dataset`, `long_model_digest_clean` - on the dataset itself the cursor figures are
  `dups = 0`, `skipped = 0`, `last = n-1`, for every `n` and every marker pattern. -/

theorem long_market_view : MarketView lEngine LSettled lView := by
  constructor
  · intro s e hs
    cases e with
    | shutdown => exact hs
    | market m =>
      intro fuel
      simp only [lEngine, lProcess]
      exact stratEmit_fix _ _ (by omega) fuel
    | account a =>
      intro fuel
      simp only [lEngine, lProcess, hs _]
  · intro s a hs
    simp only [lEngine, lProcess, lView, hs _]
  · intro s _; rfl
  · intro s s' m _ _ heq
    simp only [lView, Prod.mk.injEq] at heq
    obtain ⟨hp, hm, hd⟩ := heq
    simp only [lEngine, lProcess, lView, hp, hm, hd]

theorem long_init_settled (p : LParams) (plan : List PlanItem) : LSettled (lEng0 p plan) := by
  apply stratEmit_of_done
  unfold Done
  split
  · trivial
  · right
    simp only [lEng0, cEng0, MView.strip, List.getElem?_replicate]; split <;> rfl

theorem long_digest_schedule_independent (X : Exchange χ Req AccEv) (exch0 : χ) (p : LParams)
    (plan : List PlanItem) (ds : List LEv) (acc0 : List AccEv) (acts : List Act) :
    let s := run lEngine X (BT.init (lEng0 p plan) exch0 ds acc0) acts
    s.stopped = some .shutdown → lView s.eng = lView (marketFold lEngine (lEng0 p plan) ds) := by
  intro s hs
  have hown := own_run lEngine X (lEng0 p plan) acts (BT.init (lEng0 p plan) exch0 ds acc0) rfl
  have hinv := inv_run lEngine X ds acts _ (inv_init (lEng0 p plan) exch0 ds acc0)
  rw [hown, marketView_fold lEngine LSettled lView long_market_view s.processed _ _
    (long_init_settled p plan) (long_init_settled p plan) rfl, hinv.clean hs]

theorem stratEmit_strip (fuel : Nat) (v : MView) :
    stratEmit fuel v.strip = ((stratEmit fuel v).1.strip, (stratEmit fuel v).2) := by
  induction fuel generalizing v with
  | zero => rfl
  | succ fuel ih =>
    rw [stratEmit, stratEmit]
    cases hitem : v.plan[v.next]? with
    | none => simp only [MView.strip, hitem]
    | some item =>
      by_cases ht : item.trigger ≤ v.nMkt
      · cases hp : (v.price[item.inst]?).join with
        | none => simp only [MView.strip, hitem, ht, hp, if_true]
        | some px =>
          have := ih { v with next := v.next + 1, reqs := v.reqs ++ [⟨v.next, item, px⟩] }
          simp only [MView.strip] at this
          simp only [MView.strip, hitem, ht, hp, if_true, this]
      · simp only [MView.strip, hitem, ht, if_false]

theorem stratEmit_seen (fuel : Nat) (v : MView) :
    (stratEmit fuel v).1.seen = v.seen ∧ (stratEmit fuel v).1.instSeen = v.instSeen := by
  induction fuel generalizing v with
  | zero => exact ⟨rfl, rfl⟩
  | succ fuel ih =>
    rw [stratEmit]
    split
    · exact ⟨rfl, rfl⟩
    · split
      · split
        · exact ⟨rfl, rfl⟩
        · simp only; exact ih _
      · exact ⟨rfl, rfl⟩

theorem strip_onMarket (v : MView) (m : MktEv) : (v.onMarket m).strip = v.strip.onMarketCore m := by
  unfold MView.onMarket MView.onMarketCore MView.strip
  split <;> rfl

/-- digest of an instrument's recorded ids -/
def idsDigest (ids : List Nat) : Nat × Nat := ids.foldl instStep (0, 0)

theorem map_modifyAt_snoc (L : List (List Nat)) (i x : Nat) :
    (modifyAt L i (· ++ [x])).map idsDigest = modifyAt (L.map idsDigest) i (instStep · x) := by
  unfold modifyAt
  induction L generalizing i with
  | nil => simp
  | cons a L ih =>
    cases i with
    | zero => simp [idsDigest, List.foldl_append]
    | succ i => simp [ih]

/-- the relation between the digesting engine and the list-recording engine fed the same events -/
def Refines (p : LParams) (l : LEng) (c : CEng) : Prop :=
  l.p = p ∧ l.mv = c.mv.strip ∧ l.dg.seq = c.mv.seen.foldl (SeqDig.step p) SeqDig.init ∧
  l.dg.inst = c.mv.instSeen.map idsDigest ∧ l.av = c.av

theorem refines_step (p : LParams) (l : LEng) (c : CEng) (e : LEv) (h : Refines p l c) :
    Refines p (lProcess l (.market e)).1 (cProcess c (.market e.ev)).1 ∧
    (lProcess l (.market e)).2 = (cProcess c (.market e.ev)).2 := by
  obtain ⟨hp, hmv, hseq, hinst, hav⟩ := h
  have hs := stratEmit_strip ((c.mv.onMarket e.ev).plan.length + 1) (c.mv.onMarket e.ev)
  have hseen := stratEmit_seen ((c.mv.onMarket e.ev).plan.length + 1) (c.mv.onMarket e.ev)
  have hcore : l.mv.onMarketCore e.ev = (c.mv.onMarket e.ev).strip := by rw [hmv, strip_onMarket]
  have hlen : ((c.mv.onMarket e.ev).strip).plan.length = (c.mv.onMarket e.ev).plan.length := rfl
  simp only [lProcess, cProcess, hcore, hlen, hs]
  refine ⟨⟨hp, rfl, ?_, ?_, hav⟩, trivial⟩
  · simp only [hseen.1, Dig.step, hp]
    unfold MView.onMarket
    split <;> simp [hseq, List.foldl_append]
  · simp only [hseen.2, Dig.step]
    unfold MView.onMarket
    split
    · simp [hinst]
    · simp only [hinst, map_modifyAt_snoc]

theorem refines_fold (p : LParams) (ds : List LEv) (l : LEng) (c : CEng) (h : Refines p l c) :
    Refines p (marketFold lEngine l ds) (marketFold cEngine c (ds.map (·.ev))) := by
  induction ds generalizing l c with
  | nil => exact h
  | cons e ds ih =>
    simp only [marketFold, List.map_cons, List.foldl_cons] at ih ⊢
    exact ih _ _ (refines_step p l c e h).1

theorem long_digest_refines_recording (p : LParams) (plan : List PlanItem) (ds : List LEv) :
    let l := marketFold lEngine (lEng0 p plan) ds
    let c := marketFold cEngine (cEng0 p.k plan) (ds.map (·.ev))
    l.mv = c.mv.strip ∧ l.dg.seq = c.mv.seen.foldl (SeqDig.step p) SeqDig.init ∧
    l.dg.inst = c.mv.instSeen.map idsDigest ∧ l.av = c.av := by
  have h0 : Refines p (lEng0 p plan) (cEng0 p.k plan) := by
    refine ⟨rfl, rfl, rfl, ?_, rfl⟩
    simp [lEng0, Dig.init, cEng0, idsDigest]
  exact (refines_fold p ds _ _ h0).2

theorem seqDig_step_cnt (p : LParams) (d : SeqDig) (tok : Option Nat) : (d.step p tok).cnt = d.cnt + 1 := by
  unfold SeqDig.step
  cases tok <;> simp only <;> split <;> rfl

/-- a step keeps `firstBad = none` exactly when the token is the dataset's element at this index -/
theorem seqDig_step_ok (p : LParams) (d : SeqDig) (tok : Option Nat) :
    (d.step p tok).firstBad = none ↔ (d.firstBad = none ∧ d.cnt < p.n ∧ tok = p.tok d.cnt) := by
  have key : (if (!(decide (d.cnt < p.n) && tok == p.tok d.cnt) && d.firstBad.isNone) = true then some d.cnt
      else d.firstBad) = none ↔ (d.firstBad = none ∧ d.cnt < p.n ∧ tok = p.tok d.cnt) := by
    cases hfb : d.firstBad <;> by_cases h1 : d.cnt < p.n <;> by_cases h2 : tok = p.tok d.cnt <;> simp [h1, h2]
  unfold SeqDig.step
  cases tok <;> simp only <;> split <;> exact key

theorem seqDig_fold_cnt (p : LParams) (l : List (Option Nat)) (d : SeqDig) :
    (l.foldl (SeqDig.step p) d).cnt = d.cnt + l.length := by
  induction l generalizing d with
  | nil => rfl
  | cons t l ih => simp only [List.foldl_cons, ih, seqDig_step_cnt, List.length_cons]; omega

theorem seqDig_fold_ok (p : LParams) (l : List (Option Nat)) (d : SeqDig) :
    (l.foldl (SeqDig.step p) d).firstBad = none ↔
      (d.firstBad = none ∧ ∀ j (h : j < l.length), d.cnt + j < p.n ∧ l[j] = p.tok (d.cnt + j)) := by
  induction l generalizing d with
  | nil => simp
  | cons t l ih =>
    simp only [List.foldl_cons, ih, seqDig_step_ok, seqDig_step_cnt, List.length_cons]
    constructor
    · rintro ⟨⟨h0, h1, h2⟩, h3⟩
      refine ⟨h0, ?_⟩
      intro j hj
      cases j with
      | zero => exact ⟨h1, by simpa using h2⟩
      | succ j =>
        have := h3 j (by omega)
        simp only [List.getElem_cons_succ]
        exact ⟨by omega, by rw [this.2]; congr 1; omega⟩
    · rintro ⟨h0, h3⟩
      refine ⟨⟨h0, ?_, ?_⟩, ?_⟩
      · have := (h3 0 (by omega)).1; omega
      · have := (h3 0 (by omega)).2; simpa using this
      · intro j hj
        have := h3 (j + 1) (by omega)
        simp only [List.getElem_cons_succ] at this
        exact ⟨by omega, by rw [this.2]; congr 1; omega⟩

/-- `order=ok` with `n` events processed says exactly: the processed stream IS the dataset. -/
theorem long_digest_ok_iff_dataset (p : LParams) (l : List (Option Nat)) :
    let d := l.foldl (SeqDig.step p) SeqDig.init
    (d.firstBad = none ∧ d.cnt = p.n) ↔ l = (List.range p.n).map p.tok := by
  intro d
  have hc : d.cnt = l.length := by simp [d, seqDig_fold_cnt, SeqDig.init]
  have hok := seqDig_fold_ok p l SeqDig.init
  simp only [SeqDig.init, Nat.zero_add, true_and] at hok
  constructor
  · rintro ⟨hfb, hn⟩
    apply List.ext_getElem
    · simp; omega
    · intro j h1 h2
      simp [(hok.mp hfb j h1).2]
  · intro hl
    have hlen : l.length = p.n := by rw [hl]; simp
    refine ⟨hok.mpr ?_, by omega⟩
    intro j hj
    refine ⟨by omega, ?_⟩
    simp [hl]

/-- the recorder token of a dataset element -/
def tokOf (e : LEv) : Option Nat := if e.ev.marker then none else some e.ev.id

/-- On a prefix of the dataset the digest is clean: `m` tokens counted, the cursor at `m`, no index
differs, nothing counted twice, nothing jumped over. -/
theorem long_digest_of_dataset (p : LParams) (m : Nat) (hm : m ≤ p.n) :
    let d := ((List.range m).map p.tok).foldl (SeqDig.step p) SeqDig.init
    d.cnt = m ∧ d.expect = m ∧ d.dups = 0 ∧ d.skipped = 0 ∧ d.firstBad = none ∧ d.items + d.markers = m := by
  induction m with
  | zero => simp [SeqDig.init]
  | succ m ih =>
    have ih := ih (by omega)
    simp only [List.range_succ, List.map_append, List.foldl_append, List.map_cons, List.map_nil,
      List.foldl_cons, List.foldl_nil]
    generalize ((List.range m).map p.tok).foldl (SeqDig.step p) SeqDig.init = d at ih
    obtain ⟨h1, h2, h3, h4, h5, h6⟩ := ih
    have hlt : m < p.n := by omega
    unfold SeqDig.step LParams.tok
    by_cases hmk : p.isMarker m
    · simp [hmk, h1, h2, h3, h4, h5, hlt]; omega
    · simp [hmk, h1, h2, h3, h4, h5, hlt]; omega

theorem genData_tokens (p : LParams) : (genData p).map tokOf = (List.range p.n).map p.tok := by
  simp only [genData, List.map_map]
  apply List.map_congr_left
  intro pos _
  simp only [Function.comp, tokOf, genEv, LParams.tok]
  split <;> simp [MktEv.reconnecting, MktEv.trade]

/-- the digesting engine's sequence digest is the fold of `SeqDig.step` over the tokens it was fed -/
theorem long_seq_digest_is_fold (ds : List LEv) (l : LEng) :
    (marketFold lEngine l ds).dg.seq = (ds.map tokOf).foldl (SeqDig.step l.p) l.dg.seq ∧
    (marketFold lEngine l ds).p = l.p := by
  induction ds generalizing l with
  | nil => exact ⟨rfl, rfl⟩
  | cons e ds ih =>
    simp only [marketFold, List.foldl_cons, List.map_cons] at ih ⊢
    have := ih (lEngine.process l (.market e)).1
    have hp : (lEngine.process l (.market e)).1.p = l.p := rfl
    have hs : (lEngine.process l (.market e)).1.dg.seq = l.dg.seq.step l.p (tokOf e) := by
      simp only [lEngine, lProcess, Dig.step, tokOf]
      split <;> rfl
    rw [hp, hs] at this
    exact this

/-- The model side of a `longdata` run: whatever the plan, the engine that was fed the generated dataset
holds the clean digest (`lseen .. n=<n> order=ok dups=0 skipped=0 last=<n-1>`). -/
theorem long_model_digest_clean (p : LParams) (plan : List PlanItem) :
    let d := (marketFold lEngine (lEng0 p plan) (genData p)).dg.seq
    d.cnt = p.n ∧ d.expect = p.n ∧ d.dups = 0 ∧ d.skipped = 0 ∧ d.firstBad = none := by
  intro d
  have h := (long_seq_digest_is_fold (genData p) (lEng0 p plan)).1
  rw [genData_tokens] at h
  have hc := long_digest_of_dataset p p.n (Nat.le_refl _)
  simp only at hc
  have h0 : (lEng0 p plan).dg.seq = SeqDig.init := rfl
  have hp0 : (lEng0 p plan).p = p := rfl
  rw [h0, hp0] at h
  simp only [d, h]
  exact ⟨hc.1, hc.2.1, hc.2.2.1, hc.2.2.2.1, hc.2.2.2.2.1⟩

/-! ### Non-vacuity of the long-dataset section -/

/-- 10 stream events over 2 instruments, markers at positions 1, 5, 9 -/
def wP : LParams := ⟨10, 2, 4, 1, 7, 1⟩

example : (genData wP).map tokOf = [some 0, none, some 2, some 3, some 4, none, some 6, some 7, some 8, none] := by
  decide
/-- intact run: the digest the spec demands, and the strategy bought on the first Item -/
example : (marketFold lEngine (lEng0 wP wPlan) (genData wP)).dg.seq = ⟨10, 7, 3, 10, 0, 0, none⟩ ∧
    (marketFold lEngine (lEng0 wP wPlan) (genData wP)).mv.reqs = [⟨0, ⟨1, 0, .buy, 1⟩, 50⟩] := by decide
/-- element 4 fed twice (what a block-wise clone with an inclusive end does): one repeat, first differing index 5 -/
example : ([some 0, none, some 2, some 3, some 4, some 4, none, some 6, some 7, some 8, none].foldl
    (SeqDig.step wP) SeqDig.init) = ⟨11, 8, 3, 10, 1, 0, some 5⟩ := by decide
/-- a marker fed twice -/
example : ([some 0, none, none, some 2].foldl (SeqDig.step wP) SeqDig.init) = ⟨4, 2, 2, 3, 1, 0, some 2⟩ := by decide
/-- element 3 dropped, and the stream stops after position 6: 1 + 3 positions not reached -/
example : let d := [some 0, none, some 2, some 4, none, some 6].foldl (SeqDig.step wP) SeqDig.init
    d = ⟨6, 4, 2, 7, 0, 1, some 3⟩ ∧ d.skipped + (wP.n - d.expect) = 4 := by decide
/-- the refinement on a concrete run: the list-recording engine's `seen`, digested -/
example : (marketFold cEngine (cEng0 2 wPlan) ((genData wP).map (·.ev))).mv.seen.foldl (SeqDig.step wP) SeqDig.init
    = ⟨10, 7, 3, 10, 0, 0, none⟩ := by decide


/-! ## Execution links for a subset of the exchanges (`tracked t x`, `linkedExchange`)

The market forwarder of the model (`stepFwdMarket`) forwards the next dataset element whatever it is and
whatever the execution side looks like; a backtest that filtered its market stream by "exchanges with an
execution link" would not refine it. Stated explicitly: -/

/-- THE MARKET VIEW IS INDEPENDENT OF WHICH EXCHANGES HAVE AN EXECUTION LINK. Two backtests over the same
dataset with the same engine (strategy, recorders) whose execution sides answer different subsets of the
requests (`linked`, `linked'`: which exchanges have an `ExecutionConfig`; `fun _ => false` = empty
`executions`), started from any execution-side state and any initial account events, under any two
schedules that end with `Shutdown`: every view of the engine that account events do not influence (the
recorded market stream - Items of traded and of tracked-only instruments, disconnect notices of every
exchange -, the strategy's requests) is the same, and it is that of the plain sequential run over the
WHOLE dataset. -/
theorem market_view_independent_of_execution_links (E : Engine σ μ α ρ) (X : Exchange χ ρ α)
    (linked linked' : ρ → Bool) (eng0 : σ) (exch0 exch0' : χ) (ds : List μ) (acc0 acc0' : List α)
    (P : σ → Prop) (obs : σ → β) (hv : MarketView E P obs) (hp0 : P eng0) (acts acts' : List Act)
    (h : (run E (linkedExchange X linked) (BT.init eng0 exch0 ds acc0) acts).stopped = some .shutdown)
    (h' : (run E (linkedExchange X linked') (BT.init eng0 exch0' ds acc0') acts').stopped = some .shutdown) :
    obs (run E (linkedExchange X linked) (BT.init eng0 exch0 ds acc0) acts).eng =
      obs (run E (linkedExchange X linked') (BT.init eng0 exch0' ds acc0') acts').eng ∧
    obs (run E (linkedExchange X linked) (BT.init eng0 exch0 ds acc0) acts).eng = obs (marketFold E eng0 ds) := by
  have a := market_view_schedule_independent E (linkedExchange X linked) eng0 exch0 ds acc0 P obs hv hp0 acts h
  have b := market_view_schedule_independent E (linkedExchange X linked') eng0 exch0' ds acc0' P obs hv hp0 acts' h'
  exact ⟨a.trans b.symm, a⟩

/-- … and the engine is fed every event of the dataset, in order, once, before `Shutdown`, whichever exchanges
have an execution link (`consumes_all_before_shutdown` does not mention the execution side's behaviour). -/
theorem consumes_all_whatever_the_links (E : Engine σ μ α ρ) (X : Exchange χ ρ α) (linked : ρ → Bool)
    (eng0 : σ) (exch0 : χ) (ds : List μ) (acc0 : List α) (acts : List Act) :
    let s := run E (linkedExchange X linked) (BT.init eng0 exch0 ds acc0) acts
    s.stopped = some .shutdown →
      ∃ pre, s.processed = pre ++ [.shutdown] ∧ Ev.shutdown ∉ pre ∧ marketOf pre = ds :=
  consumes_all_before_shutdown E (linkedExchange X linked) eng0 exch0 ds acc0 acts

/-! ### Non-vacuity: a dataset with a tracked-only instrument and a tracked-only exchange's marker -/

/-- instrument 0 is traded; instrument 1 and exchange number 1 (the first marker) are tracked only -/
def wDsT : List MktEv :=
  [⟨0, 1, 0, true⟩, .trade 1 0 50, .trade 2 1 100, .trade 3 1 101, .reconnecting 4, .trade 5 0 51]
/-- execution link for instrument 0's exchange only / for no exchange at all (empty `executions`) -/
def wXT : Exchange CExch Req AccEv := linkedExchange cExchange (fun r => decide (r.item.inst < 1))
def wXNone : Exchange CExch Req AccEv := linkedExchange cExchange (fun _ => false)
def wTLinked : BT CEng CExch MktEv AccEv :=
  run cEngine wXT (cInit 2 wPlan wDsT) (schedActs cEngine wXT pickEager 100 (cInit 2 wPlan wDsT))
def wTNone : BT CEng CExch MktEv AccEv :=
  run cEngine wXNone (cInit 2 wPlan wDsT) (schedActs cEngine wXNone pickEager 100 (cInit 2 wPlan wDsT))
example : wTLinked.stopped = some .shutdown ∧ marketOf wTLinked.processed = wDsT ∧
    wTLinked.eng.mv.seen = [none, some 1, some 2, some 3, none, some 5] ∧
    wTLinked.eng.mv.instSeen = [[1, 5], [2, 3]] ∧ (cSummarise wTLinked.eng).pos = [1, 0] := by decide
example : wTNone.stopped = some .shutdown ∧ marketOf wTNone.processed = wDsT ∧
    wTNone.eng.mv = wTLinked.eng.mv ∧ (cSummarise wTNone.eng).pos = [0, 0] := by decide

end BarterModel.Props.C20
