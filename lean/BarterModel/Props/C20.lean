import BarterModel.Lemmas.Backtest
/-!
# C20 — Backtests consume their whole dataset in order and do not affect one another (partial)

Model: `Model/Backtest.lean`. One backtest = market forwarder + account path + engine task +
`shutdown_after_backtest`, every scheduling decision an explicit `Act`; engine (`E`, which contains
the strategy, the risk manager and the recording state) and execution side (`X`) are arbitrary.
All theorems hold for EVERY action list (schedule), engine, exchange, dataset and number of
concurrent backtests; nothing is bounded.

What is proved, against the property text:
* `consumes_all`, `consumes_all_before_shutdown`, `shutdown_after_forwarder` — "feeds every event of
  its dataset to its engine exactly once and in dataset order before shutting the engine down …
  unless the engine stops on a fatal error, nothing is skipped".
* `summary_own_engine` — "the summary it returns is computed from that engine alone".
* `isolation`, `isolation_summary` — "running many backtests concurrently … gives each one the same
  [result] that it produces when run alone": for every global schedule, backtest `i` ends in exactly
  the state it reaches alone under the projection of that schedule. Machines share nothing BY
  CONSTRUCTION of `Sys`; that the Rust program has no hidden shared state is probed by the
  correspondence only (partial, by nature).
* `market_view_schedule_independent` — for every view of the engine that account events do not
  influence (the strategy's decisions, the recorded market sequence), the result of a cleanly
  shut down backtest does not depend on the schedule at all and equals the sequential run over the
  dataset: same requests, same recorded events, whatever tokio does.
* `account_view_schedule_dependent` (a proved NEGATIVE result, with `fills_lost_witness`): what the
  engine knows about fills / positions / balances / PnL at shutdown is NOT schedule-independent in
  the model that mirrors the code, even for a strategy that never looks at account events: `Shutdown`
  is sent when the market forwarder has finished ENQUEUEING (system/mod.rs:118-123), not when the
  execution responses have come back, so responses that are still in flight are dropped. The
  positive statement that can be proved is `drained_account_events_partial`.
-/
namespace BarterModel.Props.C20
open BarterModel.Backtest

variable {σ χ μ α ρ β : Type}

/-- (1a) At every moment of every schedule the market events the engine has processed are a prefix
of the dataset (dataset order, each once, no gap), and while the engine has not stopped nothing is
lost: processed ++ queued ++ unsent = dataset. -/
theorem consumes_all (E : Engine σ μ α ρ) (X : Exchange χ ρ α) (eng0 : σ) (exch0 : χ)
    (ds : List μ) (acc0 : List α) (acts : List Act) :
    let s := run E X (BT.init eng0 exch0 ds acc0) acts
    marketOf s.processed <+: ds ∧
    (s.stopped = none → marketOf s.processed ++ marketOf s.feed ++ s.market = ds) := by
  have h := inv_run E X ds acts _ (inv_init eng0 exch0 ds acc0)
  exact ⟨h.pre, h.cons⟩

/-- (1b) If the engine stopped on `Shutdown` (i.e. not on a fatal error), it has processed exactly
the dataset, in order, each event once, and all of it before the (single, final) `Shutdown`. -/
theorem consumes_all_before_shutdown (E : Engine σ μ α ρ) (X : Exchange χ ρ α) (eng0 : σ) (exch0 : χ)
    (ds : List μ) (acc0 : List α) (acts : List Act) :
    let s := run E X (BT.init eng0 exch0 ds acc0) acts
    s.stopped = some .shutdown →
      ∃ pre, s.processed = pre ++ [.shutdown] ∧ Ev.shutdown ∉ pre ∧ marketOf pre = ds := by
  intro s hs
  have h := inv_run E X ds acts _ (inv_init eng0 exch0 ds acc0)
  obtain ⟨pre, hp, hn⟩ := h.sdLast hs
  refine ⟨pre, hp, hn, ?_⟩
  have := h.clean hs
  rw [hp] at this
  simpa using this

/-- (1c) `Shutdown` is put on the feed only after the market forwarder has sent its last event. -/
theorem shutdown_after_forwarder (E : Engine σ μ α ρ) (X : Exchange χ ρ α) (eng0 : σ) (exch0 : χ)
    (ds : List μ) (acc0 : List α) (acts : List Act) :
    let s := run E X (BT.init eng0 exch0 ds acc0) acts
    (s.shutdownSent = true → s.market = []) ∧ (Ev.shutdown ∈ s.feed → s.shutdownSent = true) := by
  have h := inv_run E X ds acts _ (inv_init eng0 exch0 ds acc0)
  exact ⟨h.sent, h.sdfeed⟩

/-- (2) The summary is a function of the backtest's own engine, and that engine is exactly a fresh
copy of the shared initial state fed, alone and in order, the history this backtest's engine task
processed: nothing else enters it. -/
theorem summary_own_engine (E : Engine σ μ α ρ) (X : Exchange χ ρ α) (eng0 : σ) (exch0 : χ)
    (ds : List μ) (acc0 : List α) (summarise : σ → β) (acts : List Act) :
    let s := run E X (BT.init eng0 exch0 ds acc0) acts
    summary summarise s = summarise (engFold E eng0 s.processed) := by
  intro s
  have := own_run E X eng0 acts (BT.init eng0 exch0 ds acc0) rfl
  simp only [summary]; rw [← this]

/-- (3) Isolation: under ANY global schedule of N concurrent backtests, backtest `i` ends in exactly
the state it reaches when run alone under the actions of that schedule that concern it. -/
theorem isolation (E : Engine σ μ α ρ) (X : Exchange χ ρ α) (sys : Sys σ χ μ α)
    (acts : List (Nat × Act)) (i : Nat) :
    (sysRun E X sys acts)[i]? = (sys[i]?).map (fun s => run E X s (proj i acts)) :=
  sysRun_getElem? E X acts sys i

/-- (3') … hence the summary backtest `i` returns in the concurrent run is the summary it returns
alone (same schedule of its own tasks), whatever the other N-1 backtests do and however they are
interleaved with it. -/
theorem isolation_summary (E : Engine σ μ α ρ) (X : Exchange χ ρ α) (sys : Sys σ χ μ α)
    (acts : List (Nat × Act)) (summarise : σ → β) (i : Nat) (s0 : BT σ χ μ α) (hi : sys[i]? = some s0) :
    ((sysRun E X sys acts)[i]?).map (summary summarise) =
      some (summary summarise (run E X s0 (proj i acts))) := by
  rw [isolation, hi]; rfl

/-- Other machines' actions are invisible: two global schedules with the same projection on `i`
leave backtest `i` in the same state. -/
theorem isolation_others_irrelevant (E : Engine σ μ α ρ) (X : Exchange χ ρ α) (sys : Sys σ χ μ α)
    (acts acts' : List (Nat × Act)) (i : Nat) (h : proj i acts = proj i acts') :
    (sysRun E X sys acts)[i]? = (sysRun E X sys acts')[i]? := by
  rw [isolation, isolation, h]

/-- (4) Schedule independence of everything that does not depend on execution responses: let `obs`
be a view of the engine that account events and `Shutdown` leave unchanged and that market events
update as a function of the view (`MarketView`, on an engine invariant `P`). Then for EVERY schedule
that ends with the engine stopped on `Shutdown`, `obs` of the final engine equals `obs` of the plain
sequential run over the dataset. -/
theorem market_view_schedule_independent (E : Engine σ μ α ρ) (X : Exchange χ ρ α) (eng0 : σ)
    (exch0 : χ) (ds : List μ) (acc0 : List α) (P : σ → Prop) (obs : σ → β)
    (hv : MarketView E P obs) (hp0 : P eng0) (acts : List Act) :
    let s := run E X (BT.init eng0 exch0 ds acc0) acts
    s.stopped = some .shutdown → obs s.eng = obs (marketFold E eng0 ds) := by
  intro s hs
  have hown := own_run E X eng0 acts (BT.init eng0 exch0 ds acc0) rfl
  have hinv := inv_run E X ds acts _ (inv_init eng0 exch0 ds acc0)
  rw [hown, marketView_fold E P obs hv s.processed eng0 eng0 hp0 hp0 rfl, hinv.clean hs]

/-- (4') … in particular two schedules (e.g. concurrent vs alone, 1 vs 8 worker threads) agree. -/
theorem market_view_same_for_all_schedules (E : Engine σ μ α ρ) (X : Exchange χ ρ α) (eng0 : σ)
    (exch0 : χ) (ds : List μ) (acc0 : List α) (P : σ → Prop) (obs : σ → β)
    (hv : MarketView E P obs) (hp0 : P eng0) (acts acts' : List Act)
    (h : (run E X (BT.init eng0 exch0 ds acc0) acts).stopped = some .shutdown)
    (h' : (run E X (BT.init eng0 exch0 ds acc0) acts').stopped = some .shutdown) :
    obs (run E X (BT.init eng0 exch0 ds acc0) acts).eng =
      obs (run E X (BT.init eng0 exch0 ds acc0) acts').eng := by
  rw [market_view_schedule_independent E X eng0 exch0 ds acc0 P obs hv hp0 acts h,
      market_view_schedule_independent E X eng0 exch0 ds acc0 P obs hv hp0 acts' h']

/-- (5, partial) What CAN be said about the account side for all schedules: every account event the
engine processed was produced by this backtest's own execution side or was one of its own initial
events — processed, queued and pending account events are, as a multiset, exactly the initial ones
plus the responses to the requests this engine sent. MISSING for the property's last clause
("same fills, final positions, balances and realised PnL"): that all of them are processed before
`Shutdown`; the model that mirrors the code does not guarantee it (`account_view_schedule_dependent`),
so no schedule-independence of the account view is claimed. -/
theorem drained_account_events_partial (E : Engine σ μ α ρ) (X : Exchange χ ρ α) (eng0 : σ) (exch0 : χ)
    (ds : List μ) (acc0 : List α) (acts : List Act) :
    let s := run E X (BT.init eng0 exch0 ds acc0) acts
    s.stopped = none →
      (accountOf s.processed ++ accountOf s.feed ++ s.pending).Perm
        (acc0 ++ (respondAll X exch0 (requestsOf E eng0 s.processed)).2) :=
  account_conservation E X eng0 exch0 ds acc0 acts

/-! ## The negative result, on the concrete engine the driver runs -/

/-- dataset: 3 trades on one instrument -/
def wDs : List MktEv := [.trade 0 0 100, .trade 1 0 101, .trade 2 0 102]
/-- strategy: buy 1 after the first market event; it never looks at account events -/
def wPlan : List PlanItem := [⟨1, 0, .buy, 1⟩]
def wLazy : List Act := schedActs cEngine cExchange pickLazy 100 (cInit 1 wPlan wDs)
def wEager : List Act := schedActs cEngine cExchange pickEager 100 (cInit 1 wPlan wDs)

/-- Two schedules of the SAME backtest (same dataset, same strategy, same configuration), both
consuming the whole dataset and stopping on `Shutdown`: in one the engine ends long 1 with the quote
balance debited, in the other (the fill was still in flight when `Shutdown` was enqueued) it ends
flat with the initial balance — although the exchange filled the order in both. -/
theorem fills_lost_witness :
    let a := run cEngine cExchange (cInit 1 wPlan wDs) wEager
    let b := run cEngine cExchange (cInit 1 wPlan wDs) wLazy
    a.stopped = some .shutdown ∧ b.stopped = some .shutdown ∧
    marketOf a.processed = wDs ∧ marketOf b.processed = wDs ∧
    a.eng.mv.reqs = b.eng.mv.reqs ∧ a.exch = b.exch ∧
    (cSummarise a.eng).pos = [1] ∧ (cSummarise b.eng).pos = [0] ∧
    (cSummarise a.eng).bal = [100, 99900] ∧ (cSummarise b.eng).bal = [100, 100000] := by
  decide

/-- Hence the property's last clause does not hold of the model that mirrors the code: there is an
engine whose strategy ignores account events, and two schedules, with different summaries. -/
theorem account_view_schedule_dependent :
    ∃ (acts acts' : List Act),
      (run cEngine cExchange (cInit 1 wPlan wDs) acts).stopped = some .shutdown ∧
      (run cEngine cExchange (cInit 1 wPlan wDs) acts').stopped = some .shutdown ∧
      summary cSummarise (run cEngine cExchange (cInit 1 wPlan wDs) acts) ≠
        summary cSummarise (run cEngine cExchange (cInit 1 wPlan wDs) acts') :=
  ⟨wEager, wLazy, by decide, by decide, by decide⟩

/-- The concrete engine's market view (recorded events, prices, strategy cursor, requests sent) is a
`MarketView`: the plan strategy's decisions do not depend on execution responses. So (4) applies to
the very engine of the witness above: its requests and recorded market events ARE schedule
independent, only the account view is not. -/
theorem concrete_market_view : MarketView cEngine Settled (fun s => s.mv) := cMarketView

theorem concrete_init_settled (k : Nat) (plan : List PlanItem) : Settled (cEng0 k plan) :=
  cEng0_settled k plan

/-! ## Non-vacuity -/

/-- a schedule under which the hypotheses `stopped = some .shutdown` are met, with a non-trivial feed -/
example : (run cEngine cExchange (cInit 1 wPlan wDs) wEager).processed =
    [.account (.snapshot [100, 100000]), .market (.trade 0 0 100), .account (.order 0 true),
     .account (.balance 1 99900), .account (.trade 0 .buy 1 100), .market (.trade 1 0 101),
     .market (.trade 2 0 102), .shutdown] := by decide
example : (run cEngine cExchange (cInit 1 wPlan wDs) wLazy).processed =
    [.market (.trade 0 0 100), .market (.trade 1 0 101), .market (.trade 2 0 102), .shutdown] := by decide
/-- `stopped = none` is reachable with events in all three places -/
example : let s := run cEngine cExchange (cInit 1 wPlan wDs) [.fwdMarket, .fwdMarket, .engine]
    s.stopped = none ∧ marketOf s.processed = [.trade 0 0 100] ∧ marketOf s.feed = [.trade 1 0 101] ∧
    s.market = [.trade 2 0 102] ∧ s.pending.length = 4 := by decide
/-- isolation on a concrete 2-machine system with different strategies -/
example : (sysRun cEngine cExchange [cInit 1 wPlan wDs, cInit 1 [] wDs]
      (interleave 100 [wEager, wLazy]))[0]?.map (fun s => (cSummarise s.eng).pos) = some [1] := by
  decide

/-- `Reconnecting` markers are dataset elements like any other (`μ` is the whole stream event type):
markers before the first Item, between Items and after the last one are all fed, in order, before
`Shutdown`, and the engine's on-disconnect recorder sees each of them. -/
def wDsR : List MktEv :=
  [.reconnecting 0, .reconnecting 1, .trade 2 0 100, .reconnecting 3, .trade 4 0 101, .reconnecting 5]
def wRLazy : BT CEng CExch MktEv AccEv :=
  run cEngine cExchange (cInit 1 wPlan wDsR) (schedActs cEngine cExchange pickLazy 100 (cInit 1 wPlan wDsR))
def wREager : BT CEng CExch MktEv AccEv :=
  run cEngine cExchange (cInit 1 wPlan wDsR) (schedActs cEngine cExchange pickEager 100 (cInit 1 wPlan wDsR))
example : wRLazy.stopped = some .shutdown ∧ marketOf wRLazy.processed = wDsR ∧
    wRLazy.eng.mv.seen = [none, none, some 2, none, some 4, none] ∧ wRLazy.eng.mv.nMkt = 2 := by decide
example : wREager.stopped = some .shutdown ∧ marketOf wREager.processed = wDsR ∧
    wREager.eng.mv.seen = [none, none, some 2, none, some 4, none] ∧
    (cSummarise wREager.eng).pos = [1] := by decide

end BarterModel.Props.C20
