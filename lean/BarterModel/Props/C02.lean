import BarterModel.Lemmas.Position
namespace BarterModel.Props.C02
open BarterModel.Position

theorem flat_start : (runFills []).pm.current = none := rfl

end BarterModel.Props.C02
