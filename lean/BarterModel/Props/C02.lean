import BarterModel.Lemmas.Position
import BarterModel.Lemmas.KernelsAgree.Position
import BarterModel.Lemmas.KernelsAgree.PositionSM
/-!
# C02 — Position size and realised PnL conserve the cash flows of the fills

Statements only (proofs go through `Lemmas/Position.lean`). Everything is about the executable
model `Model/Position.lean` that `Driver/C02.lean` runs:

* `runFills fs` — the `PositionManager` after the fills `fs` from the empty manager, together with
  every `PositionExited` it returned (`.exits`, oldest first);
* `(runFills fs).pm.update f` — the next call of `PositionManager::update_from_trade`: new manager
  and returned `Option PositionExited`.

and relates it to the abstract spec written from the property text: `net fs` (Σ ±q), `cash fs`
(Σ sell p·q − Σ buy p·q − Σ fee), `feeSum fs`, `ReachesOrCrossesZero`, `Crosses`, `life fs`.

Hypotheses, the same two for every history theorem, for *all* finite fill lists (no bound):
`OneInstrument i fs` (one instrument) and `PosQty fs` (every quantity `> 0`). The property's
`price > 0` and `fee ≥ 0` are not needed by any proof and therefore not assumed (the theorems also
cover rebates). Arithmetic is exact over ℚ: this is the "up to decimal rounding" statement.
-/
namespace BarterModel.Props.C02
open BarterModel.Position

/-- The state after `fs ++ [f]` is the state after `fs` updated by `f`, and the exits list grows by
exactly the record that update returned (ties `Run.exits` to the return values). -/
theorem runFills_snoc (fs : List Trade) (f : Trade) :
    (runFills (fs ++ [f])).pm = ((runFills fs).pm.update f).1 ∧
    (runFills (fs ++ [f])).exits = (runFills fs).exits ++ ((runFills fs).pm.update f).2.toList := by
  simp [runFills, Run.run, List.foldl_append, Run.step]

/-- (1) `size_is_net`: after any fill history the open position's signed quantity (0 when flat)
is the net signed filled quantity, its side is the sign of the net, there is no position exactly
when the net is zero, and `quantity_abs = |net|`. -/
theorem size_is_net {i : Nat} (fs : List Trade) (h1 : OneInstrument i fs) (h2 : PosQty fs) :
    (runFills fs).pm.signedQty = net fs ∧
    (runFills fs).pm.side = sideOfNet (net fs) ∧
    ((runFills fs).pm.current = none ↔ net fs = 0) ∧
    (∀ p, (runFills fs).pm.current = some p → p.quantityAbs = abs (net fs) ∧ p.instrument = i) := by
  have h := inv_runFills fs h1 h2
  have hs := h.signed
  refine ⟨hs, ?_, ?_, ?_⟩
  · rw [← hs]; exact pm_side_of_signed h.wf
  · rw [← hs, pm_signed_eq]
    cases hc : (runFills fs).pm.current with
    | none => simp [optSigned]
    | some p => simpa [optSigned] using signed_ne_zero (h.wf p hc)
  · intro p hc
    rw [← hs, pm_signed_eq, hc]
    exact ⟨(signed_abs (h.wf p hc)).symm, (h.wf p hc).instr⟩

/-- (2) `exit_iff_cross`: the fill `f` after the history `fs` makes
`PositionManager::update_from_trade` return a `PositionExited` exactly when the net quantity was
non-zero before `f` and is zero or of the opposite sign after it. -/
theorem exit_iff_cross {i : Nat} (fs : List Trade) (f : Trade) (h1 : OneInstrument i (fs ++ [f]))
    (h2 : PosQty (fs ++ [f])) :
    ((runFills fs).pm.update f).2.isSome ↔ ReachesOrCrossesZero (net fs) (net (fs ++ [f])) := by
  have h := inv_runFills fs (fun x hx => h1 x (by simp [hx])) (fun x hx => h2 x (by simp [hx]))
  have := pm_update_exit_iff h.wf (h1 f (by simp)) (h2 f (by simp))
  rw [← pm_signed_eq, h.signed] at this
  simpa [net, sum_append_rat, Rat.add_zero] using this

/-- (2a) whole-history form: the number of closed-position records returned over the history is
the number of fills at which the net quantity reached or crossed zero. -/
theorem exits_count {i : Nat} (fs : List Trade) (h1 : OneInstrument i fs) (h2 : PosQty fs) :
    (runFills fs).exits.length = zeroTouches 0 fs := by
  simpa [runFills, Run.init] using run_exits_length fs h1 h2 (inv_init i)

/-- (2b) a *crossing* fill closes the open position, charging it the share `fee·(closed/q)` as exit
fee, and opens the opposite position (the fill's side) with the remainder `|net after|`, entry
price = fill price, entry fee `fee·(remainder/q)` (so realised PnL `−` that), and only this fill's
id. -/
theorem crossing_fill_splits {i : Nat} (fs : List Trade) (f : Trade)
    (h1 : OneInstrument i (fs ++ [f])) (h2 : PosQty (fs ++ [f]))
    (hx : Crosses (net fs) (net (fs ++ [f]))) :
    ∃ p p' e, (runFills fs).pm.current = some p ∧
      (runFills fs).pm.update f = ({ current := some p' }, some e) ∧
      p'.side = f.side ∧ p'.instrument = i ∧
      p'.quantityAbs = abs (net (fs ++ [f])) ∧
      p'.quantityAbsMax = abs (net (fs ++ [f])) ∧
      p'.priceEntryAverage = f.price ∧
      p'.feesEnter = f.fees * (abs (net (fs ++ [f])) / f.quantity) ∧
      p'.feesExit = 0 ∧
      p'.pnlRealised = -(f.fees * (abs (net (fs ++ [f])) / f.quantity)) ∧
      p'.trades = [f.id] ∧ p'.timeEnter = f.time ∧
      e.feesEnter = p.feesEnter ∧
      e.feesExit = p.feesExit + f.fees * (abs (net fs) / f.quantity) := by
  have h := inv_runFills fs (fun x hx => h1 x (by simp [hx])) (fun x hx => h2 x (by simp [hx]))
  have hn : net (fs ++ [f]) = net fs + signedQty f := by simp [net, Rat.add_zero]
  have hs := h.signed
  rw [pm_signed_eq] at hs
  cases hc : (runFills fs).pm.current with
  | none =>
    exfalso; rw [hc] at hs; simp only [optSigned] at hs
    rw [← hs] at hx; unfold Crosses at hx; grind
  | some p =>
    rw [hc] at hs; simp only [optSigned] at hs
    rw [hn, ← hs] at hx ⊢
    obtain ⟨p', e, hu, rest⟩ := update_cross (h.wf p hc) (h1 f (by simp)) (h2 f (by simp)) hx
    refine ⟨p, p', e, rfl, ?_, rest⟩
    simp [PositionManager.update, hc, hu]

/-- (2c) a fill that takes the net quantity exactly to zero leaves no position and charges its
whole fee to the closed one. -/
theorem exact_close {i : Nat} (fs : List Trade) (f : Trade)
    (h1 : OneInstrument i (fs ++ [f])) (h2 : PosQty (fs ++ [f]))
    (hb : net fs ≠ 0) (ha : net (fs ++ [f]) = 0) :
    ∃ p e, (runFills fs).pm.current = some p ∧
      (runFills fs).pm.update f = ({ current := none }, some e) ∧
      e.feesEnter = p.feesEnter ∧ e.feesExit = p.feesExit + f.fees := by
  have h := inv_runFills fs (fun x hx => h1 x (by simp [hx])) (fun x hx => h2 x (by simp [hx]))
  have hn : net (fs ++ [f]) = net fs + signedQty f := by simp [net, Rat.add_zero]
  have hs := h.signed
  rw [pm_signed_eq] at hs
  cases hc : (runFills fs).pm.current with
  | none => exfalso; rw [hc] at hs; exact hb hs.symm
  | some p =>
    rw [hc] at hs; simp only [optSigned] at hs
    rw [hn, ← hs] at ha
    obtain ⟨e, hu, rest⟩ := update_close (h.wf p hc) (h1 f (by simp)) (h2 f (by simp)) ha
    refine ⟨p, e, rfl, ?_, rest⟩
    simp [PositionManager.update, hc, hu]

/-- (2d) a fill arriving at net zero opens a position from that fill alone (whole fee as entry
fee) and returns no record. -/
theorem opening_fill {i : Nat} (fs : List Trade) (f : Trade) (h1 : OneInstrument i fs)
    (h2 : PosQty fs) (hb : net fs = 0) :
    (runFills fs).pm.update f = ({ current := some (Position.ofTrade f) }, none) := by
  have hc := ((size_is_net fs h1 h2).2.2.1).mpr hb
  simp [PositionManager.update, hc]

/-- (3) `conservation`: realised PnL summed over all closed-position records plus the open
position's realised PnL = total sell proceeds − total buy cost − all fees + the open (signed)
quantity valued at its average entry price. Exact in ℚ. -/
theorem conservation {i : Nat} (fs : List Trade) (h1 : OneInstrument i fs) (h2 : PosQty fs) :
    (runFills fs).pnlRealised = cash fs + (runFills fs).pm.openValue := by
  have := (inv_runFills fs h1 h2).cons
  grind

/-- (4) `fees_conserved`: entry plus exit fees over all positions (closed records and the open
one) equal the fees of the fills. -/
theorem fees_conserved {i : Nat} (fs : List Trade) (h1 : OneInstrument i fs) (h2 : PosQty fs) :
    (runFills fs).fees = feeSum fs :=
  (inv_runFills fs h1 h2).fees

/-- (5) `trade_ids`: the id of fill `f` is recorded in the position left open by `f` (if any) and
in the closed-position record `f` produced (if any) — i.e. against every position it affected (on
a crossing fill: both). -/
theorem trade_ids {i : Nat} (fs : List Trade) (f : Trade) (h1 : OneInstrument i (fs ++ [f]))
    (h2 : PosQty (fs ++ [f])) :
    (∀ p', ((runFills fs).pm.update f).1.current = some p' → f.id ∈ p'.trades) ∧
    (∀ e, ((runFills fs).pm.update f).2 = some e → f.id ∈ e.trades) := by
  have h1' : OneInstrument i fs := fun x hx => h1 x (by simp [hx])
  have h2' : PosQty fs := fun x hx => h2 x (by simp [hx])
  have h := inv_runFills fs h1' h2'
  have hl := life_runFills fs h1' h2'
  have hf1 := h1 f (by simp)
  have hf2 := h2 f (by simp)
  have ⟨a, b⟩ := pm_update_life h.wf hl hf1 hf2
  constructor
  · intro p' hp'
    unfold PMLife at a; rw [hp'] at a
    rw [a.ids]
    have hne : ((life fs).step f).net ≠ 0 := by
      rw [← a.net]; exact signed_ne_zero (pm_update_wf h.wf hf1 hf2 p' hp')
    rw [Life.step_net] at hne
    by_cases hA : (life fs).net = 0 ∨ Crosses (life fs).net ((life fs).net + signedQty f)
    · simp [Life.step, hA]
    · simp [Life.step, hA, hne]
  · intro e he
    obtain ⟨p, _, ht, _⟩ := b e he
    rw [ht]; simp

/-- (5b) exact form: the open position's `trades` are exactly the ids of the fills since the one
that opened it (`life fs`, from the history alone), oldest first; the record produced by `f` carries
those ids followed by `f`'s. Together with (6). -/
theorem position_life {i : Nat} (fs : List Trade) (h1 : OneInstrument i fs) (h2 : PosQty fs) :
    ∀ p, (runFills fs).pm.current = some p →
      p.trades = (life fs).ids ∧ p.quantityAbsMax = (life fs).maxAbs ∧
      p.timeEnter = (life fs).timeEnter ∧
      0 < p.quantityAbs ∧ p.quantityAbs ≤ p.quantityAbsMax := by
  intro p hc
  have hl := life_runFills fs h1 h2
  have hw := (inv_runFills fs h1 h2).wf p hc
  unfold PMLife at hl; rw [hc] at hl
  exact ⟨hl.ids, hl.mx, hl.te, hw.pos, hw.le⟩

/-- (6) `max_qty`: `(life fs).maxAbs` is the maximum of `|net|` over the prefixes of the history
since the open position was opened: it is `|net|` at the opening fill, never decreases while the
position lives, and is at least the current `|net|`. With `position_life`
(`quantity_abs_max = (life fs).maxAbs`, `0 < quantity_abs ≤ quantity_abs_max`) this is the
`quantity_abs_max` clause, and it discharges the division guard of
`approximate_remaining_exit_fees`. (Pure statement about the spec function.) -/
theorem life_maxAbs_is_running_max (l : Life) (f : Trade) :
    let a := l.net + signedQty f
    ((l.net = 0 ∨ Crosses l.net a) → (l.step f).maxAbs = abs a) ∧
    (¬(l.net = 0 ∨ Crosses l.net a) → a ≠ 0 →
      (l.step f).maxAbs = (if abs a > l.maxAbs then abs a else l.maxAbs) ∧
      l.maxAbs ≤ (l.step f).maxAbs ∧ abs a ≤ (l.step f).maxAbs) := by
  simp only [Life.step]
  constructor
  · intro h; simp [h]
  · intro h ha; simp only [h, ha, if_false]
    refine ⟨trivial, ?_, ?_⟩ <;> split <;> grind

/-- The record produced by fill `f` after history `fs` describes the position that was open:
its ids are the life's ids plus `f`'s, its `quantity_abs_max`, entry time, side and average entry
price are those of the open position, its exit time is `f`'s time. -/
theorem exit_record {i : Nat} (fs : List Trade) (f : Trade) (h1 : OneInstrument i (fs ++ [f]))
    (h2 : PosQty (fs ++ [f])) :
    ∀ e, ((runFills fs).pm.update f).2 = some e →
      ∃ p, (runFills fs).pm.current = some p ∧
        e.trades = (life fs).ids ++ [f.id] ∧ e.quantityAbsMax = (life fs).maxAbs ∧
        e.timeEnter = (life fs).timeEnter ∧ e.timeExit = f.time ∧ e.side = p.side ∧
        e.instrument = p.instrument ∧ e.priceEntryAverage = p.priceEntryAverage := by
  have h1' : OneInstrument i fs := fun x hx => h1 x (by simp [hx])
  have h2' : PosQty fs := fun x hx => h2 x (by simp [hx])
  exact (pm_update_life (inv_runFills fs h1' h2').wf (life_runFills fs h1' h2')
    (h1 f (by simp)) (h2 f (by simp))).2

/-- Instrument-mismatch arm: a fill for another instrument changes nothing and returns nothing. -/
theorem mismatch_ignored (p : Position) (t : Trade) (h : p.instrument ≠ t.instrument) :
    p.updateFromTrade t = (some p, none) :=
  update_mismatch p t h

/-- Engine routing: after any interleaved fill list, instrument `i`'s position manager and exit
records are exactly those of its own fills alone — so every theorem above holds per instrument of
the engine (`OneInstrument i (fs.filter …)` holds by construction, see `oneInstrument_filter`). -/
theorem engine_routes_per_instrument (n : Nat) (fs : List Trade) (i : Nat) (hi : i < n) :
    (Instruments.run (Instruments.init n) fs)[i]? =
      some (runFills (fs.filter (fun f => f.instrument = i))) := by
  have := instruments_run_get fs (Instruments.init n) i Run.init
    (by simp [Instruments.init, hi])
  simpa [runFills] using this

theorem oneInstrument_filter (fs : List Trade) (i : Nat) :
    OneInstrument i (fs.filter (fun f => f.instrument = i)) := by
  intro f hf; simpa using (List.mem_filter.mp hf).2

/-- Conservation per engine instrument, for interleaved fills on any number of instruments. -/
theorem engine_conservation (n : Nat) (fs : List Trade) (h2 : PosQty fs) (i : Nat) (hi : i < n) :
    ∃ r, (Instruments.run (Instruments.init n) fs)[i]? = some r ∧
      r.pm.signedQty = net (fs.filter (fun f => f.instrument = i)) ∧
      r.pnlRealised = cash (fs.filter (fun f => f.instrument = i)) + r.pm.openValue ∧
      r.fees = feeSum (fs.filter (fun f => f.instrument = i)) := by
  have hq : PosQty (fs.filter (fun f => f.instrument = i)) :=
    fun f hf => h2 f (List.mem_filter.mp hf).1
  exact ⟨_, engine_routes_per_instrument n fs i hi,
    (size_is_net _ (oneInstrument_filter fs i) hq).1,
    conservation _ (oneInstrument_filter fs i) hq,
    fees_conserved _ (oneInstrument_filter fs i) hq⟩

/-! ## Non-vacuity

A concrete history on instrument 0 with an increase, a partial reduction, an increase after the
reduction, a flip, a second flip and an exact close: the hypotheses hold, two-sided conclusions are
exercised (exits emitted and not emitted; crossing and non-crossing). -/

def exFills : List Trade :=
  [ ⟨1, 0, 0, .buy, 100, 2, 1⟩, ⟨2, 0, 1, .buy, 110, 1, 1⟩, ⟨3, 0, 2, .sell, 120, 1, 2⟩,
    ⟨4, 0, 3, .buy, 90, 2, 0⟩, ⟨5, 0, 4, .sell, 130, 6, 3⟩, ⟨6, 0, 5, .buy, 100, 5, 5⟩,
    ⟨7, 0, 6, .sell, 105, 3, 1⟩ ]

example : OneInstrument 0 exFills := by decide +kernel
example : PosQty exFills := by decide +kernel
example : net exFills = 0 := by decide +kernel
example : (runFills exFills).exits.length = 3 ∧ zeroTouches 0 exFills = 3 := by decide +kernel
example : (runFills exFills).pm.current = none := by decide +kernel
example : Crosses (net (exFills.take 4)) (net (exFills.take 5)) := by decide +kernel
example : ¬ ReachesOrCrossesZero (net (exFills.take 2)) (net (exFills.take 3)) := by decide +kernel
example : (runFills (exFills.take 6)).pm.side = some .buy ∧
    (runFills (exFills.take 6)).pm.signedQty = 3 := by decide +kernel
example : (life (exFills.take 4)).ids = [1, 2, 3, 4] ∧ (life (exFills.take 4)).maxAbs = 4 := by decide +kernel

/-- **Tie to the source by translation.** The arithmetic kernels `Position.updateFromTrade` is built
from (`calculate_price_entry_average`, `calculate_pnl_realised`, and `calculate_pnl_unrealised` with
its `approximate_remaining_exit_fees`) are regenerated from the current
`barter/src/engine/state/position.rs` by `tools/rust2lean.py` on every run, and the generated
definitions equal the model's for all arguments (`sideOf` is the bijection between the model's `Side`
and the one translated from `enum Side`). A change of one of these kernels in the source makes this
theorem fail to build. -/
theorem kernels_agree_with_source :
    (∀ currentAvg currentQtyAbs tradePrice tradeQtyAbs : Rat,
        BarterModel.Generated.calculate_price_entry_average currentAvg currentQtyAbs tradePrice tradeQtyAbs
          = calculatePriceEntryAverage currentAvg currentQtyAbs tradePrice tradeQtyAbs)
    ∧ (∀ quantityAbs quantityAbsMax feesEnter : Rat,
        BarterModel.Generated.approximate_remaining_exit_fees quantityAbs quantityAbsMax feesEnter
          = approximateRemainingExitFees quantityAbs quantityAbsMax feesEnter)
    ∧ (∀ (side : Side) (priceEntryAverage quantityAbs quantityAbsMax feesEnter price : Rat),
        BarterModel.Generated.calculate_pnl_unrealised (BarterModel.KernelsAgree.sideOf side)
            priceEntryAverage quantityAbs quantityAbsMax feesEnter price
          = calculatePnlUnrealised side priceEntryAverage quantityAbs quantityAbsMax feesEnter price)
    ∧ (∀ (side : Side) (priceEntryAverage closedQuantity closedPrice closedFee : Rat),
        BarterModel.Generated.calculate_pnl_realised (BarterModel.KernelsAgree.sideOf side)
            priceEntryAverage closedQuantity closedPrice closedFee
          = calculatePnlRealised side priceEntryAverage closedQuantity closedPrice closedFee)
    ∧ (∀ s, BarterModel.KernelsAgree.sideTo (BarterModel.KernelsAgree.sideOf s) = s)
    ∧ (∀ s, BarterModel.KernelsAgree.sideOf (BarterModel.KernelsAgree.sideTo s) = s) :=
  BarterModel.KernelsAgree.position_kernels_agree

/-- **Tie of the whole state machine to the source by translation.** `Position::from(&Trade)`,
`PositionExited::from(Position)`, `Position::{update_pnl_unrealised, update_pnl_realised,
update_from_trade}` and `PositionManager::update_from_trade` are regenerated from the current
`barter/src/engine/state/position.rs` by `tools/rust2lean_sm.py` on every run
(`Generated/Machines.lean`), and each generated function equals the model's function the theorems
above are about, for all positions, managers and trades, through the record bijections `ofPos` /
`toPos` and the surjection `ofTrade` (which forgets `order_id` and `strategy`); the proof shows the
`unreachable!` arm of `update_from_trade` is dead code. The statement is that of
`KernelsAgree.PositionSM.position_sm_agree` (Lemmas/KernelsAgree/PositionSM.lean). -/
theorem state_machine_agrees_with_source :
    type_of% BarterModel.KernelsAgree.PositionSM.position_sm_agree :=
  BarterModel.KernelsAgree.PositionSM.position_sm_agree

end BarterModel.Props.C02
