import BarterModel.Lemmas.Channels
import BarterModel.Props.C10
/-!
# C10C (sub-check of C10) — channels, droppable transmitters, snapshot+updates pairs, merged streams,
and the run loops that feed the audit stream

Statements only; proofs go through `Lemmas/Channels.lean`. Everything is for **all** items, worlds,
`Tx` implementations, consumer behaviours and operation histories (no bound on lengths).

* §1 channel: `send` succeeds iff somebody listens, FIFO, the `Iterator` view busy-waits exactly when the
  `Stream` view is pending;
* §2 `ChannelTxDroppable` over **any** `Tx`: disabled = no-op for good, first failed send disables,
  delivered = the items before the first failing one;
* §3 a droppable transmitter and its receiver, every history: refinement to the log-with-cursor
  specification; received = a prefix of accepted = a prefix of offered, nothing lost while listening;
* §4 `Snapshot` laws and the snapshot+updates reconstruction theorem;
* §5 stream combinators: `merge` is the flat two-queue machine, satisfies `MergeSpec` for every history,
  is fused, never withholds, is fair, ends promptly; `IndexedStream` maps item by item;
* §6 run loops: the engine's evolution and shutdown record never depend on the audit transmitter, its
  world or its consumer; the consumer holds exactly a prefix of the records; link to the C10 model;
* §7 the end of a run as the closures of `SystemBuilder::init` perform it: terminal record, then
  `engine.shutdown()` (one `Shutdown` per execution transmitter, failures ignored), then the audit
  transmitter is dropped — a consumer that keeps listening reads every record, the terminal one last, and
  then the end of the stream.

Definitional / bookkeeping statements (one-step unfoldings of the model, kept so that each modelled Rust
function has its law on record, NOT results): `send_ok_iff_receiver_alive`, `send_effect`, `sink_is_send`,
`recv_done_iff`, `iterator_spins_iff`, `iterator_agrees_with_stream`, `disabled_send_is_noop`,
`disable_idempotent`, `drop_eq_disable_world`, the four `snapshot_*`, `fuse_after_end`, `fuse_transparent`,
`indexed_maps_every_item(_generic)`, `interleaved_is_free`, `shutdown_on_channel_link`.
-/
namespace BarterModel.Props.C10C
open BarterModel.Chan

/-! ## §1 The channel -/

/-- `UnboundedTx::send` returns `Ok` exactly when the receiver has not been dropped. -/
theorem send_ok_iff_receiver_alive {α : Type} (c : Chan α) (x : α) :
    (c.send x).2 = true ↔ c.rxAlive = true := by
  unfold Chan.send; split <;> simp_all

/-- A successful send appends to the queue and touches nothing else; a failed one changes nothing. -/
theorem send_effect {α : Type} (c : Chan α) (x : α) :
    (c.send x).1 = if c.rxAlive then { c with queue := c.queue ++ [x] } else c := by
  unfold Chan.send; split <;> simp_all

/-- The `Sink` implementation is `send`. -/
theorem sink_is_send {α : Type} (c : Chan α) (x : α) : c.sinkSend x = c.send x := rfl

/-- FIFO: whatever is sent through a channel with a live receiver comes out in the order sent, each
item once: `n` polls after sending `xs` yield the first `n` of (what was queued before, then `xs`). -/
theorem chan_fifo {α : Type} (c : Chan α) (xs : List α) (n : Nat) (h : c.rxAlive = true) :
    (pollN (sendAll c xs) n).2 = (c.queue ++ xs).take n ∧
    (pollN (sendAll c xs) n).1.queue = (c.queue ++ xs).drop n := by
  rw [sendAll_alive c xs h]
  have := pollN_queue { c with queue := c.queue ++ xs } n
  exact ⟨this.1, by rw [this.2]⟩

/-- The receiver sees the end of the stream exactly when the queue is drained and no transmitter is left. -/
theorem recv_done_iff {α : Type} (c : Chan α) : c.pollNext.2 = .done ↔ c.queue = [] ∧ c.senders = 0 := by
  rcases c with ⟨q, n, r⟩
  cases q <;> by_cases hn : n = 0 <;> simp [Chan.pollNext, hn]

/-- `<UnboundedRx as Iterator>::next` never returns while the queue is empty and a transmitter exists
(it busy-waits), and only then. -/
theorem iterator_spins_iff {α : Type} (c : Chan α) :
    c.iterNext.2 = .spins ↔ c.queue = [] ∧ c.senders ≠ 0 := by
  rcases c with ⟨q, n, r⟩
  cases q <;> by_cases hn : n = 0 <;> simp [Chan.iterNext, Chan.tryRecv, hn]

/-- The `Iterator` and the `Stream` view of the receiver agree: same state afterwards, `Some x` ↔ item `x`,
`None` ↔ end of stream, busy-wait ↔ `Pending`. -/
theorem iterator_agrees_with_stream {α : Type} (c : Chan α) :
    c.iterNext.1 = c.pollNext.1 ∧
    (match c.iterNext.2, c.pollNext.2 with
      | .some x, .item y => x = y
      | .none, .done => True
      | .spins, .pending => True
      | _, _ => False) := by
  rcases c with ⟨q, n, r⟩
  cases q <;> by_cases hn : n = 0 <;> simp [Chan.iterNext, Chan.tryRecv, Chan.pollNext, hn]

/-- The bare channel (any number of transmitter handles) refines the log-with-cursor stream operation
by operation: `send` gives the same verdict, cloning / dropping handles and dropping the receiver act
alike, and a receiver poll yields the same result — the next unread item of the log, the end when no
transmitter is left, pending otherwise. (`ChanRel c got t`: `t` describes `c` with `got` already read.) -/
theorem chan_refines_spec_stepwise {α : Type} {c : Chan α} {got : List α} {t : SpecChan α}
    (h : ChanRel c got t) (x : α) :
    ChanRel (Chan.new : Chan α) [] SpecChan.new ∧
    (ChanRel (c.send x).1 got (t.send x).1 ∧ (c.send x).2 = (t.send x).2) ∧
    ChanRel c.cloneTx got { t with senders := t.senders + 1 } ∧
    ChanRel c.dropTx got { t with senders := t.senders - 1 } ∧
    ChanRel c.dropRx got { t with listening := false } ∧
    (c.rxAlive = true → c.pollNext.2 = t.read.2 ∧
      ChanRel c.pollNext.1 (match c.pollNext.2 with | .item x => got ++ [x] | _ => got) t.read.1) :=
  ⟨chanRel_new, chanRel_send h x, (chanRel_handles h).1, (chanRel_handles h).2.1, (chanRel_handles h).2.2,
    chanRel_recv h⟩

/-! ## §2 `ChannelTxDroppable` over any `Tx` -/

/-- A disabled transmitter's `send` does nothing, to any world (so nothing can reach any receiver, old or new). -/
theorem disabled_send_is_noop {ω α : Type} (tx : Tx ω α) (w : ω) (x : α) :
    dsend tx .disabled w x = (.disabled, w) := rfl

/-- `new_disabled` sends nothing, ever. -/
theorem new_disabled_sends_nothing {ω α : Type} (tx : Tx ω α) (w : ω) (xs : List α) :
    dsendAll tx DState.newDisabled w xs = (.disabled, w) := dsendAll_disabled tx w xs

/-- Nothing re-enables a transmitter: if it is active after a sequence of sends it was active before. -/
theorem never_reenabled {ω α : Type} (tx : Tx ω α) (d : DState) (w : ω) (xs : List α)
    (h : (dsendAll tx d w xs).1 = .active) : d = .active := dsendAll_state_mono tx d w xs h

/-- While every inner send succeeds, the wrapper is transparent: it stays active and the world is exactly
what the bare transmitter would have produced. -/
theorem transparent_while_ok {ω α : Type} (tx : Tx ω α) (w : ω) (xs : List α) (h : allOk tx w xs = true) :
    dsendAll tx DState.new w xs = (.active, sendsWorld tx w xs) := dsendAll_allOk tx w xs h

/-- The first failed inner send disables the transmitter, drops the wrapped `Tx`, and every later item
(`post`) has no effect whatsoever. -/
theorem first_failure_disables {ω α : Type} (tx : Tx ω α) (w : ω) (pre post : List α) (x : α)
    (hpre : allOk tx w pre = true) (hx : (tx.send (sendsWorld tx w pre) x).2 = false) :
    dsendAll tx DState.new w (pre ++ x :: post) =
      (.disabled, tx.drop (tx.send (sendsWorld tx w pre) x).1) :=
  dsendAll_first_fail tx w pre post x hpre hx

/-- `disable` is idempotent and a disabled transmitter stays disabled under `disable`. -/
theorem disable_idempotent {ω α : Type} (tx : Tx ω α) (d : DState) (w : ω) :
    ddisable tx (ddisable tx d w).1 (ddisable tx d w).2 = ddisable tx d w ∧ (ddisable tx d w).1 = .disabled := by
  cases d <;> simp [ddisable]

/-- For the world, dropping the `ChannelTxDroppable` and disabling it are the same thing (bookkeeping). -/
theorem drop_eq_disable_world {ω α : Type} (tx : Tx ω α) (d : DState) (w : ω) :
    ddrop tx d w = (ddisable tx d w).2 := by
  cases d <;> rfl

/-- The wrapped transmitter is dropped at most once: after a `disable` (or a failed send, which leaves the
state `Disabled`), dropping the `ChannelTxDroppable` does nothing more to the world. -/
theorem drop_after_disable_is_noop {ω α : Type} (tx : Tx ω α) (d : DState) (w : ω) :
    ddrop tx (ddisable tx d w).1 (ddisable tx d w).2 = (ddisable tx d w).2 ∧
    ∀ x, (dsend tx d w x).1 = .disabled → ddrop tx (dsend tx d w x).1 (dsend tx d w x).2 = (dsend tx d w x).2 := by
  refine ⟨by cases d <;> rfl, fun x h => by rw [h]; rfl⟩

/-- Over a transmitter that refuses some items and logs the others: the log is exactly the offered items
before the first refused one (in order, once), the wrapped transmitter is dropped exactly once in that
case, and never if nothing was refused. -/
theorem flaky_delivers_prefix (bad : Nat → Bool) (xs : List Nat) :
    dsendAll (flakyTx bad) DState.new ([], 0) xs =
      if xs.all (fun x => !bad x) then (.active, (xs, 0))
      else (.disabled, (xs.takeWhile (fun x => !bad x), 1)) := by
  have := flaky_all (bad := bad) ([], 0) xs
  simpa [DState.new] using this

/-! ## §3 One droppable transmitter and its receiver: every history -/

/-- Refinement: after any history, the concrete system (queue, sender count, `ChannelState`) and the
log-with-cursor specification agree on everything observable — what the receiver has got, whether it has
seen the end, whether the transmitter is still on, who is still there — and, while the receiver lives,
the log is what was got followed by what is queued. -/
theorem refines_spec {α : Type} (d : DState) (ops : List (Op α)) :
    SysRel ((Sys.init d : Sys α).run ops) ((SpecSys.init (d == .active)).run ops) :=
  sysRel_run ops (sysRel_init d)

/-- What the receiver has got is a prefix of what was accepted, which is a prefix of what was offered:
in order, nothing twice, nothing invented, and nothing after the first failed send. -/
theorem received_prefix_of_accepted_prefix_of_offered {α : Type} (ops : List (Op α)) :
    ((Sys.init .active : Sys α).run ops).got <+: acceptedOf ops ∧ acceptedOf ops <+: offeredOf ops :=
  ⟨(sys_facts ops).1, accepted_prefix_offered ops⟩

/-- Nothing is lost while the receiver lives: got ++ still queued = exactly the items offered before the
transmitter was first cut off. After the receiver is dropped the queue is gone. -/
theorem nothing_lost_while_listening {α : Type} (ops : List (Op α)) :
    let s := (Sys.init .active : Sys α).run ops
    (s.c.rxAlive = true → s.got ++ s.c.queue = acceptedOf ops) ∧ (s.c.rxAlive = false → s.c.queue = []) :=
  ⟨(sys_facts ops).2.1, (sys_facts ops).2.2.1⟩

/-- A transmitter that still exists and is still active has had every offered item accepted. -/
theorem active_means_all_accepted {α : Type} (ops : List (Op α))
    (h : ((Sys.init .active : Sys α).run ops).d = .active)
    (hg : ((Sys.init .active : Sys α).run ops).gone = false) : acceptedOf ops = offeredOf ops :=
  (sys_facts ops).2.2.2 h hg

/-- ... and `gone = false` is needed: a transmitter dropped while `Active` keeps `d = .active`, and what
is "offered" afterwards (impossible in Rust, a no-op in histories) is not accepted. -/
theorem active_but_dropped_witness :
    ((Sys.init .active : Sys Nat).run [.dropTx, .dsend 1]).d = .active ∧
    acceptedOf ([.dropTx, .dsend 1] : List (Op Nat)) = [] ∧ offeredOf ([.dropTx, .dsend 1] : List (Op Nat)) = [1] := by
  decide

/-- As long as nobody cuts the transmitter off (no `disable`, receiver not dropped, transmitter not
dropped) it stays active, and everything offered is received or queued, in order. -/
theorem no_cut_delivers_everything {α : Type} (ops : List (Op α)) (h : NoCut ops) :
    let s := (Sys.init .active : Sys α).run ops
    s.d = .active ∧ s.got ++ s.c.queue = offeredOf ops := by
  have hr := run_noCut ops (Sys.init .active : Sys α) h rfl rfl rfl
  refine ⟨hr.1, ?_⟩
  rw [(sys_facts ops).2.1 hr.2.1, acceptedOf_noCut ops h]

/-- Off is for good: once the transmitter is off — `Disabled`, or dropped — whatever happens next it stays
off and the receiver never gets anything beyond what had been got or queued at that moment (no hypothesis
on the receiver: if it is already gone, nothing at all is received any more). -/
theorem tx_off_is_permanent {α : Type} (ops more : List (Op α))
    (h : ((Sys.init .active : Sys α).run ops).d = .disabled ∨ ((Sys.init .active : Sys α).run ops).gone = true) :
    let s1 := (Sys.init .active : Sys α).run ops
    let s2 := (Sys.init .active : Sys α).run (ops ++ more)
    (s2.d = .disabled ∨ s2.gone = true) ∧ s2.got <+: s1.got ++ s1.c.queue := by
  have r1 := refines_spec (α := α) .active ops
  have r2 := refines_spec (α := α) .active (ops ++ more)
  rw [SpecSys.run_append] at r2
  have hl : ((SpecSys.init (α := α) (DState.active == DState.active)).run ops).live = false := by
    rw [r1.live]
    rcases h with h | h <;> rw [h] <;> simp
  have hf := spec_run_notlive more _ hl
  refine ⟨?_, ?_⟩
  · have := r2.live
    rw [hf.1] at this
    cases hd : ((Sys.init .active : Sys α).run (ops ++ more)).d with
    | disabled => exact Or.inl rfl
    | active =>
      cases hg : ((Sys.init .active : Sys α).run (ops ++ more)).gone with
      | true => exact Or.inr rfl
      | false => rw [hd, hg] at this; cases this
  · cases hrx : ((Sys.init .active : Sys α).run ops).c.rxAlive with
    | true =>
      rw [← r2.got, SpecChan.got, hf.2, r1.log hrx]
      exact List.take_prefix _ _
    | false =>
      rw [Sys.run_append, run_dead more _ hrx]
      exact List.prefix_append _ _

/-- Disabled is for good (the reviewer's `disabled_is_permanent'`: no `rxAlive` hypothesis): once the
transmitter is `Disabled`, whatever happens next it stays `Disabled` and the receiver never gets anything
beyond what had been got or queued at that moment. -/
theorem disabled_is_permanent_any_receiver {α : Type} (ops more : List (Op α))
    (h : ((Sys.init .active : Sys α).run ops).d = .disabled) :
    let s1 := (Sys.init .active : Sys α).run ops
    let s2 := (Sys.init .active : Sys α).run (ops ++ more)
    s2.d = .disabled ∧ s2.got <+: s1.got ++ s1.c.queue := by
  refine ⟨?_, (tx_off_is_permanent ops more (Or.inl h)).2⟩
  rw [Sys.run_append]
  exact run_disabled more _ h

/-- Corollary kept under its old name (second conjunct under the unnecessary hypothesis `rxAlive`). -/
theorem disabled_is_permanent {α : Type} (ops more : List (Op α))
    (h : ((Sys.init .active : Sys α).run ops).d = .disabled) :
    let s1 := (Sys.init .active : Sys α).run ops
    let s2 := (Sys.init .active : Sys α).run (ops ++ more)
    s2.d = .disabled ∧ (s1.c.rxAlive = true → s2.got <+: s1.got ++ s1.c.queue) :=
  ⟨(disabled_is_permanent_any_receiver ops more h).1, fun _ => (disabled_is_permanent_any_receiver ops more h).2⟩

/-- A transmitter created with `new_disabled`: the receiver never gets anything, whatever the history. -/
theorem new_disabled_receives_nothing {α : Type} (ops : List (Op α)) :
    ((Sys.init .disabled : Sys α).run ops).got = [] ∧ ((Sys.init .disabled : Sys α).run ops).d = .disabled := by
  have r := refines_spec (α := α) .disabled ops
  have hf := spec_run_notlive ops (SpecSys.init (α := α) (DState.disabled == DState.active)) rfl
  refine ⟨?_, run_disabled ops _ rfl⟩
  rw [← r.got, SpecChan.got, hf.2]
  show List.take _ [] = []
  simp

/-- The receiver sees the end of the stream only after the transmitter has gone off — `Disabled` (by
`disable` or a failed send) or DROPPED, which is how the production closures end the audit stream — and
by then it has read every item that was ever accepted: a consumer that reads to the end misses nothing
that was delivered. (Before the `dropTx` operation existed this theorem said `d = .disabled`: an artefact
of the operation alphabet.) -/
theorem end_means_complete {α : Type} (ops : List (Op α))
    (h : ((Sys.init .active : Sys α).run ops).sawEnd = true) :
    (((Sys.init .active : Sys α).run ops).d = .disabled ∨ ((Sys.init .active : Sys α).run ops).gone = true) ∧
    ((Sys.init .active : Sys α).run ops).got = acceptedOf ops := by
  have r := refines_spec (α := α) .active ops
  have hinv := specInv_run ops (specInv_init (α := α) (DState.active == DState.active))
  have hlog : ((SpecSys.init (α := α) (DState.active == DState.active)).run ops).ch.log = acceptedOf ops := by
    have := (spec_run_live ops (SpecSys.init (α := α) true) rfl rfl).1
    rwa [show (SpecSys.init (α := α) true).ch.log = [] from rfl, List.nil_append] at this
  have he := hinv.ended (by rw [r.sawEnd]; exact h)
  refine ⟨?_, ?_⟩
  · have := r.live
    rw [he.1] at this
    cases hd : ((Sys.init .active : Sys α).run ops).d with
    | disabled => exact Or.inl rfl
    | active =>
      cases hg : ((Sys.init .active : Sys α).run ops).gone with
      | true => exact Or.inr rfl
      | false => rw [hd, hg] at this; cases this
  · rw [← r.got, SpecChan.got, he.2, List.take_length, hlog]

/-- The old reading of `end_means_complete`, with its hidden hypothesis explicit: if the
`ChannelTxDroppable` still exists when the end is seen, it is `Disabled`. -/
theorem end_without_drop_means_disabled {α : Type} (ops : List (Op α))
    (h : ((Sys.init .active : Sys α).run ops).sawEnd = true)
    (hg : ((Sys.init .active : Sys α).run ops).gone = false) :
    ((Sys.init .active : Sys α).run ops).d = .disabled := by
  rcases (end_means_complete ops h).1 with h1 | h1
  · exact h1
  · rw [hg] at h1; cases h1

/-- Both ways of ending the stream occur: after `disable`, and after the drop of a transmitter that is
still `Active` (then `d` is `.active` to the last). -/
theorem end_seen_both_ways :
    (let s := (Sys.init .active : Sys Nat).run [.dsend 1, .disable, .recv, .recv]
     s.sawEnd = true ∧ s.d = .disabled ∧ s.gone = false ∧ s.got = [1]) ∧
    (let s := (Sys.init .active : Sys Nat).run [.dsend 1, .dropTx, .recv, .recv]
     s.sawEnd = true ∧ s.d = .active ∧ s.gone = true ∧ s.got = [1]) := by
  decide

/-- The other direction — the end IS seen, and not too early: once the transmitter is off (`Disabled` or
dropped) and the receiver alive, `n` further reads hand over the next `n` queued items in order, and the
end of the stream is reported by exactly those reads that come after the last queued item. So
`queue.length` reads give everything that was ever accepted and no end yet; one more read gives the end. -/
theorem reads_to_the_end_after_tx_off {α : Type} (ops : List (Op α)) (n : Nat)
    (h : ((Sys.init .active : Sys α).run ops).d = .disabled ∨ ((Sys.init .active : Sys α).run ops).gone = true)
    (hrx : ((Sys.init .active : Sys α).run ops).c.rxAlive = true) :
    let s := (Sys.init .active : Sys α).run ops
    let s' := (Sys.init .active : Sys α).run (ops ++ List.replicate n .recv)
    s'.got = (acceptedOf ops).take (s.got.length + n) ∧
    s'.sawEnd = (s.sawEnd || decide (s.c.queue.length < n)) ∧
    (s.c.queue.length ≤ n → s'.got = acceptedOf ops) := by
  intro s s'
  have hs : s.c.senders = 0 := by
    have := (sys_senders (α := α) .active ops).1
    rw [this]
    rcases h with h | h <;> simp [h]
  have hr := run_recvs n s hrx hs
  simp only at hr
  have hacc : s.got ++ s.c.queue = acceptedOf ops := (sys_facts ops).2.1 hrx
  have hs' : s' = s.run (List.replicate n .recv) := Sys.run_append _ _ _
  rw [hs']
  refine ⟨?_, hr.2.2.1, fun hle => ?_⟩
  · have h1 : List.take (s.got.length + n) s.got = s.got := List.take_of_length_le (by omega)
    have h2 : s.got.length + n - s.got.length = n := by omega
    rw [hr.1, ← hacc, List.take_append, h1, h2]
  · rw [hr.1, List.take_of_length_le hle, hacc]

/-! ## §4 `Snapshot`, `SnapUpdates` -/

theorem snapshot_map_id {α : Type} (s : Snapshot α) : s.map id = s := rfl
theorem snapshot_map_comp {α β γ : Type} (s : Snapshot α) (f : α → β) (g : β → γ) :
    (s.map f).map g = s.map (g ∘ f) := rfl
theorem snapshot_value_map {α β : Type} (s : Snapshot α) (f : α → β) : (s.map f).value = f s.value := rfl
theorem snapshot_as_ref_value {α : Type} (s : Snapshot α) : s.asRef.value = s.value := rfl

theorem producer_sys {σ υ : Type} (apply : σ → υ → σ) (p : Producer σ υ) (ops : List (Op υ)) :
    (p.run apply ops).sys = p.sys.run ops ∧ (p.run apply ops).state = (offeredOf ops).foldl apply p.state := by
  induction ops generalizing p with
  | nil => exact ⟨rfl, rfl⟩
  | cons op ops ih =>
    have := ih (p.step apply op)
    simp only [Producer.run, Sys.run, List.foldl_cons] at *
    cases op <;> simp_all [Producer.step, offeredOf]

/-- A snapshot + updates pair is sufficient to follow the producer: for every history of updates,
reads, receiver drops and `disable`s, the consumer that folds the updates it has received onto the
snapshot holds exactly the state the producer had after producing that many updates
(`specReplay`); and the producer's own state is the fold of everything it produced. -/
theorem replica_tracks_producer {σ υ : Type} (apply : σ → υ → σ) (v0 : σ) (ops : List (Op υ)) :
    let p := (⟨v0, Sys.init .active⟩ : Producer σ υ).run apply ops
    p.state = (offeredOf ops).foldl apply v0 ∧
    replay apply ⟨v0, p.sys.got⟩ = specReplay apply v0 (offeredOf ops) p.sys.got.length := by
  have hp := producer_sys apply (⟨v0, Sys.init .active⟩ : Producer σ υ) ops
  refine ⟨hp.2, ?_⟩
  have hpre : ((Sys.init .active : Sys υ).run ops).got <+: offeredOf ops :=
    (sys_facts ops).1.trans (accepted_prefix_offered ops)
  simp only [replay, specReplay, hp.1]
  rw [← List.prefix_iff_eq_take.mp hpre]

/-- ... and a consumer that has caught up with a transmitter that still exists and is still active holds
the producer's current state. -/
theorem replica_current_when_caught_up {σ υ : Type} (apply : σ → υ → σ) (v0 : σ) (ops : List (Op υ)) :
    let p := (⟨v0, Sys.init .active⟩ : Producer σ υ).run apply ops
    p.sys.d = .active → p.sys.gone = false → p.sys.c.rxAlive = true → p.sys.c.queue = [] →
      replay apply ⟨v0, p.sys.got⟩ = p.state := by
  intro p hd hg hrx hq
  have hp := producer_sys apply (⟨v0, Sys.init .active⟩ : Producer σ υ) ops
  have hg' : ((Sys.init .active : Sys υ).run ops).gone = false := by rw [← hp.1]; exact hg
  have hd' : ((Sys.init .active : Sys υ).run ops).d = .active := by rw [← hp.1]; exact hd
  have hrx' : ((Sys.init .active : Sys υ).run ops).c.rxAlive = true := by rw [← hp.1]; exact hrx
  have hq' : ((Sys.init .active : Sys υ).run ops).c.queue = [] := by rw [← hp.1]; exact hq
  have h1 := (sys_facts ops).2.1 hrx'
  rw [hq', List.append_nil, (sys_facts ops).2.2.2 hd' hg'] at h1
  show List.foldl apply v0 p.sys.got = p.state
  rw [hp.2, hp.1, h1]

/-! ## §5 Stream combinators -/

/-- `Fuse`: transparent until the inner stream ends, then `Ready(None)` for ever without polling. -/
theorem fuse_after_end {σ α : Type} (s : Strm σ α) : s.fuse none = (none, .done) := rfl

theorem fuse_transparent {σ α : Type} (s : Strm σ α) (st : σ) : (s.fuse (some st)).2 = (s st).2 := by
  simp only [Strm.fuse]
  split <;> simp_all

/-- `IndexedStream` over ANY inner stream yields `index(x)` for every item `x` of the inner stream, in
order, including the failures; pending and the end pass through; the inner stream is advanced exactly as
without indexing (bookkeeping: the unfolding of `Strm.map`). -/
theorem indexed_maps_every_item_generic {σ α β ε : Type} (index : α → Except ε β) (s : Strm σ α) (st : σ) :
    (Strm.indexed index s st).1 = (s st).1 ∧
    (Strm.indexed index s st).2 =
      (match (s st).2 with | .item x => .item (index x) | .done => .done | .pending => .pending) := by
  unfold Strm.indexed Strm.map; split <;> simp_all

/-- ... in particular over a channel receiver (the instance the harness runs). -/
theorem indexed_maps_every_item {α β ε : Type} (index : α → Except ε β) (c : Chan α) :
    (Strm.indexed index Chan.pollNext c).1 = c.pollNext.1 ∧
    (Strm.indexed index Chan.pollNext c).2 =
      (match c.pollNext.2 with | .item x => .item (index x) | .done => .done | .pending => .pending) :=
  indexed_maps_every_item_generic index Chan.pollNext c

/-- `merge(left, right)` — `map(Some).chain(once(None))` on both inputs, tokio-stream's `Merge`,
`map_while(identity)`, `fuse` — over two receivers is the flat two-queue machine `flatPoll`: head of the
input polled first (alternating), the end as soon as an exhausted-and-closed input is polled. -/
theorem merge_is_flat_machine {β : Type} (cL cR : Chan β) (af : Bool) :
    MSt.poll (MSt.live cL cR af) = flatPoll cL cR af ∧
    (MergedSt.new Chan.new Chan.new : MSt β) = MSt.live Chan.new Chan.new true ∧
    MSt.poll (none : MSt β) = (none, .done) :=
  ⟨poll_live cL cR af, rfl, rfl⟩

/-- Cross-check with C12: the flat merge machine of `Model/Streams.lean` (`MergeSt.poll`, written by hand
for C12's `merge_order` theorems) and this file's composition of tokio-stream combinators simulate each
other — from the initial states, every send on an open input, every transmitter drop and every poll keeps
them related, and every poll gives the same result (up to C12's input tag). So C12's merge theorems hold
for the combinator-level model too, and vice versa. -/
theorem merge_agrees_with_C12_model {st : MSt Nat} {m : BarterModel.Streams.MergeSt} (h : C12Rel st m)
    (left : Bool) (x : Nat) :
    C12Rel (MergedSt.new Chan.new Chan.new) BarterModel.Streams.MergeSt.init ∧
    ((MSt.poll st).2 = untag m.poll.2 ∧ C12Rel (MSt.poll st).1 m.poll.1) ∧
    ((m.side left).closed = false →
      C12Rel (match st.chan left with | some c => st.setChan left (c.send x).1 | none => st)
        (m.step (.send left x)).1) ∧
    C12Rel (match st.chan left with | some c => st.setChan left c.dropTx | none => st)
      (m.step (.close left)).1 :=
  ⟨c12_init, c12_poll h, c12_send h left x, c12_close h left⟩

/-- Every run of the merged stream stays in one of two shapes (`MShape`): two live receivers with
untouched end markers, or ended with both receivers dropped. -/
theorem merge_shape {α : Type} (ops : List (MOp α)) : MShape ((MRun.init : MRun α).run ops) :=
  mshape_run ops mshape_init

/-- The merged stream satisfies the specification read off its doc comment, for every history of sends,
transmitter drops and polls: each input's contribution is a prefix of what that input accepted (order
kept, nothing twice), and it has ended only because some input was closed and had been handed over
completely. (The third field of `MergeSpec`, `interleaved`, adds nothing: `interleaved_is_free`.) -/
theorem merge_satisfies_spec {α : Type} (ops : List (MOp α)) :
    let r := (MRun.init : MRun α).run ops
    MergeSpec r.accL r.accR r.closedL r.closedR r.out r.ended := by
  have hf := mshape_facts (merge_shape (α := α) ops)
  exact ⟨hf.1, hf.2.1, interleave_tags _, hf.2.2.1⟩

/-- The `interleaved` conjunct of `MergeSpec` is content-free: EVERY tagged list, produced by a run or
not, is an interleaving of its two tag classes. The content of the specification is `left_prefix`,
`right_prefix` and `end_reason` (bookkeeping). -/
theorem interleaved_is_free {α : Type} (out : List (Bool × α)) :
    Interleave (outOf true out) (outOf false out) (out.map (·.2)) :=
  interleave_tags out

/-- An interleaving uses every element of both inputs exactly once (it is as long as both together and
has the same members). -/
theorem interleave_exactly_once {α : Type} {l r o : List α} (h : Interleave l r o) :
    o.length = l.length + r.length ∧ ∀ x, x ∈ o ↔ x ∈ l ∨ x ∈ r :=
  ⟨h.length, h.mem_iff⟩

/-- Nothing is lost before the end: per input, handed over ++ still queued = accepted. -/
theorem merge_nothing_lost {α : Type} (ops : List (MOp α)) (left : Bool) (c : Chan (Bool × α)) :
    let r := (MRun.init : MRun α).run ops
    r.ended = false → r.st.chan left = some c → outOf left r.out ++ c.queue.map (·.2) = r.acc left := by
  intro r hne hc
  exact ((mshape_facts (merge_shape (α := α) ops)).2.2.2.1 hne left c hc).1

/-- Fused: after the end every poll says "ended", nothing more is handed over, both receivers are gone
(so sends fail: nothing is accepted any more). -/
theorem merge_fused {α : Type} (ops : List (MOp α)) (left : Bool) (x : α) :
    let r := (MRun.init : MRun α).run ops
    r.ended = true →
      (r.step .poll).out = r.out ∧ (r.step .poll).last = some .done ∧ (r.step .poll).ended = true ∧
      (r.step (.send left x)).accL = r.accL ∧ (r.step (.send left x)).accR = r.accR := by
  intro r he
  have hst : r.st = none := (mshape_facts (merge_shape (α := α) ops)).2.2.2.2.mp he
  rw [step_poll_ended r hst]
  refine ⟨rfl, rfl, rfl, ?_, ?_⟩ <;>
    (cases left <;> simp only [MRun.step, hst, MSt.chan] <;> split <;> rfl)

/-- Nothing is withheld: a poll is pending exactly when the stream has not ended, both inputs are open
and everything they accepted has been handed over. -/
theorem merge_pending_iff {α : Type} (ops : List (MOp α)) :
    let r := (MRun.init : MRun α).run ops
    (r.step .poll).last = some .pending ↔
      r.ended = false ∧ outOf true r.out = r.accL ∧ outOf false r.out = r.accR ∧
        r.closedL = false ∧ r.closedR = false :=
  mrun_pending_iff (merge_shape ops)

/-- Fairness: while both inputs have something that has not been handed over, two consecutive polls
hand over one item of each input (neither input can starve the other). -/
theorem merge_fair {α : Type} (ops : List (MOp α)) :
    let r := (MRun.init : MRun α).run ops
    r.ended = false → outOf true r.out ≠ r.accL → outOf false r.out ≠ r.accR →
      ∃ a b, ((r.step .poll).step .poll).out = r.out ++ [a, b] ∧ a.1 ≠ b.1 ∧
        ((r.step .poll).step .poll).ended = false :=
  fun h1 h2 h3 => mrun_fair (merge_shape ops) h1 h2 h3

/-- Promptness ("terminate when either stream terminates"): once an input has been closed and everything
it sent has been handed over, the merged stream ends within two polls and hands over at most one more
item, of the other input. Whatever else the other input has queued is never delivered. -/
theorem merge_prompt {α : Type} (ops : List (MOp α)) (left : Bool) :
    let r := (MRun.init : MRun α).run ops
    r.ended = false → r.closed left = true → outOf left r.out = r.acc left →
      ((r.step .poll).step .poll).ended = true ∧
      (((r.step .poll).step .poll).out = r.out ∨
        ∃ y, y.1 = !left ∧ ((r.step .poll).step .poll).out = r.out ++ [y]) :=
  fun h1 h2 h3 => mrun_prompt (merge_shape ops) left h1 h2 h3

/-- The executable outcome set used by the correspondence for runs under a real scheduler is exactly the
specification: if the left producer means to send `l` and the right one `r`, whatever part of that they
got accepted, then once the merged stream has ended the pair (left contribution, right contribution) is
one of `allowedOutcomes`. -/
theorem merge_outcome_allowed {α : Type} (ops : List (MOp α)) (l r : List α) :
    let m := (MRun.init : MRun α).run ops
    m.ended = true → m.accL <+: l → m.accR <+: r → (m.closedL = true → m.accL = l) →
      (m.closedR = true → m.accR = r) →
      (outOf true m.out, outOf false m.out) ∈ allowedOutcomes l r m.closedL m.closedR := by
  intro m he hl hr hcl hcr
  have hf := mshape_facts (merge_shape (α := α) ops)
  rw [mem_allowedOutcomes]
  refine ⟨hf.1.trans hl, hf.2.1.trans hr, ?_⟩
  rcases hf.2.2.1 he with ⟨h1, h2⟩ | ⟨h1, h2⟩
  · exact Or.inl ⟨h1, by rw [h2, hcl h1]⟩
  · exact Or.inr ⟨h1, by rw [h2, hcr h1]⟩

/-! ## §6 Engine run loops and the audit stream -/

/-- The audit stream cannot influence the engine: for every engine, feed, `Tx` implementation, initial
transmitter state, world and environment (e.g. the audit receiver dropped at any moment, or a transmitter
that fails at will), `sync_run_with_audit` / `async_run_with_audit` leave the engine in the same state and
return the same shutdown record as `sync_run` / `async_run`.
This holds BY THE SHAPE OF THE MODEL: the transmitter's world `ω` and the engine state `ε` are disjoint
components and `dsend` returns nothing the loop looks at — which is exactly what the Rust signatures say
(`ChannelTxDroppable::send` returns `()`); what ties it to the code is the `rundrop` correspondence
(three real engines, `same_state`), not the depth of this proof. -/
theorem audit_does_not_affect_engine {ε ι κ ω : Type} (E : Runner ε ι κ) (tx : Tx ω κ) (env : Nat → ω → ω)
    (e : ε) (d : DState) (w : ω) (feed : List ι) :
    (runAudited E tx env 0 e d w feed).engine = (runPlain E e feed).1 ∧
    (runAudited E tx env 0 e d w feed).shutdown = (runPlain E e feed).2 :=
  runAudited_engine E tx env 0 e d w feed

/-- With a disabled transmitter the run loop never touches the transmitter's world. -/
theorem disabled_audit_never_touches_world {ε ι κ ω : Type} (E : Runner ε ι κ) (tx : Tx ω κ) (e : ε) (w : ω)
    (feed : List ι) :
    (runAudited E tx (fun _ w => w) 0 e .disabled w feed).world = w ∧
    (runAudited E tx (fun _ w => w) 0 e .disabled w feed).tx = .disabled :=
  ⟨(runAudited_disabled E tx (fun _ w => w) 0 e w feed).2, (runAudited_disabled E tx (fun _ w => w) 0 e w feed).1⟩

/-- The loop produces at least one record; the record it returns is the last one; no earlier one is terminal.
(That the returned record IS terminal needs a hypothesis on the engine: `shutdown_record_is_terminal`.) -/
theorem shutdown_record_is_last {ε ι κ : Type} (E : Runner ε ι κ) (e : ε) (feed : List ι) :
    (runTicks E e feed).getLast? = some (runPlain E e feed).2 ∧
    ∀ t ∈ (runTicks E e feed).dropLast, E.terminal t = false := by
  refine ⟨runTicks_getLast E e feed, ?_⟩
  induction feed generalizing e with
  | nil => simp [runTicks]
  | cons ev rest ih =>
    simp only [runTicks]
    split
    · simp
    · rename_i hterm
      have hne := runTicks_ne_nil E (E.proc e ev).1 rest
      rw [List.dropLast_cons_of_ne_nil hne]
      intro t ht
      rcases List.mem_cons.mp ht with rfl | ht
      · simpa using hterm
      · exact ih _ t ht

/-- The returned record IS terminal provided the engine's `FeedEnded` record is (the other way out of the
loop is the `is_terminal()` test itself) ... -/
theorem shutdown_record_is_terminal {ε ι κ : Type} (E : Runner ε ι κ)
    (hfe : ∀ e, E.terminal (E.feedEnded e).2 = true) (e : ε) (feed : List ι) :
    E.terminal (runPlain E e feed).2 = true ∧
    ∃ t, (runTicks E e feed).getLast? = some t ∧ E.terminal t = true :=
  ⟨runPlain_terminal E hfe e feed, _, runTicks_getLast E e feed, runPlain_terminal E hfe e feed⟩

/-- ... which holds for the C10 engine (`impl Terminal for EngineAudit`: `FeedEnded` is terminal): the
last record of its audit stream is terminal and no earlier one is. -/
theorem audit_runner_last_record_terminal (s : BarterModel.Audit.EngA)
    (feed : List (BarterModel.Engine.Event × BarterModel.Audit.Ask)) :
    (runPlain auditRunner s feed).2.terminal = true ∧
    (∃ t, (runTicks auditRunner s feed).getLast? = some t ∧ t.terminal = true) ∧
    ∀ t ∈ (runTicks auditRunner s feed).dropLast, t.terminal = false :=
  ⟨(shutdown_record_is_terminal auditRunner (fun _ => rfl) s feed).1,
   (shutdown_record_is_terminal auditRunner (fun _ => rfl) s feed).2,
   (shutdown_record_is_last auditRunner s feed).2⟩

/-- ... and fails for a generic `Runner` whose `FeedEnded` record is not terminal: the hypothesis of
`shutdown_record_is_terminal` is needed. -/
theorem generic_runner_last_record_not_terminal_witness :
    let E : Runner Nat Nat Nat := ⟨fun e i => (e + i, e + i), fun e => (e, 5), fun _ => false⟩
    E.terminal (runPlain E 0 [1, 2]).2 = false ∧ runTicks E 0 [1, 2] = [1, 3, 5] := by decide

/-- The loop processes events only up to the first terminal record: at most one record per event, plus
the `FeedEnded` one. -/
theorem at_most_one_record_per_event {ε ι κ : Type} (E : Runner ε ι κ) (e : ε) (feed : List ι) :
    0 < (runTicks E e feed).length ∧ (runTicks E e feed).length ≤ feed.length + 1 :=
  ⟨runTicks_length_pos E e feed, runTicks_length_le E e feed⟩

/-- A consumer that reads everything and drops its receiver while the loop waits for its `K`-th event
holds exactly the first `K` records (all of them if the loop ends earlier), in order; the transmitter
ends up disabled iff a record was produced after the drop. -/
theorem rundrop_receives_exact_prefix {ε ι κ : Type} (E : Runner ε ι κ) (K : Nat) (e : ε) (feed : List ι) :
    let a := runAudited E worldTx (dropEnv K) 0 e .active (Chan.new, []) feed
    a.world.2 ++ a.world.1.queue = (runTicks E e feed).take K ∧
    a.tx = (if K < (runTicks E e feed).length then .disabled else .active) := by
  have := runAudited_dropEnv E K 0 (Nat.zero_le _) e (Chan.new : Chan κ) [] feed rfl
  simpa [Chan.new] using this

/-- An audited run over a channel **is** a history of the transmitter + receiver system of §3: before
each `feed.next()` the consumer does what it does, then the loop offers the next record. Hence all of §3
applies to the audit stream. -/
theorem audited_run_is_history {ε ι κ : Type} (E : Runner ε ι κ) (cons : Nat → List (Op κ))
    (hc : ∀ k, ConsumerOnly (cons k)) (e : ε) (feed : List ι) :
    let a := runAudited E sysTx (consumerEnv cons) 0 e .active (Sys.init .active) feed
    sync a.tx a.world = (Sys.init .active : Sys κ).run (schedule cons 0 (runTicks E e feed)) ∧
    offeredOf (schedule cons 0 (runTicks E e feed)) = runTicks E e feed :=
  ⟨(runAudited_eq_sys E cons hc 0 e .active (Sys.init .active) feed rfl).1, offeredOf_schedule cons hc 0 _⟩

/-- Whatever the audit consumer does and whenever it drops its receiver: what it has received is a
prefix of the engine's records — in order, gap-free, nothing twice. -/
theorem audit_received_prefix_of_ticks {ε ι κ : Type} (E : Runner ε ι κ) (cons : Nat → List (Op κ))
    (hc : ∀ k, ConsumerOnly (cons k)) (e : ε) (feed : List ι) :
    (runAudited E sysTx (consumerEnv cons) 0 e .active (Sys.init .active) feed).world.got <+: runTicks E e feed := by
  have h := audited_run_is_history E cons hc e feed
  have hs := sys_facts (schedule cons 0 (runTicks E e feed))
  have hg : (runAudited E sysTx (consumerEnv cons) 0 e .active (Sys.init .active) feed).world.got =
      ((Sys.init .active : Sys κ).run (schedule cons 0 (runTicks E e feed))).got := by
    rw [← h.1]; rfl
  rw [hg]
  have := hs.1.trans (accepted_prefix_offered _)
  rwa [h.2] at this

/-- A consumer that keeps its receiver gets everything: received ++ still queued = all records, and the
transmitter is still active when the RUNNER returns (the runners only borrow `audit_tx`; the closure that
owns it then drops it: §7, `terminal_record_then_end_of_stream`). -/
theorem audit_complete_while_listening {ε ι κ : Type} (E : Runner ε ι κ) (cons : Nat → List (Op κ))
    (hc : ∀ k, ∀ op ∈ cons k, op = .recv) (e : ε) (feed : List ι) :
    let a := runAudited E sysTx (consumerEnv cons) 0 e .active (Sys.init .active) feed
    a.tx = .active ∧ a.world.got ++ a.world.c.queue = runTicks E e feed := by
  have hc' : ∀ k, ConsumerOnly (cons k) := fun k op ho => Or.inl (hc k op ho)
  have h := audited_run_is_history E cons hc' e feed
  have hn := noCut_schedule cons hc 0 (runTicks E e feed)
  have hd := no_cut_delivers_everything (schedule cons 0 (runTicks E e feed)) hn
  simp only at hd
  rw [← h.1, h.2] at hd
  exact hd

/-- Link to the C10 model: with `Model/Audit.lean`'s engine as the runner, the records of the loop are
exactly `runWithAudit`'s audit stream and the final engine is `runWithAudit`'s — so C10's theorems
(consecutive sequence numbers, terminal record last, replica simulation) are about the very stream that
§3 / §6 show is delivered as a prefix. (A consistency statement between two hand-written recursions of the
same shape — `runTicks` / `runPlain` here, `runWithAudit` in Model/Audit.lean — not a fact about the code;
both are tied to run.rs by their own correspondence.) -/
theorem run_loop_is_C10_model (s : BarterModel.Audit.EngA)
    (feed : List (BarterModel.Engine.Event × BarterModel.Audit.Ask)) :
    runTicks auditRunner s feed = (BarterModel.Audit.runWithAudit s feed).2 ∧
    (runPlain auditRunner s feed).1 = (BarterModel.Audit.runWithAudit s feed).1 :=
  auditRunner_agrees s feed

/-- With C10's `consecutive`: an audit consumer whose receiver is dropped while the engine waits for its
`K`-th event holds exactly the first `K` records of the C10 audit stream, and their sequence numbers are
`s.seq, s.seq + 1, …` without gap or repetition. -/
theorem audit_consumer_holds_consecutive_prefix (K : Nat) (s : BarterModel.Audit.EngA)
    (feed : List (BarterModel.Engine.Event × BarterModel.Audit.Ask)) :
    let a := runAudited auditRunner worldTx (dropEnv K) 0 s .active (Chan.new, []) feed
    a.world.2 ++ a.world.1.queue = (BarterModel.Audit.runWithAudit s feed).2.take K ∧
    (a.world.2 ++ a.world.1.queue).map BarterModel.Audit.Tick.seq =
      List.range' s.seq (min K (BarterModel.Audit.runWithAudit s feed).2.length) := by
  intro a
  have h := rundrop_receives_exact_prefix auditRunner K s feed
  have hl := (auditRunner_agrees s feed).1
  have hc := (BarterModel.Props.C10.consecutive s feed).1
  have h1 : a.world.2 ++ a.world.1.queue = (BarterModel.Audit.runWithAudit s feed).2.take K := by
    rw [← hl]; exact h.1
  refine ⟨h1, ?_⟩
  rw [h1, List.map_take, hc, take_range'']

/-! ## §7 The end of a run: terminal record, `engine.shutdown()`, the audit transmitter dropped -/

/-- `engine.shutdown()` (engine/mod.rs:188-199) makes exactly one `send(Shutdown)` on every transmitter the
map holds, in index order, skips the `None` entries, and leaves the number of entries alone — whatever
the individual sends return. -/
theorem shutdown_one_send_per_transmitter {χ ρ : Type} (xtx : Tx χ (XReq ρ)) (links : List (Option χ)) :
    (shutdownBroadcast xtx links).length = links.length ∧
    ∀ i : Nat, (shutdownBroadcast xtx links)[i]? =
      links[i]?.map (Option.map fun w => (xtx.send w .shutdown).1) := by
  rw [shutdownBroadcast_eq_map]
  exact ⟨by simp, fun i => by simp⟩

/-- A failed send does not stop the broadcast (`let _send_result = ..`): whatever the send on `w` returned,
every transmitter after it is served exactly as if `w` had not been there. -/
theorem shutdown_continues_after_any_send {χ ρ : Type} (xtx : Tx χ (XReq ρ)) (pre post : List (Option χ)) (w : χ) :
    shutdownBroadcast xtx (pre ++ some w :: post) =
      shutdownBroadcast xtx pre ++ some (xtx.send w .shutdown).1 :: shutdownBroadcast xtx post := by
  rw [shutdownBroadcast_append]; rfl

/-- What one send of `Shutdown` does to a channel link (bookkeeping): queued behind everything the run has
sent if the receiver is alive; nothing if the receiver is gone or the transmitter refuses. -/
theorem shutdown_on_channel_link {ρ : Type} (w : XW ρ) :
    xwTx.send w .shutdown =
      if w.refusing then (w, false)
      else if w.c.rxAlive then ({ w with c := { w.c with queue := w.c.queue ++ [.shutdown] } }, true)
      else (w, false) := by
  rcases w with ⟨rf, ⟨q, n, rx⟩⟩
  cases rf <;> cases rx <;> simp [xwTx, Chan.send]

/-- Five links — live with one order queued, receiver dropped, `None`, refusing, live and empty: both live
receivers get their `Shutdown` (behind the order), the dead and the refusing one nothing, and the broadcast
runs past them. -/
theorem shutdown_passes_dead_links_witness :
    shutdownBroadcast (ρ := Nat) xwTx
      [some ⟨false, ⟨[.order 7], 1, true⟩⟩, some ⟨false, ⟨[], 1, false⟩⟩, none, some ⟨true, ⟨[], 1, true⟩⟩,
       some ⟨false, ⟨[], 1, true⟩⟩] =
      [some ⟨false, ⟨[.order 7, .shutdown], 1, true⟩⟩, some ⟨false, ⟨[], 1, false⟩⟩, none, some ⟨true, ⟨[], 1, true⟩⟩,
       some ⟨false, ⟨[.shutdown], 1, true⟩⟩] := by decide

/-- The C03 / C10 engine model after `engine.shutdown()`: exchange `x`'s receiver holds the order requests
the run delivered to it, in send order, and then exactly one `Shutdown`, if its link is healthy; nothing
new reaches a closed or an unhealthy link; a missing link has no transmitter. -/
theorem c10_engine_links_after_shutdown (e : BarterModel.Engine.Eng) (x : Nat) (hx : x < e.links.length) :
    (shutdownBroadcast xwTx (linkWorlds e))[x]? = some
      (match e.links[x]? with
        | some .healthy =>
          some ⟨false, ⟨(e.log.filter fun r => r.key.exchange == x).map .order ++ [.shutdown], 1, true⟩⟩
        | some .closed => some ⟨false, ⟨[], 1, false⟩⟩
        | some .unhealthy => some ⟨true, ⟨[], 1, true⟩⟩
        | _ => none) := by
  rw [(shutdown_one_send_per_transmitter xwTx (linkWorlds e)).2 x]
  simp only [linkWorlds, List.getElem?_map, List.getElem?_range hx, Option.map_some, linkWorld]
  rcases hl : e.links[x]? with _ | l
  · simp
  · cases l <;> simp [xwTx, Chan.send]

/-- The run closure of `SystemBuilder::init` = the runner, then the broadcast, then the drop: engine and
returned record are those of the runner without audit, the execution transmitters end up exactly as after
the closure without audit (`plainClosure`) — the audit stream influences neither —, and the audit world is
the runner's with the transmitter dropped in the state the runner left it in. -/
theorem closure_is_runner_shutdown_drop {ε ι κ ω χ ρ : Type} (E : Runner ε ι κ) (tx : Tx ω κ) (env : Nat → ω → ω)
    (xtx : Tx χ (XReq ρ)) (linksOf : ε → List (Option χ)) (e : ε) (w : ω) (feed : List ι) :
    let r := runClosure E tx env xtx linksOf e w feed
    let a := runAudited E tx env 0 e .active w feed
    let p := plainClosure E xtx linksOf e feed
    r.engine = p.1 ∧ r.shutdown = p.2.1 ∧ r.links = p.2.2 ∧
    r.links = shutdownBroadcast xtx (linksOf (runPlain E e feed).1) ∧
    r.tx = a.tx ∧ r.world = ddrop tx a.tx a.world := by
  intro r a p
  have h := audit_does_not_affect_engine E tx env e .active w feed
  have hl : r.links = shutdownBroadcast xtx (linksOf (runPlain E e feed).1) := by
    show shutdownBroadcast xtx (linksOf a.engine) = _
    rw [h.1]
  exact ⟨h.1, h.2, hl, hl, rfl, rfl⟩

/-- Over a channel, with any consumer: the closure IS the operation history `schedule ++ [.dropTx]` of the
transmitter + receiver system of §3 (so all of §3, in particular `end_means_complete` and
`reads_to_the_end_after_tx_off`, applies to the production audit stream), and side by side with the
execution transmitters it is the joint history `closureOps`: records offered, broadcast, drop. -/
theorem closure_run_is_history {ε ι κ χ ρ : Type} (E : Runner ε ι κ) (cons : Nat → List (Op κ))
    (hc : ∀ k, ConsumerOnly (cons k)) (xtx : Tx χ (XReq ρ)) (linksOf : ε → List (Option χ)) (e : ε) (feed : List ι) :
    let r := runClosure E sysTx (consumerEnv cons) xtx linksOf e (Sys.init .active) feed
    let hist := schedule cons 0 (runTicks E e feed) ++ [.dropTx]
    ({ r.world with d := r.tx, gone := true } : Sys κ) = (Sys.init .active : Sys κ).run hist ∧
    JW.run xtx ⟨Sys.init .active, linksOf (runPlain E e feed).1⟩ (closureOps cons (runTicks E e feed)) =
      ⟨(Sys.init .active : Sys κ).run hist, r.links⟩ := by
  refine ⟨runClosure_eq_sys E cons hc xtx linksOf e feed, ?_⟩
  rw [closureOps_run]
  simp only [runClosure, (audit_does_not_affect_engine E sysTx (consumerEnv cons) e .active (Sys.init .active) feed).1]

/-- Program order of the closure, as a statement about every moment of its joint history: at any prefix
`p`, if the shutdown broadcast has happened then every record of the run — the terminal one included — has
already been handed to `audit_tx`; and if `audit_tx` has been dropped then the broadcast has happened. An
execution component that sees `Shutdown` can rely on the terminal audit record having been sent. -/
theorem shutdown_after_terminal_record_before_drop {κ : Type} (cons : Nat → List (Op κ))
    (hc : ∀ k, ConsumerOnly (cons k)) (ticks : List κ) (p : List (JOp κ)) (hp : p <+: closureOps cons ticks) :
    (JOp.shutdown ∈ p → offeredOf (sysOps p) = ticks) ∧ (JOp.sys .dropTx ∈ p → JOp.shutdown ∈ p) :=
  closureOps_order cons hc ticks p hp

/-- **Terminal record, then end of stream.** A consumer that keeps its receiver (it only reads, at any
times it likes): when the closure has returned, the transmitter has been dropped while `Active`, the end
has not been reported yet, and received ++ queued = all records of the run. `n` further reads hand over
the next `n` records in order; the end of the stream is reported by exactly the reads after the last
record. So `queue.length` more reads give every record and no end; one more read gives the end. The last
record is the one the runner returned. -/
theorem terminal_record_then_end_of_stream {ε ι κ : Type} (E : Runner ε ι κ) (cons : Nat → List (Op κ))
    (hc : ∀ k, ∀ op ∈ cons k, op = .recv) (e : ε) (feed : List ι) (n : Nat) :
    let ticks := runTicks E e feed
    let s := (Sys.init .active : Sys κ).run (schedule cons 0 ticks ++ [.dropTx])
    let s' := (Sys.init .active : Sys κ).run ((schedule cons 0 ticks ++ [.dropTx]) ++ List.replicate n .recv)
    (s.d = .active ∧ s.gone = true ∧ s.sawEnd = false ∧ s.c.rxAlive = true ∧ s.got ++ s.c.queue = ticks) ∧
    s'.got = ticks.take (s.got.length + n) ∧
    (s'.sawEnd = true ↔ s.c.queue.length < n) ∧
    (s.c.queue.length ≤ n → s'.got = ticks) ∧
    ticks.getLast? = some (runPlain E e feed).2 := by
  intro ticks s s'
  have hn := noCut_schedule cons hc 0 ticks
  have hr := run_noCut (schedule cons 0 ticks) (Sys.init .active : Sys κ) hn rfl rfl rfl
  have hc' : ∀ k, ConsumerOnly (cons k) := fun k op ho => Or.inl (hc k op ho)
  have hall := (no_cut_delivers_everything (schedule cons 0 ticks) hn).2
  rw [offeredOf_schedule cons hc' 0 ticks] at hall
  have hse : ((Sys.init .active : Sys κ).run (schedule cons 0 ticks)).sawEnd = false := by
    cases hq : ((Sys.init .active : Sys κ).run (schedule cons 0 ticks)).sawEnd with
    | false => rfl
    | true =>
      have := (sys_senders (α := κ) .active (schedule cons 0 ticks)).2 hq
      rw [hr.1, hr.2.2] at this
      cases this
  have hs : s = { (Sys.init .active : Sys κ).run (schedule cons 0 ticks) with
      gone := true, c := ((Sys.init .active : Sys κ).run (schedule cons 0 ticks)).c.dropTx } := by
    show (Sys.init .active : Sys κ).run (schedule cons 0 ticks ++ [.dropTx]) = _
    rw [Sys.run_append]
    show Sys.step _ .dropTx = _
    simp only [Sys.step, hr.1, hr.2.2, ddrop, chanTx]
    rfl
  have hfacts : s.d = .active ∧ s.gone = true ∧ s.sawEnd = false ∧ s.c.rxAlive = true ∧ s.got ++ s.c.queue = ticks := by
    rw [hs]
    exact ⟨hr.1, rfl, hse, hr.2.1, hall⟩
  have hacc : acceptedOf (schedule cons 0 ticks ++ [.dropTx]) = ticks := by
    rw [← (sys_facts (schedule cons 0 ticks ++ [Op.dropTx])).2.1 hfacts.2.2.2.1]
    exact hfacts.2.2.2.2
  have hrd := reads_to_the_end_after_tx_off (schedule cons 0 ticks ++ [.dropTx]) n (Or.inr hfacts.2.1) hfacts.2.2.2.1
  simp only [hacc] at hrd
  refine ⟨hfacts, hrd.1, ?_, hrd.2.2, runTicks_getLast E e feed⟩
  show s'.sawEnd = true ↔ _
  have h2 : s'.sawEnd = (s.sawEnd || decide (s.c.queue.length < n)) := hrd.2.1
  rw [h2, hfacts.2.2.1]
  simp

/-- ... and for the C10 engine the stream such a consumer ends up with is exactly C10's audit stream: all
records, the last one terminal, no earlier one terminal, and THEN the end of the stream. -/
theorem audit_stream_ends_after_terminal_record (cons : Nat → List (Op BarterModel.Audit.Tick))
    (hc : ∀ k, ∀ op ∈ cons k, op = .recv) (s0 : BarterModel.Audit.EngA)
    (feed : List (BarterModel.Engine.Event × BarterModel.Audit.Ask)) (n : Nat) :
    let ticks := (BarterModel.Audit.runWithAudit s0 feed).2
    let s := (Sys.init .active : Sys _).run (schedule cons 0 ticks ++ [.dropTx])
    let s' := (Sys.init .active : Sys _).run ((schedule cons 0 ticks ++ [.dropTx]) ++ List.replicate n .recv)
    s.c.queue.length < n →
      s'.got = ticks ∧ s'.sawEnd = true ∧
      (∃ t, s'.got.getLast? = some t ∧ t.terminal = true) ∧ ∀ t ∈ s'.got.dropLast, t.terminal = false := by
  intro ticks s s' hlt
  have hl := (auditRunner_agrees s0 feed).1
  have h := terminal_record_then_end_of_stream auditRunner cons hc s0 feed n
  simp only [hl] at h
  have hterm := audit_runner_last_record_terminal s0 feed
  rw [hl] at hterm
  have hgot : s'.got = ticks := h.2.2.2.1 (Nat.le_of_lt hlt)
  refine ⟨hgot, h.2.2.1.mpr hlt, ?_, ?_⟩
  · rw [hgot]; exact hterm.2.1
  · rw [hgot]; exact hterm.2.2

/-! ## Non-vacuity -/

/-- three items offered, the receiver reads one and goes away, two more offered: got `[1]`, disabled -/
example : ((Sys.init .active : Sys Nat).run [.dsend 1, .dsend 2, .recv, .dropRx, .dsend 3, .dsend 4]).got = [1] ∧
    ((Sys.init .active : Sys Nat).run [.dsend 1, .dsend 2, .recv, .dropRx, .dsend 3, .dsend 4]).d = .disabled ∧
    acceptedOf ([.dsend 1, .dsend 2, .recv, .dropRx, .dsend 3, .dsend 4] : List (Op Nat)) = [1, 2] := by decide
example : NoCut ([.dsend 1, .recv, .dsend 2] : List (Op Nat)) := by
  intro op h; simp at h; rcases h with rfl | rfl | rfl <;> simp
example : allOk (flakyTx (· % 3 == 0)) ([], 0) [1, 2] = true ∧
    ((flakyTx (· % 3 == 0)).send (sendsWorld (flakyTx (· % 3 == 0)) ([], 0) [1, 2]) 3).2 = false := by decide
/-- left sends 1, right sends 10 11 12, left closes; four polls: 1, 10, end — 11 and 12 are never delivered -/
example : ((MRun.init : MRun Nat).run [.send true 1, .send false 10, .send false 11, .send false 12,
      .close true, .poll, .poll, .poll, .poll]).out = [(true, 1), (false, 10)] ∧
    ((MRun.init : MRun Nat).run [.send true 1, .send false 10, .send false 11, .send false 12,
      .close true, .poll, .poll, .poll, .poll]).ended = true := by decide
example : (([1], [10]) : List Nat × List Nat) ∈ allowedOutcomes [1] [10, 11, 12] true false := by decide
example : ConsumerOnly ([.recv, .dropRx] : List (Op Nat)) := by
  intro op h; simp at h; rcases h with rfl | rfl <;> simp

/-- a three-record run, the consumer reads once before every `feed.next()`; after the drop of the transmitter
two more reads: all three records, then the end of the stream -/
example : let E : Runner Nat Nat Nat := ⟨fun e i => (e + i, e + i), fun e => (e, 0), fun k => k == 0⟩
    let h := schedule (fun _ => [Op.recv]) 0 (runTicks E 0 [1, 2]) ++ [.dropTx] ++ [.recv, .recv]
    runTicks E 0 [1, 2] = [1, 3, 0] ∧ ((Sys.init .active : Sys Nat).run h).got = [1, 3, 0] ∧
    ((Sys.init .active : Sys Nat).run h).sawEnd = true ∧ ((Sys.init .active : Sys Nat).run h).d = .active := by decide
example : ∀ k, ∀ op ∈ (fun (_ : Nat) => [Op.recv (α := Nat)]) k, op = .recv := by simp
example : ([JOp.sys (.dsend 1), .shutdown] : List (JOp Nat)) <+: closureOps (fun _ => []) [1] := by
  simp [closureOps, schedule]

end BarterModel.Props.C10C
