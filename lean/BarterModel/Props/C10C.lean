import BarterModel.Lemmas.Channels
namespace BarterModel.Props.C10C
open BarterModel.Chan

theorem new_disabled_sends_nothing {ω α : Type} (tx : Tx ω α) (w : ω) (xs : List α) :
    dsendAll tx .disabled w xs = (.disabled, w) := by
  induction xs with
  | nil => rfl
  | cons x xs ih => simpa [dsendAll, dsend] using ih

end BarterModel.Props.C10C
