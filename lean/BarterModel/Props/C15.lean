import BarterModel.Lemmas.Unrealised
namespace BarterModel.Props.C15
open BarterModel.Position BarterModel.Stale BarterModel.Unrealised

theorem placeholder : (1 : Nat) = 1 := rfl

end BarterModel.Props.C15
