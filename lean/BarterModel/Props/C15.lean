import BarterModel.Lemmas.Unrealised
import BarterModel.Lemmas.KernelsAgree.Position
import BarterModel.Lemmas.KernelsAgree.Book
/-!
# C15 — Unrealised PnL of an open position tracks the instrument's latest price

Statements only (proofs go through `Lemmas/Unrealised.lean`, `Lemmas/Position.lean`).

* `EngineState` is the engine model (`Model/Unrealised.lean`): per instrument the two market-data
  registers and the position manager; `EngineState.process` is `Engine::process` on a market item
  or a fill. `Spec` is the abstract spec the `spec` driver runs: per instrument the *mark* (the
  price the estimate has to be evaluated at: the fill price after a fill, the current price after
  any market event once a price exists) and `SpecI.upnl`, the demanded value `estimate p mark`.
* Histories are arbitrary lists of events (`Ev`): any interleaving of fills and market events
  (public trades, top-of-book updates, price-less items), any instruments, any timestamps (stale
  market data included). `ValidEvs`: every fill has a positive quantity (documented precondition;
  market events are unconstrained). Events naming an unknown instrument change nothing (the code
  panics; the driver reports `panic`).
* `estimate p price` = price move on the open quantity − entry fees × open/max quantity
  (`Unrealised.estimate`), `currentPrice` = volume-weighted mid of the held top of book, else the
  last traded price.

Known finding F6 (DESIGN §8, `known_findings.txt` `clause=after_fill/opening_fill`): after a fill
that OPENS a position the code stores 0 although the estimate at the fill price is minus the entry
fees. The theorems below state the property wherever it is true, pin the exception exactly
(`opening_fill_zero`), and prove the negation of the full statement with concrete witnesses.
-/
namespace BarterModel.Props.C15
open BarterModel.Position BarterModel.Stale BarterModel.Unrealised

/-- Reachable engine states with `n` instruments. -/
def Reach (n : Nat) (s : EngineState) : Prop :=
  ∃ evs, ValidEvs evs ∧ s = (EngineState.init n).run evs

/-- The model's `price()` is the property's "current price". -/
theorem current_price (d : MarketData) : price d = currentPrice d :=
  (currentPrice_eq_price d).symm

/-- The spec's estimate is the code's `calculate_pnl_unrealised` on the position's own fields. -/
theorem estimate_is_documented (p : Position) (pr : Rat) :
    estimate p pr =
      calculatePnlUnrealised p.side p.priceEntryAverage p.quantityAbs p.quantityAbsMax p.feesEnter pr :=
  estimate_eq_calculate p pr

/-- (1) `refreshed`. From ANY engine state (no reachability needed), after the engine processes a
market event for a known instrument: the registers have processed the event; if a position is open
and a current price exists, `pnl_unrealised` is the estimate at that current price (whatever the
event carried — a stale event re-evaluates at the newer price already held); the position is
otherwise untouched (in particular it stays open / flat); every other instrument is unchanged. -/
theorem refreshed (s : EngineState) (ev : MarketEvent) (st : InstrumentState)
    (hst : s[ev.instrument]? = some st) :
    ∃ st', (s.process (.market ev))[ev.instrument]? = some st' ∧
      st'.data = processData st.data ev ∧
      (∀ p' pr, st'.position.current = some p' → currentPrice st'.data = some pr →
        p'.pnlUnrealised = estimate p' pr) ∧
      Agree st'.position.current st.position.current ∧
      ∀ j, j ≠ ev.instrument → (s.process (.market ev))[j]? = s[j]? := by
  refine ⟨st.updateFromMarket ev, ?_, ?_, ?_, ?_, ?_⟩
  · simp [EngineState.process, EngineState.updateFromMarket, modifyAt_getElem?, hst]
  · unfold InstrumentState.updateFromMarket
    cases st.position.current <;> simp only
    split <;> rfl
  · intro p' pr hp' hpr
    rw [currentPrice_eq_price] at hpr
    unfold InstrumentState.updateFromMarket at hp' hpr
    cases hc : st.position.current with
    | none => simp [hc] at hp'
    | some p =>
      simp only [hc] at hp' hpr
      cases hpd : price (processData st.data ev) with
      | none => simp [hpd] at hpr
      | some pr' =>
        simp only [hpd, Option.some.injEq] at hp' hpr
        subst hp'; subst hpr
        rw [updatePnlUnrealised_eq]; rfl
  · unfold InstrumentState.updateFromMarket
    cases hc : st.position.current with
    | none => simp [hc, Agree]
    | some p =>
      simp only
      split
      · simp [hc, Agree]
      · simp only [Agree, updatePnlUnrealised_eq]
  · intro j hj
    simp [EngineState.process, EngineState.updateFromMarket, modifyAt_getElem?, hj]

/-- (2) `never_stale`. For EVERY interleaving of fills and market events from the initial state and
every instrument: the model's `pnl_unrealised` observation equals what the spec demands (the
estimate at the mark = the later of the last fill's price and the current price after the last
priced market event; `none` when flat) — at all times, hence never a value computed from an older
price — unless the mark comes from a fill that opened the position AND that position carries
non-zero entry fees (known finding F6, pinned exactly by `opening_fill_zero`). -/
theorem never_stale (n : Nat) (evs : List Ev) (hv : ValidEvs evs) (i : Nat) (st : InstrumentState)
    (hst : ((EngineState.init n).run evs)[i]? = some st) :
    ∃ sp, ((Spec.init n).run evs)[i]? = some sp ∧
      ((∀ m p, sp.mark = some m → m.src = .openingFill → st.position.current = some p →
          p.feesEnter = 0) →
        st.upnl = sp.upnl) := by
  obtain ⟨sp, hsp, hrel⟩ := relAll_get (relAll_run (relAll_init n) evs hv) hst
  refine ⟨sp, hsp, ?_⟩
  intro hex
  cases hc : st.position.current with
  | none => obtain ⟨h1, h2⟩ := rel_upnl_none hrel hc; rw [h1, h2]
  | some p =>
    obtain ⟨m, hm, ho, hn⟩ := hrel.mark p hc
    rw [rel_spec_upnl hrel p hc m hm]
    simp only [InstrumentState.upnl, hc, Option.map_some, Option.some.injEq]
    by_cases hsrc : m.src = .openingFill
    · obtain ⟨h0, he⟩ := ho hsrc
      rw [h0, he, hex m p hm hsrc hc]; rfl
    · exact hn hsrc

/-- The exception of `never_stale`, exactly: whenever the mark comes from an opening fill, the
model's `pnl_unrealised` is 0 and the spec demands minus the position's entry fees. -/
theorem opening_fill_zero (n : Nat) (evs : List Ev) (hv : ValidEvs evs) (i : Nat)
    (st : InstrumentState) (hst : ((EngineState.init n).run evs)[i]? = some st)
    (p : Position) (hp : st.position.current = some p) :
    ∃ sp m, ((Spec.init n).run evs)[i]? = some sp ∧ sp.mark = some m ∧
      (m.src = .openingFill → p.pnlUnrealised = 0 ∧ sp.upnl = some (-p.feesEnter)) := by
  obtain ⟨sp, hsp, hrel⟩ := relAll_get (relAll_run (relAll_init n) evs hv) hst
  obtain ⟨m, hm, ho, _⟩ := hrel.mark p hp
  refine ⟨sp, m, hsp, hm, ?_⟩
  intro hsrc
  obtain ⟨h0, he⟩ := ho hsrc
  exact ⟨h0, by rw [rel_spec_upnl hrel p hp m hm, he]⟩

/-- (3) `after_fill_partial`. In every reachable state, after a fill that INCREASES (same side) or
REDUCES (opposite side, smaller than the open quantity) an existing position, the position is still
open and its `pnl_unrealised` is the estimate at the fill price.

**Partial**: the property text demands this after *every* fill. Missing: the fill that opens a
position (first fill on a flat instrument, or the remainder of a flip). For those the statement is
FALSE in the code (known finding F6, test-pinned in /repo): `opening_fill_not_estimate`,
`flip_remainder_not_estimate` below are the proved counter-examples and `opening_fill_zero` the
general law (`pnl_unrealised = 0`, estimate `= -fees_enter`). -/
theorem after_fill_partial {n : Nat} {s : EngineState} (hr : Reach n s) (t : Trade)
    (st : InstrumentState) (hst : s[t.instrument]? = some st) (p : Position)
    (hp : st.position.current = some p)
    (harm : p.side = t.side ∨ (p.side ≠ t.side ∧ abs t.quantity < p.quantityAbs)) :
    ∃ st' p', (s.process (.fill t))[t.instrument]? = some st' ∧
      st'.position.current = some p' ∧ p'.pnlUnrealised = estimate p' t.price := by
  obtain ⟨evs, hv, rfl⟩ := hr
  obtain ⟨sp, _, hrel⟩ := relAll_get (relAll_run (relAll_init n) evs hv) hst
  have hi : p.instrument = t.instrument := (hrel.wf p hp).instr
  have hget : ((EngineState.init n).run evs |>.process (.fill t))[t.instrument]? =
      some (st.updateFromTrade t) := by
    simp [EngineState.process, EngineState.updateFromTrade, modifyAt_getElem?, hst]
  rcases updateFromTrade_cases p t hi with ⟨_, he⟩ | ⟨_, _, he⟩ | ⟨hs, heq, _⟩ | ⟨hs, hlt, _⟩
  · refine ⟨_, _, hget, ?_, increase_upnl (p.pushTrade t.id) t⟩
    simp [InstrumentState.updateFromTrade, PositionManager.update, hp, he]
  · refine ⟨_, _, hget, ?_, reduce_upnl (p.pushTrade t.id) t⟩
    simp [InstrumentState.updateFromTrade, PositionManager.update, hp, he]
  · rcases harm with h | ⟨_, h⟩
    · exact (hs h).elim
    · grind
  · rcases harm with h | ⟨_, h⟩
    · exact (hs h).elim
    · grind

/-! ### Negation of the full statement (known finding F6) -/

/-- Buy 2 @ 100 with fee 1 on a flat instrument. -/
def witnessOpening : List Ev := [.fill ⟨1, 0, 1, .buy, 100, 2, 1⟩]

/-- Buy 2 @ 100 (no fee), then sell 3 @ 110 with fee 3: the remainder (short 1 @ 110) carries
entry fees 1. -/
def witnessFlip : List Ev :=
  [.fill ⟨1, 0, 1, .buy, 100, 2, 0⟩, .fill ⟨2, 0, 2, .sell, 110, 3, 3⟩]

/-- The full "after a fill" clause is false: there is a valid history (one opening fill) after
which the open position's `pnl_unrealised` (0) differs from the estimate at the fill price (−1),
which is what the spec demands. -/
theorem opening_fill_not_estimate :
    ∃ (evs : List Ev) (st : InstrumentState) (sp : SpecI) (p : Position) (m : Mark),
      ValidEvs evs ∧ ((EngineState.init 1).run evs)[0]? = some st ∧
      ((Spec.init 1).run evs)[0]? = some sp ∧ st.position.current = some p ∧ sp.mark = some m ∧
      m.price = 100 ∧ p.pnlUnrealised = 0 ∧ estimate p m.price = -1 ∧
      p.pnlUnrealised ≠ estimate p m.price ∧ st.upnl ≠ sp.upnl := by
  refine ⟨witnessOpening,
    ⟨MarketData.init, ⟨some (Position.ofTrade ⟨1, 0, 1, .buy, 100, 2, 1⟩)⟩⟩,
    ⟨MarketData.init, ⟨some (Position.ofTrade ⟨1, 0, 1, .buy, 100, 2, 1⟩)⟩, some ⟨100, .openingFill⟩⟩,
    Position.ofTrade ⟨1, 0, 1, .buy, 100, 2, 1⟩, ⟨100, .openingFill⟩, ?_⟩
  decide +kernel

/-- Same for the remainder of a flip. -/
theorem flip_remainder_not_estimate :
    ∃ (evs : List Ev) (st : InstrumentState) (sp : SpecI) (p : Position) (m : Mark),
      ValidEvs evs ∧ ((EngineState.init 1).run evs)[0]? = some st ∧
      ((Spec.init 1).run evs)[0]? = some sp ∧ st.position.current = some p ∧ sp.mark = some m ∧
      m.price = 110 ∧ p.side = .sell ∧ p.quantityAbs = 1 ∧ p.pnlUnrealised = 0 ∧
      estimate p m.price = -1 ∧ st.upnl ≠ sp.upnl := by
  refine ⟨witnessFlip,
    ⟨MarketData.init, ⟨some (Position.ofTrade ⟨2, 0, 2, .sell, 110, 1, 1⟩)⟩⟩,
    ⟨MarketData.init, ⟨some (Position.ofTrade ⟨2, 0, 2, .sell, 110, 1, 1⟩)⟩, some ⟨110, .openingFill⟩⟩,
    Position.ofTrade ⟨2, 0, 2, .sell, 110, 1, 1⟩, ⟨110, .openingFill⟩, ?_⟩
  decide +kernel

/-! ### Non-vacuity: the hypotheses are satisfied by non-trivial histories -/

/-- long 2 @ 100 (fee 1), a trade at 150, a two-sided book, an increase, a stale trade, a reduce -/
def sample : List Ev :=
  [ .fill ⟨1, 0, 1, .buy, 100, 2, 1⟩,
    .market ⟨0, 2, .trade 150⟩,
    .market ⟨0, 3, .bookL1 ⟨3, 99, 1, 101, 3⟩⟩,
    .fill ⟨2, 0, 4, .buy, 110, 2, 1⟩,
    .market ⟨0, 1, .trade 90⟩,
    .market ⟨1, 5, .trade 7⟩,
    .fill ⟨3, 0, 6, .sell, 120, 1, 1/2⟩ ]

example : ValidEvs sample := by decide +kernel
example : Reach 2 ((EngineState.init 2).run sample) := ⟨sample, by decide +kernel, rfl⟩
/-- after the first three events: open long, current price = 99·(3/4) + 101·(1/4) = 99.5,
`pnl_unrealised` = (99.5 − 100)·2 − 1 = −2, mark from a market event. -/
example : (((EngineState.init 2).run (sample.take 3))[0]?.bind (·.upnl)) = some (-2 : Rat) ∧
    (((Spec.init 2).run (sample.take 3))[0]?.bind (·.upnl)) = some (-2 : Rat) ∧
    (((Spec.init 2).run (sample.take 3))[0]?.bind (·.mark)) = some ⟨199/2, .market⟩ := by
  decide +kernel
/-- after the increase (4 events) the mark is the fill price 110 with source `fill`, and the
hypotheses of `after_fill_partial` held for it (same side as the open long). -/
example : (((Spec.init 2).run (sample.take 4))[0]?.bind (·.mark)) = some ⟨110, .fill⟩ ∧
    (((EngineState.init 2).run (sample.take 4))[0]?.bind (·.upnl)) =
      (((Spec.init 2).run (sample.take 4))[0]?.bind (·.upnl)) := by
  decide +kernel
/-- the premise of `never_stale` (no opening-fill mark with fees) holds at the end of `sample`
(the mark is the reducing fill's price) and fails right after the first event. -/
example : (((Spec.init 2).run sample)[0]?.bind (·.mark)) = some ⟨120, .fill⟩ ∧
    (((Spec.init 2).run (sample.take 1))[0]?.bind (·.mark)) = some ⟨100, .openingFill⟩ := by
  decide +kernel

/-- **Tie to the source by translation.** The arithmetic this property rests on — the estimate
`calculate_pnl_unrealised` with `approximate_remaining_exit_fees` (position.rs) and the price
`volume_weighted_mid_price` of the `OrderBookL1` payload (barter-data/src/books/mod.rs) — is
regenerated from the current source by `tools/rust2lean.py` on every run, and the generated
definitions equal the model's for all arguments. A change of one of these kernels in the source makes
this theorem fail to build. -/
theorem kernels_agree_with_source :
    (∀ (side : Side) (priceEntryAverage quantityAbs quantityAbsMax feesEnter pr : Rat),
        BarterModel.Generated.calculate_pnl_unrealised (BarterModel.KernelsAgree.sideOf side)
            priceEntryAverage quantityAbs quantityAbsMax feesEnter pr
          = calculatePnlUnrealised side priceEntryAverage quantityAbs quantityAbsMax feesEnter pr)
    ∧ (∀ quantityAbs quantityAbsMax feesEnter : Rat,
        BarterModel.Generated.approximate_remaining_exit_fees quantityAbs quantityAbsMax feesEnter
          = approximateRemainingExitFees quantityAbs quantityAbsMax feesEnter)
    ∧ (∀ x : L1,
        BarterModel.Generated.volume_weighted_mid_price { price := x.bidP, amount := x.bidA }
            { price := x.askP, amount := x.askA }
          = volumeWeightedMidPrice x)
    ∧ (∀ s, BarterModel.KernelsAgree.sideTo (BarterModel.KernelsAgree.sideOf s) = s)
    ∧ (∀ s, BarterModel.KernelsAgree.sideOf (BarterModel.KernelsAgree.sideTo s) = s) :=
  ⟨BarterModel.KernelsAgree.calculate_pnl_unrealised_agrees,
    BarterModel.KernelsAgree.approximate_remaining_exit_fees_agrees,
    BarterModel.KernelsAgree.volume_weighted_mid_price_agrees_l1,
    BarterModel.KernelsAgree.side_bijection.1, BarterModel.KernelsAgree.side_bijection.2⟩

end BarterModel.Props.C15
