import BarterModel.Lemmas.Unrealised
import BarterModel.Lemmas.KernelsAgree.Position
import BarterModel.Lemmas.KernelsAgree.Book
/-!
# C15 — Unrealised PnL of an open position tracks the instrument's latest price

Statements only (proofs go through `Lemmas/Unrealised.lean`, `Lemmas/Position.lean`).

* `EngineState` is the engine model (`Model/Unrealised.lean`): per instrument the two market-data
  registers and the position manager; `EngineState.process` is `Engine::process` on a market item
  or a fill. `Spec` is the abstract spec the `spec` driver runs: per instrument the *mark* (the
  price the estimate has to be evaluated at: the fill price after a fill, the current price after
  any market event once a price exists) and `SpecI.upnl`, the demanded value `estimate p mark`.
* Histories are arbitrary lists of events (`Ev`): any interleaving of fills and market events
  (public trades, top-of-book updates, price-less items), any instruments, any timestamps (stale
  market data included). `ValidEvs`: every fill has a positive quantity (documented precondition;
  market events are unconstrained). Events naming an unknown instrument change nothing (the code
  panics; the driver reports `panic`).
* `estimate p price` = price move on the open quantity − entry fees × open/max quantity
  (`Unrealised.estimate`), `currentPrice` = volume-weighted mid of the held top of book, else the
  last traded price.

Known finding F6 (DESIGN §8, `known_findings.txt` `clause=after_fill/opening_fill`): after a fill
that OPENS a position the code stores 0 although the estimate at the fill price is minus the entry
fees. The theorems below state the property wherever it is true, pin the exception exactly
(`opening_fill_zero`), and prove the negation of the full statement with concrete witnesses.
-/
namespace BarterModel.Props.C15
open BarterModel.Position BarterModel.Stale BarterModel.Unrealised

/-- Reachable engine states with `n` instruments. -/
def Reach (n : Nat) (s : EngineState) : Prop :=
  ∃ evs, ValidEvs evs ∧ s = (EngineState.init n).run evs

/-- The model's `price()` is the property's "current price". -/
theorem current_price (d : MarketData) : price d = currentPrice d :=
  (currentPrice_eq_price d).symm

/-- The spec's estimate is the code's `calculate_pnl_unrealised` on the position's own fields. -/
theorem estimate_is_documented (p : Position) (pr : Rat) :
    estimate p pr =
      calculatePnlUnrealised p.side p.priceEntryAverage p.quantityAbs p.quantityAbsMax p.feesEnter pr :=
  estimate_eq_calculate p pr

/-- (1) `refreshed`. From ANY engine state (no reachability needed), after the engine processes a
market event for a known instrument: the registers have processed the event; if a position is open
and a current price exists, `pnl_unrealised` is the estimate at that current price (whatever the
event carried — a stale event re-evaluates at the newer price already held); the position is
otherwise untouched (in particular it stays open / flat); every other instrument is unchanged. -/
theorem refreshed (s : EngineState) (ev : MarketEvent) (st : InstrumentState)
    (hst : s[ev.instrument]? = some st) :
    ∃ st', (s.process (.market ev))[ev.instrument]? = some st' ∧
      st'.data = processData st.data ev ∧
      (∀ p' pr, st'.position.current = some p' → currentPrice st'.data = some pr →
        p'.pnlUnrealised = estimate p' pr) ∧
      Agree st'.position.current st.position.current ∧
      ∀ j, j ≠ ev.instrument → (s.process (.market ev))[j]? = s[j]? := by
  refine ⟨st.updateFromMarket ev, ?_, ?_, ?_, ?_, ?_⟩
  · simp [EngineState.process, EngineState.updateFromMarket, modifyAt_getElem?, hst]
  · unfold InstrumentState.updateFromMarket
    cases st.position.current <;> simp only
    split <;> rfl
  · intro p' pr hp' hpr
    rw [currentPrice_eq_price] at hpr
    unfold InstrumentState.updateFromMarket at hp' hpr
    cases hc : st.position.current with
    | none => simp [hc] at hp'
    | some p =>
      simp only [hc] at hp' hpr
      cases hpd : price (processData st.data ev) with
      | none => simp [hpd] at hpr
      | some pr' =>
        simp only [hpd, Option.some.injEq] at hp' hpr
        subst hp'; subst hpr
        rw [updatePnlUnrealised_eq]; rfl
  · unfold InstrumentState.updateFromMarket
    cases hc : st.position.current with
    | none => simp [hc, Agree]
    | some p =>
      simp only
      split
      · simp [hc, Agree]
      · simp only [Agree, updatePnlUnrealised_eq]
  · intro j hj
    simp [EngineState.process, EngineState.updateFromMarket, modifyAt_getElem?, hj]

/-- (2) `never_stale`. For EVERY interleaving of fills and market events from the initial state and
every instrument: the model's `pnl_unrealised` observation equals what the spec demands (the
estimate at the mark = the later of the last fill's price and the current price after the last
priced market event; `none` when flat) — at all times, hence never a value computed from an older
price — unless the mark comes from a fill that opened the position AND that position carries
non-zero entry fees (known finding F6, pinned exactly by `opening_fill_zero`). -/
theorem never_stale (n : Nat) (evs : List Ev) (hv : ValidEvs evs) (i : Nat) (st : InstrumentState)
    (hst : ((EngineState.init n).run evs)[i]? = some st) :
    ∃ sp, ((Spec.init n).run evs)[i]? = some sp ∧
      ((∀ m p, sp.mark = some m → m.src = .openingFill → st.position.current = some p →
          p.feesEnter = 0) →
        st.upnl = sp.upnl) := by
  obtain ⟨sp, hsp, hrel⟩ := relAll_get (relAll_run (relAll_init n) evs hv) hst
  refine ⟨sp, hsp, ?_⟩
  intro hex
  cases hc : st.position.current with
  | none => obtain ⟨h1, h2⟩ := rel_upnl_none hrel hc; rw [h1, h2]
  | some p =>
    obtain ⟨m, hm, ho, hn⟩ := hrel.mark p hc
    rw [rel_spec_upnl hrel p hc m hm]
    simp only [InstrumentState.upnl, hc, Option.map_some, Option.some.injEq]
    by_cases hsrc : m.src = .openingFill
    · obtain ⟨h0, he⟩ := ho hsrc
      rw [h0, he, hex m p hm hsrc hc]; rfl
    · exact hn hsrc

/-- The exception of `never_stale`, exactly: whenever the mark comes from an opening fill, the
model's `pnl_unrealised` is 0 and the spec demands minus the position's entry fees. -/
theorem opening_fill_zero (n : Nat) (evs : List Ev) (hv : ValidEvs evs) (i : Nat)
    (st : InstrumentState) (hst : ((EngineState.init n).run evs)[i]? = some st)
    (p : Position) (hp : st.position.current = some p) :
    ∃ sp m, ((Spec.init n).run evs)[i]? = some sp ∧ sp.mark = some m ∧
      (m.src = .openingFill → p.pnlUnrealised = 0 ∧ sp.upnl = some (-p.feesEnter)) := by
  obtain ⟨sp, hsp, hrel⟩ := relAll_get (relAll_run (relAll_init n) evs hv) hst
  obtain ⟨m, hm, ho, _⟩ := hrel.mark p hp
  refine ⟨sp, m, hsp, hm, ?_⟩
  intro hsrc
  obtain ⟨h0, he⟩ := ho hsrc
  exact ⟨h0, by rw [rel_spec_upnl hrel p hp m hm, he]⟩

/-- (3) `after_fill_partial`. In every reachable state, after a fill that INCREASES (same side) or
REDUCES (opposite side, smaller than the open quantity) an existing position, the position is still
open and its `pnl_unrealised` is the estimate at the fill price.

**Partial**: the property text demands this after *every* fill. Missing: the fill that opens a
position (first fill on a flat instrument, or the remainder of a flip). For those the statement is
FALSE in the code (known finding F6, test-pinned in /repo): `opening_fill_not_estimate`,
`flip_remainder_not_estimate` below are the proved counter-examples and `opening_fill_zero` the
general law (`pnl_unrealised = 0`, estimate `= -fees_enter`). -/
theorem after_fill_partial {n : Nat} {s : EngineState} (hr : Reach n s) (t : Trade)
    (st : InstrumentState) (hst : s[t.instrument]? = some st) (p : Position)
    (hp : st.position.current = some p)
    (harm : p.side = t.side ∨ (p.side ≠ t.side ∧ abs t.quantity < p.quantityAbs)) :
    ∃ st' p', (s.process (.fill t))[t.instrument]? = some st' ∧
      st'.position.current = some p' ∧ p'.pnlUnrealised = estimate p' t.price := by
  obtain ⟨evs, hv, rfl⟩ := hr
  obtain ⟨sp, _, hrel⟩ := relAll_get (relAll_run (relAll_init n) evs hv) hst
  have hi : p.instrument = t.instrument := (hrel.wf p hp).instr
  have hget : ((EngineState.init n).run evs |>.process (.fill t))[t.instrument]? =
      some (st.updateFromTrade t) := by
    simp [EngineState.process, EngineState.updateFromTrade, modifyAt_getElem?, hst]
  rcases updateFromTrade_cases p t hi with ⟨_, he⟩ | ⟨_, _, he⟩ | ⟨hs, heq, _⟩ | ⟨hs, hlt, _⟩
  · refine ⟨_, _, hget, ?_, increase_upnl (p.pushTrade t.id) t⟩
    simp [InstrumentState.updateFromTrade, PositionManager.update, hp, he]
  · refine ⟨_, _, hget, ?_, reduce_upnl (p.pushTrade t.id) t⟩
    simp [InstrumentState.updateFromTrade, PositionManager.update, hp, he]
  · rcases harm with h | ⟨_, h⟩
    · exact (hs h).elim
    · grind
  · rcases harm with h | ⟨_, h⟩
    · exact (hs h).elim
    · grind

/-! ### Negation of the full statement (known finding F6) -/

/-- Buy 2 @ 100 with fee 1 on a flat instrument. -/
def witnessOpening : List Ev := [.fill ⟨1, 0, 1, .buy, 100, 2, 1⟩]

/-- Buy 2 @ 100 (no fee), then sell 3 @ 110 with fee 3: the remainder (short 1 @ 110) carries
entry fees 1. -/
def witnessFlip : List Ev :=
  [.fill ⟨1, 0, 1, .buy, 100, 2, 0⟩, .fill ⟨2, 0, 2, .sell, 110, 3, 3⟩]

/-- The full "after a fill" clause is false: there is a valid history (one opening fill) after
which the open position's `pnl_unrealised` (0) differs from the estimate at the fill price (−1),
which is what the spec demands. -/
theorem opening_fill_not_estimate :
    ∃ (evs : List Ev) (st : InstrumentState) (sp : SpecI) (p : Position) (m : Mark),
      ValidEvs evs ∧ ((EngineState.init 1).run evs)[0]? = some st ∧
      ((Spec.init 1).run evs)[0]? = some sp ∧ st.position.current = some p ∧ sp.mark = some m ∧
      m.price = 100 ∧ p.pnlUnrealised = 0 ∧ estimate p m.price = -1 ∧
      p.pnlUnrealised ≠ estimate p m.price ∧ st.upnl ≠ sp.upnl := by
  refine ⟨witnessOpening,
    ⟨MarketData.init, ⟨some (Position.ofTrade ⟨1, 0, 1, .buy, 100, 2, 1⟩)⟩⟩,
    ⟨MarketData.init, ⟨some (Position.ofTrade ⟨1, 0, 1, .buy, 100, 2, 1⟩)⟩, some ⟨100, .openingFill⟩⟩,
    Position.ofTrade ⟨1, 0, 1, .buy, 100, 2, 1⟩, ⟨100, .openingFill⟩, ?_⟩
  decide +kernel

/-- Same for the remainder of a flip. -/
theorem flip_remainder_not_estimate :
    ∃ (evs : List Ev) (st : InstrumentState) (sp : SpecI) (p : Position) (m : Mark),
      ValidEvs evs ∧ ((EngineState.init 1).run evs)[0]? = some st ∧
      ((Spec.init 1).run evs)[0]? = some sp ∧ st.position.current = some p ∧ sp.mark = some m ∧
      m.price = 110 ∧ p.side = .sell ∧ p.quantityAbs = 1 ∧ p.pnlUnrealised = 0 ∧
      estimate p m.price = -1 ∧ st.upnl ≠ sp.upnl := by
  refine ⟨witnessFlip,
    ⟨MarketData.init, ⟨some (Position.ofTrade ⟨2, 0, 2, .sell, 110, 1, 1⟩)⟩⟩,
    ⟨MarketData.init, ⟨some (Position.ofTrade ⟨2, 0, 2, .sell, 110, 1, 1⟩)⟩, some ⟨110, .openingFill⟩⟩,
    Position.ofTrade ⟨2, 0, 2, .sell, 110, 1, 1⟩, ⟨110, .openingFill⟩, ?_⟩
  decide +kernel

/-! ### Non-vacuity: the hypotheses are satisfied by non-trivial histories -/

/-- long 2 @ 100 (fee 1), a trade at 150, a two-sided book, an increase, a stale trade, a reduce -/
def sample : List Ev :=
  [ .fill ⟨1, 0, 1, .buy, 100, 2, 1⟩,
    .market ⟨0, 2, .trade 150⟩,
    .market ⟨0, 3, .bookL1 ⟨3, 99, 1, 101, 3⟩⟩,
    .fill ⟨2, 0, 4, .buy, 110, 2, 1⟩,
    .market ⟨0, 1, .trade 90⟩,
    .market ⟨1, 5, .trade 7⟩,
    .fill ⟨3, 0, 6, .sell, 120, 1, 1/2⟩ ]

example : ValidEvs sample := by decide +kernel
example : Reach 2 ((EngineState.init 2).run sample) := ⟨sample, by decide +kernel, rfl⟩
/-- after the first three events: open long, current price = 99·(3/4) + 101·(1/4) = 99.5,
`pnl_unrealised` = (99.5 − 100)·2 − 1 = −2, mark from a market event. -/
example : (((EngineState.init 2).run (sample.take 3))[0]?.bind (·.upnl)) = some (-2 : Rat) ∧
    (((Spec.init 2).run (sample.take 3))[0]?.bind (·.upnl)) = some (-2 : Rat) ∧
    (((Spec.init 2).run (sample.take 3))[0]?.bind (·.mark)) = some ⟨199/2, .market⟩ := by
  decide +kernel
/-- after the increase (4 events) the mark is the fill price 110 with source `fill`, and the
hypotheses of `after_fill_partial` held for it (same side as the open long). -/
example : (((Spec.init 2).run (sample.take 4))[0]?.bind (·.mark)) = some ⟨110, .fill⟩ ∧
    (((EngineState.init 2).run (sample.take 4))[0]?.bind (·.upnl)) =
      (((Spec.init 2).run (sample.take 4))[0]?.bind (·.upnl)) := by
  decide +kernel
/-- the premise of `never_stale` (no opening-fill mark with fees) holds at the end of `sample`
(the mark is the reducing fill's price) and fails right after the first event. -/
example : (((Spec.init 2).run sample)[0]?.bind (·.mark)) = some ⟨120, .fill⟩ ∧
    (((Spec.init 2).run (sample.take 1))[0]?.bind (·.mark)) = some ⟨100, .openingFill⟩ := by
  decide +kernel

/-- **Tie to the source by translation.** The arithmetic this property rests on — the estimate
`calculate_pnl_unrealised` with `approximate_remaining_exit_fees` (position.rs) and the price
`volume_weighted_mid_price` of the `OrderBookL1` payload (barter-data/src/books/mod.rs) — is
regenerated from the current source by `tools/rust2lean.py` on every run, and the generated
definitions equal the model's for all arguments. A change of one of these kernels in the source makes
this theorem fail to build. -/
theorem kernels_agree_with_source :
    (∀ (side : Side) (priceEntryAverage quantityAbs quantityAbsMax feesEnter pr : Rat),
        BarterModel.Generated.calculate_pnl_unrealised (BarterModel.KernelsAgree.sideOf side)
            priceEntryAverage quantityAbs quantityAbsMax feesEnter pr
          = calculatePnlUnrealised side priceEntryAverage quantityAbs quantityAbsMax feesEnter pr)
    ∧ (∀ quantityAbs quantityAbsMax feesEnter : Rat,
        BarterModel.Generated.approximate_remaining_exit_fees quantityAbs quantityAbsMax feesEnter
          = approximateRemainingExitFees quantityAbs quantityAbsMax feesEnter)
    ∧ (∀ x : L1,
        BarterModel.Generated.volume_weighted_mid_price { price := x.bidP, amount := x.bidA }
            { price := x.askP, amount := x.askA }
          = volumeWeightedMidPrice x)
    ∧ (∀ s, BarterModel.KernelsAgree.sideTo (BarterModel.KernelsAgree.sideOf s) = s)
    ∧ (∀ s, BarterModel.KernelsAgree.sideOf (BarterModel.KernelsAgree.sideTo s) = s) :=
  ⟨BarterModel.KernelsAgree.calculate_pnl_unrealised_agrees,
    BarterModel.KernelsAgree.approximate_remaining_exit_fees_agrees,
    BarterModel.KernelsAgree.volume_weighted_mid_price_agrees_l1,
    BarterModel.KernelsAgree.side_bijection.1, BarterModel.KernelsAgree.side_bijection.2⟩

/-! ### Review round 2 (audit/REVIEW-notes.md, section C15) -/

/-! #### Review C15-1: the reading of "current price" / "newer market data", made explicit -/

/-- long 2 @ 100 (no fee) at t=1, a public trade at 150 (t=2), an increase 2 @ 110 (t=4). -/
def staleBase : List Ev :=
  [.fill ⟨1, 0, 1, .buy, 100, 2, 0⟩, .market ⟨0, 2, .trade 150⟩, .fill ⟨2, 0, 4, .buy, 110, 2, 0⟩]

/-- `staleBase` followed by a STALE public trade (price 90, exchange time 1 < 2: the trade register
keeps 150, data.rs:87-99). -/
def staleThenStaleTrade : List Ev := staleBase ++ [.market ⟨0, 1, .trade 90⟩]

/-- `staleBase` followed by a PRICE-LESS market item (candle / liquidation / L2 book, exchange time
5, newer than everything: `process` ignores it, data.rs:107 `_ => {}`). -/
def staleThenPriceless : List Ev := staleBase ++ [.market ⟨0, 5, .other⟩]

/-- **Review C15-1 (reading adopted by the spec, recorded as a kernel-checked witness).**

READING. "The instrument's current price" is the price the market-data registers hold
(`InstrumentDataState::price()`, data.rs:73-77; the registers are those of C09:
latest-exchange-timestamp-wins, data.rs:85-108), and the open position is re-marked on EVERY market
item of the instrument, including items that do not change a register: the engine calls
`instrument_state.update_from_market(event)` for every `MarketStreamEvent::Item`
(barter/src/engine/state/mod.rs:185-188), which runs `self.data.process(event)` and then
unconditionally — whenever a position is open and `price()` is `Some` —
`position.update_pnl_unrealised(price)` (barter/src/engine/state/instrument/mod.rs:346-356); there
is no test whether the item carried a price or was accepted by a register. Consequently, after a
fill priced NEWER than the registers, the next market item of the instrument — even a stale trade or
a price-less candle — moves the estimate BACK to the registers' (older) price. This is what the
first sentence of C15 says ("after every market item the unrealised PnL is est(current price)");
"until newer market data arrives" in the second sentence is read as "until the next market item for
the instrument arrives" (arrival order, not exchange time). `SpecI.market` encodes this reading;
`refreshed` and `never_stale` are theorems about it.

WITNESS (all four histories satisfy `ValidEvs`; instrument 0 of a one-instrument engine):
* after `staleBase` the position is long 4 @ 105, the trade register holds (t=2, 150), and
  `pnl_unrealised` = est(110) = (110 − 105)·4 = 20 (mark = fill price 110, source `fill`);
* one more STALE trade (90 at t=1): the register still holds (2, 150), `price()` = 150, and
  `pnl_unrealised` = est(150) = (150 − 105)·4 = 180 — a price OLDER (t=2) than the fill (t=4);
* one more PRICE-LESS item (t=5): same, est(150) = 180;
in both cases the spec demands exactly that value (mark ⟨150, market⟩), i.e. model and spec agree by
construction — the point of this theorem is that the reading is visible, not hidden in `SpecI.market`. -/
theorem stale_item_remarks_at_older_price :
    ValidEvs staleBase ∧ ValidEvs staleThenStaleTrade ∧ ValidEvs staleThenPriceless ∧
    -- after the increase: est at the FILL price 110
    ((EngineState.init 1).run staleBase)[0]?.bind (·.upnl) = some (20 : Rat) ∧
    (((EngineState.init 1).run staleBase)[0]?.bind (·.position.current)).map
        (fun p => (p.side, p.priceEntryAverage, p.quantityAbs, estimate p 110, estimate p 150))
      = some (Side.buy, (105 : Rat), (4 : Rat), (20 : Rat), (180 : Rat)) ∧
    ((EngineState.init 1).run staleBase)[0]?.map (fun st => (st.data.lastTrade, price st.data))
      = some (some (2, 150), some 150) ∧
    ((Spec.init 1).run staleBase)[0]?.bind (·.mark) = some ⟨110, .fill⟩ ∧
    -- a stale trade (rejected by the register) re-marks at the register's older price 150
    ((EngineState.init 1).run staleThenStaleTrade)[0]?.map (fun st => (st.data.lastTrade, price st.data))
      = some (some (2, 150), some 150) ∧
    ((EngineState.init 1).run staleThenStaleTrade)[0]?.bind (·.upnl) = some (180 : Rat) ∧
    ((Spec.init 1).run staleThenStaleTrade)[0]?.bind (·.mark) = some ⟨150, .market⟩ ∧
    ((Spec.init 1).run staleThenStaleTrade)[0]?.bind (·.upnl) = some (180 : Rat) ∧
    -- a price-less item does the same
    ((EngineState.init 1).run staleThenPriceless)[0]?.map (fun st => (st.data.lastTrade, price st.data))
      = some (some (2, 150), some 150) ∧
    ((EngineState.init 1).run staleThenPriceless)[0]?.bind (·.upnl) = some (180 : Rat) ∧
    ((Spec.init 1).run staleThenPriceless)[0]?.bind (·.mark) = some ⟨150, .market⟩ ∧
    ((Spec.init 1).run staleThenPriceless)[0]?.bind (·.upnl) = some (180 : Rat) := by
  refine ⟨?_, ?_, ?_, ?_, ?_, ?_, ?_, ?_, ?_, ?_, ?_, ?_, ?_, ?_, ?_⟩ <;> decide +kernel

/-- **Review C15-1, general form.** A market item that leaves the registers unchanged
(`processData st.data ev = st.data`: a stale trade, a stale top of book, any price-less item) still
re-marks an open position at the price the registers hold: from ANY engine state, if a position `p`
is open and the registers hold a price `pr`, then after the item the position's `pnl_unrealised` is
`estimate p pr` — whatever it was before (e.g. the estimate at a newer fill price). No hypothesis
on how the state was reached. -/
theorem inert_item_remarks_at_held_price (s : EngineState) (ev : MarketEvent) (st : InstrumentState)
    (hst : s[ev.instrument]? = some st) (hinert : processData st.data ev = st.data)
    (p : Position) (hp : st.position.current = some p) (pr : Rat) (hpr : price st.data = some pr) :
    ∃ st' p', (s.process (.market ev))[ev.instrument]? = some st' ∧ st'.data = st.data ∧
      st'.position.current = some p' ∧ p' = { p with pnlUnrealised := estimate p pr } := by
  refine ⟨st.updateFromMarket ev, p.updatePnlUnrealised pr, ?_, ?_, ?_, ?_⟩
  · simp [EngineState.process, EngineState.updateFromMarket, modifyAt_getElem?, hst]
  · simp [InstrumentState.updateFromMarket, hinert, hp, hpr]
  · simp [InstrumentState.updateFromMarket, hinert, hp, hpr]
  · rw [updatePnlUnrealised_eq]

/-- Price-less items (`OrderBook`, `Candle`, `Liquidation`: data.rs:107) never change the registers:
the hypothesis `hinert` of `inert_item_remarks_at_held_price` holds for them unconditionally; and a
public trade that is not strictly newer than the held one is rejected (data.rs:87-92). -/
theorem inert_items (d : MarketData) (i : Nat) (te : Int) :
    processData d ⟨i, te, .other⟩ = d ∧
    ∀ t0 p0 p, d.lastTrade = some (t0, p0) → te ≤ t0 → processData d ⟨i, te, .trade p⟩ = d := by
  refine ⟨rfl, ?_⟩
  intro t0 p0 p h hle
  have : ¬ t0 < te := by omega
  cases d with
  | mk l1 lt =>
    simp only at h
    subst h
    simp [processData, MarketData.trade, upd, passes, this]

/-! #### Review C15-3: the totalised divisions, made explicit

`Rat` division is total (`x / 0 = 0`); `Decimal` division panics on a zero divisor
(rust_decimal `impl Div`: `panic!("Division by zero")`). The model contains exactly two divisions:

1. `volumeWeightedMidPrice x = (bidP·askA + askP·bidA) / (bidA + askA)`
   (barter-data/src/books/mod.rs:309-312), divisor = total top-of-book amount;
2. `estimate p pr = … − feesEnter · (quantityAbs / quantityAbsMax)`
   (`approximate_remaining_exit_fees`, position.rs), divisor = `quantityAbsMax`.

(2) is never zero on reachable states under the existing hypothesis `ValidEvs` (fills have positive
quantity): `fee_ratio_divisor_pos`. (1) is zero exactly when an `OrderBookL1` item carries amounts
that sum to zero (e.g. zero on BOTH sides), which `ValidEvs` does not exclude: the theorems above
(`current_price`, `refreshed`, `never_stale`, `opening_fill_zero`, `after_fill_partial`,
`kernels_agree_with_source`) are UNCONDITIONAL in this respect, and at such a point they speak of
the totalised value (price 0), where the code panics (`l1_zero_amounts_witness`). The hypothesis that
excludes the point is `ValidL1Evs` below; under it the price is the documented quotient
(`l1_price_is_documented_quotient`, `held_l1_valid`) and `never_stale_valid_l1` restates the main
theorem on that domain. props/C15.py ASSUMPTIONS states the same domain in words and the harness
generator rejects zero-sum L1 payloads (harness/src/bin/c15.rs:125). -/

/-- Documented precondition of `volume_weighted_mid_price` that the code does not check: the two
top-of-book amounts do not sum to zero (`Decimal` division panics otherwise, books/mod.rs:310-311). -/
def ValidL1 (x : L1) : Prop := x.bidA + x.askA ≠ 0

instance (x : L1) : Decidable (ValidL1 x) := by unfold ValidL1; infer_instance

/-- An event is L1-valid when it is not an `OrderBookL1` item or its payload satisfies `ValidL1`. -/
def ValidL1Ev : Ev → Prop
  | .market ⟨_, _, .bookL1 x⟩ => ValidL1 x
  | _ => True

instance : DecidablePred ValidL1Ev := fun e => by
  unfold ValidL1Ev; split <;> infer_instance

/-- The `ValidEvs`-style hypothesis review C15-3 found missing: every `OrderBookL1` item of the
history has amounts that do not sum to zero. -/
def ValidL1Evs (evs : List Ev) : Prop := ∀ e ∈ evs, ValidL1Ev e

instance (evs : List Ev) : Decidable (ValidL1Evs evs) := by unfold ValidL1Evs; infer_instance

/-- **Review C15-3 (a).** Under `ValidL1 x` the model's price of an L1 payload IS the documented
quotient, stated without any division: it is the unique rational `q` with
`q · (bidA + askA) = bidP·askA + askP·bidA` (so the totalisation `x / 0 = 0` plays no role), and it
equals the weighted form the spec's `currentPrice` uses. Where `ValidL1` fails the equation
`q · 0 = …` has no solution or every `q` is one: there is no documented value, and the code panics. -/
theorem l1_price_is_documented_quotient (x : L1) (hx : ValidL1 x) :
    volumeWeightedMidPrice x * (x.bidA + x.askA) = x.bidP * x.askA + x.askP * x.bidA ∧
    (∀ q : Rat, q * (x.bidA + x.askA) = x.bidP * x.askA + x.askP * x.bidA →
      q = volumeWeightedMidPrice x) ∧
    volumeWeightedMidPrice x =
      x.bidP * (x.askA / (x.bidA + x.askA)) + x.askP * (x.bidA / (x.bidA + x.askA)) := by
  unfold ValidL1 at hx
  have h1 : volumeWeightedMidPrice x * (x.bidA + x.askA) = x.bidP * x.askA + x.askP * x.bidA := by
    unfold volumeWeightedMidPrice
    rw [Rat.div_mul_cancel hx]
  refine ⟨h1, ?_, ?_⟩
  · intro q hq
    have : q * (x.bidA + x.askA) = volumeWeightedMidPrice x * (x.bidA + x.askA) := by rw [hq, h1]
    have h2 := congrArg (· / (x.bidA + x.askA)) this
    simpa [Rat.mul_div_cancel hx] using h2
  · unfold volumeWeightedMidPrice
    grind

/-- **Review C15-3**, the other division. The divisor `quantityAbsMax` of the pro-rata fee term of
`estimate` (`quantity_abs / quantity_abs_max`, position.rs `approximate_remaining_exit_fees`) is
positive for every open position of every state reachable under `ValidEvs` (fills have a positive
quantity), and the ratio lies in (0, 1]: this division is never totalised on the domain of
`never_stale` / `opening_fill_zero` / `after_fill_partial`. (Without `ValidEvs`, a zero-quantity
opening fill gives `quantityAbsMax = 0`: the code panics, props/C15.py ASSUMPTIONS.) -/
theorem fee_ratio_divisor_pos (n : Nat) (evs : List Ev) (hv : ValidEvs evs) (i : Nat)
    (st : InstrumentState) (hst : ((EngineState.init n).run evs)[i]? = some st)
    (p : Position) (hp : st.position.current = some p) :
    0 < p.quantityAbsMax ∧ 0 < p.quantityAbs ∧ p.quantityAbs ≤ p.quantityAbsMax := by
  obtain ⟨sp, _, hrel⟩ := relAll_get (relAll_run (relAll_init n) evs hv) hst
  have hw := hrel.wf p hp
  exact ⟨by have := hw.pos; have := hw.le; grind, hw.pos, hw.le⟩

/-- One step of `held_l1_valid`: an L1-valid event keeps every held top of book L1-valid. -/
theorem held_l1_valid_step (s : EngineState) (e : Ev) (he : ValidL1Ev e)
    (h : ∀ (i : Nat) (st : InstrumentState) (x : L1), s[i]? = some st → st.data.l1 = some x → ValidL1 x) :
    ∀ (i : Nat) (st : InstrumentState) (x : L1), (s.process e)[i]? = some st → st.data.l1 = some x → ValidL1 x := by
  intro i st x hst hx
  cases e with
  | fill t =>
    simp only [EngineState.process, EngineState.updateFromTrade, modifyAt_getElem?] at hst
    by_cases hi : i = t.instrument
    · simp only [hi, ↓reduceIte, Option.map_eq_some_iff] at hst
      obtain ⟨st0, hs0, rfl⟩ := hst
      exact h _ st0 x hs0 (by simpa [InstrumentState.updateFromTrade] using hx)
    · simp only [hi, ↓reduceIte] at hst
      exact h i st x hst hx
  | market ev =>
    simp only [EngineState.process, EngineState.updateFromMarket, modifyAt_getElem?] at hst
    by_cases hi : i = ev.instrument
    · simp only [hi, ↓reduceIte, Option.map_eq_some_iff] at hst
      obtain ⟨st0, hs0, rfl⟩ := hst
      have hd : (st0.updateFromMarket ev).data = processData st0.data ev := by
        unfold InstrumentState.updateFromMarket
        cases st0.position.current <;> simp only
        split <;> rfl
      rw [hd] at hx
      obtain ⟨inst, te, kind⟩ := ev
      cases kind with
      | trade pr => exact h _ st0 x hs0 (by simpa [processData, MarketData.trade] using hx)
      | other => exact h _ st0 x hs0 (by simpa [processData] using hx)
      | bookL1 y =>
        simp only [processData, MarketData.bookL1] at hx
        cases hl : st0.data.l1 with
        | none =>
          simp only [hl, Option.some.injEq] at hx
          subst hx; exact he
        | some c =>
          simp only [hl] at hx
          split at hx
          · simp only [Option.some.injEq] at hx
            subst hx; exact he
          · exact h _ st0 x hs0 hx
    · simp only [hi, ↓reduceIte] at hst
      exact h i st x hst hx

/-- **Review C15-3 (b), invariant.** For every history whose `OrderBookL1` items all satisfy
`ValidL1` (`ValidL1Evs`; nothing is asked of fills or other market items), in the state reached
from the initial one every held top of book satisfies `ValidL1`: the divisor of the current price is
non-zero in every such state, for every instrument. -/
theorem held_l1_valid (n : Nat) (evs : List Ev) (hl : ValidL1Evs evs) (i : Nat)
    (st : InstrumentState) (hst : ((EngineState.init n).run evs)[i]? = some st)
    (x : L1) (hx : st.data.l1 = some x) : ValidL1 x := by
  have H : ∀ (s : EngineState),
      (∀ (i : Nat) (st : InstrumentState) (x : L1), s[i]? = some st → st.data.l1 = some x → ValidL1 x) →
      ∀ (i : Nat) (st : InstrumentState) (x : L1), (s.run evs)[i]? = some st → st.data.l1 = some x →
        ValidL1 x := by
    clear hst hx
    induction evs with
    | nil => intro s h; exact h
    | cons e evs ih =>
      intro s h
      simp only [EngineState.run, List.foldl_cons]
      exact ih (fun e' he' => hl e' (by simp [he'])) _
        (held_l1_valid_step s e (hl e (by simp)) h)
  refine H (EngineState.init n) ?_ i st x hst hx
  intro i st x h1 h2
  simp only [EngineState.init, List.getElem?_replicate] at h1
  split at h1
  · simp only [Option.some.injEq] at h1
    subst h1
    simp [InstrumentState.init, MarketData.init] at h2
  · cases h1

/-- **Review C15-3 (b), the current price on the valid domain.** Under `ValidL1Evs`, whenever an
instrument holds a top of book `x`, the engine's `price()` (= the property's current price, by
`current_price`) is `some q` where `q` is THE solution of
`q · (bidA + askA) = bidP·askA + askP·bidA` with `bidA + askA ≠ 0` — the documented volume-weighted
mid, no totalised division involved. -/
theorem current_price_is_documented_quotient (n : Nat) (evs : List Ev) (hl : ValidL1Evs evs)
    (i : Nat) (st : InstrumentState) (hst : ((EngineState.init n).run evs)[i]? = some st)
    (x : L1) (hx : st.data.l1 = some x) :
    ∃ q, price st.data = some q ∧ currentPrice st.data = some q ∧ x.bidA + x.askA ≠ 0 ∧
      q * (x.bidA + x.askA) = x.bidP * x.askA + x.askP * x.bidA ∧
      ∀ q' : Rat, q' * (x.bidA + x.askA) = x.bidP * x.askA + x.askP * x.bidA → q' = q := by
  have hv := held_l1_valid n evs hl i st hst x hx
  obtain ⟨h1, h2, _⟩ := l1_price_is_documented_quotient x hv
  refine ⟨volumeWeightedMidPrice x, ?_, ?_, hv, h1, h2⟩
  · simp [price, hx]
  · rw [currentPrice_eq_price]; simp [price, hx]

/-- **Review C15-3 (b): `never_stale` restated on the domain where no division is totalised.**
Under `ValidEvs` (positive fill quantities) AND `ValidL1Evs` (L1 amounts do not sum to zero), for
every history, instrument and reached instrument state: the conclusion of `never_stale` holds (the
existing theorem is unconditional in `ValidL1Evs`; nothing is weakened) and, in addition, every
division behind the two sides of `st.upnl = sp.upnl` is a genuine one: a held top of book has a
non-zero total amount (so the mark taken from a market item is the documented quotient,
`current_price_is_documented_quotient`) and an open position has `0 < quantityAbsMax`. Hence on this
domain the equality is about the documented values, not about `x / 0 = 0`. -/
theorem never_stale_valid_l1 (n : Nat) (evs : List Ev) (hv : ValidEvs evs) (hl : ValidL1Evs evs)
    (i : Nat) (st : InstrumentState) (hst : ((EngineState.init n).run evs)[i]? = some st) :
    (∃ sp, ((Spec.init n).run evs)[i]? = some sp ∧ sp.data = st.data ∧
      ((∀ m p, sp.mark = some m → m.src = .openingFill → st.position.current = some p →
          p.feesEnter = 0) →
        st.upnl = sp.upnl)) ∧
    (∀ x, st.data.l1 = some x → x.bidA + x.askA ≠ 0) ∧
    (∀ p, st.position.current = some p → 0 < p.quantityAbsMax) := by
  refine ⟨?_, fun x hx => held_l1_valid n evs hl i st hst x hx,
    fun p hp => (fee_ratio_divisor_pos n evs hv i st hst p hp).1⟩
  obtain ⟨sp, hsp, hrel⟩ := relAll_get (relAll_run (relAll_init n) evs hv) hst
  obtain ⟨sp', hsp', hns⟩ := never_stale n evs hv i st hst
  rw [hsp] at hsp'
  cases hsp'
  exact ⟨sp, hsp, hrel.data.symm, hns⟩

/-- long 2 @ 100 (no fee), then an `OrderBookL1` item with ZERO amounts on both sides
(bid 99 × 0, ask 101 × 0). -/
def zeroL1 : List Ev :=
  [.fill ⟨1, 0, 1, .buy, 100, 2, 0⟩, .market ⟨0, 3, .bookL1 ⟨3, 99, 0, 101, 0⟩⟩]

/-- **Review C15-3 (c): what the model says at the excluded point.** The history `zeroL1` satisfies
`ValidEvs` (so it is inside the range of `refreshed`, `never_stale`, …) but not `ValidL1Evs`. In the
MODEL the zero-amount top of book is stored, its volume-weighted mid is `(99·0 + 101·0) / (0 + 0)
= 0 / 0 = 0` (`Rat` totalisation), `price()` = `some 0`, and the open long 2 @ 100 is re-marked to
`estimate p 0 = (0 − 100)·2 = −200`; the spec (same formula) demands the same −200, so the
unconditional theorems hold there — vacuously with respect to the code, because the CODE PANICS at
this point: `volume_weighted_mid_price` (barter-data/src/books/mod.rs:309-312) divides two
`Decimal`s with divisor `best_bid.amount + best_ask.amount = 0`, and `Decimal`'s `Div` panics with
"Division by zero"; the call chain is `InstrumentState::update_from_market`
(barter/src/engine/state/instrument/mod.rs:352 `self.data.price()`) →
`DefaultInstrumentMarketData::price` (barter/src/engine/state/instrument/data.rs:73-77) →
`OrderBookL1::volume_weighed_mid_price` (barter-data/src/subscription/book.rs:57-62). The same
happens for amounts of opposite sign that cancel (1 and −1). The point is excluded by `ValidL1Evs`
(props/C15.py ASSUMPTIONS; the harness never generates it), under which
`current_price_is_documented_quotient` / `never_stale_valid_l1` apply. -/
theorem l1_zero_amounts_witness :
    ValidEvs zeroL1 ∧ ¬ ValidL1Evs zeroL1 ∧ ¬ ValidL1 ⟨3, 99, 0, 101, 0⟩ ∧
    volumeWeightedMidPrice ⟨3, 99, 0, 101, 0⟩ = 0 ∧
    volumeWeightedMidPrice ⟨3, 99, 1, 101, -1⟩ = 0 ∧
    ((EngineState.init 1).run zeroL1)[0]?.map (fun st => price st.data) = some (some 0) ∧
    ((EngineState.init 1).run zeroL1)[0]?.bind (·.upnl) = some (-200 : Rat) ∧
    ((Spec.init 1).run zeroL1)[0]?.bind (·.mark) = some ⟨0, .market⟩ ∧
    ((Spec.init 1).run zeroL1)[0]?.bind (·.upnl) = some (-200 : Rat) := by
  refine ⟨?_, ?_, ?_, ?_, ?_, ?_, ?_, ?_, ?_⟩ <;> decide +kernel

/-! ### Non-vacuity of the new hypotheses -/

/-- `sample` (fills, trades, a two-sided book with amounts 1 and 3, a stale trade) satisfies both
validity hypotheses of `never_stale_valid_l1`, and it does hold a top of book at the end. -/
example : ValidEvs sample ∧ ValidL1Evs sample ∧
    (((EngineState.init 2).run sample)[0]?.bind (·.data.l1)) = some ⟨3, 99, 1, 101, 3⟩ := by
  refine ⟨?_, ?_, ?_⟩ <;> decide +kernel
/-- `ValidL1` holds of the book in `sample`, whose documented quotient is (99·3 + 101·1)/4 = 199/2. -/
example : ValidL1 ⟨3, 99, 1, 101, 3⟩ ∧ volumeWeightedMidPrice ⟨3, 99, 1, 101, 3⟩ = 199/2 := by
  refine ⟨?_, ?_⟩ <;> decide +kernel
/-- the hypotheses of `inert_item_remarks_at_held_price` are met by the state after `staleBase`
and the price-less item of `staleThenPriceless` (open long, registers hold 150, item inert). -/
example : ∃ st p, ((EngineState.init 1).run staleBase)[0]? = some st ∧
    processData st.data ⟨0, 5, .other⟩ = st.data ∧ st.position.current = some p ∧
    price st.data = some 150 ∧ p.pnlUnrealised = 20 ∧ estimate p 150 = 180 :=
  ⟨_, _, rfl, rfl, rfl, by decide +kernel, by decide +kernel, by decide +kernel⟩

end BarterModel.Props.C15
