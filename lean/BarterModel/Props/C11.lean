import BarterModel.Lemmas.Index
import BarterModel.Lemmas.Review2_C11
import BarterModel.Lemmas.KernelsAgree.IndexerSM
/-!
# C11 — Instrument/asset/exchange indices are dense, unique and consistently resolved

Statements only (proofs go through `Lemmas/Index.lean`). `defs` is any finite list of instrument
definitions (any order, duplicates, several exchanges, all instrument kinds, settlement and
quantity-unit assets); `build defs` is the model of `IndexedInstruments::new` (`none` = a panic of one
of the builder's `expect`s).

Hypotheses, where needed (named, decidable, see `Model/Index.lean`):
* `WFAssets defs`  – within one exchange an asset's internal name determines the asset;
* `WFNames defs`   – instrument internal names are unique over the collection.
Theorems without such a hypothesis hold for every input.
-/
namespace BarterModel.Props.C11
open BarterModel.Index

/-- (0) The builder never panics: every exchange / asset an instrument refers to has been added. -/
theorem build_total (defs : List Def) : ∃ ii, build defs = some ii := by
  obtain ⟨ins, h, _⟩ := build_spec defs
  exact ⟨_, h⟩

/-- (1a) `dense`: in each of the three tables the entry at position `k` carries index `k`. -/
theorem dense {defs : List Def} {ii : Indexed} (h : build defs = some ii) :
    (∀ (k : Nat) x, ii.exchanges[k]? = some x → x.key = k) ∧
    (∀ (k : Nat) x, ii.assets[k]? = some x → x.key = k) ∧
    (∀ (k : Nat) x, ii.instruments[k]? = some x → x.key = k) := by
  obtain ⟨h1, h2, _, _⟩ := build_some defs ii h
  refine ⟨?_, ?_, ?_⟩
  · intro k x hx
    rw [h1, getElem?_enumerate] at hx
    cases hv : (sortedExchanges defs)[k]? <;> simp [hv] at hx
    subst hx; rfl
  · intro k x hx
    rw [h2, getElem?_enumerate] at hx
    cases hv : (sortedAssets defs)[k]? <;> simp [hv] at hx
    subst hx; rfl
  · intro k x hx
    obtain ⟨_, _, hk, _⟩ := build_instrument_at defs ii h k x hx
    exact hk

/-- (1b) `unique`: the exchange table lists every distinct exchange of the input exactly once. -/
theorem unique_exchanges {defs : List Def} {ii : Indexed} (h : build defs = some ii) :
    (ii.exchanges.map (·.value)).Perm (specExchanges defs) := by
  obtain ⟨h1, _⟩ := build_some defs ii h
  rw [h1, map_value_enumerate]
  exact perm_sortDedup_specDistinct _ exchangeKey_inj _

/-- (1b) the asset table lists every distinct (exchange, asset) of the input exactly once. -/
theorem unique_assets {defs : List Def} {ii : Indexed} (h : build defs = some ii) :
    (ii.assets.map (·.value)).Perm (specAssets defs) := by
  obtain ⟨_, h2, _⟩ := build_some defs ii h
  rw [h2, map_value_enumerate]
  exact perm_sortDedup_specDistinct _ ExchangeAsset.sortKey_inj _

/-- (1b) the instrument table has one entry per distinct definition. -/
theorem count_instruments {defs : List Def} {ii : Indexed} (h : build defs = some ii) :
    ii.instruments.length = (specInstruments defs).length := by
  obtain ⟨_, _, h3, _⟩ := build_some defs ii h
  rw [h3]
  exact (perm_sortDedup_specDistinct _ Instrument.sortKey_inj _).length_eq

/-- (1b)+(3) `references_resolve`: reading every entry of the instrument table back through the
exchange and asset tables (positions only) gives exactly the distinct definitions of the input, each
once – every instrument's exchange, base, quote, settlement and quantity-unit references point at
the entries it was defined with. -/
theorem references_resolve {defs : List Def} {ii : Indexed} (h : build defs = some ii)
    (hwf : WFAssets defs) :
    (ii.instruments.map (fun x => resolve ii x.value)).Perm ((specInstruments defs).map some) := by
  have e : ii.instruments.map (fun x => resolve ii x.value) = (sortedDefs defs).map some := by
    obtain ⟨_, _, h3, _⟩ := build_some defs ii h
    apply List.ext_getElem?; intro k
    rw [List.getElem?_map, List.getElem?_map]
    cases hx : ii.instruments[k]? with
    | none =>
      have : (sortedDefs defs)[k]? = none := by
        rw [List.getElem?_eq_none_iff] at hx ⊢; omega
      simp [this]
    | some x =>
      obtain ⟨d, hd, _, _, _, _, _, hr⟩ := build_instrument_at defs ii h k x hx
      simp [hd, hr hwf]
  rw [e]
  exact (perm_sortDedup_specDistinct _ Instrument.sortKey_inj _).map some

/-- (3) without any hypothesis: every instrument's exchange reference points at the entry of the
exchange it was defined with, and lookups by name succeed for everything a definition mentions. -/
theorem exchange_reference_resolves {defs : List Def} {ii : Indexed} (h : build defs = some ii)
    (k : Nat) (x : Keyed Nat IInstrument) (hx : ii.instruments[k]? = some x) :
    ii.exchanges[x.value.exchange.key]? = some x.value.exchange ∧
      ∃ d ∈ defs, x.value.exchange.value = d.exchange ∧ x.value.nameInternal = d.nameInternal ∧
        x.value.nameExchange = d.nameExchange := by
  obtain ⟨d, hd, _, hev, hek, hn, hne, _⟩ := build_instrument_at defs ii h k x hx
  obtain ⟨h1, _⟩ := build_some defs ii h
  refine ⟨?_, d, (mem_sortedDefs _ _).mp (List.mem_iff_getElem?.mpr ⟨_, hd⟩), hev, hn, hne⟩
  rw [h1, getElem?_enumerate, hek, ← hev]; rfl

/-- (4) `order_independent`: the result depends only on the *set* of definitions – not on the
insertion order, and not on how often a definition is repeated. -/
theorem order_independent (l1 l2 : List Def) (hmem : ∀ d, d ∈ l1 ↔ d ∈ l2) : build l1 = build l2 := by
  have e1 : sortedExchanges l1 = sortedExchanges l2 :=
    sortDedup_congr _ exchangeKey_inj _ _ (fun e => by
      simp only [List.mem_map]
      constructor <;> rintro ⟨d, hd, rfl⟩
      · exact ⟨d, (hmem d).mp hd, rfl⟩
      · exact ⟨d, (hmem d).mpr hd, rfl⟩)
  have e2 : sortedAssets l1 = sortedAssets l2 :=
    sortDedup_congr _ ExchangeAsset.sortKey_inj _ _ (fun x => by
      simp only [List.mem_flatMap]
      constructor <;> rintro ⟨d, hd, hx⟩
      · exact ⟨d, (hmem d).mp hd, hx⟩
      · exact ⟨d, (hmem d).mpr hd, hx⟩)
  have e3 : sortedDefs l1 = sortedDefs l2 := sortDedup_congr _ Instrument.sortKey_inj _ _ hmem
  rw [build_eq, build_eq, e1, e2, e3]

/-- (4) in particular for every permutation of the input. -/
theorem order_independent_perm (l1 l2 : List Def) (h : l1.Perm l2) : build l1 = build l2 :=
  order_independent l1 l2 (fun _ => h.mem_iff)

/-- (2) `lookups_inverse`, exchanges: `find_exchange_index` and `find_exchange` are mutual inverses
(as partial functions: each is defined exactly where the other hits it). -/
theorem lookups_inverse_exchange {defs : List Def} {ii : Indexed} (h : build defs = some ii)
    (e k : Nat) : ii.findExchangeIndex e = some k ↔ ii.findExchange k = some e := by
  rw [findExchange_eq defs ii h]
  obtain ⟨h1, _⟩ := build_some defs ii h
  simp only [Indexed.findExchangeIndex, h1]
  exact findExchange_iff _ (nodup_sortedExchanges defs) e k

/-- (2) assets: `find_asset_index (exchange, name_internal)` and `find_asset` are mutual inverses. -/
theorem lookups_inverse_asset {defs : List Def} {ii : Indexed} (h : build defs = some ii)
    (hwf : WFAssets defs) (e ni k : Nat) :
    ii.findAssetIndex e ni = some k ↔ ∃ ne, ii.findAsset k = some ⟨e, ⟨ni, ne⟩⟩ := by
  rw [findAsset_eq defs ii h]
  obtain ⟨_, h2, _⟩ := build_some defs ii h
  simp only [Indexed.findAssetIndex, h2, findAsset_enumerate]
  rw [findIdx?_eq_some_iff_unique _ _ (nodup_sortedAssets defs)]
  · constructor
    · rintro ⟨x, hx, hp⟩
      obtain ⟨xe, ⟨xi, xn⟩⟩ := x
      simp only [decide_eq_true_eq] at hp
      obtain ⟨rfl, rfl⟩ := hp
      exact ⟨xn, hx⟩
    · rintro ⟨ne, hx⟩
      exact ⟨_, hx, by simp⟩
  · intro x hx y hy px py
    simp only [decide_eq_true_eq] at px py
    exact hwf x ((mem_sortedAssets _ _).mp hx) y ((mem_sortedAssets _ _).mp hy)
      (by rw [px.1, py.1]) (by rw [px.2, py.2])

/-- (2) instruments: `find_instrument_index (exchange, name_internal)` and `find_instrument` are
mutual inverses. -/
theorem lookups_inverse_instrument {defs : List Def} {ii : Indexed} (h : build defs = some ii)
    (hwf : WFNames defs) (e ni k : Nat) :
    ii.findInstrumentIndex e ni = some k ↔
      ∃ i, ii.findInstrument k = some i ∧ i.exchange.value = e ∧ i.nameInternal = ni := by
  rw [findInstrument_eq defs ii h, findInstrumentIndex_eq defs ii h,
    findIdx?_eq_some_iff_unique_pos]
  · simp only [List.getElem?_map, decide_eq_true_eq]
  · intro j1 j2 x y hx hy px py
    simp only [List.getElem?_map, Option.map_eq_some_iff] at hx hy
    obtain ⟨x', hx', rfl⟩ := hx
    obtain ⟨y', hy', rfl⟩ := hy
    simp only [decide_eq_true_eq] at px py
    exact instrument_name_pos_unique defs ii h hwf j1 j2 x' y' hx' hy' (by rw [px.2, py.2])

/-- (2)+(3) every definition of the input is found by name, at exactly one index, and the entry
found there reads back – through the exchange and asset tables – as that definition. -/
theorem resolve_by_name {defs : List Def} {ii : Indexed} (h : build defs = some ii)
    (hwf : WFInstruments defs) (d : Def) (hd : d ∈ defs) :
    ∃ k x, ii.findInstrumentIndex d.exchange d.nameInternal = some k ∧
      ii.instruments[k]? = some x ∧ x.key = k ∧ resolve ii x.value = some d ∧
      ∀ k' x', ii.instruments[k']? = some x' → resolve ii x'.value = some d → k' = k := by
  obtain ⟨k, hk⟩ := List.mem_iff_getElem?.mp ((mem_sortedDefs defs d).mpr hd)
  obtain ⟨_, _, _, hget⟩ := build_some defs ii h
  obtain ⟨i, hi, he, _, hn, _, hr⟩ := hget k d hk
  refine ⟨k, ⟨k, i⟩, ?_, hi, rfl, hr hwf.1, ?_⟩
  · rw [lookups_inverse_instrument h hwf.2, findInstrument_eq defs ii h, hi]
    exact ⟨i, rfl, he, hn⟩
  · intro k' x' hx' hr'
    obtain ⟨d', hd', _, _, _, _, _, hr''⟩ := build_instrument_at defs ii h k' x' hx'
    have : d' = d := by have := hr'' hwf.1; rw [hr'] at this; cases this; rfl
    subst this
    have hlt : k' < (sortedDefs defs).length := (List.getElem?_eq_some_iff.mp hd').1
    exact (List.getElem?_inj hlt (nodup_sortedDefs defs)).mp (by rw [hd', hk])

/-- (5) `tables_aligned`, engine instrument states (`generate_indexed_instrument_states`): the
`IndexMap` holds at position `k` the state generated from the instrument with index `k` (its key,
and its definition with the exchange mapped to the exchange index). -/
theorem tables_aligned_instruments {defs : List Def} {ii : Indexed} (h : build defs = some ii)
    (hwf : WFNames defs) (k : Nat) :
    getIndex (instrumentStates ii) k =
      ii.instruments[k]?.map (fun x => (x.key, x.value.mapExchangeKey x.value.exchange.key)) := by
  rw [getIndex, instrumentStates_eq defs ii h hwf, List.getElem?_map, Option.map_map]; rfl

/-- (5) engine asset states (`generate_empty_indexed_asset_states`): position `k` holds the asset
with index `k`, keyed by its exchange and internal name. -/
theorem tables_aligned_assets {defs : List Def} {ii : Indexed} (h : build defs = some ii)
    (hwf : WFAssets defs) (k : Nat) :
    (assetStates ii)[k]? = ii.assets[k]?.map (fun x =>
      ((x.value.exchange, x.value.asset.nameInternal), x.value.asset)) := by
  rw [assetStates_eq defs ii h hwf, List.getElem?_map]

/-- (5) connectivity states (`generate_empty_indexed_connectivity_states`): position `k` is the
exchange with index `k` (no hypothesis). -/
theorem tables_aligned_connectivity {defs : List Def} {ii : Indexed} (h : build defs = some ii)
    (k : Nat) : (connectivityStates ii)[k]? = ii.exchanges[k]?.map (fun x => (x.value, ())) := by
  rw [connectivityStates_eq defs ii h, List.getElem?_map]

/-- (5) execution transmitters (`ExecutionBuilder::build`): whatever executions were added (in any
order), `build` does not panic and slot `k` belongs to the exchange with index `k`, holding a
transmitter exactly when an execution was added for that exchange (no hypothesis). -/
theorem tables_aligned_exec {defs : List Def} {ii : Indexed} (h : build defs = some ii)
    (es : List Nat) (txs : List (Nat × Nat)) (hadd : execAddAll ii [] es = some txs) :
    ∃ tab, execBuild ii txs = some tab ∧
      ∀ k : Nat, tab[k]? = ii.exchanges[k]?.map (fun x => (x.value, decide (x.value ∈ es))) := by
  refine ⟨_, execBuild_eq defs ii h es txs hadd, fun k => ?_⟩
  rw [List.getElem?_map]

/-- (5) the hypothesis of `tables_aligned_exec` is satisfiable for every duplicate-free choice of
indexed exchanges: `add_execution` succeeds for each of them, in any order. -/
theorem exec_add_total {defs : List Def} {ii : Indexed} (h : build defs = some ii) (es : List Nat)
    (hn : es.Nodup) (hin : ∀ e ∈ es, ∃ d ∈ defs, d.exchange = e) :
    ∃ txs, execAddAll ii [] es = some txs :=
  execAddAll_total ii es [] (by simp) hn (fun e he => by
    obtain ⟨d, hd, rfl⟩ := hin e he
    exact findExchange_total defs ii h d hd)

/-- (5) reading instrument `k` through the engine's instrument, connectivity and asset tables
(positions only) gives its index and the definition it was built from. -/
theorem engine_tables_resolve {defs : List Def} {ii : Indexed} (h : build defs = some ii)
    (hwf : WFInstruments defs) (d : Def) (hd : d ∈ defs) :
    ∃ k, ii.findInstrumentIndex d.exchange d.nameInternal = some k ∧
      resolveEngine ii k = some (k, d) := by
  obtain ⟨k, x, hf, hx, _, hr, _⟩ := resolve_by_name h hwf d hd
  exact ⟨k, hf, by rw [resolveEngine_eq defs ii h hwf k x hx, hr]; rfl⟩

/-! ## Non-vacuity

A collection with two exchanges sharing asset names (with different exchange names), a repeated
definition, a perpetual with a settlement asset and a spec in asset units: it satisfies both
hypotheses, the builder succeeds with 2 exchanges / 5 assets / 3 instruments, and a reordering
with another multiplicity gives the same result. A collection violating `WFAssets` exists too, so
the hypothesis is not trivially true. -/

def exDefs : List Def :=
  [ ⟨1, 7, 7, ⟨1, 11⟩, ⟨2, 12⟩, 1, .spot, none⟩,
    ⟨0, 5, 5, ⟨1, 1⟩, ⟨2, 2⟩, 1, .perpetual 1 ⟨3, 3⟩, some ⟨1, 1, .asset ⟨1, 1⟩, 1, 1, 1⟩⟩,
    ⟨1, 7, 7, ⟨1, 11⟩, ⟨2, 12⟩, 1, .spot, none⟩,
    ⟨0, 6, 6, ⟨2, 2⟩, ⟨1, 1⟩, 0, .spot, none⟩ ]

example : WFInstruments exDefs := by decide
example : ∃ ii, build exDefs = some ii ∧ ii.exchanges.length = 2 ∧ ii.assets.length = 5 ∧
    ii.instruments.length = 3 := by
  obtain ⟨ii, h⟩ := build_total exDefs
  refine ⟨ii, h, ?_, ?_, ?_⟩
  · have := (unique_exchanges h).length_eq
    rw [List.length_map] at this; rw [this]; decide
  · have := (unique_assets h).length_eq
    rw [List.length_map] at this; rw [this]; decide
  · rw [count_instruments h]; decide
example : build exDefs = build (exDefs.reverse ++ exDefs.take 2) :=
  order_independent _ _ (by intro d; simp [exDefs]; grind)
example : ¬ WFAssets [⟨0, 5, 5, ⟨1, 1⟩, ⟨1, 2⟩, 1, .spot, none⟩] := by decide
example : ¬ WFNames [⟨0, 5, 5, ⟨1, 1⟩, ⟨2, 2⟩, 1, .spot, none⟩, ⟨1, 5, 5, ⟨1, 1⟩, ⟨2, 2⟩, 1, .spot, none⟩] := by
  decide

/-! ## Review round 2 (audit/REVIEW-notes.md, section C11)

Additions answering the independent review: a weaker sufficient hypothesis for the instrument
lookups (C11-3), a hypothesis-free "every definition is indexed exactly once" (C11-4), and
kernel-checked witnesses that show what the model – and, by the correspondence run, the code – does
at the two points the hypotheses `WFNames` / `WFAssets` exclude (C11-1, C11-2).

Status of the hypotheses. `WFNames` is the *documented* precondition of the code, not a silent
restriction of this file: `/repo/barter-instrument/src/instrument/name.rs:7-10` documents
`InstrumentNameInternal` as

> "Barter lowercase `SmolStr` representation for an [`Instrument`](super::Instrument) - unique
> across all exchanges. Note: Binance btc_usdt spot is not considered the same instrument as
> Bitfinex btc_usdt spot."

and `InstrumentNameInternal::new` (name.rs:15-17) repeats "Should be unique across exchanges."
Nothing in the code enforces it (`IndexedInstruments::new` accepts any collection), and the
engine's `InstrumentStates` is an `IndexMap` keyed by that name alone
(`barter/src/engine/state/instrument/mod.rs:419-452`), which is where a violation bites
(`shared_internal_name_witness`). `WFAssets` has no such sentence in the documentation
(`asset/name.rs:6-11` only says internal asset names are "not unique across exchanges" and that an
exchange may call "btc" "xbt"): it stays a hypothesis of this file, with its excluded point made
visible by `asset_two_exchange_names_witness`. -/

/-- Per-exchange uniqueness of instrument internal names: what `find_instrument_index` actually
keys on (exchange id *and* internal name, index/mod.rs:142-157). Strictly weaker than `WFNames`
(`wfNamesEx_of_wfNames`; `twoEx` below satisfies it and violates `WFNames`). -/
def WFNamesEx (defs : List Def) : Prop :=
  ∀ a ∈ defs, ∀ b ∈ defs, a.exchange = b.exchange → a.nameInternal = b.nameInternal → a = b

instance (defs : List Def) : Decidable (WFNamesEx defs) := by unfold WFNamesEx; infer_instance

/-- The documented precondition `WFNames` (names unique across all exchanges) implies the
per-exchange one, so `lookups_inverse_instrument_weak` subsumes `lookups_inverse_instrument`
(review C11-3). No other hypothesis. -/
theorem wfNamesEx_of_wfNames {defs : List Def} (h : WFNames defs) : WFNamesEx defs :=
  fun a ha b hb _ hn => h a ha b hb hn

/-- (2) instruments, minimal hypothesis (review C11-3): `find_instrument_index (exchange,
name_internal)` and `find_instrument` are mutual inverses as soon as internal names are unique
*within each exchange* (`WFNamesEx`); global uniqueness (`WFNames`) is not needed for the lookups.
Hypotheses: `build defs = some ii`, `WFNamesEx defs`. The statement is that of
`lookups_inverse_instrument`, which is kept unchanged. -/
theorem lookups_inverse_instrument_weak {defs : List Def} {ii : Indexed} (h : build defs = some ii)
    (hwf : WFNamesEx defs) (e ni k : Nat) :
    ii.findInstrumentIndex e ni = some k ↔
      ∃ i, ii.findInstrument k = some i ∧ i.exchange.value = e ∧ i.nameInternal = ni := by
  rw [findInstrument_eq defs ii h, findInstrumentIndex_eq defs ii h,
    findIdx?_eq_some_iff_unique_pos]
  · simp only [List.getElem?_map, decide_eq_true_eq]
  · intro j1 j2 x y hx hy px py
    simp only [List.getElem?_map, Option.map_eq_some_iff] at hx hy
    obtain ⟨x', hx', rfl⟩ := hx
    obtain ⟨y', hy', rfl⟩ := hy
    simp only [decide_eq_true_eq] at px py
    obtain ⟨d1, hd1, _, e1, _, n1, _⟩ := build_instrument_at defs ii h j1 x' hx'
    obtain ⟨d2, hd2, _, e2, _, n2, _⟩ := build_instrument_at defs ii h j2 y' hy'
    have m1 : d1 ∈ defs := (mem_sortedDefs _ _).mp (List.mem_iff_getElem?.mpr ⟨_, hd1⟩)
    have m2 : d2 ∈ defs := (mem_sortedDefs _ _).mp (List.mem_iff_getElem?.mpr ⟨_, hd2⟩)
    have e : d1 = d2 :=
      hwf d1 m1 d2 m2 (by rw [← e1, ← e2, px.1, py.1]) (by rw [← n1, ← n2, px.2, py.2])
    subst e
    have hlt : j1 < (sortedDefs defs).length := (List.getElem?_eq_some_iff.mp hd1).1
    exact (List.getElem?_inj hlt (nodup_sortedDefs defs)).mp (by rw [hd1, hd2])

/-- (1b) **every instrument definition is indexed exactly once – no hypothesis** (review C11-4).
For every input list `defs` (any order, repeats, ill-formed names or assets) on which `build`
succeeds (it always does, `build_total`) there is a list `ds` of definitions such that
* `ds` has no repeats and exactly the members of `defs` – so every distinct definition of the
  input occurs in `ds` exactly once (`count = 1`), and `ds` is a permutation of `specInstruments`;
* the instrument table has the length of `ds`, has no repeated entry, and its entry at position
  `k` *is* the builder's indexing closure (builder.rs:88-113) applied to the `k`-th definition of
  `ds` with index `k`: it carries key `k` and that definition's exchange id, internal name and
  exchange name.
So positions of the instrument table and distinct definitions of the input correspond one to one.
What is *not* claimed without `WFAssets` is that the asset keys of entry `k` read back to the
assets of that definition (`references_resolve` needs `WFAssets`;
`asset_two_exchange_names_witness` shows why), which is also why "exactly once" is stated through
the positions of `ds` and not by counting read-back definitions in the output: at the excluded
point two distinct definitions can be indexed to entries that differ in their key only. -/
theorem each_instrument_exactly_once {defs : List Def} {ii : Indexed} (h : build defs = some ii) :
    ∃ ds : List Def,
      ds.Nodup ∧ (∀ d, d ∈ ds ↔ d ∈ defs) ∧ (∀ d ∈ defs, ds.count d = 1) ∧
      ds.Perm (specInstruments defs) ∧
      ii.instruments.length = ds.length ∧ ii.instruments.Nodup ∧
      ∀ (k : Nat) (d : Def), ds[k]? = some d →
        ii.instruments[k]? = indexInstrument ii.exchanges ii.assets ⟨k, d⟩ ∧
        ∃ i : IInstrument, ii.instruments[k]? = some ⟨k, i⟩ ∧ i.exchange.value = d.exchange ∧
          i.nameInternal = d.nameInternal ∧ i.nameExchange = d.nameExchange := by
  obtain ⟨_, _, hlen, hget⟩ := build_some defs ii h
  have hnd := nodup_sortedDefs defs
  refine ⟨sortedDefs defs, hnd, mem_sortedDefs defs, ?_,
    perm_sortDedup_specDistinct _ Instrument.sortKey_inj _, hlen, ?_, ?_⟩
  · intro d hd
    have h1 := List.nodup_iff_count.mp hnd d
    have h2 := List.count_pos_iff.mpr ((mem_sortedDefs defs d).mpr hd)
    omega
  · rw [List.nodup_iff_pairwise_ne, List.pairwise_iff_getElem]
    intro j1 j2 hj1 hj2 hlt he
    obtain ⟨_, _, k1, _⟩ := build_instrument_at defs ii h j1 _ (List.getElem?_eq_getElem hj1)
    obtain ⟨_, _, k2, _⟩ := build_instrument_at defs ii h j2 _ (List.getElem?_eq_getElem hj2)
    rw [he] at k1
    omega
  · intro k d hk
    obtain ⟨i, hi, he, _, hn, hne, _⟩ := hget k d hk
    refine ⟨?_, i, hi, he, hn, hne⟩
    obtain ⟨ins, hb, _, hg⟩ := build_spec defs
    rw [hb] at h; cases h
    exact hg k d hk

/-! ### The excluded points, made visible

`build` sorts with `List.mergeSort` (well-founded recursion: does not reduce in the kernel), so the
two concrete results below are obtained through `build_eq_of_tables` (Lemmas/Review2_C11.lean: a
strictly ascending list with the same members *is* the sorted, deduplicated list) and then
`decide +kernel` on the traversal. -/

/-- The same instrument `name_internal` (5) on two exchanges (0 and 1): violates `WFNames`,
satisfies `WFNamesEx` and `WFAssets`. -/
def twoEx : List Def :=
  [⟨0, 5, 5, ⟨1, 1⟩, ⟨2, 2⟩, 1, .spot, none⟩, ⟨1, 5, 5, ⟨1, 1⟩, ⟨2, 2⟩, 1, .spot, none⟩]

/-- What `build twoEx` returns. -/
def twoExIndexed : Indexed :=
  { exchanges := [⟨0, 0⟩, ⟨1, 1⟩],
    assets := [⟨0, ⟨0, ⟨1, 1⟩⟩⟩, ⟨1, ⟨0, ⟨2, 2⟩⟩⟩, ⟨2, ⟨1, ⟨1, 1⟩⟩⟩, ⟨3, ⟨1, ⟨2, 2⟩⟩⟩],
    instruments := [⟨0, ⟨⟨0, 0⟩, 5, 5, 0, 1, 1, .spot, none⟩⟩, ⟨1, ⟨⟨1, 1⟩, 5, 5, 2, 3, 1, .spot, none⟩⟩] }

/-- Concrete evaluation of the builder on `twoEx` (kernel-checked). -/
theorem build_twoEx : build twoEx = some twoExIndexed := by
  rw [build_eq_of_tables twoEx [0, 1] [⟨0, ⟨1, 1⟩⟩, ⟨0, ⟨2, 2⟩⟩, ⟨1, ⟨1, 1⟩⟩, ⟨1, ⟨2, 2⟩⟩] twoEx
    (by decide) (by decide) (by decide) (by decide) (by decide) (by decide) (by decide)
    (by decide) (by decide)]
  decide +kernel

/-- **Witness for the point `WFNames` excludes** (review C11-2): the same `name_internal` on two
exchanges. Concrete, kernel-checked, no hypothesis. On `twoEx`
* the index itself is fine: 2 instruments, and the lookups by (exchange, name) still find index 0
  resp. 1 (this is `lookups_inverse_instrument_weak`: `WFNamesEx twoEx` holds);
* but the engine's `InstrumentStates` (`generate_indexed_instrument_states`, an `IndexMap` keyed by
  `name_internal` alone) comes out SHORTER than the index – 1 entry for 2 instruments: the second
  insert overwrites the first, so position 0 holds the state of the instrument with index **1**
  and position 1 does not exist. Position ≠ index: the conclusion of `tables_aligned_instruments`
  is false at `k = 0` (last clause), and `getIndex … 1 = none` is the point where the code's
  `InstrumentStates::instrument_index(1)` panics ("InstrumentStates does not contain",
  engine/state/instrument/mod.rs:63-68; the reviewer observed the panic on the real code).
This violates the documented precondition quoted in the section header ("unique across all
exchanges", name.rs:7-10); the witness records that the code does not check it. -/
theorem shared_internal_name_witness :
    WFNamesEx twoEx ∧ WFAssets twoEx ∧ ¬ WFNames twoEx ∧
    ∃ ii, build twoEx = some ii ∧
      ii.instruments.length = 2 ∧ (instrumentStates ii).length = 1 ∧
      ii.findInstrumentIndex 0 5 = some 0 ∧ ii.findInstrumentIndex 1 5 = some 1 ∧
      (getIndex (instrumentStates ii) 0).map (·.1) = some 1 ∧
      getIndex (instrumentStates ii) 1 = none ∧
      getIndex (instrumentStates ii) 0 ≠
        ii.instruments[0]?.map (fun x => (x.key, x.value.mapExchangeKey x.value.exchange.key)) :=
  ⟨by decide, by decide, by decide, twoExIndexed, build_twoEx, by decide +kernel⟩

/-- One exchange (0), one asset internal name (1) under two exchange names (9 in the first
definition, 1 in the second): violates `WFAssets`, satisfies `WFNames`. -/
def badAssets : List Def :=
  [⟨0, 5, 5, ⟨1, 9⟩, ⟨2, 2⟩, 1, .spot, none⟩, ⟨0, 6, 6, ⟨1, 1⟩, ⟨2, 2⟩, 1, .spot, none⟩]

/-- What `build badAssets` returns. -/
def badAssetsIndexed : Indexed :=
  { exchanges := [⟨0, 0⟩],
    assets := [⟨0, ⟨0, ⟨1, 1⟩⟩⟩, ⟨1, ⟨0, ⟨1, 9⟩⟩⟩, ⟨2, ⟨0, ⟨2, 2⟩⟩⟩],
    instruments := [⟨0, ⟨⟨0, 0⟩, 5, 5, 0, 2, 1, .spot, none⟩⟩, ⟨1, ⟨⟨0, 0⟩, 6, 6, 0, 2, 1, .spot, none⟩⟩] }

/-- Concrete evaluation of the builder on `badAssets` (kernel-checked). -/
theorem build_badAssets : build badAssets = some badAssetsIndexed := by
  rw [build_eq_of_tables badAssets [0] [⟨0, ⟨1, 1⟩⟩, ⟨0, ⟨1, 9⟩⟩, ⟨0, ⟨2, 2⟩⟩] badAssets
    (by decide) (by decide) (by decide) (by decide) (by decide) (by decide) (by decide)
    (by decide) (by decide)]
  decide +kernel

/-- **Witness for the point `WFAssets` excludes** (review C11-1): on one exchange, one asset
internal name under two different exchange names. Concrete, kernel-checked, no hypothesis. On
`badAssets`
* the asset table gets TWO entries for (exchange 0, internal name 1) – indices 0 and 1 – because
  the builder deduplicates whole `ExchangeAsset`s, exchange name included;
* the lookups do not round-trip: `find_asset 1` is an asset named (0, 1), yet
  `find_asset_index (0, 1)` answers 0 (first match) – the `←` direction of `lookups_inverse_asset`
  fails at `k = 1`;
* both instruments get base asset key 0, so the definition given with base `⟨1, 9⟩` (it is a
  member of the input) reads back with base `⟨1, 1⟩`: no entry of the instrument table resolves
  to it – the conclusion of `references_resolve` fails;
* the engine's `AssetStates` (`generate_empty_indexed_asset_states`, `IndexMap` keyed by
  (exchange, internal name)) has 2 entries for 3 indexed assets: position 0 holds the asset data
  of index **1** (`⟨1, 9⟩` overwrote `⟨1, 1⟩`), position 1 holds the asset with index 2, and
  position 2 does not exist (`AssetStates::asset_index(2)` panics,
  engine/state/asset/mod.rs:33-38) – the conclusion of `tables_aligned_assets` fails.
Unlike `WFNames`, this precondition is not written in the code's documentation (see the section
header); it remains a hypothesis of `references_resolve`, `lookups_inverse_asset`,
`tables_aligned_assets`, `resolve_by_name` and `engine_tables_resolve`. -/
theorem asset_two_exchange_names_witness :
    ¬ WFAssets badAssets ∧ WFNames badAssets ∧
    ∃ ii, build badAssets = some ii ∧
      ii.assets.map (·.value) = [⟨0, ⟨1, 1⟩⟩, ⟨0, ⟨1, 9⟩⟩, ⟨0, ⟨2, 2⟩⟩] ∧
      ii.findAsset 1 = some ⟨0, ⟨1, 9⟩⟩ ∧ ii.findAssetIndex 0 1 = some 0 ∧
      (ii.instruments.map (fun x => resolve ii x.value)) =
        [some ⟨0, 5, 5, ⟨1, 1⟩, ⟨2, 2⟩, 1, .spot, none⟩,
         some ⟨0, 6, 6, ⟨1, 1⟩, ⟨2, 2⟩, 1, .spot, none⟩] ∧
      (⟨0, 5, 5, ⟨1, 9⟩, ⟨2, 2⟩, 1, .spot, none⟩ : Def) ∈ badAssets ∧
      (∀ x ∈ ii.instruments, resolve ii x.value ≠ some ⟨0, 5, 5, ⟨1, 9⟩, ⟨2, 2⟩, 1, .spot, none⟩) ∧
      ii.assets.length = 3 ∧ (assetStates ii).length = 2 ∧
      (assetStates ii)[0]? = some ((0, 1), ⟨1, 9⟩) ∧
      (assetStates ii)[1]? = some ((0, 2), ⟨2, 2⟩) ∧ (assetStates ii)[2]? = none :=
  ⟨by decide, by decide, badAssetsIndexed, build_badAssets, by decide +kernel⟩

/-! Non-vacuity of the new hypothesis: the file's well-formed example satisfies `WFNamesEx`, and
`WFNamesEx` is strictly weaker than `WFNames` (on `twoEx`) but not trivially true. -/
example : WFNamesEx exDefs := by decide
example : WFNamesEx twoEx ∧ ¬ WFNames twoEx := by decide
example : ¬ WFNamesEx [⟨0, 5, 5, ⟨1, 1⟩, ⟨2, 2⟩, 1, .spot, none⟩, ⟨0, 5, 6, ⟨1, 1⟩, ⟨2, 2⟩, 1, .spot, none⟩] := by
  decide

/-! ## Oracle review C11-M1: the narrowest hypothesis of every key of the spec driver

The `spec` mode of `Driver/C11.lean` used to drop `res` and `rt` whenever `WFAssets ∧ WFNames`
failed. What each key really needs:
* `resx` (the exchange an instrument found by name reads back to) and the first bit of `rt`
  (exchange round trips): nothing — `exchange_resolves_by_name`, `rt_exchanges`;
* the second bit of `rt` (asset round trips): `WFAssets` — `rt_assets`;
* the third bit of `rt` (instrument round trips): per-exchange uniqueness of names,
  `WFNamesPerExchange` = `WFNamesEx` — `rt_instruments_weak`;
* `res` (the whole definition read back): `WFAssets ∧ WFNamesPerExchange` — `resolve_by_name_weak`;
* `eres` / `eresm` (the engine's name-keyed tables): `WFAssets ∧ WFNames`, unchanged
  (`engine_tables_resolve`; `shared_internal_name_witness` shows the global form is needed there). -/

/-- The decidable gate of the spec driver is the hypothesis of the `_weak` theorems. -/
theorem wfNamesPerExchange_iff (defs : List Def) : WFNamesPerExchange defs ↔ WFNamesEx defs := Iff.rfl

/-- (spec key `resx`, NO hypothesis) Every definition of the input is found by
`find_instrument_index (exchange, name_internal)`, and whatever entry is found there — for an
ill-formed collection it may be another definition with the same exchange and name — carries an
exchange reference that points at the entry of THAT exchange in the exchange table. -/
theorem exchange_resolves_by_name {defs : List Def} {ii : Indexed} (h : build defs = some ii)
    (d : Def) (hd : d ∈ defs) :
    ∃ k x, ii.findInstrumentIndex d.exchange d.nameInternal = some k ∧ ii.instruments[k]? = some x ∧
      ii.exchanges[x.value.exchange.key]? = some x.value.exchange ∧
      x.value.exchange.value = d.exchange ∧ x.value.nameInternal = d.nameInternal := by
  obtain ⟨j, hj⟩ := List.mem_iff_getElem?.mp ((mem_sortedDefs defs d).mpr hd)
  obtain ⟨_, _, _, hget⟩ := build_some defs ii h
  obtain ⟨i, hi, he, _, hn, _, _⟩ := hget j d hj
  rw [findInstrumentIndex_eq defs ii h]
  cases hf : (ii.instruments.map (·.value)).findIdx?
      (fun i => decide (i.exchange.value = d.exchange ∧ i.nameInternal = d.nameInternal)) with
  | none =>
    exfalso
    rw [List.findIdx?_eq_none_iff] at hf
    have hm : i ∈ ii.instruments.map (·.value) :=
      List.mem_map.mpr ⟨⟨j, i⟩, List.mem_iff_getElem?.mpr ⟨j, hi⟩, rfl⟩
    have := hf i hm
    simp [he, hn] at this
  | some k =>
    rw [List.findIdx?_eq_some_iff_getElem] at hf
    obtain ⟨hk, hp, _⟩ := hf
    have hk' : k < ii.instruments.length := by simpa using hk
    have hx : ii.instruments[k]? = some ii.instruments[k] := List.getElem?_eq_getElem hk'
    simp only [List.getElem_map, decide_eq_true_eq] at hp
    exact ⟨k, ii.instruments[k], rfl, hx, (exchange_reference_resolves h k _ hx).1, hp.1, hp.2⟩

/-- (spec key `res`, minimal hypotheses) `resolve_by_name` with per-exchange uniqueness of names in
place of the global one: every definition is found by name at exactly one index and the entry found
reads back — through the exchange and asset tables, positions only — as that definition.
Hypotheses: `WFAssets defs`, `WFNamesEx defs`. -/
theorem resolve_by_name_weak {defs : List Def} {ii : Indexed} (h : build defs = some ii)
    (hwa : WFAssets defs) (hwn : WFNamesEx defs) (d : Def) (hd : d ∈ defs) :
    ∃ k x, ii.findInstrumentIndex d.exchange d.nameInternal = some k ∧
      ii.instruments[k]? = some x ∧ x.key = k ∧ resolve ii x.value = some d ∧
      ∀ k' x', ii.instruments[k']? = some x' → resolve ii x'.value = some d → k' = k := by
  obtain ⟨k, hk⟩ := List.mem_iff_getElem?.mp ((mem_sortedDefs defs d).mpr hd)
  obtain ⟨_, _, _, hget⟩ := build_some defs ii h
  obtain ⟨i, hi, he, _, hn, _, hr⟩ := hget k d hk
  refine ⟨k, ⟨k, i⟩, ?_, hi, rfl, hr hwa, ?_⟩
  · rw [lookups_inverse_instrument_weak h hwn, findInstrument_eq defs ii h, hi]
    exact ⟨i, rfl, he, hn⟩
  · intro k' x' hx' hr'
    obtain ⟨d', hd', _, _, _, _, _, hr''⟩ := build_instrument_at defs ii h k' x' hx'
    have : d' = d := by have := hr'' hwa; rw [hr'] at this; cases this; rfl
    subst this
    have hlt : k' < (sortedDefs defs).length := (List.getElem?_eq_some_iff.mp hd').1
    exact (List.getElem?_inj hlt (nodup_sortedDefs defs)).mp (by rw [hd', hk])

/-- (first bit of the spec key `rt`, NO hypothesis) Exchange round trips: every position of the
exchange table is found by `find_exchange` and `find_exchange_index` leads back to it; the exchange
of every definition is found by id and `find_exchange` leads back to the id. -/
theorem rt_exchanges {defs : List Def} {ii : Indexed} (h : build defs = some ii) :
    (∀ k, k < ii.exchanges.length →
      ∃ e, ii.findExchange k = some e ∧ ii.findExchangeIndex e = some k) ∧
    (∀ d ∈ defs, ∃ k, ii.findExchangeIndex d.exchange = some k ∧ ii.findExchange k = some d.exchange) := by
  obtain ⟨h1, _⟩ := build_some defs ii h
  refine ⟨?_, ?_⟩
  · intro k hk
    have hk' : k < (sortedExchanges defs).length := by rw [h1, length_enumerate] at hk; exact hk
    refine ⟨(sortedExchanges defs)[k], ?_, ?_⟩
    · rw [findExchange_eq defs ii h]; exact List.getElem?_eq_getElem hk'
    · rw [lookups_inverse_exchange h, findExchange_eq defs ii h]; exact List.getElem?_eq_getElem hk'
  · intro d hd
    obtain ⟨k, hk⟩ := findExchange_total defs ii h d hd
    exact ⟨k, hk, (lookups_inverse_exchange h d.exchange k).mp hk⟩

/-- (second bit of `rt`, hypothesis `WFAssets`) Asset round trips, both directions. -/
theorem rt_assets {defs : List Def} {ii : Indexed} (h : build defs = some ii) (hwf : WFAssets defs) :
    (∀ k, k < ii.assets.length →
      ∃ a, ii.findAsset k = some a ∧ ii.findAssetIndex a.exchange a.asset.nameInternal = some k) ∧
    (∀ d ∈ defs, ∀ a ∈ defAssets d,
      ∃ k, ii.findAssetIndex a.exchange a.asset.nameInternal = some k ∧ ii.findAsset k = some a) := by
  obtain ⟨_, h2, _⟩ := build_some defs ii h
  refine ⟨?_, ?_⟩
  · intro k hk
    have hk' : k < (sortedAssets defs).length := by rw [h2, length_enumerate] at hk; exact hk
    have hfa : ii.findAsset k = some (sortedAssets defs)[k] := by
      rw [findAsset_eq defs ii h]; exact List.getElem?_eq_getElem hk'
    refine ⟨(sortedAssets defs)[k], hfa, ?_⟩
    rw [lookups_inverse_asset h hwf]
    refine ⟨(sortedAssets defs)[k].asset.nameExchange, ?_⟩
    rw [hfa]
  · intro d hd a ha
    have hm : a ∈ sortedAssets defs :=
      (mem_sortedAssets defs a).mpr (List.mem_flatMap.mpr ⟨d, hd, ha⟩)
    obtain ⟨k, hk⟩ := List.mem_iff_getElem?.mp hm
    have hfa : ii.findAsset k = some a := by rw [findAsset_eq defs ii h]; exact hk
    refine ⟨k, ?_, hfa⟩
    rw [lookups_inverse_asset h hwf]
    exact ⟨a.asset.nameExchange, by rw [hfa]⟩

/-- (third bit of `rt`, hypothesis `WFNamesEx` only) Instrument round trips, both directions; the
entry found for a definition carries its exchange, internal name and exchange name. -/
theorem rt_instruments_weak {defs : List Def} {ii : Indexed} (h : build defs = some ii)
    (hwn : WFNamesEx defs) :
    (∀ k, k < ii.instruments.length →
      ∃ i, ii.findInstrument k = some i ∧
        ii.findInstrumentIndex i.exchange.value i.nameInternal = some k) ∧
    (∀ d ∈ defs, ∃ k i, ii.findInstrumentIndex d.exchange d.nameInternal = some k ∧
      ii.findInstrument k = some i ∧ i.exchange.value = d.exchange ∧
      i.nameInternal = d.nameInternal ∧ i.nameExchange = d.nameExchange) := by
  refine ⟨?_, ?_⟩
  · intro k hk
    have hfi : ii.findInstrument k = some ii.instruments[k].value := by
      rw [findInstrument_eq defs ii h, List.getElem?_eq_getElem hk]; rfl
    exact ⟨_, hfi, (lookups_inverse_instrument_weak h hwn _ _ k).mpr ⟨_, hfi, rfl, rfl⟩⟩
  · intro d hd
    obtain ⟨k, hk⟩ := List.mem_iff_getElem?.mp ((mem_sortedDefs defs d).mpr hd)
    obtain ⟨_, _, _, hget⟩ := build_some defs ii h
    obtain ⟨i, hi, he, _, hn, hne, _⟩ := hget k d hk
    have hfi : ii.findInstrument k = some i := by rw [findInstrument_eq defs ii h, hi]; rfl
    exact ⟨k, i, (lookups_inverse_instrument_weak h hwn _ _ k).mpr ⟨i, hfi, he, hn⟩, hfi, he, hn, hne⟩

/-! Non-vacuity / strictness of the narrowed gate: on `twoEx` (one internal name on two exchanges)
the old gate `WFInstruments` fails while the new one holds, so `res` and `rt 1 1 1` are now demanded
there; `exDefs` satisfies both. -/
example : ¬ WFInstruments twoEx ∧ WFAssets twoEx ∧ WFNamesPerExchange twoEx := by decide
example : WFAssets exDefs ∧ WFNamesPerExchange exDefs := by decide

/-- **Tie to the source by translation: the index builder and the lookups.** `IndexedInstrumentsBuilder::{new,
add_instrument, build}` (barter-instrument/src/index/builder.rs), `IndexedInstruments::{new, builder, find_exchange_index,
find_exchange, find_asset_index, find_asset, find_instrument_index, find_instrument}` and the free
`find_exchange_by_exchange_id` / `find_asset_by_exchange_and_name_internal` (index/mod.rs), `Instrument::{map_exchange_key,
map_asset_key_with_lookup}`, `InstrumentKind::settlement_asset`, `ExchangeAsset::new`, `Underlying::new`, with the full
`Instrument`, `InstrumentKind` and its contracts, `InstrumentSpec*`, `OrderQuantityUnits`, `Asset`, `ExchangeAsset`,
`Keyed`, the index newtypes and `IndexError`, are regenerated from the current source by `tools/rust2lean_sm.py` on every
run (`Generated/Machines4.lean`, group `indexer`): `sort()` is core's stable `List.mergeSort` by an explicit ordering
parameter per element type (`#[derive(Ord)]` itself is not translated), `dedup()` removes consecutive equal elements,
`into_iter().enumerate().map(..).collect()` / `find` / `find_map` / `fold` are list functions, the closure handed to
`map_asset_key_with_lookup` a pure function value, the two `expect`s `Rust.unreachable`. For EVERY injective coding `cd`
of decimals and instants as the model's `Nat`s (one exists: `stdCoding`), through abstraction maps that are injective:
`add_instrument` IS the model's `Builder.addInstrument`; each of the eight lookups IS the model's (up to `toOption`: the
model does not say which `IndexError` a failed lookup carries); `map_asset_key_with_lookup` IS the model's
`mapAssetKeyWithLookup` for every lookup function; and under the hypothesis `OrdHyp` on the three untranslated ordering
parameters — each is the lexicographic order the model's sort keys spell out (satisfiable: `ordHyp_satisfiable`) —
`build` and `IndexedInstruments::new` return the model's `Builder.build` / `build` (the definitions `dense`,
`unique_*`, `references_resolve`, `order_independent`, `lookups_inverse_*` are about) wherever the model's does not panic,
which by `build_total` is always. The statement is that of `KernelsAgree.IndexerSM.indexer_agrees`
(Lemmas/KernelsAgree/IndexerSM.lean). -/
theorem index_builder_agrees_with_source :
    type_of% BarterModel.KernelsAgree.IndexerSM.indexer_agrees :=
  BarterModel.KernelsAgree.IndexerSM.indexer_agrees

end BarterModel.Props.C11
